import AscentVerif.Proofs.TrRelBasic
/-!
# `add_set_connection` only stores justified pairs

`ConnLe G t`: every pair stored in `set_connections` satisfies `G`, every pair stored in
`reverse_set_connections` satisfies `G` reversed.  For a transitive `G` with `G from to`,
`add_set_connection(from, to)` keeps `ConnLe G` (and touches nothing but the two maps).
-/
namespace AscentVerif.TrRel

structure ConnLe (G : Nat → Nat → Prop) (t : TrRel) : Prop where
  conn : MapLe G t.conn
  rconn : MapLe (fun a b => G b a) t.rconn

/-- the fields other than the two connection maps -/
def SameCore (t t' : TrRel) : Prop := t'.sets = t.sets ∧ t'.elemIds = t.elemIds ∧ t'.subs = t.subs

theorem SameCore.refl (t : TrRel) : SameCore t t := ⟨rfl, rfl, rfl⟩
theorem SameCore.trans {a b c : TrRel} (h : SameCore a b) (h' : SameCore b c) : SameCore a c :=
  ⟨h'.1.trans h.1, h'.2.1.trans h.2.1, h'.2.2.trans h.2.2⟩

theorem addOneConnection_le {G : Nat → Nat → Prop} {t : TrRel} (h : ConnLe G t) {f to : Nat} (hg : G f to) :
    ConnLe G (t.addOneConnection f to).1 ∧ SameCore t (t.addOneConnection f to).1 := by
  unfold TrRel.addOneConnection
  have hc := h.conn.insert hg
  rcases hei : entryInsert t.conn f to with ⟨conn1, isNew⟩
  rw [hei] at hc
  cases isNew with
  | false => exact ⟨⟨hc, h.rconn⟩, rfl, rfl, rfl⟩
  | true => exact ⟨⟨hc, h.rconn.insert (G := fun a b => G b a) hg⟩, rfl, rfl, rfl⟩

theorem foldl_addOne_inner {G : Nat → Nat → Prop} (x' : Nat) (ys : List Nat) {t : TrRel} (h : ConnLe G t)
    (hg : ∀ y' ∈ ys, G x' y') :
    ConnLe G (ys.foldl (fun t y' => (t.addOneConnection x' y').1) t) ∧
      SameCore t (ys.foldl (fun t y' => (t.addOneConnection x' y').1) t) := by
  induction ys generalizing t with
  | nil => exact ⟨h, SameCore.refl t⟩
  | cons y t' ih =>
    simp only [List.foldl_cons]
    obtain ⟨h1, c1⟩ := addOneConnection_le h (hg y (List.mem_cons_self ..))
    obtain ⟨h2, c2⟩ := ih h1 fun y' hy' => hg y' (List.mem_cons_of_mem _ hy')
    exact ⟨h2, c1.trans c2⟩

theorem foldl_addOne_outer {G : Nat → Nat → Prop} (xs ys : List Nat) {t : TrRel} (h : ConnLe G t)
    (hg : ∀ x' ∈ xs, ∀ y' ∈ ys, G x' y') :
    ConnLe G (xs.foldl (fun t x' => ys.foldl (fun t y' => (t.addOneConnection x' y').1) t) t) ∧
      SameCore t (xs.foldl (fun t x' => ys.foldl (fun t y' => (t.addOneConnection x' y').1) t) t) := by
  induction xs generalizing t with
  | nil => exact ⟨h, SameCore.refl t⟩
  | cons x t' ih =>
    simp only [List.foldl_cons]
    obtain ⟨h1, c1⟩ := foldl_addOne_inner x ys h (hg x (List.mem_cons_self ..))
    obtain ⟨h2, c2⟩ := ih h1 fun x' hx' => hg x' (List.mem_cons_of_mem _ hx')
    exact ⟨h2, c1.trans c2⟩

theorem addSetConnection_le {G : Nat → Nat → Prop} (htrans : ∀ a b c, G a b → G b c → G a c)
    {t t' : TrRel} {f to : Nat} {b : Bool} (h : ConnLe G t) (hg : G f to)
    (he : t.addSetConnection f to = .ok (t', b)) : ConnLe G t' ∧ SameCore t t' := by
  unfold TrRel.addSetConnection at he
  have hc1 := h.conn.insert hg
  rcases hei : entryInsert t.conn f to with ⟨conn1, isNew⟩
  rw [hei] at he hc1
  simp only at he
  split at he
  · cases he; exact ⟨⟨hc1, h.rconn⟩, rfl, rfl, rfl⟩
  · have hr1 := h.rconn.insert (G := fun a b => G b a) hg
    have hr2 := hr1.orDefault f
    have hfr := hr1.of_orDefault_snd f
    rcases heo : entryOrDefault (entryInsert t.rconn to f).1 f with ⟨rconn2, fromRev⟩
    rw [heo] at he hr2 hfr
    have hc2 := hc1.orDefault to
    have hto := hc1.of_orDefault_snd to
    rcases heo2 : entryOrDefault conn1 to with ⟨conn2, toConn⟩
    rw [heo2] at he hc2 hto
    simp only at he hr2 hfr hc2 hto
    have hr3 : MapLe (fun a b => G b a) (alSet rconn2 f []) := hr2.set (by simp)
    have hc3 : MapLe G (alSet conn2 to []) := hc2.set (by simp)
    obtain ⟨cf, _, he⟩ := Res.bind_eq_ok he
    obtain ⟨rt, _, he⟩ := Res.bind_eq_ok he
    have hnt : ∀ y ∈ nsDiff toConn cf, G to y := fun y hy => hto y ((mem_nsDiff _ _ _).mp hy).1
    have hnf : ∀ x ∈ nsDiff fromRev rt, G x f := fun x hx => hfr x ((mem_nsDiff _ _ _).mp hx).1
    have ht1 : ConnLe G { t with conn := alSet conn2 to [], rconn := alSet rconn2 f [] } := ⟨hc3, hr3⟩
    obtain ⟨ht2, c2⟩ := foldl_addOne_outer (nsDiff fromRev rt) (nsDiff toConn cf) ht1
      fun x' hx' y' hy' => htrans _ _ _ (hnf x' hx') (htrans _ _ _ hg (hnt y' hy'))
    simp only [Res.pure_eq, Res.ok.injEq, Prod.mk.injEq] at he
    obtain ⟨rfl, _⟩ := he
    refine ⟨⟨?_, ?_⟩, c2.1.trans rfl, c2.2.1.trans rfl, c2.2.2.trans rfl⟩
    · apply MapLe.set
      · apply MapLe.extend
        · exact MapLe.foldl_insert_key _ _ ht2.conn fun z hz => htrans _ _ _ (hnf z hz) hg
        · exact fun y hy => htrans _ _ _ hg (hto y hy)
      · exact hto
    · apply MapLe.set (G := fun a b => G b a)
      · apply MapLe.extend (G := fun a b => G b a)
        · exact MapLe.foldl_insert_key (G := fun a b => G b a) _ _ ht2.rconn fun z hz => htrans _ _ _ hg (hnt z hz)
        · exact fun x hx => htrans _ _ _ (hfr x hx) hg
      · exact hfr

/-! ## `add_set_connection` never loses a stored connection and stores the new one -/

theorem rel_entryInsert_mono {m : NMap} {a b : Nat} (k x : Nat) (h : rel m a b) : rel (entryInsert m k x).1 a b :=
  (rel_entryInsert m k x a b).mpr (Or.inl h)

theorem rel_foldl_insert_mono (l : List Nat) (to : Nat) {m : NMap} {a b : Nat} (h : rel m a b) :
    rel (l.foldl (fun c z => (entryInsert c z to).1) m) a b := by
  induction l generalizing m with
  | nil => exact h
  | cons z t ih => simp only [List.foldl_cons]; exact ih (rel_entryInsert_mono z to h)

theorem addOneConnection_conn_mono {t : TrRel} {a b : Nat} (f to : Nat) (h : rel t.conn a b) :
    rel (t.addOneConnection f to).1.conn a b := by
  unfold TrRel.addOneConnection
  have hc := rel_entryInsert_mono f to h
  rcases hei : entryInsert t.conn f to with ⟨conn1, isNew⟩
  rw [hei] at hc
  cases isNew <;> exact hc

theorem foldl_addOne_conn_mono (xs ys : List Nat) {t : TrRel} {a b : Nat} (h : rel t.conn a b) :
    rel (xs.foldl (fun t x' => ys.foldl (fun t y' => (t.addOneConnection x' y').1) t) t).conn a b := by
  induction xs generalizing t with
  | nil => exact h
  | cons x rest ih =>
    simp only [List.foldl_cons]
    apply ih
    clear ih
    induction ys generalizing t with
    | nil => exact h
    | cons y rest' ih' => simp only [List.foldl_cons]; exact ih' (addOneConnection_conn_mono x y h)

/-- after `add_set_connection(f, to)`: every stored connection is still stored, and `f → to` is stored -/
theorem addSetConnection_ge {t t' : TrRel} {f to : Nat} {b : Bool} (he : t.addSetConnection f to = .ok (t', b)) :
    (∀ a c, rel t.conn a c → rel t'.conn a c) ∧ rel t'.conn f to := by
  suffices hs : ∀ a c, rel (entryInsert t.conn f to).1 a c → rel t'.conn a c from
    ⟨fun a c h => hs a c (rel_entryInsert_mono f to h), hs f to ((rel_entryInsert _ _ _ _ _).mpr (Or.inr ⟨rfl, rfl⟩))⟩
  unfold TrRel.addSetConnection at he
  rcases hei : entryInsert t.conn f to with ⟨conn1, isNew⟩
  rw [hei] at he
  simp only at he ⊢
  split at he
  · cases he; exact fun a c h => h
  · rcases heo : entryOrDefault (entryInsert t.rconn to f).1 f with ⟨rconn2, fromRev⟩
    rw [heo] at he
    have hto : ∀ c, rel conn1 to c → c ∈ (entryOrDefault conn1 to).2 := fun c h => (mem_entryOrDefault_snd _ _ _).mpr h
    have hod : ∀ a c, rel conn1 a c → rel (entryOrDefault conn1 to).1 a c := fun a c h => (rel_entryOrDefault _ _ _ _).mpr h
    rcases heo2 : entryOrDefault conn1 to with ⟨conn2, toConn⟩
    rw [heo2] at he hto hod
    simp only at he hto hod
    obtain ⟨cf, _, he⟩ := Res.bind_eq_ok he
    obtain ⟨rt, _, he⟩ := Res.bind_eq_ok he
    simp only [Res.pure_eq, Res.ok.injEq, Prod.mk.injEq] at he
    obtain ⟨rfl, _⟩ := he
    intro a c h
    simp only
    rw [rel_alSet]
    by_cases hta : to = a
    · subst hta; rw [if_pos rfl]; exact hto c h
    · rw [if_neg hta]
      apply (rel_entryExtend _ _ _ _ _).mpr; left
      apply rel_foldl_insert_mono
      apply foldl_addOne_conn_mono
      show rel (alSet conn2 to []) a c
      rw [rel_alSet, if_neg hta]
      exact hod a c h

end AscentVerif.TrRel
