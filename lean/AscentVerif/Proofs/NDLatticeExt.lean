import AscentVerif.Proofs.LatStrata
/-!
# What a head update keeps of the index bags, without any invariant (for `run_is_NDL`)

`PExt s s'` is the part of `LExt` that `PView_anti` uses: `total` / `delta` fixed, `new` grows, and a row whose value changed
is in `new`.  Every head update satisfies it from ANY state (no well-formedness, no key uniqueness), hence so do the folds
of `evalRules`.
-/
namespace AscentVerif.Engine
open AscentVerif

variable {E B G P A : Type}

structure PExt (s s' : SccSt) : Prop where
  nondyn : ∀ r, findDyn s.dyn r = none → findDyn s'.dyn r = none ∧ relSt s'.rels r = relSt s.rels r
  td : ∀ r d, findDyn s.dyn r = some d → ∃ d', findDyn s'.dyn r = some d' ∧ d'.total = d.total ∧ d'.delta = d.delta ∧
    (∀ i ∈ d.new, i ∈ d'.new) ∧
    (∀ i, rowAt (rowsOf s' r) i ≠ rowAt (rowsOf s r) i → i ∈ d'.new)

theorem PExt.refl (s : SccSt) : PExt s s :=
  ⟨fun _ h => ⟨h, rfl⟩, fun _ d h => ⟨d, h, rfl, rfl, fun _ hi => hi, fun _ hne => absurd rfl hne⟩⟩

theorem PExt.trans {a b c : SccSt} (h₁ : PExt a b) (h₂ : PExt b c) : PExt a c := by
  refine ⟨?_, ?_⟩
  · intro r h
    obtain ⟨h1, h2⟩ := h₁.nondyn r h
    obtain ⟨h3, h4⟩ := h₂.nondyn r h1
    exact ⟨h3, h4.trans h2⟩
  · intro r d h
    obtain ⟨d1, hd1, ht1, hdl1, hn1, hc1⟩ := h₁.td r d h
    obtain ⟨d2, hd2, ht2, hdl2, hn2, hc2⟩ := h₂.td r d1 hd1
    refine ⟨d2, hd2, ht2.trans ht1, hdl2.trans hdl1, fun i hi => hn2 i (hn1 i hi), ?_⟩
    intro i hne
    by_cases hab : rowAt (rowsOf b r) i = rowAt (rowsOf a r) i
    · rw [← hab] at hne
      exact hc2 i hne
    · exact hn2 i (hc1 i hab)

/-- the stable part shrinks along a pass, and stable rows keep their values (`PView_anti` from `PExt`) -/
theorem PView_anti' {s s' : SccSt} (hext : PExt s s') {r : RelId} {v : Option Ver} {t : Tuple}
    (h : PView s' r v t) : PView s r v t := by
  obtain ⟨i, hrow, hm⟩ := h
  cases hd : findDyn s.dyn r with
  | none =>
    obtain ⟨h1, h2⟩ := hext.nondyn r hd
    refine ⟨i, ?_, (PMem_none hd).mpr ?_⟩
    · rw [← hrow]; simp only [rowsOf, h2]
    · rw [← h2]; exact (PMem_none h1).mp hm
  | some d =>
    obtain ⟨d', hd', ht, hdl, hn, hc⟩ := hext.td r d hd
    obtain ⟨hnn, hv⟩ := (PMem_some hd').mp hm
    refine ⟨i, ?_, (PMem_some hd).mpr ⟨fun hi => hnn (hn i hi), (verMem_congr ht hdl v i).mp hv⟩⟩
    rw [← hrow]
    apply Classical.byContradiction
    intro hne
    exact hnn (hc i (fun h => hne h.symm))

/-- replacing the row vector of one dynamic relation and (possibly) its dynamic part -/
theorem PExt_gen {s : SccSt} {r : RelId} {d d' : Dyn} {rows' : List Tuple} {dyn' : List Dyn} {c : Bool}
    (hd : findDyn s.dyn r = some d) (hd' : findDyn dyn' r = some d')
    (hne : ∀ r', r' ≠ r → findDyn dyn' r' = findDyn s.dyn r')
    (ht : d'.total = d.total) (hdl : d'.delta = d.delta) (hnew : ∀ i ∈ d.new, i ∈ d'.new)
    (hchg : ∀ i, rowAt rows' i ≠ rowAt (rowsOf s r) i → i ∈ d'.new) :
    PExt s { rels := setNth s.rels r { relSt s.rels r with rows := rows' }, dyn := dyn', changed := c } := by
  refine ⟨?_, ?_⟩
  · intro r' h0
    have hner : r' ≠ r := by
      intro h; subst h; rw [hd] at h0; cases h0
    exact ⟨by rw [← h0]; exact hne r' hner, relSt_setNth_ne _ _ _ _ hner⟩
  · intro r' d₀ h0
    by_cases hner : r' = r
    · subst hner
      rw [hd] at h0; cases h0
      refine ⟨d', hd', ht, hdl, hnew, ?_⟩
      intro i hi
      by_cases hr : r' < s.rels.length
      · apply hchg
        simpa only [rowsOf, relSt_setNth_self _ _ _ hr] using hi
      · exfalso
        apply hi
        have h1 : s.rels.length ≤ r' := Nat.le_of_not_lt hr
        simp only [rowsOf]
        rw [relSt_of_ge _ _ (by rw [length_setNth]; exact h1), relSt_of_ge _ _ h1]
    · refine ⟨d₀, by show findDyn dyn' r' = some d₀; rw [hne r' hner]; exact h0, rfl, rfl, fun _ hi => hi, ?_⟩
      intro i h
      exfalso
      apply h
      simp only [rowsOf, relSt_setNth_ne _ _ _ _ hner]

theorem PExt_pushRow {s : SccSt} {r : RelId} {d : Dyn} (hd : findDyn s.dyn r = some d) (row : Tuple) :
    PExt s (pushRow s r d row) := by
  have hrel : d.rel = r := findDyn_rel hd
  unfold pushRow
  refine PExt_gen (d' := { d with new := d.new ++ [(relSt s.rels r).rows.length] }) hd ?_ ?_ rfl rfl
    (fun i hi => List.mem_append_left _ hi) ?_
  · subst hrel
    exact findDyn_setDyn_self s.dyn { d with new := d.new ++ [(relSt s.rels d.rel).rows.length] } d hd
  · intro r' hne
    subst hrel
    exact findDyn_setDyn_ne s.dyn _ r' hne
  · intro i hne
    show i ∈ d.new ++ [(rowsOf s r).length]
    by_cases hi : i < (rowsOf s r).length
    · exact absurd (rowAt_append_left _ _ _ hi) hne
    · by_cases hi' : i = (rowsOf s r).length
      · exact List.mem_append_right _ (by simp [hi'])
      · exfalso
        apply hne
        show rowAt (rowsOf s r ++ [row]) i = rowAt (rowsOf s r) i
        rw [rowAt_of_ge _ _ (by simp; omega), rowAt_of_ge _ _ (by omega)]

theorem PExt_joinSt {s : SccSt} {r : RelId} {d : Dyn} (hd : findDyn s.dyn r = some d) (i : Nat) (x : Val) :
    PExt s (joinSt s r d i x) := by
  have hrel : d.rel = r := findDyn_rel hd
  have hchg : ∀ d' : Dyn, i ∈ d'.new →
      ∀ j, rowAt (setNth (rowsOf s r) i (keyOf (rowAt (rowsOf s r) i) ++ [x])) j ≠ rowAt (rowsOf s r) j → j ∈ d'.new := by
    intro d' hi j hne
    by_cases hji : j = i
    · subst hji; exact hi
    · exact absurd (rowAt_setNth_ne _ _ _ _ hji) hne
  unfold joinSt
  by_cases hc : d.new.contains i = true
  · simp only [hc, Bool.not_true, Bool.false_eq_true, if_false]
    exact PExt_gen hd hd (fun _ _ => rfl) rfl rfl (fun _ hi => hi) (hchg d (List.contains_iff_mem.mp hc))
  · have hc' : d.new.contains i = false := by simpa using hc
    simp only [hc', Bool.not_false, if_true]
    refine PExt_gen (d' := { d with new := d.new ++ [i] }) hd ?_ ?_ rfl rfl
      (fun j hj => List.mem_append_left _ hj) (hchg _ (List.mem_append_right _ (by simp)))
    · subst hrel
      exact findDyn_setDyn_self s.dyn { d with new := d.new ++ [i] } d hd
    · intro r' hne
      subst hrel
      exact findDyn_setDyn_ne s.dyn _ r' hne

theorem PExt_headLat (I : Interp E B G P A) (s : SccSt) (r : RelId) (row : Tuple) : PExt s (headLat I {} s r row) := by
  rw [headLat_eq]
  cases hd : findDyn s.dyn r with
  | none => exact PExt.refl s
  | some d =>
    simp only []
    cases keyRow (rowsOf s r) d (keyOf row) with
    | none => exact PExt_pushRow hd row
    | some i =>
      simp only []
      split
      · exact PExt_joinSt hd i _
      · exact PExt.refl s

theorem PExt_headRel (s : SccSt) (r : RelId) (row : Tuple) : PExt s (headRel s r row) := by
  rw [headRel_eq]
  cases hd : findDyn s.dyn r with
  | none => exact PExt.refl s
  | some d =>
    simp only []
    split
    · exact PExt.refl s
    · exact PExt_pushRow hd row

theorem PExt_headUpdate (I : Interp E B G P A) (p : Program E B G P A) (s : SccSt) (h : HeadClause E) (ρ : Env) :
    PExt s (headUpdate I {} p s h ρ) := by
  unfold headUpdate
  split
  · exact PExt_headLat I s h.rel _
  · exact PExt_headRel s h.rel _

theorem PExt_heads (I : Interp E B G P A) (p : Program E B G P A) (ρ : Env) (heads : List (HeadClause E)) :
    ∀ s : SccSt, PExt s (heads.foldl (fun s h => headUpdate I {} p s h ρ) s) := by
  induction heads with
  | nil => intro s; exact PExt.refl s
  | cons h rest ih =>
    intro s
    exact (PExt_headUpdate I p s h ρ).trans (ih _)

/-- folding a step over a list while building a witness (a trace) for the state reached -/
theorem foldl_trackE {σ α T : Type} (f : σ → α → σ) (Inv : T → σ → Prop) (R : T → σ → T → σ → Prop)
    (Done : α → T → σ → Prop)
    (r_refl : ∀ t s, R t s t s) (r_trans : ∀ t₁ s₁ t₂ s₂ t₃ s₃, R t₁ s₁ t₂ s₂ → R t₂ s₂ t₃ s₃ → R t₁ s₁ t₃ s₃)
    (done_mono : ∀ a t s t' s', Done a t s → R t s t' s' → Done a t' s') :
    ∀ (l : List α), (∀ s t a, a ∈ l → Inv t s → ∃ t', Inv t' (f s a) ∧ R t s t' (f s a) ∧ Done a t' (f s a)) →
      ∀ s t, Inv t s → ∃ t', Inv t' (l.foldl f s) ∧ R t s t' (l.foldl f s) ∧ ∀ a ∈ l, Done a t' (l.foldl f s) := by
  intro l
  induction l with
  | nil => intro _ s t hs; exact ⟨t, hs, r_refl t s, fun a ha => by simp at ha⟩
  | cons a l ih =>
    intro step s t hs
    obtain ⟨t₁, h1, h2, h3⟩ := step s t a (by simp) hs
    obtain ⟨t₂, g1, g2, g3⟩ := ih (fun s t b hb => step s t b (List.mem_cons_of_mem _ hb)) (f s a) t₁ h1
    refine ⟨t₂, g1, r_trans _ _ _ _ _ _ h2 g2, ?_⟩
    intro b hb
    rcases List.mem_cons.mp hb with rfl | hb
    · exact done_mono _ _ _ _ _ h3 g2
    · exact g3 b hb

end AscentVerif.Engine
