import AscentVerif.Proofs.UFNext
/-!
# `UnionFind` operations on well-formed states

`WF u` = the forest invariant of `u.elems` + agreement between `u.items` and `u.elems`.
Every public operation is shown to succeed (no panic) on a well-formed state, to keep `WF`,
and to change the partition `Same` exactly as intended.
-/
namespace AscentVerif.UF

/-! ## the `items` association list -/

theorem lookup_setItem (m : List (Int × Nat)) (k : Int) (v : Nat) (k' : Int) :
    lookup (setItem m k v) k' = if k = k' then some v else lookup m k' := by
  induction m with
  | nil => simp [setItem, lookup]
  | cons a t ih =>
    obtain ⟨a1, a2⟩ := a
    simp only [setItem]
    by_cases h : a1 = k
    · subst h
      simp only [if_true, lookup]
      by_cases h' : a1 = k' <;> simp [h']
    · simp only [if_neg h, lookup, ih]
      by_cases h' : a1 = k'
      · subst h'; simp [Ne.symm h]
      · simp [h']

theorem length_setItem_some {m : List (Int × Nat)} {k : Int} {id : Nat} (v : Nat) (h : lookup m k = some id) :
    (setItem m k v).length = m.length := by
  induction m with
  | nil => simp [lookup] at h
  | cons a t ih =>
    obtain ⟨a1, a2⟩ := a
    simp only [setItem]
    by_cases h' : a1 = k
    · simp [h']
    · simp only [lookup, if_neg h'] at h
      simp [if_neg h', ih h]

theorem length_setItem_none {m : List (Int × Nat)} {k : Int} (v : Nat) (h : lookup m k = none) :
    (setItem m k v).length = m.length + 1 := by
  induction m with
  | nil => simp [setItem]
  | cons a t ih =>
    obtain ⟨a1, a2⟩ := a
    simp only [setItem]
    by_cases h' : a1 = k
    · simp [lookup, h'] at h
    · simp only [lookup, if_neg h'] at h
      simp [if_neg h', ih h]

/-! ## `Same` is an equivalence on the nodes of a forest -/

theorem Same.symm {es : Elems} {i j : Nat} (h : Same es i j) : Same es j i := by
  obtain ⟨r, h1, h2⟩ := h; exact ⟨r, h2, h1⟩

theorem Same.trans {es : Elems} {i j k : Nat} (h : Same es i j) (h' : Same es j k) : Same es i k := by
  obtain ⟨r, h1, h2⟩ := h
  obtain ⟨r', h3, h4⟩ := h'
  have := h2.unique h3; subst this
  exact ⟨r, h1, h4⟩

theorem Forest.same_refl {es : Elems} (F : Forest es) {i : Nat} (hi : i < es.length) : Same es i i := by
  obtain ⟨r, hr⟩ := F.exists_root hi; exact ⟨r, hr, hr⟩

theorem Same.lt_left {es : Elems} {i j : Nat} (h : Same es i j) : i < es.length := by
  obtain ⟨_, h1, _⟩ := h; exact h1.lt

theorem Same.lt_right {es : Elems} {i j : Nat} (h : Same es i j) : j < es.length := h.symm.lt_left

theorem RootOf.same {es : Elems} {i r : Nat} (h : RootOf es i r) : Same es i r := ⟨r, h, h.self⟩

theorem same_of_roots_iff {es es' : Elems} (h : ∀ j r, RootOf es' j r ↔ RootOf es j r) (i j : Nat) :
    Same es' i j ↔ Same es i j := by
  constructor
  · rintro ⟨r, h1, h2⟩; exact ⟨r, (h _ _).mp h1, (h _ _).mp h2⟩
  · rintro ⟨r, h1, h2⟩; exact ⟨r, (h _ _).mpr h1, (h _ _).mpr h2⟩

/-! ## well-formed `UnionFind` -/

structure WF (u : UnionFind) : Prop where
  forest : Forest u.elems
  len_eq : u.elems.length = u.items.length
  /-- every element's value is an item, cached at an id of the element's class -/
  item_of_elem : ∀ i, i < u.elems.length → ∃ id, lookup u.items (valueOf u.elems i) = some id ∧ Same u.elems id i
  /-- every item is the value of an element -/
  elem_of_item : ∀ k id, lookup u.items k = some id → ∃ i, i < u.elems.length ∧ valueOf u.elems i = k
  /-- distinct elements carry distinct values -/
  values_inj : ∀ i j, i < u.elems.length → j < u.elems.length → valueOf u.elems i = valueOf u.elems j → i = j

theorem WF.okCheap {u : UnionFind} (W : WF u) : u.okCheap = true := by
  simp [UnionFind.okCheap, W.len_eq]

theorem wf_empty : WF {} := by
  refine ⟨⟨?_, ?_, ?_, ?_⟩, rfl, ?_, ?_, ?_⟩ <;> simp [sumFrom, lookup]

/-- `u'` has the same elements' values and the same partition as `u` -/
structure Keeps (u u' : UnionFind) : Prop where
  wf : WF u'
  length_eq : u'.elems.length = u.elems.length
  value_eq : ∀ j, valueOf u'.elems j = valueOf u.elems j
  roots_iff : ∀ j r, RootOf u'.elems j r ↔ RootOf u.elems j r
  keys_iff : ∀ k, (lookup u'.items k).isSome = (lookup u.items k).isSome
  next_ok : NextCycles u.elems → NextCycles u'.elems

theorem Keeps.same_iff {u u' : UnionFind} (K : Keeps u u') (i j : Nat) : Same u'.elems i j ↔ Same u.elems i j :=
  same_of_roots_iff K.roots_iff i j

theorem Keeps.refl {u : UnionFind} (W : WF u) : Keeps u u :=
  ⟨W, rfl, fun _ => rfl, fun _ _ => Iff.rfl, fun _ => rfl, fun N => N⟩

theorem Keeps.trans {u u' u'' : UnionFind} (h : Keeps u u') (h' : Keeps u' u'') : Keeps u u'' :=
  ⟨h'.wf, by rw [h'.length_eq, h.length_eq], fun j => by rw [h'.value_eq, h.value_eq],
   fun i j => by rw [h'.roots_iff, h.roots_iff], fun k => by rw [h'.keys_iff, h.keys_iff],
   fun N => h'.next_ok (h.next_ok N)⟩

/-- replacing the elements by the result of a `find` (items unchanged) -/
theorem keeps_of_findPost {u : UnionFind} (W : WF u) {es' : Elems} {id r : Nat} (P : FindPost u.elems es' id r) :
    Keeps u { u with elems := es' } := by
  have hsame := same_of_roots_iff P.roots
  refine ⟨⟨P.forest, ?_, ?_, ?_, ?_⟩, P.length_eq, P.value_eq, P.roots, fun _ => rfl, nextCycles_of_findPost P⟩
  · show es'.length = u.items.length
    rw [P.length_eq, W.len_eq]
  · intro i hi
    have hi' : i < u.elems.length := by rw [← P.length_eq]; exact hi
    obtain ⟨id', h1, h2⟩ := W.item_of_elem i hi'
    exact ⟨id', by show lookup u.items (valueOf es' i) = some id'; rw [P.value_eq]; exact h1, (hsame _ _).mpr h2⟩
  · intro k id' h
    obtain ⟨i, hi, hv⟩ := W.elem_of_item k id' h
    exact ⟨i, by show i < es'.length; rw [P.length_eq]; exact hi, by show valueOf es' i = k; rw [P.value_eq]; exact hv⟩
  · intro i j hi hj h
    have hi' : i < u.elems.length := by rw [← P.length_eq]; exact hi
    have hj' : j < u.elems.length := by rw [← P.length_eq]; exact hj
    exact W.values_inj i j hi' hj' (by rw [← P.value_eq i, ← P.value_eq j]; exact h)

/-- the cached id of an item lies in the class of the item's element -/
theorem WF.lookup_same {u : UnionFind} (W : WF u) {x : Int} {id i : Nat} (h : lookup u.items x = some id)
    (hi : i < u.elems.length) (hv : valueOf u.elems i = x) : Same u.elems id i := by
  obtain ⟨id', h1, h2⟩ := W.item_of_elem i hi
  rw [hv, h] at h1
  cases h1; exact h2

/-- `find(id)` on a well-formed state -/
theorem find_ok {u : UnionFind} (W : WF u) {id : Nat} (hid : id < u.elems.length) :
    ∃ u' r, u.find id = .ok (u', r) ∧ Keeps u u' ∧ RootOf u.elems id r := by
  obtain ⟨es', r, hf, P⟩ := findTop_spec W.forest hid
  refine ⟨{ u with elems := es' }, r, ?_, keeps_of_findPost W P, P.root⟩
  simp [UnionFind.find, Elems.has, hid, hf]

/-- `find_item` of an unknown item -/
theorem findItem_none {u : UnionFind} {x : Int} (h : lookup u.items x = none) : u.findItem x = .ok (u, none) := by
  simp [UnionFind.findItem, h]

/-- `find_item` of a known item: the root of its class, partition unchanged -/
theorem findItem_some {u : UnionFind} (W : WF u) {x : Int} {id : Nat} (h : lookup u.items x = some id) :
    ∃ u' r, u.findItem x = .ok (u', some r) ∧ Keeps u u' ∧ RootOf u.elems id r := by
  obtain ⟨i, hi, hv⟩ := W.elem_of_item x id h
  have hsi := W.lookup_same h hi hv
  obtain ⟨es', r, hf, P⟩ := findTop_spec W.forest hsi.lt_left
  have K := keeps_of_findPost W P
  refine ⟨{ elems := es', items := setItem u.items x r }, r, by simp [UnionFind.findItem, h, hf], ?_, P.root⟩
  have hsame := same_of_roots_iff P.roots
  refine ⟨⟨P.forest, ?_, ?_, ?_, K.wf.values_inj⟩, P.length_eq, P.value_eq, P.roots, ?_, nextCycles_of_findPost P⟩
  · show es'.length = (setItem u.items x r).length
    rw [length_setItem_some r h, P.length_eq, W.len_eq]
  · intro j hj
    have hj' : j < u.elems.length := by rw [← P.length_eq]; exact hj
    show ∃ id', lookup (setItem u.items x r) (valueOf es' j) = some id' ∧ Same es' id' j
    rw [lookup_setItem, P.value_eq]
    by_cases hx : x = valueOf u.elems j
    · rw [if_pos hx]
      refine ⟨r, rfl, (hsame _ _).mpr ?_⟩
      have : j = i := W.values_inj j i hj' hi (by rw [hv, hx])
      subst this
      exact P.root.same.symm.trans hsi
    · rw [if_neg hx]
      obtain ⟨id', h1, h2⟩ := W.item_of_elem j hj'
      exact ⟨id', h1, (hsame _ _).mpr h2⟩
  · intro k id' hk
    change lookup (setItem u.items x r) k = some id' at hk
    rw [lookup_setItem] at hk
    show ∃ i, i < es'.length ∧ valueOf es' i = k
    by_cases hx : x = k
    · subst hx; exact ⟨i, by rw [P.length_eq]; exact hi, by rw [P.value_eq]; exact hv⟩
    · rw [if_neg hx] at hk
      obtain ⟨i', hi', hv'⟩ := W.elem_of_item k id' hk
      exact ⟨i', by rw [P.length_eq]; exact hi', by rw [P.value_eq]; exact hv'⟩
  · intro k
    show (lookup (setItem u.items x r) k).isSome = (lookup u.items k).isSome
    rw [lookup_setItem]
    by_cases hx : x = k
    · subst hx; simp [h]
    · simp [hx]

/-! ## `push` / `add` -/

theorem get_push_lt {es : Elems} (e : Elem) {j : Nat} (h : j < es.length) : (es ++ [e])[j]? = es[j]? :=
  List.getElem?_append_left h

theorem get_push_eq (es : Elems) (e : Elem) : (es ++ [e])[es.length]? = some e := by
  rw [List.getElem?_append_right (Nat.le_refl _)]; simp

/-- what appending a fresh singleton class guarantees -/
structure PushPost (es es' : Elems) (v : Int) : Prop where
  length_eq : es'.length = es.length + 1
  forest : Forest es'
  roots : ∀ j r, RootOf es' j r ↔ (RootOf es j r ∨ (j = es.length ∧ r = es.length))
  value_lt : ∀ j, j < es.length → valueOf es' j = valueOf es j
  value_new : valueOf es' es.length = v
  next_lt : ∀ j, j < es.length → nextOf es' j = nextOf es j
  next_new : nextOf es' es.length = es.length

theorem push_spec {es : Elems} (F : Forest es) (v : Int) : PushPost es (Elems.push es v).1 v := by
  simp only [Elems.push]
  generalize he : ({ next := es.length, parent := es.length, rank := 0, value := v } : Elem) = e
  have hep : e.parent = es.length := by subst he; rfl
  have her : e.rank = 0 := by subst he; rfl
  have hev : e.value = v := by subst he; rfl
  have hen : e.next = es.length := by subst he; rfl
  have hlen : (es ++ [e]).length = es.length + 1 := by simp
  have hpar_lt : ∀ j, j < es.length → parentOf (es ++ [e]) j = parentOf es j := by
    intro j hj; simp [parentOf, get_push_lt e hj]
  have hpar_eq : parentOf (es ++ [e]) es.length = es.length := by simp [parentOf, hep]
  have hrk_lt : ∀ j, j < es.length → rankOf (es ++ [e]) j = rankOf es j := by
    intro j hj; simp [rankOf, get_push_lt e hj]
  have hrk_eq : rankOf (es ++ [e]) es.length = 0 := by simp [rankOf, her]
  have F' : Forest (es ++ [e]) := by
    refine ⟨?_, ?_, ?_, ?_⟩
    · intro j hj; rw [hlen] at hj ⊢
      by_cases h : j < es.length
      · rw [hpar_lt j h]; have := F.parent_lt j h; omega
      · have : j = es.length := by omega
        subst this; rw [hpar_eq]; omega
    · intro j hj; rw [hlen] at hj
      by_cases h : j < es.length
      · rw [hpar_lt j h]; intro hn
        rw [hrk_lt j h, hrk_lt _ (F.parent_lt j h)]; exact F.rank_lt_parent j h hn
      · have : j = es.length := by omega
        subst this; rw [hpar_eq]; intro hn; exact absurd rfl hn
    · intro j hj; rw [hlen] at hj ⊢
      by_cases h : j < es.length
      · rw [hrk_lt j h]; have := F.rank_lt j h; omega
      · have : j = es.length := by omega
        subst this; rw [hrk_eq]; omega
    · rw [sumFrom_append, hlen]
      simp only [sumFrom, weight, Nat.zero_add, hep, if_true, her]
      have := F.weight_le; omega
  refine ⟨hlen, F', ?_, ?_, ?_, ?_, ?_⟩
  rotate_left
  · intro j hj; simp [valueOf, get_push_lt e hj]
  · simp [valueOf, hev]
  · intro j hj; simp [nextOf, get_push_lt e hj]
  · simp [nextOf, hen]
  · intro j r
    constructor
    · intro h
      induction h with
      | @root j hj hp =>
        rw [hlen] at hj
        by_cases h : j < es.length
        · left; exact .root h (by rw [← hpar_lt j h]; exact hp)
        · right; omega
      | @step j r hj hn _ ih =>
        rw [hlen] at hj
        have h : j < es.length := by
          apply Classical.byContradiction; intro h
          have : j = es.length := by omega
          subst this; exact hn hpar_eq
        rw [hpar_lt j h] at hn ih
        left
        rcases ih with ih | ⟨ih, _⟩
        · exact .step h hn ih
        · have := F.parent_lt j h; omega
    · rintro (h | ⟨rfl, rfl⟩)
      · induction h with
        | @root j hj hp => exact .root (by rw [hlen]; omega) (by rw [hpar_lt j hj]; exact hp)
        | @step j r hj hn _ ih =>
          exact .step (by rw [hlen]; omega) (by rw [hpar_lt j hj]; exact hn) (by rw [hpar_lt j hj]; exact ih)
      · exact .root (by rw [hlen]; omega) hpar_eq

/-- a fresh self-loop keeps the `next` cycles -/
theorem nextCycles_of_pushPost {es es' : Elems} {v : Int} (P : PushPost es es' v) (N : NextCycles es) : NextCycles es' := by
  have hiter : ∀ k i, i < es.length → iterNext es' k i = iterNext es k i ∧ iterNext es k i < es.length := by
    intro k i hi
    induction k with
    | zero => exact ⟨rfl, hi⟩
    | succ k ih =>
      simp only [iterNext]
      rw [ih.1, P.next_lt _ ih.2]
      exact ⟨rfl, N.next_lt _ ih.2⟩
  have hnew : ∀ k, iterNext es' k es.length = es.length := by
    intro k
    induction k with
    | zero => rfl
    | succ k ih => simp only [iterNext]; rw [ih, P.next_new]
  refine ⟨?_, ?_, ?_, ?_⟩
  · intro i hi; rw [P.length_eq] at hi ⊢
    by_cases h : i < es.length
    · rw [P.next_lt i h]; have := N.next_lt i h; omega
    · have : i = es.length := by omega
      subst this; rw [P.next_new]; omega
  · intro i hi; rw [P.length_eq] at hi
    by_cases h : i < es.length
    · rw [P.next_lt i h]
      obtain ⟨q, h1, h2⟩ := N.next_same i h
      exact ⟨q, (P.roots _ _).mpr (Or.inl h1), (P.roots _ _).mpr (Or.inl h2)⟩
    · have : i = es.length := by omega
      subst this; rw [P.next_new]
      exact ⟨_, (P.roots _ _).mpr (Or.inr ⟨rfl, rfl⟩), (P.roots _ _).mpr (Or.inr ⟨rfl, rfl⟩)⟩
  · intro i q h
    rcases (P.roots _ _).mp h with h | ⟨rfl, rfl⟩
    · obtain ⟨k, hk⟩ := N.to_root i q h
      exact ⟨k, by rw [(hiter k i h.lt).1]; exact hk⟩
    · exact ⟨0, rfl⟩
  · intro i q h
    rcases (P.roots _ _).mp h with h | ⟨rfl, rfl⟩
    · obtain ⟨k, hk⟩ := N.from_root i q h
      exact ⟨k, by rw [(hiter k q h.root_lt).1]; exact hk⟩
    · exact ⟨0, rfl⟩

/-- what `add` guarantees -/
structure AddPost (u u' : UnionFind) (x : Int) (isNew : Bool) (id : Nat) : Prop where
  wf : WF u'
  /-- the item is present afterwards and `id` is in the class of its element -/
  id_same : ∃ i, i < u'.elems.length ∧ valueOf u'.elems i = x ∧ Same u'.elems id i
  next_ok : NextCycles u.elems → NextCycles u'.elems
  old : isNew = false → (lookup u.items x).isSome ∧ Keeps u u'
  new : isNew = true → lookup u.items x = none ∧ id = u.elems.length ∧
    u'.elems.length = u.elems.length + 1 ∧
    (∀ j, j < u.elems.length → valueOf u'.elems j = valueOf u.elems j) ∧
    valueOf u'.elems u.elems.length = x ∧
    (∀ i j, Same u'.elems i j ↔ (Same u.elems i j ∨ (i = u.elems.length ∧ j = u.elems.length))) ∧
    (∀ k, (lookup u'.items k).isSome = ((lookup u.items k).isSome || decide (k = x)))

theorem add_ok {u : UnionFind} (W : WF u) (x : Int) :
    ∃ u' isNew id, u.add x = .ok (u', isNew, id) ∧ AddPost u u' x isNew id := by
  cases hl : lookup u.items x with
  | some id0 =>
    obtain ⟨u', r, hf, K, hr⟩ := findItem_some W hl
    refine ⟨u', false, r, by simp [UnionFind.add, W.okCheap, hf], K.wf, ?_, K.next_ok, fun _ => ⟨by simp [hl], K⟩, fun h => by simp at h⟩
    obtain ⟨i, hi, hv⟩ := W.elem_of_item x id0 hl
    refine ⟨i, by rw [K.length_eq]; exact hi, by rw [K.value_eq]; exact hv, (K.same_iff _ _).mpr ?_⟩
    exact hr.same.symm.trans (W.lookup_same hl hi hv)
  | none =>
    have P := push_spec W.forest x
    generalize hes' : (Elems.push u.elems x).1 = es' at P
    have hid : (Elems.push u.elems x).2 = u.elems.length := rfl
    have hsame : ∀ i j, Same es' i j ↔ (Same u.elems i j ∨ (i = u.elems.length ∧ j = u.elems.length)) := by
      intro i j
      constructor
      · rintro ⟨r, h1, h2⟩
        rcases (P.roots _ _).mp h1 with h1 | ⟨h1, h1'⟩ <;> rcases (P.roots _ _).mp h2 with h2 | ⟨h2, h2'⟩
        · left; exact ⟨r, h1, h2⟩
        · have := h1.root_lt; omega
        · have := h2.root_lt; omega
        · right; exact ⟨h1, h2⟩
      · rintro (⟨r, h1, h2⟩ | ⟨rfl, rfl⟩)
        · exact ⟨r, (P.roots _ _).mpr (Or.inl h1), (P.roots _ _).mpr (Or.inl h2)⟩
        · exact ⟨_, (P.roots _ _).mpr (Or.inr ⟨rfl, rfl⟩), (P.roots _ _).mpr (Or.inr ⟨rfl, rfl⟩)⟩
    have W' : WF { elems := es', items := setItem u.items x u.elems.length } := by
      refine ⟨P.forest, ?_, ?_, ?_, ?_⟩
      · show es'.length = (setItem u.items x u.elems.length).length
        rw [length_setItem_none _ hl, P.length_eq, W.len_eq]
      · intro j hj
        change j < es'.length at hj
        rw [P.length_eq] at hj
        show ∃ id', lookup (setItem u.items x u.elems.length) (valueOf es' j) = some id' ∧ Same es' id' j
        rw [lookup_setItem]
        by_cases h : j < u.elems.length
        · rw [P.value_lt j h]
          obtain ⟨id', h1, h2⟩ := W.item_of_elem j h
          have hx : x ≠ valueOf u.elems j := by intro hx; rw [← hx, hl] at h1; cases h1
          rw [if_neg hx]
          exact ⟨id', h1, (hsame _ _).mpr (Or.inl h2)⟩
        · have : j = u.elems.length := by omega
          subst this
          rw [P.value_new, if_pos rfl]
          exact ⟨_, rfl, (hsame _ _).mpr (Or.inr ⟨rfl, rfl⟩)⟩
      · intro k id' hk
        change lookup (setItem u.items x u.elems.length) k = some id' at hk
        rw [lookup_setItem] at hk
        show ∃ i, i < es'.length ∧ valueOf es' i = k
        by_cases hx : x = k
        · subst hx; exact ⟨u.elems.length, by rw [P.length_eq]; omega, P.value_new⟩
        · rw [if_neg hx] at hk
          obtain ⟨i, hi, hv⟩ := W.elem_of_item k id' hk
          exact ⟨i, by rw [P.length_eq]; omega, by rw [P.value_lt i hi]; exact hv⟩
      · intro i j hi hj hv
        change i < es'.length at hi; change j < es'.length at hj
        change valueOf es' i = valueOf es' j at hv
        rw [P.length_eq] at hi hj
        have key : ∀ a, a < u.elems.length → valueOf u.elems a ≠ x := by
          intro a ha hax
          obtain ⟨id', h1, _⟩ := W.item_of_elem a ha
          rw [hax, hl] at h1; cases h1
        by_cases h1 : i < u.elems.length <;> by_cases h2 : j < u.elems.length
        · rw [P.value_lt i h1, P.value_lt j h2] at hv; exact W.values_inj i j h1 h2 hv
        · have : j = u.elems.length := by omega
          subst this; rw [P.value_lt i h1, P.value_new] at hv; exact absurd hv (key i h1)
        · have : i = u.elems.length := by omega
          subst this; rw [P.value_lt j h2, P.value_new] at hv; exact absurd hv.symm (key j h2)
        · omega
    refine ⟨{ elems := es', items := setItem u.items x u.elems.length }, true, u.elems.length, ?_, W', ?_,
      nextCycles_of_pushPost P, fun h => by simp at h, fun _ => ⟨hl, rfl, P.length_eq, P.value_lt, P.value_new, hsame, ?_⟩⟩
    · simp [UnionFind.add, W.okCheap, findItem_none hl, UnionFind.push, hes', hid]
    · exact ⟨u.elems.length, by show u.elems.length < es'.length; rw [P.length_eq]; omega, P.value_new,
        (hsame _ _).mpr (Or.inr ⟨rfl, rfl⟩)⟩
    · intro k
      show (lookup (setItem u.items x u.elems.length) k).isSome = _
      rw [lookup_setItem]
      by_cases hx : x = k
      · subst hx; simp
      · simp [hx, Ne.symm hx]

/-! ## `union` -/

/-- the partition after linking the roots `ra`, `rb` of `a`, `b`: the classes of `a` and `b` are merged, nothing else changes -/
theorem union_same {es es' : Elems} {a b ra rb w : Nat} (P : UnionPost es es' ra rb w)
    (hA : RootOf es a ra) (hB : RootOf es b rb) (i j : Nat) :
    Same es' i j ↔ (Same es i j ∨ (Same es i a ∧ Same es b j) ∨ (Same es i b ∧ Same es a j)) := by
  constructor
  · rintro ⟨q, h1, h2⟩
    obtain ⟨qi, hi, e1⟩ := (P.roots _ _).mp h1
    obtain ⟨qj, hj, e2⟩ := (P.roots _ _).mp h2
    have hw := P.winner
    by_cases ci : qi = ra ∨ qi = rb <;> by_cases cj : qj = ra ∨ qj = rb
    · rcases ci with rfl | rfl <;> rcases cj with rfl | rfl
      · left; exact ⟨_, hi, hj⟩
      · right; left; exact ⟨⟨_, hi, hA⟩, ⟨_, hB, hj⟩⟩
      · right; right; exact ⟨⟨_, hi, hB⟩, ⟨_, hA, hj⟩⟩
      · left; exact ⟨_, hi, hj⟩
    · rw [if_pos ci] at e1; rw [if_neg cj] at e2
      exfalso; apply cj; rw [← e2, e1]; exact hw
    · rw [if_neg ci] at e1; rw [if_pos cj] at e2
      exfalso; apply ci; rw [← e1, e2]; exact hw
    · rw [if_neg ci] at e1; rw [if_neg cj] at e2
      left; subst e1; subst e2; exact ⟨_, hi, hj⟩
  · rintro (⟨q, h1, h2⟩ | ⟨⟨q, h1, h2⟩, ⟨q', h3, h4⟩⟩ | ⟨⟨q, h1, h2⟩, ⟨q', h3, h4⟩⟩)
    · exact ⟨_, (P.roots _ _).mpr ⟨q, h1, rfl⟩, (P.roots _ _).mpr ⟨q, h2, rfl⟩⟩
    · have e1 := h2.unique hA; have e2 := h3.unique hB; subst e1; subst e2
      refine ⟨w, (P.roots _ _).mpr ⟨_, h1, by simp⟩, (P.roots _ _).mpr ⟨_, h4, by simp⟩⟩
    · have e1 := h2.unique hB; have e2 := h3.unique hA; subst e1; subst e2
      refine ⟨w, (P.roots _ _).mpr ⟨_, h1, by simp⟩, (P.roots _ _).mpr ⟨_, h4, by simp⟩⟩

/-- what `union(a, b)` guarantees -/
structure UnionOpPost (u u' : UnionFind) (a b w : Nat) : Prop where
  wf : WF u'
  length_eq : u'.elems.length = u.elems.length
  value_eq : ∀ j, valueOf u'.elems j = valueOf u.elems j
  keys_iff : ∀ k, (lookup u'.items k).isSome = (lookup u.items k).isSome
  same_iff : ∀ i j, Same u'.elems i j ↔
    (Same u.elems i j ∨ (Same u.elems i a ∧ Same u.elems b j) ∨ (Same u.elems i b ∧ Same u.elems a j))
  result : Same u'.elems w a
  next_ok : NextCycles u.elems → NextCycles u'.elems

/-- merging two nodes that are already in one class changes nothing -/
theorem same_absorb {es : Elems} {a b : Nat} (hab : Same es a b) (i j : Nat) :
    Same es i j ↔ (Same es i j ∨ (Same es i a ∧ Same es b j) ∨ (Same es i b ∧ Same es a j)) := by
  constructor
  · exact Or.inl
  · rintro (h | ⟨h1, h2⟩ | ⟨h1, h2⟩)
    · exact h
    · exact (h1.trans hab).trans h2
    · exact (h1.trans hab.symm).trans h2

theorem union_ok {u : UnionFind} (W : WF u) {a b : Nat} (ha : a < u.elems.length) (hb : b < u.elems.length) :
    ∃ u' w, u.union a b = .ok (u', w) ∧ UnionOpPost u u' a b w := by
  have hha : Elems.has u.elems a = true := by simp [Elems.has, ha]
  have hhb : Elems.has u.elems b = true := by simp [Elems.has, hb]
  obtain ⟨es1, xr, hf1, P1⟩ := findTop_spec W.forest ha
  have K1 := keeps_of_findPost W P1
  by_cases hab : a = b
  · subst hab
    refine ⟨{ u with elems := es1 }, xr, by simp [UnionFind.union, UnionFind.unionInternal, hha, hf1], ?_⟩
    refine ⟨K1.wf, K1.length_eq, K1.value_eq, K1.keys_iff, ?_, ?_, K1.next_ok⟩
    · intro i j; rw [K1.same_iff]; exact same_absorb (W.forest.same_refl ha) i j
    · exact (K1.same_iff _ _).mpr P1.root.same.symm
  · have hb1 : b < es1.length := by rw [P1.length_eq]; exact hb
    obtain ⟨es2, yr, hf2, P2⟩ := findTop_spec P1.forest hb1
    have K2 := keeps_of_findPost (u := { u with elems := es1 }) K1.wf P2
    have K := K1.trans K2
    have hbr : RootOf u.elems b yr := (P1.roots _ _).mp P2.root
    by_cases hxy : xr = yr
    · refine ⟨{ u with elems := es2 }, xr, by simp [UnionFind.union, UnionFind.unionInternal, hha, hhb, hab, hf1, hf2, hxy], ?_⟩
      have hsab : Same u.elems a b := ⟨xr, P1.root, hxy ▸ hbr⟩
      refine ⟨K.wf, K.length_eq, K.value_eq, K.keys_iff, ?_, ?_, K.next_ok⟩
      · intro i j; rw [K.same_iff]; exact same_absorb hsab i j
      · exact (K.same_iff _ _).mpr P1.root.same.symm
    · have hA2 : RootOf es2 a xr := (P2.roots _ _).mpr ((P1.roots _ _).mpr P1.root)
      have hB2 : RootOf es2 b yr := (P2.roots _ _).mpr P2.root
      obtain ⟨es3, w, hu, P3⟩ := unionByRank_spec P2.forest hA2.root_lt hB2.root_lt hA2.is_root hB2.is_root hxy
      have hsame3 : ∀ i j, Same es3 i j ↔
          (Same u.elems i j ∨ (Same u.elems i a ∧ Same u.elems b j) ∨ (Same u.elems i b ∧ Same u.elems a j)) := by
        intro i j
        rw [union_same P3 hA2 hB2 i j]
        have e := K.same_iff
        change ∀ i j, Same es2 i j ↔ Same u.elems i j at e
        simp only [e]
      have hmono : ∀ i j, Same u.elems i j → Same es3 i j := fun i j h => (hsame3 i j).mpr (Or.inl h)
      have hlen3 : es3.length = u.elems.length := by
        rw [P3.length_eq]; exact K.length_eq
      have hval3 : ∀ j, valueOf es3 j = valueOf u.elems j := fun j => by rw [P3.value_eq]; exact K.value_eq j
      have W3 : WF { u with elems := es3 } := by
        refine ⟨P3.forest, ?_, ?_, ?_, ?_⟩
        · show es3.length = u.items.length
          rw [hlen3, W.len_eq]
        · intro i hi
          change i < es3.length at hi
          rw [hlen3] at hi
          obtain ⟨id', h1, h2⟩ := W.item_of_elem i hi
          exact ⟨id', by show lookup u.items (valueOf es3 i) = some id'; rw [hval3]; exact h1, hmono _ _ h2⟩
        · intro k id' hk
          obtain ⟨i, hi, hv⟩ := W.elem_of_item k id' hk
          exact ⟨i, by show i < es3.length; rw [hlen3]; exact hi, by show valueOf es3 i = k; rw [hval3]; exact hv⟩
        · intro i j hi hj hv
          change i < es3.length at hi; change j < es3.length at hj
          change valueOf es3 i = valueOf es3 j at hv
          rw [hlen3] at hi hj; rw [hval3, hval3] at hv
          exact W.values_inj i j hi hj hv
      have hres : Same es3 w a := by
        have : RootOf es3 a w := (P3.roots _ _).mpr ⟨xr, hA2, by simp⟩
        exact this.same.symm
      have hnext : NextCycles u.elems → NextCycles es3 := fun N =>
        nextCycles_of_unionPost hxy hA2.self hB2.self P3 (K.next_ok N)
      rcases P3.winner with hw | hw
      · refine ⟨{ u with elems := es3 }, xr, ?_, W3, hlen3, hval3, fun _ => rfl, hsame3, hw ▸ hres, hnext⟩
        simp [UnionFind.union, UnionFind.unionInternal, hha, hhb, hab, hf1, hf2, hxy, hu, hw]
      · refine ⟨{ u with elems := es3 }, yr, ?_, W3, hlen3, hval3, fun _ => rfl, hsame3, hw ▸ hres, hnext⟩
        have : ¬ yr = xr := fun h => hxy h.symm
        simp [UnionFind.union, UnionFind.unionInternal, hha, hhb, hab, hf1, hf2, hxy, hu, hw, this]

end AscentVerif.UF
