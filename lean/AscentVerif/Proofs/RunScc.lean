import AscentVerif.Proofs.Scc
/-!
# `runScc`: what processing one SCC establishes — step 5 (first half) of the C01 proof
-/
namespace AscentVerif.Engine
open AscentVerif

variable {E B G P A : Type}

/-- the rules are closed over `D`: every instance over `D` has its head facts in `D` -/
def ClosedRules (I : Interp E B G P A) (rules : List (Rule E B G P A)) (D : DB) : Prop :=
  ∀ rule ∈ rules, ∀ ρ, Sat I D nAgg rule.body [] ρ → ∀ h ∈ rule.heads, D (headFact I h ρ)

theorem sccRules_sub (p : Program E B G P A) (scc : List Nat) : ∀ rule ∈ sccRules p scc, rule ∈ p.rules := by
  intro rule h
  simp only [sccRules, List.mem_filterMap] at h
  obtain ⟨i, _, hi⟩ := h
  exact List.mem_of_getElem? hi

theorem dynRels_mem (p : Program E B G P A) (scc : List Nat) (r : RelId) :
    (dynRels p scc).contains r = true ↔ ∃ rule ∈ sccRules p scc, ∃ h ∈ rule.heads, h.rel = r := by
  rw [List.contains_iff_mem, dynRels, mem_eraseDups', List.mem_flatMap]
  simp only [Rule.headRels, List.mem_map]

theorem notLooping (p : Program E B G P A) (scc : List Nat) (h : isLooping p scc = false) :
    ∀ rule ∈ sccRules p scc, ∀ b ∈ rule.body.filterMap Item.rel?, (dynRels p scc).contains b = false := by
  intro rule hr b hb
  simp only [isLooping, List.any_eq_false] at h
  have := h rule hr
  simp only [List.any_eq_true, not_exists, not_and] at this
  have hb' : b ∈ rule.bodyRels := hb
  have := this b hb'
  simpa using this

section RunScc
variable (I : Interp E B G P A) (cfg : Config) (p : Program E B G P A) (inp : RelId → List Tuple)
  (n : Nat) (dynR : List RelId) (hlt : ∀ r, dynR.contains r = true → r < n)
  (hl : ∀ d ∈ p.rels, d.lat = false)

include hlt in
/-- storing the indices back: `idx := total` for the dynamic relations -/
theorem leave_spec {s : SccSt} (hwf : WF n dynR s) (hgood : Good I p inp n s) (hs : Settled s) :
    PInv I p inp n (leaveScc s) ∧ (∀ r, (relSt (leaveScc s) r).rows = rowsOf s r) ∧
      (∀ r, dynR.contains r = false → relSt (leaveScc s) r = relSt s.rels r) := by
  have hdlt : ∀ d ∈ s.dyn, d.rel < s.rels.length := by
    intro d hd
    rw [hwf.len]
    apply hlt
    rw [← hwf.dyn_iff, hwf.uniq d hd]; rfl
  have hrows : ∀ r, (relSt (leaveScc s) r).rows = rowsOf s r := fun r => by
    rw [leaveScc_eq]; exact leave_rows r s.dyn s.rels hdlt
  have hnd : ∀ r, findDyn s.dyn r = none → relSt (leaveScc s) r = relSt s.rels r := by
    intro r hd
    rw [leaveScc_eq]
    apply leave_untouched
    intro d hdm hrel
    have := List.find?_eq_none.mp hd d hdm
    simp [hrel] at this
  refine ⟨⟨?_, ?_, ?_⟩, hrows, ?_⟩
  · rw [leaveScc_eq, leave_length]; exact hwf.len
  · intro r hr
    rw [hrows]; exact hgood r hr
  · intro r i
    cases hd : findDyn s.dyn r with
    | none =>
      rw [hnd r hd]; exact hwf.cover_nd r hd i
    | some d =>
      have hidx : (relSt (leaveScc s) r).idx = d.total := by
        rw [leaveScc_eq]
        apply leave_touched r d.total s.dyn s.rels hdlt
        · intro d' hd' hrel
          have := hwf.uniq d' hd'
          rw [hrel, hd] at this
          cases this; rfl
        · exact .inl ⟨d, findDyn_mem hd, findDyn_rel hd⟩
      rw [hrows, hidx, hwf.cover r d hd i]
      obtain ⟨h1, h2⟩ := hs r d hd
      rw [h1, h2]; simp
  · intro r hr
    apply hnd
    have := hwf.dyn_iff r
    rw [hr] at this
    cases h' : findDyn s.dyn r with
    | none => rfl
    | some d => rw [h'] at this; cases this

include hlt in
theorem leave_full {st : St} {s : SccSt} (rules : List (Rule E B G P A)) (hwf : WF n dynR s) (hgood : Good I p inp n s)
    (hs : Settled s) (hb : Base dynR st s) (hcl : ClosedRules I rules (FactsS s)) :
    PInv I p inp n (leaveScc s) ∧
      (∀ r, dynR.contains r = false → relSt (leaveScc s) r = relSt st r) ∧
      (∀ r t, t ∈ (relSt st r).rows → t ∈ (relSt (leaveScc s) r).rows) ∧
      ClosedRules I rules (factsOf (leaveScc s)) := by
  obtain ⟨h1, h2, h3⟩ := leave_spec I p inp n dynR hlt hwf hgood hs
  have heq : factsOf (leaveScc s) = FactsS s := by
    funext f
    simp only [factsOf, FactsS, h2]
  refine ⟨h1, fun r hr => by rw [h3 r hr]; exact hb.1 r hr, fun r t ht => by rw [h2]; exact hb.2 r t ht, ?_⟩
  rw [heq]; exact hcl

end RunScc

section RunScc2
variable (I : Interp E B G P A) (cfg : Config) (p : Program E B G P A) (inp : RelId → List Tuple)
  (hl : ∀ d ∈ p.rels, d.lat = false) (haf : ∀ r ∈ p.rules, r.aggFree = true)
  (hh : ∀ r ∈ p.rules, ∀ h ∈ r.heads, h.rel < p.rels.length)

include hl haf hh in
theorem runScc_spec (dl : Deadline) (fuel : Nat) (scc : List Nat) (ps ps' : ProgSt)
    (hp : PInv I p inp p.rels.length ps.st) (h : runScc I cfg p dl fuel scc ps = .done ps') :
    PInv I p inp p.rels.length ps'.st ∧
      (∀ r, (dynRels p scc).contains r = false → relSt ps'.st r = relSt ps.st r) ∧
      (∀ r t, t ∈ (relSt ps.st r).rows → t ∈ (relSt ps'.st r).rows) ∧
      ClosedRules I (sccRules p scc) (factsOf ps'.st) := by
  have hrules := sccRules_sub p scc
  have hafs : ∀ rule ∈ sccRules p scc, rule.aggFree = true := fun r hr => haf r (hrules r hr)
  have hdyn : ∀ rule ∈ sccRules p scc, ∀ h ∈ rule.heads, (dynRels p scc).contains h.rel = true :=
    fun rule hr h hhd => (dynRels_mem p scc h.rel).mpr ⟨rule, hr, h, hhd, rfl⟩
  have hlt : ∀ r, (dynRels p scc).contains r = true → r < p.rels.length := by
    intro r hr
    obtain ⟨rule, hrule, h, hhd, rfl⟩ := (dynRels_mem p scc r).mp hr
    exact hh rule (hrules rule hrule) h hhd
  have hinv0 := LoopInv_enter I cfg p inp p.rels.length (dynRels p scc) hl hp (sccRules p scc)
  have hb0 := Base_enter (dynRels p scc) ps.st
  simp only [runScc] at h
  split at h
  · -- looping
    split at h
    · rename_i rs hloop
      simp only [Outcome.done.injEq] at h
      subst h
      obtain ⟨hinv, hset, hb⟩ := sccLoop_spec I cfg p inp p.rels.length (dynRels p scc) hlt hl (sccRules p scc)
        hrules hafs hdyn dl ps.st fuel _ rs hinv0 hb0 hloop
      apply leave_full I p inp p.rels.length (dynRels p scc) hlt (sccRules p scc) hinv.wf hinv.good hset hb
      intro rule hr ρ hsat hd hhd
      refine hinv.front rule hr trivial ρ (Sat.mono ?_ hsat) hd hhd
      exact fun f hf => facts_sub_Dtot cfg p p.rels.length (dynRels p scc) hl hinv.wf hset f hf
    · cases h
    · cases h
  · -- not looping
    rename_i hnl
    have hnl' : isLooping p scc = false := by simpa using hnl
    split at h
    · cases h
    · simp only [Outcome.done.injEq] at h
      subst h
      obtain ⟨hinv, hext⟩ := iter_step I cfg p inp p.rels.length (dynRels p scc) hlt hl (sccRules p scc)
        hrules hafs hdyn _ hinv0
      have hb := Base_step p.rels.length (dynRels p scc) hinv0.wf hb0 hext
      have hwf2 := WF_shift hinv.wf
      have hset : Settled (shift (shift (evalRules I cfg p (dynRels p scc) (sccRules p scc)
          (enterScc ps.st (dynRels p scc))))) := by
        intro r d'' hd''
        rw [findDyn_shift] at hd''
        cases hd : findDyn (shift (evalRules I cfg p (dynRels p scc) (sccRules p scc)
            (enterScc ps.st (dynRels p scc)))).dyn r with
        | none => rw [hd] at hd''; cases hd''
        | some d' =>
          rw [hd] at hd''; cases hd''
          exact ⟨hinv.newE r d' hd, rfl⟩
      have hb2 : Base (dynRels p scc) ps.st (shift (shift (evalRules I cfg p (dynRels p scc) (sccRules p scc)
          (enterScc ps.st (dynRels p scc))))) := hb
      apply leave_full I p inp p.rels.length (dynRels p scc) hlt (sccRules p scc) hwf2 hinv.good hset hb2
      intro rule hr ρ hsat hd hhd
      refine hinv.front rule hr trivial ρ (Sat.congr_rels hsat ?_) hd hhd
      intro r hr' t ht
      exact facts_sub_Dtot_nd cfg p p.rels.length (dynRels p scc) hl hinv.wf r (notLooping p scc hnl' rule hr r hr') t ht

end RunScc2

end AscentVerif.Engine
