import AscentVerif.Proofs.PhysParLatSim
import AscentVerif.Proofs.IndexConc2
/-!
# The parallel engine with lattices: the merge, freezing, SCC entry and exit, `update_indices`
-/
namespace AscentVerif.PhysParLat
open AscentVerif AscentVerif.Engine AscentVerif.Index AscentVerif.Phys AscentVerif.PhysLat AscentVerif.PhysPar

variable {E B G P A : Type}

/-! ## `CLatIndex::move_index_contents` on the map -/

theorem latMove_eq (frm to : LIx) :
    latMove frm to =
      ([], if frm.length > to.length then drainInto latShardFn to frm else drainInto latShardFn frm to) := by
  unfold latMove drainInto
  by_cases h : frm.length > to.length
  · simp only [if_pos h]
    congr
    funext acc kv
    congr
    funext o
    cases o <;> rfl
  · simp only [if_neg h]
    congr
    funext acc kv
    congr
    funext o
    cases o <;> rfl

theorem mem_drainInto_latFn (frm to : LIx) (h : (HMap.keys frm).Nodup) (k : List Val) (x : Nat) :
    x ∈ (HMap.get? (drainInto latShardFn frm to) k).getD [] ↔
      (x ∈ (HMap.get? to k).getD [] ∨ x ∈ (HMap.get? frm k).getD []) := by
  rw [get?_drainInto _ _ _ h]
  cases hf : HMap.get? frm k with
  | none => simp
  | some w => simp [mem_latShardFn]

theorem nodup_latShardFn (v : List Nat) (o : Option (List Nat)) (hv : v.Nodup) (ho : ∀ s : List Nat, o = some s → s.Nodup) :
    (latShardFn v o).Nodup := by
  cases o with
  | none => exact hv
  | some occ =>
    simp only [latShardFn]
    split
    · exact nodup_foldl_setAdd _ _ hv
    · exact nodup_foldl_setAdd _ _ (ho occ rfl)

theorem sets_drainInto_latFn (frm to : LIx) (h : (HMap.keys frm).Nodup)
    (hf : ∀ k s, HMap.get? frm k = some s → s.Nodup) (ht : ∀ k s, HMap.get? to k = some s → s.Nodup) :
    ∀ k s, HMap.get? (drainInto latShardFn frm to) k = some s → s.Nodup := by
  intro k s
  rw [get?_drainInto _ _ _ h]
  cases hfk : HMap.get? frm k with
  | none => exact ht k s
  | some w =>
    simp only [Option.some.injEq]
    intro hs; subst hs
    exact nodup_latShardFn w _ (hf k w hfk) (fun s hs => ht k s hs)

/-- `move_index_contents(delta, total)` of a set-valued index of a lattice -/
theorem LOk_latMove {kc : List Nat} {rows : List Tuple} {bt bd cols : List Nat} {mt md : LIx}
    (ht : LOk kc rows bt cols (.rows mt)) (hd : LOk kc rows bd cols (.rows md)) :
    LOk kc rows (bt ++ bd) cols (.rows (latMove md mt).2) ∧ (latMove md mt).1 = [] := by
  obtain ⟨⟨hne, hnt, hst⟩, ht2⟩ := ht
  obtain ⟨⟨_, hnd, hsd⟩, hd2⟩ := hd
  have h1 : ∀ k i, i ∈ (HMap.get? mt k).getD [] ↔ i ∈ bt ∧ Plan.proj cols (rowAt rows i) = k := ht2
  have h2 : ∀ k i, i ∈ (HMap.get? md k).getD [] ↔ i ∈ bd ∧ Plan.proj cols (rowAt rows i) = k := hd2
  have hnt' : (HMap.keys mt).Nodup := hnt
  have hnd' : (HMap.keys md).Nodup := hnd
  rw [latMove_eq]
  refine ⟨⟨⟨hne, ?_, ?_⟩, ?_⟩, rfl⟩
  · show NoDupKeys (if md.length > mt.length then _ else _)
    split
    · exact nodup_keys_drainInto _ _ _ hnd'
    · exact nodup_keys_drainInto _ _ _ hnt'
  · show ∀ (k : List Val) (s : List Nat), HMap.get? (if md.length > mt.length then _ else _) k = some s → s.Nodup
    split
    · exact sets_drainInto_latFn mt md hnt' hst hsd
    · exact sets_drainInto_latFn md mt hnd' hsd hst
  · intro k i
    show i ∈ (HMap.get? (if md.length > mt.length then _ else _) k).getD [] ↔ _
    have hgoal : (i ∈ (HMap.get? mt k).getD [] ∨ i ∈ (HMap.get? md k).getD []) ↔
        i ∈ bt ++ bd ∧ Plan.proj cols (rowAt rows i) = k := by
      rw [h1, h2, List.mem_append]
      constructor
      · rintro (⟨a, b⟩ | ⟨a, b⟩)
        · exact ⟨.inl a, b⟩
        · exact ⟨.inr a, b⟩
      · rintro ⟨a | a, b⟩
        · exact .inl ⟨a, b⟩
        · exact .inr ⟨a, b⟩
    split
    · rw [mem_drainInto_latFn mt md hnt', ← hgoal]; exact or_comm
    · rw [mem_drainInto_latFn md mt hnd', ← hgoal]

/-! ## `merge_delta_to_total_new_to_delta` on one lattice index -/

theorem LCx_isKey_erase_key {x : LCx} (h : x.isKey = true) : ∃ f m, x = .key f m := by
  cases x with
  | key f m => exact ⟨f, m, rfl⟩
  | rows f m => cases h

theorem LCx_isKey_erase_rows {x : LCx} (h : x.isKey = false) : ∃ f m, x = .rows f m := by
  cases x with
  | key f m => cases h
  | rows f m => exact ⟨f, m, rfl⟩

theorem XOk_rows_of {p : Program E B G P A} {r : RelId} {rows : List Tuple} {bag cols : List Nat} {m : LIx}
    (hlat : isLatRel p r = true) (h : (∀ c ∈ cols, c < arityOf p r - 1) → LOk (keyCols p r) rows bag cols (.rows m)) :
    XOk p r rows bag cols (.rows m) :=
  ⟨fun _ hc => h hc, fun hf => by rw [hlat] at hf; cases hf⟩

theorem mergeLx_ok {kc cols : List Nat} {t : Tri LCx} (hf : LTriFlags kc false (cols, t)) :
    ∃ t', mergeLx t = .ok t' ∧ LTriFlags kc false (cols, t') ∧
      ∀ (p : Program E B G P A) (r : RelId) (rows : List Tuple) (bt bd bn : List Nat), isLatRel p r = true →
        (cols = keyCols p r → ∀ i ∈ bt, ∀ j ∈ bd, Plan.proj cols (rowAt rows i) = Plan.proj cols (rowAt rows j) → i = j) →
        XOk p r rows bt cols t.total.erase → XOk p r rows bd cols t.delta.erase → XOk p r rows bn cols t.new.erase →
        XOk p r rows (bt ++ bd) cols t'.total.erase ∧ XOk p r rows bn cols t'.delta.erase ∧
          XOk p r rows [] cols t'.new.erase := by
  obtain ⟨tt, td, tn⟩ := t
  obtain ⟨k1, k2, k3, f1, f2, f3⟩ := hf
  cases hk : (cols == kc) with
  | true =>
    rw [hk] at k1 k2 k3
    obtain ⟨ft, mt, rfl⟩ := LCx_isKey_erase_key k1
    obtain ⟨fd, md, rfl⟩ := LCx_isKey_erase_key k2
    obtain ⟨fn, mn, rfl⟩ := LCx_isKey_erase_key k3
    have e1 : ft = false := f1
    have e2 : fd = false := f2
    subst e1; subst e2
    refine ⟨_, rfl, ⟨by rw [hk]; rfl, by rw [hk]; rfl, by rw [hk]; rfl, rfl, f3, rfl⟩, ?_⟩
    intro p r rows bt bd bn hlat hu ht hd hn
    exact XOk_shift (t := ⟨.key mt, .key md, .key mn⟩) ht hd hn (fun _ => hu)
  | false =>
    rw [hk] at k1 k2 k3
    obtain ⟨ft, mt, rfl⟩ := LCx_isKey_erase_rows k1
    obtain ⟨fd, md, rfl⟩ := LCx_isKey_erase_rows k2
    obtain ⟨fn, mn, rfl⟩ := LCx_isKey_erase_rows k3
    have e1 : ft = false := f1
    have e2 : fd = false := f2
    subst e1; subst e2
    refine ⟨_, rfl, ⟨by rw [hk]; rfl, by rw [hk]; rfl, by rw [hk]; rfl, rfl, f3, rfl⟩, ?_⟩
    intro p r rows bt bd bn hlat hu ht hd hn
    refine ⟨XOk_rows_of hlat fun hc => (LOk_latMove (ht.1 hlat hc) (hd.1 hlat hc)).1, hn, XOk_rows_of hlat fun hc => ?_⟩
    show LOk _ _ _ _ (.rows (latMove md mt).1)
    rw [(LOk_latMove (ht.1 hlat hc) (hd.1 hlat hc)).2]
    have := ht.1 hlat hc
    refine ⟨⟨this.1.1, List.nodup_nil, fun k s hs => by simp [HMap.get?_nil] at hs⟩, fun k i => ?_⟩
    simp [XHas, HMap.get?_nil]

/-! ## the merge -/

theorem Rel2_find? {α β : Type} (ka : α → Nat) (kb : β → Nat) {Q : α → β → Prop} (hk : ∀ a b, Q a b → kb b = ka a)
    {l : List α} {l' : List β} (h : Rel2 Q l l') (r : Nat) :
    (l.find? (fun x => ka x == r) = none ∧ l'.find? (fun x => kb x == r) = none) ∨
      ∃ a b, l.find? (fun x => ka x == r) = some a ∧ l'.find? (fun x => kb x == r) = some b ∧ Q a b := by
  induction h with
  | nil => exact .inl ⟨rfl, rfl⟩
  | @cons a b l l' hab _ ih =>
    simp only [List.find?_cons, hk a b hab]
    cases hr : ka a == r with
    | true => exact .inr ⟨a, b, rfl, rfl, hab⟩
    | false => exact ih

theorem mergeLDyn_eq (d : LCDyn) :
    mergeLDyn d = (foldRes (fun (done : List (List Nat × Tri LCx)) (ci : List Nat × Tri LCx) =>
      mergeLx ci.2 >>= fun t => pure (done ++ [(ci.1, t)])) d.idxs [] >>= fun idxs => pure { d with idxs := idxs }) := rfl

theorem mergeLDyn_ok {p : Program E B G P A} {d : LCDyn} (hf : LDynFlags p false d) :
    ∃ d', mergeLDyn d = .ok d' ∧ d'.rel = d.rel ∧ LDynFlags p false d' ∧
      ∀ (ix : IxSets) (rows : List Tuple) (ad : Dyn), isLatRel p d.rel = true →
        (∀ i ∈ ad.total, ∀ j ∈ ad.delta,
          Plan.proj (keyCols p d.rel) (rowAt rows i) = Plan.proj (keyCols p d.rel) (rowAt rows j) → i = j) →
        XTriOk p ix d.rel rows ad ⟨[], [], []⟩ (eraseLDyn d).idxs →
        XTriOk p ix d.rel rows (Engine.shiftD ad) ⟨[], [], []⟩ (eraseLDyn d').idxs := by
  obtain ⟨idxs, hfold, hrel2⟩ := foldRes_collect (fun (ci : List Nat × Tri LCx) => mergeLx ci.2)
    (fun ci t => (ci.1, t))
    (fun ci ci' => ci'.1 = ci.1 ∧ LTriFlags (keyCols p d.rel) false ci' ∧
      ∀ (rows : List Tuple) (bt bd bn : List Nat), isLatRel p d.rel = true →
        (ci.1 = keyCols p d.rel → ∀ i ∈ bt, ∀ j ∈ bd,
          Plan.proj ci.1 (rowAt rows i) = Plan.proj ci.1 (rowAt rows j) → i = j) →
        XOk p d.rel rows bt ci.1 ci.2.total.erase → XOk p d.rel rows bd ci.1 ci.2.delta.erase →
        XOk p d.rel rows bn ci.1 ci.2.new.erase →
        XOk p d.rel rows (bt ++ bd) ci'.1 ci'.2.total.erase ∧ XOk p d.rel rows bn ci'.1 ci'.2.delta.erase ∧
          XOk p d.rel rows [] ci'.1 ci'.2.new.erase)
    d.idxs (by
      intro ci hci
      obtain ⟨t', h1, h2, h3⟩ := mergeLx_ok (t := ci.2) (cols := ci.1) (hf ci hci)
      exact ⟨t', h1, rfl, h2, fun rows bt bd bn hl hu => h3 p d.rel rows bt bd bn hl hu⟩)
  refine ⟨{ d with idxs := idxs }, by rw [mergeLDyn_eq, hfold]; rfl, rfl, ?_, ?_⟩
  · intro c' hc'
    obtain ⟨c, _, hq⟩ := hrel2.forall_right c' hc'
    exact hq.2.1
  · intro ix rows ad hlat hu tri
    have hnoF : ∀ {α : Prop}, isLatRel p d.rel = false → α := fun hf => by rw [hlat] at hf; cases hf
    have hall : ∀ c' ∈ idxs, XOk p d.rel rows (ad.total ++ ad.delta) c'.1 c'.2.total.erase ∧
        XOk p d.rel rows ad.new c'.1 c'.2.delta.erase ∧ XOk p d.rel rows [] c'.1 c'.2.new.erase := by
      intro c' hc'
      obtain ⟨c, hc, hq⟩ := hrel2.forall_right c' hc'
      exact hq.2.2 rows _ _ _ hlat (fun hck i hi j hj hp => hu i hi j hj (by rw [← hck]; exact hp))
        (tri.it _ (mem_eraseLDyn hc)) (tri.id _ (mem_eraseLDyn hc)) (tri.inw _ (mem_eraseLDyn hc))
    refine ⟨hnoF, hnoF, hnoF, ?_, ?_, ?_, ?_⟩
    · rw [eraseLDyn_cols]
      show idxs.map (·.1) = _
      rw [← (Rel2.map_eq _ _ (fun c c' hq => hq.1.symm) hrel2), ← eraseLDyn_cols, tri.cols]
    · intro ci hci
      obtain ⟨c', hc', rfl⟩ := List.mem_map.mp hci
      exact (hall c' hc').1
    · intro ci hci
      obtain ⟨c', hc', rfl⟩ := List.mem_map.mp hci
      exact (hall c' hc').2.1
    · intro ci hci
      obtain ⟨c', hc', rfl⟩ := List.mem_map.mp hci
      exact (hall c' hc').2.2

theorem shift_eq (s : PLScc) :
    shift s = (PhysPar.shiftPar s.pc >>= fun pc =>
      foldRes (fun (done : List LCDyn) (d : LCDyn) => mergeLDyn d >>= fun d' => pure (done ++ [d'])) s.ldyn [] >>= fun ldyn =>
      pure { s with pc := pc, ldyn := ldyn }) := rfl

theorem erase_rels_eq (p : Program E B G P A) (s s' : PLScc) (h1 : s'.pc.rels = s.pc.rels) (h2 : s'.lrels = s.lrels) :
    (s'.erase p).rels = (s.erase p).rels := by
  simp only [PLScc.erase, h1, h2]

theorem shift_simP {p : Program E B G P A} {ix : IxSets} {dynR : List RelId} {N : Nat} {bo : List RelId} {a : SccSt}
    {s : PLScc} (hsim : SimP p (ixP p ix) a (s.erase p)) (hwf : WF p.rels.length dynR a)
    (hkeys : ∀ r, isLatRel p r = true → ((rowsOf a r).map keyOf).Nodup) (hpl : PLWf p s)
    (hfl : Flags N bo false s.pc) (hlfl : LFlags p bo false s) :
    ∃ s', shift s = .ok s' ∧ SimP p (ixP p ix) (Engine.shift a) (s'.erase p) ∧ PLWf p s' ∧ Flags N bo false s'.pc ∧
      LFlags p bo false s' ∧ s'.pc.changed = s.pc.changed := by
  obtain ⟨dyn', hfoldP, hrelP⟩ := foldRes_collect mergeDyn (fun _ d' => d')
    (fun d d' => d'.rel = d.rel ∧ DynFlags N false d' ∧
      ∀ (ixr : List (List Nat)) (rows : List Tuple) (ad : Dyn), TriOk ixr rows ad d.erase.full d.erase.idxs →
        TriOk ixr rows (PhysPar.shiftD ad) d'.erase.full d'.erase.idxs)
    s.pc.dyn (fun d hd => mergeDyn_ok (hfl.dyn d hd).1)
  obtain ⟨ldyn', hfoldL, hrelL⟩ := foldRes_collect mergeLDyn (fun _ d' => d')
    (fun d d' => d'.rel = d.rel ∧ LDynFlags p false d' ∧
      ∀ (ix : IxSets) (rows : List Tuple) (ad : Dyn), isLatRel p d.rel = true →
        (∀ i ∈ ad.total, ∀ j ∈ ad.delta,
          Plan.proj (keyCols p d.rel) (rowAt rows i) = Plan.proj (keyCols p d.rel) (rowAt rows j) → i = j) →
        XTriOk p ix d.rel rows ad ⟨[], [], []⟩ (eraseLDyn d).idxs →
        XTriOk p ix d.rel rows (Engine.shiftD ad) ⟨[], [], []⟩ (eraseLDyn d').idxs)
    s.ldyn (fun d hd => mergeLDyn_ok (hlfl.dyn d hd).1)
  have hshP : PhysPar.shiftPar s.pc = .ok { s.pc with dyn := dyn' } := by rw [shiftPar_eq, hfoldP]; rfl
  have hpl' : PLWf p { s with pc := { s.pc with dyn := dyn' }, ldyn := ldyn' } := by
    refine ⟨hpl.len, hpl.llen, ?_, ?_, hpl.prow, hpl.lrow, ?_, ?_⟩
    · intro d' hd'
      obtain ⟨d, hd, hq⟩ := hrelP.forall_right d' hd'
      rw [hq.1]; exact hpl.pdyn d hd
    · intro d' hd'
      obtain ⟨d, hd, hq⟩ := hrelL.forall_right d' hd'
      rw [hq.1]; exact hpl.ldyn d hd
    · show (dyn'.map (·.rel)).Nodup
      rw [← Rel2.map_eq (fun d : PCDyn => d.rel) (fun d : PCDyn => d.rel) (fun c c' hq => hq.1.symm) hrelP]
      exact hpl.pnd
    · show (ldyn'.map (·.rel)).Nodup
      rw [← Rel2.map_eq (fun d : LCDyn => d.rel) (fun d : LCDyn => d.rel) (fun c c' hq => hq.1.symm) hrelL]
      exact hpl.lnd
  refine ⟨{ s with pc := { s.pc with dyn := dyn' }, ldyn := ldyn' }, by rw [shift_eq, hshP, bind_ok, hfoldL]; rfl,
    ?_, hpl', ?_, ?_, rfl⟩
  · have hrels : (({ s with pc := { s.pc with dyn := dyn' }, ldyn := ldyn' } : PLScc).erase p).rels = (s.erase p).rels :=
      erase_rels_eq p s _ rfl rfl
    have hfindP := fun r => Rel2_find? (fun d : PCDyn => d.rel) (fun d : PCDyn => d.rel) (fun a b hq => hq.1) hrelP r
    have hfindL := fun r => Rel2_find? (fun d : LCDyn => d.rel) (fun d : LCDyn => d.rel) (fun a b hq => hq.1) hrelL r
    refine ⟨by rw [hrels]; exact hsim.len, fun r => by rw [hrels]; exact hsim.rows r, hsim.changed, ?_, ?_, ?_, hsim.typed⟩
    · intro r hn
      have hn0 : findDyn a.dyn r = none := by
        rw [findDyn_shift, Option.map_eq_none_iff] at hn; exact hn
      have h0 := hsim.dynN r hn0
      cases hl : isLatRel p r with
      | true =>
        rw [findXDyn_erase_lat p _ hpl.pdyn r hl, Option.map_eq_none_iff] at h0
        rw [findXDyn_erase_lat p _ hpl'.pdyn r hl]
        rcases hfindL r with ⟨_, h2⟩ | ⟨x, y, h1, _, _⟩
        · show (findLDyn ldyn' r).map eraseLDyn = none
          rw [show findLDyn ldyn' r = none from h2]; rfl
        · rw [show findLDyn s.ldyn r = some x from h1] at h0; cases h0
      | false =>
        rw [findXDyn_erase_plain p _ hpl.ldyn r hl, Option.map_eq_none_iff] at h0
        rw [findXDyn_erase_plain p _ hpl'.ldyn r hl]
        rcases hfindP r with ⟨_, h2⟩ | ⟨x, y, h1, _, _⟩
        · show (findPCDyn dyn' r).map erasePDyn = none
          rw [show findPCDyn dyn' r = none from h2]; rfl
        · rw [show findPCDyn s.pc.dyn r = some x from h1] at h0; cases h0
    · intro r d' hs
      rw [findDyn_shift] at hs
      obtain ⟨d, hd, rfl⟩ := Option.map_eq_some_iff.mp hs
      obtain ⟨pd, h1, h2, tri⟩ := hsim.dynS r d hd
      have hcov := hwf.cover r d hd
      have hty : ∀ i, i < (rowsOf a r).length → (rowAt (rowsOf a r) i).length = arityOf p r :=
        fun i hi => hsim.typed r _ (rowAt_mem _ i hi)
      cases hl : isLatRel p r with
      | true =>
        rw [findXDyn_erase_lat p _ hpl.pdyn r hl] at h1
        obtain ⟨ld, hld, rfl⟩ := Option.map_eq_some_iff.mp h1
        rw [findXDyn_erase_lat p _ hpl'.pdyn r hl]
        rcases hfindL r with ⟨h3, _⟩ | ⟨x, y, h3, h4, hq⟩
        · rw [show findLDyn s.ldyn r = none from h3] at hld; cases hld
        · obtain rfl : x = ld := Option.some.inj ((show findLDyn s.ldyn r = some x from h3).symm.trans hld)
          have hxr : x.rel = r := findLDyn_rel h3
          refine ⟨eraseLDyn y, by show (findLDyn ldyn' r).map eraseLDyn = _; rw [show findLDyn ldyn' r = some y from h4]; rfl,
            by show y.rel = r; rw [hq.1, hxr], ?_⟩
          have := hq.2.2 (ixP p ix) (rowsOf a r) d (by rw [hxr]; exact hl) (by
            intro i hi j hj hp
            rw [hxr] at hp
            have hi' := (hcov i).mpr (.inl hi)
            have hj' := (hcov j).mpr (.inr (.inl hj))
            have e1 : Plan.proj (keyCols p r) (rowAt (rowsOf a r) i) = keyOf (rowAt (rowsOf a r) i) := proj_keyCols (hty i hi')
            have e2 : Plan.proj (keyCols p r) (rowAt (rowsOf a r) j) = keyOf (rowAt (rowsOf a r) j) := proj_keyCols (hty j hj')
            rw [e1, e2] at hp
            exact idx_of_key (hkeys r hl) hi' hj' hp) (by rw [hxr]; exact tri)
          rw [hxr] at this
          exact this
      | false =>
        rw [findXDyn_erase_plain p _ hpl.ldyn r hl] at h1
        obtain ⟨cd, hcd, rfl⟩ := Option.map_eq_some_iff.mp h1
        rw [findXDyn_erase_plain p _ hpl'.ldyn r hl]
        rcases hfindP r with ⟨h3, _⟩ | ⟨x, y, h3, h4, hq⟩
        · rw [show findPCDyn s.pc.dyn r = none from h3] at hcd; cases hcd
        · obtain rfl : x = cd := Option.some.inj ((show findPCDyn s.pc.dyn r = some x from h3).symm.trans hcd)
          have hxr : x.rel = r := findPCDyn_rel h3
          refine ⟨erasePDyn y, by show (findPCDyn dyn' r).map erasePDyn = _; rw [show findPCDyn dyn' r = some y from h4]; rfl,
            by show y.rel = r; rw [hq.1, hxr], ?_⟩
          exact (XTriOk_plain hl).mpr (hq.2.2 _ _ d ((XTriOk_plain hl).mp tri))
    · intro r hr hnd
      have hnd0 : findDyn a.dyn r = none := by
        rw [findDyn_shift, Option.map_eq_none_iff] at hnd; exact hnd
      rw [hrels]
      exact hsim.nd r hr hnd0
  · refine ⟨?_, hfl.rels⟩
    intro d' hd'
    obtain ⟨d, hd, hq⟩ := hrelP.forall_right d' hd'
    exact ⟨hq.2.1, by rw [hq.1]; exact (hfl.dyn d hd).2⟩
  · refine ⟨?_, hlfl.rels⟩
    intro d' hd'
    obtain ⟨d, hd, hq⟩ := hrelL.forall_right d' hd'
    exact ⟨hq.2.1, by rw [hq.1]; exact (hlfl.dyn d hd).2⟩

/-! ## freezing and unfreezing `total` / `delta` around the phases of an iteration -/

def freezeAll (s : PLScc) : PLScc :=
  { s with pc := { s.pc with dyn := s.pc.dyn.map PhysPar.freezeDyn, changed := false }, ldyn := s.ldyn.map freezeLDyn }

def unfreezeAll (s : PLScc) : PLScc :=
  { s with pc := { s.pc with dyn := s.pc.dyn.map PhysPar.unfreezeDyn }, ldyn := s.ldyn.map unfreezeLDyn }

theorem erasePDyn_freeze (d : PCDyn) : erasePDyn (freezeDyn d) = erasePDyn d := by
  show XDyn.mk _ _ _ = XDyn.mk _ _ _
  congr 1
  show (d.idxs.map _).map _ = d.idxs.map _
  rw [List.map_map]
  apply List.map_congr_left
  intro ci _
  simp

theorem erasePDyn_unfreeze (d : PCDyn) : erasePDyn (unfreezeDyn d) = erasePDyn d := by
  show XDyn.mk _ _ _ = XDyn.mk _ _ _
  congr 1
  show (d.idxs.map _).map _ = d.idxs.map _
  rw [List.map_map]
  apply List.map_congr_left
  intro ci _
  simp

theorem eraseLDyn_freeze (d : LCDyn) : eraseLDyn (freezeLDyn d) = eraseLDyn d := by
  show XDyn.mk _ _ _ = XDyn.mk _ _ _
  congr 1
  show (d.idxs.map _).map _ = d.idxs.map _
  rw [List.map_map]
  apply List.map_congr_left
  intro ci _
  simp

theorem eraseLDyn_unfreeze (d : LCDyn) : eraseLDyn (unfreezeLDyn d) = eraseLDyn d := by
  show XDyn.mk _ _ _ = XDyn.mk _ _ _
  congr 1
  show (d.idxs.map _).map _ = d.idxs.map _
  rw [List.map_map]
  apply List.map_congr_left
  intro ci _
  simp

theorem erase_freezeAll (p : Program E B G P A) (s : PLScc) : (freezeAll s).erase p = { s.erase p with changed := false } := by
  show XScc.mk _ _ _ = XScc.mk _ _ _
  congr 1
  show (s.pc.dyn.map freezeDyn).map erasePDyn ++ (s.ldyn.map freezeLDyn).map eraseLDyn = _
  rw [List.map_map, List.map_map]
  congr 1
  · exact List.map_congr_left fun d _ => erasePDyn_freeze d
  · exact List.map_congr_left fun d _ => eraseLDyn_freeze d

theorem erase_unfreezeAll (p : Program E B G P A) (s : PLScc) : (unfreezeAll s).erase p = s.erase p := by
  show XScc.mk _ _ _ = XScc.mk _ _ _
  congr 1
  show (s.pc.dyn.map unfreezeDyn).map erasePDyn ++ (s.ldyn.map unfreezeLDyn).map eraseLDyn = _
  rw [List.map_map, List.map_map]
  congr 1
  · exact List.map_congr_left fun d _ => erasePDyn_unfreeze d
  · exact List.map_congr_left fun d _ => eraseLDyn_unfreeze d

theorem PLWf_mapDyn {p : Program E B G P A} {s : PLScc} (h : PLWf p s) (f : PCDyn → PCDyn) (g : LCDyn → LCDyn)
    (hf : ∀ d, (f d).rel = d.rel) (hg : ∀ d, (g d).rel = d.rel) (c : Bool) :
    PLWf p { s with pc := { s.pc with dyn := s.pc.dyn.map f, changed := c }, ldyn := s.ldyn.map g } := by
  refine ⟨h.len, h.llen, ?_, ?_, h.prow, h.lrow, ?_, ?_⟩
  · intro d' hd'
    obtain ⟨d, hd, rfl⟩ := List.mem_map.mp hd'
    rw [hf]; exact h.pdyn d hd
  · intro d' hd'
    obtain ⟨d, hd, rfl⟩ := List.mem_map.mp hd'
    rw [hg]; exact h.ldyn d hd
  · show ((s.pc.dyn.map f).map (·.rel)).Nodup
    rw [List.map_map]
    have : ((fun x : PCDyn => x.rel) ∘ f) = fun x => x.rel := funext hf
    rw [this]; exact h.pnd
  · show ((s.ldyn.map g).map (·.rel)).Nodup
    rw [List.map_map]
    have : ((fun x : LCDyn => x.rel) ∘ g) = fun x => x.rel := funext hg
    rw [this]; exact h.lnd

theorem PLWf_freezeAll {p : Program E B G P A} {s : PLScc} (h : PLWf p s) : PLWf p (freezeAll s) :=
  PLWf_mapDyn h PhysPar.freezeDyn freezeLDyn (fun _ => rfl) (fun _ => rfl) false

theorem PLWf_unfreezeAll {p : Program E B G P A} {s : PLScc} (h : PLWf p s) : PLWf p (unfreezeAll s) :=
  PLWf_mapDyn h PhysPar.unfreezeDyn unfreezeLDyn (fun _ => rfl) (fun _ => rfl) s.pc.changed

theorem LFlags_freezeAll {p : Program E B G P A} {bo : List RelId} {s : PLScc} (h : LFlags p bo false s) :
    LFlags p bo true (freezeAll s) := by
  refine ⟨?_, h.rels⟩
  intro d' hd'
  obtain ⟨d, hd, rfl⟩ := List.mem_map.mp hd'
  refine ⟨?_, (h.dyn d hd).2⟩
  intro ci hci
  obtain ⟨c, hc, rfl⟩ := List.mem_map.mp hci
  obtain ⟨k1, k2, k3, _, _, f3⟩ := (h.dyn d hd).1 c hc
  exact ⟨by simpa using (show c.2.total.isKey = (c.1 == keyCols p (freezeLDyn d).rel) from k1), by simpa using (show c.2.delta.isKey = (c.1 == keyCols p (freezeLDyn d).rel) from k2), k3, LCx.isFrozen_freeze _, LCx.isFrozen_freeze _, f3⟩

theorem LFlags_unfreezeAll {p : Program E B G P A} {bo : List RelId} {s : PLScc} (h : LFlags p bo true s) :
    LFlags p bo false (unfreezeAll s) := by
  refine ⟨?_, h.rels⟩
  intro d' hd'
  obtain ⟨d, hd, rfl⟩ := List.mem_map.mp hd'
  refine ⟨?_, (h.dyn d hd).2⟩
  intro ci hci
  obtain ⟨c, hc, rfl⟩ := List.mem_map.mp hci
  obtain ⟨k1, k2, k3, _, _, f3⟩ := (h.dyn d hd).1 c hc
  exact ⟨by simpa using (show c.2.total.isKey = (c.1 == keyCols p (unfreezeLDyn d).rel) from k1), by simpa using (show c.2.delta.isKey = (c.1 == keyCols p (unfreezeLDyn d).rel) from k2), k3, LCx.isFrozen_unfreeze _, LCx.isFrozen_unfreeze _, f3⟩

/-! ## between SCCs -/

structure PStInv (p : Program E B G P A) (ix : IxSets) (N : Nat) (st : St) (pst : PLSt) : Prop where
  sim : SimStL p (ixP p ix) st (pst.erase p)
  len : pst.pc.length = p.rels.length
  llen : pst.lat.length = p.rels.length
  pfl : StFlags N pst.pc
  lfl : LStFlags p pst.lat
  prow : ∀ r, isLatRel p r = true → (pcrel pst.pc r).rows = []
  lrow : ∀ r, isLatRel p r = false → lrel pst.lat r = ⟨[], []⟩

/-! ## SCC entry -/

theorem nodup_eraseDupsL {α : Type} [BEq α] [LawfulBEq α] :
    ∀ (n : Nat) (l : List α), l.length ≤ n → l.eraseDups.Nodup
  | _, [], _ => by simp
  | 0, _ :: _, h => by simp at h
  | n + 1, b :: l, h => by
    have hlen : (l.filter fun x => !x == b).length ≤ n :=
      Nat.le_trans (List.length_filter_le _ _) (by simpa using h)
    rw [List.eraseDups_cons, List.nodup_cons]
    refine ⟨?_, nodup_eraseDupsL n _ hlen⟩
    rw [mem_eraseDups', List.mem_filter]
    rintro ⟨_, hb⟩
    simp at hb

theorem dynRels_nodup (p : Program E B G P A) (scc : List Nat) : (dynRels p scc).Nodup :=
  nodup_eraseDupsL _ _ (Nat.le_refl _)

theorem find?_map_mk {β : Type} (key : β → Nat) (mk : Nat → β) (hk : ∀ r, key (mk r) = r) (l : List Nat) (r : Nat) :
    (l.map mk).find? (fun x => key x == r) = if l.contains r then some (mk r) else none := by
  induction l with
  | nil => rfl
  | cons a l ih =>
    simp only [List.map_cons, List.find?_cons, hk, List.contains_cons]
    by_cases har : a = r
    · subst har; simp
    · have h1 : (a == r) = false := by simpa using har
      have h2 : (r == a) = false := by simpa using fun h => har h.symm
      simp only [h1, h2, Bool.false_or]
      exact ih

theorem contains_filter (l : List Nat) (q : Nat → Bool) (r : Nat) : (l.filter q).contains r = (l.contains r && q r) := by
  rw [Bool.eq_iff_iff]
  simp only [List.contains_iff_mem, List.mem_filter, Bool.and_eq_true]

/-- the dynamic entry of a lattice at SCC entry -/
def mkLDyn (s : PLSt) (r : RelId) : LCDyn :=
  { rel := r, idxs := (lrel s.lat r).idxs.map fun ci => (ci.1, { total := ci.2.fresh, delta := ci.2, new := ci.2.fresh }) }

/-- the dynamic entry of a plain relation at SCC entry -/
def mkPDyn (threads : Nat) (s : PCSt) (r : RelId) : PCDyn :=
  { rel := r, full := { total := PCFull.new, delta := (pcrel s r).full, new := PCFull.new }
    idxs := (pcrel s r).idxs.map fun ci =>
      (ci.1, { total := PCx.new threads ci.1, delta := ci.2, new := PCx.new threads ci.1 }) }

theorem enter_ldyn (threads : Nat) (p : Program E B G P A) (scc : List Nat) (s : PLSt) :
    (enterScc threads p scc s).ldyn = ((dynRels p scc).filter fun r => isLatRel p r).map (mkLDyn s) := rfl

theorem enter_pdyn (threads : Nat) (p : Program E B G P A) (scc : List Nat) (s : PLSt) :
    (enterScc threads p scc s).pc.dyn = ((dynRels p scc).filter fun r => !isLatRel p r).map (mkPDyn threads s.pc) := by
  show ((dynRels p scc).map (mkPDyn threads s.pc)).filter (fun d => !isLatRel p d.rel) = _
  rw [List.filter_map]
  rfl

theorem enter_pcrels (threads : Nat) (p : Program E B G P A) (scc : List Nat) (s : PLSt) :
    (enterScc threads p scc s).pc.rels = (PhysPar.enterScc threads p scc s.pc).rels := rfl

theorem enter_pcrel (threads : Nat) (p : Program E B G P A) (scc : List Nat) (s : PLSt) (r : RelId) (hr : r < s.pc.length) :
    pcrel (enterScc threads p scc s).pc.rels r =
      if (dynRels p scc).contains r then
        { pcrel s.pc r with full := PCFull.new, idxs := (pcrel s.pc r).idxs.map fun ci => (ci.1, PCx.new threads ci.1) }
      else if (bodyOnly p scc).contains r then
        { pcrel s.pc r with full := (pcrel s.pc r).full.freeze, idxs := (pcrel s.pc r).idxs.map fun ci => (ci.1, ci.2.freeze) }
      else pcrel s.pc r := by
  rw [enter_pcrels, PhysPar.enterScc_eq]
  simp only [pcrel_rangeMap _ _ _ hr]

theorem enter_lrel (threads : Nat) (p : Program E B G P A) (scc : List Nat) (s : PLSt) (r : RelId) (hr : r < s.pc.length) :
    lrel (enterScc threads p scc s).lrels r =
      if !isLatRel p r then lrel s.lat r
      else if (dynRels p scc).contains r then
        { lrel s.lat r with idxs := (lrel s.lat r).idxs.map fun ci => (ci.1, ci.2.fresh) }
      else if (bodyOnly p scc).contains r then
        { lrel s.lat r with idxs := (lrel s.lat r).idxs.map fun ci => (ci.1, ci.2.freeze) }
      else lrel s.lat r := by
  simp only [enterScc, lrel_rangeMap _ _ _ hr]
  rfl

theorem findLDyn_enter (threads : Nat) (p : Program E B G P A) (scc : List Nat) (s : PLSt) (r : RelId) :
    findLDyn (enterScc threads p scc s).ldyn r =
      if (dynRels p scc).contains r && isLatRel p r then some (mkLDyn s r) else none := by
  rw [enter_ldyn]
  show List.find? (fun x : LCDyn => x.rel == r) _ = _
  rw [find?_map_mk (fun x : LCDyn => x.rel) (mkLDyn s) (fun _ => rfl), contains_filter]

theorem findPCDyn_enter (threads : Nat) (p : Program E B G P A) (scc : List Nat) (s : PLSt) (r : RelId) :
    findPCDyn (enterScc threads p scc s).pc.dyn r =
      if (dynRels p scc).contains r && !isLatRel p r then some (mkPDyn threads s.pc r) else none := by
  rw [enter_pdyn]
  show List.find? (fun x : PCDyn => x.rel == r) _ = _
  rw [find?_map_mk (fun x : PCDyn => x.rel) (mkPDyn threads s.pc) (fun _ => rfl), contains_filter]

theorem enter_wf (threads : Nat) (p : Program E B G P A) (scc : List Nat) {ix : IxSets} {N : Nat} {st : St} {pst : PLSt}
    (h : PStInv p ix N st pst) : PLWf p (enterScc threads p scc pst) := by
  have hlen : (enterScc threads p scc pst).pc.rels.length = p.rels.length := by
    rw [enter_pcrels, PhysPar.enterScc_eq]; simp [h.len]
  refine ⟨hlen, by simp [enterScc, h.len], ?_, ?_, ?_, ?_, ?_, ?_⟩
  · intro d hd
    rw [enter_pdyn] at hd
    obtain ⟨r, hr, rfl⟩ := List.mem_map.mp hd
    have := (List.mem_filter.mp hr).2
    simpa [mkPDyn] using this
  · intro d hd
    rw [enter_ldyn] at hd
    obtain ⟨r, hr, rfl⟩ := List.mem_map.mp hd
    exact (List.mem_filter.mp hr).2
  · intro r hl
    have hr : r < pst.pc.length := by rw [h.len]; exact lat_lt p hl
    rw [enter_pcrel _ _ _ _ _ hr]
    split
    · exact h.prow r hl
    · split
      · exact h.prow r hl
      · exact h.prow r hl
  · intro r hl
    by_cases hr : r < pst.pc.length
    · rw [enter_lrel _ _ _ _ _ hr]
      simp only [hl, Bool.not_false, if_true]
      exact h.lrow r hl
    · rw [lrel_of_ge _ _ (by simpa [enterScc] using Nat.le_of_not_lt hr)]
  · rw [enter_pdyn, List.map_map]
    show (((dynRels p scc).filter fun r => !isLatRel p r).map fun r => r).Nodup
    rw [List.map_id']
    exact (dynRels_nodup p scc).filter _
  · rw [enter_ldyn, List.map_map]
    show (((dynRels p scc).filter fun r => isLatRel p r).map fun r => r).Nodup
    rw [List.map_id']
    exact (dynRels_nodup p scc).filter _

theorem eraseLDyn_mk_idxs (s : PLSt) (r : RelId) :
    (eraseLDyn (mkLDyn s r)).idxs =
      (lrel s.lat r).idxs.map fun ci => (ci.1, (⟨emptyLike ci.2.erase, ci.2.erase, emptyLike ci.2.erase⟩ : Tri XIx)) := by
  simp only [eraseLDyn, mkLDyn, List.map_map]
  apply List.map_congr_left
  intro ci _
  simp [LCx.erase_fresh]

theorem erasePDyn_mk (threads : Nat) (s : PCSt) (r : RelId) :
    erasePDyn (mkPDyn threads s r) =
      ⟨r, ⟨[], (pcrel s r).full.m, []⟩,
        (pcrel s r).idxs.map fun ci => (ci.1, (⟨.vals [], .vals ci.2.erase, .vals []⟩ : Tri XIx))⟩ := by
  simp only [erasePDyn, mkPDyn, List.map_map]
  show XDyn.mk _ _ _ = XDyn.mk _ _ _
  congr 1
  apply List.map_congr_left
  intro ci _
  simp [erase_new]

/-- the rows do not move at SCC entry -/
theorem enter_rows (threads : Nat) (p : Program E B G P A) (scc : List Nat) {ix : IxSets} {N : Nat} {st : St} {pst : PLSt}
    (h : PStInv p ix N st pst) (r : RelId) :
    (eraseRel p (enterScc threads p scc pst).pc.rels (enterScc threads p scc pst).lrels r).rows =
      (eraseRel p pst.pc pst.lat r).rows := by
  by_cases hr : r < pst.pc.length
  · cases hl : isLatRel p r with
    | true =>
      rw [eraseRel_lat p _ _ r hl, eraseRel_lat p _ _ r hl, enter_lrel _ _ _ _ _ hr]
      simp only [hl, Bool.not_true, Bool.false_eq_true, if_false]
      split
      · rfl
      · split <;> rfl
    | false =>
      rw [eraseRel_plain p _ _ r hl, eraseRel_plain p _ _ r hl, enter_pcrel _ _ _ _ _ hr]
      split
      · rfl
      · split <;> rfl
  · have hr' : pst.pc.length ≤ r := Nat.le_of_not_lt hr
    rw [eraseRel_ge p _ _ r (by rw [← h.len]; exact hr') (by rw [(enter_wf threads p scc h).len, ← h.len]; exact hr'),
      eraseRel_ge p _ _ r (by rw [← h.len]; exact hr') hr']

/-- a relation that is not dynamic shows the same erased indices after SCC entry -/
theorem enter_nondyn (threads : Nat) (p : Program E B G P A) (scc : List Nat) (pst : PLSt) (r : RelId)
    (hr : r < pst.pc.length) (hnd : (dynRels p scc).contains r = false) :
    eraseRel p (enterScc threads p scc pst).pc.rels (enterScc threads p scc pst).lrels r = eraseRel p pst.pc pst.lat r := by
  cases hl : isLatRel p r with
  | true =>
    rw [eraseRel_lat p _ _ r hl, eraseRel_lat p _ _ r hl, enter_lrel _ _ _ _ _ hr]
    simp only [hl, Bool.not_true, Bool.false_eq_true, if_false, hnd]
    split
    · show XRel.mk _ _ _ = XRel.mk _ _ _
      congr 1
      show ((lrel pst.lat r).idxs.map _).map _ = _
      rw [List.map_map]
      apply List.map_congr_left
      intro ci _
      simp
    · rfl
  | false =>
    rw [eraseRel_plain p _ _ r hl, eraseRel_plain p _ _ r hl, enter_pcrel _ _ _ _ _ hr]
    simp only [hnd, Bool.false_eq_true, if_false]
    split
    · show XRel.mk _ _ _ = XRel.mk _ _ _
      congr 1
      show ((pcrel pst.pc r).idxs.map _).map _ = _
      rw [List.map_map]
      apply List.map_congr_left
      intro ci _
      simp
    · rfl

theorem enter_simP (threads : Nat) (p : Program E B G P A) (scc : List Nat) {ix : IxSets} {N : Nat} {st : St} {pst : PLSt}
    (h : PStInv p ix N st pst) (hlt : ∀ r, (dynRels p scc).contains r = true → r < p.rels.length) :
    SimP p (ixP p ix) (Engine.enterScc st (dynRels p scc)) ((enterScc threads p scc pst).erase p) := by
  have W := enter_wf threads p scc h
  have hrels : (Engine.enterScc st (dynRels p scc)).rels = st := enterScc_rels st _
  have hstlen : st.length = p.rels.length := by
    have := h.sim.len
    rw [this]; simp [PLSt.erase, h.len]
  have hxr : ∀ r, xrel ((enterScc threads p scc pst).erase p).rels r =
      eraseRel p (enterScc threads p scc pst).pc.rels (enterScc threads p scc pst).lrels r := xrel_erase p _ W.len
  have hxs : ∀ r, xrel (pst.erase p) r = eraseRel p pst.pc pst.lat r := xrel_eraseSt p pst h.len
  refine ⟨?_, ?_, rfl, ?_, ?_, ?_, ?_⟩
  · rw [hrels, erase_rels_length, W.len, hstlen]
  · intro r
    rw [hrels, hxr, enter_rows threads p scc h r, ← hxs]
    exact h.sim.rows r
  · intro r hn
    rw [findDyn_enter] at hn
    have hc : (dynRels p scc).contains r = false := by
      cases hh : (dynRels p scc).contains r with
      | false => rfl
      | true => rw [hh] at hn; simp at hn
    cases hl : isLatRel p r with
    | true => rw [findXDyn_erase_lat p _ W.pdyn r hl, findLDyn_enter, hc]; rfl
    | false => rw [findXDyn_erase_plain p _ W.ldyn r hl, findPCDyn_enter, hc]; rfl
  · intro r d hs
    rw [findDyn_enter] at hs
    have hc : (dynRels p scc).contains r = true := by
      cases hh : (dynRels p scc).contains r with
      | true => rfl
      | false => rw [hh] at hs; simp at hs
    rw [hc] at hs
    simp only [if_true, Option.some.injEq] at hs
    subst hs
    have hr : r < st.length := by rw [hstlen]; exact hlt r hc
    obtain ⟨hf, hcols, hi⟩ := h.sim.ok r hr
    rw [hrels]
    cases hl : isLatRel p r with
    | true =>
      have hnoF : ∀ {α : Prop}, isLatRel p r = false → α := fun hf => by rw [hl] at hf; cases hf
      rw [hxs, eraseRel_lat p _ _ r hl] at hcols hi
      refine ⟨eraseLDyn (mkLDyn pst r), by rw [findXDyn_erase_lat p _ W.pdyn r hl, findLDyn_enter, hc, hl]; rfl, rfl, ?_⟩
      rw [show (eraseLDyn (mkLDyn pst r)).full = ⟨[], [], []⟩ from rfl, eraseLDyn_mk_idxs]
      refine ⟨hnoF, hnoF, hnoF, ?_, ?_, ?_, ?_⟩
      · rw [List.map_map, ← hcols, List.map_map]; rfl
      · intro ci hci
        obtain ⟨c, hc', rfl⟩ := List.mem_map.mp hci
        exact XOk_emptyLike (hi _ (List.mem_map.mpr ⟨c, hc', rfl⟩))
      · intro ci hci
        obtain ⟨c, hc', rfl⟩ := List.mem_map.mp hci
        exact hi _ (List.mem_map.mpr ⟨c, hc', rfl⟩)
      · intro ci hci
        obtain ⟨c, hc', rfl⟩ := List.mem_map.mp hci
        exact XOk_emptyLike (hi _ (List.mem_map.mpr ⟨c, hc', rfl⟩))
    | false =>
      rw [hxs, eraseRel_plain p _ _ r hl] at hf hcols hi
      refine ⟨erasePDyn (mkPDyn threads pst.pc r),
        by rw [findXDyn_erase_plain p _ W.ldyn r hl, findPCDyn_enter, hc, hl]; rfl, rfl, ?_⟩
      rw [erasePDyn_mk]
      refine ⟨fun _ => FullOk_nil _, hf, fun _ => FullOk_nil _, ?_, ?_, ?_, ?_⟩
      · rw [List.map_map, ← hcols, List.map_map]; rfl
      · intro ci hci
        obtain ⟨c, hc', rfl⟩ := List.mem_map.mp hci
        exact XOk_plain hl (IxOk_nil _ _)
      · intro ci hci
        obtain ⟨c, hc', rfl⟩ := List.mem_map.mp hci
        exact hi _ (List.mem_map.mpr ⟨c, hc', rfl⟩)
      · intro ci hci
        obtain ⟨c, hc', rfl⟩ := List.mem_map.mp hci
        exact XOk_plain hl (IxOk_nil _ _)
  · intro r hr hnd
    rw [hrels] at hr ⊢
    rw [findDyn_enter] at hnd
    have hc : (dynRels p scc).contains r = false := by
      cases hh : (dynRels p scc).contains r with
      | false => rfl
      | true => rw [hh] at hnd; simp at hnd
    rw [hxr, enter_nondyn threads p scc pst r (by rw [h.len, ← hstlen]; exact hr) hc, ← hxs]
    exact h.sim.ok r hr
  · intro r t ht
    rw [hrels] at ht; exact h.sim.typed r t ht

theorem enter_flags (threads : Nat) (p : Program E B G P A) (scc : List Nat) {ix : IxSets} {st : St} {pst : PLSt}
    (h : PStInv p ix (max threads 1) st pst) :
    Flags (max threads 1) (bodyOnly p scc) false (enterScc threads p scc pst).pc ∧
      LFlags p (bodyOnly p scc) false (enterScc threads p scc pst) := by
  have F := Flags_enterScc threads p scc pst.pc h.pfl
  refine ⟨⟨fun d hd => F.dyn d (List.mem_filter.mp hd).1, F.rels⟩, ?_, ?_⟩
  · intro d hd
    rw [enter_ldyn] at hd
    obtain ⟨r, hr, rfl⟩ := List.mem_map.mp hd
    obtain ⟨hr1, hl⟩ := List.mem_filter.mp hr
    have hrl : r < pst.lat.length := by rw [h.llen]; exact lat_lt p hl
    refine ⟨?_, bodyOnly_dyn p scc r (List.contains_iff_mem.mpr hr1)⟩
    intro ci hci
    obtain ⟨c, hc, rfl⟩ := List.mem_map.mp hci
    obtain ⟨g1, g2⟩ := h.lfl r hrl hl c hc
    have g1' : c.2.isKey = (c.1 == keyCols p (mkLDyn pst r).rel) := g1
    exact ⟨by simpa using g1', g1', by simpa using g1', LCx.isFrozen_fresh _, g2, LCx.isFrozen_fresh _⟩
  · intro r hr hl
    have hr' : r < pst.pc.length := by simpa [enterScc] using hr
    have hrl : r < pst.lat.length := by rw [h.llen, ← h.len]; exact hr'
    have g := h.lfl r hrl hl
    rw [enter_lrel _ _ _ _ _ hr']
    simp only [hl, Bool.not_true, Bool.false_eq_true, if_false]
    by_cases hd : (dynRels p scc).contains r = true
    · rw [if_pos hd, bodyOnly_dyn p scc r hd]
      intro ci hci
      obtain ⟨c, hc, rfl⟩ := List.mem_map.mp hci
      exact ⟨by simpa using (g c hc).1, LCx.isFrozen_fresh _⟩
    · rw [if_neg hd]
      by_cases hb : (bodyOnly p scc).contains r = true
      · rw [if_pos hb, hb]
        intro ci hci
        obtain ⟨c, hc, rfl⟩ := List.mem_map.mp hci
        exact ⟨by simpa using (g c hc).1, LCx.isFrozen_freeze _⟩
      · rw [if_neg hb]
        have hb' : (bodyOnly p scc).contains r = false := by simpa using hb
        rw [hb']
        exact g

end AscentVerif.PhysParLat
