import AscentVerif.Proofs.PhysEval
/-!
# The simulation relation between the physical engine and the bag engine (steps 3 and 4 of `Props/C01Phys.lean`)

`Sim p ix a ph`: the abstract SCC state `a` (bags of row numbers) and the physical SCC state `ph` (hash indices) hold the
same rows, the same `changed` flag, the same dynamic relations in the same order, and every physical index version holds
exactly the entries of the rows numbered by the corresponding bag (`VerOk` / `TriOk`).  `SimSt`: the same between SCCs.
The head update, the merge, SCC entry and exit and `update_indices` preserve it.
-/
namespace AscentVerif.Phys
open AscentVerif AscentVerif.Engine AscentVerif.Index

variable {E B G P A : Type}

/-! ## two lists related element by element -/

inductive Rel2 {α β : Type} (R : α → β → Prop) : List α → List β → Prop where
  | nil : Rel2 R [] []
  | cons {a : α} {b : β} {l : List α} {l' : List β} : R a b → Rel2 R l l' → Rel2 R (a :: l) (b :: l')

theorem Rel2.map {α β γ δ : Type} {R : α → β → Prop} {S : γ → δ → Prop} (f : α → γ) (g : β → δ)
    (h : ∀ a b, R a b → S (f a) (g b)) {l : List α} {l' : List β} (hr : Rel2 R l l') : Rel2 S (l.map f) (l'.map g) := by
  induction hr with
  | nil => exact .nil
  | cons hab _ ih => exact .cons (h _ _ hab) ih

theorem Rel2.of_map {ι α β : Type} {R : α → β → Prop} (f : ι → α) (g : ι → β) :
    ∀ (l : List ι), (∀ x ∈ l, R (f x) (g x)) → Rel2 R (l.map f) (l.map g)
  | [], _ => .nil
  | x :: l, h => .cons (h x (by simp)) (Rel2.of_map f g l fun y hy => h y (List.mem_cons_of_mem _ hy))

/-! ## the physical state accessors -/

theorem prel_setNth_self (s : PSt) (r : RelId) (x : PRel) (h : r < s.length) : prel (setNth s r x) r = x := by
  simp [prel, setNth_eq_set, List.getD_eq_getElem?_getD, h]

theorem prel_setNth_ne (s : PSt) (r r' : RelId) (x : PRel) (h : r' ≠ r) : prel (setNth s r x) r' = prel s r' := by
  simp [prel, setNth_eq_set, List.getD_eq_getElem?_getD, List.getElem?_set_ne (Ne.symm h)]

theorem prel_of_ge (s : PSt) (r : RelId) (h : s.length ≤ r) : prel s r = ⟨[], [], []⟩ := by
  simp [prel, List.getD_eq_getElem?_getD, List.getElem?_eq_none h]

theorem prel_rangeMap (f : Nat → PRel) (m : Nat) (r : RelId) (hr : r < m) : prel ((List.range m).map f) r = f r := by
  simp [prel, List.getD_eq_getElem?_getD, List.getElem?_map, List.getElem?_range hr]

theorem prel_rangeMap_ge (f : Nat → PRel) (m : Nat) (r : RelId) (hr : m ≤ r) :
    prel ((List.range m).map f) r = ⟨[], [], []⟩ :=
  prel_of_ge _ _ (by simpa using hr)

theorem findPDyn_cons (x : PDyn) (l : List PDyn) (r : RelId) :
    findPDyn (x :: l) r = if x.rel == r then some x else findPDyn l r := by
  simp only [findPDyn, List.find?_cons]
  cases x.rel == r <;> rfl

theorem findDyn_cons (x : Dyn) (l : List Dyn) (r : RelId) :
    findDyn (x :: l) r = if x.rel == r then some x else findDyn l r := by
  simp only [findDyn, List.find?_cons]
  cases x.rel == r <;> rfl

/-! ## the simulation relation -/

/-- the three versions of all the indices of one dynamic relation against its three bags -/
structure TriOk (ixr : List (List Nat)) (rows : List Tuple) (d : Dyn) (full : Tri FIx)
    (idxs : List (List Nat × Tri PIx)) : Prop where
  ft : FullOk rows d.total full.total
  fd : FullOk rows d.delta full.delta
  fn : FullOk rows d.new full.new
  cols : idxs.map (·.1) = ixr
  it : ∀ ci ∈ idxs, IxOk rows d.total ci.1 ci.2.total
  id : ∀ ci ∈ idxs, IxOk rows d.delta ci.1 ci.2.delta
  inw : ∀ ci ∈ idxs, IxOk rows d.new ci.1 ci.2.new

theorem verOk_map {ixr : List (List Nat)} {rows : List Tuple} {bag : List Nat} {full : FIx}
    {idxs : List (List Nat × Tri PIx)} (sel : Tri PIx → PIx) (hf : FullOk rows bag full)
    (hc : idxs.map (·.1) = ixr) (hi : ∀ ci ∈ idxs, IxOk rows bag ci.1 (sel ci.2)) :
    VerOk ixr rows bag full (idxs.map fun ci => (ci.1, sel ci.2)) := by
  refine ⟨hf, ?_, ?_⟩
  · rw [List.map_map, ← hc]; rfl
  · intro ci hci
    obtain ⟨c, hc', rfl⟩ := List.mem_map.mp hci
    exact hi c hc'

theorem TriOk.verT {ixr : List (List Nat)} {rows : List Tuple} {d : Dyn} {full : Tri FIx}
    {idxs : List (List Nat × Tri PIx)} (h : TriOk ixr rows d full idxs) :
    VerOk ixr rows d.total full.total (idxs.map fun ci => (ci.1, ci.2.total)) :=
  verOk_map (·.total) h.ft h.cols h.it

theorem TriOk.verD {ixr : List (List Nat)} {rows : List Tuple} {d : Dyn} {full : Tri FIx}
    {idxs : List (List Nat × Tri PIx)} (h : TriOk ixr rows d full idxs) :
    VerOk ixr rows d.delta full.delta (idxs.map fun ci => (ci.1, ci.2.delta)) :=
  verOk_map (·.delta) h.fd h.cols h.id

/-- a dynamic relation of the abstract state against the same relation of the physical state -/
structure DynOk (ix : IxSets) (rows : RelId → List Tuple) (d : Dyn) (pd : PDyn) : Prop where
  rel : pd.rel = d.rel
  tri : TriOk (ix d.rel) (rows d.rel) d pd.full pd.idxs

theorem DynOk.congr {ix : IxSets} {rows rows' : RelId → List Tuple} {d : Dyn} {pd : PDyn} (h : DynOk ix rows d pd)
    (he : rows' d.rel = rows d.rel) : DynOk ix rows' d pd :=
  ⟨h.rel, by rw [he]; exact h.tri⟩

theorem Rel2.find {ix : IxSets} {rows : RelId → List Tuple} {l : List Dyn} {l' : List PDyn}
    (h : Rel2 (DynOk ix rows) l l') (r : RelId) :
    (findDyn l r = none ∧ findPDyn l' r = none) ∨
      ∃ d pd, findDyn l r = some d ∧ findPDyn l' r = some pd ∧ DynOk ix rows d pd := by
  induction h with
  | nil => exact .inl ⟨rfl, rfl⟩
  | @cons d pd l l' hab _ ih =>
    rw [findDyn_cons, findPDyn_cons, hab.rel]
    cases hr : d.rel == r with
    | true => exact .inr ⟨d, pd, rfl, rfl, hab⟩
    | false => exact ih

structure Sim (p : Program E B G P A) (ix : IxSets) (a : SccSt) (ph : PScc) : Prop where
  len : a.rels.length = ph.rels.length
  rows : ∀ r, (relSt a.rels r).rows = (prel ph.rels r).rows
  changed : a.changed = ph.changed
  dyn : Rel2 (DynOk ix fun r => (relSt a.rels r).rows) a.dyn ph.dyn
  nd : ∀ r, r < a.rels.length → findDyn a.dyn r = none →
    VerOk (ix r) (relSt a.rels r).rows (relSt a.rels r).idx (prel ph.rels r).full (prel ph.rels r).idxs
  typed : ∀ r, ∀ t ∈ (relSt a.rels r).rows, t.length = arityOf p r

/-- … between SCCs -/
structure SimSt (p : Program E B G P A) (ix : IxSets) (st : St) (pst : PSt) : Prop where
  len : st.length = pst.length
  rows : ∀ r, (relSt st r).rows = (prel pst r).rows
  ok : ∀ r, r < st.length → VerOk (ix r) (relSt st r).rows (relSt st r).idx (prel pst r).full (prel pst r).idxs
  typed : ∀ r, ∀ t ∈ (relSt st r).rows, t.length = arityOf p r

/-! ## the simulation relation gives the evaluation its interface -/

theorem arityOf_of_ge (p : Program E B G P A) (r : RelId) (h : p.rels.length ≤ r) : arityOf p r = 0 := by
  simp [arityOf, declOf, List.getD_eq_getElem?_getD, List.getElem?_eq_none h]

theorem sim_viewsOk (cfg : Config) (p : Program E B G P A) (hl : ∀ d ∈ p.rels, d.lat = false) (ix : IxSets)
    {dynR : List RelId} {a : SccSt} {ph : PScc} (hsim : Sim p ix a ph) (hwf : WF p.rels.length dynR a) :
    ViewsOk cfg p ix a ph := by
  intro r v cols hc hix
  have hty : ∀ i, i < (relSt a.rels r).rows.length → (rowAt (relSt a.rels r).rows i).length = arityOf p r :=
    fun i hi => hsim.typed r _ (rowAt_mem _ i hi)
  rcases hsim.dyn.find r with ⟨h1, h2⟩ | ⟨d, pd, h1, h2, hok⟩
  · have hview : viewOf ph r v = .stored (prel ph.rels r) := by simp only [viewOf, h2]
    rw [hview, clauseRows_none cfg p hl v h1]
    by_cases hr : r < a.rels.length
    · exact ViewSpec.of_stored (hsim.nd r hr h1) hc hix (fun i hi => hty i ((hwf.cover_nd r h1 i).mpr hi))
    · have hr' : a.rels.length ≤ r := Nat.le_of_not_lt hr
      have har : arityOf p r = 0 := arityOf_of_ge p r (by rw [← hwf.len]; exact hr')
      have hcols : cols = [] := by
        cases cols with
        | nil => rfl
        | cons j t => have := hc.2 j (by simp); omega
      rw [relSt_of_ge _ _ hr', prel_of_ge _ _ (by rw [← hsim.len]; exact hr')]
      exact ViewSpec.of_stored (ixr := []) ⟨FullOk_nil [], rfl, by intro ci hci; cases hci⟩ hc
        (.inl (by rw [hcols, har]; rfl)) (by intro i hi; cases hi)
  · have hrel : d.rel = r := findDyn_rel h1
    have tri : TriOk (ix r) (relSt a.rels r).rows d pd.full pd.idxs := by
      have := hok.tri; rw [hrel] at this; exact this
    have hbT : ∀ i ∈ d.total, (rowAt (relSt a.rels r).rows i).length = arityOf p r :=
      fun i hi => hty i ((hwf.cover r d h1 i).mpr (.inl hi))
    have hbD : ∀ i ∈ d.delta, (rowAt (relSt a.rels r).rows i).length = arityOf p r :=
      fun i hi => hty i ((hwf.cover r d h1 i).mpr (.inr (.inl hi)))
    rw [clauseRows_some cfg p hl v h1]
    cases v with
    | none =>
      have hview : viewOf ph r none = .one pd.full.total (pd.idxs.map fun ci => (ci.1, ci.2.total)) := by
        simp only [viewOf, h2]
      rw [hview]; exact ViewSpec.of_one tri.verT hc hix hbT
    | some v =>
      cases v with
      | total =>
        have hview : viewOf ph r (some .total) = .one pd.full.total (pd.idxs.map fun ci => (ci.1, ci.2.total)) := by
          simp only [viewOf, h2]
        rw [hview]; exact ViewSpec.of_one tri.verT hc hix hbT
      | delta =>
        have hview : viewOf ph r (some .delta) = .one pd.full.delta (pd.idxs.map fun ci => (ci.1, ci.2.delta)) := by
          simp only [viewOf, h2]
        rw [hview]; exact ViewSpec.of_one tri.verD hc hix hbD
      | totalDelta =>
        have hview : viewOf ph r (some .totalDelta) =
            .two pd.full.total (pd.idxs.map fun ci => (ci.1, ci.2.total)) pd.full.delta
              (pd.idxs.map fun ci => (ci.1, ci.2.delta)) := by
          simp only [viewOf, h2]
        rw [hview]; exact ViewSpec.of_two tri.verT tri.verD hc hix hbT hbD

/-! ## the head update -/

/-- the physical state after a row was pushed (`newFull`: the `new` full index after `insert_if_not_present`) -/
def pushP (ph : PScc) (r : RelId) (pd : PDyn) (row : Tuple) (newFull : FIx) : PScc :=
  { rels := setNth ph.rels r { prel ph.rels r with rows := (prel ph.rels r).rows ++ [row] }
    dyn := setPDyn ph.dyn { pd with
      full := { pd.full with new := newFull }
      idxs := pd.idxs.map fun ci => (ci.1, { ci.2 with new := Idx.insert ci.2.new (Plan.proj ci.1 row) (projC ci.1 row) }) }
    changed := true }

theorem push_sim {p : Program E B G P A} {ix : IxSets} {dynR : List RelId} {n : Nat} {a : SccSt} {ph : PScc}
    (hsim : Sim p ix a ph) (hwf : WF n dynR a) {r : RelId} {d : Dyn} {pd : PDyn} (hd : findDyn a.dyn r = some d)
    (hok : DynOk ix (fun r => (relSt a.rels r).rows) d pd) (hr : r < a.rels.length) (row : Tuple)
    (hlen : row.length = arityOf p r) (newFull : FIx)
    (hnew : FullOk ((relSt a.rels r).rows ++ [row]) (d.new ++ [(relSt a.rels r).rows.length]) newFull) :
    Sim p ix (pushRow a r d row) (pushP ph r pd row newFull) := by
  have hrel : d.rel = r := findDyn_rel hd
  have hprel : pd.rel = r := by rw [hok.rel, hrel]
  have hrp : r < ph.rels.length := by rw [← hsim.len]; exact hr
  have tri : TriOk (ix r) (relSt a.rels r).rows d pd.full pd.idxs := by
    have := hok.tri; rw [hrel] at this; exact this
  have hbT : ∀ i ∈ d.total, i < (relSt a.rels r).rows.length := fun i hi => (hwf.cover r d hd i).mpr (.inl hi)
  have hbD : ∀ i ∈ d.delta, i < (relSt a.rels r).rows.length := fun i hi => (hwf.cover r d hd i).mpr (.inr (.inl hi))
  have hbN : ∀ i ∈ d.new, i < (relSt a.rels r).rows.length := fun i hi => (hwf.cover r d hd i).mpr (.inr (.inr hi))
  have hrows_self : (relSt (pushRow a r d row).rels r).rows = (relSt a.rels r).rows ++ [row] := by
    simp [pushRow, relSt_setNth_self _ _ _ hr]
  have hrows_ne : ∀ r', r' ≠ r → relSt (pushRow a r d row).rels r' = relSt a.rels r' := by
    intro r' hne; simp [pushRow, relSt_setNth_ne _ _ _ _ hne]
  have hprows_ne : ∀ r', r' ≠ r → prel (pushP ph r pd row newFull).rels r' = prel ph.rels r' := by
    intro r' hne; simp [pushP, prel_setNth_ne _ _ _ _ hne]
  refine ⟨?_, ?_, rfl, ?_, ?_, ?_⟩
  · simp [pushRow, pushP, hsim.len]
  · intro r'
    by_cases hne : r' = r
    · subst hne
      rw [hrows_self, hsim.rows]
      simp [pushP, prel_setNth_self _ _ _ hrp]
    · rw [hrows_ne r' hne, hprows_ne r' hne]; exact hsim.rows r'
  · show Rel2 _ (setDyn a.dyn _) (setPDyn ph.dyn _)
    rw [setDyn_eq_map]
    unfold setPDyn
    refine Rel2.map _ _ ?_ hsim.dyn
    intro x px hx
    have hxr : px.rel = x.rel := hx.rel
    by_cases hc : x.rel = r
    · have h1 : (x.rel == ({ d with new := d.new ++ [(relSt a.rels r).rows.length] } : Dyn).rel) = true := by
        simp [hc, hrel]
      have h2 : (px.rel == pd.rel) = true := by simp [hxr, hc, hprel]
      simp only [h1, h2, if_true]
      refine ⟨hok.rel, ?_⟩
      show TriOk (ix d.rel) (relSt (pushRow a r d row).rels d.rel).rows _ _ _
      rw [hrel, hrows_self]
      refine ⟨FullOk_rows_append row tri.ft hbT, FullOk_rows_append row tri.fd hbD, hnew, ?_, ?_, ?_, ?_⟩
      · rw [List.map_map, ← tri.cols]; rfl
      · intro ci hci
        obtain ⟨c, hc', rfl⟩ := List.mem_map.mp hci
        exact IxOk_rows_append row (tri.it c hc') hbT
      · intro ci hci
        obtain ⟨c, hc', rfl⟩ := List.mem_map.mp hci
        exact IxOk_rows_append row (tri.id c hc') hbD
      · intro ci hci
        obtain ⟨c, hc', rfl⟩ := List.mem_map.mp hci
        exact IxOk_insert row (tri.inw c hc') hbN
    · have h1 : (x.rel == ({ d with new := d.new ++ [(relSt a.rels r).rows.length] } : Dyn).rel) = false := by
        simp [hc, hrel]
      have h2 : (px.rel == pd.rel) = false := by simp [hxr, hc, hprel]
      simp only [h1, h2, Bool.false_eq_true, if_false]
      exact hx.congr (by show (relSt (pushRow a r d row).rels x.rel).rows = _; rw [hrows_ne _ hc])
  · intro r' hr' hnd
    have hnd0 : findDyn a.dyn r' = none := by
      have : findDyn (pushRow a r d row).dyn r' = none := hnd
      simp only [pushRow, findDyn_setDyn, Option.map_eq_none_iff] at this
      exact this
    have hne : r' ≠ r := by intro h; rw [h, hd] at hnd0; cases hnd0
    rw [hrows_ne r' hne, hprows_ne r' hne]
    exact hsim.nd r' (by simpa [pushRow] using hr') hnd0
  · intro r' t ht
    by_cases hne : r' = r
    · subst hne
      rw [hrows_self] at ht
      rcases List.mem_append.mp ht with ht | ht
      · exact hsim.typed r' t ht
      · simp only [List.mem_singleton] at ht; rw [ht]; exact hlen
    · rw [hrows_ne r' hne] at ht; exact hsim.typed r' t ht

theorem contains_eq_of_fullOk {rows : List Tuple} {bag : List Nat} {m : FIx} (h : FullOk rows bag m) (row : Tuple) :
    FullIdx.containsKey m row = (bagTuples rows bag).contains row := by
  rw [Bool.eq_iff_iff, h.2, List.contains_iff_mem]

theorem physHeadRel_eq (s : PScc) (r : RelId) (row : Tuple) :
    Phys.headRel s r row =
      match findPDyn s.dyn r with
      | none => s
      | some d =>
        if FullIdx.containsKey d.full.total row || FullIdx.containsKey d.full.delta row then s
        else if !(FullIdx.insertIfNotPresent d.full.new row ()).2 then s
        else pushP s r d row (FullIdx.insertIfNotPresent d.full.new row ()).1 := by
  unfold Phys.headRel
  cases findPDyn s.dyn r <;> rfl

theorem headRel_sim {p : Program E B G P A} {ix : IxSets} {dynR : List RelId} {n : Nat} {a : SccSt} {ph : PScc}
    (hsim : Sim p ix a ph) (hwf : WF n dynR a) (hlt : ∀ r, dynR.contains r = true → r < n) (r : RelId) (row : Tuple)
    (hlen : row.length = arityOf p r) : Sim p ix (Engine.headRel a r row) (Phys.headRel ph r row) := by
  rw [headRel_eq, physHeadRel_eq]
  rcases hsim.dyn.find r with ⟨h1, h2⟩ | ⟨d, pd, h1, h2, hok⟩
  · rw [h1, h2]; exact hsim
  · rw [h1, h2]
    have hrel : d.rel = r := findDyn_rel h1
    have hr : r < a.rels.length := by
      rw [hwf.len]; apply hlt
      rw [← hwf.dyn_iff, h1]; rfl
    have tri : TriOk (ix r) (relSt a.rels r).rows d pd.full pd.idxs := by
      have := hok.tri; rw [hrel] at this; exact this
    have hbN : ∀ i ∈ d.new, i < (relSt a.rels r).rows.length := fun i hi => (hwf.cover r d h1 i).mpr (.inr (.inr hi))
    have eT := contains_eq_of_fullOk tri.ft row
    have eD := contains_eq_of_fullOk tri.fd row
    have eN := contains_eq_of_fullOk tri.fn row
    show Sim p ix (if ((bagTuples (relSt a.rels r).rows d.total).contains row || (bagTuples (relSt a.rels r).rows d.delta).contains row
        || (bagTuples (relSt a.rels r).rows d.new).contains row) = true then a else pushRow a r d row)
      (if (FullIdx.containsKey pd.full.total row || FullIdx.containsKey pd.full.delta row) = true then ph
        else if (!(FullIdx.insertIfNotPresent pd.full.new row ()).2) = true then ph
        else pushP ph r pd row (FullIdx.insertIfNotPresent pd.full.new row ()).1)
    rw [← eT, ← eD, ← eN]
    by_cases h12 : (FullIdx.containsKey pd.full.total row || FullIdx.containsKey pd.full.delta row) = true
    · rw [if_pos h12, if_pos (by rw [h12]; rfl)]; exact hsim
    · rw [if_neg h12]
      have h12' : (FullIdx.containsKey pd.full.total row || FullIdx.containsKey pd.full.delta row) = false := by
        simpa using h12
      by_cases hN : FullIdx.containsKey pd.full.new row = true
      · rw [if_pos (by rw [hN]; simp), insertIfNotPresent_present hN]
        exact hsim
      · have hN' : FullIdx.containsKey pd.full.new row = false := by simpa using hN
        obtain ⟨hi2, hfull⟩ := FullOk_insertIfNotPresent row tri.fn hbN hN'
        rw [if_neg (by rw [h12', hN']; simp), hi2]
        exact push_sim hsim hwf h1 hok hr row hlen _ hfull

/-! ## the merge -/

theorem shift_sim {p : Program E B G P A} {ix : IxSets} {a : SccSt} {ph : PScc} (hsim : Sim p ix a ph) :
    Sim p ix (Engine.shift a) (Phys.shift ph) := by
  refine ⟨hsim.len, hsim.rows, hsim.changed, ?_, ?_, hsim.typed⟩
  · show Rel2 _ (a.dyn.map _) (ph.dyn.map _)
    refine Rel2.map _ _ ?_ hsim.dyn
    intro d pd hd
    refine ⟨hd.rel, ?_⟩
    have tri := hd.tri
    obtain ⟨f1, f2, f3⟩ := FullOk_shift tri.ft tri.fd tri.fn
    refine ⟨f1, f2, ?_, ?_, ?_, ?_, ?_⟩
    · show FullOk _ [] (shiftFull pd.full).new
      rw [f3]; exact FullOk_nil _
    · show (pd.idxs.map fun ci => (ci.1, shiftIx ci.2)).map (·.1) = _
      rw [List.map_map, ← tri.cols]; rfl
    · intro ci hci
      obtain ⟨c, hc, rfl⟩ := List.mem_map.mp hci
      exact (IxOk_shift (tri.it c hc) (tri.id c hc) (tri.inw c hc)).1
    · intro ci hci
      obtain ⟨c, hc, rfl⟩ := List.mem_map.mp hci
      exact (IxOk_shift (tri.it c hc) (tri.id c hc) (tri.inw c hc)).2.1
    · intro ci hci
      obtain ⟨c, hc, rfl⟩ := List.mem_map.mp hci
      show IxOk _ [] _ (shiftIx c.2).new
      rw [(IxOk_shift (tri.it c hc) (tri.id c hc) (tri.inw c hc)).2.2]
      exact IxOk_nil _ _
  · intro r hr hnd
    have hnd0 : findDyn a.dyn r = none := by
      rw [findDyn_shift, Option.map_eq_none_iff] at hnd; exact hnd
    exact hsim.nd r hr hnd0

theorem reset_sim {p : Program E B G P A} {ix : IxSets} {a : SccSt} {ph : PScc} (hsim : Sim p ix a ph) :
    Sim p ix { a with changed := false } { ph with changed := false } :=
  ⟨hsim.len, hsim.rows, rfl, hsim.dyn, hsim.nd, hsim.typed⟩

/-! ## SCC entry -/

theorem enter_sim {p : Program E B G P A} {ix : IxSets} {st : St} {pst : PSt} (hs : SimSt p ix st pst)
    (dyn : List RelId) (hlt : ∀ r ∈ dyn, r < st.length) :
    Sim p ix (Engine.enterScc st dyn) (Phys.enterScc pst dyn) := by
  have hrels : (Engine.enterScc st dyn).rels = st := enterScc_rels st dyn
  have hprel : ∀ r, (prel (Phys.enterScc pst dyn).rels r).rows = (prel pst r).rows := by
    intro r
    by_cases hr : r < pst.length
    · simp only [Phys.enterScc, prel_rangeMap _ _ _ hr]
      split <;> rfl
    · have hr' : pst.length ≤ r := Nat.le_of_not_lt hr
      simp only [Phys.enterScc, prel_rangeMap_ge _ _ _ hr', prel_of_ge _ _ hr']
  refine ⟨?_, ?_, rfl, ?_, ?_, ?_⟩
  · rw [hrels, hs.len]; simp [Phys.enterScc]
  · intro r; rw [hrels, hprel]; exact hs.rows r
  · rw [hrels]
    show Rel2 _ (dyn.map _) (dyn.map _)
    apply Rel2.of_map
    intro r hr
    obtain ⟨hf, hc, hi⟩ := hs.ok r (hlt r hr)
    refine ⟨rfl, FullOk_nil _, hf, FullOk_nil _, ?_, ?_, ?_, ?_⟩
    · show ((prel pst r).idxs.map _).map _ = _
      rw [List.map_map, ← hc]; rfl
    · intro ci hci
      obtain ⟨c, _, rfl⟩ := List.mem_map.mp hci
      exact IxOk_nil _ _
    · intro ci hci
      obtain ⟨c, hc', rfl⟩ := List.mem_map.mp hci
      exact hi c hc'
    · intro ci hci
      obtain ⟨c, _, rfl⟩ := List.mem_map.mp hci
      exact IxOk_nil _ _
  · intro r hr hnd
    rw [hrels] at hr ⊢
    rw [findDyn_enter] at hnd
    have hc : dyn.contains r = false := by
      cases h : dyn.contains r with
      | false => rfl
      | true => rw [h] at hnd; simp at hnd
    have hrp : r < pst.length := by rw [← hs.len]; exact hr
    have : prel (Phys.enterScc pst dyn).rels r = prel pst r := by
      simp only [Phys.enterScc, prel_rangeMap _ _ _ hrp, hc, Bool.false_eq_true, if_false]
    rw [this]; exact hs.ok r hr
  · intro r t ht
    rw [hrels] at ht; exact hs.typed r t ht

/-! ## SCC exit -/

def leaveStepP (st : PSt) (d : PDyn) : PSt :=
  setNth st d.rel { prel st d.rel with full := d.full.total, idxs := d.idxs.map fun ci => (ci.1, ci.2.total) }

theorem physLeaveScc_eq (s : PScc) : Phys.leaveScc s = s.dyn.foldl leaveStepP s.rels := rfl

theorem leave_fold {ix : IxSets} {rowsf : RelId → List Tuple} {L : List Dyn} {L' : List PDyn}
    (hL : Rel2 (DynOk ix rowsf) L L') :
    ∀ (st : St) (pst : PSt), st.length = pst.length → (∀ r, (relSt st r).rows = rowsf r) →
      (∀ r, (prel pst r).rows = rowsf r) → (∀ d ∈ L, d.rel < st.length) →
      (∀ r, r < st.length → r ∈ L.map (·.rel) ∨
        VerOk (ix r) (rowsf r) (relSt st r).idx (prel pst r).full (prel pst r).idxs) →
      (L.foldl leaveStep st).length = (L'.foldl leaveStepP pst).length ∧
      (L.foldl leaveStep st).length = st.length ∧
      (∀ r, (relSt (L.foldl leaveStep st) r).rows = rowsf r) ∧
      (∀ r, (prel (L'.foldl leaveStepP pst) r).rows = rowsf r) ∧
      ∀ r, r < st.length → VerOk (ix r) (rowsf r) (relSt (L.foldl leaveStep st) r).idx
        (prel (L'.foldl leaveStepP pst) r).full (prel (L'.foldl leaveStepP pst) r).idxs := by
  induction hL with
  | nil =>
    intro st pst hlen hr hpr _ hinv
    refine ⟨hlen, rfl, hr, hpr, ?_⟩
    intro r hrl
    rcases hinv r hrl with h | h
    · simp at h
    · exact h
  | @cons d pd L L' hd _ ih =>
    intro st pst hlen hr hpr hlt hinv
    have hdl : d.rel < st.length := hlt d (by simp)
    have hdlp : pd.rel < pst.length := by rw [hd.rel, ← hlen]; exact hdl
    simp only [List.foldl_cons]
    have hlen1 : (leaveStep st d).length = st.length := by simp [leaveStep]
    obtain ⟨g1, g2, g3, g4, g5⟩ := ih (leaveStep st d) (leaveStepP pst pd) (by simp [leaveStep, leaveStepP, hlen])
      (fun r => by rw [leaveStep_rows st d r hdl]; exact hr r)
      (fun r => by
        by_cases h : r = pd.rel
        · subst h; simp only [leaveStepP, prel_setNth_self _ _ _ hdlp]; exact hpr _
        · simp only [leaveStepP, prel_setNth_ne _ _ _ _ h]; exact hpr r)
      (fun d' hd' => by rw [hlen1]; exact hlt d' (List.mem_cons_of_mem _ hd'))
      (by
        intro r hrl
        rw [hlen1] at hrl
        by_cases h : r = d.rel
        · right
          subst h
          have h1 : relSt (leaveStep st d) d.rel = { relSt st d.rel with idx := d.total } := by
            simp only [leaveStep, relSt_setNth_self _ _ _ hdl]
          have h2 : prel (leaveStepP pst pd) d.rel =
              { prel pst pd.rel with full := pd.full.total, idxs := pd.idxs.map fun ci => (ci.1, ci.2.total) } := by
            rw [← hd.rel]; simp only [leaveStepP, prel_setNth_self _ _ _ hdlp]
          rw [h1, h2]
          exact hd.tri.verT
        · rcases hinv r hrl with h' | h'
          · left
            simp only [List.map_cons, List.mem_cons] at h'
            rcases h' with h' | h'
            · exact absurd h' h
            · exact h'
          · right
            have h1 : relSt (leaveStep st d) r = relSt st r := by simp only [leaveStep, relSt_setNth_ne _ _ _ _ h]
            have hp : r ≠ pd.rel := by rw [hd.rel]; exact h
            have h2 : prel (leaveStepP pst pd) r = prel pst r := by
              simp only [leaveStepP, prel_setNth_ne _ _ _ _ hp]
            rw [h1, h2]; exact h')
    refine ⟨g1, by rw [g2, hlen1], g3, g4, ?_⟩
    intro r hrl
    exact g5 r (by rw [hlen1]; exact hrl)

theorem leave_sim {p : Program E B G P A} {ix : IxSets} {a : SccSt} {ph : PScc} (hsim : Sim p ix a ph)
    (hdlt : ∀ d ∈ a.dyn, d.rel < a.rels.length) : SimSt p ix (Engine.leaveScc a) (Phys.leaveScc ph) := by
  rw [leaveScc_eq, physLeaveScc_eq]
  obtain ⟨g1, g2, g3, g4, g5⟩ := leave_fold hsim.dyn a.rels ph.rels hsim.len (fun _ => rfl)
    (fun r => (hsim.rows r).symm) hdlt (by
      intro r hr
      cases hd : findDyn a.dyn r with
      | none => exact .inr (hsim.nd r hr hd)
      | some d => exact .inl (List.mem_map.mpr ⟨d, findDyn_mem hd, findDyn_rel hd⟩))
  refine ⟨g1, ?_, ?_, ?_⟩
  · intro r; rw [g3, g4]
  · intro r hr
    rw [g3]
    exact g5 r (by rw [← g2]; exact hr)
  · intro r t ht
    rw [g3] at ht; exact hsim.typed r t ht

/-! ## `update_indices` -/

/-- the abstract program value a physical one stands for (the stored abstract index contents are irrelevant:
`update_indices` rebuilds them) -/
def absSt (s : PSt) : St := s.map fun pr => ⟨pr.rows, []⟩

theorem relSt_absSt (s : PSt) (r : RelId) : (relSt (absSt s) r).rows = (prel s r).rows := by
  by_cases hr : r < s.length
  · simp [relSt, prel, absSt, List.getD_eq_getElem?_getD, List.getElem?_map, List.getElem?_eq_getElem hr]
  · have hr' : s.length ≤ r := Nat.le_of_not_lt hr
    rw [relSt_of_ge _ _ (by simpa [absSt] using hr'), prel_of_ge _ _ hr']

theorem updateIndices_sim (p : Program E B G P A) (ix : IxSets) (s : PSt) (hs : WFPSt p s) :
    SimSt p ix (Engine.updateIndices (absSt s)) (Phys.updateIndices ix s) := by
  have hprel : ∀ r, r < s.length → prel (Phys.updateIndices ix s) r =
      { rows := (prel s r).rows, full := buildFull (prel s r).rows,
        idxs := (ix r).map fun c => (c, buildIx c (prel s r).rows) } := by
    intro r hr
    simp only [Phys.updateIndices, prel_rangeMap _ _ _ hr]
  refine ⟨by simp [Engine.updateIndices, Phys.updateIndices, absSt], ?_, ?_, ?_⟩
  · intro r
    rw [relSt_updateIndices, relSt_absSt]
    by_cases hr : r < s.length
    · rw [hprel r hr]
    · have hr' : s.length ≤ r := Nat.le_of_not_lt hr
      simp only [Phys.updateIndices, prel_rangeMap_ge _ _ _ hr', prel_of_ge _ _ hr']
  · intro r hr
    have hr' : r < s.length := by simpa [Engine.updateIndices, absSt] using hr
    rw [relSt_updateIndices, relSt_absSt, hprel r hr']
    refine ⟨FullOk_build _, ?_, ?_⟩
    · simp only [List.map_map]
      show (ix r).map (fun c => c) = ix r
      simp
    · intro ci hci
      obtain ⟨c, _, rfl⟩ := List.mem_map.mp hci
      exact IxOk_build _ _
  · intro r t ht
    rw [relSt_updateIndices, relSt_absSt] at ht
    exact hs.2 r t ht

end AscentVerif.Phys
