import AscentVerif.Proofs.Head
import AscentVerif.Spec.LatticeLfp
/-!
# Elementary facts for the lattice proof (C03): key/value of a row, `setNth` on row vectors,
`findKey`, the order `Dominated`/`DBLe` on databases
-/
namespace AscentVerif.Engine
open AscentVerif

variable {E B G P A : Type}

/-! ## key and value of a row -/

theorem keyOf_snoc (k : Tuple) (x : Val) : keyOf (k ++ [x]) = k := by simp [keyOf]
theorem valOf_snoc (k : Tuple) (x : Val) : valOf (k ++ [x]) = x := by simp [valOf]

/-! ## `rowAt` and `setNth` -/

theorem rowAt_setNth_self (rows : List Tuple) (i : Nat) (x : Tuple) (h : i < rows.length) :
    rowAt (setNth rows i x) i = x := by
  simp [rowAt, setNth_eq_set, List.getD_eq_getElem?_getD, h]

theorem rowAt_setNth_ne (rows : List Tuple) (i j : Nat) (x : Tuple) (h : j ≠ i) :
    rowAt (setNth rows i x) j = rowAt rows j := by
  simp [rowAt, setNth_eq_set, List.getD_eq_getElem?_getD, List.getElem?_set_ne (Ne.symm h)]

theorem rowAt_eq_getElem (rows : List Tuple) (i : Nat) (h : i < rows.length) : rowAt rows i = rows[i] := by
  simp [rowAt, List.getD_eq_getElem?_getD, List.getElem?_eq_getElem h]

theorem mem_setNth {α : Type} (l : List α) (i : Nat) (x t : α) (h : t ∈ setNth l i x) : t = x ∨ t ∈ l := by
  rw [setNth_eq_set] at h
  rcases List.mem_or_eq_of_mem_set h with h | h
  · exact .inr h
  · exact .inl h

theorem map_keyOf_setNth (rows : List Tuple) (i : Nat) (x : Tuple) (hx : keyOf x = keyOf (rowAt rows i)) :
    (setNth rows i x).map keyOf = rows.map keyOf := by
  by_cases hi : i < rows.length
  · apply List.ext_getElem
    · simp
    · intro j h1 h2
      simp only [List.getElem_map, setNth_eq_set, List.getElem_set]
      split
      · rename_i hij
        subst hij
        rw [hx, rowAt_eq_getElem rows i hi]
      · rfl
  · rw [setNth_eq_set, List.set_eq_of_length_le (Nat.le_of_not_lt hi)]

/-- with pairwise distinct keys, a key determines its row number -/
theorem idx_of_key {rows : List Tuple} (hk : (rows.map keyOf).Nodup) {i j : Nat} (hi : i < rows.length)
    (hj : j < rows.length) (h : keyOf (rowAt rows i) = keyOf (rowAt rows j)) : i = j := by
  rw [rowAt_eq_getElem rows i hi, rowAt_eq_getElem rows j hj] at h
  have hi' : i < (rows.map keyOf).length := by simpa using hi
  have hj' : j < (rows.map keyOf).length := by simpa using hj
  have h' : (rows.map keyOf)[i] = (rows.map keyOf)[j] := by simpa using h
  exact (List.getElem_inj hk).mp h'

theorem row_of_key {rows : List Tuple} (hk : (rows.map keyOf).Nodup) {t t' : Tuple} (ht : t ∈ rows) (ht' : t' ∈ rows)
    (h : keyOf t = keyOf t') : t = t' := by
  obtain ⟨i, hi, rfl⟩ := (mem_iff_rowAt _ _).mp ht
  obtain ⟨j, hj, rfl⟩ := (mem_iff_rowAt _ _).mp ht'
  rw [idx_of_key hk hi hj h]

/-! ## `findKey` -/

theorem findKey_some {rows : List Tuple} {bag : List Nat} {key : Tuple} {i : Nat}
    (h : findKey rows bag key = some i) : i ∈ bag ∧ keyOf (rowAt rows i) = key := by
  unfold findKey at h
  have h1 := List.mem_of_find?_eq_some h
  have h2 := List.find?_some h
  exact ⟨List.mem_reverse.mp h1, by simpa [keyOf] using h2⟩

theorem findKey_none {rows : List Tuple} {bag : List Nat} {key : Tuple}
    (h : findKey rows bag key = none) : ∀ i ∈ bag, keyOf (rowAt rows i) ≠ key := by
  unfold findKey at h
  intro i hi
  have := List.find?_eq_none.mp h i (List.mem_reverse.mpr hi)
  simpa [keyOf] using this

/-! ## the order on databases -/

section Order
variable (I : Interp E B G P A) (L : LatOrder I) (p : Program E B G P A)

theorem isLat_eq (r : RelId) : isLat p r = (declOf p r).lat := rfl

theorem lat_lt {r : RelId} (h : (declOf p r).lat = true) : r < p.rels.length := by
  apply Classical.byContradiction
  intro hn
  simp [declOf, List.getD_eq_getElem?_getD, List.getElem?_eq_none (Nat.le_of_not_lt hn)] at h

theorem dominated_lat {M : DB} {f : Fact} (h : (declOf p f.rel).lat = true) :
    Dominated I L p M f ↔ ∃ t, M ⟨f.rel, t⟩ ∧ keyOf t = keyOf f.args ∧ L.le f.rel (valOf f.args) (valOf t) := by
  unfold Dominated
  rw [isLat_eq, h]; simp

theorem dominated_rel {M : DB} {f : Fact} (h : (declOf p f.rel).lat = false) :
    Dominated I L p M f ↔ M f := by
  unfold Dominated
  rw [isLat_eq, h]; simp

theorem Dominated.of_mem {M : DB} {f : Fact} (h : M f) : Dominated I L p M f := by
  cases hl : (declOf p f.rel).lat with
  | false => exact (dominated_rel I L p hl).mpr h
  | true => exact (dominated_lat I L p hl).mpr ⟨f.args, h, rfl, L.refl _ _⟩

variable {I L p}

theorem Dominated.mono {M M' : DB} {f : Fact} (h : Dominated I L p M f) (hle : DBLe I L p M M') :
    Dominated I L p M' f := by
  cases hl : (declOf p f.rel).lat with
  | false =>
    exact hle f ((dominated_rel I L p hl).mp h)
  | true =>
    obtain ⟨t, ht, hk, hv⟩ := (dominated_lat I L p hl).mp h
    have := hle ⟨f.rel, t⟩ ht
    obtain ⟨t', ht', hk', hv'⟩ := (dominated_lat I L p (f := ⟨f.rel, t⟩) hl).mp this
    exact (dominated_lat I L p hl).mpr ⟨t', ht', hk'.trans hk, L.trans _ _ _ _ hv hv'⟩

/-- only the facts of the relation itself matter -/
theorem Dominated.congr {M M' : DB} {f : Fact} (h : Dominated I L p M f) (hsub : ∀ t, M ⟨f.rel, t⟩ → M' ⟨f.rel, t⟩) :
    Dominated I L p M' f := by
  cases hl : (declOf p f.rel).lat with
  | false =>
    have := (dominated_rel I L p hl).mp h
    exact (dominated_rel I L p hl).mpr (by cases f; exact hsub _ this)
  | true =>
    obtain ⟨t, ht, hk, hv⟩ := (dominated_lat I L p hl).mp h
    exact (dominated_lat I L p hl).mpr ⟨t, hsub t ht, hk, hv⟩

theorem DBLe.refl (M : DB) : DBLe I L p M M := fun _ hf => Dominated.of_mem I L p hf

theorem DBLe.trans {M₁ M₂ M₃ : DB} (h₁ : DBLe I L p M₁ M₂) (h₂ : DBLe I L p M₂ M₃) : DBLe I L p M₁ M₃ :=
  fun f hf => Dominated.mono (h₁ f hf) h₂

/-- a fact dominated by a single fact that `M` dominates is dominated by `M` -/
theorem Dominated.single {M : DB} {f f' : Fact} (h : Dominated I L p (fun g => g = f') f) (h' : Dominated I L p M f') :
    Dominated I L p M f := by
  cases hl : (declOf p f.rel).lat with
  | false =>
    have : f = f' := (dominated_rel I L p hl).mp h
    subst this; exact h'
  | true =>
    obtain ⟨t, ht, hk, hv⟩ := (dominated_lat I L p hl).mp h
    have hf' : f' = ⟨f.rel, t⟩ := ht.symm
    subst hf'
    obtain ⟨t', ht', hk', hv'⟩ := (dominated_lat I L p (f := ⟨f.rel, t⟩) hl).mp h'
    exact (dominated_lat I L p hl).mpr ⟨t', ht', hk'.trans hk, L.trans _ _ _ _ hv hv'⟩

end Order

end AscentVerif.Engine
