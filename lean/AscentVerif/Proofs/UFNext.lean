import AscentVerif.Proofs.UFForest
/-!
# The `next` pointers: one circular list per class

`NextCycles es`: `next` stays in range and inside the class, every node reaches the root of its
class by following `next`, and the root reaches every node of its class — so any two nodes of a
class reach each other (`NextCycles.reach`): the class is a single cycle.  Preserved by `push`
(fresh self-loop), by `find` (does not touch `next`) and by `union` (swaps the `next` pointers
of the two roots, splicing the two cycles into one).
-/
namespace AscentVerif.UF

/-- `k` steps along the `next` pointers -/
def iterNext (es : Elems) : Nat → Nat → Nat
  | 0, i => i
  | k + 1, i => nextOf es (iterNext es k i)

theorem iterNext_succ' (es : Elems) (k i : Nat) : iterNext es (k + 1) i = iterNext es k (nextOf es i) := by
  induction k with
  | zero => rfl
  | succ k ih => simp only [iterNext] at ih ⊢; rw [ih]

theorem iterNext_add (es : Elems) (a b i : Nat) : iterNext es (a + b) i = iterNext es a (iterNext es b i) := by
  induction a with
  | zero => simp [iterNext]
  | succ a ih =>
    have : a + 1 + b = (a + b) + 1 := by omega
    rw [this]; simp only [iterNext]; rw [ih]

structure NextCycles (es : Elems) : Prop where
  next_lt : ∀ i, i < es.length → nextOf es i < es.length
  next_same : ∀ i, i < es.length → Same es i (nextOf es i)
  to_root : ∀ i r, RootOf es i r → ∃ k, iterNext es k i = r
  from_root : ∀ i r, RootOf es i r → ∃ k, iterNext es k r = i

/-- any two nodes of one class reach each other along `next`: the class is one cycle -/
theorem NextCycles.reach {es : Elems} (N : NextCycles es) {i j : Nat} (h : Same es i j) : ∃ k, iterNext es k i = j := by
  obtain ⟨r, hi, hj⟩ := h
  obtain ⟨k1, h1⟩ := N.to_root i r hi
  obtain ⟨k2, h2⟩ := N.from_root j r hj
  exact ⟨k2 + k1, by rw [iterNext_add, h1, h2]⟩

theorem nextCycles_nil : NextCycles [] := by
  refine ⟨?_, ?_, ?_, ?_⟩
  · intro i h; simp at h
  · intro i h; simp at h
  · intro i r h; have := h.lt; simp at this
  · intro i r h; have := h.lt; simp at this

/-- the class of a node is closed under `next` -/
theorem NextCycles.root_next {es : Elems} (N : NextCycles es) {i r : Nat} (h : RootOf es i r) :
    RootOf es (nextOf es i) r := by
  obtain ⟨q, h1, h2⟩ := N.next_same i h.lt
  rw [h.unique h1]; exact h2

theorem NextCycles.root_iter {es : Elems} (N : NextCycles es) {i r : Nat} (h : RootOf es i r) (k : Nat) :
    RootOf es (iterNext es k i) r := by
  induction k with
  | zero => exact h
  | succ k ih => exact N.root_next ih

/-! ## `find` -/

theorem iterNext_congr {es es' : Elems} (h : ∀ j, nextOf es' j = nextOf es j) (k i : Nat) :
    iterNext es' k i = iterNext es k i := by
  induction k with
  | zero => rfl
  | succ k ih => simp only [iterNext]; rw [ih, h]

theorem nextCycles_of_findPost {es es' : Elems} {id r : Nat} (P : FindPost es es' id r) (N : NextCycles es) :
    NextCycles es' := by
  have hs : ∀ i j, Same es' i j ↔ Same es i j := by
    intro i j
    constructor
    · rintro ⟨q, h1, h2⟩; exact ⟨q, (P.roots _ _).mp h1, (P.roots _ _).mp h2⟩
    · rintro ⟨q, h1, h2⟩; exact ⟨q, (P.roots _ _).mpr h1, (P.roots _ _).mpr h2⟩
  refine ⟨?_, ?_, ?_, ?_⟩
  · intro i hi; rw [P.length_eq] at hi ⊢; rw [P.next_eq]; exact N.next_lt i hi
  · intro i hi; rw [P.length_eq] at hi; rw [P.next_eq, hs]; exact N.next_same i hi
  · intro i q h
    obtain ⟨k, hk⟩ := N.to_root i q ((P.roots _ _).mp h)
    exact ⟨k, by rw [iterNext_congr P.next_eq]; exact hk⟩
  · intro i q h
    obtain ⟨k, hk⟩ := N.from_root i q ((P.roots _ _).mp h)
    exact ⟨k, by rw [iterNext_congr P.next_eq]; exact hk⟩

/-! ## `union`: splicing two cycles -/

section Splice
variable {es es' : Elems} {x y : Nat}

/-- the effect of the splice on `next`, seen from the ordered pair `(x, y)` of the two roots -/
structure Spliced (es es' : Elems) (x y : Nat) : Prop where
  ne : x ≠ y
  root_x : RootOf es x x
  root_y : RootOf es y y
  next_x : nextOf es' x = nextOf es y
  next_y : nextOf es' y = nextOf es x
  next_other : ∀ j, j ≠ x → j ≠ y → nextOf es' j = nextOf es j

theorem Spliced.symm (S : Spliced es es' x y) : Spliced es es' y x :=
  ⟨S.ne.symm, S.root_y, S.root_x, S.next_y, S.next_x, fun j h1 h2 => S.next_other j h2 h1⟩

/-- a node of the class of `x` other than `x` is neither of the two roots -/
theorem Spliced.other_of_class (S : Spliced es es' x y) {i : Nat} (hi : RootOf es i x) (hne : i ≠ x) : i ≠ x ∧ i ≠ y := by
  refine ⟨hne, ?_⟩
  intro h; subst h
  exact S.ne (hi.unique S.root_y)

/-- (T) every node of the class of `x` still reaches `x` -/
theorem Spliced.to_x (S : Spliced es es' x y) (N : NextCycles es) {i : Nat} (hi : RootOf es i x) :
    ∃ k, iterNext es' k i = x := by
  obtain ⟨k, hk⟩ := N.to_root i x hi
  induction k generalizing i with
  | zero => exact ⟨0, hk⟩
  | succ k ih =>
    by_cases hix : i = x
    · exact ⟨0, hix⟩
    · obtain ⟨h1, h2⟩ := S.other_of_class hi hix
      rw [iterNext_succ'] at hk
      obtain ⟨k', hk'⟩ := ih (N.root_next hi) hk
      exact ⟨k' + 1, by rw [iterNext_succ', S.next_other i h1 h2]; exact hk'⟩

/-- (C) everything the old `next x` reached inside the class of `x` is still reached from it -/
theorem Spliced.from_next_x (S : Spliced es es' x y) (N : NextCycles es) (k : Nat) :
    ∃ k', iterNext es' k' (nextOf es x) = iterNext es k (nextOf es x) := by
  induction k with
  | zero => exact ⟨0, rfl⟩
  | succ k ih =>
    obtain ⟨k', hk'⟩ := ih
    have hm : RootOf es (iterNext es k (nextOf es x)) x := N.root_iter (N.root_next S.root_x) k
    by_cases hmx : iterNext es k (nextOf es x) = x
    · exact ⟨0, by simp only [iterNext]; rw [hmx]⟩
    · obtain ⟨h1, h2⟩ := S.other_of_class hm hmx
      exact ⟨k' + 1, by simp only [iterNext]; rw [hk', S.next_other _ h1 h2]⟩

/-- `y` reaches every node of the old class of `x` (through its new successor `next x`) -/
theorem Spliced.y_to_class_x (S : Spliced es es' x y) (N : NextCycles es) {i : Nat} (hi : RootOf es i x) :
    ∃ k, iterNext es' k y = i := by
  obtain ⟨k, hk⟩ := N.from_root i x hi
  cases k with
  | zero =>
    -- i = x: y → next x → … → x
    simp only [iterNext] at hk; subst hk
    obtain ⟨k1, h1⟩ := S.to_x N (N.root_next S.root_x)
    exact ⟨k1 + 1, by rw [iterNext_succ', S.next_y]; exact h1⟩
  | succ k =>
    rw [iterNext_succ'] at hk
    obtain ⟨k', hk'⟩ := S.from_next_x N k
    exact ⟨k' + 1, by rw [iterNext_succ', S.next_y, hk', hk]⟩

/-- `x` reaches `y` -/
theorem Spliced.x_to_y (S : Spliced es es' x y) (N : NextCycles es) : ∃ k, iterNext es' k x = y :=
  S.symm.y_to_class_x N S.root_y

/-- every node of the two merged classes reaches `x`, and `x` reaches it -/
theorem Spliced.merged (S : Spliced es es' x y) (N : NextCycles es) {i : Nat} (hi : RootOf es i x ∨ RootOf es i y) :
    (∃ k, iterNext es' k i = x) ∧ (∃ k, iterNext es' k x = i) := by
  rcases hi with hi | hi
  · refine ⟨S.to_x N hi, ?_⟩
    obtain ⟨k1, h1⟩ := S.x_to_y N
    obtain ⟨k2, h2⟩ := S.y_to_class_x N hi
    exact ⟨k2 + k1, by rw [iterNext_add, h1, h2]⟩
  · constructor
    · obtain ⟨k1, h1⟩ := S.symm.to_x N hi
      obtain ⟨k2, h2⟩ := S.symm.x_to_y N
      exact ⟨k2 + k1, by rw [iterNext_add, h1, h2]⟩
    · exact S.symm.y_to_class_x N hi

/-- classes other than the two merged ones are untouched -/
theorem Spliced.untouched (S : Spliced es es' x y) (N : NextCycles es) {i q : Nat} (hi : RootOf es i q)
    (hqx : q ≠ x) (hqy : q ≠ y) (k : Nat) : iterNext es' k i = iterNext es k i := by
  induction k with
  | zero => rfl
  | succ k ih =>
    simp only [iterNext]; rw [ih]
    have hm := N.root_iter hi k
    apply S.next_other
    · intro h; rw [h] at hm; exact hqx (hm.unique S.root_x)
    · intro h; rw [h] at hm; exact hqy (hm.unique S.root_y)

end Splice

theorem nextCycles_of_unionPost {es es' : Elems} {a b w : Nat} (hab : a ≠ b) (ha : RootOf es a a) (hb : RootOf es b b)
    (P : UnionPost es es' a b w) (N : NextCycles es) : NextCycles es' := by
  have S : Spliced es es' a b := by
    refine ⟨hab, ha, hb, ?_, ?_, ?_⟩
    · rw [P.next_eq, if_pos rfl]
    · rw [P.next_eq, if_neg (Ne.symm hab), if_pos rfl]
    · intro j h1 h2; rw [P.next_eq, if_neg h1, if_neg h2]
  have hmono : ∀ i j, Same es i j → Same es' i j := by
    rintro i j ⟨q, h1, h2⟩
    exact ⟨_, (P.roots _ _).mpr ⟨q, h1, rfl⟩, (P.roots _ _).mpr ⟨q, h2, rfl⟩⟩
  have hwroot : ∀ i, (RootOf es i a ∨ RootOf es i b) → RootOf es' i w := by
    intro i h
    rcases h with h | h
    · exact (P.roots _ _).mpr ⟨a, h, by simp⟩
    · exact (P.roots _ _).mpr ⟨b, h, by simp⟩
  -- both roots reach each other, hence everything in the merged class reaches / is reached from w
  have hw : ∀ i, (RootOf es i a ∨ RootOf es i b) → (∃ k, iterNext es' k i = w) ∧ (∃ k, iterNext es' k w = i) := by
    intro i hi
    rcases P.winner with rfl | rfl
    · exact S.merged N hi
    · exact S.symm.merged N hi.symm
  refine ⟨?_, ?_, ?_, ?_⟩
  · intro i hi; rw [P.length_eq] at hi ⊢; rw [P.next_eq]
    split
    · exact N.next_lt b hb.lt
    · split
      · exact N.next_lt a ha.lt
      · exact N.next_lt i hi
  · intro i hi; rw [P.length_eq] at hi
    by_cases h1 : i = a
    · subst h1; rw [S.next_x]
      exact ⟨w, hwroot _ (Or.inl ha), hwroot _ (Or.inr (N.root_next hb))⟩
    · by_cases h2 : i = b
      · subst h2; rw [S.next_y]
        exact ⟨w, hwroot _ (Or.inr hb), hwroot _ (Or.inl (N.root_next ha))⟩
      · rw [S.next_other i h1 h2]; exact hmono _ _ (N.next_same i hi)
  · intro i q h
    obtain ⟨q0, h0, rfl⟩ := (P.roots _ _).mp h
    by_cases hq : q0 = a ∨ q0 = b
    · rw [if_pos hq]
      rcases hq with rfl | rfl
      · exact (hw i (Or.inl h0)).1
      · exact (hw i (Or.inr h0)).1
    · rw [if_neg hq]
      obtain ⟨k, hk⟩ := N.to_root i q0 h0
      exact ⟨k, by rw [S.untouched N h0 (fun e => hq (Or.inl e)) (fun e => hq (Or.inr e))]; exact hk⟩
  · intro i q h
    obtain ⟨q0, h0, rfl⟩ := (P.roots _ _).mp h
    by_cases hq : q0 = a ∨ q0 = b
    · rw [if_pos hq]
      rcases hq with rfl | rfl
      · exact (hw i (Or.inl h0)).2
      · exact (hw i (Or.inr h0)).2
    · rw [if_neg hq]
      obtain ⟨k, hk⟩ := N.from_root i q0 h0
      exact ⟨k, by rw [S.untouched N h0.self (fun e => hq (Or.inl e)) (fun e => hq (Or.inr e))]; exact hk⟩

end AscentVerif.UF
