import AscentVerif.Proofs.NDAggPass
/-!
# The nondeterministic engine with aggregation items: frame and strata

`Proofs/AggStrata.lean` for `SccND` / `SccsND` / `RunND`: an SCC only touches its dynamic relations (no invariant needed),
hence the relation an aggregation item ranges over is final when the item's SCC starts; the strata induction with the
aggregation view fixed to what the items read from the FINAL program value.
-/
namespace AscentVerif.Engine.Agg
open AscentVerif AscentVerif.Engine

variable {E B G P A : Type}

/-! ## frame: an SCC only touches its dynamic relations -/

theorem Frame_applyRows {L : List RelId} {st : St} (l : List (RelId × Tuple)) (s : SccSt) (h : Frame L st s) :
    Frame L st (applyRows s l) := by
  unfold applyRows
  exact foldl_inv _ (Frame L st) (fun s x hs => Frame_headRel hs x.1 x.2) l s h

section FrameRun
variable (I : Interp E B G P A) (cfg : Config) (p : Program E B G P A)

theorem Frame_passND {L : List RelId} {st : St} (dynR : List RelId) (rules : List (Rule E B G P A)) (s s1 : SccSt)
    (h : Frame L st s) (hpass : PassND I cfg p dynR rules s s1) : Frame L st s1 := by
  obtain ⟨l, _, rfl⟩ := hpass
  exact Frame_applyRows l _ ⟨h.names, h.keep⟩

theorem Frame_loopND {L : List RelId} {st : St} (dynR : List RelId) (rules : List (Rule E B G P A))
    (s s' : SccSt) (k : Nat) (hloop : LoopND I cfg p dynR rules s s' k) : Frame L st s → Frame L st s' := by
  induction hloop with
  | @exit s s1 hpass _ =>
    intro hf
    exact Frame_shift (Frame_passND I cfg p dynR rules s s1 hf hpass)
  | @more s s1 s' k hpass _ _ ih =>
    intro hf
    exact ih (Frame_shift (Frame_passND I cfg p dynR rules s s1 hf hpass))

/-- a relation that is not a head relation of the SCC keeps its rows AND its stored index -/
theorem sccND_nondyn (scc : List Nat) (st st' : St) (h : SccND I cfg p scc st st') (r : RelId)
    (hr : (dynRels p scc).contains r = false) : relSt st' r = relSt st r := by
  have hr' : r ∉ dynRels p scc := by
    intro hm; rw [List.contains_iff_mem.mpr hm] at hr; cases hr
  have h0 : Frame (dynRels p scc) st (enterScc st (dynRels p scc)) := by
    refine ⟨?_, fun r _ => by rw [enterScc_rels]⟩
    simp [enterScc, List.map_map, Function.comp_def]
  have hleave : ∀ s, Frame (dynRels p scc) st s → relSt (leaveScc s) r = relSt st r := by
    intro s hs
    rw [leaveScc_eq, leave_untouched r s.dyn s.rels, hs.keep r hr']
    intro d hd e
    apply hr'
    rw [← hs.names, ← e]
    exact List.mem_map.mpr ⟨d, hd, rfl⟩
  unfold SccND at h
  split at h
  · obtain ⟨s', k, hloop, rfl⟩ := h
    exact hleave _ (Frame_loopND I cfg p _ _ _ s' k hloop h0)
  · obtain ⟨s1, hpass, rfl⟩ := h
    exact hleave _ (Frame_shift (Frame_shift (Frame_passND I cfg p _ _ _ s1 h0 hpass)))

theorem sccsND_stable (r : RelId) : ∀ (rest : SccOrder) (st st' : St),
    SccsND I cfg p rest st st' → (∀ scc ∈ rest, (dynRels p scc).contains r = false) →
    relSt st' r = relSt st r := by
  intro rest st st' hrun
  induction hrun with
  | nil => intro _; rfl
  | @cons scc rest st st1 st2 hscc _ ih =>
    intro hr
    rw [ih (fun s hs => hr s (List.mem_cons_of_mem _ hs))]
    exact sccND_nondyn I cfg p scc st st1 hscc r (hr scc (by simp))

/-- when an SCC with an aggregation over `a.rel` starts, `a.rel` (rows and stored index) is final -/
theorem agg_rel_final_nd (pre post : SccOrder) (scc : List Nat) (st st' : St)
    (ho : validOrder p (pre ++ scc :: post) = true)
    (hs : ∀ s ∈ pre ++ scc :: post, aggOverDynamic p s = false)
    (hpost : SccsND I cfg p (scc :: post) st st')
    (rule : Rule E B G P A) (hrule : rule ∈ sccRules p scc) (a : AggClause E A) (ha : Item.agg a ∈ rule.body) :
    relSt st' a.rel = relSt st a.rel :=
  sccsND_stable I cfg p a.rel (scc :: post) st st' hpost
    (agg_rel_not_later p pre post scc ho hs rule hrule a ha)

end FrameRun

/-! ## the strata induction -/

section Strata
variable (I : Interp E B G P A) (cfg : Config) (p : Program E B G P A) (inp : RelId → List Tuple) (K : Prop)
  (hl : ∀ d ∈ p.rels, d.lat = false)
  (hh : ∀ r ∈ p.rules, ∀ h ∈ r.heads, h.rel < p.rels.length)
  (o : SccOrder) (ho : validOrder p o = true) (hs : ∀ s ∈ o, aggOverDynamic p s = false)

include hl hh ho hs in
/-- the aggregation view is fixed to what the items read from the final value `st'` -/
theorem sccsND_spec : ∀ (rest : SccOrder) (st st' : St), SccsND I cfg p rest st st' → ∀ (done : SccOrder),
    done ++ rest = o → PInv I p inp (aggOf cfg p st') K p.rels.length st →
    (∀ scc ∈ done, ClosedRules I (aggOf cfg p st') (sccRules p scc) (factsOf st)) →
    PInv I p inp (aggOf cfg p st') K p.rels.length st' ∧
      ∀ scc ∈ o, ClosedRules I (aggOf cfg p st') (sccRules p scc) (factsOf st') := by
  intro rest st st' hrun
  induction hrun with
  | nil =>
    intro done hdone hp hcl
    rw [List.append_nil] at hdone
    subst hdone
    exact ⟨hp, hcl⟩
  | @cons scc rest st st1 st2 hscc hrest ih =>
    intro done hdone hp hcl
    have hagg : ∀ rule ∈ sccRules p scc, ∀ a, Item.agg a ∈ rule.body →
        (dynRels p scc).contains a.rel = false ∧ aggOf cfg p st a = aggOf cfg p st2 a := by
      intro rule hrule a ha
      subst hdone
      refine ⟨agg_rel_not_later p done rest scc ho hs rule hrule a ha scc (by simp), ?_⟩
      exact (aggOf_congr cfg p a (agg_rel_final_nd I cfg p done rest scc st st2 ho hs
        (SccsND.cons hscc hrest) rule hrule a ha)).symm
    obtain ⟨hp1, hsame, hmono, hcl1⟩ :=
      sccND_spec I cfg p inp (aggOf cfg p st2) K hl hh scc st st1 hp hagg hscc
    refine ih (done ++ [scc]) (by rw [List.append_assoc]; exact hdone) hp1 ?_
    intro scc' hscc'
    rcases List.mem_append.mp hscc' with hscc' | hscc'
    · intro rule hrule ρ hsat hd hhd
      have hfw := validOrder_forward p o ho done scc rest hdone scc' hscc' rule hrule
      have hsat' : SatA I (factsOf st) (aggOf cfg p st2) rule.body [] ρ := by
        refine SatA.congr_rels hsat ?_
        intro r hr t ht
        have : relSt st1 r = relSt st r := hsame r (hfw r hr)
        simp only [factsOf] at ht ⊢
        rw [← this]; exact ht
      exact hmono _ _ (hcl scc' hscc' rule hrule ρ hsat' hd hhd)
    · simp only [List.mem_singleton] at hscc'
      subst hscc'
      exact hcl1

include hl hh ho hs in
/-- everything the final theorem needs about a completed execution -/
theorem runND_spec (s s' : St) (hst : WFSt' p s)
    (hinp : ∀ r, r < p.rels.length → (relSt s r).rows = inp r)
    (hrun : RunND I cfg p o s s') :
    PInv I p inp (aggOf cfg p s') K p.rels.length s' ∧
      ClosedRules I (aggOf cfg p s') p.rules (factsOf s') := by
  have h := sccsND_spec I cfg p inp K hl hh o ho hs o _ s' hrun [] (by simp)
    (PInv_start I p inp K (aggOf cfg p s') s hst hinp) (by intro scc hscc; simp at hscc)
  refine ⟨h.1, ?_⟩
  intro rule hrule ρ hsat hd hhd
  obtain ⟨i, hi, hri⟩ := List.mem_iff_getElem.mp hrule
  obtain ⟨scc, hscc, hiscc⟩ := validOrder_cover p o ho i hi
  have : rule ∈ sccRules p scc := (mem_sccRules p scc rule).mpr ⟨i, hiscc, by rw [List.getElem?_eq_getElem hi, hri]⟩
  exact h.2 scc hscc rule this ρ hsat hd hhd

include hl hh ho hs in
/-- **execution = least model** where every aggregation item is evaluated on what it reads from the final program value -/
theorem runND_eq_model (s s' : St) (hst : WFSt' p s)
    (hinp : ∀ r, r < p.rels.length → (relSt s r).rows = inp r)
    (hrun : RunND I cfg p o s s') :
    ∀ f, factsOf s' f ↔ DerA I p.rules (aggOf cfg p s') (inDB p inp) f := by
  obtain ⟨hp, hcl⟩ := runND_spec I cfg p inp False hl hh o ho hs s s' hst hinp hrun
  intro f
  constructor
  · intro hf
    have hr : f.rel < p.rels.length := by
      have := lt_of_mem_rows s' f.rel f.args hf
      rw [hp.len] at this; exact this
    have := (hp.good f.rel hr).1 f.args hf
    cases f; exact this
  · revert f
    apply derA_least
    refine ⟨?_, ?_⟩
    · rintro f ⟨hr, hf⟩
      obtain ⟨_, derived, hrows, _, _⟩ := hp.good f.rel hr
      show f.args ∈ (relSt s' f.rel).rows
      rw [hrows]; exact List.mem_append_left _ hf
    · rintro f ⟨rule, hrule, ρ, hsat, h, hhd, rfl⟩
      exact hcl rule hrule ρ hsat h hhd

end Strata

end AscentVerif.Engine.Agg
