import AscentVerif.Proofs.PhysRun
import AscentVerif.Proofs.PhysAggEval
import AscentVerif.Props.C04
/-!
# The physical engine with aggregation / negation items is an execution of the nondeterministic engine

`Model/EnginePhys.lean` evaluates an aggregation item as the generated code does: `index_get` with the evaluated `key` arguments on
the index the plan chose (`aggColsAt`), on the stored (`total`) version of the aggregated relation, the matching rows mapped to
the aggregated variables and handed to the aggregator (`aggRows`, `aggEnvs`).  This file extends the forward simulation of
`Proofs/PhysRun.lean` from aggregation-free programs to stratified programs with aggregation: for permutation-invariant
aggregators, a run of the physical engine is an execution of `RunND` (`Proofs/NDEngine.lean`) with the same row vectors.

The simulation relation is `Sim` (`Proofs/PhysSim.lean`: every index version holds the entries of its abstract bag) together
with `SimM` (`Proofs/PhysAggSim.lean`: with the same multiplicities); the structural facts the aggregation-free development
takes from the least-model invariants (`PInv`, `LoopInv`) come from `StI`, `WF`, `NewEmpty`, `Settled`, which every execution
keeps.
-/
namespace AscentVerif.Phys
open AscentVerif AscentVerif.Engine AscentVerif.Index

variable {E B G P A : Type}

/-! ## structural invariants -/

/-- between SCCs: one entry per declared relation, the stored index holds exactly the row numbers -/
structure StI (p : Program E B G P A) (st : St) : Prop where
  len : st.length = p.rels.length
  idxAll : ∀ r i, i < (relSt st r).rows.length ↔ i ∈ (relSt st r).idx

theorem WF_enterA {p : Program E B G P A} {st : St} (hp : StI p st) (dynR : List RelId) :
    WF p.rels.length dynR (Engine.enterScc st dynR) := by
  refine ⟨by rw [enterScc_rels]; exact hp.len, ?_, ?_, ?_, ?_⟩
  · intro r
    rw [findDyn_enter]
    cases dynR.contains r <;> rfl
  · intro d hd
    simp only [Engine.enterScc, List.mem_map] at hd
    obtain ⟨x, hx, rfl⟩ := hd
    have := findDyn_enter st dynR x
    rw [List.contains_iff_mem.mpr hx] at this
    exact this
  · intro r d hd i
    rw [findDyn_enter] at hd
    cases hc : dynR.contains r with
    | false => rw [hc] at hd; cases hd
    | true =>
      rw [hc] at hd; cases hd
      simp only [rowsOf, enterScc_rels, List.not_mem_nil, false_or, or_false]
      exact hp.idxAll r i
  · intro r _ i
    simp only [rowsOf, enterScc_rels]
    exact hp.idxAll r i

theorem NewEmpty_enter (st : St) (dynR : List RelId) : NewEmpty (Engine.enterScc st dynR) := by
  intro r d hd
  rw [findDyn_enter] at hd
  cases hc : dynR.contains r with
  | false => rw [hc] at hd; cases hd
  | true => rw [hc] at hd; cases hd; rfl

theorem NewEmpty_shift (s : SccSt) : NewEmpty (Engine.shift s) := by
  intro r d' hd'
  rw [findDyn_shift] at hd'
  cases hd : findDyn s.dyn r with
  | none => rw [hd] at hd'; cases hd'
  | some d => rw [hd] at hd'; cases hd'; rfl

theorem Settled_shift {s : SccSt} (h : NewEmpty s) : Settled (Engine.shift s) := by
  intro r d' hd'
  rw [findDyn_shift] at hd'
  cases hd : findDyn s.dyn r with
  | none => rw [hd] at hd'; cases hd'
  | some d => rw [hd] at hd'; cases hd'; exact ⟨h r d hd, rfl⟩

/-- storing the indices back keeps the structural invariant -/
theorem StI_leave {p : Program E B G P A} {dynR : List RelId} (hlt : ∀ r, dynR.contains r = true → r < p.rels.length)
    {s : SccSt} (hwf : WF p.rels.length dynR s) (hs : Settled s) : StI p (Engine.leaveScc s) := by
  have hdlt : ∀ d ∈ s.dyn, d.rel < s.rels.length := by
    intro d hd
    rw [hwf.len]
    apply hlt
    rw [← hwf.dyn_iff, hwf.uniq d hd]; rfl
  have hrows : ∀ r, (relSt (Engine.leaveScc s) r).rows = rowsOf s r := fun r => by
    rw [leaveScc_eq]; exact leave_rows r s.dyn s.rels hdlt
  have hnd : ∀ r, findDyn s.dyn r = none → relSt (Engine.leaveScc s) r = relSt s.rels r := by
    intro r hd
    rw [leaveScc_eq]
    apply leave_untouched
    intro d hdm hrel
    have := List.find?_eq_none.mp hd d hdm
    simp [hrel] at this
  have hidx : ∀ r d, findDyn s.dyn r = some d → (relSt (Engine.leaveScc s) r).idx = d.total := by
    intro r d hd
    rw [leaveScc_eq]
    apply leave_touched r d.total s.dyn s.rels hdlt
    · intro d' hd' hrel
      have := hwf.uniq d' hd'
      rw [hrel, hd] at this
      cases this; rfl
    · exact .inl ⟨d, findDyn_mem hd, findDyn_rel hd⟩
  refine ⟨?_, ?_⟩
  · rw [leaveScc_eq, leave_length]; exact hwf.len
  · intro r i
    cases hd : findDyn s.dyn r with
    | none =>
      rw [hnd r hd]; exact hwf.cover_nd r hd i
    | some d =>
      rw [hrows, hidx r d hd, hwf.cover r d hd i]
      obtain ⟨h1, h2⟩ := hs r d hd
      rw [h1, h2]; simp

/-! ## one pass -/

/-- the invariant of a pass: `PI` of `Proofs/PhysRun.lean` with the multiplicities -/
structure PIM (p : Program E B G P A) (ix : IxSets) (dynR : List RelId) (a₀ a : SccSt) (ph : PScc) : Prop where
  wf : WF p.rels.length dynR a
  ext : Ext a₀ a
  sim : Sim p ix a ph
  simM : SimM a ph

section Pass
variable (I : Interp E B G P A) (hI : Plan.Ext I) (cfg : Config) (V : Hir.VarsOf E B) (hS : Plan.Supp I V)
  (hperm : ∀ (fn : A) (l l' : List Tuple), l.Perm l' → I.agg fn l = I.agg fn l')
  (p : Program E B G P A) (hl : ∀ d ∈ p.rels, d.lat = false) (ix : IxSets) (dynR : List RelId)
  (hlt : ∀ r, dynR.contains r = true → r < p.rels.length)

/-- what the pass needs to know about a rule (from `planOk`, `aggPlanOk`, `RelationalAgg` and the hypotheses on the rules) -/
structure RuleFitA (r : Rule E B G P A) : Prop where
  desug : Hir.Desugared V r = true
  wscoped : Plan.WellScoped V r = true
  clok : ClOk p ix (Hir.compileRule V r) 0 r.body
  heads : ∀ h ∈ r.heads, h.args.length = arityOf p h.rel
  agg : ∀ i ag, r.body[i]? = some (.agg ag) → ag.args.length = arityOf p ag.rel ∧
    aggColsAt (Hir.compileRule V r) i = keyPositions ag.args ∧
    ((keyPositions ag.args).length = arityOf p ag.rel ∨ keyPositions ag.args ∈ ix ag.rel)

include hlt in
theorem heads_simA (a₀ : SccSt) (heads : List (HeadClause E)) (hh : ∀ h ∈ heads, h.args.length = arityOf p h.rel)
    (ρ : Env) (a : SccSt) (ph : PScc) (h : PIM p ix dynR a₀ a ph) :
    ∃ l, (∀ y, y ∈ l ↔ y ∈ headRows I heads ρ) ∧
      PIM p ix dynR a₀ (applyRows a l) (heads.foldl (fun s h => Phys.headRel s h.rel (headRow I h ρ).2) ph) := by
  obtain ⟨l, hm, hinv⟩ := fold_chunks (PIM p ix dynR a₀) (fun s (h : HeadClause E) => Phys.headRel s h.rel (headRow I h ρ).2)
    (fun h => [(h.rel, h.args.map fun e => I.expr e ρ)]) heads (by
      intro a ph hd hhd hinv
      refine ⟨[(hd.rel, hd.args.map fun e => I.expr e ρ)], fun _ => Iff.rfl, ?_⟩
      obtain ⟨h1, h2⟩ := headRel_wf_ext hlt hinv.wf hinv.ext hd.rel (hd.args.map fun e => I.expr e ρ)
      exact ⟨h1, h2, headRel_sim hinv.sim hinv.wf hlt hd.rel _ (by rw [List.length_map]; exact hh hd hhd),
        headRel_simM hinv.sim hinv.simM hinv.wf hlt hd.rel _⟩) a ph h
  refine ⟨l, ?_, hinv⟩
  intro y
  rw [hm, mem_headRows]
  simp only [List.mem_flatMap, List.mem_singleton]

include hI hS hperm hl hlt in
theorem variant_simA (a₀ : SccSt) (hwf0 : WF p.rels.length dynR a₀) (r : Rule E B G P A) (hr : RuleFitA V p ix r)
    (hstr : ∀ ag, Item.agg ag ∈ r.body → dynR.contains ag.rel = false)
    (vs : List (Option Ver)) (a : SccSt) (ph : PScc) (h : PIM p ix dynR a₀ a ph) :
    ∃ l, (∀ y, y ∈ l ↔ y ∈ (evalBody I cfg p a₀ r.body vs []).flatMap (headRows I r.heads)) ∧
      PIM p ix dynR a₀ (applyRows a l) (Phys.evalVariant I V p ph r vs) := by
  obtain ⟨l, hm, hinv⟩ := fold_chunks (PIM p ix dynR a₀)
    (fun s ρ => r.heads.foldl (fun s h => Phys.headRel s h.rel (headRow I h ρ).2) s) (headRows I r.heads)
    (evalRule I p ph (Hir.compileRule V r) r.body vs)
    (fun a ph ρ _ hinv => heads_simA I p ix dynR hlt a₀ r.heads hr.heads ρ a ph hinv) a ph h
  refine ⟨l, ?_, hinv⟩
  have hag : AgOk I cfg p a ph (Hir.compileRule V r) 0 r.body := by
    intro k ag hk ρ
    rw [Nat.zero_add]
    obtain ⟨g1, g2, g3⟩ := hr.agg k ag hk
    exact aggEnvs_of_sim I hperm cfg p hl ix h.sim h.simM h.wf _ k ag (hstr ag (List.mem_of_getElem? hk)) g1 g2 g3 ρ
  intro y
  rw [hm, evalRule_rowsA I hI cfg V hS p ix a ph (sim_viewsOk cfg p hl ix h.sim h.wf) r hr.desug hr.wscoped hr.clok
    hag vs y]
  simp only [List.mem_flatMap]
  constructor
  · rintro ⟨ρ, hρ, hy⟩
    exact ⟨ρ, (evalBody_frozenA cfg p hl I hwf0 h.ext r.body hstr vs [] ρ).mp hρ, hy⟩
  · rintro ⟨ρ, hρ, hy⟩
    exact ⟨ρ, (evalBody_frozenA cfg p hl I hwf0 h.ext r.body hstr vs [] ρ).mpr hρ, hy⟩

include hI hS hperm hl hlt in
theorem rules_simA (a₀ : SccSt) (hwf0 : WF p.rels.length dynR a₀) (rules : List (Rule E B G P A))
    (hR : ∀ r ∈ rules, RuleFitA V p ix r)
    (hstr : ∀ r ∈ rules, ∀ ag, Item.agg ag ∈ r.body → dynR.contains ag.rel = false)
    (a : SccSt) (ph : PScc) (h : PIM p ix dynR a₀ a ph) :
    ∃ l, (∀ y, y ∈ l ↔ y ∈ iterRows I cfg p dynR rules a₀) ∧
      PIM p ix dynR a₀ (applyRows a l) (Phys.evalRules I V p dynR rules ph) := by
  obtain ⟨l, hm, hinv⟩ := fold_chunks (PIM p ix dynR a₀)
    (fun s r => (variants dynR r).foldl (fun s vs => Phys.evalVariant I V p s r vs) s)
    (fun r => (variants dynR r).flatMap fun vs => (evalBody I cfg p a₀ r.body vs []).flatMap (headRows I r.heads))
    rules (by
      intro a ph r hr hinv
      exact fold_chunks (PIM p ix dynR a₀) (fun s vs => Phys.evalVariant I V p s r vs)
        (fun vs => (evalBody I cfg p a₀ r.body vs []).flatMap (headRows I r.heads)) (variants dynR r)
        (fun a ph vs _ hinv => variant_simA I hI cfg V hS hperm p hl ix dynR hlt a₀ hwf0 r (hR r hr) (hstr r hr) vs a ph hinv)
        a ph hinv)
    a ph h
  refine ⟨l, ?_, hinv⟩
  intro y
  rw [hm, mem_iterRows]
  simp only [List.mem_flatMap, iterTasks, List.mem_map, mem_headRows]
  constructor
  · rintro ⟨r, hr, vs, hvs, ρ, hρ, hd, hhd, rfl⟩
    exact ⟨(r, ρ), ⟨r, hr, vs, hvs, ρ, hρ, rfl⟩, hd, hhd, rfl⟩
  · rintro ⟨t, ⟨r, hr, vs, hvs, ρ, hρ, rfl⟩, hd, hhd, rfl⟩
    exact ⟨r, hr, vs, hvs, ρ, hρ, hd, hhd, rfl⟩

include hI hS hperm hl hlt in
/-- **one pass** of the physical engine is a pass of the nondeterministic engine -/
theorem pass_simA (rules : List (Rule E B G P A)) (hR : ∀ r ∈ rules, RuleFitA V p ix r)
    (hstr : ∀ r ∈ rules, ∀ ag, Item.agg ag ∈ r.body → dynR.contains ag.rel = false)
    (a : SccSt) (ph : PScc) (hwf : WF p.rels.length dynR a) (hsim : Sim p ix a ph) (hm : SimM a ph) :
    ∃ a1, PassND I cfg p dynR rules a a1 ∧
      PIM p ix dynR { a with changed := false } a1 (Phys.evalRules I V p dynR rules { ph with changed := false }) := by
  have hwf0 : WF p.rels.length dynR { a with changed := false } := WF_reset _ dynR hwf
  obtain ⟨l, hm', hinv⟩ := rules_simA I hI cfg V hS hperm p hl ix dynR hlt _ hwf0 rules hR hstr _ _
    ⟨hwf0, Ext.refl _, reset_sim hsim, reset_simM hm⟩
  exact ⟨_, ⟨l, hm', rfl⟩, hinv⟩

/-! ## the loop of a looping SCC -/

include hI hS hperm hl hlt in
theorem sccLoop_simA (rules : List (Rule E B G P A)) (hR : ∀ r ∈ rules, RuleFitA V p ix r)
    (hstr : ∀ r ∈ rules, ∀ ag, Item.agg ag ∈ r.body → dynR.contains ag.rel = false) :
    ∀ (fuel : Nat) (rs rs' : RunSt) (a : SccSt), sccLoop I V p dynR rules fuel rs = some rs' →
      WF p.rels.length dynR a → NewEmpty a → Sim p ix a rs.st → SimM a rs.st →
      ∃ a' k, LoopND I cfg p dynR rules a a' k ∧ Sim p ix a' rs'.st ∧ SimM a' rs'.st ∧
        WF p.rels.length dynR a' ∧ Settled a' := by
  intro fuel
  induction fuel with
  | zero => intro rs rs' a h; simp [sccLoop] at h
  | succ fuel ih =>
    intro rs rs' a h hwf hne hsim hm
    obtain ⟨a1, hpass, hinv⟩ := pass_simA I hI cfg V hS hperm p hl ix dynR hlt rules hR hstr a rs.st hwf hsim hm
    simp only [sccLoop] at h
    split at h
    · rename_i hch
      simp only [Option.some.injEq] at h
      subst h
      have hch' : a1.changed = false := by
        rw [hinv.sim.changed]; simpa using hch
      have heq := hinv.ext.unchanged hch'
      have hne1 : NewEmpty a1 := by
        rw [heq]; exact hne
      exact ⟨_, 1, LoopND.exit hpass hch', shift_sim hinv.sim, shift_simM hinv.sim hinv.simM, WF_shift hinv.wf,
        Settled_shift hne1⟩
    · rename_i hch
      have hch' : a1.changed = true := by
        rw [hinv.sim.changed]; simpa using hch
      obtain ⟨a', k, hloop, hsim', hm', hwf', hset'⟩ := ih _ rs' (Engine.shift a1) h (WF_shift hinv.wf)
        (NewEmpty_shift a1) (shift_sim hinv.sim) (shift_simM hinv.sim hinv.simM)
      exact ⟨a', k + 1, LoopND.more hpass hch' hloop, hsim', hm', hwf', hset'⟩

end Pass

/-! ## `planOk` and `aggPlanOk`, unpacked -/

theorem aggFit_of_aggRuleOk (V : Hir.VarsOf E B) (p : Program E B G P A) (ix : IxSets) (r : Rule E B G P A)
    (h : aggRuleOk V p ix r = true) (i : Nat) (ag : AggClause E A) (hi : r.body[i]? = some (.agg ag)) :
    ag.args.length = arityOf p ag.rel ∧ aggColsAt (Hir.compileRule V r) i = keyPositions ag.args ∧
      ((keyPositions ag.args).length = arityOf p ag.rel ∨ keyPositions ag.args ∈ ix ag.rel) := by
  have hlt : i < r.body.length := by
    rcases Nat.lt_or_ge i r.body.length with h' | h'
    · exact h'
    · rw [List.getElem?_eq_none h'] at hi; cases hi
  have hk' := List.all_eq_true.mp h i (List.mem_range.mpr hlt)
  rw [hi] at hk'
  unfold aggColsAt
  cases hit : (Hir.compileRule V r).items[i]? with
  | none => rw [hit] at hk'; simp at hk'
  | some it =>
    rw [hit] at hk'
    cases it with
    | agg rel' cols =>
      simp only [Bool.and_eq_true, Bool.or_eq_true, beq_iff_eq, List.contains_iff_mem] at hk'
      obtain ⟨⟨⟨⟨⟨_, h2⟩, h3⟩, h4⟩, _⟩, _⟩ := hk'
      subst h3
      exact ⟨h2, rfl, h4⟩
    | clause rel' cols dp => simp at hk'
    | gen v => simp at hk'
    | ifc => simp at hk'
    | ifLet => simp at hk'
    | letc => simp at hk'

theorem ruleFitA_of_planOk (V : Hir.VarsOf E B) (p : Program E B G P A) (ix : IxSets)
    (hplan : planOk V p ix = true) (hagg : aggPlanOk V p ix = true)
    (hd : ∀ r ∈ p.rules, Hir.Desugared V r = true ∧ Plan.WellScoped V r = true) :
    ∀ r ∈ p.rules, RuleFitA V p ix r := by
  intro r hr
  have h := List.all_eq_true.mp hplan r hr
  simp only [Bool.and_eq_true] at h
  have ha := List.all_eq_true.mp hagg r hr
  refine ⟨(hd r hr).1, (hd r hr).2, clOk_of_ruleOk V p ix r h.1, ?_, aggFit_of_aggRuleOk V p ix r ha⟩
  intro hc hhc
  simpa using List.all_eq_true.mp h.2 hc hhc

/-! ## one SCC, the SCCs in order -/

section Run
variable (I : Interp E B G P A) (hI : Plan.Ext I) (cfg : Config) (V : Hir.VarsOf E B) (hS : Plan.Supp I V)
  (hperm : ∀ (fn : A) (l l' : List Tuple), l.Perm l' → I.agg fn l = I.agg fn l')
  (p : Program E B G P A) (hp : RelationalAgg p) (ix : IxSets)
  (hR : ∀ r ∈ p.rules, RuleFitA V p ix r)

include hI hS hperm hp hR in
theorem runScc_simA (fuel : Nat) (scc : List Nat) (hstrat : aggOverDynamic p scc = false) (ps ps' : ProgSt) (st : St)
    (hinv : StI p st) (hs : SimSt p ix st ps.st) (hsm : SimStM st ps.st)
    (h : runScc I V p fuel scc ps = some ps') :
    ∃ st', SccND I cfg p scc st st' ∧ SimSt p ix st' ps'.st ∧ SimStM st' ps'.st ∧ StI p st' := by
  obtain ⟨hl, hh⟩ := hp
  have hrules := sccRules_sub p scc
  have hRs : ∀ r ∈ sccRules p scc, RuleFitA V p ix r := fun r hr => hR r (hrules r hr)
  have hstr : ∀ r ∈ sccRules p scc, ∀ ag, Item.agg ag ∈ r.body → (dynRels p scc).contains ag.rel = false :=
    fun r hr ag ha => Agg.aggOverDynamic_false p scc hstrat r hr ag ha
  have hlt : ∀ r, (dynRels p scc).contains r = true → r < p.rels.length := by
    intro r hr
    obtain ⟨rule, hrule, h, hhd, rfl⟩ := (dynRels_mem p scc r).mp hr
    exact hh rule (hrules rule hrule) h hhd
  have hwf0 := WF_enterA hinv (dynRels p scc)
  have hne0 := NewEmpty_enter st (dynRels p scc)
  have hsim0 : Sim p ix (Engine.enterScc st (dynRels p scc)) (Phys.enterScc ps.st (dynRels p scc)) :=
    enter_sim hs _ (fun r hr => by rw [hinv.len]; exact hlt r (List.contains_iff_mem.mpr hr))
  have hm0 : SimM (Engine.enterScc st (dynRels p scc)) (Phys.enterScc ps.st (dynRels p scc)) := enter_simM hsm _
  have hdlt : ∀ a : SccSt, WF p.rels.length (dynRels p scc) a → ∀ d ∈ a.dyn, d.rel < a.rels.length := by
    intro a hwf d hd
    rw [hwf.len]; apply hlt
    rw [← hwf.dyn_iff, hwf.uniq d hd]; rfl
  simp only [runScc] at h
  split at h
  · rename_i hlp
    simp only [Option.map_eq_some_iff] at h
    obtain ⟨rs, hloop, rfl⟩ := h
    obtain ⟨a', k, hnd, hsim', hm', hwf', hset'⟩ := sccLoop_simA I hI cfg V hS hperm p hl ix (dynRels p scc) hlt
      (sccRules p scc) hRs hstr fuel _ rs _ hloop hwf0 hne0 hsim0 hm0
    refine ⟨Engine.leaveScc a', ?_, leave_sim hsim' (hdlt a' hwf'), leave_simM hsim' hm' (hdlt a' hwf'),
      StI_leave hlt hwf' hset'⟩
    unfold SccND
    rw [if_pos hlp]
    exact ⟨a', k, hnd, rfl⟩
  · rename_i hlp
    simp only [Option.some.injEq] at h
    subst h
    obtain ⟨a1, hpass, hinv1⟩ := pass_simA I hI cfg V hS hperm p hl ix (dynRels p scc) hlt (sccRules p scc) hRs hstr _ _
      hwf0 hsim0 hm0
    have hwf2 := WF_shift (WF_shift hinv1.wf)
    have hsim1 := shift_sim hinv1.sim
    have hm1 := shift_simM hinv1.sim hinv1.simM
    refine ⟨Engine.leaveScc (Engine.shift (Engine.shift a1)), ?_,
      leave_sim (shift_sim hsim1) (hdlt _ hwf2), leave_simM (shift_sim hsim1) (shift_simM hsim1 hm1) (hdlt _ hwf2),
      StI_leave hlt hwf2 (Settled_shift (NewEmpty_shift a1))⟩
    unfold SccND
    rw [if_neg hlp]
    exact ⟨a1, hpass, rfl⟩

include hI hS hperm hp hR in
theorem runSccs_simA (fuel : Nat) : ∀ (order : SccOrder), Stratified p order → ∀ (ps ps' : ProgSt) (st : St),
    StI p st → SimSt p ix st ps.st → SimStM st ps.st → runSccs I V p fuel order ps = some ps' →
    ∃ st', SccsND I cfg p order st st' ∧ SimSt p ix st' ps'.st := by
  intro order
  induction order with
  | nil =>
    intro _ ps ps' st _ hs _ h
    simp only [runSccs, Option.some.injEq] at h
    subst h
    exact ⟨st, SccsND.nil, hs⟩
  | cons scc rest ih =>
    intro hst ps ps' st hinv hs hsm h
    simp only [runSccs, Option.bind_eq_some_iff] at h
    obtain ⟨ps1, hscc, h⟩ := h
    obtain ⟨st1, hnd, hs1, hsm1, hinv1⟩ := runScc_simA I hI cfg V hS hperm p hp ix hR fuel scc
      (hst scc (by simp)) ps ps1 st hinv hs hsm hscc
    obtain ⟨st2, hnd2, hs2⟩ := ih (fun s hs' => hst s (List.mem_cons_of_mem _ hs')) ps1 ps' st1 hinv1 hs1 hsm1 h
    exact ⟨st2, SccsND.cons hnd hnd2, hs2⟩

end Run

theorem StI_start (p : Program E B G P A) (s : PSt) (hs : WFPSt p s) : StI p (Engine.updateIndices (absSt s)) := by
  refine ⟨by simpa [Engine.updateIndices, absSt] using hs.1, ?_⟩
  intro r i
  rw [relSt_updateIndices]
  simp

/-- **a run of the physical engine on a stratified program with aggregation is an execution of the nondeterministic engine** -/
theorem run_is_RunND_agg (I : Interp E B G P A) (hI : Plan.Ext I) (V : Hir.VarsOf E B) (hS : Plan.Supp I V)
    (hperm : ∀ (fn : A) (l l' : List Tuple), l.Perm l' → I.agg fn l = I.agg fn l')
    (p : Program E B G P A) (ix : IxSets) (order : SccOrder) (s : PSt) (fuel : Nat) (out : ProgSt)
    (hp : RelationalAgg p) (hst : Stratified p order)
    (hplan : planOk V p ix = true) (hagg : aggPlanOk V p ix = true)
    (hd : ∀ r ∈ p.rules, Hir.Desugared V r = true ∧ Plan.WellScoped V r = true)
    (hs : WFPSt p s)
    (hrun : run I V p ix order fuel s = some out) :
    ∃ st', RunND I {} p order (absSt s) st' ∧ SimSt p ix st' out.st := by
  have hR := ruleFitA_of_planOk V p ix hplan hagg hd
  exact runSccs_simA I hI {} V hS hperm p hp ix hR fuel order hst _ out _ (StI_start p s hs)
    (updateIndices_sim p ix s hs) (updateIndices_simM ix s) hrun

#print axioms AscentVerif.Phys.run_is_RunND_agg

end AscentVerif.Phys
