import AscentVerif.Proofs.PhysParAggSim
/-!
# The parallel physical engine on stratified programs with aggregation is an execution of the nondeterministic engine

`Proofs/PhysParRun.lean` without the hypothesis that the rules are aggregation-free: the simulation relation is `Sim` and `SimM`
of the ERASED state (`Proofs/PhysAggSim.lean`) together with the protocol invariant `Flags`; an aggregation item is evaluated by
`Phys.evalFrom` on the erased state (`aggEnvs_of_sim`), the aggregated relation is not dynamic in the SCC (stratification).  The
structural facts come from `StI`, `WF`, `NewEmpty`, `Settled` as in `Proofs/PhysAggRun.lean`.
-/
namespace AscentVerif.PhysPar
open AscentVerif AscentVerif.Engine AscentVerif.Index AscentVerif.Phys

variable {E B G P A : Type}

/-! ## one MIR rule over the frozen indices -/

theorem evalRulePar_rowsA (I : Interp E B G P A) (hI : Plan.Ext I) (cfg : Config) (V : Hir.VarsOf E B) (hS : Plan.Supp I V)
    (p : Program E B G P A) (ix : IxSets) (σ : Sched E B G P A) (n : Nat) (a : SccSt) (s : PCScc)
    (hV : ViewsOk cfg p ix a s.erase) (r : Rule E B G P A) (hr : RuleFitA V p ix r)
    (hag : AgOk I cfg p a s.erase (Hir.compileRule V r) 0 r.body) (vs : List (Option Ver))
    (hfz : ∀ c ∈ clausesOf 0 r.body vs, viewFrozen s c.2.1 c.2.2 = true)
    (hfa : ∀ ag, Item.agg ag ∈ r.body → viewFrozen s ag.rel (some .total) = true) :
    ∃ envs, evalRulePar I p σ n s (Hir.compileRule V r) r.body vs = .ok envs ∧
      ∀ x, x ∈ envs.flatMap (headRows I r.heads) ↔ x ∈ (evalBody I cfg p a r.body vs []).flatMap (headRows I r.heads) := by
  have hall : (clausesOf 0 r.body vs).all (fun c => viewFrozen s c.2.1 c.2.2) = true := List.all_eq_true.mpr hfz
  have halla : (aggsOf r.body).all (fun r => viewFrozen s r (some .total)) = true := by
    apply List.all_eq_true.mpr
    intro x hx
    obtain ⟨ag, h1, rfl⟩ := mem_aggsOf r.body x hx
    exact hfa ag h1
  unfold evalRulePar
  rw [hall, halla]
  simp only [Bool.and_self, Bool.not_true, Bool.false_eq_true, if_false]
  split
  · rename_i he
    refine ⟨[], rfl, fun x => ?_⟩
    rw [anyEmptyPar_sound I cfg p ix a s hV _ r.body vs hr.clok he]
  · refine ⟨_, rfl, fun x => ?_⟩
    have h1 : x ∈ (Phys.evalFrom I p s.erase (Hir.compileRule V r) (Plan.reorderable (Hir.compileRule V r) && σ.swap n) 0
          r.body vs []).flatMap (headRows I r.heads) ↔
        x ∈ (Plan.evalBodyPlan I cfg p a (Hir.compileRule V r) (Plan.reorderable (Hir.compileRule V r) && σ.swap n) r.body vs
          []).flatMap (headRows I r.heads) := by
      simp only [List.mem_flatMap, Plan.evalBodyPlan]
      constructor
      · rintro ⟨ρ, hρ, hx⟩
        exact ⟨ρ, (evalFrom_memA I cfg p ix a s.erase hV _ _ _ r.body 0 vs [] (Nat.le_refl _) hr.clok hag ρ).mp hρ, hx⟩
      · rintro ⟨ρ, hρ, hx⟩
        exact ⟨ρ, (evalFrom_memA I cfg p ix a s.erase hV _ _ _ r.body 0 vs [] (Nat.le_refl _) hr.clok hag ρ).mpr hρ, hx⟩
    rw [h1]
    cases hs : (Plan.reorderable (Hir.compileRule V r) && σ.swap n) with
    | false => exact mem_flatMap_of_map_perm _ (Plan.head_rows_perm I hI cfg p a V r hr.desug vs) x
    | true =>
      have hre : Plan.reorderable (Hir.compileRule V r) = true := by
        simp only [Bool.and_eq_true] at hs; exact hs.1
      exact mem_flatMap_of_map_perm _ (Plan.head_rows_perm_swapped I hI cfg p a V hS r hr.desug hr.wscoped hre vs) x

/-! ## the tasks of an iteration -/

theorem iterTasksPar_rowsA (I : Interp E B G P A) (hI : Plan.Ext I) (cfg : Config) (V : Hir.VarsOf E B) (hS : Plan.Supp I V)
    (p : Program E B G P A) (ix : IxSets) (σ : Sched E B G P A) (n : Nat) (dynR : List RelId) (a : SccSt) (s : PCScc)
    (hV : ViewsOk cfg p ix a s.erase) (rules : List (Rule E B G P A)) (hR : ∀ r ∈ rules, RuleFitA V p ix r)
    (hag : ∀ r ∈ rules, AgOk I cfg p a s.erase (Hir.compileRule V r) 0 r.body)
    (hfz : ∀ r ∈ rules, ∀ vs, ∀ c ∈ clausesOf 0 r.body vs, viewFrozen s c.2.1 c.2.2 = true)
    (hfa : ∀ r ∈ rules, ∀ ag, Item.agg ag ∈ r.body → viewFrozen s ag.rel (some .total) = true) :
    ∃ tasks, iterTasksPar I V p σ n dynR rules s = .ok tasks ∧ (∀ t ∈ tasks, t.1 ∈ rules) ∧
      ∀ x, x ∈ tasks.flatMap (fun t => headRows I t.1.heads t.2) ↔ x ∈ iterRows I cfg p dynR rules a := by
  obtain ⟨tasks, hfold, hin, hmem⟩ := foldRes_inv
    (fun (acc : List (Rule E B G P A × Env)) (rv : Rule E B G P A × List (Option Ver)) =>
      evalRulePar I p σ (n + acc.length) s (Hir.compileRule V rv.1) rv.1.body rv.2 >>= fun envs =>
      pure (acc ++ envs.map fun ρ => (rv.1, ρ)))
    (fun done acc => (∀ t ∈ acc, t.1 ∈ rules) ∧
      ∀ x, x ∈ acc.flatMap (fun t => headRows I t.1.heads t.2) ↔
        x ∈ done.flatMap fun rv => (evalBody I cfg p a rv.1.body rv.2 []).flatMap (headRows I rv.1.heads))
    (rules.flatMap fun r => (variants dynR r).map fun vs => (r, vs)) (by
      intro done acc rv hrv hinv
      have hrule : rv.1 ∈ rules := by
        obtain ⟨r, hr, hrv'⟩ := List.mem_flatMap.mp hrv
        obtain ⟨vs, _, rfl⟩ := List.mem_map.mp hrv'
        exact hr
      obtain ⟨envs, he, hrows⟩ := evalRulePar_rowsA I hI cfg V hS p ix σ (n + acc.length) a s hV rv.1 (hR _ hrule)
        (hag _ hrule) rv.2 (hfz _ hrule rv.2) (hfa _ hrule)
      refine ⟨acc ++ envs.map fun ρ => (rv.1, ρ), by rw [he]; rfl, ?_, ?_⟩
      · intro t ht
        rcases List.mem_append.mp ht with ht | ht
        · exact hinv.1 t ht
        · obtain ⟨ρ, _, rfl⟩ := List.mem_map.mp ht
          exact hrule
      · intro x
        rw [List.flatMap_append, List.mem_append, List.flatMap_append, List.mem_append, hinv.2 x, List.flatMap_map,
          List.flatMap_cons, List.flatMap_nil, List.append_nil, hrows x])
    [] ⟨fun t ht => (by cases ht), fun x => (by simp)⟩
  refine ⟨tasks, by rw [iterTasksPar_eq, hfold], hin, fun x => ?_⟩
  rw [hmem x, mem_iterRows]
  simp only [List.mem_flatMap, iterTasks, List.mem_map, mem_headRows]
  constructor
  · rintro ⟨rv, ⟨r, hr, vs, hvs, rfl⟩, ρ, hρ, hd, hhd, rfl⟩
    exact ⟨(r, ρ), ⟨r, hr, vs, hvs, ρ, hρ, rfl⟩, hd, hhd, rfl⟩
  · rintro ⟨t, ⟨r, hr, vs, hvs, ρ, hρ, rfl⟩, hd, hhd, rfl⟩
    exact ⟨(r, vs), ⟨r, hr, vs, hvs, rfl⟩, ρ, hρ, hd, hhd, rfl⟩

/-! ## one iteration -/

/-- What `evalRulePar` asks of the aggregation items (`__aggregated_rel.index_get(..)` on a `CRelIndex` / `CRelFullIndex` /
`CRelNoIndex` `unwrap_frozen()`s): while the rules of an iteration run, every index of every aggregated relation of the SCC's
rules is frozen — the aggregated relation is body-only in the SCC, and `enterScc` froze the indices of the body-only
relations. -/
theorem iteration_aggFrozen (p : Program E B G P A) (ix : IxSets) (dynR : List RelId) (N : Nat) (bo : List RelId)
    (rules : List (Rule E B G P A))
    (hbo : ∀ rule ∈ rules, ∀ r ∈ rule.bodyRels, dynR.contains r = false → bo.contains r = true ∧ r < p.rels.length)
    (a : SccSt) (s : PCScc) (hwf : WF p.rels.length dynR a) (hsim : Sim p ix a s.erase) (hfl : Flags N bo false s) :
    ∀ rule ∈ rules, ∀ ag, Item.agg ag ∈ rule.body → ∀ v,
      viewFrozen { s with dyn := s.dyn.map freezeDyn, changed := false } ag.rel v = true := by
  intro rule hr ag hag v
  have hwf0 : WF p.rels.length dynR { a with changed := false } := WF_reset _ dynR hwf
  have hsim0 : Sim p ix { a with changed := false }
      (PCScc.erase { s with dyn := s.dyn.map freezeDyn, changed := false }) := by
    rw [erase_freezeAll]; exact reset_sim hsim
  apply viewFrozen_ok (Flags_freezeAll hfl)
  intro hnone
  have hcr : ag.rel ∈ rule.bodyRels := List.mem_filterMap.mpr ⟨.agg ag, hag, rfl⟩
  have hnd : dynR.contains ag.rel = false := by
    rw [← hwf0.dyn_iff]
    rcases hsim0.dyn.find ag.rel with ⟨h1, _⟩ | ⟨d, pd, _, h2, _⟩
    · rw [h1]; rfl
    · have : findPDyn (PCScc.erase { s with dyn := s.dyn.map freezeDyn, changed := false }).dyn ag.rel =
          (findPCDyn (s.dyn.map freezeDyn) ag.rel).map PCDyn.erase := findPDyn_erase _ _
      rw [h2] at this
      have hnone' : findPCDyn (s.dyn.map freezeDyn) ag.rel = none := hnone
      rw [hnone'] at this
      cases this
  obtain ⟨hb, hlt'⟩ := hbo rule hr ag.rel hcr hnd
  refine ⟨hb, ?_⟩
  show ag.rel < s.rels.length
  have h1 : a.rels.length = s.rels.length := by
    have := hsim.len
    simpa [PCScc.erase] using this
  rw [← h1, hwf.len]; exact hlt'

/-- the invariant of the head updates of an iteration -/
structure PIParM (p : Program E B G P A) (ix : IxSets) (dynR : List RelId) (N : Nat) (bo : List RelId) (a₀ a : SccSt)
    (s : PCScc) : Prop where
  wf : WF p.rels.length dynR a
  ext : Ext a₀ a
  sim : Sim p ix a s.erase
  simM : SimM a s.erase
  fl : Flags N bo true s

section Pass
variable (I : Interp E B G P A) (hI : Plan.Ext I) (cfg : Config) (V : Hir.VarsOf E B) (hS : Plan.Supp I V)
  (hperm : ∀ (fn : A) (l l' : List Tuple), l.Perm l' → I.agg fn l = I.agg fn l')
  (p : Program E B G P A) (hl : ∀ d ∈ p.rels, d.lat = false) (ix : IxSets) (dynR : List RelId)
  (hlt : ∀ r, dynR.contains r = true → r < p.rels.length) (N : Nat) (hN : 0 < N) (bo : List RelId)

include hlt hN in
theorem heads_simParA (a₀ : SccSt) (heads : List (HeadClause E)) (hh : ∀ h ∈ heads, h.args.length = arityOf p h.rel) (ρ : Env)
    (tid : Nat) (a : SccSt) (s : PCScc) (h : PIParM p ix dynR N bo a₀ a s) :
    ∃ s', foldRes (fun (st : PCScc) (h : HeadClause E) => headRelPar st tid h.rel (headRow I h ρ).2) heads s = .ok s' ∧
      ∃ l, (∀ y, y ∈ l ↔ y ∈ headRows I heads ρ) ∧ PIParM p ix dynR N bo a₀ (applyRows a l) s' := by
  obtain ⟨s', hfold, l, hm, hinv⟩ := foldRes_inv
    (fun (st : PCScc) (h : HeadClause E) => headRelPar st tid h.rel (headRow I h ρ).2)
    (fun done st => ∃ l, (∀ y, y ∈ l ↔ y ∈ headRows I done ρ) ∧ PIParM p ix dynR N bo a₀ (applyRows a l) st)
    heads (by
      rintro done st hd hhd ⟨l, hm, hinv⟩
      obtain ⟨st', h1, h2, h2m, h3⟩ := headRelPar_simA hN hinv.sim hinv.simM hinv.wf hlt hinv.fl tid hd.rel (headRow I hd ρ).2
        (by show (hd.args.map _).length = _; rw [List.length_map]; exact hh hd hhd)
      obtain ⟨w1, w2⟩ := headRel_wf_ext hlt hinv.wf hinv.ext hd.rel (headRow I hd ρ).2
      refine ⟨st', h1, l ++ [(hd.rel, (headRow I hd ρ).2)], ?_, ?_⟩
      · intro y
        rw [List.mem_append, hm y]
        simp only [headRows, List.map_append, List.mem_append, List.map_cons, List.map_nil]
        rfl
      · rw [applyRows_append]
        exact ⟨w1, w2, h2, h2m, h3⟩)
    s ⟨[], fun y => (by simp [headRows]), h⟩
  exact ⟨s', hfold, l, hm, hinv⟩

include hlt hN in
theorem tasks_simParA (a₀ : SccSt) (σ : Sched E B G P A) (k : Nat) (rules : List (Rule E B G P A))
    (hR : ∀ r ∈ rules, RuleFitA V p ix r) (tasks : List (Rule E B G P A × Env)) (ht : ∀ t ∈ tasks, t.1 ∈ rules)
    (a : SccSt) (s : PCScc) (h : PIParM p ix dynR N bo a₀ a s) :
    ∃ s1, foldRes (fun (acc : PCScc × Nat) (t : Rule E B G P A × Env) =>
          foldRes (fun (st : PCScc) (h : HeadClause E) =>
            headRelPar st (σ.tid (k * 1000003 + acc.2)) h.rel (headRow I h t.2).2) t.1.heads acc.1 >>= fun s' =>
          pure (s', acc.2 + 1)) tasks (s, 0) = .ok s1 ∧
      ∃ l, (∀ y, y ∈ l ↔ y ∈ tasks.flatMap fun t => headRows I t.1.heads t.2) ∧
        PIParM p ix dynR N bo a₀ (applyRows a l) s1.1 := by
  obtain ⟨s1, hfold, l, hm, hinv⟩ := foldRes_inv
    (fun (acc : PCScc × Nat) (t : Rule E B G P A × Env) =>
      foldRes (fun (st : PCScc) (h : HeadClause E) =>
        headRelPar st (σ.tid (k * 1000003 + acc.2)) h.rel (headRow I h t.2).2) t.1.heads acc.1 >>= fun s' =>
      pure (s', acc.2 + 1))
    (fun done (acc : PCScc × Nat) => ∃ l, (∀ y, y ∈ l ↔ y ∈ done.flatMap fun t => headRows I t.1.heads t.2) ∧
      PIParM p ix dynR N bo a₀ (applyRows a l) acc.1)
    tasks (by
      rintro done acc t htm ⟨l, hm, hinv⟩
      obtain ⟨s', h1, l', hm', hinv'⟩ := heads_simParA I p ix dynR hlt N hN bo a₀ t.1.heads (hR _ (ht t htm)).heads t.2
        (σ.tid (k * 1000003 + acc.2)) _ acc.1 hinv
      refine ⟨(s', acc.2 + 1), by rw [h1]; rfl, l ++ l', ?_, ?_⟩
      · intro y
        rw [List.mem_append, hm y, hm' y, List.flatMap_append, List.mem_append]
        simp only [List.flatMap_cons, List.flatMap_nil, List.append_nil]
      · rw [applyRows_append]; exact hinv')
    (s, 0) ⟨[], fun y => (by simp), h⟩
  exact ⟨s1, hfold, l, hm, hinv⟩

include hI hS hperm hl hlt hN in
/-- **one iteration** of the parallel physical engine on rules with aggregation items over relations that are not dynamic never
panics and is a pass of the nondeterministic engine -/
theorem iteration_simA (σ : Sched E B G P A) (k : Nat) (rules : List (Rule E B G P A))
    (hR : ∀ r ∈ rules, RuleFitA V p ix r)
    (hstr : ∀ r ∈ rules, ∀ ag, Item.agg ag ∈ r.body → dynR.contains ag.rel = false)
    (hbo : ∀ rule ∈ rules, ∀ r ∈ rule.bodyRels, dynR.contains r = false → bo.contains r = true ∧ r < p.rels.length)
    (a : SccSt) (s : PCScc) (hwf : WF p.rels.length dynR a) (hsim : Sim p ix a s.erase) (hm : SimM a s.erase)
    (hfl : Flags N bo false s) :
    ∃ s1, iteration I V p σ k dynR rules s = .ok s1 ∧
      ∃ a1, PassND I cfg p dynR rules a a1 ∧ WF p.rels.length dynR a1 ∧ Ext { a with changed := false } a1 ∧
        Sim p ix a1 s1.erase ∧ SimM a1 s1.erase ∧ Flags N bo false s1 := by
  have hwf0 : WF p.rels.length dynR { a with changed := false } := WF_reset _ dynR hwf
  have hsim0 : Sim p ix { a with changed := false }
      (PCScc.erase { s with dyn := s.dyn.map freezeDyn, changed := false }) := by
    rw [erase_freezeAll]; exact reset_sim hsim
  have hm0 : SimM { a with changed := false }
      (PCScc.erase { s with dyn := s.dyn.map freezeDyn, changed := false }) := by
    rw [erase_freezeAll]; exact reset_simM hm
  have hfl0 := Flags_freezeAll hfl
  have hV := sim_viewsOk cfg p hl ix hsim0 hwf0
  -- the views are frozen
  have hfz : ∀ r ∈ rules, ∀ vs, ∀ c ∈ clausesOf 0 r.body vs,
      viewFrozen { s with dyn := s.dyn.map freezeDyn, changed := false } c.2.1 c.2.2 = true := by
    intro r hr vs c hc
    apply viewFrozen_ok hfl0
    intro hnone
    have hcr := clausesOf_rel r.body 0 vs c hc
    have hnd : dynR.contains c.2.1 = false := by
      rw [← hwf0.dyn_iff]
      rcases hsim0.dyn.find c.2.1 with ⟨h1, _⟩ | ⟨d, pd, _, h2, _⟩
      · rw [h1]; rfl
      · have : findPDyn (PCScc.erase { s with dyn := s.dyn.map freezeDyn, changed := false }).dyn c.2.1 =
            (findPCDyn (s.dyn.map freezeDyn) c.2.1).map PCDyn.erase := findPDyn_erase _ _
        rw [h2] at this
        have hnone' : findPCDyn (s.dyn.map freezeDyn) c.2.1 = none := hnone
        rw [hnone'] at this
        cases this
    obtain ⟨hb, hlt'⟩ := hbo r hr c.2.1 hcr hnd
    refine ⟨hb, ?_⟩
    show c.2.1 < s.rels.length
    have h1 : a.rels.length = s.rels.length := by
      have := hsim.len
      simpa [PCScc.erase] using this
    rw [← h1, hwf.len]; exact hlt'
  -- the aggregation items read what the filter semantics reads
  have hag : ∀ r ∈ rules, AgOk I cfg p { a with changed := false }
      (PCScc.erase { s with dyn := s.dyn.map freezeDyn, changed := false }) (Hir.compileRule V r) 0 r.body := by
    intro r hr j ag hj ρ
    rw [Nat.zero_add]
    obtain ⟨g1, g2, g3⟩ := (hR r hr).agg j ag hj
    exact aggEnvs_of_sim I hperm cfg p hl ix hsim0 hm0 hwf0 _ j ag (hstr r hr ag (List.mem_of_getElem? hj)) g1 g2 g3 ρ
  -- the indices of the aggregated relations are frozen
  have hfa := fun r hr ag hag => iteration_aggFrozen p ix dynR N bo rules hbo a s hwf hsim hfl r hr ag hag (some .total)
  obtain ⟨tasks, htasks, htr, hrows⟩ := iterTasksPar_rowsA I hI cfg V hS p ix σ (k * 1000003) dynR _ _ hV rules hR hag hfz hfa
  have hpermT := σ.permTasks_perm k tasks
  obtain ⟨s1, hfold, l, hml, hinv⟩ := tasks_simParA I V p ix dynR hlt N hN bo { a with changed := false } σ k rules hR
    (σ.permTasks k tasks) (fun t ht => htr t (hpermT.mem_iff.mp ht)) _ _ ⟨hwf0, Ext.refl _, hsim0, hm0, hfl0⟩
  refine ⟨{ s1.1 with dyn := s1.1.dyn.map unfreezeDyn }, by rw [iteration_eq, htasks, bind_ok, hfold]; rfl,
    applyRows { a with changed := false } l, ⟨l, ?_, rfl⟩, hinv.wf, hinv.ext, by rw [erase_unfreezeAll]; exact hinv.sim,
    by rw [erase_unfreezeAll]; exact hinv.simM, Flags_unfreezeAll hinv.fl⟩
  intro x
  rw [hml x, ← hrows x]
  simp only [List.mem_flatMap]
  constructor
  · rintro ⟨t, ht, hx⟩; exact ⟨t, hpermT.mem_iff.mp ht, hx⟩
  · rintro ⟨t, ht, hx⟩; exact ⟨t, hpermT.mem_iff.mpr ht, hx⟩

/-! ## the loop of a looping SCC -/

include hI hS hperm hl hlt hN in
theorem sccLoop_simParA (σ : Sched E B G P A) (rules : List (Rule E B G P A)) (hR : ∀ r ∈ rules, RuleFitA V p ix r)
    (hstr : ∀ r ∈ rules, ∀ ag, Item.agg ag ∈ r.body → dynR.contains ag.rel = false)
    (hbo : ∀ rule ∈ rules, ∀ r ∈ rule.bodyRels, dynR.contains r = false → bo.contains r = true ∧ r < p.rels.length) :
    ∀ (fuel : Nat) (rs : RunSt) (a : SccSt),
      WF p.rels.length dynR a → NewEmpty a → Sim p ix a rs.st.erase → SimM a rs.st.erase → Flags N bo false rs.st →
      ∃ res, sccLoop I V p σ dynR rules fuel rs = .ok res ∧ ∀ rs', res = some rs' →
        ∃ a' k, LoopND I cfg p dynR rules a a' k ∧ Sim p ix a' rs'.st.erase ∧ SimM a' rs'.st.erase ∧
          WF p.rels.length dynR a' ∧ Settled a' ∧ Flags N bo false rs'.st := by
  intro fuel
  induction fuel with
  | zero =>
    intro rs a _ _ _ _ _
    exact ⟨none, rfl, fun rs' h => by cases h⟩
  | succ fuel ih =>
    intro rs a hwf hne hsim hm hfl
    obtain ⟨s1, hit, a1, hpass, hwf1, hext1, hsim1, hm1, hfl1⟩ := iteration_simA I hI cfg V hS hperm p hl ix dynR hlt N hN bo σ
      rs.clock rules hR hstr hbo a rs.st hwf hsim hm hfl
    obtain ⟨s2, hsh, hsim2, hfl2, _⟩ := shiftPar_sim hsim1 hfl1
    have hm2 := shiftPar_simM hsim1 hm1 hfl1 hsh
    have hch : a1.changed = s1.changed := hsim1.changed
    rw [sccLoop_succ, hit, bind_ok, hsh, bind_ok]
    cases hc : s1.changed with
    | false =>
      refine ⟨some { st := s2, clock := rs.clock + 1, iters := rs.iters + 1 }, rfl, ?_⟩
      intro rs' h
      simp only [Option.some.injEq] at h
      subst h
      have hch' : a1.changed = false := by rw [hch, hc]
      have heq := hext1.unchanged hch'
      have hne1 : NewEmpty a1 := by rw [heq]; exact hne
      exact ⟨_, 1, LoopND.exit hpass hch', hsim2, hm2, WF_shift hwf1, Settled_shift hne1, hfl2⟩
    | true =>
      obtain ⟨res, hres, hspec⟩ := ih { st := s2, clock := rs.clock + 1, iters := rs.iters + 1 } (Engine.shift a1)
        (WF_shift hwf1) (NewEmpty_shift a1) hsim2 hm2 hfl2
      refine ⟨res, hres, ?_⟩
      intro rs' h
      obtain ⟨a', k, hloop, hsim', hm', hwf', hset', hfl'⟩ := hspec rs' h
      exact ⟨a', k + 1, LoopND.more hpass (by rw [hch, hc]) hloop, hsim', hm', hwf', hset', hfl'⟩

end Pass

/-! ## one SCC, the SCCs in order -/

/-- the invariant between SCCs -/
structure SimStParM (p : Program E B G P A) (ix : IxSets) (N : Nat) (st : St) (pst : PCSt) : Prop where
  inv : StI p st
  sim : SimSt p ix st (pst.map PCRel.erase)
  simM : SimStM st (pst.map PCRel.erase)
  fl : StFlags N pst

section Run
variable (I : Interp E B G P A) (hI : Plan.Ext I) (cfg : Config) (V : Hir.VarsOf E B) (hS : Plan.Supp I V)
  (hperm : ∀ (fn : A) (l l' : List Tuple), l.Perm l' → I.agg fn l = I.agg fn l')
  (p : Program E B G P A) (hp : RelationalAgg p) (hb : BodyDeclared p) (ix : IxSets)
  (hR : ∀ r ∈ p.rules, RuleFitA V p ix r) (σ : Sched E B G P A) (threads : Nat)

include hI hS hperm hp hb hR in
theorem runScc_simParA (fuel : Nat) (scc : List Nat) (hstrat : aggOverDynamic p scc = false) (ps : ProgSt) (st : St)
    (hs : SimStParM p ix (max threads 1) st ps.st) :
    ∃ res, runScc I V p σ threads fuel scc ps = .ok res ∧ ∀ ps', res = some ps' →
      ∃ st', SccND I cfg p scc st st' ∧ SimStParM p ix (max threads 1) st' ps'.st := by
  obtain ⟨hl, hh⟩ := hp
  have hN : 0 < max threads 1 := by omega
  have hrules := sccRules_sub p scc
  have hRs : ∀ r ∈ sccRules p scc, RuleFitA V p ix r := fun r hr => hR r (hrules r hr)
  have hstr : ∀ r ∈ sccRules p scc, ∀ ag, Item.agg ag ∈ r.body → (dynRels p scc).contains ag.rel = false :=
    fun r hr ag ha => Agg.aggOverDynamic_false p scc hstrat r hr ag ha
  have hlt : ∀ r, (dynRels p scc).contains r = true → r < p.rels.length := by
    intro r hr
    obtain ⟨rule, hrule, h, hhd, rfl⟩ := (dynRels_mem p scc r).mp hr
    exact hh rule (hrules rule hrule) h hhd
  have hbo : ∀ rule ∈ sccRules p scc, ∀ r ∈ rule.bodyRels, (dynRels p scc).contains r = false →
      (bodyOnly p scc).contains r = true ∧ r < p.rels.length := by
    intro rule hrule r hr hnd
    refine ⟨?_, hb rule (hrules rule hrule) r hr⟩
    rw [List.contains_iff_mem]
    unfold bodyOnly
    rw [List.mem_filter]
    exact ⟨List.mem_flatMap.mpr ⟨rule, hrule, hr⟩, by rw [hnd]; rfl⟩
  have hwf0 := WF_enterA hs.inv (dynRels p scc)
  have hne0 := NewEmpty_enter st (dynRels p scc)
  have hsim0 : Sim p ix (Engine.enterScc st (dynRels p scc)) (enterScc threads p scc ps.st).erase := by
    rw [erase_enterScc]
    exact enter_sim hs.sim _ (fun r hr => by rw [hs.inv.len]; exact hlt r (List.contains_iff_mem.mpr hr))
  have hm0 : SimM (Engine.enterScc st (dynRels p scc)) (enterScc threads p scc ps.st).erase := by
    rw [erase_enterScc]
    exact enter_simM hs.simM _
  have hfl0 := Flags_enterScc threads p scc ps.st hs.fl
  have hdlt : ∀ a : SccSt, WF p.rels.length (dynRels p scc) a → ∀ d ∈ a.dyn, d.rel < a.rels.length := by
    intro a hwf d hd
    rw [hwf.len]; apply hlt
    rw [← hwf.dyn_iff, hwf.uniq d hd]; rfl
  have hleave : ∀ (a : SccSt) (s : PCScc), WF p.rels.length (dynRels p scc) a → Settled a → Sim p ix a s.erase →
      SimM a s.erase → Flags (max threads 1) (bodyOnly p scc) false s →
      SimStParM p ix (max threads 1) (Engine.leaveScc a) (leaveScc p scc s) := by
    intro a s hwf hset hsim hm hfl
    refine ⟨StI_leave hlt hwf hset, ?_, ?_, (Flags_leaveScc p scc s hfl).1⟩
    · rw [erase_leaveScc]
      exact leave_sim hsim (hdlt a hwf)
    · rw [erase_leaveScc]
      exact leave_simM hsim hm (hdlt a hwf)
  rw [runScc_eq]
  by_cases hlp : isLooping p scc = true
  · rw [if_pos hlp]
    obtain ⟨res, hres, hspec⟩ := sccLoop_simParA I hI cfg V hS hperm p hl ix (dynRels p scc) hlt (max threads 1) hN
      (bodyOnly p scc) σ (sccRules p scc) hRs hstr hbo fuel
      { st := enterScc threads p scc ps.st, clock := ps.clock, iters := 0 } _ hwf0 hne0 hsim0 hm0 hfl0
    rw [hres]
    refine ⟨_, rfl, ?_⟩
    intro ps' h
    simp only [Option.map_eq_some_iff] at h
    obtain ⟨rs, hrs, rfl⟩ := h
    obtain ⟨a', k, hnd, hsim', hm', hwf', hset', hfl'⟩ := hspec rs hrs
    refine ⟨Engine.leaveScc a', ?_, hleave a' rs.st hwf' hset' hsim' hm' hfl'⟩
    unfold SccND
    rw [if_pos hlp]
    exact ⟨a', k, hnd, rfl⟩
  · rw [if_neg hlp]
    obtain ⟨s1, hit, a1, hpass, hwf1, _, hsim1, hm1, hfl1⟩ := iteration_simA I hI cfg V hS hperm p hl ix (dynRels p scc) hlt
      (max threads 1) hN (bodyOnly p scc) σ ps.clock (sccRules p scc) hRs hstr hbo _ _ hwf0 hsim0 hm0 hfl0
    obtain ⟨s2, hsh2, hsim2, hfl2, _⟩ := shiftPar_sim hsim1 hfl1
    have hm2 := shiftPar_simM hsim1 hm1 hfl1 hsh2
    obtain ⟨s3, hsh3, hsim3, hfl3, _⟩ := shiftPar_sim hsim2 hfl2
    have hm3 := shiftPar_simM hsim2 hm2 hfl2 hsh3
    rw [hit, bind_ok, hsh2, bind_ok, hsh3, bind_ok]
    refine ⟨_, rfl, ?_⟩
    intro ps' h
    simp only [Option.some.injEq] at h
    subst h
    refine ⟨Engine.leaveScc (Engine.shift (Engine.shift a1)), ?_,
      hleave _ s3 (WF_shift (WF_shift hwf1)) (Settled_shift (NewEmpty_shift a1)) hsim3 hm3 hfl3⟩
    unfold SccND
    rw [if_neg hlp]
    exact ⟨a1, hpass, rfl⟩

include hI hS hperm hp hb hR in
theorem runSccs_simParA (fuel : Nat) : ∀ (order : SccOrder), Stratified p order → ∀ (ps : ProgSt) (st : St),
    SimStParM p ix (max threads 1) st ps.st →
    ∃ res, runSccs I V p σ threads fuel order ps = .ok res ∧ ∀ ps', res = some ps' →
      ∃ st', SccsND I cfg p order st st' ∧ SimStParM p ix (max threads 1) st' ps'.st := by
  intro order
  induction order with
  | nil =>
    intro _ ps st hs
    refine ⟨some ps, rfl, ?_⟩
    intro ps' h
    simp only [Option.some.injEq] at h
    subst h
    exact ⟨st, SccsND.nil, hs⟩
  | cons scc rest ih =>
    intro hst ps st hs
    obtain ⟨res, hres, hspec⟩ := runScc_simParA I hI cfg V hS hperm p hp hb ix hR σ threads fuel scc (hst scc (by simp)) ps st hs
    cases res with
    | none =>
      refine ⟨none, by simp only [runSccs, hres], fun ps' h => by cases h⟩
    | some ps1 =>
      obtain ⟨st1, hnd, hs1⟩ := hspec ps1 rfl
      obtain ⟨res2, hres2, hspec2⟩ := ih (fun s hs' => hst s (List.mem_cons_of_mem _ hs')) ps1 st1 hs1
      refine ⟨res2, by simp only [runSccs, hres]; exact hres2, ?_⟩
      intro ps' h
      obtain ⟨st2, hnd2, hs2⟩ := hspec2 ps' h
      exact ⟨st2, SccsND.cons hnd hnd2, hs2⟩

end Run

/-- **every schedule, every pool: a run of the parallel physical engine on a stratified program with aggregation never panics
and is an execution of the nondeterministic engine** (with the same row vectors; every stored index unfrozen at the end) -/
theorem runPar_is_RunND_agg (I : Interp E B G P A) (hI : Plan.Ext I) (V : Hir.VarsOf E B) (hS : Plan.Supp I V)
    (hperm : ∀ (fn : A) (l l' : List Tuple), l.Perm l' → I.agg fn l = I.agg fn l')
    (p : Program E B G P A) (ix : IxSets) (order : SccOrder) (σ : Sched E B G P A) (threads fuel : Nat) (s : PCSt)
    (hp : RelationalAgg p) (hst : Stratified p order) (hb : BodyDeclared p)
    (hplan : planOk V p ix = true) (hagg : aggPlanOk V p ix = true)
    (hd : ∀ r ∈ p.rules, Hir.Desugared V r = true ∧ Plan.WellScoped V r = true)
    (hlen : s.length = p.rels.length) (hty : ∀ r, ∀ t ∈ (pcrel s r).rows, t.length = arityOf p r) :
    ∃ res, run I V p ix order σ threads fuel s = .ok res ∧ ∀ out, res = some out →
      ∃ st', RunND I {} p order (absSt (s.map PCRel.erase)) st' ∧ SimSt p ix st' (out.st.map PCRel.erase) ∧
        StFlags (max threads 1) out.st := by
  have hR := ruleFitA_of_planOk V p ix hplan hagg hd
  obtain ⟨st0, hupd, _, hfl0, hsim0⟩ := updateIndices_simSt p threads σ ix s hty
  have hm0 := updateIndices_simStM threads σ ix s st0 hupd
  have hwfp : WFPSt p (s.map PCRel.erase) := by
    refine ⟨by rw [List.length_map]; exact hlen, ?_⟩
    intro r t ht
    rw [prel_erase] at ht
    exact hty r t ht
  obtain ⟨res, hres, hspec⟩ := runSccs_simParA I hI {} V hS hperm p hp hb ix hR σ threads fuel order hst
    { st := st0, clock := 0, iters := [] } _ ⟨StI_start p _ hwfp, hsim0, hm0, hfl0⟩
  refine ⟨res, ?_, ?_⟩
  · show (updateIndices threads σ ix s >>= fun s0 =>
      runSccs I V p σ threads fuel order { st := s0, clock := 0, iters := [] }) = _
    rw [hupd]; exact hres
  · intro out hout
    obtain ⟨st', hnd, hs'⟩ := hspec out hout
    exact ⟨st', hnd, hs'.sim, hs'.fl⟩

end AscentVerif.PhysPar
