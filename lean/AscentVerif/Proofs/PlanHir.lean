import AscentVerif.Proofs.PlanBasic
/-!
# Plan proofs, part 2: what `Hir.compileRule` computes

`compileRule` is a left fold with a large local step function.  It is restated (`compileRule_eq`, by `rfl`) with the
step as a named function `stepC`, whose effect is then split into
* the part that does not depend on the `simple` flag: grounded variables and `dg` (`gdStep`), the emitted item
  (`hitemOf`), the bound variables (`itemBound`);
* the `simple` flag, which only ever goes from `true` to `false`: if it is `true` at the end, no step cleared it,
  which yields the facts about the two clauses of a simple join (`JoinFacts`).
Also here: the decidable well-formedness predicates on rules the theorems of `Props/C01Plan.lean` assume.
-/
namespace AscentVerif.Hir
open AscentVerif AscentVerif.Engine
variable {E B G P A : Type}

/-! ## `compileRule` with named step functions -/

def scanStep (V : VarsOf E B) (fci : Option Nat) (dg : List Var) (i : Nat)
    (acc : List Var × List Nat × Bool × List Var) (ja : Nat × Arg E) : List Var × List Nat × Bool × List Var :=
  let (g, idx, smp, here) := acc
  match ja.2 with
  | Arg.var v =>
    if here.contains v then (g, idx, smp, here)
    else if g.contains v then (g, idx ++ [ja.1], if fci == some i then false else smp, if dg.contains v then here else here ++ [v])
    else (g ++ [v], idx, smp, here ++ [v])
  | Arg.expr e =>
    if (V.e e).any here.contains then (g, idx, smp, here)
    else (g, idx ++ [ja.1], if i < 2 + fci.getD 0 then false else smp, here)

def cl1CondVars (body : List (Item E B G P A)) (fci : Option Nat) : List Var :=
  match fci.bind (body[·]?) with
  | some (.clause _ _ c1) => c1.flatMap Cond.boundVars
  | _ => []

def usesCl1 (V : VarsOf E B) (body : List (Item E B G P A)) (fci : Option Nat) (args : List (Arg E)) : Bool :=
  args.any fun
    | .var v => (cl1CondVars body fci).contains v
    | .expr e => (V.e e).any (cl1CondVars body fci).contains

def noRepeat (dg : List Var) (args : List (Arg E)) : Bool :=
  let vars := (args.filterMap argVar?).filter fun v => dg.contains v
  vars.eraseDups.length == vars.length

def condsOkStep (V : VarsOf E B) (acc : Bool × List Var) (c : Cond E B P) : Bool × List Var :=
  if !acc.1 then acc
  else if (Cond.exprVars V c).all acc.2.contains then (true, acc.2 ++ Cond.boundVars c) else (false, acc.2)

def condsOkFold (V : VarsOf E B) (args : List (Arg E)) (conds : List (Cond E B P)) : Bool :=
  (conds.foldl (condsOkStep V) (true, (args.filterMap argVar?).eraseDups)).1

def s1Of (fci : Option Nat) (i : Nat) (conds : List (Cond E B P)) (simple : Bool) : Bool :=
  if fci == some i && conds.any Cond.isIfLet then false else simple

def s2Of (V : VarsOf E B) (body : List (Item E B G P A)) (fci : Option Nat) (i : Nat) (dg : List Var)
    (args : List (Arg E)) (conds : List (Cond E B P)) (s1 : Bool) : Bool :=
  if fci.map (· + 1) == some i && s1 then
    !usesCl1 V body fci args && noRepeat dg args && condsOkFold V args conds
  else s1

def stepC (V : VarsOf E B) (body : List (Item E B G P A)) (fci : Option Nat) (st : St) (ib : Nat × Item E B G P A) : St :=
    let (i, it) := ib
    match it with
    | .clause rel args conds =>
      let s2 := s2Of V body fci i st.dg args conds (s1Of fci i conds st.simple)
      let scan := ((List.range args.length).zip args).foldl (scanStep V fci st.dg i) (st.grounded, [], s2, [])
      let here := scan.2.2.2
      let scan := (scan.1, scan.2.1, scan.2.2.1)
      let g' := scan.1 ++ conds.flatMap Cond.boundVars
      { grounded := g', dg := st.dg ++ here, simple := scan.2.2, items := st.items ++ [.clause rel scan.2.1 false],
        bound := st.bound ++ [args.filterMap argVar? ++ conds.flatMap Cond.boundVars] }
    | .gen v _ => { st with grounded := st.grounded ++ [v], dg := st.dg ++ [v], items := st.items ++ [.gen v], bound := st.bound ++ [[v]] }
    | .cond c =>
      let hi := match c with | .ifc _ => HItem.ifc | .letc .. => HItem.letc | .ifLet .. => HItem.ifLet
      { st with grounded := st.grounded ++ Cond.boundVars c, dg := st.dg ++ Cond.boundVars c, items := st.items ++ [hi], bound := st.bound ++ [Cond.boundVars c] }
    | .agg a =>
      let idx := (List.range a.args.length).filter fun j =>
        match a.args[j]? with
        | some (.key _) => true
        | _ => false
      { st with grounded := st.grounded ++ a.outs, dg := st.dg ++ a.outs, items := st.items ++ [.agg a.rel idx], bound := st.bound ++ [a.outs] }

def finish (r : Rule E B G P A) (st : St) : HRule :=
  let body := r.body
  let fci := firstClauseInd body
  let isSimple := st.simple && body.length ≥ 2
  let sj := if isSimple then fci else none
  let items := match sj with
    | some i =>
      match body[i]?, body[i + 1]? with
      | some (.clause r1 args1 _), some (.clause _ args2 _) =>
        st.items.set i (.clause r1 (indicesGiven args1 (args2.filterMap argVar?)) false)
      | _, _ => st.items
    | none => st.items
  { heads := r.heads.map (·.rel), items := items, simpleJoinStart := sj, bound := st.bound }

def simple0 (body : List (Item E B G P A)) : Bool :=
  match firstClauseInd body with
    | some i => (body[i + 1]?.map isClause).getD false
    | none => false

theorem compileRule_eq (V : VarsOf E B) (r : Rule E B G P A) :
    compileRule V r = finish r (((List.range r.body.length).zip r.body).foldl (stepC V r.body (firstClauseInd r.body)) { simple := simple0 r.body }) := rfl

/-! ## the part of the step that does not depend on `simple` -/

/-- `scanStep` without the `simple` flag: (grounded, index columns, `here`) -/
def scanG (V : VarsOf E B) (dg : List Var) (acc : List Var × List Nat × List Var) (ja : Nat × Arg E) :
    List Var × List Nat × List Var :=
  match ja.2 with
  | Arg.var v =>
    if acc.2.2.contains v then acc
    else if acc.1.contains v then (acc.1, acc.2.1 ++ [ja.1], if dg.contains v then acc.2.2 else acc.2.2 ++ [v])
    else (acc.1 ++ [v], acc.2.1, acc.2.2 ++ [v])
  | Arg.expr e =>
    if (V.e e).any acc.2.2.contains then acc else (acc.1, acc.2.1 ++ [ja.1], acc.2.2)

def proj3 (acc : List Var × List Nat × Bool × List Var) : List Var × List Nat × List Var := (acc.1, acc.2.1, acc.2.2.2)

theorem scanStep_proj (V : VarsOf E B) (fci : Option Nat) (dg : List Var) (i : Nat)
    (acc : List Var × List Nat × Bool × List Var) (ja : Nat × Arg E) :
    proj3 (scanStep V fci dg i acc ja) = scanG V dg (proj3 acc) ja := by
  obtain ⟨g, idx, smp, here⟩ := acc
  obtain ⟨j, a⟩ := ja
  cases a with
  | var v =>
    unfold scanStep scanG proj3
    dsimp only
    by_cases h1 : here.contains v = true
    · rw [if_pos h1, if_pos h1]
    · rw [if_neg h1, if_neg h1]
      by_cases h2 : g.contains v = true
      · rw [if_pos h2, if_pos h2]
      · rw [if_neg h2, if_neg h2]
  | expr e =>
    unfold scanStep scanG proj3
    dsimp only
    by_cases h1 : (V.e e).any here.contains = true
    · rw [if_pos h1, if_pos h1]
    · rw [if_neg h1, if_neg h1]

theorem scan_proj (V : VarsOf E B) (fci : Option Nat) (dg : List Var) (i : Nat) :
    ∀ (jas : List (Nat × Arg E)) (acc : List Var × List Nat × Bool × List Var),
      proj3 (jas.foldl (scanStep V fci dg i) acc) = jas.foldl (scanG V dg) (proj3 acc)
  | [], _ => rfl
  | ja :: jas, acc => by
    simp only [List.foldl_cons]
    rw [scan_proj V fci dg i jas, scanStep_proj]

/-- the scan of one clause's arguments from the state `gd = (grounded, dg)` -/
def scanOf (V : VarsOf E B) (gd : List Var × List Var) (args : List (Arg E)) : List Var × List Nat × List Var :=
  ((List.range args.length).zip args).foldl (scanG V gd.2) (gd.1, [], [])

/-- `MirBodyItem::bound_vars` -/
def itemBound : Item E B G P A → List Var
  | .clause _ args conds => args.filterMap argVar? ++ conds.flatMap Cond.boundVars
  | .gen v _ => [v]
  | .cond c => Cond.boundVars c
  | .agg a => a.outs

def gdStep (V : VarsOf E B) (gd : List Var × List Var) : Item E B G P A → List Var × List Var
  | .clause _ args conds => ((scanOf V gd args).1 ++ conds.flatMap Cond.boundVars, gd.2 ++ (scanOf V gd args).2.2)
  | .gen v _ => (gd.1 ++ [v], gd.2 ++ [v])
  | .cond c => (gd.1 ++ Cond.boundVars c, gd.2 ++ Cond.boundVars c)
  | .agg a => (gd.1 ++ a.outs, gd.2 ++ a.outs)

def hitemOf (V : VarsOf E B) (gd : List Var × List Var) : Item E B G P A → HItem
  | .clause rel args _ => .clause rel (scanOf V gd args).2.1 false
  | .gen v _ => .gen v
  | .cond (.ifc _) => .ifc
  | .cond (.letc ..) => .letc
  | .cond (.ifLet ..) => .ifLet
  | .agg a => .agg a.rel ((List.range a.args.length).filter fun j =>
        match a.args[j]? with
        | some (.key _) => true
        | _ => false)

theorem stepC_fields (V : VarsOf E B) (body : List (Item E B G P A)) (fci : Option Nat) (st : St) (i : Nat)
    (it : Item E B G P A) :
    ((stepC V body fci st (i, it)).grounded, (stepC V body fci st (i, it)).dg) = gdStep V (st.grounded, st.dg) it ∧
    (stepC V body fci st (i, it)).items = st.items ++ [hitemOf V (st.grounded, st.dg) it] ∧
    (stepC V body fci st (i, it)).bound = st.bound ++ [itemBound it] := by
  cases it with
  | clause rel args conds =>
    simp only [stepC, gdStep, hitemOf, itemBound, scanOf]
    generalize s2Of V body fci i st.dg args conds (s1Of fci i conds st.simple) = s2
    have h := scan_proj V fci st.dg i ((List.range args.length).zip args) (st.grounded, [], s2, [])
    simp only [proj3] at h
    rw [← h]
    exact ⟨rfl, rfl, trivial⟩
  | gen v g => exact ⟨rfl, rfl, rfl⟩
  | cond c => cases c <;> exact ⟨rfl, rfl, rfl⟩
  | agg a => exact ⟨rfl, rfl, rfl⟩


def gdFold (V : VarsOf E B) (gd : List Var × List Var) (items : List (Item E B G P A)) : List Var × List Var :=
  items.foldl (gdStep V) gd

def hitems (V : VarsOf E B) : List Var × List Var → List (Item E B G P A) → List HItem
  | _, [] => []
  | gd, it :: rest => hitemOf V gd it :: hitems V (gdStep V gd it) rest

theorem fold_fields (V : VarsOf E B) (body : List (Item E B G P A)) (fci : Option Nat) :
    ∀ (ibs : List (Nat × Item E B G P A)) (st : St),
      ((ibs.foldl (stepC V body fci) st).grounded, (ibs.foldl (stepC V body fci) st).dg)
          = gdFold V (st.grounded, st.dg) (ibs.map (·.2)) ∧
      (ibs.foldl (stepC V body fci) st).items = st.items ++ hitems V (st.grounded, st.dg) (ibs.map (·.2)) ∧
      (ibs.foldl (stepC V body fci) st).bound = st.bound ++ (ibs.map (·.2)).map itemBound
  | [], st => by simp [gdFold, hitems]
  | (i, it) :: ibs, st => by
    obtain ⟨h1, h2, h3⟩ := stepC_fields V body fci st i it
    obtain ⟨k1, k2, k3⟩ := fold_fields V body fci ibs (stepC V body fci st (i, it))
    simp only [List.foldl_cons, List.map_cons, gdFold, hitems]
    rw [h1] at k1 k2
    refine ⟨k1, ?_, ?_⟩
    · rw [k2, h2]; simp
    · rw [k3, h3]; simp

theorem map_snd_zip_range {α : Type} (l : List α) : ((List.range l.length).zip l).map (·.2) = l := by
  apply List.map_snd_zip
  simp

/-! ## the `simple` flag only goes down -/

theorem scanStep_smp_mono (V : VarsOf E B) (fci : Option Nat) (dg : List Var) (i : Nat)
    (acc : List Var × List Nat × Bool × List Var) (ja : Nat × Arg E)
    (h : (scanStep V fci dg i acc ja).2.2.1 = true) : acc.2.2.1 = true := by
  obtain ⟨g, idx, smp, here⟩ := acc
  obtain ⟨j, a⟩ := ja
  cases smp with
  | true => rfl
  | false =>
    exfalso
    cases a with
    | var v =>
      unfold scanStep at h
      dsimp only at h
      by_cases h1 : here.contains v = true
      · rw [if_pos h1] at h; cases h
      · rw [if_neg h1] at h
        by_cases h2 : g.contains v = true
        · rw [if_pos h2] at h
          dsimp only at h
          by_cases h3 : (fci == some i) = true
          · rw [if_pos h3] at h; cases h
          · rw [if_neg h3] at h; cases h
        · rw [if_neg h2] at h; cases h
    | expr e =>
      unfold scanStep at h
      dsimp only at h
      by_cases h1 : (V.e e).any here.contains = true
      · rw [if_pos h1] at h; cases h
      · rw [if_neg h1] at h
        dsimp only at h
        by_cases h3 : i < 2 + fci.getD 0
        · rw [if_pos h3] at h; cases h
        · rw [if_neg h3] at h; cases h

theorem scan_smp_mono (V : VarsOf E B) (fci : Option Nat) (dg : List Var) (i : Nat) :
    ∀ (jas : List (Nat × Arg E)) (acc : List Var × List Nat × Bool × List Var),
      (jas.foldl (scanStep V fci dg i) acc).2.2.1 = true → acc.2.2.1 = true
  | [], _, h => h
  | ja :: jas, acc, h => by
    simp only [List.foldl_cons] at h
    exact scanStep_smp_mono V fci dg i acc ja (scan_smp_mono V fci dg i jas _ h)

theorem s2Of_true {V : VarsOf E B} {body : List (Item E B G P A)} {fci : Option Nat} {i : Nat} {dg : List Var}
    {args : List (Arg E)} {conds : List (Cond E B P)} {s1 : Bool} (h : s2Of V body fci i dg args conds s1 = true) :
    s1 = true ∧ (fci.map (· + 1) = some i →
      usesCl1 V body fci args = false ∧ noRepeat dg args = true ∧ condsOkFold V args conds = true) := by
  unfold s2Of at h
  by_cases hc : (fci.map (· + 1) == some i && s1) = true
  · rw [if_pos hc] at h
    simp only [Bool.and_eq_true, Bool.not_eq_true'] at h hc
    exact ⟨hc.2, fun _ => ⟨h.1.1, h.1.2, h.2⟩⟩
  · rw [if_neg hc] at h
    refine ⟨h, fun he => ?_⟩
    exfalso; apply hc
    simp [he, h]

theorem s1Of_true {fci : Option Nat} {i : Nat} {conds : List (Cond E B P)} {simple : Bool}
    (h : s1Of fci i conds simple = true) : simple = true ∧ (fci = some i → conds.any Cond.isIfLet = false) := by
  unfold s1Of at h
  by_cases hc : (fci == some i && conds.any Cond.isIfLet) = true
  · rw [if_pos hc] at h; cases h
  · rw [if_neg hc] at h
    refine ⟨h, fun he => ?_⟩
    cases hx : conds.any Cond.isIfLet with
    | false => rfl
    | true => exfalso; apply hc; simp [he, hx]

/-- the `simple` flag after a clause, spelled out -/
theorem stepC_clause_simple (V : VarsOf E B) (body : List (Item E B G P A)) (fci : Option Nat) (st : St) (i : Nat)
    (rel : RelId) (args : List (Arg E)) (conds : List (Cond E B P)) :
    (stepC V body fci st (i, .clause rel args conds)).simple =
      (((List.range args.length).zip args).foldl (scanStep V fci st.dg i)
        (st.grounded, [], s2Of V body fci i st.dg args conds (s1Of fci i conds st.simple), [])).2.2.1 := rfl

theorem stepC_simple_mono (V : VarsOf E B) (body : List (Item E B G P A)) (fci : Option Nat) (st : St)
    (ib : Nat × Item E B G P A) (h : (stepC V body fci st ib).simple = true) : st.simple = true := by
  obtain ⟨i, it⟩ := ib
  cases it with
  | clause rel args conds =>
    rw [stepC_clause_simple] at h
    exact (s1Of_true (s2Of_true (scan_smp_mono V fci st.dg i _ _ h)).1).1
  | gen v g => exact h
  | cond c => exact h
  | agg a => exact h

theorem fold_simple_mono (V : VarsOf E B) (body : List (Item E B G P A)) (fci : Option Nat) :
    ∀ (ibs : List (Nat × Item E B G P A)) (st : St), (ibs.foldl (stepC V body fci) st).simple = true → st.simple = true
  | [], _, h => h
  | ib :: ibs, st, h => by
    simp only [List.foldl_cons] at h
    exact stepC_simple_mono V body fci st ib (fold_simple_mono V body fci ibs _ h)


/-! ## rules in the image of `rule_desugar_repeated_vars`

`compile_rule_to_ir_rule` runs after `rule_desugar_repeated_vars`, which replaces every clause argument mentioning a
variable first grounded by an earlier argument of the SAME clause by a fresh variable plus an equality condition.
`Hir.compileRule` accepts rules in which that has not been done and mimics the effect on the plan (the `here` list).
The engine model `evalBody` evaluates such an argument as a filter in the environment before the clause, which is the
same thing for a repeated variable but not for an expression; the theorems about the plan are stated for rules on which
the pass has nothing left to do: `argsOk` says that the `here` branches of the scan are never taken. -/

def hereStep (dg here : List Var) (v : Var) : List Var := if dg.contains v then here else here ++ [v]

/-- no argument mentions a variable that an earlier argument of the same clause was the first to ground
(`dg`: the variables `rule_desugar_repeated_vars` has seen before the clause) -/
def argsOk (V : VarsOf E B) (dg : List Var) : List (Arg E) → List Var → Bool
  | [], _ => true
  | .var v :: as, here => !here.contains v && argsOk V dg as (hereStep dg here v)
  | .expr e :: as, here => !(V.e e).any here.contains && argsOk V dg as here

/-- the body is a fixed point of `rule_desugar_repeated_vars` -/
def itemOk (V : VarsOf E B) (gd : List Var × List Var) : Item E B G P A → Bool
  | .clause _ args _ => argsOk V gd.2 args []
  | _ => true

def desugFrom (V : VarsOf E B) : List Var × List Var → List (Item E B G P A) → Bool
  | _, [] => true
  | gd, it :: rest => itemOk V gd it && desugFrom V (gdStep V gd it) rest

def Desugared (V : VarsOf E B) (r : Rule E B G P A) : Bool := desugFrom V ([], []) r.body

/-- is the argument an index column when `g` is grounded -/
def isIdx (g : List Var) : Arg E → Bool
  | .var v => g.contains v
  | .expr _ => true

theorem scanG_fold (V : VarsOf E B) (dg g₀ : List Var) (hdg : ∀ v ∈ dg, v ∈ g₀) :
    ∀ (jas : List (Nat × Arg E)) (g : List Var) (idx : List Nat) (here : List Var),
      (∀ v ∈ g₀, v ∈ g) → (∀ v ∈ g, v ∈ g₀ ∨ v ∈ here) → (∀ v ∈ here, v ∈ g) →
      argsOk V dg (jas.map (·.2)) here = true →
      (jas.foldl (scanG V dg) (g, idx, here)).2.1 = idx ++ (jas.filter fun ja => isIdx g₀ ja.2).map (·.1) ∧
      (∀ v, v ∈ (jas.foldl (scanG V dg) (g, idx, here)).1 ↔ v ∈ g ∨ v ∈ (jas.map (·.2)).filterMap argVar?) ∧
      (∀ v ∈ (jas.foldl (scanG V dg) (g, idx, here)).2.2, v ∈ (jas.foldl (scanG V dg) (g, idx, here)).1)
  | [], g, idx, here, _, _, h3, _ => by simp; exact h3
  | (j, .var v) :: jas, g, idx, here, h1, h2, h3, hok => by
    simp only [List.map_cons, argsOk, Bool.and_eq_true, Bool.not_eq_true'] at hok
    have hh : ¬ here.contains v = true := by rw [hok.1]; exact Bool.false_ne_true
    simp only [List.foldl_cons]
    by_cases hg : g.contains v = true
    · have hv0 : v ∈ g₀ := by
        rcases h2 v (List.contains_iff_mem.1 hg) with h | h
        · exact h
        · exact absurd (List.contains_iff_mem.2 h) hh
      have hstep : scanG V dg (g, idx, here) (j, .var v) = (g, idx ++ [j], hereStep dg here v) := by
        unfold scanG; dsimp only
        rw [if_neg hh, if_pos hg]; rfl
      rw [hstep]
      have h3' : ∀ w ∈ hereStep dg here v, w ∈ g := by
        intro w hw
        unfold hereStep at hw
        split at hw
        · exact h3 w hw
        · rcases List.mem_append.1 hw with h | h
          · exact h3 w h
          · simp only [List.mem_singleton] at h; subst h; exact List.contains_iff_mem.1 hg
      have h2' : ∀ w ∈ g, w ∈ g₀ ∨ w ∈ hereStep dg here v := by
        intro w hw
        rcases h2 w hw with h | h
        · exact .inl h
        · right; unfold hereStep; split
          · exact h
          · exact List.mem_append_left _ h
      obtain ⟨k1, k2, k3⟩ := scanG_fold V dg g₀ hdg jas g (idx ++ [j]) (hereStep dg here v) h1 h2' h3' hok.2
      refine ⟨?_, ?_, k3⟩
      · rw [k1]
        have : isIdx (E := E) g₀ (.var v) = true := List.contains_iff_mem.2 hv0
        simp [this]
      · intro w; rw [k2 w]
        simp only [List.map_cons, List.filterMap_cons, argVar?, List.mem_cons]
        constructor
        · rintro (h | h)
          · exact .inl h
          · exact .inr (.inr h)
        · rintro (h | h | h)
          · exact .inl h
          · subst h; exact .inl (List.contains_iff_mem.1 hg)
          · exact .inr h
    · have hv0 : v ∉ g₀ := fun h => hg (List.contains_iff_mem.2 (h1 v h))
      have hvdg : dg.contains v = false := by
        cases hc : dg.contains v with
        | false => rfl
        | true => exact absurd (hdg v (List.contains_iff_mem.1 hc)) hv0
      have hstep : scanG V dg (g, idx, here) (j, .var v) = (g ++ [v], idx, hereStep dg here v) := by
        unfold scanG hereStep; dsimp only
        rw [if_neg hh, if_neg hg, hvdg]; rfl
      rw [hstep]
      have hhs : hereStep dg here v = here ++ [v] := by unfold hereStep; rw [hvdg]; rfl
      have h1' : ∀ w ∈ g₀, w ∈ g ++ [v] := fun w hw => List.mem_append_left _ (h1 w hw)
      have h2' : ∀ w ∈ g ++ [v], w ∈ g₀ ∨ w ∈ hereStep dg here v := by
        intro w hw
        rw [hhs]
        rcases List.mem_append.1 hw with h | h
        · rcases h2 w h with h' | h'
          · exact .inl h'
          · exact .inr (List.mem_append_left _ h')
        · exact .inr (List.mem_append_right _ h)
      have h3' : ∀ w ∈ hereStep dg here v, w ∈ g ++ [v] := by
        intro w hw
        rw [hhs] at hw
        rcases List.mem_append.1 hw with h | h
        · exact List.mem_append_left _ (h3 w h)
        · exact List.mem_append_right _ h
      obtain ⟨k1, k2, k3⟩ := scanG_fold V dg g₀ hdg jas (g ++ [v]) idx (hereStep dg here v) h1' h2' h3' hok.2
      refine ⟨?_, ?_, k3⟩
      · rw [k1]
        have : isIdx (E := E) g₀ (.var v) = false := by
          simp only [isIdx]
          cases hc : g₀.contains v with
          | false => rfl
          | true => exact absurd (List.contains_iff_mem.1 hc) hv0
        simp [this]
      · intro w; rw [k2 w]
        simp only [List.map_cons, List.filterMap_cons, argVar?, List.mem_cons, List.mem_append,
          List.not_mem_nil, or_false, or_assoc]
  | (j, .expr e) :: jas, g, idx, here, h1, h2, h3, hok => by
    simp only [List.map_cons, argsOk, Bool.and_eq_true, Bool.not_eq_true'] at hok
    have hh : ¬ (V.e e).any here.contains = true := by rw [hok.1]; exact Bool.false_ne_true
    simp only [List.foldl_cons]
    have hstep : scanG V dg (g, idx, here) (j, .expr e) = (g, idx ++ [j], here) := by
      unfold scanG; dsimp only
      rw [if_neg hh]
    rw [hstep]
    obtain ⟨k1, k2, k3⟩ := scanG_fold V dg g₀ hdg jas g (idx ++ [j]) here h1 h2 h3 hok.2
    refine ⟨?_, ?_, k3⟩
    · rw [k1]; simp [isIdx]
    · intro w; rw [k2 w]; simp only [List.map_cons, List.filterMap_cons, argVar?]

theorem mem_zip_range {α : Type} (l : List α) (j : Nat) (a : α) :
    (j, a) ∈ (List.range l.length).zip l ↔ l[j]? = some a := by
  rw [List.mem_iff_getElem?]
  constructor
  · rintro ⟨i, hi⟩
    rw [List.getElem?_zip_eq_some] at hi
    obtain ⟨h1, h2⟩ := hi
    simp only at h1 h2
    have hlt : i < l.length := by
      have := (List.getElem?_eq_some_iff.1 h1).1
      simpa using this
    rw [List.getElem?_range hlt] at h1
    cases h1; exact h2
  · intro h
    have hlt : j < l.length := (List.getElem?_eq_some_iff.1 h).1
    exact ⟨j, List.getElem?_zip_eq_some.2 ⟨List.getElem?_range hlt, h⟩⟩

/-- the grounded list contains `dg` -/
def GdOk (gd : List Var × List Var) : Prop := ∀ v ∈ gd.2, v ∈ gd.1

/-- the index columns of a clause: the expression arguments and the variables that are already grounded -/
theorem scanOf_spec (V : VarsOf E B) (gd : List Var × List Var) (hgd : GdOk gd) (args : List (Arg E))
    (hok : argsOk V gd.2 args [] = true) :
    (∀ j, j ∈ (scanOf V gd args).2.1 ↔ ∃ a, args[j]? = some a ∧ isIdx gd.1 a = true) ∧
    (∀ v, v ∈ (scanOf V gd args).1 ↔ v ∈ gd.1 ∨ v ∈ args.filterMap argVar?) ∧
    (∀ v ∈ (scanOf V gd args).2.2, v ∈ (scanOf V gd args).1) := by
  have hm := map_snd_zip_range args
  obtain ⟨k1, k2, k3⟩ := scanG_fold V gd.2 gd.1 hgd ((List.range args.length).zip args) gd.1 [] []
    (fun _ h => h) (fun _ h => .inl h) (fun _ h => by cases h) (by rw [hm]; exact hok)
  refine ⟨?_, ?_, k3⟩
  · intro j
    unfold scanOf
    rw [k1]
    simp only [List.nil_append, List.mem_map, List.mem_filter]
    constructor
    · rintro ⟨⟨j', a⟩, ⟨hm', hi⟩, rfl⟩
      exact ⟨a, (mem_zip_range args j' a).1 hm', hi⟩
    · rintro ⟨a, ha, hi⟩
      exact ⟨(j, a), ⟨(mem_zip_range args j a).2 ha, hi⟩, rfl⟩
  · intro v
    unfold scanOf
    rw [k2 v, hm]


theorem gdStep_spec (V : VarsOf E B) (gd : List Var × List Var) (hgd : GdOk gd) (it : Item E B G P A)
    (hok : itemOk V gd it = true) :
    GdOk (gdStep V gd it) ∧ ∀ v, v ∈ (gdStep V gd it).1 ↔ v ∈ gd.1 ∨ v ∈ itemBound it := by
  cases it with
  | clause r args conds =>
    obtain ⟨_, k2, k3⟩ := scanOf_spec V gd hgd args hok
    constructor
    · intro v hv
      simp only [gdStep, List.mem_append] at hv ⊢
      rcases hv with h | h
      · exact .inl ((k2 v).2 (.inl (hgd v h)))
      · exact .inl (k3 v h)
    · intro v
      simp only [gdStep, itemBound, List.mem_append, k2 v, or_assoc]
  | gen w g =>
    constructor
    · intro v hv
      simp only [gdStep, List.mem_append] at hv ⊢
      rcases hv with h | h
      · exact .inl (hgd v h)
      · exact .inr h
    · intro v; simp [gdStep, itemBound]
  | cond c =>
    constructor
    · intro v hv
      simp only [gdStep, List.mem_append] at hv ⊢
      rcases hv with h | h
      · exact .inl (hgd v h)
      · exact .inr h
    · intro v; simp [gdStep, itemBound]
  | agg a =>
    constructor
    · intro v hv
      simp only [gdStep, List.mem_append] at hv ⊢
      rcases hv with h | h
      · exact .inl (hgd v h)
      · exact .inr h
    · intro v; simp [gdStep, itemBound]

theorem gdOk_nil : GdOk (([], []) : List Var × List Var) := fun _ h => by cases h

/-- along a desugared body the invariant `dg ⊆ grounded` is kept, the rest of the body stays desugared, and the
grounded list is the grounded list before plus the bound variables of the items, as a set -/
theorem gdFold_spec (V : VarsOf E B) :
    ∀ (pre : List (Item E B G P A)) (gd : List Var × List Var) (rest : List (Item E B G P A)),
      GdOk gd → desugFrom V gd (pre ++ rest) = true →
      GdOk (gdFold V gd pre) ∧ desugFrom V (gdFold V gd pre) rest = true ∧
      ∀ v, v ∈ (gdFold V gd pre).1 ↔ v ∈ gd.1 ∨ v ∈ pre.flatMap itemBound
  | [], gd, rest, hgd, hd => ⟨hgd, hd, fun v => by simp [gdFold]⟩
  | it :: pre, gd, rest, hgd, hd => by
    simp only [List.cons_append, desugFrom, Bool.and_eq_true] at hd
    obtain ⟨h1, h2⟩ := gdStep_spec V gd hgd it hd.1
    obtain ⟨k1, k2, k3⟩ := gdFold_spec V pre (gdStep V gd it) rest h1 hd.2
    refine ⟨k1, k2, fun v => ?_⟩
    have : gdFold V gd (it :: pre) = gdFold V (gdStep V gd it) pre := rfl
    rw [this, k3 v, h2 v]
    simp only [List.flatMap_cons, List.mem_append, or_assoc]

/-! ## what a surviving `simple` flag says about the two clauses -/

theorem scan_simple (V : VarsOf E B) (fci : Option Nat) (dg : List Var) (i : Nat) (hlt : i < 2 + fci.getD 0) :
    ∀ (jas : List (Nat × Arg E)) (g : List Var) (idx : List Nat) (smp : Bool) (here : List Var),
      (∀ v ∈ dg, v ∈ g) → argsOk V dg (jas.map (·.2)) here = true →
      (jas.foldl (scanStep V fci dg i) (g, idx, smp, here)).2.2.1 = true →
      ∀ ja ∈ jas, ∃ v, ja.2 = .var v ∧ (fci = some i → v ∉ g)
  | [], _, _, _, _, _, _, _ => fun _ h => by cases h
  | (j, .var v) :: jas, g, idx, smp, here, hdg, hok, hs => by
    simp only [List.map_cons, argsOk, Bool.and_eq_true, Bool.not_eq_true'] at hok
    have hh : ¬ here.contains v = true := by rw [hok.1]; exact Bool.false_ne_true
    simp only [List.foldl_cons] at hs
    by_cases hg : g.contains v = true
    · have hstep : scanStep V fci dg i (g, idx, smp, here) (j, .var v)
          = (g, idx ++ [j], (if fci == some i then false else smp), hereStep dg here v) := by
        unfold scanStep; dsimp only
        rw [if_neg hh, if_pos hg]; rfl
      rw [hstep] at hs
      have hsm := scan_smp_mono V fci dg i jas _ hs
      dsimp only at hsm
      have hne : fci ≠ some i := by
        intro he
        rw [he] at hsm
        simp at hsm
      have ih := scan_simple V fci dg i hlt jas g (idx ++ [j]) _ (hereStep dg here v) hdg hok.2 hs
      intro ja hja
      rcases List.mem_cons.1 hja with he | hm
      · subst he; exact ⟨v, rfl, fun h => absurd h hne⟩
      · exact ih ja hm
    · have hvdg : dg.contains v = false := by
        cases hc : dg.contains v with
        | false => rfl
        | true => exact absurd (List.contains_iff_mem.2 (hdg v (List.contains_iff_mem.1 hc))) hg
      have hstep : scanStep V fci dg i (g, idx, smp, here) (j, .var v)
          = (g ++ [v], idx, smp, hereStep dg here v) := by
        unfold scanStep hereStep; dsimp only
        rw [if_neg hh, if_neg hg, hvdg]; rfl
      rw [hstep] at hs
      have ih := scan_simple V fci dg i hlt jas (g ++ [v]) idx smp (hereStep dg here v)
        (fun w hw => List.mem_append_left _ (hdg w hw)) hok.2 hs
      intro ja hja
      rcases List.mem_cons.1 hja with he | hm
      · subst he
        exact ⟨v, rfl, fun _ h => hg (List.contains_iff_mem.2 h)⟩
      · obtain ⟨w, hw1, hw2⟩ := ih ja hm
        exact ⟨w, hw1, fun h hw => hw2 h (List.mem_append_left _ hw)⟩
  | (j, .expr e) :: jas, g, idx, smp, here, hdg, hok, hs => by
    exfalso
    simp only [List.map_cons, argsOk, Bool.and_eq_true, Bool.not_eq_true'] at hok
    have hh : ¬ (V.e e).any here.contains = true := by rw [hok.1]; exact Bool.false_ne_true
    simp only [List.foldl_cons] at hs
    have hstep : scanStep V fci dg i (g, idx, smp, here) (j, .expr e) = (g, idx ++ [j], false, here) := by
      unfold scanStep; dsimp only
      rw [if_neg hh, if_pos hlt]
    rw [hstep] at hs
    have := scan_smp_mono V fci dg i jas _ hs
    cases this

/-- `condsOk` of `compile_rule_to_ir_rule`: every condition of the second clause only mentions variables of the clause
itself and variables bound by its earlier conditions -/
def condsIn (V : VarsOf E B) : List Var → List (Cond E B P) → Bool
  | _, [] => true
  | acc, c :: cs => (Cond.exprVars V c).all acc.contains && condsIn V (acc ++ Cond.boundVars c) cs

theorem condsOk_false (V : VarsOf E B) : ∀ (conds : List (Cond E B P)) (acc : List Var),
    (conds.foldl (condsOkStep V) (false, acc)).1 = false
  | [], _ => rfl
  | c :: cs, acc => by
    simp only [List.foldl_cons]
    have : condsOkStep V (false, acc) c = (false, acc) := by simp [condsOkStep]
    rw [this]; exact condsOk_false V cs acc

theorem condsOk_eq (V : VarsOf E B) : ∀ (conds : List (Cond E B P)) (acc : List Var),
    (conds.foldl (condsOkStep V) (true, acc)).1 = condsIn V acc conds
  | [], _ => rfl
  | c :: cs, acc => by
    simp only [List.foldl_cons, condsIn]
    by_cases h : (Cond.exprVars V c).all acc.contains = true
    · have : condsOkStep V (true, acc) c = (true, acc ++ Cond.boundVars c) := by simp [condsOkStep, h]
      rw [this, condsOk_eq V cs, h]; rfl
    · have : condsOkStep V (true, acc) c = (false, acc) := by simp [condsOkStep, h]
      rw [this, condsOk_false]
      have h' : (Cond.exprVars V c).all acc.contains = false := by
        cases hc : (Cond.exprVars V c).all acc.contains with
        | false => rfl
        | true => exact absurd hc h
      rw [h']; rfl

theorem condsIn_congr (V : VarsOf E B) : ∀ (conds : List (Cond E B P)) (acc acc' : List Var),
    (∀ v, v ∈ acc ↔ v ∈ acc') → condsIn V acc conds = condsIn V acc' conds
  | [], _, _, _ => rfl
  | c :: cs, acc, acc', h => by
    simp only [condsIn]
    have h1 : (Cond.exprVars V c).all acc.contains = (Cond.exprVars V c).all acc'.contains := by
      apply List.all_congr rfl
      intro v
      rw [List.contains_eq_mem, List.contains_eq_mem]
      simp [h v]
    rw [h1, condsIn_congr V cs (acc ++ Cond.boundVars c) (acc' ++ Cond.boundVars c)]
    intro v; simp [h v]

theorem eraseDups_length_le {κ : Type} [BEq κ] [LawfulBEq κ] : ∀ (n : Nat) (l : List κ), l.length ≤ n →
    l.eraseDups.length ≤ l.length := by
  intro n
  induction n with
  | zero =>
    intro l h
    have : l = [] := List.eq_nil_of_length_eq_zero (Nat.le_zero.1 h)
    subst this; simp
  | succ n ih =>
    intro l h
    cases l with
    | nil => simp
    | cons a l =>
      rw [List.eraseDups_cons]
      have h1 := List.length_filter_le (fun b => !(b == a)) l
      simp only [List.length_cons] at h ⊢
      have := ih (l.filter fun b => !(b == a)) (Nat.le_trans h1 (Nat.le_of_succ_le_succ h))
      omega

theorem nodup_of_eraseDups_length {κ : Type} [BEq κ] [LawfulBEq κ] : ∀ (n : Nat) (l : List κ), l.length ≤ n →
    l.eraseDups.length = l.length → l.Nodup := by
  intro n
  induction n with
  | zero =>
    intro l h _
    have : l = [] := List.eq_nil_of_length_eq_zero (Nat.le_zero.1 h)
    subst this; simp
  | succ n ih =>
    intro l h he
    cases l with
    | nil => simp
    | cons a l =>
      rw [List.eraseDups_cons] at he
      have h1 := List.length_filter_le (fun b => !(b == a)) l
      simp only [List.length_cons] at h he
      have h2 := eraseDups_length_le _ (l.filter fun b => !(b == a)) (Nat.le_refl _)
      have h3 : (l.filter fun b => !(b == a)).length = l.length := by omega
      have h4 : l.filter (fun b => !(b == a)) = l := by
        rw [List.filter_eq_self]; exact List.length_filter_eq_length_iff.1 h3
      rw [h4] at he
      rw [List.nodup_cons]
      refine ⟨?_, ih l (Nat.le_of_succ_le_succ h) (by omega)⟩
      intro hm
      have := (List.filter_eq_self.1 h4) a hm
      simp at this


/-! ## the fold over `(range n).zip body`, split at a position -/

def zipFrom {α : Type} (s : Nat) (l : List α) : List (Nat × α) := (List.range' s l.length).zip l

theorem zipFrom_cons {α : Type} (s : Nat) (a : α) (l : List α) : zipFrom s (a :: l) = (s, a) :: zipFrom (s + 1) l := by
  simp [zipFrom, List.range'_succ]

theorem zipFrom_append {α : Type} : ∀ (l₁ l₂ : List α) (s : Nat),
    zipFrom s (l₁ ++ l₂) = zipFrom s l₁ ++ zipFrom (s + l₁.length) l₂
  | [], l₂, s => by simp [zipFrom]
  | a :: l₁, l₂, s => by
    rw [List.cons_append, zipFrom_cons, zipFrom_cons, zipFrom_append l₁ l₂ (s + 1)]
    simp only [List.cons_append, List.length_cons]
    congr 3; omega

theorem map_snd_zipFrom {α : Type} (s : Nat) (l : List α) : (zipFrom s l).map (·.2) = l := by
  apply List.map_snd_zip; simp

theorem zip_range_eq {α : Type} (l : List α) : (List.range l.length).zip l = zipFrom 0 l := by
  simp [zipFrom, List.range_eq_range']

theorem hitems_length (V : VarsOf E B) : ∀ (items : List (Item E B G P A)) (gd : List Var × List Var),
    (hitems V gd items).length = items.length
  | [], _ => rfl
  | it :: rest, gd => by simp [hitems, hitems_length V rest]

theorem hitems_append (V : VarsOf E B) : ∀ (l₁ l₂ : List (Item E B G P A)) (gd : List Var × List Var),
    hitems V gd (l₁ ++ l₂) = hitems V gd l₁ ++ hitems V (gdFold V gd l₁) l₂
  | [], _, _ => rfl
  | it :: l₁, l₂, gd => by
    simp only [List.cons_append, hitems]
    rw [hitems_append V l₁ l₂]; rfl

theorem finish_sj (r : Rule E B G P A) (st : St) :
    (finish r st).simpleJoinStart =
      if (st.simple && decide (r.body.length ≥ 2)) = true then firstClauseInd r.body else none := rfl

theorem finish_bound (r : Rule E B G P A) (st : St) : (finish r st).bound = st.bound := rfl

theorem compile_bound (V : VarsOf E B) (r : Rule E B G P A) :
    (compileRule V r).bound = r.body.map itemBound := by
  rw [compileRule_eq, finish_bound]
  have := (fold_fields V r.body (firstClauseInd r.body) ((List.range r.body.length).zip r.body) { simple := simple0 r.body }).2.2
  rw [this, map_snd_zip_range]; rfl

theorem compile_nojoin (V : VarsOf E B) (r : Rule E B G P A) (h : (compileRule V r).simpleJoinStart = none) :
    (compileRule V r).items = hitems V ([], []) r.body := by
  rw [compileRule_eq] at h ⊢
  generalize hst : ((List.range r.body.length).zip r.body).foldl (stepC V r.body (firstClauseInd r.body)) { simple := simple0 r.body } = st at h ⊢
  have hf := (fold_fields V r.body (firstClauseInd r.body) ((List.range r.body.length).zip r.body) { simple := simple0 r.body }).2.1
  rw [hst, map_snd_zip_range] at hf
  have : (finish r st).items = st.items := by
    have h' := h
    rw [finish_sj] at h'
    unfold finish
    dsimp only
    by_cases hc : (st.simple && decide (r.body.length ≥ 2)) = true
    · rw [if_pos hc] at h' ⊢; rw [h']
    · rw [if_neg hc]
  rw [this, hf]; rfl

theorem decomp_two {α : Type} (l : List α) (k : Nat) (x y : α) (h1 : l[k]? = some x) (h2 : l[k + 1]? = some y) :
    l = l.take k ++ x :: y :: l.drop (k + 2) ∧ (l.take k).length = k := by
  have hk : k < l.length := (List.getElem?_eq_some_iff.1 h1).1
  have hk1 : k + 1 < l.length := (List.getElem?_eq_some_iff.1 h2).1
  constructor
  · have e1 : l.drop k = l[k] :: l.drop (k + 1) := List.drop_eq_getElem_cons hk
    have e2 : l.drop (k + 1) = l[k + 1] :: l.drop (k + 1 + 1) := List.drop_eq_getElem_cons hk1
    have hx : l[k] = x := by
      have := List.getElem?_eq_getElem hk; rw [h1] at this; exact (Option.some.inj this).symm
    have hy : l[k + 1] = y := by
      have := List.getElem?_eq_getElem hk1; rw [h2] at this; exact (Option.some.inj this).symm
    conv => lhs; rw [← List.take_append_drop k l, e1, e2, hx, hy]
  · rw [List.length_take]; omega

/-- everything the plan proofs need to know about a rule compiled with a simple join -/
structure JoinFacts (V : VarsOf E B) (r : Rule E B G P A) (pre : List (Item E B G P A))
    (r1 : RelId) (a1 : List (Arg E)) (c1 : List (Cond E B P)) (r2 : RelId) (a2 : List (Arg E)) (c2 : List (Cond E B P))
    (rest : List (Item E B G P A)) : Prop where
  body : r.body = pre ++ .clause r1 a1 c1 :: .clause r2 a2 c2 :: rest
  noClause : ∀ it ∈ pre, isClause it = false
  args1 : ∀ a ∈ a1, ∃ v, a = Arg.var v ∧ v ∉ (gdFold V ([], []) pre).1
  noIfLet : c1.any Cond.isIfLet = false
  args2 : ∀ a ∈ a2, ∃ v, a = Arg.var v ∧ v ∉ c1.flatMap Cond.boundVars
  noRep : ((a2.filterMap argVar?).filter (gdStep V (gdFold V ([], []) pre) (.clause r1 a1 c1 : Item E B G P A)).2.contains).Nodup
  conds2 : condsIn V (a2.filterMap argVar?) c2 = true
  items : (compileRule V r).items = hitems V ([], []) pre ++
    HItem.clause r1 (indicesGiven a1 (a2.filterMap argVar?)) false ::
      hitemOf V (gdStep V (gdFold V ([], []) pre) (.clause r1 a1 c1 : Item E B G P A)) (.clause r2 a2 c2 : Item E B G P A) ::
        hitems V (gdFold V ([], []) (pre ++ [.clause r1 a1 c1, .clause r2 a2 c2])) rest


theorem finish_items_join (r : Rule E B G P A) (st : St) (k : Nat)
    (hc : (st.simple && decide (r.body.length ≥ 2)) = true) (hf : firstClauseInd r.body = some k)
    (r1 : RelId) (a1 : List (Arg E)) (c1 : List (Cond E B P)) (r2 : RelId) (a2 : List (Arg E)) (c2 : List (Cond E B P))
    (h1 : r.body[k]? = some (.clause r1 a1 c1)) (h2 : r.body[k + 1]? = some (.clause r2 a2 c2)) :
    (finish r st).items = st.items.set k (.clause r1 (indicesGiven a1 (a2.filterMap argVar?)) false) := by
  unfold finish
  dsimp only
  rw [if_pos hc, hf]
  dsimp only
  rw [h1, h2]

theorem compile_join (V : VarsOf E B) (r : Rule E B G P A) (k : Nat) (hd : Desugared V r = true)
    (hs : (compileRule V r).simpleJoinStart = some k) :
    ∃ pre r1 a1 c1 r2 a2 c2 rest, pre.length = k ∧ JoinFacts V r pre r1 a1 c1 r2 a2 c2 rest := by
  have hitemsEq : (compileRule V r).items = (compileRule V r).items := rfl
  rw [compileRule_eq] at hs
  conv at hitemsEq => rhs; rw [compileRule_eq]
  rw [finish_sj] at hs
  generalize hst : ((List.range r.body.length).zip r.body).foldl (stepC V r.body (firstClauseInd r.body))
    { simple := simple0 r.body } = st at hs hitemsEq
  by_cases hc : (st.simple && decide (r.body.length ≥ 2)) = true
  case neg => rw [if_neg hc] at hs; cases hs
  rw [if_pos hc] at hs
  have hsimple : st.simple = true := by
    simp only [Bool.and_eq_true] at hc; exact hc.1
  -- the first clause
  have hfi := hs
  unfold firstClauseInd at hfi
  obtain ⟨hk, hp, hnp⟩ := List.findIdx?_eq_some_iff_getElem.1 hfi
  have hbk : ∃ r1 a1 c1, r.body[k]? = some (.clause r1 a1 c1) := by
    rw [List.getElem?_eq_getElem hk]
    cases hb : r.body[k] with
    | clause r1 a1 c1 => exact ⟨r1, a1, c1, rfl⟩
    | cond c => rw [hb] at hp; cases hp
    | gen v g => rw [hb] at hp; cases hp
    | agg a => rw [hb] at hp; cases hp
  obtain ⟨r1, a1, c1, hbk⟩ := hbk
  -- the second clause
  have hs0 : simple0 r.body = true := by
    have := fold_simple_mono V r.body (firstClauseInd r.body) _ _ (hst ▸ hsimple)
    exact this
  have hbk1 : ∃ r2 a2 c2, r.body[k + 1]? = some (.clause r2 a2 c2) := by
    unfold simple0 at hs0
    rw [hs] at hs0
    dsimp only at hs0
    cases hb : r.body[k + 1]? with
    | none => rw [hb] at hs0; cases hs0
    | some y =>
      rw [hb] at hs0
      cases y with
      | clause r2 a2 c2 => exact ⟨r2, a2, c2, rfl⟩
      | cond c => cases hs0
      | gen v g => cases hs0
      | agg a => cases hs0
  obtain ⟨r2, a2, c2, hbk1⟩ := hbk1
  obtain ⟨hb, hlen⟩ := decomp_two r.body k _ _ hbk hbk1
  generalize hpre : r.body.take k = pre at hb hlen
  generalize hrest : r.body.drop (k + 2) = rest at hb
  refine ⟨pre, r1, a1, c1, r2, a2, c2, rest, hlen, ?_⟩
  -- no clause before
  have hno : ∀ it ∈ pre, isClause it = false := by
    intro it hit
    obtain ⟨j, hj⟩ := List.mem_iff_getElem?.1 hit
    have hjk : j < k := by
      have := (List.getElem?_eq_some_iff.1 hj).1
      rw [hlen] at this; exact this
    have hj' : r.body[j]? = some it := by
      rw [← hpre, List.getElem?_take] at hj
      simpa [hjk] using hj
    have hjl : j < r.body.length := (List.getElem?_eq_some_iff.1 hj').1
    have hne := hnp j hjk
    rw [List.getElem?_eq_getElem hjl] at hj'
    cases Option.some.inj hj'
    cases hb' : r.body[j] with
    | clause _ _ _ => rw [hb'] at hne; exact absurd rfl hne
    | cond c => rfl
    | gen v g => rfl
    | agg a => rfl
  -- the folded list, split
  have hl : (List.range r.body.length).zip r.body =
      zipFrom 0 pre ++ (k, Item.clause r1 a1 c1) :: (k + 1, Item.clause r2 a2 c2) :: zipFrom (k + 2) rest := by
    rw [zip_range_eq]
    conv => lhs; rw [hb]
    rw [zipFrom_append, zipFrom_cons, zipFrom_cons, hlen]
    simp only [Nat.zero_add]
  rw [hl, List.foldl_append, List.foldl_cons, List.foldl_cons] at hst
  generalize hstk : (zipFrom 0 pre).foldl (stepC V r.body (firstClauseInd r.body)) { simple := simple0 r.body } = stk at hst
  -- fields
  obtain ⟨fk1, fk2, _⟩ := fold_fields V r.body (firstClauseInd r.body) (zipFrom 0 pre) { simple := simple0 r.body }
  rw [hstk, map_snd_zipFrom] at fk1 fk2
  obtain ⟨f11, f12, _⟩ := stepC_fields V r.body (firstClauseInd r.body) stk k (.clause r1 a1 c1)
  generalize hstk1 : stepC V r.body (firstClauseInd r.body) stk (k, .clause r1 a1 c1) = stk1 at hst f11 f12
  obtain ⟨f21, f22, _⟩ := stepC_fields V r.body (firstClauseInd r.body) stk1 (k + 1) (.clause r2 a2 c2)
  generalize hstk2 : stepC V r.body (firstClauseInd r.body) stk1 (k + 1, .clause r2 a2 c2) = stk2 at hst f21 f22
  obtain ⟨_, fr2, _⟩ := fold_fields V r.body (firstClauseInd r.body) (zipFrom (k + 2) rest) stk2
  rw [hst, map_snd_zipFrom] at fr2
  -- desugared pieces
  have hd' : desugFrom V ([], []) (pre ++ Item.clause r1 a1 c1 :: Item.clause r2 a2 c2 :: rest) = true := by
    rw [← hb]; exact hd
  obtain ⟨gok, hdk, _⟩ := gdFold_spec V pre ([], []) _ gdOk_nil hd'
  simp only [desugFrom, Bool.and_eq_true] at hdk
  obtain ⟨hok1, hok2, _⟩ := hdk
  obtain ⟨gok1, _⟩ := gdStep_spec V _ gok (.clause r1 a1 c1 : Item E B G P A) hok1
  have egk : (stk.grounded, stk.dg) = gdFold V ([], []) pre := fk1
  have egk1 : (stk1.grounded, stk1.dg) = gdStep V (gdFold V ([], []) pre) (.clause r1 a1 c1 : Item E B G P A) := by rw [f11, egk]
  have hgk : stk.grounded = (gdFold V ([], []) pre).1 := congrArg Prod.fst egk
  have hdk' : stk.dg = (gdFold V ([], []) pre).2 := congrArg Prod.snd egk
  have hgk1 : stk1.grounded = (gdStep V (gdFold V ([], []) pre) (.clause r1 a1 c1 : Item E B G P A)).1 := congrArg Prod.fst egk1
  have hdk1 : stk1.dg = (gdStep V (gdFold V ([], []) pre) (.clause r1 a1 c1 : Item E B G P A)).2 := congrArg Prod.snd egk1
  -- the simple flag
  have hsim2 : stk2.simple = true := fold_simple_mono V r.body (firstClauseInd r.body) _ _ (hst ▸ hsimple)
  rw [← hstk2, stepC_clause_simple] at hsim2
  have hs2 := scan_smp_mono V _ _ _ _ _ hsim2
  dsimp only at hs2
  obtain ⟨hs1, hX⟩ := s2Of_true hs2
  obtain ⟨hX1, hX2, hX3⟩ := hX (by rw [hs]; rfl)
  have hsim1 : stk1.simple = true := (s1Of_true hs1).1
  have hvars2 := scan_simple V (firstClauseInd r.body) stk1.dg (k + 1) (by rw [hs]; simp; omega)
    ((List.range a2.length).zip a2) stk1.grounded [] _ [] (by rw [hgk1, hdk1]; exact gok1)
    (by rw [map_snd_zip_range, hdk1]; exact hok2) hsim2
  rw [← hstk1, stepC_clause_simple] at hsim1
  have hs2' := scan_smp_mono V _ _ _ _ _ hsim1
  dsimp only at hs2'
  obtain ⟨hs1', _⟩ := s2Of_true hs2'
  have hnoif := (s1Of_true hs1').2 hs
  have hvars1 := scan_simple V (firstClauseInd r.body) stk.dg k (by rw [hs]; simp)
    ((List.range a1.length).zip a1) stk.grounded [] _ [] (by rw [hgk, hdk']; exact gok)
    (by rw [map_snd_zip_range, hdk']; exact hok1) hsim1
  have hall2 : ∀ a ∈ a2, ∃ v, a = Arg.var v := by
    intro a ha
    obtain ⟨j, hj⟩ := List.mem_iff_getElem?.1 ha
    obtain ⟨v, hv, _⟩ := hvars2 (j, a) ((mem_zip_range a2 j a).2 hj)
    exact ⟨v, hv⟩
  have hcv : cl1CondVars r.body (firstClauseInd r.body) = c1.flatMap Cond.boundVars := by
    unfold cl1CondVars
    rw [hs]
    simp only [Option.bind_some, hbk]
  refine ⟨hb, hno, ?_, hnoif, ?_, ?_, ?_, ?_⟩
  · intro a ha
    obtain ⟨j, hj⟩ := List.mem_iff_getElem?.1 ha
    obtain ⟨v, hv, hv2⟩ := hvars1 (j, a) ((mem_zip_range a1 j a).2 hj)
    exact ⟨v, hv, by rw [← hgk]; exact hv2 hs⟩
  · intro a ha
    obtain ⟨v, hv⟩ := hall2 a ha
    refine ⟨v, hv, ?_⟩
    unfold usesCl1 at hX1
    have := List.any_eq_false.1 hX1 a ha
    rw [hv, hcv] at this
    dsimp only at this
    intro hm
    exact this (List.contains_iff_mem.2 hm)
  · unfold noRepeat at hX2
    dsimp only at hX2
    rw [hdk1] at hX2
    exact nodup_of_eraseDups_length _ _ (Nat.le_refl _) (eq_of_beq hX2)
  · unfold condsOkFold at hX3
    rw [condsOk_eq] at hX3
    rw [← hX3]
    apply condsIn_congr
    intro v; rw [List.mem_eraseDups]
  · rw [hitemsEq, finish_items_join r st k hc hs r1 a1 c1 r2 a2 c2 hbk hbk1, fr2, f22, f12, fk2]
    have hA : (hitems V ([], []) pre).length = k := by rw [hitems_length, hlen]
    have egk2 : (stk2.grounded, stk2.dg) = gdFold V ([], []) (pre ++ [(.clause r1 a1 c1 : Item E B G P A), .clause r2 a2 c2]) := by
      rw [f21, egk1]; simp [gdFold, List.foldl_append]
    rw [egk2, egk1, egk]
    simp only [List.nil_append, List.append_assoc, List.cons_append]
    rw [List.set_append_right k _ (Nat.le_of_eq hA), hA, Nat.sub_self]
    rfl

end AscentVerif.Hir
