import AscentVerif.Proofs.C15Basic
/-!
# C15: completeness of the fuel-bounded breadth-first search `reachFrom` — helper lemmas for `C15Core`
-/
set_option linter.unusedSimpArgs false
namespace AscentVerif.Check
open AscentVerif AscentVerif.Engine

theorem filter_length_le (f g : Nat → Bool) : ∀ (l : List Nat), (∀ x ∈ l, f x = true → g x = true) →
    (l.filter f).length ≤ (l.filter g).length
  | [], _ => by simp
  | a :: l, h => by
    have ih := filter_length_le f g l (fun x hx => h x (List.mem_cons_of_mem _ hx))
    have ha := h a (List.mem_cons_self ..)
    cases hf : f a with
    | false =>
      cases hg : g a with
      | false => simpa [List.filter_cons, hf, hg] using ih
      | true => simp only [List.filter_cons, hf, hg, if_true, List.length_cons]; simp; omega
    | true =>
      have hg := ha hf
      simp only [List.filter_cons, hf, hg, if_true, List.length_cons]
      omega

theorem filter_length_lt (f g : Nat → Bool) (x : Nat) (hg : g x = true) (hf : f x = false) :
    ∀ (l : List Nat), (∀ y ∈ l, f y = true → g y = true) → x ∈ l → (l.filter f).length < (l.filter g).length
  | [], _, hx => by cases hx
  | a :: l, h, hx => by
    have hle := filter_length_le f g l (fun y hy => h y (List.mem_cons_of_mem _ hy))
    by_cases hax : a = x
    · subst hax
      simp only [List.filter_cons, hf, hg, if_true, List.length_cons]
      simp
      omega
    · have hx' : x ∈ l := by
        rcases List.mem_cons.1 hx with h' | h'
        · exact absurd h'.symm hax
        · exact h'
      have ih := filter_length_lt f g x hg hf l (fun y hy => h y (List.mem_cons_of_mem _ hy)) hx'
      have ha := h a (List.mem_cons_self ..)
      cases hfa : f a with
      | false =>
        cases hga : g a with
        | false => simpa [List.filter_cons, hfa, hga] using ih
        | true => simp only [List.filter_cons, hfa, hga, if_true, List.length_cons]; simp; omega
      | true =>
        have hga := ha hfa
        simp only [List.filter_cons, hfa, hga, if_true, List.length_cons]
        omega

theorem feeds_lt {p : Skel} {i j : Nat} (h : feeds p i j = true) : i < p.rules.length ∧ j < p.rules.length := by
  unfold feeds at h
  split at h
  · rename_i ri rj hi hj
    obtain ⟨h1, _⟩ := List.getElem?_eq_some_iff.1 hi
    obtain ⟨h2, _⟩ := List.getElem?_eq_some_iff.1 hj
    exact ⟨h1, h2⟩
  · cases h

/-- the frontier of one round of the search -/
def frontier (p : Skel) (vis : List Nat) : List Nat :=
  (List.range p.rules.length).filter fun j => !vis.contains j && vis.any fun k => feeds p k j

theorem reachFrom_succ (p : Skel) (fuel : Nat) (vis : List Nat) :
    reachFrom p (fuel + 1) vis = if (frontier p vis).isEmpty then vis else reachFrom p fuel (vis ++ frontier p vis) := rfl

theorem mem_frontier {p : Skel} {vis : List Nat} {j : Nat} :
    j ∈ frontier p vis ↔ j < p.rules.length ∧ j ∉ vis ∧ ∃ k ∈ vis, feeds p k j = true := by
  unfold frontier
  simp [List.mem_filter, List.mem_range]

/-- closed under the dependency edges -/
def Closed (p : Skel) (vis : List Nat) : Prop := ∀ k ∈ vis, ∀ j, feeds p k j = true → j ∈ vis

theorem closed_of_frontier_empty {p : Skel} {vis : List Nat} (h : frontier p vis = []) : Closed p vis := by
  intro k hk j hf
  by_cases hj : j ∈ vis
  · exact hj
  · have : j ∈ frontier p vis := mem_frontier.2 ⟨(feeds_lt hf).2, hj, k, hk, hf⟩
    rw [h] at this
    cases this

theorem path_closed {p : Skel} {vis : List Nat} (hc : Closed p vis) {k j : Nat} (hp : Path p k j) :
    k ∈ vis → j ∈ vis := by
  induction hp with
  | refl i => exact id
  | step hf _ ih => exact fun hk => ih (hc _ hk _ hf)

theorem subset_reachFrom (p : Skel) : ∀ (fuel : Nat) (vis : List Nat), ∀ x ∈ vis, x ∈ reachFrom p fuel vis
  | 0, vis, x, hx => hx
  | fuel + 1, vis, x, hx => by
    rw [reachFrom_succ]
    split
    · exact hx
    · exact subset_reachFrom p fuel _ x (List.mem_append_left _ hx)

/-- number of rules not visited yet -/
def missing (p : Skel) (vis : List Nat) : Nat :=
  ((List.range p.rules.length).filter fun j => !vis.contains j).length

theorem closed_of_missing_zero {p : Skel} {vis : List Nat} (h : missing p vis = 0) : Closed p vis := by
  intro k hk j hf
  unfold missing at h
  have hnil := List.eq_nil_of_length_eq_zero h
  by_cases hj : j ∈ vis
  · exact hj
  · have : j ∈ (List.range p.rules.length).filter fun j => !vis.contains j := by
      simp [List.mem_filter, List.mem_range, (feeds_lt hf).2, hj]
    rw [hnil] at this
    cases this

theorem missing_lt {p : Skel} {vis : List Nat} (h : frontier p vis ≠ []) :
    missing p (vis ++ frontier p vis) < missing p vis := by
  obtain ⟨x, hx⟩ := List.exists_mem_of_ne_nil _ h
  obtain ⟨h1, h2, _⟩ := mem_frontier.1 hx
  unfold missing
  apply filter_length_lt _ _ x
  · simp [h2]
  · simp [hx]
  · intro y _ hy
    have hy' : y ∉ vis ++ frontier p vis := by simpa using hy
    have : y ∉ vis := fun hm => hy' (List.mem_append_left _ hm)
    simpa using this
  · exact List.mem_range.2 h1

theorem closed_reachFrom (p : Skel) : ∀ (fuel : Nat) (vis : List Nat), missing p vis ≤ fuel →
    Closed p (reachFrom p fuel vis)
  | 0, vis, h => closed_of_missing_zero (Nat.le_zero.1 h)
  | fuel + 1, vis, h => by
    rw [reachFrom_succ]
    split
    · rename_i he
      exact closed_of_frontier_empty (List.isEmpty_iff.1 he)
    · rename_i he
      have hne : frontier p vis ≠ [] := fun h' => he (List.isEmpty_iff.2 h')
      have := missing_lt hne
      exact closed_reachFrom p fuel _ (by omega)

theorem missing_le (p : Skel) (vis : List Nat) : missing p vis ≤ p.rules.length := by
  unfold missing
  have := List.length_filter_le (fun j => !vis.contains j) (List.range p.rules.length)
  simpa using this

theorem reaches_of_path' (p : Skel) (i j : Nat) (h : Path p i j) : reaches p p.rules.length i j = true := by
  unfold reaches
  rw [List.contains_iff_mem]
  exact path_closed (closed_reachFrom p _ [i] (missing_le p [i])) h
    (subset_reachFrom p _ [i] i (List.mem_singleton.2 rfl))

end AscentVerif.Check
