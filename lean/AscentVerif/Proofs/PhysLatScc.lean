import AscentVerif.Proofs.PhysLatSim
import AscentVerif.Proofs.Scc
/-!
# The simulation relation through the merge, SCC entry and exit, and `update_indices` (lattice programs)
-/
namespace AscentVerif.PhysLat
open AscentVerif AscentVerif.Engine AscentVerif.Index AscentVerif.Phys

variable {E B G P A : Type}

theorem Rel2.map' {α β γ δ : Type} {R : α → β → Prop} {S : γ → δ → Prop} (f : α → γ) (g : β → δ)
    {l : List α} {l' : List β} (hr : Rel2 R l l') : (∀ a ∈ l, ∀ b, R a b → S (f a) (g b)) →
    Rel2 S (l.map f) (l'.map g) := by
  induction hr with
  | nil => intro _; exact .nil
  | @cons a b l l' hab _ ih =>
    intro h
    exact .cons (h a (by simp) b hab) (ih fun a' ha' b' hab' => h a' (List.mem_cons_of_mem _ ha') b' hab')

/-! ## the merge -/

theorem XOk_shift {p : Program E B G P A} {r : RelId} {rows : List Tuple} {bt bd bn cols : List Nat} {t : Tri XIx}
    (ht : XOk p r rows bt cols t.total) (hd : XOk p r rows bd cols t.delta) (hn : XOk p r rows bn cols t.new)
    (hu : isLatRel p r = true → cols = keyCols p r →
      ∀ i ∈ bt, ∀ j ∈ bd, Plan.proj cols (rowAt rows i) = Plan.proj cols (rowAt rows j) → i = j) :
    XOk p r rows (bt ++ bd) cols (shiftX t).total ∧ XOk p r rows bn cols (shiftX t).delta ∧
      XOk p r rows [] cols (shiftX t).new := by
  cases hl : isLatRel p r with
  | true =>
    have hF : ∀ {α : Prop}, isLatRel p r = false → α := fun hf => by rw [hl] at hf; cases hf
    refine ⟨⟨fun _ hc => ?_, hF⟩, ⟨fun _ hc => ?_, hF⟩, ⟨fun _ hc => ?_, hF⟩⟩
    · exact (LOk_shift (ht.1 hl hc) (hd.1 hl hc) (hn.1 hl hc) (hu hl)).1
    · exact (LOk_shift (ht.1 hl hc) (hd.1 hl hc) (hn.1 hl hc) (hu hl)).2.1
    · exact (LOk_shift (ht.1 hl hc) (hd.1 hl hc) (hn.1 hl hc) (hu hl)).2.2
  | false =>
    have hT : ∀ {α : Prop}, isLatRel p r = true → α := fun hf => by rw [hl] at hf; cases hf
    obtain ⟨tt, td, tn⟩ := t
    have h1 : POk rows bt cols tt := ht.2 hl
    have h2 : POk rows bd cols td := hd.2 hl
    have h3 : POk rows bn cols tn := hn.2 hl
    cases tt with
    | rows _ => exact absurd h1 id
    | key _ => exact absurd h1 id
    | vals mt =>
      cases td with
      | rows _ => exact absurd h2 id
      | key _ => exact absurd h2 id
      | vals md =>
        cases tn with
        | rows _ => exact absurd h3 id
        | key _ => exact absurd h3 id
        | vals mn =>
          obtain ⟨g1, g2, g3⟩ := IxOk_shift (t := ⟨mt, md, mn⟩) h1 h2 h3
          refine ⟨⟨hT, fun _ => g1⟩, ⟨hT, fun _ => g2⟩, ⟨hT, fun _ => ?_⟩⟩
          show IxOk rows [] cols (shiftIx ⟨mt, md, mn⟩).new
          rw [g3]; exact IxOk_nil _ _

theorem shift_simL {p : Program E B G P A} {ix : IxSets} {dynR : List RelId} {a : SccSt} {x : XScc}
    (hsim : SimL p ix a x) (hwf : WF p.rels.length dynR a)
    (hkeys : ∀ r, isLatRel p r = true → ((rowsOf a r).map keyOf).Nodup) :
    SimL p ix (Engine.shift a) (shift x) := by
  refine ⟨hsim.len, hsim.rows, hsim.changed, ?_, ?_, hsim.typed⟩
  · show Rel2 _ (a.dyn.map _) (x.dyn.map _)
    refine Rel2.map' _ _ hsim.dyn ?_
    intro d hdm pd hd
    refine ⟨hd.rel, ?_⟩
    have tri := hd.tri
    have hfd : findDyn a.dyn d.rel = some d := hwf.uniq d hdm
    have hcov := hwf.cover d.rel d hfd
    have hty : ∀ i, i < (rowsOf a d.rel).length → (rowAt (rowsOf a d.rel) i).length = arityOf p d.rel :=
      fun i hi => hsim.typed d.rel _ (rowAt_mem _ i hi)
    have hu : isLatRel p d.rel = true → ∀ cols, cols = keyCols p d.rel →
        ∀ i ∈ d.total, ∀ j ∈ d.delta,
          Plan.proj cols (rowAt (rowsOf a d.rel) i) = Plan.proj cols (rowAt (rowsOf a d.rel) j) → i = j := by
      intro hl cols hc i hi j hj hp
      have hi' := (hcov i).mpr (.inl hi)
      have hj' := (hcov j).mpr (.inr (.inl hj))
      rw [hc] at hp
      have e1 : Plan.proj (keyCols p d.rel) (rowAt (rowsOf a d.rel) i) = keyOf (rowAt (rowsOf a d.rel) i) :=
        proj_keyCols (hty i hi')
      have e2 : Plan.proj (keyCols p d.rel) (rowAt (rowsOf a d.rel) j) = keyOf (rowAt (rowsOf a d.rel) j) :=
        proj_keyCols (hty j hj')
      rw [e1, e2] at hp
      exact idx_of_key (hkeys d.rel hl) hi' hj' hp
    refine ⟨?_, ?_, ?_, ?_, ?_, ?_, ?_⟩
    · intro hl; exact (FullOk_shift (tri.ft hl) (tri.fd hl) (tri.fn hl)).1
    · intro hl; exact (FullOk_shift (tri.ft hl) (tri.fd hl) (tri.fn hl)).2.1
    · intro hl
      show FullOk _ [] (shiftFull pd.full).new
      rw [(FullOk_shift (tri.ft hl) (tri.fd hl) (tri.fn hl)).2.2]; exact FullOk_nil _
    · show (pd.idxs.map fun ci => (ci.1, shiftX ci.2)).map (·.1) = _
      rw [List.map_map, ← tri.cols]; rfl
    · intro ci hci
      obtain ⟨c, hc, rfl⟩ := List.mem_map.mp hci
      exact (XOk_shift (tri.it c hc) (tri.id c hc) (tri.inw c hc) (fun hl => hu hl c.1)).1
    · intro ci hci
      obtain ⟨c, hc, rfl⟩ := List.mem_map.mp hci
      exact (XOk_shift (tri.it c hc) (tri.id c hc) (tri.inw c hc) (fun hl => hu hl c.1)).2.1
    · intro ci hci
      obtain ⟨c, hc, rfl⟩ := List.mem_map.mp hci
      exact (XOk_shift (tri.it c hc) (tri.id c hc) (tri.inw c hc) (fun hl => hu hl c.1)).2.2
  · intro r hr hnd
    have hnd0 : findDyn a.dyn r = none := by
      rw [findDyn_shift, Option.map_eq_none_iff] at hnd; exact hnd
    exact hsim.nd r hr hnd0

theorem reset_simL {p : Program E B G P A} {ix : IxSets} {a : SccSt} {x : XScc} (hsim : SimL p ix a x) :
    SimL p ix { a with changed := false } { x with changed := false } :=
  ⟨hsim.len, hsim.rows, rfl, hsim.dyn, hsim.nd, hsim.typed⟩

/-! ## SCC entry -/

theorem XOk_emptyLike {p : Program E B G P A} {r : RelId} {rows : List Tuple} {bag cols : List Nat} {x : XIx}
    (h : XOk p r rows bag cols x) : XOk p r rows [] cols (emptyLike x) := by
  refine ⟨fun hl hc => LOk_emptyLike (h.1 hl hc) rows, fun hl => ?_⟩
  have := h.2 hl
  cases x with
  | vals m => exact IxOk_nil _ _
  | rows m => exact absurd this id
  | key m => exact absurd this id

theorem enter_simL {p : Program E B G P A} {ix : IxSets} {st : St} {xst : XSt} (hs : SimStL p ix st xst)
    (dyn : List RelId) (hlt : ∀ r ∈ dyn, r < st.length) :
    SimL p ix (Engine.enterScc st dyn) (enterScc xst dyn) := by
  have hrels : (Engine.enterScc st dyn).rels = st := enterScc_rels st dyn
  have hxrel : ∀ r, (xrel (enterScc xst dyn).rels r).rows = (xrel xst r).rows := by
    intro r
    by_cases hr : r < xst.length
    · simp only [enterScc, xrel_rangeMap _ _ _ hr]
      split <;> rfl
    · have hr' : xst.length ≤ r := Nat.le_of_not_lt hr
      simp only [enterScc, xrel_rangeMap_ge _ _ _ hr', xrel_of_ge _ _ hr']
  refine ⟨?_, ?_, rfl, ?_, ?_, ?_⟩
  · rw [hrels, hs.len]; simp [enterScc]
  · intro r; rw [hrels, hxrel]; exact hs.rows r
  · rw [hrels]
    show Rel2 _ (dyn.map _) (dyn.map _)
    apply Rel2.of_map
    intro r hr
    obtain ⟨hf, hc, hi⟩ := hs.ok r (hlt r hr)
    refine ⟨rfl, fun _ => FullOk_nil _, hf, fun _ => FullOk_nil _, ?_, ?_, ?_, ?_⟩
    · show ((xrel xst r).idxs.map _).map _ = _
      rw [List.map_map, ← hc]; rfl
    · intro ci hci
      obtain ⟨c, hc', rfl⟩ := List.mem_map.mp hci
      exact XOk_emptyLike (hi c hc')
    · intro ci hci
      obtain ⟨c, hc', rfl⟩ := List.mem_map.mp hci
      exact hi c hc'
    · intro ci hci
      obtain ⟨c, hc', rfl⟩ := List.mem_map.mp hci
      exact XOk_emptyLike (hi c hc')
  · intro r hr hnd
    rw [hrels] at hr ⊢
    rw [findDyn_enter] at hnd
    have hc : dyn.contains r = false := by
      cases h : dyn.contains r with
      | false => rfl
      | true => rw [h] at hnd; simp at hnd
    have hrp : r < xst.length := by rw [← hs.len]; exact hr
    have : xrel (enterScc xst dyn).rels r = xrel xst r := by
      simp only [enterScc, xrel_rangeMap _ _ _ hrp, hc, Bool.false_eq_true, if_false]
    rw [this]; exact hs.ok r hr
  · intro r t ht
    rw [hrels] at ht; exact hs.typed r t ht

/-! ## SCC exit -/

def leaveStepX (st : XSt) (d : XDyn) : XSt :=
  setNth st d.rel { xrel st d.rel with full := d.full.total, idxs := d.idxs.map fun ci => (ci.1, ci.2.total) }

theorem leaveSccX_eq (s : XScc) : leaveScc s = s.dyn.foldl leaveStepX s.rels := rfl

theorem leave_foldL {p : Program E B G P A} {ix : IxSets} {rowsf : RelId → List Tuple} {L : List Dyn} {L' : List XDyn}
    (hL : Rel2 (XDynOk p ix rowsf) L L') :
    ∀ (st : St) (xst : XSt), st.length = xst.length → (∀ r, (relSt st r).rows = rowsf r) →
      (∀ r, (xrel xst r).rows = rowsf r) → (∀ d ∈ L, d.rel < st.length) →
      (∀ r, r < st.length → r ∈ L.map (·.rel) ∨
        XVerOk p ix r (rowsf r) (relSt st r).idx (xrel xst r).full (xrel xst r).idxs) →
      (L.foldl leaveStep st).length = (L'.foldl leaveStepX xst).length ∧
      (L.foldl leaveStep st).length = st.length ∧
      (∀ r, (relSt (L.foldl leaveStep st) r).rows = rowsf r) ∧
      (∀ r, (xrel (L'.foldl leaveStepX xst) r).rows = rowsf r) ∧
      ∀ r, r < st.length → XVerOk p ix r (rowsf r) (relSt (L.foldl leaveStep st) r).idx
        (xrel (L'.foldl leaveStepX xst) r).full (xrel (L'.foldl leaveStepX xst) r).idxs := by
  induction hL with
  | nil =>
    intro st xst hlen hr hpr _ hinv
    refine ⟨hlen, rfl, hr, hpr, ?_⟩
    intro r hrl
    rcases hinv r hrl with h | h
    · simp at h
    · exact h
  | @cons d pd L L' hd _ ih =>
    intro st xst hlen hr hpr hlt hinv
    have hdl : d.rel < st.length := hlt d (by simp)
    have hdlp : pd.rel < xst.length := by rw [hd.rel, ← hlen]; exact hdl
    simp only [List.foldl_cons]
    have hlen1 : (leaveStep st d).length = st.length := by simp [leaveStep]
    obtain ⟨g1, g2, g3, g4, g5⟩ := ih (leaveStep st d) (leaveStepX xst pd) (by simp [leaveStep, leaveStepX, hlen])
      (fun r => by rw [leaveStep_rows st d r hdl]; exact hr r)
      (fun r => by
        by_cases h : r = pd.rel
        · subst h; simp only [leaveStepX, xrel_setNth_self _ _ _ hdlp]; exact hpr _
        · simp only [leaveStepX, xrel_setNth_ne _ _ _ _ h]; exact hpr r)
      (fun d' hd' => by rw [hlen1]; exact hlt d' (List.mem_cons_of_mem _ hd'))
      (by
        intro r hrl
        rw [hlen1] at hrl
        by_cases h : r = d.rel
        · right
          subst h
          have h1 : relSt (leaveStep st d) d.rel = { relSt st d.rel with idx := d.total } := by
            simp only [leaveStep, relSt_setNth_self _ _ _ hdl]
          have h2 : xrel (leaveStepX xst pd) d.rel =
              { xrel xst pd.rel with full := pd.full.total, idxs := pd.idxs.map fun ci => (ci.1, ci.2.total) } := by
            rw [← hd.rel]; simp only [leaveStepX, xrel_setNth_self _ _ _ hdlp]
          rw [h1, h2]
          exact hd.tri.verT
        · rcases hinv r hrl with h' | h'
          · left
            simp only [List.map_cons, List.mem_cons] at h'
            rcases h' with h' | h'
            · exact absurd h' h
            · exact h'
          · right
            have h1 : relSt (leaveStep st d) r = relSt st r := by simp only [leaveStep, relSt_setNth_ne _ _ _ _ h]
            have hp : r ≠ pd.rel := by rw [hd.rel]; exact h
            have h2 : xrel (leaveStepX xst pd) r = xrel xst r := by
              simp only [leaveStepX, xrel_setNth_ne _ _ _ _ hp]
            rw [h1, h2]; exact h')
    refine ⟨g1, by rw [g2, hlen1], g3, g4, ?_⟩
    intro r hrl
    exact g5 r (by rw [hlen1]; exact hrl)

theorem leave_simL {p : Program E B G P A} {ix : IxSets} {a : SccSt} {x : XScc} (hsim : SimL p ix a x)
    (hdlt : ∀ d ∈ a.dyn, d.rel < a.rels.length) : SimStL p ix (Engine.leaveScc a) (leaveScc x) := by
  rw [leaveScc_eq, leaveSccX_eq]
  obtain ⟨g1, g2, g3, g4, g5⟩ := leave_foldL hsim.dyn a.rels x.rels hsim.len (fun _ => rfl)
    (fun r => (hsim.rows r).symm) hdlt (by
      intro r hr
      cases hd : findDyn a.dyn r with
      | none => exact .inr (hsim.nd r hr hd)
      | some d => exact .inl (List.mem_map.mpr ⟨d, findDyn_mem hd, findDyn_rel hd⟩))
  refine ⟨g1, ?_, ?_, ?_⟩
  · intro r; rw [g3, g4]
  · intro r hr
    rw [g3]
    exact g5 r (by rw [← g2]; exact hr)
  · intro r t ht
    rw [g3] at ht; exact hsim.typed r t ht

/-! ## `update_indices` -/

def absStX (s : XSt) : St := s.map fun pr => ⟨pr.rows, []⟩

theorem relSt_absStX (s : XSt) (r : RelId) : (relSt (absStX s) r).rows = (xrel s r).rows := by
  by_cases hr : r < s.length
  · simp [relSt, xrel, absStX, List.getD_eq_getElem?_getD, List.getElem?_map, List.getElem?_eq_getElem hr]
  · have hr' : s.length ≤ r := Nat.le_of_not_lt hr
    rw [relSt_of_ge _ _ (by simpa [absStX] using hr'), xrel_of_ge _ _ hr']

theorem foldl_insert_vals (cols : List Nat) : ∀ (l : List (Nat × Tuple)) (m : PIx),
    l.foldl (fun x ir => XIx.insert x cols ir.2 ir.1) (.vals m) =
      .vals ((l.map (·.2)).foldl (fun m row => Idx.insert m (Plan.proj cols row) (projC cols row)) m)
  | [], _ => rfl
  | it :: tl, m => by
    simp only [List.foldl_cons, List.map_cons, XIx.insert]
    exact foldl_insert_vals cols tl _

theorem buildX_plain (p : Program E B G P A) (r : RelId) (hl : isLatRel p r = false) (cols : List Nat)
    (rows : List Tuple) : buildX p r cols rows = .vals (buildIx cols rows) := by
  unfold buildX buildIx buildIx.proj
  have he : XIx.empty (isLatRel p r) (cols == keyCols p r) = .vals [] := by simp [XIx.empty, hl]
  rw [he, foldl_insert_vals]
  have : ((List.range rows.length).zip rows).map (·.2) = rows := by
    rw [zip_range_rows, List.map_map]
    apply List.ext_getElem
    · simp
    · intro i h1 h2
      simp [rowAt_eq_getElem rows i h2]
  rw [this]

theorem updateIndices_simL (p : Program E B G P A) (ix : IxSets) (s : XSt)
    (htyped : ∀ r, ∀ t ∈ (xrel s r).rows, t.length = arityOf p r)
    (hkeys : ∀ r, isLatRel p r = true → (((xrel s r).rows).map keyOf).Nodup) :
    SimStL p ix (Engine.updateIndices (absStX s)) (updateIndices p ix s) := by
  have hxrel : ∀ r, r < s.length → xrel (updateIndices p ix s) r =
      { rows := (xrel s r).rows, full := if isLatRel p r then [] else buildFull (xrel s r).rows,
        idxs := (ixOf p ix r).map fun c => (c, buildX p r c (xrel s r).rows) } := by
    intro r hr
    simp only [updateIndices, xrel_rangeMap _ _ _ hr]
  refine ⟨by simp [Engine.updateIndices, updateIndices, absStX], ?_, ?_, ?_⟩
  · intro r
    rw [relSt_updateIndices, relSt_absStX]
    by_cases hr : r < s.length
    · rw [hxrel r hr]
    · have hr' : s.length ≤ r := Nat.le_of_not_lt hr
      simp only [updateIndices, xrel_rangeMap_ge _ _ _ hr', xrel_of_ge _ _ hr']
  · intro r hr
    have hr' : r < s.length := by simpa [Engine.updateIndices, absStX] using hr
    rw [relSt_updateIndices, relSt_absStX, hxrel r hr']
    refine ⟨?_, ?_, ?_⟩
    · intro hl
      simp only [hl, Bool.false_eq_true, if_false]
      exact FullOk_build _
    · simp only [List.map_map]
      show (ixOf p ix r).map (fun c => c) = ixOf p ix r
      simp
    · intro ci hci
      obtain ⟨c, _, rfl⟩ := List.mem_map.mp hci
      refine ⟨fun hl _ => ?_, fun hl => ?_⟩
      · apply LOk_build p r hl
        intro hc i j hi hj hp
        have ti := htyped r _ (rowAt_mem _ i hi)
        have tj := htyped r _ (rowAt_mem _ j hj)
        rw [hc] at hp
        have e1 : Plan.proj (keyCols p r) (rowAt (xrel s r).rows i) = keyOf (rowAt (xrel s r).rows i) := proj_keyCols ti
        have e2 : Plan.proj (keyCols p r) (rowAt (xrel s r).rows j) = keyOf (rowAt (xrel s r).rows j) := proj_keyCols tj
        rw [e1, e2] at hp
        exact idx_of_key (hkeys r hl) hi hj hp
      · show POk _ _ _ (buildX p r c (xrel s r).rows)
        rw [buildX_plain p r hl]
        exact IxOk_build _ _
  · intro r t ht
    rw [relSt_updateIndices, relSt_absStX] at ht
    exact htyped r t ht

end AscentVerif.PhysLat
