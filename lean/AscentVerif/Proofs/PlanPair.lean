import AscentVerif.Proofs.PlanJoin
/-!
# Plan proofs, part 6: the simple join in its original order, pair of rows by pair of rows

`JoinCtx` collects what the compiler guarantees about the two clauses of a simple join (all arguments are variables, the
first clause's are new and pairwise distinct, the first clause is indexed on the columns whose variable occurs in the
second clause, the second clause's variables are not bound by the first clause's conditions, …).  Under it the
environment the nested `iter_all` / `index_get` loops reach for a pair of rows is look-up-equal to the one `matchArgs`
reaches (`pairN`), hence the whole simple join is a permutation of the filter evaluation (`joinStep_sem`).
-/
namespace AscentVerif.Plan
open AscentVerif AscentVerif.Engine AscentVerif.Hir

variable {E B G P A : Type}

structure JoinCtx (gk gk1 : List Var) (a1 : List (Arg E)) (c1 : List (Cond E B P)) (a2 : List (Arg E))
    (cols1 cols2 : List Nat) (pre2 : List Var) : Prop where
  a1vars : ∀ a ∈ a1, ∃ v, a = Arg.var v ∧ v ∉ gk
  nd1 : (freshVars gk a1).Nodup
  hcols1 : ∀ j, j ∈ cols1 ↔ ∃ v, a1[j]? = some (Arg.var v) ∧ v ∈ a2.filterMap argVar?
  a2vars : ∀ a ∈ a2, ∃ v, a = Arg.var v ∧ v ∉ c1.flatMap Cond.boundVars
  hgk1 : ∀ v, v ∈ gk1 ↔ v ∈ gk ∨ v ∈ a1.filterMap argVar? ∨ v ∈ c1.flatMap Cond.boundVars
  hcols2 : ∀ j, j ∈ cols2 ↔ ∃ a, a2[j]? = some a ∧ isIdx gk1 a = true
  nd2 : (freshVars gk1 a2).Nodup
  hpre2 : ∀ v, v ∈ pre2 ↔ v ∈ gk1

theorem keys_bl (g : List Var) :
    ∀ (as : List (Arg E)) (xs : Tuple) (j : Nat), xs.length = as.length →
      keys (bl (fun _ v => g.contains v) j as xs) = freshVars g as
  | [], [], _, _ => rfl
  | [], _ :: _, _, h => by simp at h
  | _ :: _, [], _, h => by simp at h
  | .var v :: as, x :: xs, j, h => by
    have ih := keys_bl g as xs (j + 1) (by simpa using h)
    simp only [bl]
    split
    · rename_i hc
      rw [ih, freshVars_cons_mem g v as (List.contains_iff_mem.1 hc)]
    · rename_i hc
      have hv : v ∉ g := fun h => hc (List.contains_iff_mem.2 h)
      rw [freshVars_cons_not_mem g v as hv]
      simp only [keys, List.map_cons]
      exact congrArg _ ih
  | .expr e :: as, x :: xs, j, h => by
    simp only [bl]
    exact keys_bl g as xs (j + 1) (by simpa using h)

theorem getElem?_getD {row : Tuple} {j : Nat} (h : j < row.length) : row[j]? = some (row.getD j .unit) := by
  rw [List.getD_eq_getElem?_getD, List.getElem?_eq_getElem h]; rfl

/-- a clause all of whose arguments are new variables: `matchArgs` binds them all -/
theorem matchArgs_allNew (I : Interp E B G P A) (ρ : Env) (g : List Var) (hdom : DomEq ρ g) (as : List (Arg E))
    (hvars : ∀ a ∈ as, ∃ v, a = Arg.var v ∧ v ∉ g) (hnd : (freshVars g as).Nodup) (xs : Tuple) :
    matchArgs I ρ as xs ρ = bindArgs (fun _ v => g.contains v) 0 as xs ρ := by
  have h := clause_row_eq I ρ g g hdom (fun _ => Iff.rfl) as [] (by
    intro j
    constructor
    · intro h; cases h
    · rintro ⟨a, ha, hi⟩
      obtain ⟨v, rfl, hv⟩ := hvars a (List.mem_of_getElem? ha)
      simp only [isIdx] at hi
      exact absurd (List.contains_iff_mem.1 hi) hv) hnd xs
  rw [← h]
  rfl

section
variable {gk gk1 : List Var} {a1 : List (Arg E)} {c1 : List (Cond E B P)} {a2 : List (Arg E)}
  {cols1 cols2 : List Nat} {pre2 : List Var}

/-- the bindings of the first clause, as `matchArgs` makes them -/
theorem first_clause (ctx : JoinCtx gk gk1 a1 c1 a2 cols1 cols2 pre2) (row1 : Tuple)
    (hlen : row1.length = a1.length) :
    (keys (bl (fun _ v => gk.contains v) 0 a1 row1).reverse).Nodup ∧
    (∀ p, p ∈ (bl (fun j _ => cols1.contains j) 0 a1 row1).reverse ++ (kb a1 row1 cols1).reverse →
      p ∈ (bl (fun _ v => gk.contains v) 0 a1 row1).reverse) ∧
    (∀ v ∈ keys (bl (fun _ v => gk.contains v) 0 a1 row1).reverse,
      v ∈ keys ((bl (fun j _ => cols1.contains j) 0 a1 row1).reverse ++ (kb a1 row1 cols1).reverse)) ∧
    (∀ v ∈ a2.filterMap argVar?, v ∈ keys (bl (fun _ v => gk.contains v) 0 a1 row1).reverse →
      v ∈ keys (kb a1 row1 cols1).reverse) := by
  have hk : ∀ l : Env, keys l.reverse = (keys l).reverse := fun l => by simp [keys]
  refine ⟨?_, ?_, ?_, ?_⟩
  · rw [hk, (List.reverse_perm _).nodup_iff, keys_bl gk a1 row1 0 hlen]; exact ctx.nd1
  · intro p hp
    rw [List.mem_reverse, mem_bl]
    rcases List.mem_append.1 hp with h | h
    · rw [List.mem_reverse, mem_bl] at h
      obtain ⟨t, v, x, h1, h2, _, h4⟩ := h
      obtain ⟨v', hv', hng⟩ := ctx.a1vars _ (List.mem_of_getElem? h1)
      cases hv'
      exact ⟨t, v, x, h1, h2, contains_false_of_not_mem hng, h4⟩
    · rw [List.mem_reverse, mem_kb] at h
      obtain ⟨j, v, _, h2, h3⟩ := h
      obtain ⟨v', hv', hng⟩ := ctx.a1vars _ (List.mem_of_getElem? h2)
      cases hv'
      have hj : j < row1.length := by rw [hlen]; exact (List.getElem?_eq_some_iff.1 h2).1
      exact ⟨j, v, _, h2, getElem?_getD hj, contains_false_of_not_mem hng, h3⟩
  · intro v hv
    rw [hk, List.mem_reverse] at hv
    obtain ⟨p, hp, rfl⟩ := List.mem_map.1 hv
    obtain ⟨t, v, x, h1, h2, _, rfl⟩ := (mem_bl _ p a1 row1 0).1 hp
    rw [keys_append, List.mem_append]
    by_cases ht : t ∈ cols1
    · right
      rw [hk, List.mem_reverse]
      exact List.mem_map.2 ⟨(v, row1.getD t .unit), (mem_kb a1 row1 cols1 _).2 ⟨t, v, ht, h1, rfl⟩, rfl⟩
    · left
      rw [hk, List.mem_reverse]
      refine List.mem_map.2 ⟨(v, x), (mem_bl _ _ a1 row1 0).2 ⟨t, v, x, h1, h2, ?_, rfl⟩, rfl⟩
      simp only [Nat.zero_add]
      exact contains_false_of_not_mem ht
  · intro v hv2 hv
    rw [hk, List.mem_reverse] at hv
    obtain ⟨p, hp, rfl⟩ := List.mem_map.1 hv
    obtain ⟨t, v, x, h1, _, _, rfl⟩ := (mem_bl _ p a1 row1 0).1 hp
    rw [hk, List.mem_reverse]
    exact List.mem_map.2 ⟨(v, row1.getD t .unit),
      (mem_kb a1 row1 cols1 _).2 ⟨t, v, (ctx.hcols1 t).2 ⟨v, h1, hv2⟩, h1, rfl⟩, rfl⟩

theorem planPair_inner (I : Interp E B G P A) (colsA : List Nat) (argsA : List (Arg E)) (condsA : List (Cond E B P))
    (colsB : List Nat) (argsB : List (Arg E)) (condsB : List (Cond E B P)) (preB : List Var) (ρ : Env)
    (rowA rowB : Tuple) :
    planPair I colsA argsA condsA colsB argsB condsB preB ρ rowA rowB =
      (bindArgs (fun j _ => colsA.contains j) 0 argsA rowA (bindKey argsA colsA (proj colsA rowA) ρ)).bind fun ρ₁ =>
        (satConds I condsA ρ₁).bind fun ρ₂ =>
          if proj colsB rowB == keyOf I (bindKey argsA colsA (proj colsA rowA) ρ) argsB colsB then
            (bindArgs (fun _ v => preB.contains v) 0 argsB rowB ρ₂).bind fun ρ₃ => satConds I condsB ρ₃
          else none := by
  unfold planPair
  by_cases hc : (proj colsB rowB == keyOf I (bindKey argsA colsA (proj colsA rowA) ρ) argsB colsB) = true
  · simp only [if_pos hc]
  · simp only [if_neg hc]
    cases bindArgs (fun j _ => colsA.contains j) 0 argsA rowA (bindKey argsA colsA (proj colsA rowA) ρ) with
    | none => rfl
    | some ρ₁ =>
      simp only [Option.bind_some]
      cases satConds I condsA ρ₁ <;> rfl

/-- **the pair lemma, original order** -/
theorem pairN (I : Interp E B G P A) (hI : Ext I) (ctx : JoinCtx gk gk1 a1 c1 a2 cols1 cols2 pre2) (c2 : List (Cond E B P))
    (ρ : Env) (hdom : DomEq ρ gk) (row1 row2 : Tuple) :
    OptEnvEq (planPair I cols1 a1 c1 cols2 a2 c2 pre2 ρ row1 row2) (semPair I ρ a1 c1 a2 c2 row1 row2) := by
  rw [planPair_inner]
  unfold semPair
  rw [matchArgs_allNew I ρ gk hdom a1 ctx.a1vars ctx.nd1 row1]
  by_cases hlen : row1.length = a1.length
  case neg =>
    rw [bindArgs_none _ a1 row1 0 _ hlen, bindArgs_none _ a1 row1 0 _ hlen]
    trivial
  obtain ⟨hnd, hsub, hkeys, hjoin⟩ := first_clause ctx row1 hlen
  rw [bindArgs_closed _ a1 row1 0 _ hlen, bindArgs_closed _ a1 row1 0 _ hlen, bindKey_closed]
  generalize hS : (bl (fun _ v => gk.contains v) 0 a1 row1).reverse = S1 at hnd hsub hkeys hjoin
  generalize hN : (bl (fun j _ => cols1.contains j) 0 a1 row1).reverse = N1 at hsub hkeys
  generalize hKb : (kb a1 row1 cols1).reverse = Kb at hsub hkeys hjoin
  have heq1 : EnvEq (N1 ++ (Kb ++ ρ)) (S1 ++ ρ) := by
    rw [← List.append_assoc]
    exact EnvEq.of_subset ρ hsub hkeys hnd
  have hsubK : ∀ p ∈ Kb, p ∈ S1 := fun p hp => hsub p (List.mem_append_right _ hp)
  simp only [Option.bind_some]
  apply (satConds_envEq I hI c1 heq1).bind
  intro ρ₂p ρ₂s h2p h2s heq2
  -- the environment before the second clause
  have hdom2 : DomEq ρ₂s gk1 := by
    intro v
    rw [satConds_keys I c1 _ ρ₂s h2s v, keys_append, List.mem_append, ctx.hgk1 v, ← hdom v, ← hS,
      show keys (bl (fun _ v => gk.contains v) 0 a1 row1).reverse = (keys (bl (fun _ v => gk.contains v) 0 a1 row1)).reverse
        from by simp [keys], List.mem_reverse, keys_bl gk a1 row1 0 hlen]
    have : freshVars gk a1 = a1.filterMap argVar? := by
      unfold freshVars
      rw [List.filter_eq_self]
      intro v hv
      obtain ⟨a, ha, hav⟩ := List.mem_filterMap.1 hv
      obtain ⟨v', rfl, hng⟩ := ctx.a1vars a ha
      simp only [argVar?, Option.some.injEq] at hav
      subst hav
      rw [contains_false_of_not_mem hng]; rfl
    rw [this]
    constructor
    · rintro ((h | h) | h)
      · exact .inr (.inl h)
      · exact .inl h
      · exact .inr (.inr h)
    · rintro (h | h | h)
      · exact .inl (.inr h)
      · exact .inl (.inl h)
      · exact .inr h
  -- the key of the second clause does not depend on where it is evaluated
  have hkey : keyOf I (Kb ++ ρ) a2 cols2 = keyOf I ρ₂s a2 cols2 := by
    unfold keyOf
    rw [List.map_inj_left]
    intro j hj
    obtain ⟨a, ha, _⟩ := (ctx.hcols2 j).1 hj
    rw [ha]
    obtain ⟨v, rfl, hvc⟩ := ctx.a2vars a (List.mem_of_getElem? ha)
    have hv2 : v ∈ a2.filterMap argVar? := List.mem_filterMap.2 ⟨_, List.mem_of_getElem? ha, rfl⟩
    simp only [argVal]
    congr 1
    obtain ⟨C, hC, hCk⟩ := satConds_form I c1 _ ρ₂s h2s
    have hvC : v ∉ keys C := fun h => hvc ((hCk v).1 h)
    have e1 : Env.get? (C ++ (S1 ++ ρ)) v = Env.get? (S1 ++ ρ) v := by
      rw [get?_append, (get?_eq_none_iff C v).2 hvC]
    rw [hC, e1, get?_append, get?_append]
    cases hg : Env.get? Kb v with
    | some x => rw [get?_of_mem_nodup hnd (hsubK _ (get?_mem hg))]
    | none =>
      have hnk : v ∉ keys Kb := (get?_eq_none_iff Kb v).1 hg
      have hns : v ∉ keys S1 := fun h => hnk (hjoin v hv2 h)
      rw [(get?_eq_none_iff S1 v).2 hns]
  rw [hkey]
  have hm := clause_row_eq I ρ₂s gk1 pre2 hdom2 ctx.hpre2 a2 cols2 ctx.hcols2 ctx.nd2 row2
  rw [← hm]
  by_cases hc : (proj cols2 row2 == keyOf I ρ₂s a2 cols2) = true
  · rw [if_pos hc, if_pos hc]
    exact (bindArgs_envEq _ a2 row2 0 _ _ heq2).bind fun a b _ _ hab => satConds_envEq I hI c2 hab
  · rw [if_neg hc, if_neg hc]
    trivial

theorem semPair_dom (I : Interp E B G P A) (ρ : Env) (hdom : DomEq ρ gk) (c2 : List (Cond E B P)) (gk2 : List Var)
    (hgk1 : ∀ v, v ∈ gk1 ↔ v ∈ gk ∨ v ∈ a1.filterMap argVar? ∨ v ∈ c1.flatMap Cond.boundVars)
    (hgk2 : ∀ v, v ∈ gk2 ↔ v ∈ gk1 ∨ v ∈ a2.filterMap argVar? ∨ v ∈ c2.flatMap Cond.boundVars)
    (row1 row2 : Tuple) (ρ₄ : Env) (h : semPair I ρ a1 c1 a2 c2 row1 row2 = some ρ₄) : DomEq ρ₄ gk2 := by
  unfold semPair at h
  cases h1 : matchArgs I ρ a1 row1 ρ with
  | none => rw [h1] at h; cases h
  | some ρ₁ =>
    rw [h1] at h; simp only [Option.bind_some] at h
    cases h2 : satConds I c1 ρ₁ with
    | none => rw [h2] at h; cases h
    | some ρ₂ =>
      rw [h2] at h; simp only [Option.bind_some] at h
      cases h3 : matchArgs I ρ₂ a2 row2 ρ₂ with
      | none => rw [h3] at h; cases h
      | some ρ₃ =>
        rw [h3] at h; simp only [Option.bind_some] at h
        intro v
        rw [satConds_keys I c2 ρ₃ ρ₄ h v, matchArgs_keys I ρ₂ a2 row2 ρ₂ ρ₃ h3 v, satConds_keys I c1 ρ₁ ρ₂ h2 v,
          matchArgs_keys I ρ a1 row1 ρ ρ₁ h1 v, hgk2 v, hgk1 v, hdom v]
        simp only [or_assoc]

/-- **the simple-join step, original order**: for ANY environment whose domain is the grounded set, the nested
`iter_all` / `index_get` loops reach, up to a permutation, environments look-up-equal to those of the filter
evaluation of the two clauses -/
theorem joinStep_sem (I : Interp E B G P A) (hI : Ext I) (ctx : JoinCtx gk gk1 a1 c1 a2 cols1 cols2 pre2)
    (c2 : List (Cond E B P)) (gk2 : List Var)
    (hgk2 : ∀ v, v ∈ gk2 ↔ v ∈ gk1 ∨ v ∈ a2.filterMap argVar? ∨ v ∈ c2.flatMap Cond.boundVars)
    (rows1 : List Tuple) (bag1 : List Nat) (rows2 : List Tuple) (bag2 : List Nat) (ρ : Env) (hdom : DomEq ρ gk)
    (k k' : Env → List Env) (hk : ∀ ρp ρs, EnvEq ρp ρs → DomEq ρs gk2 → PermEq (k ρp) (k' ρs)) :
    PermEq (joinStep I rows1 bag1 cols1 a1 c1 rows2 bag2 cols2 a2 c2 pre2 ρ k)
      (semClause I rows1 bag1 a1 c1 ρ fun ρ₂ => semClause I rows2 bag2 a2 c2 ρ₂ k') := by
  refine (PermEq.of_perm (joinStep_perm I rows1 bag1 cols1 a1 c1 rows2 bag2 cols2 a2 c2 pre2 ρ k)).trans ?_
  rw [semJoin_eq]
  apply PermEq.flatMap
  intro i1 _
  apply PermEq.flatMap
  intro i2 _
  have hp := pairN I hI ctx c2 ρ hdom (rowAt rows1 i1) (rowAt rows2 i2)
  cases hs : semPair I ρ a1 c1 a2 c2 (rowAt rows1 i1) (rowAt rows2 i2) with
  | none =>
    cases hq : planPair I cols1 a1 c1 cols2 a2 c2 pre2 ρ (rowAt rows1 i1) (rowAt rows2 i2) with
    | none => exact PermEq.refl _
    | some a => rw [hs, hq] at hp; exact hp.elim
  | some b =>
    cases hq : planPair I cols1 a1 c1 cols2 a2 c2 pre2 ρ (rowAt rows1 i1) (rowAt rows2 i2) with
    | none => rw [hs, hq] at hp; exact hp.elim
    | some a =>
      rw [hs, hq] at hp
      exact hk a b hp (semPair_dom I ρ hdom c2 gk2 ctx.hgk1 hgk2 _ _ b hs)

end

end AscentVerif.Plan
