import AscentVerif.Proofs.PhysSim
/-!
# Multiplicities of the physical hash indices, and what an aggregation's `index_get` returns

`IxOk` (`Proofs/PhysIdx.lean`) relates a hash index to a bag of row numbers by MEMBERSHIP of its entries; an aggregator
sees the matching rows with their multiplicity.  `IxM rows bag cols m`: under every key the index `m` holds, up to
permutation, one value per entry of the bag whose projection on `cols` is that key.  Established by `update_indices`,
kept by the head update and the merge (`Idx.vals_insert`, `Idx.mergeStep_spec` of C19).

`aggBag_perm_core`: the bag an aggregator receives from `index_get` on the plan's index is a permutation of the bag it
receives from the filter semantics (`aggTuples`: the stored entries, de-duplicated for a full-key item).
-/
namespace AscentVerif.Phys
open AscentVerif AscentVerif.Engine AscentVerif.Index

variable {E B G P A : Type}

/-! ## the multiset of values under every key -/

def IxMT (ts : List Tuple) (cols : List Nat) (m : PIx) : Prop :=
  ∀ k, (Idx.vals m k).Perm ((ts.filter fun t => Plan.proj cols t == k).map (projC cols))

def IxM (rows : List Tuple) (bag cols : List Nat) (m : PIx) : Prop := IxMT (bagTuples rows bag) cols m

theorem IxMT_nil (cols : List Nat) : IxMT [] cols [] := by
  intro k
  simp [Idx.vals, Idx.get, HMap.get?_nil]

theorem IxM_nil (rows : List Tuple) (cols : List Nat) : IxM rows [] cols [] := IxMT_nil cols

theorem IxMT_insert {ts : List Tuple} {cols : List Nat} {m : PIx} (t : Tuple) (h : IxMT ts cols m) :
    IxMT (ts ++ [t]) cols (Idx.insert m (Plan.proj cols t) (projC cols t)) := by
  intro k
  rw [Idx.vals_insert, List.filter_append, List.map_append]
  by_cases hk : k = Plan.proj cols t
  · subst hk
    rw [if_pos rfl]
    have h1 : ([t].filter fun t' => Plan.proj cols t' == Plan.proj cols t) = [t] := by simp
    rw [h1]
    exact (h _).append_right _
  · rw [if_neg hk]
    have h1 : ([t].filter fun t' => Plan.proj cols t' == k) = [] := by
      simp only [List.filter_cons, List.filter_nil]
      have : (Plan.proj cols t == k) = false := by simpa using fun e => hk e.symm
      rw [this]; rfl
    rw [h1]
    simpa using h k

theorem IxMT_foldl (cols : List Nat) : ∀ (rows ts : List Tuple) (m : PIx), IxMT ts cols m →
    IxMT (ts ++ rows) cols (rows.foldl (fun m row => Idx.insert m (Plan.proj cols row) (projC cols row)) m)
  | [], ts, m, h => by simpa using h
  | r :: rows, ts, m, h => by
    rw [List.foldl_cons]
    have := IxMT_foldl cols rows (ts ++ [r]) _ (IxMT_insert r h)
    simpa [List.append_assoc] using this

theorem bagTuples_range (rows : List Tuple) : bagTuples rows (List.range rows.length) = rows := by
  unfold bagTuples
  apply List.ext_getElem
  · simp
  · intro i h1 h2
    simp [rowAt, List.getD_eq_getElem?_getD, List.getElem?_eq_getElem h2]

/-- `update_indices` -/
theorem IxM_build (cols : List Nat) (rows : List Tuple) : IxM rows (List.range rows.length) cols (buildIx cols rows) := by
  unfold IxM
  rw [bagTuples_range]
  have := IxMT_foldl cols rows [] [] (IxMT_nil cols)
  simpa [buildIx, buildIx.proj] using this

theorem bagTuples_rows_append {rows : List Tuple} {bag : List Nat} (t : Tuple) (hb : ∀ i ∈ bag, i < rows.length) :
    bagTuples (rows ++ [t]) bag = bagTuples rows bag := by
  unfold bagTuples
  apply List.map_congr_left
  intro i hi
  exact rowAt_append_left rows [t] i (hb i hi)

theorem IxM_rows_append {rows : List Tuple} {bag cols : List Nat} {m : PIx} (t : Tuple) (h : IxM rows bag cols m)
    (hb : ∀ i ∈ bag, i < rows.length) : IxM (rows ++ [t]) bag cols m := by
  unfold IxM
  rw [bagTuples_rows_append t hb]
  exact h

/-- head update: `index_insert(new, key, value)` of the pushed row -/
theorem IxM_insert {rows : List Tuple} {bag cols : List Nat} {m : PIx} (t : Tuple) (h : IxM rows bag cols m)
    (hb : ∀ i ∈ bag, i < rows.length) :
    IxM (rows ++ [t]) (bag ++ [rows.length]) cols (Idx.insert m (Plan.proj cols t) (projC cols t)) := by
  unfold IxM
  have h1 : bagTuples (rows ++ [t]) (bag ++ [rows.length]) = bagTuples rows bag ++ [t] := by
    have := bagTuples_rows_append (rows := rows) (bag := bag) t hb
    unfold bagTuples at this ⊢
    rw [List.map_append, this]
    simp [rowAt_length_append]
  rw [h1]
  exact IxMT_insert t h

/-- `merge_delta_to_total_new_to_delta` -/
theorem IxM_shift {rows : List Tuple} {bt bd bn cols : List Nat} {t : Tri PIx}
    (ht : IxM rows bt cols t.total) (hd : IxM rows bd cols t.delta) (hn : IxM rows bn cols t.new)
    (hdk : NoDupKeys t.delta) (htk : NoDupKeys t.total) :
    IxM rows (bt ++ bd) cols (shiftIx t).total ∧ IxM rows bn cols (shiftIx t).delta := by
  obtain ⟨_, s2, _, s4, _⟩ := Idx.mergeStep_spec t.new t.delta t.total hdk htk
  refine ⟨?_, ?_⟩
  · intro k
    show (Idx.vals (Idx.mergeStep t.new t.delta t.total).2.2 k).Perm _
    refine (s4 k).trans ?_
    have hb : bagTuples rows (bt ++ bd) = bagTuples rows bt ++ bagTuples rows bd := by simp [bagTuples]
    rw [hb, List.filter_append, List.map_append]
    exact (ht k).append (hd k)
  · show IxM rows bn cols (Idx.mergeStep t.new t.delta t.total).2.1
    rw [s2]
    exact hn

theorem lookupIx_M {ixr : List (List Nat)} {rows : List Tuple} {bag : List Nat} {idxs : List (List Nat × PIx)}
    {cols : List Nat} (hm : idxs.map (·.1) = ixr) (hc : cols ∈ ixr) (h : ∀ ci ∈ idxs, IxM rows bag ci.1 ci.2) :
    IxM rows bag cols (lookupIx idxs cols) := by
  unfold lookupIx
  cases hf : idxs.find? (·.1 == cols) with
  | none =>
    rw [← hm, List.mem_map] at hc
    obtain ⟨ci, hci, e⟩ := hc
    have := List.find?_eq_none.mp hf ci hci
    simp [e] at this
  | some ci =>
    have h1 := List.mem_of_find?_eq_some hf
    have h2 := List.find?_some hf
    have e : ci.1 = cols := by simpa using h2
    have h3 := h ci h1
    rw [e] at h3
    exact h3

/-! ## the key positions of an aggregated clause -/

theorem keyPositions_cons (x : AggArg E) (as : List (AggArg E)) :
    keyPositions (x :: as) =
      (match x with
        | .key _ => [0]
        | _ => []) ++ (keyPositions as).map (· + 1) := by
  unfold keyPositions
  rw [List.length_cons, List.range_succ_eq_map, List.filter_cons, List.filter_map]
  simp only [Function.comp_def, Nat.succ_eq_add_one, List.getElem?_cons_succ, List.getElem?_cons_zero]
  cases x <;> simp

theorem proj_map_succ (l : List Nat) (y : Val) (ys : Tuple) : Plan.proj (l.map (· + 1)) (y :: ys) = Plan.proj l ys := by
  simp [Plan.proj, List.map_map, Function.comp_def]

theorem aggKey_cons_key (I : Interp E B G P A) (ρ : Env) (e : E) (as : List (AggArg E)) :
    aggKey I ρ (.key e :: as) = I.expr e ρ :: aggKey I ρ as := by
  simp [aggKey]

theorem aggKey_cons_wild (I : Interp E B G P A) (ρ : Env) (as : List (AggArg E)) :
    aggKey I ρ (.wild :: as) = aggKey I ρ as := by
  simp [aggKey]

theorem aggKey_cons_bound (I : Interp E B G P A) (ρ : Env) (v : Var) (as : List (AggArg E)) :
    aggKey I ρ (.bound v :: as) = aggKey I ρ as := by
  simp [aggKey]

/-- a tuple accepted by `matchAggArgs` has the clause's length and its key columns hold the evaluated key -/
theorem matchAggArgs_key (I : Interp E B G P A) (ρ : Env) : ∀ (args : List (AggArg E)) (t : Tuple) (acc acc' : Env),
    matchAggArgs I ρ args t acc = some acc' →
      t.length = args.length ∧ Plan.proj (keyPositions args) t = aggKey I ρ args
  | [], [], _, _, _ => by simp [keyPositions, Plan.proj, aggKey]
  | [], _ :: _, _, _, h => by simp [matchAggArgs] at h
  | _ :: _, [], _, _, h => by simp [matchAggArgs] at h
  | .wild :: as, y :: ys, acc, acc', h => by
    simp only [matchAggArgs] at h
    obtain ⟨h1, h2⟩ := matchAggArgs_key I ρ as ys acc acc' h
    rw [keyPositions_cons, aggKey_cons_wild]
    simp only [List.nil_append, proj_map_succ]
    exact ⟨by simp [h1], h2⟩
  | .bound v :: as, y :: ys, acc, acc', h => by
    simp only [matchAggArgs] at h
    have h' : ∃ acc₁, matchAggArgs I ρ as ys acc₁ = some acc' := by
      split at h
      · split at h
        · exact ⟨_, h⟩
        · cases h
      · exact ⟨_, h⟩
    obtain ⟨acc₁, h'⟩ := h'
    obtain ⟨h1, h2⟩ := matchAggArgs_key I ρ as ys acc₁ acc' h'
    rw [keyPositions_cons, aggKey_cons_bound]
    simp only [List.nil_append, proj_map_succ]
    exact ⟨by simp [h1], h2⟩
  | .key e :: as, y :: ys, acc, acc', h => by
    simp only [matchAggArgs] at h
    split at h
    · rename_i he
      obtain ⟨h1, h2⟩ := matchAggArgs_key I ρ as ys acc acc' h
      rw [keyPositions_cons, aggKey_cons_key]
      refine ⟨by simp [h1], ?_⟩
      show Plan.proj ([0] ++ (keyPositions as).map (· + 1)) (y :: ys) = _
      have : Plan.proj ([0] ++ (keyPositions as).map (· + 1)) (y :: ys) =
          y :: Plan.proj ((keyPositions as).map (· + 1)) (y :: ys) := by
        simp [Plan.proj]
      rw [this, proj_map_succ, h2, he]
    · cases h

theorem keyPositions_length_le (args : List (AggArg E)) : (keyPositions args).length ≤ args.length := by
  unfold keyPositions
  exact Nat.le_trans (List.length_filter_le _ _) (by simp)

/-- every argument is a key iff the key positions are all the columns -/
theorem aggIsFull_iff (a : AggClause E A) : aggIsFull a = true ↔ (keyPositions a.args).length = a.args.length := by
  unfold aggIsFull
  generalize a.args = args
  induction args with
  | nil => simp [keyPositions]
  | cons x as ih =>
    have hle := keyPositions_length_le as
    rw [keyPositions_cons]
    cases x with
    | wild => simp; omega
    | bound v => simp; omega
    | key e =>
      simp only [List.all_cons, Bool.true_and, List.length_append, List.length_cons, List.length_nil, List.length_map]
      rw [ih]
      omega

theorem keyPositions_eq_filter (args : List (AggArg E)) :
    ∃ q : Nat → Bool, keyPositions args = (List.range args.length).filter q := ⟨_, rfl⟩

theorem keyPositions_full (args : List (AggArg E)) (h : (keyPositions args).length = args.length) :
    keyPositions args = List.range args.length := by
  obtain ⟨q, hq⟩ := keyPositions_eq_filter args
  rw [hq] at h ⊢
  have h' : ((List.range args.length).filter q).length = (List.range args.length).length := by rw [h]; simp
  exact List.filter_eq_self.mpr (List.length_filter_eq_length_iff.mp h')

/-- `rebuild_proj` of `Proofs/PhysIdx.lean` does not need the columns to be increasing -/
theorem rebuild_proj' (cols : List Nat) (row : Tuple) :
    rebuild cols row.length (Plan.proj cols row) (projC cols row) = row := by
  apply List.ext_getElem
  · simp [rebuild]
  · intro j h1 h2
    simp only [rebuild, List.getElem_map, List.getElem_range]
    cases ht : cols.idxOf? j with
    | some t =>
      have h3 := List.findIdx?_eq_some_iff_getElem.mp ht
      obtain ⟨htl, heq, _⟩ := h3
      have hc : cols[t] = j := by simpa using heq
      simp only [Plan.proj, List.getD_eq_getElem?_getD, List.getElem?_map, List.getElem?_eq_getElem htl, hc,
        List.getElem?_eq_getElem h2, Option.map_some, Option.getD_some]
    | none =>
      have hnot : j ∉ cols := List.idxOf?_eq_none_iff.mp ht
      have hp : (fun i => !cols.contains i) j = true := by simpa using hnot
      have := filter_range_getElem? (fun i => !cols.contains i) row.length j h2 hp
      simp only [projC, rank, List.getD_eq_getElem?_getD, List.getElem?_map, this, List.getElem?_eq_getElem h2,
        Option.map_some, Option.getD_some]

/-! ## list facts -/

theorem filterMap_filter_none {α β : Type} (f : α → Option β) (q : α → Bool) (hq : ∀ t, q t = false → f t = none) :
    ∀ l : List α, (l.filter q).filterMap f = l.filterMap f
  | [] => rfl
  | x :: l => by
    cases hx : q x with
    | true => rw [List.filter_cons_of_pos (by simpa using hx), List.filterMap_cons, List.filterMap_cons,
        filterMap_filter_none f q hq l]
    | false =>
      rw [List.filter_cons_of_neg (by simp [hx]), List.filterMap_cons, hq x hx, filterMap_filter_none f q hq l]

theorem filter_eq_key_perm {α : Type} [BEq α] [LawfulBEq α] (l : List α) (hnd : l.Nodup) (k : α) :
    (l.filter fun x => x == k).Perm (if k ∈ l then [k] else []) := by
  have hnd' : (l.filter fun x => x == k).Nodup := List.Pairwise.filter _ hnd
  by_cases hk : k ∈ l
  · rw [if_pos hk, List.perm_ext_iff_of_nodup hnd' (by simp)]
    intro x
    simp only [List.mem_filter, beq_iff_eq, List.mem_singleton]
    constructor
    · rintro ⟨_, e⟩; exact e
    · rintro rfl; exact ⟨hk, rfl⟩
  · rw [if_neg hk, List.perm_ext_iff_of_nodup hnd' List.nodup_nil]
    intro x
    simp only [List.mem_filter, beq_iff_eq, List.not_mem_nil, iff_false, not_and]
    intro hx e
    exact hk (e ▸ hx)

/-! ## what the aggregator receives -/

/-- **the bag handed to the aggregator**: `index_get` with the evaluated key on the index over the key positions (the full
index if every argument is a key) against the filter semantics over all stored entries -/
theorem aggBag_perm_core (I : Interp E B G P A) (ag : AggClause E A) (ρ : Env) (arity : Nat) (ts : List Tuple)
    (full : FIx) (idxs : List (List Nat × PIx)) (hlen : ag.args.length = arity) (hty : ∀ t ∈ ts, t.length = arity)
    (hfull : ∀ t, FullIdx.containsKey full t = true ↔ t ∈ ts)
    (hidx : (keyPositions ag.args).length ≠ arity →
      IxMT ts (keyPositions ag.args) (lookupIx idxs (keyPositions ag.args))) :
    (aggBag I ag ρ (get1 arity full idxs (keyPositions ag.args) (aggKey I ρ ag.args))).Perm
      (aggBag I ag ρ (if aggIsFull ag then dedupTuples ts else ts)) := by
  unfold aggBag
  generalize hf : (fun t => (matchAggArgs I ρ ag.args t []).map fun acc =>
    ag.boundArgs.map fun v => (acc.get? v).getD Val.unit) = f
  have hnone : ∀ t, (Plan.proj (keyPositions ag.args) t == aggKey I ρ ag.args) = false → f t = none := by
    intro t ht
    rw [← hf]
    cases hm : matchAggArgs I ρ ag.args t [] with
    | none => simp [hm]
    | some acc' =>
      have := (matchAggArgs_key I ρ ag.args t [] acc' hm).2
      rw [this] at ht
      simp at ht
  unfold get1
  by_cases hl : (keyPositions ag.args).length = arity
  · -- the full index
    have hfl : aggIsFull ag = true := (aggIsFull_iff ag).mpr (by rw [hl, hlen])
    have hcols := keyPositions_full ag.args (by rw [hl, hlen])
    have hbeq : ((keyPositions ag.args).length == arity) = true := by simpa using hl
    rw [hfl, if_pos rfl, hbeq, if_pos rfl]
    have hnone' : ∀ t, (t == aggKey I ρ ag.args) = false → f t = none := by
      intro t ht
      rw [← hf]
      cases hm : matchAggArgs I ρ ag.args t [] with
      | none => simp [hm]
      | some acc' =>
        obtain ⟨h1, h2⟩ := matchAggArgs_key I ρ ag.args t [] acc' hm
        rw [hcols, ← h1, proj_range] at h2
        rw [h2] at ht
        simp at ht
    have hnd : (dedupTuples ts).Nodup := Plan.eraseDups_nodup _ ts (Nat.le_refl _)
    rw [← filterMap_filter_none f (fun t => t == aggKey I ρ ag.args) hnone' (dedupTuples ts)]
    refine List.Perm.filterMap f ?_
    refine List.Perm.trans ?_ (filter_eq_key_perm (dedupTuples ts) hnd (aggKey I ρ ag.args)).symm
    have hmem : aggKey I ρ ag.args ∈ dedupTuples ts ↔ FullIdx.containsKey full (aggKey I ρ ag.args) = true := by
      rw [hfull]; exact mem_eraseDups' _ ts
    by_cases hc : FullIdx.containsKey full (aggKey I ρ ag.args) = true
    · rw [if_pos hc, if_pos (hmem.mpr hc)]
    · rw [if_neg hc, if_neg (fun h => hc (hmem.mp h))]
  · -- a hash index
    have hfl : aggIsFull ag = false := by
      cases h : aggIsFull ag with
      | false => rfl
      | true => exact absurd (by rw [(aggIsFull_iff ag).mp h, hlen]) hl
    have hbeq : ((keyPositions ag.args).length == arity) = false := by simpa using hl
    rw [hfl, hbeq]
    simp only [Bool.false_eq_true, if_false]
    rw [← filterMap_filter_none f _ hnone ts]
    refine List.Perm.filterMap f ?_
    have hp := (hidx hl (aggKey I ρ ag.args)).map (rebuild (keyPositions ag.args) arity (aggKey I ρ ag.args))
    refine hp.trans (List.Perm.of_eq ?_)
    rw [List.map_map]
    have : ∀ t ∈ ts.filter (fun t => Plan.proj (keyPositions ag.args) t == aggKey I ρ ag.args),
        (rebuild (keyPositions ag.args) arity (aggKey I ρ ag.args) ∘ projC (keyPositions ag.args)) t = t := by
      intro t ht
      obtain ⟨h1, h2⟩ := List.mem_filter.mp ht
      have h2' : Plan.proj (keyPositions ag.args) t = aggKey I ρ ag.args := by simpa using h2
      have h3 := hty t h1
      show rebuild (keyPositions ag.args) arity (aggKey I ρ ag.args) (projC (keyPositions ag.args) t) = t
      rw [← h2', ← h3]
      exact rebuild_proj' _ t
    rw [List.map_congr_left this, List.map_id']

end AscentVerif.Phys
