import AscentVerif.Proofs.PhysParSim
/-!
# The parallel physical engine is one execution of the nondeterministic engine, and never panics

Rule evaluation over the frozen indices (`evalRulePar`, `iterTasksPar`), one iteration (`iteration` is a `PassND`), the loop,
one SCC, the SCCs in order: the `Res`-valued mirror of `Proofs/PhysRun.lean`.
-/
namespace AscentVerif.PhysPar
open AscentVerif AscentVerif.Engine AscentVerif.Index AscentVerif.Phys

variable {E B G P A : Type}

/-! ## the views a rule reads are frozen -/

theorem viewFrozen_ok {N : Nat} {bo : List RelId} {s : PCScc} (hfl : Flags N bo true s) (r : RelId) (v : Option Ver)
    (h : findPCDyn s.dyn r = none → bo.contains r = true ∧ r < s.rels.length) : viewFrozen s r v = true := by
  unfold viewFrozen
  cases hd : findPCDyn s.dyn r with
  | none =>
    obtain ⟨hb, hr⟩ := h hd
    obtain ⟨f1, f2⟩ := hfl.rels r hr
    rw [hb] at f1 f2
    simp only [Bool.and_eq_true, List.all_eq_true]
    exact ⟨f1, fun ci hci => (f2 ci hci).2⟩
  | some d =>
    obtain ⟨hf, _⟩ := hfl.dyn d (findPCDyn_mem hd)
    have hall : ∀ ci ∈ d.idxs, ci.2.total.isFrozen = true ∧ ci.2.delta.isFrozen = true := by
      intro ci hci
      obtain ⟨_, _, _, f1, f2, _⟩ := hf.ix ci hci
      exact ⟨f1, f2⟩
    have hT : (d.full.total.frozen && d.idxs.all fun ci => ci.2.total.isFrozen) = true := by
      simp only [Bool.and_eq_true, List.all_eq_true]
      exact ⟨hf.ft, fun ci hci => (hall ci hci).1⟩
    cases v with
    | none => exact hT
    | some v =>
      cases v with
      | total => exact hT
      | delta =>
        simp only [Bool.and_eq_true, List.all_eq_true]
        exact ⟨hf.fd, fun ci hci => (hall ci hci).2⟩
      | totalDelta =>
        simp only [Bool.and_eq_true, List.all_eq_true]
        exact ⟨⟨hf.ft, hf.fd⟩, fun ci hci => hall ci hci⟩

theorem clausesOf_rel : ∀ (body : List (Item E B G P A)) (i : Nat) (vs : List (Option Ver)),
    ∀ c ∈ clausesOf i body vs, c.2.1 ∈ body.filterMap Item.rel?
  | [], _, _, c, hc => by simp [clausesOf] at hc
  | .clause r args conds :: rest, i, vs, c, hc => by
    simp only [clausesOf, List.mem_cons] at hc
    show c.2.1 ∈ r :: rest.filterMap Item.rel?
    rcases hc with rfl | hc
    · exact List.mem_cons_self
    · exact List.mem_cons_of_mem _ (clausesOf_rel rest (i + 1) vs.tail c hc)
  | .cond _ :: rest, i, vs, c, hc => by
    simp only [clausesOf] at hc
    show c.2.1 ∈ rest.filterMap Item.rel?
    exact clausesOf_rel rest (i + 1) vs.tail c hc
  | .gen _ _ :: rest, i, vs, c, hc => by
    simp only [clausesOf] at hc
    show c.2.1 ∈ rest.filterMap Item.rel?
    exact clausesOf_rel rest (i + 1) vs.tail c hc
  | .agg a :: rest, i, vs, c, hc => by
    simp only [clausesOf] at hc
    show c.2.1 ∈ a.rel :: rest.filterMap Item.rel?
    exact List.mem_cons_of_mem _ (clausesOf_rel rest (i + 1) vs.tail c hc)

/-! ## the aggregated relations of a body -/

theorem mem_aggsOf : ∀ (body : List (Item E B G P A)) (r : RelId), r ∈ aggsOf body → ∃ ag, Item.agg ag ∈ body ∧ ag.rel = r
  | [], _, h => by simp [aggsOf] at h
  | .clause _ _ _ :: rest, r, h => by
    simp only [aggsOf] at h
    obtain ⟨ag, h1, h2⟩ := mem_aggsOf rest r h
    exact ⟨ag, List.mem_cons_of_mem _ h1, h2⟩
  | .cond _ :: rest, r, h => by
    simp only [aggsOf] at h
    obtain ⟨ag, h1, h2⟩ := mem_aggsOf rest r h
    exact ⟨ag, List.mem_cons_of_mem _ h1, h2⟩
  | .gen _ _ :: rest, r, h => by
    simp only [aggsOf] at h
    obtain ⟨ag, h1, h2⟩ := mem_aggsOf rest r h
    exact ⟨ag, List.mem_cons_of_mem _ h1, h2⟩
  | .agg a :: rest, r, h => by
    simp only [aggsOf, List.mem_cons] at h
    rcases h with rfl | h
    · exact ⟨a, List.mem_cons_self, rfl⟩
    · obtain ⟨ag, h1, h2⟩ := mem_aggsOf rest r h
      exact ⟨ag, List.mem_cons_of_mem _ h1, h2⟩

/-- an aggregation-free body aggregates nothing: the frozen check of `evalRulePar` on the aggregated relations is vacuous -/
theorem aggsOf_aggFree (r : Rule E B G P A) (h : r.aggFree = true) : aggsOf r.body = [] := by
  cases hb : aggsOf r.body with
  | nil => rfl
  | cons x xs =>
    obtain ⟨ag, h1, _⟩ := mem_aggsOf r.body x (by rw [hb]; exact List.mem_cons_self)
    have := List.all_eq_true.mp h _ h1
    simp [Item.isAgg] at this

/-! ## one MIR rule over the frozen indices -/

theorem anyEmptyPar_sound (I : Interp E B G P A) (cfg : Config) (p : Program E B G P A) (ix : IxSets) (a : SccSt) (s : PCScc)
    (hV : ViewsOk cfg p ix a s.erase) (h : Hir.HRule) (body : List (Item E B G P A)) (vs : List (Option Ver))
    (hok : ClOk p ix h 0 body) (he : anyEmptyPar p s h body vs = true) : evalBody I cfg p a body vs [] = [] := by
  simp only [anyEmptyPar, Bool.and_eq_true, List.any_eq_true] at he
  obtain ⟨_, c, hc, hemp⟩ := he
  apply evalBody_nil_of_empty I cfg p a body 0 vs [] ⟨c, hc, ?_⟩
  obtain ⟨h1, h2⟩ := clausesOf_ok body 0 vs hok c hc
  have hv := hV c.2.1 c.2.2 _ h1 h2
  apply hv.len.mp
  unfold isEmptyPar at hemp
  split at hemp
  · cases hemp
  · simpa [isEmptyV] using hemp

theorem evalRulePar_rows (I : Interp E B G P A) (hI : Plan.Ext I) (cfg : Config) (V : Hir.VarsOf E B) (hS : Plan.Supp I V)
    (p : Program E B G P A) (ix : IxSets) (σ : Sched E B G P A) (n : Nat) (a : SccSt) (s : PCScc)
    (hV : ViewsOk cfg p ix a s.erase) (r : Rule E B G P A) (hr : RuleFit V p ix r) (vs : List (Option Ver))
    (hfz : ∀ c ∈ clausesOf 0 r.body vs, viewFrozen s c.2.1 c.2.2 = true) :
    ∃ envs, evalRulePar I p σ n s (Hir.compileRule V r) r.body vs = .ok envs ∧
      ∀ x, x ∈ envs.flatMap (headRows I r.heads) ↔ x ∈ (evalBody I cfg p a r.body vs []).flatMap (headRows I r.heads) := by
  have hall : (clausesOf 0 r.body vs).all (fun c => viewFrozen s c.2.1 c.2.2) = true := List.all_eq_true.mpr hfz
  unfold evalRulePar
  rw [hall, aggsOf_aggFree r hr.aggFree]
  simp only [List.all_nil, Bool.and_self, Bool.not_true, Bool.false_eq_true, if_false]
  split
  · rename_i he
    refine ⟨[], rfl, fun x => ?_⟩
    rw [anyEmptyPar_sound I cfg p ix a s hV _ r.body vs hr.clok he]
  · refine ⟨_, rfl, fun x => ?_⟩
    have h1 : x ∈ (Phys.evalFrom I p s.erase (Hir.compileRule V r) (Plan.reorderable (Hir.compileRule V r) && σ.swap n) 0
          r.body vs []).flatMap (headRows I r.heads) ↔
        x ∈ (Plan.evalBodyPlan I cfg p a (Hir.compileRule V r) (Plan.reorderable (Hir.compileRule V r) && σ.swap n) r.body vs
          []).flatMap (headRows I r.heads) := by
      simp only [List.mem_flatMap, Plan.evalBodyPlan]
      constructor
      · rintro ⟨ρ, hρ, hx⟩
        exact ⟨ρ, (evalFrom_mem I cfg p ix a s.erase hV _ _ _ r.body 0 vs [] (Nat.le_refl _) hr.clok hr.aggFree ρ).mp hρ, hx⟩
      · rintro ⟨ρ, hρ, hx⟩
        exact ⟨ρ, (evalFrom_mem I cfg p ix a s.erase hV _ _ _ r.body 0 vs [] (Nat.le_refl _) hr.clok hr.aggFree ρ).mpr hρ, hx⟩
    rw [h1]
    cases hs : (Plan.reorderable (Hir.compileRule V r) && σ.swap n) with
    | false => exact mem_flatMap_of_map_perm _ (Plan.head_rows_perm I hI cfg p a V r hr.desug vs) x
    | true =>
      have hre : Plan.reorderable (Hir.compileRule V r) = true := by
        simp only [Bool.and_eq_true] at hs; exact hs.1
      exact mem_flatMap_of_map_perm _ (Plan.head_rows_perm_swapped I hI cfg p a V hS r hr.desug hr.wscoped hre vs) x

/-! ## the tasks of an iteration -/

theorem iterTasksPar_eq (I : Interp E B G P A) (V : Hir.VarsOf E B) (p : Program E B G P A) (σ : Sched E B G P A) (n : Nat)
    (dyn : List RelId) (rules : List (Rule E B G P A)) (s : PCScc) :
    iterTasksPar I V p σ n dyn rules s =
      foldRes (fun (acc : List (Rule E B G P A × Env)) (rv : Rule E B G P A × List (Option Ver)) =>
        evalRulePar I p σ (n + acc.length) s (Hir.compileRule V rv.1) rv.1.body rv.2 >>= fun envs =>
        pure (acc ++ envs.map fun ρ => (rv.1, ρ)))
        (rules.flatMap fun r => (variants dyn r).map fun vs => (r, vs)) [] := rfl

theorem iterTasksPar_rows (I : Interp E B G P A) (hI : Plan.Ext I) (cfg : Config) (V : Hir.VarsOf E B) (hS : Plan.Supp I V)
    (p : Program E B G P A) (ix : IxSets) (σ : Sched E B G P A) (n : Nat) (dynR : List RelId) (a : SccSt) (s : PCScc)
    (hV : ViewsOk cfg p ix a s.erase) (rules : List (Rule E B G P A)) (hR : ∀ r ∈ rules, RuleFit V p ix r)
    (hfz : ∀ r ∈ rules, ∀ vs, ∀ c ∈ clausesOf 0 r.body vs, viewFrozen s c.2.1 c.2.2 = true) :
    ∃ tasks, iterTasksPar I V p σ n dynR rules s = .ok tasks ∧ (∀ t ∈ tasks, t.1 ∈ rules) ∧
      ∀ x, x ∈ tasks.flatMap (fun t => headRows I t.1.heads t.2) ↔ x ∈ iterRows I cfg p dynR rules a := by
  obtain ⟨tasks, hfold, hin, hmem⟩ := foldRes_inv
    (fun (acc : List (Rule E B G P A × Env)) (rv : Rule E B G P A × List (Option Ver)) =>
      evalRulePar I p σ (n + acc.length) s (Hir.compileRule V rv.1) rv.1.body rv.2 >>= fun envs =>
      pure (acc ++ envs.map fun ρ => (rv.1, ρ)))
    (fun done acc => (∀ t ∈ acc, t.1 ∈ rules) ∧
      ∀ x, x ∈ acc.flatMap (fun t => headRows I t.1.heads t.2) ↔
        x ∈ done.flatMap fun rv => (evalBody I cfg p a rv.1.body rv.2 []).flatMap (headRows I rv.1.heads))
    (rules.flatMap fun r => (variants dynR r).map fun vs => (r, vs)) (by
      intro done acc rv hrv hinv
      have hrule : rv.1 ∈ rules := by
        obtain ⟨r, hr, hrv'⟩ := List.mem_flatMap.mp hrv
        obtain ⟨vs, _, rfl⟩ := List.mem_map.mp hrv'
        exact hr
      obtain ⟨envs, he, hrows⟩ := evalRulePar_rows I hI cfg V hS p ix σ (n + acc.length) a s hV rv.1 (hR _ hrule) rv.2
        (hfz _ hrule rv.2)
      refine ⟨acc ++ envs.map fun ρ => (rv.1, ρ), by rw [he]; rfl, ?_, ?_⟩
      · intro t ht
        rcases List.mem_append.mp ht with ht | ht
        · exact hinv.1 t ht
        · obtain ⟨ρ, _, rfl⟩ := List.mem_map.mp ht
          exact hrule
      · intro x
        rw [List.flatMap_append, List.mem_append, List.flatMap_append, List.mem_append, hinv.2 x, List.flatMap_map,
          List.flatMap_cons, List.flatMap_nil, List.append_nil, hrows x])
    [] ⟨fun t ht => (by cases ht), fun x => (by simp)⟩
  refine ⟨tasks, by rw [iterTasksPar_eq, hfold], hin, fun x => ?_⟩
  rw [hmem x, mem_iterRows]
  simp only [List.mem_flatMap, iterTasks, List.mem_map, mem_headRows]
  constructor
  · rintro ⟨rv, ⟨r, hr, vs, hvs, rfl⟩, ρ, hρ, hd, hhd, rfl⟩
    exact ⟨(r, ρ), ⟨r, hr, vs, hvs, ρ, hρ, rfl⟩, hd, hhd, rfl⟩
  · rintro ⟨t, ⟨r, hr, vs, hvs, ρ, hρ, rfl⟩, hd, hhd, rfl⟩
    exact ⟨(r, vs), ⟨r, hr, vs, hvs, rfl⟩, ρ, hρ, hd, hhd, rfl⟩


/-! ## one iteration -/

theorem iteration_eq (I : Interp E B G P A) (V : Hir.VarsOf E B) (p : Program E B G P A) (σ : Sched E B G P A) (k : Nat)
    (dyn : List RelId) (rules : List (Rule E B G P A)) (s : PCScc) :
    iteration I V p σ k dyn rules s =
      (iterTasksPar I V p σ (k * 1000003) dyn rules { s with dyn := s.dyn.map freezeDyn, changed := false } >>= fun tasks =>
       foldRes (fun (acc : PCScc × Nat) (t : Rule E B G P A × Env) =>
          foldRes (fun (st : PCScc) (h : HeadClause E) =>
            headRelPar st (σ.tid (k * 1000003 + acc.2)) h.rel (headRow I h t.2).2) t.1.heads acc.1 >>= fun s' =>
          pure (s', acc.2 + 1)) (σ.permTasks k tasks)
          (({ s with dyn := s.dyn.map freezeDyn, changed := false } : PCScc), 0) >>= fun s1 =>
       pure { s1.1 with dyn := s1.1.dyn.map unfreezeDyn }) := rfl

/-- the invariant of the head updates of an iteration -/
structure PIPar (p : Program E B G P A) (ix : IxSets) (dynR : List RelId) (N : Nat) (bo : List RelId) (a : SccSt)
    (s : PCScc) : Prop where
  wf : WF p.rels.length dynR a
  sim : Sim p ix a s.erase
  fl : Flags N bo true s

section Pass
variable (I : Interp E B G P A) (hI : Plan.Ext I) (cfg : Config) (V : Hir.VarsOf E B) (hS : Plan.Supp I V)
  (p : Program E B G P A) (hl : ∀ d ∈ p.rels, d.lat = false) (ix : IxSets) (dynR : List RelId)
  (hlt : ∀ r, dynR.contains r = true → r < p.rels.length) (N : Nat) (hN : 0 < N) (bo : List RelId)

include hlt hN in
theorem heads_simPar (heads : List (HeadClause E)) (hh : ∀ h ∈ heads, h.args.length = arityOf p h.rel) (ρ : Env)
    (tid : Nat) (a : SccSt) (s : PCScc) (h : PIPar p ix dynR N bo a s) :
    ∃ s', foldRes (fun (st : PCScc) (h : HeadClause E) => headRelPar st tid h.rel (headRow I h ρ).2) heads s = .ok s' ∧
      ∃ l, (∀ y, y ∈ l ↔ y ∈ headRows I heads ρ) ∧ PIPar p ix dynR N bo (applyRows a l) s' := by
  obtain ⟨s', hfold, l, hm, hinv⟩ := foldRes_inv
    (fun (st : PCScc) (h : HeadClause E) => headRelPar st tid h.rel (headRow I h ρ).2)
    (fun done st => ∃ l, (∀ y, y ∈ l ↔ y ∈ headRows I done ρ) ∧ PIPar p ix dynR N bo (applyRows a l) st)
    heads (by
      rintro done st hd hhd ⟨l, hm, hinv⟩
      obtain ⟨st', h1, h2, h3⟩ := headRelPar_sim hN hinv.sim hinv.wf hlt hinv.fl tid hd.rel (headRow I hd ρ).2
        (by show (hd.args.map _).length = _; rw [List.length_map]; exact hh hd hhd)
      obtain ⟨w1, _⟩ := headRel_wf_ext hlt hinv.wf (Ext.refl _) hd.rel (headRow I hd ρ).2
      refine ⟨st', h1, l ++ [(hd.rel, (headRow I hd ρ).2)], ?_, ?_⟩
      · intro y
        rw [List.mem_append, hm y]
        simp only [headRows, List.map_append, List.mem_append, List.map_cons, List.map_nil]
        rfl
      · rw [applyRows_append]
        exact ⟨w1, h2, h3⟩)
    s ⟨[], fun y => (by simp [headRows]), h⟩
  exact ⟨s', hfold, l, hm, hinv⟩

include hlt hN in
theorem tasks_simPar (σ : Sched E B G P A) (k : Nat) (rules : List (Rule E B G P A))
    (hR : ∀ r ∈ rules, RuleFit V p ix r) (tasks : List (Rule E B G P A × Env)) (ht : ∀ t ∈ tasks, t.1 ∈ rules)
    (a : SccSt) (s : PCScc) (h : PIPar p ix dynR N bo a s) :
    ∃ s1, foldRes (fun (acc : PCScc × Nat) (t : Rule E B G P A × Env) =>
          foldRes (fun (st : PCScc) (h : HeadClause E) =>
            headRelPar st (σ.tid (k * 1000003 + acc.2)) h.rel (headRow I h t.2).2) t.1.heads acc.1 >>= fun s' =>
          pure (s', acc.2 + 1)) tasks (s, 0) = .ok s1 ∧
      ∃ l, (∀ y, y ∈ l ↔ y ∈ tasks.flatMap fun t => headRows I t.1.heads t.2) ∧ PIPar p ix dynR N bo (applyRows a l) s1.1 := by
  obtain ⟨s1, hfold, l, hm, hinv⟩ := foldRes_inv
    (fun (acc : PCScc × Nat) (t : Rule E B G P A × Env) =>
      foldRes (fun (st : PCScc) (h : HeadClause E) =>
        headRelPar st (σ.tid (k * 1000003 + acc.2)) h.rel (headRow I h t.2).2) t.1.heads acc.1 >>= fun s' =>
      pure (s', acc.2 + 1))
    (fun done (acc : PCScc × Nat) => ∃ l, (∀ y, y ∈ l ↔ y ∈ done.flatMap fun t => headRows I t.1.heads t.2) ∧
      PIPar p ix dynR N bo (applyRows a l) acc.1)
    tasks (by
      rintro done acc t htm ⟨l, hm, hinv⟩
      obtain ⟨s', h1, l', hm', hinv'⟩ := heads_simPar I p ix dynR hlt N hN bo t.1.heads (hR _ (ht t htm)).heads t.2
        (σ.tid (k * 1000003 + acc.2)) _ acc.1 hinv
      refine ⟨(s', acc.2 + 1), by rw [h1]; rfl, l ++ l', ?_, ?_⟩
      · intro y
        rw [List.mem_append, hm y, hm' y, List.flatMap_append, List.mem_append]
        simp only [List.flatMap_cons, List.flatMap_nil, List.append_nil]
      · rw [applyRows_append]; exact hinv')
    (s, 0) ⟨[], fun y => (by simp), h⟩
  exact ⟨s1, hfold, l, hm, hinv⟩

include hI hS hl hlt hN in
/-- **one iteration** of the parallel physical engine never panics and is a pass of the nondeterministic engine -/
theorem iteration_sim (σ : Sched E B G P A) (k : Nat) (rules : List (Rule E B G P A))
    (hR : ∀ r ∈ rules, RuleFit V p ix r)
    (hbo : ∀ rule ∈ rules, ∀ r ∈ rule.bodyRels, dynR.contains r = false → bo.contains r = true ∧ r < p.rels.length)
    (a : SccSt) (s : PCScc) (hwf : WF p.rels.length dynR a) (hsim : Sim p ix a s.erase) (hfl : Flags N bo false s) :
    ∃ s1, iteration I V p σ k dynR rules s = .ok s1 ∧
      ∃ a1, PassND I cfg p dynR rules a a1 ∧ Sim p ix a1 s1.erase ∧ Flags N bo false s1 := by
  have hwf0 : WF p.rels.length dynR { a with changed := false } := WF_reset _ dynR hwf
  have hsim0 : Sim p ix { a with changed := false }
      (PCScc.erase { s with dyn := s.dyn.map freezeDyn, changed := false }) := by
    rw [erase_freezeAll]; exact reset_sim hsim
  have hfl0 := Flags_freezeAll hfl
  have hV := sim_viewsOk cfg p hl ix hsim0 hwf0
  -- the views are frozen
  have hfz : ∀ r ∈ rules, ∀ vs, ∀ c ∈ clausesOf 0 r.body vs,
      viewFrozen { s with dyn := s.dyn.map freezeDyn, changed := false } c.2.1 c.2.2 = true := by
    intro r hr vs c hc
    apply viewFrozen_ok hfl0
    intro hnone
    have hcr := clausesOf_rel r.body 0 vs c hc
    have hnd : dynR.contains c.2.1 = false := by
      rw [← hwf0.dyn_iff]
      rcases hsim0.dyn.find c.2.1 with ⟨h1, _⟩ | ⟨d, pd, _, h2, _⟩
      · rw [h1]; rfl
      · have : findPDyn (PCScc.erase { s with dyn := s.dyn.map freezeDyn, changed := false }).dyn c.2.1 =
            (findPCDyn (s.dyn.map freezeDyn) c.2.1).map PCDyn.erase := findPDyn_erase _ _
        rw [h2] at this
        have hnone' : findPCDyn (s.dyn.map freezeDyn) c.2.1 = none := hnone
        rw [hnone'] at this
        cases this
    obtain ⟨hb, hlt'⟩ := hbo r hr c.2.1 hcr hnd
    refine ⟨hb, ?_⟩
    show c.2.1 < s.rels.length
    have h1 : a.rels.length = s.rels.length := by
      have := hsim.len
      simpa [PCScc.erase] using this
    rw [← h1, hwf.len]; exact hlt'
  obtain ⟨tasks, htasks, htr, hrows⟩ := iterTasksPar_rows I hI cfg V hS p ix σ (k * 1000003) dynR _ _ hV rules hR hfz
  have hperm := σ.permTasks_perm k tasks
  obtain ⟨s1, hfold, l, hm, hinv⟩ := tasks_simPar I V p ix dynR hlt N hN bo σ k rules hR (σ.permTasks k tasks)
    (fun t ht => htr t (hperm.mem_iff.mp ht)) _ _ ⟨hwf0, hsim0, hfl0⟩
  refine ⟨{ s1.1 with dyn := s1.1.dyn.map unfreezeDyn }, by rw [iteration_eq, htasks, bind_ok, hfold]; rfl,
    applyRows { a with changed := false } l, ⟨l, ?_, rfl⟩, by rw [erase_unfreezeAll]; exact hinv.sim,
    Flags_unfreezeAll hinv.fl⟩
  intro x
  rw [hm x, ← hrows x]
  simp only [List.mem_flatMap]
  constructor
  · rintro ⟨t, ht, hx⟩; exact ⟨t, hperm.mem_iff.mp ht, hx⟩
  · rintro ⟨t, ht, hx⟩; exact ⟨t, hperm.mem_iff.mpr ht, hx⟩

end Pass


/-! ## the loop of a looping SCC -/

theorem sccLoop_succ (I : Interp E B G P A) (V : Hir.VarsOf E B) (p : Program E B G P A) (σ : Sched E B G P A)
    (dyn : List RelId) (rules : List (Rule E B G P A)) (fuel : Nat) (rs : RunSt) :
    sccLoop I V p σ dyn rules (fuel + 1) rs =
      (iteration I V p σ rs.clock dyn rules rs.st >>= fun s1 =>
       shiftPar s1 >>= fun s2 =>
       if !s1.changed then pure (some { st := s2, clock := rs.clock + 1, iters := rs.iters + 1 })
       else sccLoop I V p σ dyn rules fuel { st := s2, clock := rs.clock + 1, iters := rs.iters + 1 }) := rfl

section Loop
variable (I : Interp E B G P A) (hI : Plan.Ext I) (cfg : Config) (V : Hir.VarsOf E B) (hS : Plan.Supp I V)
  (p : Program E B G P A) (hl : ∀ d ∈ p.rels, d.lat = false) (ix : IxSets) (inp : RelId → List Tuple)
  (dynR : List RelId) (hlt : ∀ r, dynR.contains r = true → r < p.rels.length) (N : Nat) (hN : 0 < N) (bo : List RelId)
  (σ : Sched E B G P A)

include hI hS hl hlt hN in
theorem sccLoop_simPar (rules : List (Rule E B G P A)) (hR : ∀ r ∈ rules, RuleFit V p ix r)
    (hrules : ∀ rule ∈ rules, rule ∈ p.rules)
    (hdyn : ∀ rule ∈ rules, ∀ h ∈ rule.heads, dynR.contains h.rel = true)
    (hbo : ∀ rule ∈ rules, ∀ r ∈ rule.bodyRels, dynR.contains r = false → bo.contains r = true ∧ r < p.rels.length) :
    ∀ (fuel : Nat) (rs : RunSt) (a : SccSt),
      LoopInv I cfg p inp p.rels.length dynR rules (hasDyn dynR) a → Sim p ix a rs.st.erase → Flags N bo false rs.st →
      ∃ res, sccLoop I V p σ dynR rules fuel rs = .ok res ∧ ∀ rs', res = some rs' →
        ∃ a' k, LoopND I cfg p dynR rules a a' k ∧ Sim p ix a' rs'.st.erase ∧ WF p.rels.length dynR a' ∧
          Flags N bo false rs'.st := by
  have haf : ∀ rule ∈ rules, rule.aggFree = true := fun r hr => (hR r hr).aggFree
  intro fuel
  induction fuel with
  | zero =>
    intro rs a _ _ _
    exact ⟨none, rfl, fun rs' h => by cases h⟩
  | succ fuel ih =>
    intro rs a hinv hsim hfl
    obtain ⟨s1, hit, a1, hpass, hsim1, hfl1⟩ := iteration_sim I hI cfg V hS p hl ix dynR hlt N hN bo σ rs.clock rules hR hbo
      a rs.st hinv.wf hsim hfl
    obtain ⟨hinv', _⟩ := iter_step_nd I cfg p inp p.rels.length dynR hlt hl rules hrules haf hdyn a a1 hinv hpass
    obtain ⟨s2, hsh, hsim2, hfl2, _⟩ := shiftPar_sim hsim1 hfl1
    have hch : a1.changed = s1.changed := hsim1.changed
    rw [sccLoop_succ, hit, bind_ok, hsh, bind_ok]
    cases hc : s1.changed with
    | false =>
      refine ⟨some { st := s2, clock := rs.clock + 1, iters := rs.iters + 1 }, rfl, ?_⟩
      intro rs' h
      simp only [Option.some.injEq] at h
      subst h
      exact ⟨_, 1, LoopND.exit hpass (by rw [hch, hc]), hsim2, hinv'.wf, hfl2⟩
    | true =>
      obtain ⟨res, hres, hspec⟩ := ih { st := s2, clock := rs.clock + 1, iters := rs.iters + 1 } (Engine.shift a1)
        (hinv'.weaken I cfg p inp p.rels.length dynR fun _ _ => trivial) hsim2 hfl2
      refine ⟨res, hres, ?_⟩
      intro rs' h
      obtain ⟨a', k, hloop, hsim', hwf', hfl'⟩ := hspec rs' h
      exact ⟨a', k + 1, LoopND.more hpass (by rw [hch, hc]) hloop, hsim', hwf', hfl'⟩

end Loop

/-! ## one SCC, the SCCs in order -/

theorem runScc_eq (I : Interp E B G P A) (V : Hir.VarsOf E B) (p : Program E B G P A) (σ : Sched E B G P A)
    (threads fuel : Nat) (scc : List Nat) (ps : ProgSt) :
    runScc I V p σ threads fuel scc ps =
      if isLooping p scc then
        sccLoop I V p σ (dynRels p scc) (sccRules p scc) fuel
          { st := enterScc threads p scc ps.st, clock := ps.clock, iters := 0 } >>= fun r =>
        pure (r.map fun rs => { st := leaveScc p scc rs.st, clock := rs.clock, iters := ps.iters ++ [rs.iters] })
      else
        iteration I V p σ ps.clock (dynRels p scc) (sccRules p scc) (enterScc threads p scc ps.st) >>= fun s1 =>
        shiftPar s1 >>= fun s2 =>
        shiftPar s2 >>= fun s3 =>
        pure (some { st := leaveScc p scc s3, clock := ps.clock + 1, iters := ps.iters ++ [1] }) := rfl

/-- every relation a rule body mentions is declared -/
def BodyDeclared (p : Program E B G P A) : Prop := ∀ rule ∈ p.rules, ∀ r ∈ rule.bodyRels, r < p.rels.length

/-- the invariant between SCCs -/
structure SimStPar (p : Program E B G P A) (ix : IxSets) (N : Nat) (st : St) (pst : PCSt) : Prop where
  sim : SimSt p ix st (pst.map PCRel.erase)
  fl : StFlags N pst

section Run
variable (I : Interp E B G P A) (hI : Plan.Ext I) (cfg : Config) (V : Hir.VarsOf E B) (hS : Plan.Supp I V)
  (p : Program E B G P A) (hp : Relational p) (hb : BodyDeclared p) (ix : IxSets) (inp : RelId → List Tuple)
  (hR : ∀ r ∈ p.rules, RuleFit V p ix r) (σ : Sched E B G P A) (threads : Nat)

include hI hS hp hb hR in
theorem runScc_simPar (fuel : Nat) (scc : List Nat) (ps : ProgSt) (st : St)
    (hinv : PInv I p inp p.rels.length st) (hs : SimStPar p ix (max threads 1) st ps.st) :
    ∃ res, runScc I V p σ threads fuel scc ps = .ok res ∧ ∀ ps', res = some ps' →
      ∃ st', SccND I cfg p scc st st' ∧ SimStPar p ix (max threads 1) st' ps'.st := by
  obtain ⟨_, hl, hh⟩ := hp
  have hN : 0 < max threads 1 := by omega
  have hrules := sccRules_sub p scc
  have hRs : ∀ r ∈ sccRules p scc, RuleFit V p ix r := fun r hr => hR r (hrules r hr)
  have hdyn : ∀ rule ∈ sccRules p scc, ∀ h ∈ rule.heads, (dynRels p scc).contains h.rel = true :=
    fun rule hr h hhd => (dynRels_mem p scc h.rel).mpr ⟨rule, hr, h, hhd, rfl⟩
  have hlt : ∀ r, (dynRels p scc).contains r = true → r < p.rels.length := by
    intro r hr
    obtain ⟨rule, hrule, h, hhd, rfl⟩ := (dynRels_mem p scc r).mp hr
    exact hh rule (hrules rule hrule) h hhd
  have hbo : ∀ rule ∈ sccRules p scc, ∀ r ∈ rule.bodyRels, (dynRels p scc).contains r = false →
      (bodyOnly p scc).contains r = true ∧ r < p.rels.length := by
    intro rule hrule r hr hnd
    refine ⟨?_, hb rule (hrules rule hrule) r hr⟩
    rw [List.contains_iff_mem]
    unfold bodyOnly
    rw [List.mem_filter]
    exact ⟨List.mem_flatMap.mpr ⟨rule, hrule, hr⟩, by rw [hnd]; rfl⟩
  have hinv0 := LoopInv_enter I cfg p inp p.rels.length (dynRels p scc) hl hinv (sccRules p scc)
  have hsim0 : Sim p ix (Engine.enterScc st (dynRels p scc)) (enterScc threads p scc ps.st).erase := by
    rw [erase_enterScc]
    exact enter_sim hs.sim _ (fun r hr => by rw [hinv.len]; exact hlt r (List.contains_iff_mem.mpr hr))
  have hfl0 := Flags_enterScc threads p scc ps.st hs.fl
  have hdlt : ∀ a : SccSt, WF p.rels.length (dynRels p scc) a → ∀ d ∈ a.dyn, d.rel < a.rels.length := by
    intro a hwf d hd
    rw [hwf.len]; apply hlt
    rw [← hwf.dyn_iff, hwf.uniq d hd]; rfl
  have hleave : ∀ (a : SccSt) (s : PCScc), WF p.rels.length (dynRels p scc) a → Sim p ix a s.erase →
      Flags (max threads 1) (bodyOnly p scc) false s →
      SimStPar p ix (max threads 1) (Engine.leaveScc a) (leaveScc p scc s) := by
    intro a s hwf hsim hfl
    refine ⟨?_, (Flags_leaveScc p scc s hfl).1⟩
    rw [erase_leaveScc]
    exact leave_sim hsim (hdlt a hwf)
  rw [runScc_eq]
  by_cases hlp : isLooping p scc = true
  · rw [if_pos hlp]
    obtain ⟨res, hres, hspec⟩ := sccLoop_simPar I hI cfg V hS p hl ix inp (dynRels p scc) hlt (max threads 1) hN
      (bodyOnly p scc) σ (sccRules p scc) hRs hrules hdyn hbo fuel
      { st := enterScc threads p scc ps.st, clock := ps.clock, iters := 0 } _ hinv0 hsim0 hfl0
    rw [hres]
    refine ⟨_, rfl, ?_⟩
    intro ps' h
    simp only [Option.map_eq_some_iff] at h
    obtain ⟨rs, hrs, rfl⟩ := h
    obtain ⟨a', k, hnd, hsim', hwf', hfl'⟩ := hspec rs hrs
    refine ⟨Engine.leaveScc a', ?_, hleave a' rs.st hwf' hsim' hfl'⟩
    unfold SccND
    rw [if_pos hlp]
    exact ⟨a', k, hnd, rfl⟩
  · rw [if_neg hlp]
    obtain ⟨s1, hit, a1, hpass, hsim1, hfl1⟩ := iteration_sim I hI cfg V hS p hl ix (dynRels p scc) hlt (max threads 1) hN
      (bodyOnly p scc) σ ps.clock (sccRules p scc) hRs hbo _ _ hinv0.wf hsim0 hfl0
    obtain ⟨hinv', _⟩ := iter_step_nd I cfg p inp p.rels.length (dynRels p scc) hlt hl (sccRules p scc) hrules
      (fun r hr => (hRs r hr).aggFree) hdyn _ a1 hinv0 hpass
    obtain ⟨s2, hsh2, hsim2, hfl2, _⟩ := shiftPar_sim hsim1 hfl1
    obtain ⟨s3, hsh3, hsim3, hfl3, _⟩ := shiftPar_sim hsim2 hfl2
    rw [hit, bind_ok, hsh2, bind_ok, hsh3, bind_ok]
    refine ⟨_, rfl, ?_⟩
    intro ps' h
    simp only [Option.some.injEq] at h
    subst h
    refine ⟨Engine.leaveScc (Engine.shift (Engine.shift a1)), ?_, hleave _ s3 (WF_shift hinv'.wf) hsim3 hfl3⟩
    unfold SccND
    rw [if_neg hlp]
    exact ⟨a1, hpass, rfl⟩

include hI hS hp hb hR in
theorem runSccs_simPar (fuel : Nat) : ∀ (order : SccOrder) (ps : ProgSt) (st : St),
    PInv I p inp p.rels.length st → SimStPar p ix (max threads 1) st ps.st →
    ∃ res, runSccs I V p σ threads fuel order ps = .ok res ∧ ∀ ps', res = some ps' →
      ∃ st', SccsND I cfg p order st st' ∧ SimStPar p ix (max threads 1) st' ps'.st := by
  intro order
  induction order with
  | nil =>
    intro ps st _ hs
    refine ⟨some ps, rfl, ?_⟩
    intro ps' h
    simp only [Option.some.injEq] at h
    subst h
    exact ⟨st, SccsND.nil, hs⟩
  | cons scc rest ih =>
    intro ps st hinv hs
    obtain ⟨res, hres, hspec⟩ := runScc_simPar I hI cfg V hS p hp hb ix inp hR σ threads fuel scc ps st hinv hs
    cases res with
    | none =>
      refine ⟨none, by simp only [runSccs, hres], fun ps' h => by cases h⟩
    | some ps1 =>
      obtain ⟨st1, hnd, hs1⟩ := hspec ps1 rfl
      have hinv1 := (sccND_spec I cfg p inp hp.2.1 hp.1 hp.2.2 scc st st1 hinv hnd).1
      obtain ⟨res2, hres2, hspec2⟩ := ih ps1 st1 hinv1 hs1
      refine ⟨res2, by simp only [runSccs, hres]; exact hres2, ?_⟩
      intro ps' h
      obtain ⟨st2, hnd2, hs2⟩ := hspec2 ps' h
      exact ⟨st2, SccsND.cons hnd hnd2, hs2⟩

end Run

end AscentVerif.PhysPar
