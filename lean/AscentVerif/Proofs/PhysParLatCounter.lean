import AscentVerif.Model.EnginePhysParLat
import AscentVerif.Props.C03Phys
import AscentVerif.Props.C02Phys
/-!
# `runPhysParLat_spec` as stated is FALSE: a counterexample

`headLatPar` stores whatever `join_mut` leaves in the row ALSO when `join_mut` reports "no change" (`joinRow`).  `LatOrder`
only asks `flag_false : (I.joinMut r a b).2 = false → le r b a`; it does not ask that the first component is then the old
value.  With the (degenerate but lawful) lattice in which every two values are equivalent (`le := True`) and
`joinMut _ _ b = (b, false)`, the parallel head update silently overwrites a row that is already in `total`: the row is not
re-queued, `changed` is not set, and the rule instances over the NEW value are never evaluated.

`lat(k, v)` a lattice, `q(k, w)` a relation, `q(k, v + 10) <-- lat(k, v)`, `lat(k, w) <-- q(k, w)`, input `lat(1, 10)`:
iteration 1 derives `q(1, 20)`; iteration 2 derives `lat(1, 20)`, which overwrites row 0 (flag `false`) and the loop stops:
the result `lat = {(1, 20)}`, `q = {(1, 20)}` is not closed (`q(1, 30)` is missing).  The serial models (`Engine.headLat`,
`PhysLat.headLat`) leave the row alone when the flag is `false`, so `runPhysLat_spec` is not affected.
-/
namespace AscentVerif.PhysParLat
open AscentVerif AscentVerif.Engine AscentVerif.Index AscentVerif.Phys

/-- `join_mut` that always takes the new value and always reports "unchanged" -/
def badI : Interp Plan.Ex Plan.Bx Plan.Ex Unit Unit :=
  { Plan.exI with joinMut := fun _ _ b => (b, false) }

/-- all values equivalent: every law of `LatOrder` holds -/
def badL : LatOrder badI :=
  { le := fun _ _ _ => True, refl := fun _ _ => trivial, trans := fun _ _ _ _ _ _ => trivial,
    join_left := fun _ _ _ => trivial, join_right := fun _ _ _ => trivial, join_least := fun _ _ _ _ _ _ => trivial,
    flag_false := fun _ _ _ _ => trivial }

theorem badI_ext : Plan.Ext badI := ⟨Plan.exI_ext.expr, Plan.exI_ext.test, Plan.exI_ext.gen⟩
theorem badI_supp : Plan.Supp badI Plan.exV := ⟨Plan.exI_supp.expr, Plan.exI_supp.test⟩

def pBad : Program Plan.Ex Plan.Bx Plan.Ex Unit Unit :=
  { rels := [⟨2, true⟩, ⟨2, false⟩]
    rules := [{ heads := [⟨1, [.var 0, .add (.var 1) (.const 10)]⟩], body := [.clause 0 [.var 0, .var 1] []] },
              { heads := [⟨0, [.var 0, .var 1]⟩], body := [.clause 1 [.var 0, .var 1] []] }] }

def inpBad : RelId → List Tuple := fun r => if r = 0 then [[.int 1, .int 10]] else []

def σId : PhysPar.Sched Plan.Ex Plan.Bx Plan.Ex Unit Unit :=
  { permRows := fun _ l => l, permRows_perm := fun _ l => List.Perm.refl l
    permTasks := fun _ l => l, permTasks_perm := fun _ l => List.Perm.refl l
    tid := fun _ => 0, swap := fun _ => false }

def sBad : PLSt := initSt 1 pBad (ixSetsOf Plan.exV pBad) inpBad

theorem wf_sBad : WFSt pBad sBad := by
  refine ⟨⟨by decide, ?_, by decide⟩, by decide, ?_, ?_, ?_, by decide⟩
  · intro r t ht
    match r, ht with
    | 0, ht => cases ht
    | 1, ht => cases ht
    | r + 2, ht => cases ht
  · intro r hr
    match r, hr with
    | 0, _ => rfl
    | 1, h => cases h
    | r + 2, h => cases h
  · intro r hr
    match r, hr with
    | 0, h => cases h
    | 1, _ => rfl
    | r + 2, _ => rfl
  · intro r t ht
    match r, ht with
    | 0, ht =>
      have : t ∈ [[Val.int 1, .int 10]] := ht
      simp only [List.mem_singleton] at this
      subst this; rfl
    | 1, ht => cases ht
    | r + 2, ht => cases ht

theorem inputOK_sBad : InputOK pBad (xrows sBad) := by
  refine ⟨?_, ?_⟩
  · intro r hr t ht
    match r, hr, ht with
    | 0, _, ht =>
      have : t ∈ [[Val.int 1, .int 10]] := ht
      simp only [List.mem_singleton] at this
      subst this; rfl
    | 1, _, ht => cases ht
  · intro r hr hl
    match r, hr, hl with
    | 0, _, _ => decide
    | 1, _, h => cases h
    | r + 2, h, _ => exact absurd h (by simp [pBad])

/-- the decidable hypotheses, and what the run returns (both rule-scheduling modes) -/
theorem bad_hyps :
    LatticeProg pBad ∧ validOrder pBad [[0, 1]] = true ∧ arityOk pBad = true ∧ PhysPar.bodyDeclared pBad = true ∧
    latPlanOk Plan.exV pBad (ixSetsOf Plan.exV pBad) = true ∧
    (∀ r ∈ pBad.rules, Hir.Desugared Plan.exV r = true ∧ Plan.WellScoped Plan.exV r = true) :=
  ⟨⟨by decide, by decide, by decide, by decide⟩, by decide, by decide, by decide, by decide, by decide⟩

/-- the result of the run: `lat = [(1, 20)]`, `q = [(1, 20)]` -/
def outBad : Option ProgSt :=
  match run badI Plan.exV pBad (ixSetsOf Plan.exV pBad) [[0, 1]] σId false 1 10 sBad with
  | .ok r => r
  | .panic => none

theorem run_bad : ∃ out, run badI Plan.exV pBad (ixSetsOf Plan.exV pBad) [[0, 1]] σId false 1 10 sBad = .ok (some out) ∧
    xrows out.st 0 = [[.int 1, .int 20]] ∧ xrows out.st 1 = [[.int 1, .int 20]] := by
  have h : (match run badI Plan.exV pBad (ixSetsOf Plan.exV pBad) [[0, 1]] σId false 1 10 sBad with
      | .ok (some out) => xrows out.st 0 == [[.int 1, .int 20]] && xrows out.st 1 == [[.int 1, .int 20]]
      | _ => false) = true := by decide
  split at h
  · rename_i out hrun
    simp only [Bool.and_eq_true, beq_iff_eq] at h
    exact ⟨out, hrun, h.1, h.2⟩
  · cases h

/-- the result is NOT closed: `lat(1, 20)` holds, `q(1, 30)` does not -/
theorem not_closed_bad (out : ProgSt) (h0 : xrows out.st 0 = [[.int 1, .int 20]])
    (h1 : xrows out.st 1 = [[.int 1, .int 20]]) :
    ¬ LClosed badI badL pBad (inputDB pBad (xrows sBad)) (factsOf out.st) := by
  rintro ⟨_, hcl⟩
  have hsat : Sat badI (factsOf out.st) (fun _ => []) [.clause 0 [.var 0, .var 1] []] []
      [(1, .int 20), (0, .int 1)] := by
    refine Sat.clause (ρ₁ := [(1, .int 20), (0, .int 1)]) (ρ₂ := [(1, .int 20), (0, .int 1)]) [.int 1, .int 20] ?_ ?_ ?_
      (Sat.nil _)
    · show [Val.int 1, .int 20] ∈ xrows out.st 0
      rw [h0]; exact List.mem_singleton.mpr rfl
    · decide
    · decide
  have := hcl _ (List.mem_cons_self) _ hsat ⟨1, [.var 0, .add (.var 1) (.const 10)]⟩ (List.mem_singleton.mpr rfl)
  have hd : factsOf out.st ⟨1, [.int 1, .int 30]⟩ := by
    have e : headFact badI ⟨1, [.var 0, .add (.var 1) (.const 10)]⟩ [(1, .int 20), (0, .int 1)] =
        ⟨1, [.int 1, .int 30]⟩ := by decide
    rw [e] at this
    exact (dominated_rel badI badL pBad (f := ⟨1, [.int 1, .int 30]⟩) (by decide)).mp this
  have : [Val.int 1, .int 30] ∈ xrows out.st 1 := hd
  rw [h1] at this
  simp at this

/-- **the statement of `runPhysParLat_spec` does not hold**: every hypothesis is satisfied, the run returns, and the result is
not closed under the rules -/
theorem runPhysParLat_spec_counterexample :
    Plan.Ext badI ∧ Plan.Supp badI Plan.exV ∧ LatticeProg pBad ∧ validOrder pBad [[0, 1]] = true ∧ arityOk pBad = true ∧
    PhysPar.bodyDeclared pBad = true ∧ latPlanOk Plan.exV pBad (ixSetsOf Plan.exV pBad) = true ∧
    (∀ r ∈ pBad.rules, Hir.Desugared Plan.exV r = true ∧ Plan.WellScoped Plan.exV r = true) ∧
    WFSt pBad sBad ∧ InputOK pBad (xrows sBad) ∧
    ∃ out, run badI Plan.exV pBad (ixSetsOf Plan.exV pBad) [[0, 1]] σId false 1 10 sBad = .ok (some out) ∧
      ¬ LClosed badI badL pBad (inputDB pBad (xrows sBad)) (factsOf out.st) := by
  obtain ⟨out, hrun, h0, h1⟩ := run_bad
  exact ⟨badI_ext, badI_supp, bad_hyps.1, bad_hyps.2.1, bad_hyps.2.2.1, bad_hyps.2.2.2.1, bad_hyps.2.2.2.2.1,
    bad_hyps.2.2.2.2.2, wf_sBad, inputOK_sBad, out, hrun, not_closed_bad out h0 h1⟩

#print axioms runPhysParLat_spec_counterexample

end AscentVerif.PhysParLat
