import AscentVerif.Proofs.TrRelSimple
import AscentVerif.Proofs.TrRelExact
/-!
# Collapse-free histories: `contains` is exactly the reference closure

On top of `SoundFor`, the two connection maps mirror each other and `set_connections` is
transitively closed (`ExactFor`).  With the added pairs stored, every pair of the reflexive
transitive closure is found; together with soundness this gives `contains ↔ Closure`, and
`contains` never panics on such states.
-/
namespace AscentVerif.TrRel

structure ExactFor (t : TrRel) (ps : List (Int × Int)) : Prop where
  sound : SoundFor t ps
  mirror : Mirror t
  closed : Closed t

theorem exactFor_empty : ExactFor {} [] := by
  refine ⟨soundFor_empty, ?_, ?_⟩
  · intro a b; simp [rel, alGet]
  · intro a b c h; simp [rel, alGet] at h

/-- stored connections only mention existing sets -/
theorem SoundFor.conn_lt {t : TrRel} {ps : List (Int × Int)} (S : SoundFor t ps) {a b : Nat} (h : rel t.conn a b) :
    a < t.sets.length ∧ b < t.sets.length := by
  obtain ⟨x, y, h1, h2, _⟩ := S.le.conn a b h
  exact ⟨(List.getElem?_eq_some_iff.mp h1).1, (List.getElem?_eq_some_iff.mp h2).1⟩

theorem not_rel_of_any_false {m : NMap} {a b : Nat} (h : ¬ (Option.any (fun s => List.contains s b) (alGet m a) = true)) :
    ¬ rel m a b := by
  rintro ⟨s, hs, hb⟩
  apply h
  rw [hs]; simp [hb]

theorem rel_of_any_true {m : NMap} {a b : Nat} (h : Option.any (fun s => List.contains s b) (alGet m a) = true) :
    rel m a b := by
  cases hc : alGet m a with
  | none => rw [hc] at h; simp at h
  | some s => rw [hc] at h; exact ⟨s, hc, by simpa using h⟩

/-- `add` keeps mirror and closedness on collapse-free states -/
theorem add_exact {t t' : TrRel} {ps : List (Int × Int)} {x y : Int} {b : Bool} (E : ExactFor t ps)
    (he : t.add x y = .ok (t', b)) (hs : t'.subs = []) : ExactFor t' (ps ++ [(x, y)]) := by
  suffices hmk : Mirror t' ∧ Closed t' from ⟨add_sound E.sound he hs, hmk.1, hmk.2⟩
  have S := E.sound
  unfold TrRel.add at he
  obtain ⟨⟨t1, xSet, xNew⟩, h1, he⟩ := Res.bind_eq_ok he
  obtain ⟨⟨t2, ySet, yNew⟩, h2, he⟩ := Res.bind_eq_ok he
  obtain ⟨S1, L1, _, _, _, _, _, hc1, hr1, _⟩ := addNodeNew_sound S.simple S.le h1 (fun p hp => hp)
  obtain ⟨_, _, _, _, _, _, _, hc2, hr2, _⟩ := addNodeNew_sound S1 L1 h2 (fun p hp => hp)
  have M2 : Mirror t2 := by intro a c; rw [hc2, hc1, hr2, hr1]; exact E.mirror a c
  have K2 : Closed t2 := by intro a c d; rw [hc2, hc1]; exact E.closed a c d
  have hlt : ∀ a c, rel t2.conn a c → a < t.sets.length ∧ c < t.sets.length := by
    intro a c h; rw [hc2, hc1] at h; exact S.conn_lt h
  have viaExact : ∀ {t3 : TrRel} {b3 : Bool}, t2.addSetConnection xSet ySet = .ok (t3, b3) →
      ((xSet ≠ ySet ∧ ¬ rel t2.conn ySet xSet) ∨ (xSet = ySet ∧ ∀ a, ¬ rel t2.conn xSet a ∧ ¬ rel t2.conn a xSet)) →
      Mirror t3 ∧ Closed t3 := by
    intro t3 b3 h3 hpre
    rcases hpre with ⟨hne, hback⟩ | ⟨heq, hiso⟩
    · exact mirror_closed_of_exact K2 (addSetConnection_exact M2 K2 hne hback h3)
    · subst heq; exact mirror_closed_of_exact K2 (addSetConnection_exact_self M2 K2 hiso h3)
  simp only at he
  split at he
  · next hnew =>
    obtain ⟨⟨t3, _⟩, h3, he⟩ := Res.bind_eq_ok he
    cases he
    show Mirror t3 ∧ Closed t3
    apply viaExact h3
    -- one of the two sets is fresh, hence not mentioned by any stored connection
    rcases addNodeNew_nil S.simple.subs_nil h1 with ⟨hx, rfl, rfl⟩ | ⟨hx, rfl, rfl, rfl⟩
    · -- x known, so y is new
      simp only [Bool.false_or] at hnew; subst hnew
      rcases addNodeNew_nil S.simple.subs_nil h2 with ⟨_, h, _⟩ | ⟨hy, _, rfl, _⟩
      · cases h
      · have hxlt : xSet < t1.sets.length := (List.getElem?_eq_some_iff.mp (S.simple.set_of_id x xSet hx)).1
        left
        exact ⟨by omega, fun h => by have := (hlt _ _ h).1; omega⟩
    · -- x new: its set is the old length
      by_cases heq : t.sets.length = ySet
      · right
        exact ⟨heq, fun a => ⟨fun h => by have := (hlt _ _ h).1; omega, fun h => by have := (hlt _ _ h).2; omega⟩⟩
      · left
        exact ⟨heq, fun h => by have := (hlt _ _ h).2; omega⟩
  · split at he
    · cases he; exact ⟨M2, K2⟩
    · next hne =>
      split at he
      · exfalso
        obtain ⟨_, _, he⟩ := Res.bind_eq_ok he
        obtain ⟨_, _, he⟩ := Res.bind_eq_ok he
        obtain ⟨_, _, he⟩ := Res.bind_eq_ok he
        obtain ⟨_, _, he⟩ := Res.bind_eq_ok he
        obtain ⟨⟨t3, _⟩, _, he⟩ := Res.bind_eq_ok he
        obtain ⟨⟨t4, merged⟩, h4, he⟩ := Res.bind_eq_ok he
        have hnn := mergeMultiple_subs_ne_nil h4
        simp only at he
        split at he
        · cases he
        · split at he
          · cases he
          · cases he; exact hnn hs
      · next hback =>
        obtain ⟨⟨t3, _⟩, h3, he⟩ := Res.bind_eq_ok he
        cases he
        show Mirror t3 ∧ Closed t3
        exact viaExact h3 (Or.inl ⟨hne, not_rel_of_any_false hback⟩)

theorem run_exact {t t' : TrRel} {ps rest : List (Int × Int)} (E : ExactFor t ps)
    (he : run t rest = .ok t') (hs : t'.subs = []) : ExactFor t' (ps ++ rest) := by
  induction rest generalizing t ps with
  | nil => simp only [run] at he; cases he; simpa using E
  | cons p rest ih =>
    obtain ⟨x, y⟩ := p
    simp only [run] at he
    split at he
    · next t1 b1 h1 =>
      have hs1 : t1.subs = [] := by
        apply Classical.byContradiction; intro hne
        have : ∀ (l : List (Int × Int)) (u u' : TrRel), u.subs ≠ [] → run u l = .ok u' → u'.subs ≠ [] := by
          intro l
          induction l with
          | nil => intro u u' hu h; simp only [run] at h; cases h; exact hu
          | cons q l ihl =>
            intro u u' hu h
            obtain ⟨a, c⟩ := q
            simp only [run] at h
            split at h
            · next u1 _ hq => exact ihl u1 u' (add_subs_ne_nil hu hq) h
            · cases h
        exact this rest t1 t' hne he hs
      have := ih (add_exact E h1 hs1) he
      simpa [List.append_assoc] using this
    · cases he

/-! ## completeness and totality of `contains` -/

/-- what `contains` looks at: same element, or a stored connection between the two singleton sets -/
def Linked (t : TrRel) (x y : Int) : Prop :=
  x = y ∨ ∃ a b, alGet t.elemIds x = some a ∧ alGet t.elemIds y = some b ∧ rel t.conn a b

theorem linked_of_reach {t : TrRel} {ps : List (Int × Int)} (E : ExactFor t ps) {x y : Int} (h : Reach ps x y) :
    Linked t x y := by
  induction h with
  | refl => exact Or.inl rfl
  | @tail m y _ hmy ih =>
    rcases E.sound.added (m, y) hmy with h | ⟨a, b, ha, hb, hr⟩
    · simp only at h; subst h; exact ih
    · simp only at ha hb
      rcases ih with rfl | ⟨a', b', ha', hb', hr'⟩
      · exact Or.inr ⟨a, b, ha, hb, hr⟩
      · rw [ha] at hb'; cases hb'
        exact Or.inr ⟨a', b, ha', hb, E.closed _ _ _ hr' hr⟩

/-- `contains` evaluates (no panic) on a collapse-free state, to `true` exactly for linked pairs of known elements -/
theorem contains_eq_of_sound {t : TrRel} {ps : List (Int × Int)} (S : SoundFor t ps) (x y : Int) :
    ∃ r, t.contains x y = .ok r ∧ (r = true ↔ ((alGet t.elemIds x).isSome = true ∧ Linked t x y)) := by
  unfold TrRel.contains
  rw [elemSet_nil S.simple.subs_nil]
  simp only [Res.bind_ok]
  cases hi : alGet t.elemIds x with
  | none => exact ⟨false, rfl, by simp⟩
  | some a =>
    have hset := S.simple.set_of_id x a hi
    simp only [hset, unwrap, Res.bind_ok]
    by_cases hxy : y = x
    · subst hxy
      exact ⟨true, by simp, by simp [Linked]⟩
    · have hc : ([x] : List Int).contains y = false := by simpa using hxy
      rw [hc]
      simp only [Bool.false_eq_true, if_false]
      unfold TrRel.getSetConnections
      cases hca : alGet t.conn a with
      | none =>
        refine ⟨false, rfl, ?_⟩
        simp only [Bool.false_eq_true, false_iff, not_and]
        rintro _ (h | ⟨a', b', ha', _, s, hs, _⟩)
        · exact hxy h.symm
        · rw [hi] at ha'; cases ha'; rw [hca] at hs; cases hs
      | some c =>
        simp only [mapM_getDominantId_nil S.simple.subs_nil, Res.bind_ok, Res.pure_eq]
        have hall : ∀ s ∈ TrRel.dedupConsecutive c, ∃ set, t.sets[s]? = some set := by
          intro s hs
          obtain ⟨_, y', _, h2, _⟩ := S.le.conn a s ⟨c, hca, mem_dedupConsecutive _ _ hs⟩
          exact ⟨_, h2⟩
        by_cases hex : ∃ s ∈ TrRel.dedupConsecutive c, ∃ set, t.sets[s]? = some set ∧ y ∈ set
        · refine ⟨true, anyM_of_mem hall hex, ?_⟩
          simp only [true_iff]
          obtain ⟨s, hs, set, hset', hy⟩ := hex
          refine ⟨by simp, Or.inr ⟨a, s, hi, ?_, ⟨c, hca, mem_dedupConsecutive _ _ hs⟩⟩⟩
          obtain ⟨y', hy', hid⟩ := S.simple.id_of_set s set hset'
          subst hy'
          have : y = y' := by simpa using hy
          subst this; exact hid
        · -- no set connected to `a` holds `y`: the scan returns false
          have hfalse : ∀ (ss : List Nat), (∀ s ∈ ss, ∃ set, t.sets[s]? = some set) →
              (¬ ∃ s ∈ ss, ∃ set, t.sets[s]? = some set ∧ y ∈ set) → TrRel.contains.anyM t y ss = .ok false := by
            intro ss
            induction ss with
            | nil => intro _ _; rfl
            | cons s rest ih =>
              intro hall hno
              unfold TrRel.contains.anyM
              obtain ⟨set, hset'⟩ := hall s (List.mem_cons_self ..)
              rw [hset']
              simp only
              have hy : set.contains y = false := by
                have : y ∉ set := fun hy => hno ⟨s, List.mem_cons_self .., set, hset', hy⟩
                simpa using this
              rw [hy]
              simp only [Bool.false_eq_true, if_false]
              exact ih (fun s' hs' => hall s' (List.mem_cons_of_mem _ hs'))
                (fun ⟨s', hs', r⟩ => hno ⟨s', List.mem_cons_of_mem _ hs', r⟩)
          refine ⟨false, hfalse _ hall hex, ?_⟩
          simp only [Bool.false_eq_true, false_iff, not_and]
          rintro _ (h | ⟨a', b', ha', hb', s, hs, hb⟩)
          · exact hxy h.symm
          · rw [hi] at ha'; cases ha'
            rw [hca] at hs; cases hs
            exact hex ⟨b', mem_dedupConsecutive_of_mem _ _ hb, [y], S.simple.set_of_id y b' hb', by simp⟩

/-- on a collapse-free state, `contains` finds every pair of the reference closure -/
theorem contains_complete_of_exact {t : TrRel} {ps : List (Int × Int)} (E : ExactFor t ps) {x y : Int}
    (h : Closure ps x y) : t.contains x y = .ok true := by
  obtain ⟨hmx, _, hr⟩ := h
  obtain ⟨r, hr', hiff⟩ := contains_eq_of_sound E.sound x y
  have : r = true := hiff.mpr ⟨(E.sound.ids x).mpr hmx, linked_of_reach E hr⟩
  rw [hr', this]

/-! ## no panic on acyclic histories -/

theorem go_append_single (l : List (List Int)) (x : Int) (seen : List Int) :
    TrRel.disjointInvariant.go (l ++ [[x]]) seen =
      (TrRel.disjointInvariant.go l seen && !(seen ++ l.flatten).contains x) := by
  induction l generalizing seen with
  | nil => simp [TrRel.disjointInvariant.go]
  | cons s rest ih =>
    simp only [List.cons_append, TrRel.disjointInvariant.go, ih, List.flatten_cons, List.append_assoc, Bool.and_assoc]

theorem addNodeNew_ok {t : TrRel} (S : Simple t) (hd : t.disjointInvariant = true) (x : Int) :
    ∃ t' id isNew, t.addNodeNew x = .ok (t', id, isNew) := by
  unfold TrRel.addNodeNew
  rw [elemSetUpdate_nil S.subs_nil]
  simp only [Res.bind_ok]
  cases hx : alGet t.elemIds x with
  | some setId => exact ⟨t, setId, false, by simp [hd]⟩
  | none =>
    refine ⟨withNew t x, t.sets.length, true, ?_⟩
    have : (withNew t x).disjointInvariant = true := by
      unfold TrRel.disjointInvariant at hd ⊢
      simp only [withNew]
      rw [go_append_single, hd]
      simp only [List.nil_append, Bool.true_and, Bool.not_eq_eq_eq_not, Bool.not_true]
      apply Classical.byContradiction
      intro hc
      have hmem : x ∈ t.sets.flatten := by simpa using hc
      obtain ⟨s, hs, hxs⟩ := List.mem_flatten.mp hmem
      obtain ⟨i, hi⟩ := List.mem_iff_getElem?.mp hs
      obtain ⟨x', rfl, hid⟩ := S.id_of_set i s hi
      have : x = x' := by simpa using hxs
      subst this; rw [hx] at hid; cases hid
    simp only [withNew] at this
    simp [withNew, this]

theorem alGet_entryOrDefault_of_some {m : NMap} {k : Nat} {s : NSet} (k' : Nat) (h : alGet m k = some s) :
    alGet (entryOrDefault m k').1 k = some s := by
  unfold entryOrDefault
  cases hk : alGet m k' with
  | some s' => exact h
  | none =>
    simp only
    rw [alGet_alSet]
    have : k' ≠ k := by intro e; subst e; rw [h] at hk; cases hk
    rw [if_neg this]; exact h

theorem alGet_entryInsert_self (m : NMap) (k x : Nat) : ∃ s, alGet (entryInsert m k x).1 k = some s := by
  unfold entryInsert
  exact ⟨_, by simp only; rw [alGet_alSet, if_pos rfl]⟩

/-- `add_set_connection` has no panicking path: both indexed maps have had their entries created -/
theorem addSetConnection_ok (t : TrRel) (f to : Nat) : ∃ t' b, t.addSetConnection f to = .ok (t', b) := by
  unfold TrRel.addSetConnection
  obtain ⟨sc, hsc⟩ := alGet_entryInsert_self t.conn f to
  obtain ⟨sr, hsr⟩ := alGet_entryInsert_self t.rconn to f
  rcases hei : entryInsert t.conn f to with ⟨conn1, isNew⟩
  rw [hei] at hsc
  simp only at hsc ⊢
  split
  · exact ⟨_, _, rfl⟩
  · have hr2 := alGet_entryOrDefault_of_some f hsr
    rcases heo : entryOrDefault (entryInsert t.rconn to f).1 f with ⟨rconn2, fromRev⟩
    rw [heo] at hr2
    have hc2 := alGet_entryOrDefault_of_some to hsc
    rcases heo2 : entryOrDefault conn1 to with ⟨conn2, toConn⟩
    rw [heo2] at hc2
    simp only at hr2 hc2 ⊢
    have h1 : ∃ cf, alGet (alSet conn2 to []) f = some cf := by
      rw [alGet_alSet]; split
      · exact ⟨_, rfl⟩
      · exact ⟨_, hc2⟩
    have h2 : ∃ rt, alGet (alSet rconn2 f []) to = some rt := by
      rw [alGet_alSet]; split
      · exact ⟨_, rfl⟩
      · exact ⟨_, hr2⟩
    obtain ⟨cf, h1⟩ := h1
    obtain ⟨rt, h2⟩ := h2
    simp only [h1, h2, unwrap, Res.bind_ok, Res.pure_eq]
    exact ⟨_, _, rfl⟩

/-- a back edge at the level of the structure: both elements known, in different sets, `y`'s set connected to `x`'s -/
def BackEdge (t : TrRel) (x y : Int) : Prop :=
  ∃ a b, alGet t.elemIds x = some a ∧ alGet t.elemIds y = some b ∧ a ≠ b ∧ rel t.conn b a

/-- on a collapse-free state a back edge means that `y` already reaches `x ≠ y` -/
theorem backEdge_reach {t : TrRel} {ps : List (Int × Int)} (S : SoundFor t ps) {x y : Int} (h : BackEdge t x y) :
    x ≠ y ∧ Reach ps y x := by
  obtain ⟨a, b, ha, hb, hab, hr⟩ := h
  refine ⟨fun e => ?_, ?_⟩
  · subst e; rw [ha] at hb; cases hb; exact hab rfl
  · obtain ⟨y', x', h1, h2, hreach⟩ := S.le.conn b a hr
    rw [S.simple.set_of_id y b hb] at h1; cases h1
    rw [S.simple.set_of_id x a ha] at h2; cases h2
    exact hreach

/-- `add` without a back edge neither panics nor collapses -/
theorem add_ok {t : TrRel} {ps : List (Int × Int)} (E : ExactFor t ps) (x y : Int) (hno : ¬ BackEdge t x y) :
    ∃ t' b, t.add x y = .ok (t', b) ∧ t'.subs = [] := by
  have S := E.sound
  obtain ⟨t1, xSet, xNew, h1⟩ := addNodeNew_ok S.simple S.disjoint x
  obtain ⟨S1, L1, _, _, _, _, _, _, _, _⟩ := addNodeNew_sound S.simple S.le h1 (fun p hp => hp)
  obtain ⟨t2, ySet, yNew, h2⟩ := addNodeNew_ok S1 (addNodeNew_disjoint h1) y
  obtain ⟨S2, _, _, _, _, _, _, _, _, _⟩ := addNodeNew_sound S1 L1 h2 (fun p hp => hp)
  obtain ⟨t3, b3, h3⟩ := addSetConnection_ok t2 xSet ySet
  have hs3 : t3.subs = [] := by rw [(addSetConnection_core h3).2.2]; exact S2.subs_nil
  unfold TrRel.add
  simp only [h1, h2, Res.bind_ok]
  split
  · exact ⟨t3, true, by simp [h3], hs3⟩
  · next hnew =>
    split
    · exact ⟨t2, false, rfl, S2.subs_nil⟩
    · next hne =>
      split
      · next hback =>
        exfalso
        apply hno
        simp only [Bool.or_eq_true, not_or, Bool.not_eq_true] at hnew
        obtain ⟨hxn, hyn⟩ := hnew
        subst hxn; subst hyn
        rcases addNodeNew_nil S.simple.subs_nil h1 with ⟨hx, _, rfl⟩ | ⟨_, h, _⟩
        · rcases addNodeNew_nil S.simple.subs_nil h2 with ⟨hy, _, rfl⟩ | ⟨_, h, _⟩
          · exact ⟨xSet, ySet, hx, hy, hne, rel_of_any_true hback⟩
          · cases h
        · cases h
      · exact ⟨t3, true, by simp [h3], hs3⟩

/-- histories in which no pair closes a cycle over what was added before it -/
def AcyclicFrom (done : List (Int × Int)) : List (Int × Int) → Prop
  | [] => True
  | (x, y) :: rest => (x = y ∨ ¬ Reach done y x) ∧ AcyclicFrom (done ++ [(x, y)]) rest

theorem run_acyclic {t : TrRel} {done rest : List (Int × Int)} (E : ExactFor t done) (h : AcyclicFrom done rest) :
    ∃ t', run t rest = .ok t' ∧ ExactFor t' (done ++ rest) := by
  induction rest generalizing t done with
  | nil => exact ⟨t, rfl, by simpa using E⟩
  | cons p rest ih =>
    obtain ⟨x, y⟩ := p
    obtain ⟨hxy, hrest⟩ := h
    have hno : ¬ BackEdge t x y := by
      intro hb
      obtain ⟨hne, hreach⟩ := backEdge_reach E.sound hb
      rcases hxy with h | h
      · exact hne h
      · exact h hreach
    obtain ⟨t1, b1, h1, hs1⟩ := add_ok E x y hno
    obtain ⟨t', hr, E'⟩ := ih (add_exact E h1 hs1) hrest
    exact ⟨t', by simp [run, h1, hr], by simpa [List.append_assoc] using E'⟩

end AscentVerif.TrRel
