import AscentVerif.Model.EnginePhysParLat
import AscentVerif.Proofs.PhysLatRun
import AscentVerif.Proofs.PhysParRun
/-!
# The parallel engine with lattices: accessors, erasure, protocol flags, the simulation relation

* accessors of the lattice part (`lrel`, `findLDyn`, `setLDyn`) and what `PLScc.erase` shows of a state (`xrel`, `findXDyn`);
* `PLWf`: the plain / lattice split of a state; `LFlags`: the frozen / unfrozen protocol state of the lattice indices and
  their kinds (the plain part re-uses `PhysPar.Flags`);
* `SimP`: the simulation relation of `Proofs/PhysLatSim.lean` (`SimL`) with the dynamic relations matched by look-up instead
  of by position (the erased state lists the plain dynamic relations before the lattices), its reading interface
  (`sim_viewsOkP`) and the generic update step (`upd_simP`).
-/
namespace AscentVerif.PhysParLat
open AscentVerif AscentVerif.Engine AscentVerif.Index AscentVerif.Phys AscentVerif.PhysLat AscentVerif.PhysPar

variable {E B G P A : Type}

/-! ## lists -/

theorem setNth_getD_self {α : Type} (l : List α) (i : Nat) (d : α) (h : i < l.length) : setNth l i (l.getD i d) = l := by
  rw [setNth_eq_set]
  apply List.ext_getElem
  · simp
  · intro j h1 h2
    rw [List.getElem_set]
    split
    · rename_i hij
      subst hij
      simp [List.getD_eq_getElem?_getD, List.getElem?_eq_getElem h]
    · rfl

theorem find?_map_upd {α : Type} (key : α → Nat) (l : List α) (d : α) (r : Nat) :
    (l.map fun x => if key x == key d then d else x).find? (fun x => key x == r) =
      if r = key d then (l.find? (fun x => key x == r)).map (fun _ => d) else l.find? (fun x => key x == r) := by
  induction l with
  | nil => simp
  | cons a l ih =>
    simp only [List.map_cons, List.find?_cons]
    by_cases hrd : r = key d
    · subst hrd
      simp only [if_true] at ih ⊢
      by_cases ha : key a = key d
      · simp [ha]
      · have h1 : (key a == key d) = false := by simpa using ha
        simp only [h1, Bool.false_eq_true, if_false]
        exact ih
    · simp only [hrd, if_false] at ih ⊢
      by_cases ha : key a = key d
      · have h1 : (key a == key d) = true := by simpa using ha
        have h2 : (key d == r) = false := by simpa using fun h => hrd h.symm
        have h3 : (key a == r) = false := by rw [ha]; exact h2
        simp only [h1, if_true, h2, h3]
        exact ih
      · have h1 : (key a == key d) = false := by simpa using ha
        simp only [h1, Bool.false_eq_true, if_false]
        cases key a == r
        · exact ih
        · rfl

theorem find?_map_key {α β : Type} (ka : α → Nat) (kb : β → Nat) (f : α → β) (hf : ∀ x, kb (f x) = ka x) (l : List α)
    (r : Nat) : (l.map f).find? (fun x => kb x == r) = (l.find? (fun x => ka x == r)).map f := by
  induction l with
  | nil => rfl
  | cons a l ih =>
    simp only [List.map_cons, List.find?_cons, hf]
    cases ka a == r
    · exact ih
    · rfl

/-! ## accessors of the lattice part -/

theorem lrel_setNth_self (l : List LCRel) (r : RelId) (x : LCRel) (h : r < l.length) : lrel (setNth l r x) r = x := by
  simp [lrel, setNth_eq_set, List.getD_eq_getElem?_getD, h]

theorem lrel_setNth_ne (l : List LCRel) (r r' : RelId) (x : LCRel) (h : r' ≠ r) : lrel (setNth l r x) r' = lrel l r' := by
  simp [lrel, setNth_eq_set, List.getD_eq_getElem?_getD, List.getElem?_set_ne (Ne.symm h)]

theorem lrel_of_ge (l : List LCRel) (r : RelId) (h : l.length ≤ r) : lrel l r = ⟨[], []⟩ := by
  simp [lrel, List.getD_eq_getElem?_getD, List.getElem?_eq_none h]

theorem lrel_rangeMap (f : Nat → LCRel) (m : Nat) (r : RelId) (hr : r < m) : lrel ((List.range m).map f) r = f r := by
  simp [lrel, List.getD_eq_getElem?_getD, List.getElem?_map, List.getElem?_range hr]

theorem lrel_mem (l : List LCRel) (r : RelId) (h : r < l.length) : lrel l r ∈ l := by
  simp only [lrel, List.getD_eq_getElem?_getD, List.getElem?_eq_getElem h, Option.getD_some]
  exact List.getElem_mem h

theorem setNth_lrel_self (l : List LCRel) (r : RelId) (h : r < l.length) : setNth l r (lrel l r) = l :=
  setNth_getD_self l r _ h

theorem findLDyn_rel {dyn : List LCDyn} {r : RelId} {d : LCDyn} (h : findLDyn dyn r = some d) : d.rel = r := by
  have := List.find?_some h
  simpa using this

theorem findLDyn_mem {dyn : List LCDyn} {r : RelId} {d : LCDyn} (h : findLDyn dyn r = some d) : d ∈ dyn :=
  List.mem_of_find?_eq_some h

theorem findLDyn_setLDyn (dyn : List LCDyn) (d : LCDyn) (r : RelId) :
    findLDyn (setLDyn dyn d) r = if r = d.rel then (findLDyn dyn r).map (fun _ => d) else findLDyn dyn r :=
  find?_map_upd (fun x : LCDyn => x.rel) dyn d r

theorem findPCDyn_setPCDyn (dyn : List PCDyn) (d : PCDyn) (r : RelId) :
    findPCDyn (setPCDyn dyn d) r = if r = d.rel then (findPCDyn dyn r).map (fun _ => d) else findPCDyn dyn r :=
  find?_map_upd (fun x : PCDyn => x.rel) dyn d r

theorem findLDyn_map (dyn : List LCDyn) (f : LCDyn → LCDyn) (hf : ∀ x, (f x).rel = x.rel) (r : RelId) :
    findLDyn (dyn.map f) r = (findLDyn dyn r).map f :=
  find?_map_key (fun x : LCDyn => x.rel) (fun x : LCDyn => x.rel) f hf dyn r

theorem findPCDyn_map (dyn : List PCDyn) (f : PCDyn → PCDyn) (hf : ∀ x, (f x).rel = x.rel) (r : RelId) :
    findPCDyn (dyn.map f) r = (findPCDyn dyn r).map f :=
  find?_map_key (fun x : PCDyn => x.rel) (fun x : PCDyn => x.rel) f hf dyn r

theorem findPCDyn_none_of {dyn : List PCDyn} {r : RelId} (h : ∀ d ∈ dyn, d.rel ≠ r) : findPCDyn dyn r = none := by
  apply List.find?_eq_none.mpr
  intro d hd
  simpa using h d hd

theorem findLDyn_none_of {dyn : List LCDyn} {r : RelId} (h : ∀ d ∈ dyn, d.rel ≠ r) : findLDyn dyn r = none := by
  apply List.find?_eq_none.mpr
  intro d hd
  simpa using h d hd

/-! ## what the erased state shows -/

theorem erase_rels_length (p : Program E B G P A) (s : PLScc) : (s.erase p).rels.length = s.pc.rels.length := by
  simp [PLScc.erase]

theorem erase_changed (p : Program E B G P A) (s : PLScc) : (s.erase p).changed = s.pc.changed := rfl

theorem eraseRel_ge (p : Program E B G P A) (pcs : PCSt) (ls : List LCRel) (r : RelId) (h1 : p.rels.length ≤ r)
    (h2 : pcs.length ≤ r) : eraseRel p pcs ls r = ⟨[], [], []⟩ := by
  unfold eraseRel
  rw [isLat_of_ge p r h1]
  simp only [Bool.false_eq_true, if_false, pcrel_of_ge _ _ h2]
  rfl

theorem xrel_erase (p : Program E B G P A) (s : PLScc) (hlen : s.pc.rels.length = p.rels.length) (r : RelId) :
    xrel (s.erase p).rels r = eraseRel p s.pc.rels s.lrels r := by
  by_cases hr : r < s.pc.rels.length
  · simp only [PLScc.erase, xrel_rangeMap _ _ _ hr]
  · have hr' : s.pc.rels.length ≤ r := Nat.le_of_not_lt hr
    simp only [PLScc.erase, xrel_rangeMap_ge _ _ _ hr']
    rw [eraseRel_ge p _ _ r (by rw [← hlen]; exact hr') hr']

theorem xrel_eraseSt (p : Program E B G P A) (s : PLSt) (hlen : s.pc.length = p.rels.length) (r : RelId) :
    xrel (s.erase p) r = eraseRel p s.pc s.lat r := by
  by_cases hr : r < s.pc.length
  · simp only [PLSt.erase, xrel_rangeMap _ _ _ hr]
  · have hr' : s.pc.length ≤ r := Nat.le_of_not_lt hr
    simp only [PLSt.erase, xrel_rangeMap_ge _ _ _ hr']
    rw [eraseRel_ge p _ _ r (by rw [← hlen]; exact hr') hr']

theorem eraseRel_lat (p : Program E B G P A) (pcs : PCSt) (ls : List LCRel) (r : RelId) (hl : isLatRel p r = true) :
    eraseRel p pcs ls r = ⟨(lrel ls r).rows, [], (lrel ls r).idxs.map fun ci => (ci.1, ci.2.erase)⟩ := by
  simp only [eraseRel, hl, if_true]

theorem eraseRel_plain (p : Program E B G P A) (pcs : PCSt) (ls : List LCRel) (r : RelId) (hl : isLatRel p r = false) :
    eraseRel p pcs ls r =
      ⟨(pcrel pcs r).rows, (pcrel pcs r).full.m, (pcrel pcs r).idxs.map fun ci => (ci.1, XIx.vals ci.2.erase)⟩ := by
  simp only [eraseRel, hl, Bool.false_eq_true, if_false]

theorem findXDyn_append (l1 l2 : List XDyn) (r : RelId) :
    findXDyn (l1 ++ l2) r = (findXDyn l1 r).orElse fun _ => findXDyn l2 r := by
  simp only [findXDyn, List.find?_append]
  cases List.find? (fun x => x.rel == r) l1 <;> rfl

theorem findXDyn_eraseP (dyn : List PCDyn) (r : RelId) : findXDyn (dyn.map erasePDyn) r = (findPCDyn dyn r).map erasePDyn :=
  find?_map_key (fun x : PCDyn => x.rel) (fun x : XDyn => x.rel) erasePDyn (fun _ => rfl) dyn r

theorem findXDyn_eraseL (dyn : List LCDyn) (r : RelId) : findXDyn (dyn.map eraseLDyn) r = (findLDyn dyn r).map eraseLDyn :=
  find?_map_key (fun x : LCDyn => x.rel) (fun x : XDyn => x.rel) eraseLDyn (fun _ => rfl) dyn r

theorem findXDyn_erase_lat (p : Program E B G P A) (s : PLScc) (hp : ∀ d ∈ s.pc.dyn, isLatRel p d.rel = false) (r : RelId)
    (hl : isLatRel p r = true) : findXDyn (s.erase p).dyn r = (findLDyn s.ldyn r).map eraseLDyn := by
  show findXDyn (s.pc.dyn.map erasePDyn ++ s.ldyn.map eraseLDyn) r = _
  rw [findXDyn_append, findXDyn_eraseP, findXDyn_eraseL]
  rw [findPCDyn_none_of (by
    intro d hd he
    have := hp d hd
    rw [he, hl] at this
    cases this)]
  rfl

theorem findXDyn_erase_plain (p : Program E B G P A) (s : PLScc) (hq : ∀ d ∈ s.ldyn, isLatRel p d.rel = true) (r : RelId)
    (hl : isLatRel p r = false) : findXDyn (s.erase p).dyn r = (findPCDyn s.pc.dyn r).map erasePDyn := by
  show findXDyn (s.pc.dyn.map erasePDyn ++ s.ldyn.map eraseLDyn) r = _
  rw [findXDyn_append, findXDyn_eraseP, findXDyn_eraseL]
  rw [findLDyn_none_of (by
    intro d hd he
    have := hq d hd
    rw [he, hl] at this
    cases this)]
  cases findPCDyn s.pc.dyn r <;> rfl

/-! ## the plain / lattice split -/

structure PLWf (p : Program E B G P A) (s : PLScc) : Prop where
  len : s.pc.rels.length = p.rels.length
  llen : s.lrels.length = p.rels.length
  pdyn : ∀ d ∈ s.pc.dyn, isLatRel p d.rel = false
  ldyn : ∀ d ∈ s.ldyn, isLatRel p d.rel = true
  prow : ∀ r, isLatRel p r = true → (pcrel s.pc.rels r).rows = []
  lrow : ∀ r, isLatRel p r = false → lrel s.lrels r = ⟨[], []⟩
  pnd : (s.pc.dyn.map (·.rel)).Nodup
  lnd : (s.ldyn.map (·.rel)).Nodup

theorem setLDyn_rels (dyn : List LCDyn) (d : LCDyn) : (setLDyn dyn d).map (·.rel) = dyn.map (·.rel) := by
  simp only [setLDyn, List.map_map]
  apply List.map_congr_left
  intro x _
  show (if x.rel == d.rel then d else x).rel = x.rel
  by_cases h : x.rel = d.rel
  · simp [h]
  · simp [h]

theorem setPCDyn_rels (dyn : List PCDyn) (d : PCDyn) : (setPCDyn dyn d).map (·.rel) = dyn.map (·.rel) := by
  simp only [setPCDyn, List.map_map]
  apply List.map_congr_left
  intro x _
  show (if x.rel == d.rel then d else x).rel = x.rel
  by_cases h : x.rel = d.rel
  · simp [h]
  · simp [h]

/-- with pairwise distinct keys, `find?` by key returns the element itself -/
theorem find?_of_nodup {α : Type} (key : α → Nat) : ∀ (l : List α), (l.map key).Nodup → ∀ d ∈ l,
    l.find? (fun x => key x == key d) = some d
  | [], _, d, hd => by cases hd
  | a :: l, hn, d, hd => by
    rw [List.map_cons, List.nodup_cons] at hn
    rcases List.mem_cons.mp hd with rfl | hd
    · simp
    · have hne : key a ≠ key d := by
        intro h
        exact hn.1 (h ▸ List.mem_map.mpr ⟨d, hd, rfl⟩)
      have : (key a == key d) = false := by simpa using hne
      rw [List.find?_cons, this]
      exact find?_of_nodup key l hn.2 d hd

theorem eq_of_find?_nodup {α : Type} (key : α → Nat) {l : List α} (hn : (l.map key).Nodup) {r : Nat} {d0 d : α}
    (hf : l.find? (fun x => key x == r) = some d0) (hd : d ∈ l) (hk : key d = r) : d = d0 := by
  have := find?_of_nodup key l hn d hd
  rw [hk, hf] at this
  exact (Option.some.inj this).symm

/-! ## the protocol state of the lattice indices -/

def LCx.isKey : LCx → Bool
  | .key _ _ => true
  | .rows _ _ => false

@[simp] theorem LCx.erase_freeze (x : LCx) : x.freeze.erase = x.erase := by cases x <;> rfl
@[simp] theorem LCx.erase_unfreeze (x : LCx) : x.unfreeze.erase = x.erase := by cases x <;> rfl
@[simp] theorem LCx.isFrozen_freeze (x : LCx) : x.freeze.isFrozen = true := by cases x <;> rfl
@[simp] theorem LCx.isFrozen_unfreeze (x : LCx) : x.unfreeze.isFrozen = false := by cases x <;> rfl
@[simp] theorem LCx.isFrozen_fresh (x : LCx) : x.fresh.isFrozen = false := by cases x <;> rfl
@[simp] theorem LCx.isKey_freeze (x : LCx) : x.freeze.isKey = x.isKey := by cases x <;> rfl
@[simp] theorem LCx.isKey_unfreeze (x : LCx) : x.unfreeze.isKey = x.isKey := by cases x <;> rfl
@[simp] theorem LCx.isKey_fresh (x : LCx) : x.fresh.isKey = x.isKey := by cases x <;> rfl
theorem LCx.erase_fresh (x : LCx) : x.fresh.erase = emptyLike x.erase := by cases x <;> rfl
theorem LCx.isKey_new (b : Bool) : (LCx.new b).isKey = b := by cases b <;> rfl
theorem LCx.isFrozen_new (b : Bool) : (LCx.new b).isFrozen = false := by cases b <;> rfl

/-- one index of a dynamic lattice: kinds (`CRelFullIndex` exactly for the key columns), `total` / `delta` frozen iff `fz`,
`new` unfrozen -/
structure LTriFlags (kc : List Nat) (fz : Bool) (ci : List Nat × Tri LCx) : Prop where
  kt : ci.2.total.isKey = (ci.1 == kc)
  kd : ci.2.delta.isKey = (ci.1 == kc)
  kn : ci.2.new.isKey = (ci.1 == kc)
  ft : ci.2.total.isFrozen = fz
  fd : ci.2.delta.isFrozen = fz
  fn : ci.2.new.isFrozen = false

def LDynFlags (p : Program E B G P A) (fz : Bool) (d : LCDyn) : Prop :=
  ∀ ci ∈ d.idxs, LTriFlags (keyCols p d.rel) fz ci

def LRelFlags (p : Program E B G P A) (r : RelId) (fz : Bool) (l : LCRel) : Prop :=
  ∀ ci ∈ l.idxs, ci.2.isKey = (ci.1 == keyCols p r) ∧ ci.2.isFrozen = fz

structure LFlags (p : Program E B G P A) (bo : List RelId) (fz : Bool) (s : PLScc) : Prop where
  dyn : ∀ d ∈ s.ldyn, LDynFlags p fz d ∧ bo.contains d.rel = false
  rels : ∀ r, r < s.lrels.length → isLatRel p r = true → LRelFlags p r (bo.contains r) (lrel s.lrels r)

/-- between SCCs -/
def LStFlags (p : Program E B G P A) (lat : List LCRel) : Prop :=
  ∀ r, r < lat.length → isLatRel p r = true → LRelFlags p r false (lrel lat r)

/-! ## the index column sets of the erased state -/

/-- the column sets `ix'` with `PhysLat.ixOf p ix' r` = what the parallel code allocates for `r` -/
def ixP (p : Program E B G P A) (ix : IxSets) : IxSets := fun r =>
  if isLatRel p r then
    List.range (arityOf p r) :: (ix r).filter fun c => c != keyCols p r && c.length != arityOf p r
  else ix r

theorem ixOf_ixP_lat (p : Program E B G P A) (ix : IxSets) (r : RelId) (hl : isLatRel p r = true) (har : 0 < arityOf p r) :
    ixOf p (ixP p ix) r = latIxOf p ix r := by
  have hne : (List.range (arityOf p r) != keyCols p r) = true := by
    simp only [bne_iff_ne, ne_eq, keyCols]
    intro h
    have := congrArg List.length h
    simp at this
    omega
  simp only [ixOf, ixP, hl, if_true, latIxOf, List.filter_cons, hne]
  congr 2
  rw [List.filter_filter]
  apply List.filter_congr
  intro c _
  cases h1 : (c != keyCols p r) <;> simp

theorem ixOf_ixP_plain (p : Program E B G P A) (ix : IxSets) (r : RelId) (hl : isLatRel p r = false) :
    ixOf p (ixP p ix) r = ix r := by
  simp [ixOf, ixP, hl]

theorem mem_ixOf_ixP (p : Program E B G P A) (ix : IxSets) (r : RelId) (cols : List Nat) (h : cols ∈ ixOf p ix r) :
    cols.length = arityOf p r ∨ cols ∈ ixOf p (ixP p ix) r := by
  cases hl : isLatRel p r with
  | false =>
    right
    rw [ixOf_ixP_plain p ix r hl]
    simpa [ixOf, hl] using h
  | true =>
    simp only [ixOf, hl, if_true, List.mem_cons, List.mem_filter] at h
    by_cases hlen : cols.length = arityOf p r
    · exact .inl hlen
    · right
      simp only [ixOf, ixP, hl, if_true, List.mem_cons, List.mem_filter]
      rcases h with h | ⟨h1, h2⟩
      · exact .inl h
      · right
        refine ⟨?_, h2⟩
        right
        refine ⟨h1, ?_⟩
        simp only [Bool.and_eq_true, h2, true_and]
        simpa using hlen

theorem clOk_ixP (p : Program E B G P A) (ix : IxSets) (h : Hir.HRule) (i : Nat) (body : List (Item E B G P A))
    (hc : ClOk p (fun r => ixOf p ix r) h i body) : ClOk p (fun r => ixOf p (ixP p ix) r) h i body := by
  intro k it hk
  have := hc k it hk
  cases it with
  | clause rel args conds =>
    obtain ⟨h1, h2, h3⟩ := this
    refine ⟨h1, ?_, h3⟩
    rcases h2 with h2 | h2
    · exact .inl h2
    · exact mem_ixOf_ixP p ix rel _ h2
  | cond c => trivial
  | gen v g => trivial
  | agg a => trivial

/-! ## the simulation relation, dynamic relations matched by look-up -/

structure SimP (p : Program E B G P A) (ix : IxSets) (a : SccSt) (x : XScc) : Prop where
  len : a.rels.length = x.rels.length
  rows : ∀ r, (relSt a.rels r).rows = (xrel x.rels r).rows
  changed : a.changed = x.changed
  dynN : ∀ r, findDyn a.dyn r = none → findXDyn x.dyn r = none
  dynS : ∀ r d, findDyn a.dyn r = some d → ∃ pd, findXDyn x.dyn r = some pd ∧ pd.rel = r ∧
    XTriOk p ix r (relSt a.rels r).rows d pd.full pd.idxs
  nd : ∀ r, r < a.rels.length → findDyn a.dyn r = none →
    XVerOk p ix r (relSt a.rels r).rows (relSt a.rels r).idx (xrel x.rels r).full (xrel x.rels r).idxs
  typed : ∀ r, ∀ t ∈ (relSt a.rels r).rows, t.length = arityOf p r

theorem SimP.find {p : Program E B G P A} {ix : IxSets} {a : SccSt} {x : XScc} (h : SimP p ix a x) (r : RelId) :
    (findDyn a.dyn r = none ∧ findXDyn x.dyn r = none) ∨
      ∃ d pd, findDyn a.dyn r = some d ∧ findXDyn x.dyn r = some pd ∧ pd.rel = r ∧
        XTriOk p ix r (relSt a.rels r).rows d pd.full pd.idxs := by
  cases hd : findDyn a.dyn r with
  | none => exact .inl ⟨rfl, h.dynN r hd⟩
  | some d =>
    obtain ⟨pd, h1, h2, h3⟩ := h.dynS r d hd
    exact .inr ⟨d, pd, rfl, h1, h2, h3⟩

theorem reset_simP {p : Program E B G P A} {ix : IxSets} {a : SccSt} {x x' : XScc} (hsim : SimP p ix a x)
    (hr : x'.rels = x.rels) (hd : x'.dyn = x.dyn) (hc : x'.changed = false) :
    SimP p ix { a with changed := false } x' :=
  ⟨by rw [hr]; exact hsim.len, by rw [hr]; exact hsim.rows, hc.symm, by rw [hd]; exact hsim.dynN,
    by rw [hd]; exact hsim.dynS, by rw [hr]; exact hsim.nd, hsim.typed⟩

/-- what a clause sees (the proof of `PhysLat.sim_viewsOkL`, for `SimP`) -/
theorem sim_viewsOkP (p : Program E B G P A) (ix : IxSets) {dynR : List RelId} {a : SccSt} {x : XScc}
    (hsim : SimP p ix a x) (hwf : WF p.rels.length dynR a) (har : ∀ r, isLatRel p r = true → 0 < arityOf p r) :
    ViewsOkL p (fun r => ixOf p ix r) a x := by
  intro r v cols hc hix hlc
  have hty : ∀ i, i < (relSt a.rels r).rows.length → (rowAt (relSt a.rels r).rows i).length = arityOf p r :=
    fun i hi => hsim.typed r _ (rowAt_mem _ i hi)
  rcases hsim.find r with ⟨h1, h2⟩ | ⟨d, pd, h1, h2, _, tri⟩
  · have hview : viewOf x r v = .one ⟨(xrel x.rels r).rows, (xrel x.rels r).full, (xrel x.rels r).idxs⟩ := by
      simp only [PhysLat.viewOf, h2]
    rw [hview]
    by_cases hr : r < a.rels.length
    · exact (ver1_spec p ix r _ (relSt a.rels r).idx _ (hsim.rows r).symm (hsim.nd r hr h1) cols hc hix hlc
        (fun i hi => hty i ((hwf.cover_nd r h1 i).mpr hi)) (har r)).congr_bag
        (fun i => mem_clauseRows_none' {} p v h1 i)
    · have hr' : a.rels.length ≤ r := Nat.le_of_not_lt hr
      have hrp : p.rels.length ≤ r := by rw [← hwf.len]; exact hr'
      have harz : arityOf p r = 0 := arityOf_of_ge p r hrp
      have hlat : isLatRel p r = false := isLat_of_ge p r hrp
      have hcols : cols = [] := by
        cases cols with
        | nil => rfl
        | cons j t => have := hc.2 j (by simp); omega
      have hx : xrel x.rels r = ⟨[], [], []⟩ := xrel_of_ge _ _ (by rw [← hsim.len]; exact hr')
      have ha : relSt a.rels r = ⟨[], []⟩ := relSt_of_ge _ _ hr'
      rw [hx, ha, hlat]
      refine (plain_spec (arityOf p r) [] [] [] ⟨[], [], []⟩ (by intro ci hci; cases hci)
        ⟨FullOk_nil [], rfl, by intro ci hci; cases hci⟩ cols hc (.inl (by rw [hcols, harz]; rfl))
        (by intro i hi; cases hi)).congr_bag ?_
      intro i
      rw [mem_clauseRows_none' {} p v h1 i, ha]
  · have hbT : ∀ i ∈ d.total, (rowAt (relSt a.rels r).rows i).length = arityOf p r :=
      fun i hi => hty i ((hwf.cover r d h1 i).mpr (.inl hi))
    have hbD : ∀ i ∈ d.delta, (rowAt (relSt a.rels r).rows i).length = arityOf p r :=
      fun i hi => hty i ((hwf.cover r d h1 i).mpr (.inr (.inl hi)))
    have hxr : (xrel x.rels r).rows = (relSt a.rels r).rows := (hsim.rows r).symm
    have specT := ver1_spec p ix r (relSt a.rels r).rows d.total
      ⟨(xrel x.rels r).rows, pd.full.total, pd.idxs.map fun ci => (ci.1, ci.2.total)⟩ hxr tri.verT cols hc hix hlc hbT (har r)
    have specD := ver1_spec p ix r (relSt a.rels r).rows d.delta
      ⟨(xrel x.rels r).rows, pd.full.delta, pd.idxs.map fun ci => (ci.1, ci.2.delta)⟩ hxr tri.verD cols hc hix hlc hbD (har r)
    have hmem := mem_clauseRows_some' {} p v h1
    cases v with
    | none =>
      have hview : viewOf x r none = .one ⟨(xrel x.rels r).rows, pd.full.total, pd.idxs.map fun ci => (ci.1, ci.2.total)⟩ := by
        simp only [PhysLat.viewOf, h2]
      rw [hview]; exact specT.congr_bag hmem
    | some v =>
      cases v with
      | total =>
        have hview : viewOf x r (some .total) =
            .one ⟨(xrel x.rels r).rows, pd.full.total, pd.idxs.map fun ci => (ci.1, ci.2.total)⟩ := by
          simp only [PhysLat.viewOf, h2]
        rw [hview]; exact specT.congr_bag hmem
      | delta =>
        have hview : viewOf x r (some .delta) =
            .one ⟨(xrel x.rels r).rows, pd.full.delta, pd.idxs.map fun ci => (ci.1, ci.2.delta)⟩ := by
          simp only [PhysLat.viewOf, h2]
        rw [hview]; exact specD.congr_bag hmem
      | totalDelta =>
        have hview : viewOf x r (some .totalDelta) =
            .two ⟨(xrel x.rels r).rows, pd.full.total, pd.idxs.map fun ci => (ci.1, ci.2.total)⟩
              ⟨(xrel x.rels r).rows, pd.full.delta, pd.idxs.map fun ci => (ci.1, ci.2.delta)⟩ := by
          simp only [PhysLat.viewOf, h2]
        rw [hview]; exact specT.append specD hmem

/-- replacing the row vector and the dynamic part of one relation, the physical side given by what it shows -/
theorem upd_simP {p : Program E B G P A} {ix : IxSets} {a : SccSt} {x x' : XScc} (hsim : SimP p ix a x) {r : RelId} {d : Dyn}
    (hd : findDyn a.dyn r = some d) (hr : r < a.rels.length) (d' : Dyn) (hrel : d'.rel = r) (rows' : List Tuple)
    (hlen : x'.rels.length = x.rels.length) (hself : (xrel x'.rels r).rows = rows')
    (hne : ∀ r', r' ≠ r → xrel x'.rels r' = xrel x.rels r') (hch : x'.changed = true)
    (pd' : XDyn) (hdself : findXDyn x'.dyn r = some pd') (hprel : pd'.rel = r)
    (htri : XTriOk p ix r rows' d' pd'.full pd'.idxs)
    (hdne : ∀ r', r' ≠ r → findXDyn x'.dyn r' = findXDyn x.dyn r')
    (htyped : ∀ t ∈ rows', t.length = arityOf p r) : SimP p ix (upd a r d' rows') x' := by
  have hrows_self : (relSt (upd a r d' rows').rels r).rows = rows' := upd_rows_self hr
  have hrows_ne : ∀ r', r' ≠ r → relSt (upd a r d' rows').rels r' = relSt a.rels r' := fun r' hne => upd_relSt_ne hne
  refine ⟨?_, ?_, hch.symm, ?_, ?_, ?_, ?_⟩
  · simp [upd, hsim.len, hlen]
  · intro r'
    by_cases hr' : r' = r
    · subst hr'; rw [hrows_self, hself]
    · rw [hrows_ne r' hr', hne r' hr']; exact hsim.rows r'
  · intro r' hn
    have hr' : r' ≠ r := by
      intro h; subst h
      rw [upd_dyn_self hd hrel] at hn; cases hn
    rw [upd_dyn_ne hrel hr'] at hn
    rw [hdne r' hr']; exact hsim.dynN r' hn
  · intro r' d'' hs
    by_cases hr' : r' = r
    · subst hr'
      rw [upd_dyn_self hd hrel] at hs
      cases hs
      exact ⟨pd', hdself, hprel, by rw [hrows_self]; exact htri⟩
    · rw [upd_dyn_ne hrel hr'] at hs
      rw [hdne r' hr', hrows_ne r' hr']
      exact hsim.dynS r' d'' hs
  · intro r' hr'l hnd
    have hr' : r' ≠ r := by
      intro h; subst h
      rw [upd_dyn_self hd hrel] at hnd; cases hnd
    rw [upd_dyn_ne hrel hr'] at hnd
    rw [hrows_ne r' hr', hne r' hr']
    exact hsim.nd r' (by simpa [upd] using hr'l) hnd
  · intro r' t ht
    by_cases hr' : r' = r
    · subst hr'
      rw [hrows_self] at ht
      exact htyped t ht
    · rw [hrows_ne r' hr'] at ht; exact hsim.typed r' t ht

/-- the physical side changes nothing the relation looks at -/
theorem SimP.congr_right {p : Program E B G P A} {ix : IxSets} {a : SccSt} {x x' : XScc} (hsim : SimP p ix a x)
    (hlen : x'.rels.length = x.rels.length) (hrel : ∀ r, xrel x'.rels r = xrel x.rels r)
    (hch : x'.changed = x.changed) (hdyn : ∀ r, findXDyn x'.dyn r = findXDyn x.dyn r) : SimP p ix a x' :=
  ⟨by rw [hlen]; exact hsim.len, fun r => by rw [hrel]; exact hsim.rows r, by rw [hch]; exact hsim.changed,
    fun r h => by rw [hdyn]; exact hsim.dynN r h, fun r d h => by rw [hdyn]; exact hsim.dynS r d h,
    fun r h1 h2 => by rw [hrel]; exact hsim.nd r h1 h2, hsim.typed⟩

/-! ## plain relations: `XTriOk` of the erased dynamic entry against `TriOk` of `PhysPar`'s erasure -/

theorem XOk_vals_iff {p : Program E B G P A} {r : RelId} {rows : List Tuple} {bag cols : List Nat} {m : PIx}
    (hl : isLatRel p r = false) : XOk p r rows bag cols (.vals m) ↔ IxOk rows bag cols m :=
  ⟨fun h => h.2 hl, fun h => XOk_plain hl h⟩

theorem XTriOk_plain {p : Program E B G P A} {ix : IxSets} {r : RelId} {rows : List Tuple} {d : Dyn} {pd : PCDyn}
    (hl : isLatRel p r = false) :
    XTriOk p ix r rows d (erasePDyn pd).full (erasePDyn pd).idxs ↔ TriOk (ixOf p ix r) rows d pd.erase.full pd.erase.idxs := by
  constructor
  · intro h
    refine ⟨h.ft hl, h.fd hl, h.fn hl, ?_, ?_, ?_, ?_⟩
    · rw [← h.cols]
      show (pd.idxs.map _).map _ = (pd.idxs.map _).map _
      rw [List.map_map, List.map_map]; rfl
    · intro ci hci
      obtain ⟨c, hc, rfl⟩ := List.mem_map.mp hci
      exact (h.it _ (List.mem_map.mpr ⟨c, hc, rfl⟩)).2 hl
    · intro ci hci
      obtain ⟨c, hc, rfl⟩ := List.mem_map.mp hci
      exact (h.id _ (List.mem_map.mpr ⟨c, hc, rfl⟩)).2 hl
    · intro ci hci
      obtain ⟨c, hc, rfl⟩ := List.mem_map.mp hci
      exact (h.inw _ (List.mem_map.mpr ⟨c, hc, rfl⟩)).2 hl
  · intro h
    refine ⟨fun _ => h.ft, fun _ => h.fd, fun _ => h.fn, ?_, ?_, ?_, ?_⟩
    · rw [← h.cols]
      show (pd.idxs.map _).map _ = (pd.idxs.map _).map _
      rw [List.map_map, List.map_map]; rfl
    · intro ci hci
      obtain ⟨c, hc, rfl⟩ := List.mem_map.mp hci
      exact XOk_plain hl (h.it _ (List.mem_map.mpr ⟨c, hc, rfl⟩))
    · intro ci hci
      obtain ⟨c, hc, rfl⟩ := List.mem_map.mp hci
      exact XOk_plain hl (h.id _ (List.mem_map.mpr ⟨c, hc, rfl⟩))
    · intro ci hci
      obtain ⟨c, hc, rfl⟩ := List.mem_map.mp hci
      exact XOk_plain hl (h.inw _ (List.mem_map.mpr ⟨c, hc, rfl⟩))

end AscentVerif.PhysParLat
