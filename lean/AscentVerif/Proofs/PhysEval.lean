import AscentVerif.Model.EnginePhys
import AscentVerif.Proofs.PhysIdx
import AscentVerif.Proofs.NDEngine
import AscentVerif.Props.C01Plan
/-!
# Evaluating a rule over the physical indices = evaluating its plan over the bags (step 1 of `Props/C01Phys.lean`)

`ViewSpec`: what the evaluation needs to know about the index versions a clause reads (`index_get`, `iter_all`,
`len_estimate` against the bag of row numbers of the abstract engine).  Under it `Phys.evalFrom` has exactly the members
of `Plan.evalFrom`; hence (`Props/C01Plan.lean`) the head rows of `Phys.evalRule` are those of `Engine.evalBody`, the
empty-relation guard and the `len_estimate` swap included.
-/
namespace AscentVerif.Phys
open AscentVerif AscentVerif.Engine AscentVerif.Index

variable {E B G P A : Type}

/-! ## what a clause sees of the version(s) it reads -/

structure ViewSpec (arity : Nat) (rows : List Tuple) (bag : List Nat) (w : View) (cols : List Nat) : Prop where
  get : ∀ key t, t ∈ getV arity w cols key ↔ ∃ i ∈ bag, rowAt rows i = t ∧ Plan.proj cols t = key
  all : ∀ k t, (∃ kr ∈ allV arity w cols, kr.1 = k ∧ t ∈ kr.2) ↔ ∃ i ∈ bag, rowAt rows i = t ∧ Plan.proj cols t = k
  len : lenV arity w cols = 0 ↔ bag = []

theorem ViewSpec.of_one {ixr : List (List Nat)} {rows : List Tuple} {bag : List Nat} {full : FIx}
    {idxs : List (List Nat × PIx)} {arity : Nat} {cols : List Nat} (hv : VerOk ixr rows bag full idxs)
    (hc : ColsOk arity cols) (hix : cols.length = arity ∨ cols ∈ ixr)
    (hty : ∀ i ∈ bag, (rowAt rows i).length = arity) : ViewSpec arity rows bag (.one full idxs) cols :=
  ⟨fun key t => get1_spec arity cols key hv hc hix hty t, fun k t => all1_spec arity cols hv hc hix hty k t,
    len1_eq_zero arity cols hv hix⟩

theorem ViewSpec.of_stored {ixr : List (List Nat)} {rows : List Tuple} {bag : List Nat} {pr : PRel}
    {arity : Nat} {cols : List Nat} (hv : VerOk ixr rows bag pr.full pr.idxs)
    (hc : ColsOk arity cols) (hix : cols.length = arity ∨ cols ∈ ixr)
    (hty : ∀ i ∈ bag, (rowAt rows i).length = arity) : ViewSpec arity rows bag (.stored pr) cols :=
  ⟨fun key t => get1_spec arity cols key hv hc hix hty t, fun k t => all1_spec arity cols hv hc hix hty k t,
    len1_eq_zero arity cols hv hix⟩

theorem ViewSpec.of_two {ixr : List (List Nat)} {rows : List Tuple} {b₁ b₂ : List Nat} {f₁ f₂ : FIx}
    {i₁ i₂ : List (List Nat × PIx)} {arity : Nat} {cols : List Nat} (hv₁ : VerOk ixr rows b₁ f₁ i₁)
    (hv₂ : VerOk ixr rows b₂ f₂ i₂) (hc : ColsOk arity cols) (hix : cols.length = arity ∨ cols ∈ ixr)
    (hty₁ : ∀ i ∈ b₁, (rowAt rows i).length = arity) (hty₂ : ∀ i ∈ b₂, (rowAt rows i).length = arity) :
    ViewSpec arity rows (b₁ ++ b₂) (.two f₁ i₁ f₂ i₂) cols := by
  refine ⟨?_, ?_, ?_⟩
  · intro key t
    simp only [getV, List.mem_append, get1_spec arity cols key hv₁ hc hix hty₁ t,
      get1_spec arity cols key hv₂ hc hix hty₂ t]
    constructor
    · rintro (⟨i, hi, h⟩ | ⟨i, hi, h⟩)
      · exact ⟨i, .inl hi, h⟩
      · exact ⟨i, .inr hi, h⟩
    · rintro ⟨i, hi | hi, h⟩
      · exact .inl ⟨i, hi, h⟩
      · exact .inr ⟨i, hi, h⟩
  · intro k t
    have h1 := all1_spec arity cols hv₁ hc hix hty₁ k t
    have h2 := all1_spec arity cols hv₂ hc hix hty₂ k t
    simp only [allV, List.mem_append]
    constructor
    · rintro ⟨kr, hkr | hkr, h⟩
      · obtain ⟨i, hi, h'⟩ := h1.mp ⟨kr, hkr, h⟩; exact ⟨i, .inl hi, h'⟩
      · obtain ⟨i, hi, h'⟩ := h2.mp ⟨kr, hkr, h⟩; exact ⟨i, .inr hi, h'⟩
    · rintro ⟨i, hi | hi, h⟩
      · obtain ⟨kr, hkr, h'⟩ := h1.mpr ⟨i, hi, h⟩; exact ⟨kr, .inl hkr, h'⟩
      · obtain ⟨kr, hkr, h'⟩ := h2.mpr ⟨i, hi, h⟩; exact ⟨kr, .inr hkr, h'⟩
  · have h1 := len1_eq_zero arity cols hv₁ hix
    have h2 := len1_eq_zero arity cols hv₂ hix
    simp only [lenV, List.append_eq_nil_iff, ← h1, ← h2]
    omega

/-! ## the row steps -/

/-- what both `clauseStep`s and the two levels of both `joinStep`s do with one matching row -/
def rowStep (I : Interp E B G P A) (skip : Nat → Var → Bool) (args : List (Arg E)) (conds : List (Cond E B P)) (ρ : Env)
    (k : Env → List Env) (row : Tuple) : List Env :=
  match Plan.bindArgs skip 0 args row ρ with
  | none => []
  | some ρ₁ =>
    match satConds I conds ρ₁ with
    | none => []
    | some ρ₂ => k ρ₂

theorem rowStep_congr (I : Interp E B G P A) (skip : Nat → Var → Bool) (args : List (Arg E)) (conds : List (Cond E B P))
    (ρ : Env) (k k' : Env → List Env) (hk : ∀ ρ' x, x ∈ k ρ' ↔ x ∈ k' ρ') (row : Tuple) (x : Env) :
    x ∈ rowStep I skip args conds ρ k row ↔ x ∈ rowStep I skip args conds ρ k' row := by
  unfold rowStep
  cases Plan.bindArgs skip 0 args row ρ with
  | none => exact Iff.rfl
  | some ρ₁ =>
    show (x ∈ match satConds I conds ρ₁ with
      | none => []
      | some ρ₂ => k ρ₂) ↔ (x ∈ match satConds I conds ρ₁ with
      | none => []
      | some ρ₂ => k' ρ₂)
    cases satConds I conds ρ₁ with
    | none => exact Iff.rfl
    | some ρ₂ => exact hk ρ₂ x

theorem physClauseStep_eq (I : Interp E B G P A) (matching : List Tuple) (pre : List Var) (args : List (Arg E))
    (conds : List (Cond E B P)) (ρ : Env) (k : Env → List Env) :
    clauseStep I matching pre args conds ρ k = matching.flatMap (rowStep I (fun _ v => pre.contains v) args conds ρ k) := rfl

theorem planClauseStep_eq (I : Interp E B G P A) (rows : List Tuple) (bag cols : List Nat) (pre : List Var)
    (args : List (Arg E)) (conds : List (Cond E B P)) (ρ : Env) (k : Env → List Env) :
    Plan.clauseStep I rows bag cols pre args conds ρ k =
      (Plan.idxGet rows bag cols (Plan.keyOf I ρ args cols)).flatMap fun i =>
        rowStep I (fun _ v => pre.contains v) args conds ρ k (rowAt rows i) := rfl

theorem physJoinStep_eq (I : Interp E B G P A) (allA : List (List Val × List Tuple)) (colsA : List Nat)
    (argsA : List (Arg E)) (condsA : List (Cond E B P)) (getB : List Val → List Tuple) (colsB : List Nat)
    (argsB : List (Arg E)) (condsB : List (Cond E B P)) (preB : List Var) (ρ : Env) (k : Env → List Env) :
    joinStep I allA colsA argsA condsA getB colsB argsB condsB preB ρ k =
      allA.flatMap fun kr => kr.2.flatMap fun rowA =>
        rowStep I (fun j _ => colsA.contains j) argsA condsA (Plan.bindKey argsA colsA kr.1 ρ)
          (fun ρ₂ => (getB (Plan.keyOf I (Plan.bindKey argsA colsA kr.1 ρ) argsB colsB)).flatMap
            (rowStep I (fun _ v => preB.contains v) argsB condsB ρ₂ k)) rowA := rfl

theorem planJoinStep_eq (I : Interp E B G P A) (rowsA : List Tuple) (bagA colsA : List Nat) (argsA : List (Arg E))
    (condsA : List (Cond E B P)) (rowsB : List Tuple) (bagB colsB : List Nat) (argsB : List (Arg E))
    (condsB : List (Cond E B P)) (preB : List Var) (ρ : Env) (k : Env → List Env) :
    Plan.joinStep I rowsA bagA colsA argsA condsA rowsB bagB colsB argsB condsB preB ρ k =
      (Plan.iterAll rowsA bagA colsA).flatMap fun kr => kr.2.flatMap fun ia =>
        rowStep I (fun j _ => colsA.contains j) argsA condsA (Plan.bindKey argsA colsA kr.1 ρ)
          (fun ρ₂ => (Plan.idxGet rowsB bagB colsB (Plan.keyOf I (Plan.bindKey argsA colsA kr.1 ρ) argsB colsB)).flatMap
            fun ib => rowStep I (fun _ v => preB.contains v) argsB condsB ρ₂ k (rowAt rowsB ib)) (rowAt rowsA ia) := rfl

/-- rows on one side, their numbers on the other -/
theorem mem_flatMap_rows {β : Type} (rows : List Tuple) (lP : List Tuple) (lQ : List Nat) (f g : Tuple → List β)
    (hl : ∀ t, t ∈ lP ↔ ∃ i ∈ lQ, rowAt rows i = t) (hfg : ∀ t x, x ∈ f t ↔ x ∈ g t) (x : β) :
    x ∈ lP.flatMap f ↔ x ∈ lQ.flatMap fun i => g (rowAt rows i) := by
  simp only [List.mem_flatMap]
  constructor
  · rintro ⟨t, ht, hx⟩
    obtain ⟨i, hi, rfl⟩ := (hl t).mp ht
    exact ⟨i, hi, (hfg _ x).mp hx⟩
  · rintro ⟨i, hi, hx⟩
    exact ⟨rowAt rows i, (hl _).mpr ⟨i, hi, rfl⟩, (hfg _ x).mpr hx⟩

theorem mem_groups {K α β : Type} (L : List (K × List α)) (F : K → α → List β) (x : β) :
    x ∈ L.flatMap (fun kr => kr.2.flatMap (F kr.1)) ↔ ∃ key t, (∃ kr ∈ L, kr.1 = key ∧ t ∈ kr.2) ∧ x ∈ F key t := by
  simp only [List.mem_flatMap]
  constructor
  · rintro ⟨kr, hkr, t, ht, hx⟩
    exact ⟨kr.1, t, ⟨kr, hkr, rfl, ht⟩, hx⟩
  · rintro ⟨key, t, ⟨kr, hkr, rfl, ht⟩, hx⟩
    exact ⟨kr, hkr, t, ht, hx⟩

theorem iterAll_group (rows : List Tuple) (bag cols : List Nat) (key : List Val) (ia : Nat) :
    (∃ kr ∈ Plan.iterAll rows bag cols, kr.1 = key ∧ ia ∈ kr.2) ↔ ia ∈ bag ∧ Plan.proj cols (rowAt rows ia) = key := by
  obtain ⟨_, h2, _, h4⟩ := Plan.iterAll_spec rows bag cols
  constructor
  · rintro ⟨kr, hkr, rfl, hia⟩
    exact (h2 kr hkr).2.2 ia hia
  · rintro ⟨hia, rfl⟩
    obtain ⟨rs, hrs, hmem⟩ := h4 ia hia
    exact ⟨_, hrs, rfl, hmem⟩

/-- the matching rows of an `index_get` against `idxGet` -/
theorem getV_idxGet {arity : Nat} {rows : List Tuple} {bag : List Nat} {w : View} {cols : List Nat}
    (hv : ViewSpec arity rows bag w cols) (key : List Val) (t : Tuple) :
    t ∈ getV arity w cols key ↔ ∃ i ∈ Plan.idxGet rows bag cols key, rowAt rows i = t := by
  rw [hv.get]
  constructor
  · rintro ⟨i, hi, rfl, hk⟩
    exact ⟨i, ((Plan.idxGet_spec rows bag cols key).2.1 i).mpr ⟨hi, hk⟩, rfl⟩
  · rintro ⟨i, hi, rfl⟩
    obtain ⟨h1, h2⟩ := ((Plan.idxGet_spec rows bag cols key).2.1 i).mp hi
    exact ⟨i, h1, rfl, h2⟩

theorem clauseStep_mem (I : Interp E B G P A) {arity : Nat} {rows : List Tuple} {bag : List Nat} {w : View}
    {cols : List Nat} (hv : ViewSpec arity rows bag w cols) (pre : List Var) (args : List (Arg E))
    (conds : List (Cond E B P)) (ρ : Env) (k k' : Env → List Env) (hk : ∀ ρ' x, x ∈ k ρ' ↔ x ∈ k' ρ') (x : Env) :
    x ∈ clauseStep I (getV arity w cols (Plan.keyOf I ρ args cols)) pre args conds ρ k ↔
      x ∈ Plan.clauseStep I rows bag cols pre args conds ρ k' := by
  rw [physClauseStep_eq, planClauseStep_eq]
  exact mem_flatMap_rows rows _ _ _ _ (getV_idxGet hv _) (fun t x => rowStep_congr I _ args conds ρ k k' hk t x) x

theorem joinStep_mem (I : Interp E B G P A) {arityA arityB : Nat} {rowsA rowsB : List Tuple} {bagA bagB : List Nat}
    {wA wB : View} {colsA colsB : List Nat} (hvA : ViewSpec arityA rowsA bagA wA colsA)
    (hvB : ViewSpec arityB rowsB bagB wB colsB) (argsA : List (Arg E)) (condsA : List (Cond E B P))
    (argsB : List (Arg E)) (condsB : List (Cond E B P)) (preB : List Var) (ρ : Env) (k k' : Env → List Env)
    (hk : ∀ ρ' x, x ∈ k ρ' ↔ x ∈ k' ρ') (x : Env) :
    x ∈ joinStep I (allV arityA wA colsA) colsA argsA condsA (getV arityB wB colsB) colsB argsB condsB preB ρ k ↔
      x ∈ Plan.joinStep I rowsA bagA colsA argsA condsA rowsB bagB colsB argsB condsB preB ρ k' := by
  rw [physJoinStep_eq, planJoinStep_eq]
  let FP : List Val → Tuple → List Env := fun key t =>
    rowStep I (fun j _ => colsA.contains j) argsA condsA (Plan.bindKey argsA colsA key ρ)
      (fun ρ₂ => (getV arityB wB colsB (Plan.keyOf I (Plan.bindKey argsA colsA key ρ) argsB colsB)).flatMap
        (rowStep I (fun _ v => preB.contains v) argsB condsB ρ₂ k)) t
  let FQ : List Val → Tuple → List Env := fun key t =>
    rowStep I (fun j _ => colsA.contains j) argsA condsA (Plan.bindKey argsA colsA key ρ)
      (fun ρ₂ => (Plan.idxGet rowsB bagB colsB (Plan.keyOf I (Plan.bindKey argsA colsA key ρ) argsB colsB)).flatMap
        fun ib => rowStep I (fun _ v => preB.contains v) argsB condsB ρ₂ k' (rowAt rowsB ib)) t
  have hinner : ∀ (key : List Val) (t : Tuple) (x : Env), x ∈ FP key t ↔ x ∈ FQ key t := by
    intro key t x
    apply rowStep_congr
    intro ρ₂ y
    exact mem_flatMap_rows rowsB _ _ _ _ (getV_idxGet hvB _)
      (fun t x => rowStep_congr I _ argsB condsB ρ₂ k k' hk t x) y
  refine (mem_groups (allV arityA wA colsA) FP x).trans
    (Iff.trans ?_ (mem_groups (Plan.iterAll rowsA bagA colsA) (fun key ia => FQ key (rowAt rowsA ia)) x).symm)
  constructor
  · rintro ⟨key, t, hg, hx⟩
    obtain ⟨ia, hia, rfl, hkey⟩ := (hvA.all key t).mp hg
    exact ⟨key, ia, (iterAll_group rowsA bagA colsA key ia).mpr ⟨hia, hkey⟩, (hinner _ _ _).mp hx⟩
  · rintro ⟨key, ia, hg, hx⟩
    obtain ⟨hia, hkey⟩ := (iterAll_group rowsA bagA colsA key ia).mp hg
    exact ⟨key, rowAt rowsA ia, (hvA.all key _).mpr ⟨ia, hia, rfl, hkey⟩, (hinner _ _ _).mpr hx⟩

/-! ## the plan is usable -/

/-- the clause at body position `j` has a usable index -/
def PosOk (p : Program E B G P A) (ix : IxSets) (h : Hir.HRule) (j : Nat) : Item E B G P A → Prop
  | .clause rel args _ => ColsOk (arityOf p rel) (Plan.colsAt h j) ∧
      ((Plan.colsAt h j).length = arityOf p rel ∨ Plan.colsAt h j ∈ ix rel) ∧ args.length = arityOf p rel
  | _ => True

/-- … for every clause of the body that starts at position `i` -/
def ClOk (p : Program E B G P A) (ix : IxSets) (h : Hir.HRule) (i : Nat) (body : List (Item E B G P A)) : Prop :=
  ∀ k it, body[k]? = some it → PosOk p ix h (i + k) it

theorem ClOk.head {p : Program E B G P A} {ix : IxSets} {h : Hir.HRule} {i : Nat} {it : Item E B G P A}
    {rest : List (Item E B G P A)} (hc : ClOk p ix h i (it :: rest)) : PosOk p ix h i it := by
  simpa using hc 0 it rfl

theorem ClOk.tail {p : Program E B G P A} {ix : IxSets} {h : Hir.HRule} {i : Nat} {it : Item E B G P A}
    {rest : List (Item E B G P A)} (hc : ClOk p ix h i (it :: rest)) : ClOk p ix h (i + 1) rest := by
  intro k it' hk
  have := hc (k + 1) it' (by simpa using hk)
  rwa [show i + (k + 1) = i + 1 + k by omega] at this

/-- the interface between the evaluation and the simulation relation -/
def ViewsOk (cfg : Config) (p : Program E B G P A) (ix : IxSets) (a : SccSt) (ph : PScc) : Prop :=
  ∀ r v cols, ColsOk (arityOf p r) cols → (cols.length = arityOf p r ∨ cols ∈ ix r) →
    ViewSpec (arityOf p r) (relSt a.rels r).rows (clauseRows cfg p a r v) (viewOf ph r v) cols

/-! ## `evalFrom`, unfolded -/

theorem evalFrom_join (I : Interp E B G P A) (p : Program E B G P A) (s : PScc) (h : Hir.HRule) (swap : Bool) (i : Nat)
    (r : RelId) (args : List (Arg E)) (conds : List (Cond E B P)) (r2 : RelId) (args2 : List (Arg E))
    (conds2 : List (Cond E B P)) (rest2 : List (Item E B G P A)) (vs : List (Option Ver)) (ρ : Env)
    (hsj : h.simpleJoinStart = some i) :
    evalFrom I p s h swap i (.clause r args conds :: .clause r2 args2 conds2 :: rest2) vs ρ =
      if swap then
        joinStep I (allV (arityOf p r2) (viewOf s r2 (vs.tail.headD none)) (Plan.colsAt h (i + 1))) (Plan.colsAt h (i + 1))
          args2 conds2 (getV (arityOf p r) (viewOf s r (vs.headD none)) (Plan.colsAt h i)) (Plan.colsAt h i) args conds
          (Plan.preVars h i ++ h.bound.getD (i + 1) []) ρ fun ρ' => evalFrom I p s h swap (i + 2) rest2 vs.tail.tail ρ'
      else
        joinStep I (allV (arityOf p r) (viewOf s r (vs.headD none)) (Plan.colsAt h i)) (Plan.colsAt h i) args conds
          (getV (arityOf p r2) (viewOf s r2 (vs.tail.headD none)) (Plan.colsAt h (i + 1))) (Plan.colsAt h (i + 1))
          args2 conds2 (Plan.preVars h (i + 1)) ρ fun ρ' => evalFrom I p s h swap (i + 2) rest2 vs.tail.tail ρ' := by
  simp only [evalFrom, hsj, if_true]

theorem evalFrom_clause (I : Interp E B G P A) (p : Program E B G P A) (s : PScc) (h : Hir.HRule) (swap : Bool) (i : Nat)
    (r : RelId) (args : List (Arg E)) (conds : List (Cond E B P)) (rest : List (Item E B G P A)) (vs : List (Option Ver))
    (ρ : Env) (hne : h.simpleJoinStart = some i → ∀ r2 a2 c2 rest2, rest ≠ .clause r2 a2 c2 :: rest2) :
    evalFrom I p s h swap i (.clause r args conds :: rest) vs ρ =
      clauseStep I (getV (arityOf p r) (viewOf s r (vs.headD none)) (Plan.colsAt h i) (Plan.keyOf I ρ args (Plan.colsAt h i)))
        (Plan.preVars h i) args conds ρ fun ρ' => evalFrom I p s h swap (i + 1) rest vs.tail ρ' := by
  cases rest with
  | nil => simp only [evalFrom]
  | cons it rest2 =>
    cases it with
    | clause r2 a2 c2 =>
      have hsj : ¬ h.simpleJoinStart = some i := fun hh => hne hh r2 a2 c2 rest2 rfl
      simp only [evalFrom, hsj, if_false]
    | cond c => simp only [evalFrom]
    | gen v g => simp only [evalFrom]
    | agg a => simp only [evalFrom]

theorem planEvalFrom_clause (I : Interp E B G P A) (cfg : Config) (p : Program E B G P A) (s : SccSt) (h : Hir.HRule)
    (swap : Bool) (i : Nat) (r : RelId) (args : List (Arg E)) (conds : List (Cond E B P)) (rest : List (Item E B G P A))
    (vs : List (Option Ver)) (ρ : Env)
    (hne : h.simpleJoinStart = some i → ∀ r2 a2 c2 rest2, rest ≠ .clause r2 a2 c2 :: rest2) :
    Plan.evalFrom I cfg p s h swap i (.clause r args conds :: rest) vs ρ =
      Plan.clauseStep I (relSt s.rels r).rows (clauseRows cfg p s r (vs.headD none)) (Plan.colsAt h i) (Plan.preVars h i)
        args conds ρ fun ρ' => Plan.evalFrom I cfg p s h swap (i + 1) rest vs.tail ρ' := by
  cases rest with
  | nil => simp only [Plan.evalFrom]
  | cons it rest2 =>
    cases it with
    | clause r2 a2 c2 =>
      have hsj : ¬ h.simpleJoinStart = some i := fun hh => hne hh r2 a2 c2 rest2 rfl
      simp only [Plan.evalFrom, hsj, if_false]
    | cond c => simp only [Plan.evalFrom]
    | gen v g => simp only [Plan.evalFrom]
    | agg a => simp only [Plan.evalFrom]

theorem aggFreeL_tail {it : Item E B G P A} {rest : List (Item E B G P A)} (h : aggFreeL (it :: rest) = true) :
    aggFreeL rest = true := by
  simp only [aggFreeL, List.all_cons, Bool.and_eq_true] at h; exact h.2

/-! ## the physical evaluation enumerates the environments of the plan evaluation -/

theorem evalFrom_mem (I : Interp E B G P A) (cfg : Config) (p : Program E B G P A) (ix : IxSets) (a : SccSt) (ph : PScc)
    (hV : ViewsOk cfg p ix a ph) (h : Hir.HRule) (swap : Bool) :
    ∀ (n : Nat) (body : List (Item E B G P A)) (i : Nat) (vs : List (Option Ver)) (ρ : Env), body.length ≤ n →
      ClOk p ix h i body → aggFreeL body = true →
      ∀ x, x ∈ evalFrom I p ph h swap i body vs ρ ↔ x ∈ Plan.evalFrom I cfg p a h swap i body vs ρ := by
  intro n
  induction n with
  | zero =>
    intro body i vs ρ hlen _ _ x
    cases body with
    | nil => simp only [evalFrom, Plan.evalFrom]
    | cons it rest => simp at hlen
  | succ n ih =>
    intro body i vs ρ hlen hok haf x
    cases body with
    | nil => simp only [evalFrom, Plan.evalFrom]
    | cons it rest =>
      have hlen' : rest.length ≤ n := by simpa using hlen
      have haf' := aggFreeL_tail haf
      cases it with
      | cond c =>
        simp only [evalFrom, Plan.evalFrom]
        cases satCond I c ρ with
        | none => exact Iff.rfl
        | some ρ₁ => exact ih rest (i + 1) vs.tail ρ₁ hlen' hok.tail haf' x
      | gen v g =>
        simp only [evalFrom, Plan.evalFrom, List.mem_flatMap]
        constructor
        · rintro ⟨y, hy, hx⟩
          exact ⟨y, hy, (ih rest (i + 1) vs.tail _ hlen' hok.tail haf' x).mp hx⟩
        · rintro ⟨y, hy, hx⟩
          exact ⟨y, hy, (ih rest (i + 1) vs.tail _ hlen' hok.tail haf' x).mpr hx⟩
      | agg ag => simp [aggFreeL, Item.isAgg] at haf
      | clause r args conds =>
        obtain ⟨hc1, hix1, _⟩ : PosOk p ix h i (.clause r args conds) := hok.head
        have hv1 := hV r (vs.headD none) _ hc1 hix1
        by_cases hj : h.simpleJoinStart = some i ∧ ∃ r2 a2 c2 rest2, rest = .clause r2 a2 c2 :: rest2
        · obtain ⟨hsj, r2, a2, c2, rest2, rfl⟩ := hj
          obtain ⟨hc2, hix2, _⟩ : PosOk p ix h (i + 1) (.clause r2 a2 c2) := hok.tail.head
          have hv2 := hV r2 (vs.tail.headD none) _ hc2 hix2
          have hlen2 : rest2.length ≤ n := by simp at hlen'; omega
          have hk : ∀ ρ' x, x ∈ evalFrom I p ph h swap (i + 2) rest2 vs.tail.tail ρ' ↔
              x ∈ Plan.evalFrom I cfg p a h swap (i + 2) rest2 vs.tail.tail ρ' :=
            fun ρ' x => ih rest2 (i + 2) vs.tail.tail ρ' hlen2 hok.tail.tail (aggFreeL_tail haf') x
          rw [evalFrom_join I p ph h swap i r args conds r2 a2 c2 rest2 vs ρ hsj,
            Plan.evalFrom_join I cfg p a h swap i r args conds r2 a2 c2 rest2 vs ρ hsj]
          cases swap with
          | true =>
            simp only [if_true]
            exact joinStep_mem I hv2 hv1 a2 c2 args conds _ ρ _ _ hk x
          | false =>
            simp only [Bool.false_eq_true, if_false]
            exact joinStep_mem I hv1 hv2 args conds a2 c2 _ ρ _ _ hk x
        · have hne : h.simpleJoinStart = some i → ∀ r2 a2 c2 rest2, rest ≠ .clause r2 a2 c2 :: rest2 :=
            fun hsj r2 a2 c2 rest2 he => hj ⟨hsj, r2, a2, c2, rest2, he⟩
          rw [evalFrom_clause I p ph h swap i r args conds rest vs ρ hne,
            planEvalFrom_clause I cfg p a h swap i r args conds rest vs ρ hne]
          exact clauseStep_mem I hv1 _ args conds ρ _ _
            (fun ρ' x => ih rest (i + 1) vs.tail ρ' hlen' hok.tail haf' x) x

/-! ## the empty-relation guard -/

theorem clausesOf_ok {p : Program E B G P A} {ix : IxSets} {h : Hir.HRule} :
    ∀ (body : List (Item E B G P A)) (i : Nat) (vs : List (Option Ver)), ClOk p ix h i body →
      ∀ c ∈ clausesOf i body vs, ColsOk (arityOf p c.2.1) (Plan.colsAt h c.1) ∧
        ((Plan.colsAt h c.1).length = arityOf p c.2.1 ∨ Plan.colsAt h c.1 ∈ ix c.2.1)
  | [], _, _, _, c, hc => by simp [clausesOf] at hc
  | .clause r args conds :: rest, i, vs, hok, c, hc => by
    simp only [clausesOf, List.mem_cons] at hc
    rcases hc with rfl | hc
    · obtain ⟨h1, h2, _⟩ : PosOk p ix h i (.clause r args conds) := hok.head
      exact ⟨h1, h2⟩
    · exact clausesOf_ok rest (i + 1) vs.tail hok.tail c hc
  | .cond _ :: rest, i, vs, hok, c, hc => by
    simp only [clausesOf] at hc
    exact clausesOf_ok rest (i + 1) vs.tail hok.tail c hc
  | .gen _ _ :: rest, i, vs, hok, c, hc => by
    simp only [clausesOf] at hc
    exact clausesOf_ok rest (i + 1) vs.tail hok.tail c hc
  | .agg _ :: rest, i, vs, hok, c, hc => by
    simp only [clausesOf] at hc
    exact clausesOf_ok rest (i + 1) vs.tail hok.tail c hc

/-- a clause over an empty version anywhere in the body: no environment reaches the head -/
theorem evalBody_nil_of_empty (I : Interp E B G P A) (cfg : Config) (p : Program E B G P A) (a : SccSt) :
    ∀ (body : List (Item E B G P A)) (i : Nat) (vs : List (Option Ver)) (ρ : Env),
      (∃ c ∈ clausesOf i body vs, clauseRows cfg p a c.2.1 c.2.2 = []) → evalBody I cfg p a body vs ρ = []
  | [], _, _, _, h => by simp [clausesOf] at h
  | .clause r args conds :: rest, i, vs, ρ, h => by
    obtain ⟨c, hc, he⟩ := h
    simp only [clausesOf, List.mem_cons] at hc
    simp only [evalBody]
    rcases hc with rfl | hc
    · simp only at he
      rw [he]; rfl
    · rw [List.flatMap_eq_nil_iff]
      intro j _
      cases matchArgs I ρ args (rowAt (relSt a.rels r).rows j) ρ with
      | none => rfl
      | some ρ₁ =>
        show (match satConds I conds ρ₁ with
          | none => []
          | some ρ₂ => evalBody I cfg p a rest vs.tail ρ₂) = []
        cases satConds I conds ρ₁ with
        | none => rfl
        | some ρ₂ => exact evalBody_nil_of_empty I cfg p a rest (i + 1) vs.tail ρ₂ ⟨c, hc, he⟩
  | .cond cd :: rest, i, vs, ρ, h => by
    obtain ⟨c, hc, he⟩ := h
    simp only [clausesOf] at hc
    simp only [evalBody]
    cases satCond I cd ρ with
    | none => rfl
    | some ρ₁ => exact evalBody_nil_of_empty I cfg p a rest (i + 1) vs.tail ρ₁ ⟨c, hc, he⟩
  | .gen v g :: rest, i, vs, ρ, h => by
    obtain ⟨c, hc, he⟩ := h
    simp only [clausesOf] at hc
    simp only [evalBody]
    rw [List.flatMap_eq_nil_iff]
    intro y _
    exact evalBody_nil_of_empty I cfg p a rest (i + 1) vs.tail _ ⟨c, hc, he⟩
  | .agg ag :: rest, i, vs, ρ, h => by
    obtain ⟨c, hc, he⟩ := h
    simp only [clausesOf] at hc
    simp only [evalBody]
    rw [List.flatMap_eq_nil_iff]
    intro y _
    exact evalBody_nil_of_empty I cfg p a rest (i + 1) vs.tail _ ⟨c, hc, he⟩

theorem anyEmpty_sound (I : Interp E B G P A) (cfg : Config) (p : Program E B G P A) (ix : IxSets) (a : SccSt) (ph : PScc)
    (hV : ViewsOk cfg p ix a ph) (h : Hir.HRule) (body : List (Item E B G P A)) (vs : List (Option Ver))
    (hok : ClOk p ix h 0 body) (he : anyEmpty p ph h body vs = true) : evalBody I cfg p a body vs [] = [] := by
  simp only [anyEmpty, Bool.and_eq_true, List.any_eq_true] at he
  obtain ⟨_, c, hc, hemp⟩ := he
  apply evalBody_nil_of_empty I cfg p a body 0 vs [] ⟨c, hc, ?_⟩
  obtain ⟨h1, h2⟩ := clausesOf_ok body 0 vs hok c hc
  have hv := hV c.2.1 c.2.2 _ h1 h2
  apply hv.len.mp
  simpa [isEmptyV] using hemp

theorem chooseSwap_reorderable (p : Program E B G P A) (s : PScc) (h : Hir.HRule) (body : List (Item E B G P A))
    (vs : List (Option Ver)) (hs : chooseSwap p s h body vs = true) : Plan.reorderable h = true := by
  unfold chooseSwap at hs
  split at hs
  · cases hs
  · split at hs
    · cases hs
    · rename_i hr
      simpa using hr

/-! ## one MIR rule: the head rows of the physical evaluation are those of the filter semantics -/

theorem mem_flatMap_of_map_perm {α β : Type} {l l' : List α} (f : α → List β) (hp : (l.map f).Perm (l'.map f)) (x : β) :
    x ∈ l.flatMap f ↔ x ∈ l'.flatMap f := by
  have : ∀ l : List α, x ∈ l.flatMap f ↔ ∃ y ∈ l.map f, x ∈ y := by
    intro l
    simp only [List.mem_flatMap, List.mem_map]
    constructor
    · rintro ⟨a, ha, hx⟩; exact ⟨f a, ⟨a, ha, rfl⟩, hx⟩
    · rintro ⟨_, ⟨a, ha, rfl⟩, hx⟩; exact ⟨a, ha, hx⟩
  rw [this, this]
  constructor
  · rintro ⟨y, hy, hx⟩; exact ⟨y, hp.mem_iff.mp hy, hx⟩
  · rintro ⟨y, hy, hx⟩; exact ⟨y, hp.mem_iff.mpr hy, hx⟩

theorem evalRule_rows (I : Interp E B G P A) (hI : Plan.Ext I) (cfg : Config) (V : Hir.VarsOf E B) (hS : Plan.Supp I V)
    (p : Program E B G P A) (ix : IxSets) (a : SccSt) (ph : PScc) (hV : ViewsOk cfg p ix a ph) (r : Rule E B G P A)
    (hd : Hir.Desugared V r = true) (hw : Plan.WellScoped V r = true) (hok : ClOk p ix (Hir.compileRule V r) 0 r.body)
    (haf : r.aggFree = true) (vs : List (Option Ver)) (x : RelId × Tuple) :
    x ∈ (evalRule I p ph (Hir.compileRule V r) r.body vs).flatMap (headRows I r.heads) ↔
      x ∈ (evalBody I cfg p a r.body vs []).flatMap (headRows I r.heads) := by
  unfold evalRule
  split
  · rename_i he
    rw [anyEmpty_sound I cfg p ix a ph hV _ r.body vs hok he]
  · have h1 : x ∈ (evalFrom I p ph (Hir.compileRule V r) (chooseSwap p ph (Hir.compileRule V r) r.body vs) 0 r.body vs []).flatMap
          (headRows I r.heads) ↔
        x ∈ (Plan.evalBodyPlan I cfg p a (Hir.compileRule V r) (chooseSwap p ph (Hir.compileRule V r) r.body vs) r.body vs
          []).flatMap (headRows I r.heads) := by
      simp only [List.mem_flatMap, Plan.evalBodyPlan]
      constructor
      · rintro ⟨ρ, hρ, hx⟩
        exact ⟨ρ, (evalFrom_mem I cfg p ix a ph hV _ _ _ r.body 0 vs [] (Nat.le_refl _) hok haf ρ).mp hρ, hx⟩
      · rintro ⟨ρ, hρ, hx⟩
        exact ⟨ρ, (evalFrom_mem I cfg p ix a ph hV _ _ _ r.body 0 vs [] (Nat.le_refl _) hok haf ρ).mpr hρ, hx⟩
    rw [h1]
    cases hs : chooseSwap p ph (Hir.compileRule V r) r.body vs with
    | false => exact mem_flatMap_of_map_perm _ (Plan.head_rows_perm I hI cfg p a V r hd vs) x
    | true =>
      exact mem_flatMap_of_map_perm _ (Plan.head_rows_perm_swapped I hI cfg p a V hS r hd hw
        (chooseSwap_reorderable p ph _ r.body vs hs) vs) x

end AscentVerif.Phys
