import AscentVerif.Spec.CheckSpec
/-!
# C15: decomposition of the pipeline, and the classes decided by attributes / declarations / parsing
-/
set_option linter.unusedSimpArgs false
namespace AscentVerif.Check
open AscentVerif AscentVerif.Engine

/-- `compile` succeeds iff every stage succeeds -/
theorem compile_ok_iff (s : Summary) :
    compile s = .ok () ↔ ∃ rules, desugar s.macros s.rules = .ok rules ∧ hirRules s.decls rules = .ok () ∧
      configCheck s.attrs s.kind.parallel = .ok () ∧ declsCheck s.decls = .ok () ∧
      stratError (skeleton s.decls rules) = false ∧ codegenCheck rules s.sig = .ok () := by
  unfold compile
  cases hd : desugar s.macros s.rules with
  | error e => simp
  | ok rules =>
    cases hh : hirRules s.decls rules with
    | error e => simp [hh]
    | ok u =>
      cases hc : configCheck s.attrs s.kind.parallel with
      | error e => simp [hh, hc]
      | ok u2 =>
        cases hdl : declsCheck s.decls with
        | error e => simp [hh, hc, hdl]
        | ok u3 =>
          cases hs : stratError (skeleton s.decls rules) <;> simp [hh, hc, hdl, hs]

theorem check_of_reaches {s : Summary} (h : Reaches s) : check s = compile s := by
  unfold check
  rw [h.1]
  simp [h.2]

/-- a program that reaches compilation is rejected unless every stage succeeds -/
theorem rejected_of_not_compile {s : Summary} (h : Reaches s) (hc : compile s ≠ .ok ()) : Rejected s := by
  unfold Rejected
  rw [check_of_reaches h]
  cases hcs : compile s with
  | error e => exact ⟨e, rfl⟩
  | ok u => cases u; exact absurd hcs hc

/-! ## include_source! inside ascent_source! -/

theorem parseItems_whole_no_incl : ∀ (items : List Top), parseItems items = .ok .whole → ∀ n, Top.incl n ∉ items
  | [], _, n, h => by cases h
  | .rel d :: rest, h, n, hm => by
    unfold parseItems at h
    split at h
    · cases h
    · cases hm with
      | tail _ hm => exact parseItems_whole_no_incl rest h n hm
  | .mac k d :: rest, h, n, hm => by
    unfold parseItems at h
    split at h
    · cases h
    · cases hm with
      | tail _ hm => exact parseItems_whole_no_incl rest h n hm
  | .rule k r :: rest, h, n, hm => by
    unfold parseItems at h
    split at h
    · cases h
    · cases hm with
      | tail _ hm => exact parseItems_whole_no_incl rest h n hm
  | .incl k :: rest, h, n, hm => by
    unfold parseItems at h
    split at h <;> cases h

theorem include_rejected (s : Summary) (h : IllFormedInclude s) : Rejected s := by
  obtain ⟨hk, n, hn⟩ := h
  unfold Rejected check
  cases hp : parseItems s.items with
  | error e => exact ⟨e, rfl⟩
  | ok p =>
    cases p with
    | whole => exact absurd hn (parseItems_whole_no_incl _ hp n)
    | deferred => exact ⟨.includeInSource, by simp [hk]⟩

/-! ## `ds` attributes -/

theorem getDsAttr_ok_false {as : List AttrS} (h : getDsAttr as = .ok false) : ∀ a ∈ as, a.name ≠ "ds" := by
  unfold getDsAttr at h
  split at h
  · rename_i hf
    intro a ha hn
    have : a ∈ as.filter fun a => a.name == "ds" := by simp [List.mem_filter, ha, hn]
    rw [hf] at this
    cases this
  · split at h <;> cases h
  · cases h

theorem getDsAttr_ok_lt_two {as : List AttrS} {b : Bool} (h : getDsAttr as = .ok b) : ¬ hasTwoDs as := by
  unfold getDsAttr at h
  unfold hasTwoDs
  split at h
  · rename_i hf; simp [hf]
  · rename_i hf; simp [hf]
  · cases h

theorem declsCheck_ok : ∀ {ds : List Decl}, declsCheck ds = .ok () → ∀ d ∈ ds, ∃ b, getDsAttr d.attrs = .ok b ∧ ¬ (b = true ∧ d.lat = true)
  | [], _, d, hd => by cases hd
  | d0 :: rest, h, d, hd => by
    unfold declsCheck at h
    split at h
    · cases h
    · rename_i b hb
      split at h
      · cases h
      · rename_i hnot
        cases hd with
        | head => exact ⟨b, hb, by simpa using hnot⟩
        | tail _ hd => exact declsCheck_ok h d hd

theorem dsLattice_rejected (s : Summary) (hr : Reaches s) (h : IllFormedDsLattice s) : Rejected s := by
  apply rejected_of_not_compile hr
  intro hc
  obtain ⟨rules, _, _, _, hdl, _, _⟩ := (compile_ok_iff s).1 hc
  obtain ⟨d, hd, hlat, a, ha, hn⟩ := h
  obtain ⟨b, hb, hnot⟩ := declsCheck_ok hdl d hd
  cases b with
  | true => exact hnot ⟨rfl, hlat⟩
  | false => exact getDsAttr_ok_false hb a ha hn

theorem configCheck_ok {as : List AttrS} {par : Bool} (h : configCheck as par = .ok ()) :
    (∀ a ∈ as, a.name ∈ recognizedAttrs) ∧ ((firstNamed as "inter_rule_parallelism").isSome = true → par = true) ∧
      ∃ b, getDsAttr as = .ok b := by
  unfold configCheck at h
  split at h
  · cases h
  · split at h
    · cases h
    · split at h
      · cases h
      · split at h
        · cases h
        · rename_i hany
          split at h
          · cases h
          · rename_i hpar
            split at h
            · cases h
            · rename_i b hb
              refine ⟨?_, ?_, b, hb⟩
              · intro a ha
                have : ¬ (as.any fun a => !recognizedAttrs.contains a.name) = true := hany
                simp only [List.any_eq_true, not_exists, not_and] at this
                have := this a ha
                simpa using this
              · intro hs
                cases par with
                | true => rfl
                | false => simp [hs] at hpar

theorem twoDs_rejected (s : Summary) (hr : Reaches s) (h : IllFormedTwoDs s) : Rejected s := by
  apply rejected_of_not_compile hr
  intro hc
  obtain ⟨rules, _, _, hcfg, hdl, _, _⟩ := (compile_ok_iff s).1 hc
  rcases h with h | ⟨d, hd, h⟩
  · obtain ⟨_, _, b, hb⟩ := configCheck_ok hcfg
    exact getDsAttr_ok_lt_two hb h
  · obtain ⟨b, hb, _⟩ := declsCheck_ok hdl d hd
    exact getDsAttr_ok_lt_two hb h

theorem unknownAttr_rejected (s : Summary) (hr : Reaches s) (h : IllFormedUnknownAttr s) : Rejected s := by
  apply rejected_of_not_compile hr
  intro hc
  obtain ⟨rules, _, _, hcfg, _, _, _⟩ := (compile_ok_iff s).1 hc
  obtain ⟨a, ha, hn⟩ := h
  exact hn ((configCheck_ok hcfg).1 a ha)

theorem firstNamed_isSome {as : List AttrS} {n : String} (h : ∃ a ∈ as, a.name = n) : (firstNamed as n).isSome = true := by
  obtain ⟨a, ha, hn⟩ := h
  unfold firstNamed
  rw [List.find?_isSome]
  exact ⟨a, ha, by simp [hn]⟩

theorem parOnlyAttr_rejected (s : Summary) (hr : Reaches s) (h : IllFormedParOnlyAttr s) : Rejected s := by
  apply rejected_of_not_compile hr
  intro hc
  obtain ⟨rules, _, _, hcfg, _, _, _⟩ := (compile_ok_iff s).1 hc
  obtain ⟨hp, ha⟩ := h
  have := (configCheck_ok hcfg).2.1 (firstNamed_isSome ha)
  rw [hp] at this
  cases this

end AscentVerif.Check
