import AscentVerif.Spec.CheckSpec
/-!
# C15: decomposition of the pipeline, and the classes decided by attributes / declarations / parsing
-/
set_option linter.unusedSimpArgs false
namespace AscentVerif.Check
open AscentVerif AscentVerif.Engine

/-- `compile` succeeds iff every stage succeeds -/
theorem compile_ok_iff (s : Summary) :
    compile s = .ok () ↔ ∃ rules, desugar s.macros s.rules = .ok rules ∧ hirRules s.decls rules = .ok () ∧
      configCheck s.attrs s.kind.parallel = .ok () ∧ declsCheck s.effDecls = .ok () ∧
      sigCheck s.sig = .ok () ∧ stratError (skeleton s.decls rules) = false := by
  unfold compile
  cases hd : desugar s.macros s.rules with
  | error e => simp
  | ok rules =>
    cases hh : hirRules s.decls rules with
    | error e => simp [hh]
    | ok u =>
      cases hc : configCheck s.attrs s.kind.parallel with
      | error e => simp [hh, hc]
      | ok u2 =>
        cases hdl : declsCheck s.effDecls with
        | error e => simp [hh, hc, hdl]
        | ok u3 =>
          cases hsg : sigCheck s.sig with
          | error e => simp [hh, hc, hdl, hsg]
          | ok u4 =>
            cases hs : stratError (skeleton s.decls rules) <;> simp [hh, hc, hdl, hsg, hs]

theorem check_of_reaches {s : Summary} (h : Reaches s) : check s = compile s := by
  unfold check
  rw [h.1]
  simp [h.2]

/-- a program that reaches compilation is rejected unless every stage succeeds -/
theorem rejected_of_not_compile {s : Summary} (h : Reaches s) (hc : compile s ≠ .ok ()) : Rejected s := by
  unfold Rejected
  rw [check_of_reaches h]
  cases hcs : compile s with
  | error e => exact ⟨e, rfl⟩
  | ok u => cases u; exact absurd hcs hc

/-! ## empty disjunctions -/

mutual
theorem hasEmptyDisj_sound : ∀ (it : Item), it.hasEmptyDisj = true → HasEmptyDisj it
  | .clause _ _ _, h => by simp [Item.hasEmptyDisj] at h
  | .binder _, h => by simp [Item.hasEmptyDisj] at h
  | .agg _ _ _ _, h => by simp [Item.hasEmptyDisj] at h
  | .neg _ _, h => by simp [Item.hasEmptyDisj] at h
  | .mac _ _, h => by simp [Item.hasEmptyDisj] at h
  | .disj alts, h => by
    rw [Item.hasEmptyDisj, Bool.or_eq_true] at h
    rcases h with h | h
    · have : alts = [] := by simpa using h
      subst this
      exact HasEmptyDisj.here
    · obtain ⟨alt, halt, it, hit, hh⟩ := altsHaveEmptyDisj_sound alts h
      exact HasEmptyDisj.inDisj halt hit hh
theorem itemsHaveEmptyDisj_sound : ∀ (its : List Item), itemsHaveEmptyDisj its = true → ∃ it ∈ its, HasEmptyDisj it
  | [], h => by simp [itemsHaveEmptyDisj] at h
  | it :: rest, h => by
    rw [itemsHaveEmptyDisj, Bool.or_eq_true] at h
    rcases h with h | h
    · exact ⟨it, List.mem_cons_self, hasEmptyDisj_sound it h⟩
    · obtain ⟨x, hx, hh⟩ := itemsHaveEmptyDisj_sound rest h
      exact ⟨x, List.mem_cons_of_mem _ hx, hh⟩
theorem altsHaveEmptyDisj_sound : ∀ (alts : List (List Item)), altsHaveEmptyDisj alts = true →
    ∃ alt ∈ alts, ∃ it ∈ alt, HasEmptyDisj it
  | [], h => by simp [altsHaveEmptyDisj] at h
  | alt :: rest, h => by
    rw [altsHaveEmptyDisj, Bool.or_eq_true] at h
    rcases h with h | h
    · obtain ⟨x, hx, hh⟩ := itemsHaveEmptyDisj_sound alt h
      exact ⟨alt, List.mem_cons_self, x, hx, hh⟩
    · obtain ⟨a, ha, x, hx, hh⟩ := altsHaveEmptyDisj_sound rest h
      exact ⟨a, List.mem_cons_of_mem _ ha, x, hx, hh⟩
end

theorem itemsHaveEmptyDisj_of_mem : ∀ {its : List Item} {it : Item}, it ∈ its → it.hasEmptyDisj = true →
    itemsHaveEmptyDisj its = true
  | x :: rest, it, hm, h => by
    rw [itemsHaveEmptyDisj, Bool.or_eq_true]
    rcases List.mem_cons.1 hm with rfl | hm
    · exact Or.inl h
    · exact Or.inr (itemsHaveEmptyDisj_of_mem hm h)

theorem altsHaveEmptyDisj_of_mem : ∀ {alts : List (List Item)} {alt : List Item}, alt ∈ alts →
    itemsHaveEmptyDisj alt = true → altsHaveEmptyDisj alts = true
  | x :: rest, alt, hm, h => by
    rw [altsHaveEmptyDisj, Bool.or_eq_true]
    rcases List.mem_cons.1 hm with rfl | hm
    · exact Or.inl h
    · exact Or.inr (altsHaveEmptyDisj_of_mem hm h)

theorem hasEmptyDisj_complete {it : Item} (h : HasEmptyDisj it) : it.hasEmptyDisj = true := by
  induction h with
  | here => rw [Item.hasEmptyDisj]; rfl
  | inDisj halt hit _ ih =>
    rw [Item.hasEmptyDisj, Bool.or_eq_true]
    exact Or.inr (altsHaveEmptyDisj_of_mem halt (itemsHaveEmptyDisj_of_mem hit ih))

/-- the executable test is the declarative condition -/
theorem hasEmptyDisj_iff (it : Item) : it.hasEmptyDisj = true ↔ HasEmptyDisj it :=
  ⟨hasEmptyDisj_sound it, hasEmptyDisj_complete⟩

theorem itemsHaveEmptyDisj_iff (its : List Item) : itemsHaveEmptyDisj its = true ↔ ∃ it ∈ its, HasEmptyDisj it :=
  ⟨itemsHaveEmptyDisj_sound its, fun ⟨_, hit, h⟩ => itemsHaveEmptyDisj_of_mem hit (hasEmptyDisj_complete h)⟩

/-- a program that parses as a whole has no empty disjunction in any rule -/
theorem parseItems_whole_noEmptyDisj : ∀ (items : List Top), parseItems items = .ok .whole →
    ∀ n r, Top.rule n r ∈ items → itemsHaveEmptyDisj r.body = false
  | [], _, n, r, hm => by cases hm
  | .rel d :: rest, h, n, r, hm => by
    unfold parseItems at h
    split at h
    · cases h
    · cases hm with
      | tail _ hm => exact parseItems_whole_noEmptyDisj rest h n r hm
  | .mac k d :: rest, h, n, r, hm => by
    unfold parseItems at h
    split at h
    · cases h
    · cases hm with
      | tail _ hm => exact parseItems_whole_noEmptyDisj rest h n r hm
  | .rule k r' :: rest, h, n, r, hm => by
    unfold parseItems at h
    split at h
    · cases h
    · split at h
      · cases h
      · rename_i hne
        cases hm with
        | head => simpa using hne
        | tail _ hm => exact parseItems_whole_noEmptyDisj rest h n r hm
  | .incl k :: rest, h, n, r, hm => by
    unfold parseItems at h
    split at h <;> cases h

theorem parseItems_deferred_incl : ∀ (items : List Top), parseItems items = .ok .deferred → ∃ n, Top.incl n ∈ items
  | [], h => by cases h
  | .rel d :: rest, h => by
    unfold parseItems at h
    split at h
    · cases h
    · obtain ⟨n, hn⟩ := parseItems_deferred_incl rest h
      exact ⟨n, List.mem_cons_of_mem _ hn⟩
  | .mac k d :: rest, h => by
    unfold parseItems at h
    split at h
    · cases h
    · obtain ⟨n, hn⟩ := parseItems_deferred_incl rest h
      exact ⟨n, List.mem_cons_of_mem _ hn⟩
  | .rule k r' :: rest, h => by
    unfold parseItems at h
    split at h
    · cases h
    · split at h
      · cases h
      · obtain ⟨n, hn⟩ := parseItems_deferred_incl rest h
        exact ⟨n, List.mem_cons_of_mem _ hn⟩
  | .incl k :: rest, h => ⟨k, List.mem_cons_self⟩

theorem mem_rules {s : Summary} {r : Rule} (h : r ∈ s.rules) : ∃ n, Top.rule n r ∈ s.items := by
  unfold Summary.rules at h
  obtain ⟨t, ht, hf⟩ := List.mem_filterMap.1 h
  cases t with
  | rule n r' =>
    simp only [Option.some.injEq] at hf
    subst hf
    exact ⟨n, ht⟩
  | rel d => cases hf
  | mac n d => cases hf
  | incl n => cases hf

/-- a program that parses as a whole has no empty disjunction in any rule, declaratively -/
theorem not_emptyDisj_of_whole {s : Summary} (h : parseItems s.items = .ok .whole) : ¬ IllFormedEmptyDisj s := by
  rintro ⟨r, hr, it, hit, hh⟩
  obtain ⟨n, hn⟩ := mem_rules hr
  have := parseItems_whole_noEmptyDisj s.items h n r hn
  rw [(itemsHaveEmptyDisj_iff r.body).2 ⟨it, hit, hh⟩] at this
  cases this

/-- a rule with an empty disjunction (at any position, at any depth) is rejected by every macro, unless an
`include_source!` hands the program text to another macro invocation -/
theorem illFormedEmptyDisj_rejected (s : Summary) (hn : ∀ n, Top.incl n ∉ s.items) (h : IllFormedEmptyDisj s) : Rejected s := by
  unfold Rejected check
  cases hp : parseItems s.items with
  | error e => exact ⟨e, rfl⟩
  | ok p =>
    cases p with
    | whole => exact absurd h (not_emptyDisj_of_whole hp)
    | deferred =>
      obtain ⟨n, hm⟩ := parseItems_deferred_incl s.items hp
      exact absurd hm (hn n)

/-! ## include_source! inside ascent_source! -/

theorem parseItems_whole_no_incl : ∀ (items : List Top), parseItems items = .ok .whole → ∀ n, Top.incl n ∉ items
  | [], _, n, h => by cases h
  | .rel d :: rest, h, n, hm => by
    unfold parseItems at h
    split at h
    · cases h
    · cases hm with
      | tail _ hm => exact parseItems_whole_no_incl rest h n hm
  | .mac k d :: rest, h, n, hm => by
    unfold parseItems at h
    split at h
    · cases h
    · cases hm with
      | tail _ hm => exact parseItems_whole_no_incl rest h n hm
  | .rule k r :: rest, h, n, hm => by
    unfold parseItems at h
    split at h
    · cases h
    · split at h
      · cases h
      · cases hm with
        | tail _ hm => exact parseItems_whole_no_incl rest h n hm
  | .incl k :: rest, h, n, hm => by
    unfold parseItems at h
    split at h <;> cases h

theorem include_rejected (s : Summary) (h : IllFormedInclude s) : Rejected s := by
  obtain ⟨hk, n, hn⟩ := h
  unfold Rejected check
  cases hp : parseItems s.items with
  | error e => exact ⟨e, rfl⟩
  | ok p =>
    cases p with
    | whole => exact absurd hn (parseItems_whole_no_incl _ hp n)
    | deferred => exact ⟨.includeInSource, by simp [hk]⟩

/-! ## struct / impl signatures -/

theorem sigCheck_ok_iff (sig : Option Sig) :
    sigCheck sig = .ok () ↔
      ¬ ∃ sg i, sig = some sg ∧ sg.implName = some i ∧ (i ≠ sg.structName ∨ sg.genericsMatch = false) := by
  unfold sigCheck
  cases sig with
  | none => simp
  | some sg =>
    cases hi : sg.implName with
    | none => simp [hi]
    | some i =>
      by_cases hn : i = sg.structName
      · cases hg : sg.genericsMatch <;> simp [hi, hn, hg]
      · simp [hi, hn]

theorem signature_rejected (s : Summary) (hr : Reaches s) (h : IllFormedSig s) : Rejected s := by
  apply rejected_of_not_compile hr
  intro hc
  obtain ⟨rules, _, _, _, _, hsg, _⟩ := (compile_ok_iff s).1 hc
  exact (sigCheck_ok_iff s.sig).1 hsg h

/-! ## `ds` attributes -/

theorem getDsAttr_ok_false {as : List AttrS} (h : getDsAttr as = .ok false) : ∀ a ∈ as, a.name ≠ "ds" := by
  unfold getDsAttr at h
  split at h
  · rename_i hf
    intro a ha hn
    have : a ∈ as.filter fun a => a.name == "ds" := by simp [List.mem_filter, ha, hn]
    rw [hf] at this
    cases this
  · split at h <;> cases h
  · cases h

theorem getDsAttr_ok_lt_two {as : List AttrS} {b : Bool} (h : getDsAttr as = .ok b) : ¬ hasTwoDs as := by
  unfold getDsAttr at h
  unfold hasTwoDs
  split at h
  · rename_i hf; simp [hf]
  · rename_i hf; simp [hf]
  · cases h

theorem declsCheck_ok : ∀ {ds : List Decl}, declsCheck ds = .ok () → ∀ d ∈ ds, ∃ b, getDsAttr d.attrs = .ok b ∧ ¬ (b = true ∧ d.lat = true)
  | [], _, d, hd => by cases hd
  | d0 :: rest, h, d, hd => by
    unfold declsCheck at h
    split at h
    · cases h
    · rename_i b hb
      split at h
      · cases h
      · rename_i hnot
        cases hd with
        | head => exact ⟨b, hb, by simpa using hnot⟩
        | tail _ hd => exact declsCheck_ok h d hd

/-! ### re-declared relations: `dedupKeepLast` (`dedup_all_keep_last_by`) -/

/-- the dedup only removes declarations -/
theorem mem_of_mem_dedupKeepLast : ∀ {ds : List Decl} {d : Decl}, d ∈ dedupKeepLast ds → d ∈ ds
  | [], _, h => by cases h
  | d0 :: rest, d, h => by
    unfold dedupKeepLast at h
    split at h
    · exact List.mem_cons_of_mem _ (mem_of_mem_dedupKeepLast h)
    · cases h with
      | head => exact List.mem_cons_self
      | tail _ h => exact List.mem_cons_of_mem _ (mem_of_mem_dedupKeepLast h)

/-- a declaration with no LATER declaration of the same identity survives the dedup (wherever it stands, whatever
is re-declared in front of it or behind it) -/
theorem mem_dedupKeepLast_of_last : ∀ (pre : List Decl) (d : Decl) (post : List Decl),
    (∀ e ∈ post, d.sameIdentity e = false) → d ∈ dedupKeepLast (pre ++ d :: post)
  | [], d, post, h => by
    have hany : (post.any fun e => d.sameIdentity e) = false := by
      rw [List.any_eq_false]
      intro e he
      simp [h e he]
    simp [dedupKeepLast, hany]
  | d0 :: pre, d, post, h => by
    have ih := mem_dedupKeepLast_of_last pre d post h
    show d ∈ dedupKeepLast (d0 :: (pre ++ d :: post))
    unfold dedupKeepLast
    split
    · exact ih
    · exact List.mem_cons_of_mem _ ih

/-- every survivor is the last declaration of its identity: the list splits at it with no same-identity declaration
behind it -/
theorem last_of_mem_dedupKeepLast : ∀ {ds : List Decl} {d : Decl}, d ∈ dedupKeepLast ds →
    ∃ pre post, ds = pre ++ d :: post ∧ ∀ e ∈ post, d.sameIdentity e = false
  | [], _, h => by cases h
  | d0 :: rest, d, h => by
    unfold dedupKeepLast at h
    split at h
    · obtain ⟨pre, post, heq, hp⟩ := last_of_mem_dedupKeepLast h
      exact ⟨d0 :: pre, post, by rw [heq]; rfl, hp⟩
    · rename_i hany
      rcases List.mem_cons.1 h with hd | h
      · subst hd
        refine ⟨[], rest, rfl, ?_⟩
        intro e he
        have hany' : (rest.any fun e => d.sameIdentity e) = false := by simpa using hany
        rw [List.any_eq_false] at hany'
        simpa using hany' e he
      · obtain ⟨pre, post, heq, hp⟩ := last_of_mem_dedupKeepLast h
        exact ⟨d0 :: pre, post, by rw [heq]; rfl, hp⟩

/-- a program without re-declarations: nothing is removed -/
theorem dedupKeepLast_eq_self : ∀ {ds : List Decl}, ds.Pairwise (fun d e => d.sameIdentity e = false) →
    dedupKeepLast ds = ds
  | [], _ => rfl
  | d :: rest, h => by
    rw [List.pairwise_cons] at h
    have hany : (rest.any fun e => d.sameIdentity e) = false := by
      rw [List.any_eq_false]
      intro e he
      simp [h.1 e he]
    simp [dedupKeepLast, hany, dedupKeepLast_eq_self h.2]

/-- `prog_get_relation` (the last declaration with the NAME, over all declarations) finds the same declaration in
the deduplicated list: the last declaration of a name is never removed -/
theorem findDecl_dedupKeepLast : ∀ (ds : List Decl) (n : Name), findDecl (dedupKeepLast ds) n = findDecl ds n
  | [], _ => rfl
  | d :: rest, n => by
    have ih := findDecl_dedupKeepLast rest n
    have hcons : ∀ (l : List Decl), findDecl (d :: l) n = (findDecl l n).or (if d.name == n then some d else none) := by
      intro l
      unfold findDecl
      rw [List.reverse_cons, List.find?_append]
      cases hdn : d.name == n <;> simp [List.find?, hdn]
    unfold dedupKeepLast
    split
    · rename_i hany
      rw [ih, hcons rest]
      cases hdn : d.name == n with
      | false => simp
      | true =>
        rw [List.any_eq_true] at hany
        obtain ⟨e, he, hse⟩ := hany
        have hen : (e.name == n) = true := by
          simp only [Decl.sameIdentity, Bool.and_eq_true, beq_iff_eq] at hse
          rw [← hse.1.1]; exact hdn
        have hsome : (findDecl rest n).isSome = true := by
          unfold findDecl
          rw [List.find?_isSome]
          exact ⟨e, by simpa using he, hen⟩
        cases hf : findDecl rest n with
        | none => rw [hf] at hsome; cases hsome
        | some x => simp
    · rw [hcons (dedupKeepLast rest), hcons rest, ih]

theorem dsLattice_rejected (s : Summary) (hr : Reaches s) (h : IllFormedDsLattice s) : Rejected s := by
  apply rejected_of_not_compile hr
  intro hc
  obtain ⟨rules, _, _, _, hdl, _, _⟩ := (compile_ok_iff s).1 hc
  obtain ⟨d, hd, hlat, a, ha, hn⟩ := h
  obtain ⟨b, hb, hnot⟩ := declsCheck_ok hdl d hd
  cases b with
  | true => exact hnot ⟨rfl, hlat⟩
  | false => exact getDsAttr_ok_false hb a ha hn

theorem configCheck_ok {as : List AttrS} {par : Bool} (h : configCheck as par = .ok ()) :
    (∀ a ∈ as, a.name ∈ recognizedAttrs) ∧ ((firstNamed as "inter_rule_parallelism").isSome = true → par = true) ∧
      ∃ b, getDsAttr as = .ok b := by
  unfold configCheck at h
  split at h
  · cases h
  · split at h
    · cases h
    · split at h
      · cases h
      · split at h
        · cases h
        · rename_i hany
          split at h
          · cases h
          · rename_i hpar
            split at h
            · cases h
            · rename_i b hb
              refine ⟨?_, ?_, b, hb⟩
              · intro a ha
                have : ¬ (as.any fun a => !recognizedAttrs.contains a.name) = true := hany
                simp only [List.any_eq_true, not_exists, not_and] at this
                have := this a ha
                simpa using this
              · intro hs
                cases par with
                | true => rfl
                | false => simp [hs] at hpar

theorem twoDs_rejected (s : Summary) (hr : Reaches s) (h : IllFormedTwoDs s) : Rejected s := by
  apply rejected_of_not_compile hr
  intro hc
  obtain ⟨rules, _, _, hcfg, hdl, _, _⟩ := (compile_ok_iff s).1 hc
  rcases h with h | ⟨d, hd, h⟩
  · obtain ⟨_, _, b, hb⟩ := configCheck_ok hcfg
    exact getDsAttr_ok_lt_two hb h
  · obtain ⟨b, hb, _⟩ := declsCheck_ok hdl d hd
    exact getDsAttr_ok_lt_two hb h

theorem unknownAttr_rejected (s : Summary) (hr : Reaches s) (h : IllFormedUnknownAttr s) : Rejected s := by
  apply rejected_of_not_compile hr
  intro hc
  obtain ⟨rules, _, _, hcfg, _, _, _⟩ := (compile_ok_iff s).1 hc
  obtain ⟨a, ha, hn⟩ := h
  exact hn ((configCheck_ok hcfg).1 a ha)

theorem firstNamed_isSome {as : List AttrS} {n : String} (h : ∃ a ∈ as, a.name = n) : (firstNamed as n).isSome = true := by
  obtain ⟨a, ha, hn⟩ := h
  unfold firstNamed
  rw [List.find?_isSome]
  exact ⟨a, ha, by simp [hn]⟩

theorem parOnlyAttr_rejected (s : Summary) (hr : Reaches s) (h : IllFormedParOnlyAttr s) : Rejected s := by
  apply rejected_of_not_compile hr
  intro hc
  obtain ⟨rules, _, _, hcfg, _, _, _⟩ := (compile_ok_iff s).1 hc
  obtain ⟨hp, ha⟩ := h
  have := (configCheck_ok hcfg).2.1 (firstNamed_isSome ha)
  rw [hp] at this
  cases this

end AscentVerif.Check
