import AscentVerif.Model.ParLatHead
/-!
# Invariants of the parallel lattice head update transition system
-/
namespace AscentVerif.ParLat

variable {V : Type}

/-- the worker is inside the critical section (holds the key's mutex) -/
def PC.crit : PC → Bool
  | .holding | .pushed | .unlock => true
  | _ => false

/-- the worker's value has already been put into the row -/
def PC.after : PC → Bool
  | .pushed | .unlock | .done => true
  | _ => false

def PC.rank : PC → Nat
  | .start => 5 | .wantLock => 4 | .holding => 3 | .pushed => 2 | .unlock => 1 | .done => 0

/-! ## list lemmas -/

theorem getElem?_setWorker {ws : List (Worker V)} {i j : Nat} {w x : Worker V}
    (h : (setWorker ws i w)[j]? = some x) : (j = i ∧ x = w) ∨ (j ≠ i ∧ ws[j]? = some x) := by
  unfold setWorker at h
  rw [List.getElem?_set] at h
  by_cases hij : i = j
  · subst hij
    simp only [if_true] at h
    split at h
    · left; exact ⟨rfl, by simpa using h.symm⟩
    · cases h
  · right
    simp only [hij, if_false] at h
    exact ⟨fun e => hij e.symm, h⟩

theorem length_setWorker (ws : List (Worker V)) (i : Nat) (w : Worker V) :
    (setWorker ws i w).length = ws.length := by
  unfold setWorker; simp

theorem map_v_setWorker (ws : List (Worker V)) (i : Nat) (w : Worker V) (pc : PC) (h : ws[i]? = some w) :
    (setWorker ws i { w with pc := pc }).map (·.v) = ws.map (·.v) := by
  unfold setWorker
  rw [List.map_set]
  apply List.ext_getElem?
  intro j
  rw [List.getElem?_set]
  by_cases hij : i = j
  · subst hij
    obtain ⟨hlt, he⟩ := List.getElem?_eq_some_iff.1 h
    simp [hlt, he]
  · simp [hij]

theorem sum_map_set {α : Type} (f : α → Nat) (l : List α) (i : Nat) (a b : α) (h : l[i]? = some a) :
    ((l.set i b).map f).sum + f a = (l.map f).sum + f b := by
  induction l generalizing i with
  | nil => simp at h
  | cons x xs ih =>
    cases i with
    | zero =>
      simp only [List.getElem?_cons_zero, Option.some.injEq] at h
      subst h
      simp only [List.set_cons_zero, List.map_cons, List.sum_cons]
      omega
    | succ i =>
      simp only [List.getElem?_cons_succ] at h
      have := ih i h
      simp only [List.set_cons_succ, List.map_cons, List.sum_cons]
      omega

/-! ## `joinRow0` -/

theorem length_joinRow0 (join : V → V → V) (rows : List V) (v : V) : (joinRow0 join rows v).length = rows.length := by
  cases rows <;> rfl

theorem mem_joinRow0 {join : V → V → V} {rows : List V} {v r' : V} (h : r' ∈ joinRow0 join rows v) :
    (∃ r ∈ rows, r' = join r v) ∨ r' ∈ rows := by
  cases rows with
  | nil => simp [joinRow0] at h
  | cons r rest =>
    simp only [joinRow0, List.mem_cons] at h
    rcases h with h | h
    · left; exact ⟨r, by simp, h⟩
    · right; simp [h]

theorem mem_joinRow0_single {join : V → V → V} {rows : List V} {v r' : V} (hl : rows.length = 1)
    (h : r' ∈ joinRow0 join rows v) : ∃ r, rows = [r] ∧ r' = join r v := by
  match rows, hl with
  | [r], _ =>
    simp only [joinRow0, List.mem_cons, List.not_mem_nil, or_false] at h
    exact ⟨r, rfl, h⟩

/-! ## the step relation, case by case -/

/-- the seven kinds of atomic steps -/
inductive StepCase (join : V → V → V) (s : State V) (i : Nat) (w : Worker V) : State V → Prop where
  | startHit : w.pc = .start → s.inNew = true →
      StepCase join s i w { s with rows := joinRow0 join s.rows w.v, workers := setWorker s.workers i { w with pc := .done } }
  | startMiss : w.pc = .start → s.inNew = false →
      StepCase join s i w { s with workers := setWorker s.workers i { w with pc := .wantLock } }
  | lock : w.pc = .wantLock → s.lock = none →
      StepCase join s i w { s with lock := some i, workers := setWorker s.workers i { w with pc := .holding } }
  | recheckHit : w.pc = .holding → s.inNew = true →
      StepCase join s i w { s with rows := joinRow0 join s.rows w.v, workers := setWorker s.workers i { w with pc := .unlock } }
  | push : w.pc = .holding → s.inNew = false →
      StepCase join s i w { s with rows := s.rows ++ [w.v], workers := setWorker s.workers i { w with pc := .pushed } }
  | insert : w.pc = .pushed →
      StepCase join s i w { s with inNew := true, workers := setWorker s.workers i { w with pc := .unlock } }
  | unlock : w.pc = .unlock →
      StepCase join s i w { s with lock := none, workers := setWorker s.workers i { w with pc := .done } }

theorem step_cases {join : V → V → V} {s s' : State V} {i : Nat} (h : step join s i = some s') :
    ∃ w, s.workers[i]? = some w ∧ StepCase join s i w s' := by
  unfold step at h
  cases hw : s.workers[i]? with
  | none => simp [hw] at h
  | some w =>
    refine ⟨w, rfl, ?_⟩
    simp only [hw] at h
    cases hpc : w.pc with
    | start =>
      simp only [hpc] at h
      cases hin : s.inNew with
      | true =>
        rw [if_pos hin] at h
        injection h with h
        subst h
        exact StepCase.startHit hpc hin
      | false =>
        rw [if_neg (by simp [hin])] at h
        injection h with h
        subst h
        exact StepCase.startMiss hpc hin
    | wantLock =>
      simp only [hpc] at h
      cases hl : s.lock with
      | some j => simp [hl] at h
      | none =>
        simp only [hl, Option.some.injEq] at h
        subst h
        exact StepCase.lock hpc hl
    | holding =>
      simp only [hpc] at h
      cases hin : s.inNew with
      | true =>
        rw [if_pos hin] at h
        injection h with h
        subst h
        exact StepCase.recheckHit hpc hin
      | false =>
        rw [if_neg (by simp [hin])] at h
        injection h with h
        subst h
        exact StepCase.push hpc hin
    | pushed =>
      simp only [hpc, Option.some.injEq] at h
      subst h
      exact StepCase.insert hpc
    | unlock =>
      simp only [hpc, Option.some.injEq] at h
      subst h
      exact StepCase.unlock hpc
    | done => simp [hpc] at h

end AscentVerif.ParLat
