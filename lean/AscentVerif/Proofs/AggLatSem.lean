import AscentVerif.Proofs.AggLatSemInv
/-!
# Semantics of mixed (lattice + aggregation) programs: pass, SCC, strata

`Proofs/Lat{Pass,Scc,Strata}.lean` with aggregation items: bodies are evaluated with `Agg.SatA` /
`Agg.SatV` over a fixed per-item view `aggv`; the extra field `LInv.keep` (non-head relations are as
the SCC's entry value `st` had them) makes every aggregation item of the SCC's rules read
`Agg.aggOf {} p st a` in every state, which is `aggv a` in a stratified program with `aggv` = what the
item reads from the FINAL value (the aggregated relation is complete when the SCC starts).
-/
namespace AscentVerif.Engine.ALS
open AscentVerif AscentVerif.Engine

variable {E B G P A : Type}


section Pass
variable {I : Interp E B G P A} {L : LatOrder I} {p : Program E B G P A} {aggv : AggClause E A → List Tuple} {inp : RelId → List Tuple} {st : St}
  {dynR : List RelId}

theorem heads_step' (heads : List (HeadClause E)) (ρ : Env)
    (hbf : ∀ h ∈ heads, BelowF I L p aggv inp (headFact I h ρ))
    (hdyn : ∀ h ∈ heads, dynR.contains h.rel = true) (s : SccSt) (hinv : LInv I L p aggv inp dynR st s) :
    LInv I L p aggv inp dynR st (heads.foldl (fun s h => headUpdate I {} p s h ρ) s) ∧
      LExt I L p s (heads.foldl (fun s h => headUpdate I {} p s h ρ) s) ∧
      ∀ h ∈ heads, Dominated I L p (FactsS (heads.foldl (fun s h => headUpdate I {} p s h ρ) s)) (headFact I h ρ) := by
  refine foldl_track (fun s h => headUpdate I {} p s h ρ) (LInv I L p aggv inp dynR st) (LExt I L p)
    (fun h s => Dominated I L p (FactsS s) (headFact I h ρ)) (LExt.refl I L p) (fun _ _ _ => LExt.trans)
    (fun h s s' hd hle => Dominated.mono hd hle.dble) heads ?_ s hinv
  intro s h hh hs
  exact headUpdate_step hs h ρ (hdyn h hh) (hbf h hh)

theorem envs_step' (heads : List (HeadClause E)) (l : List Env)
    (hbf : ∀ ρ ∈ l, ∀ h ∈ heads, BelowF I L p aggv inp (headFact I h ρ))
    (hdyn : ∀ h ∈ heads, dynR.contains h.rel = true) (s : SccSt) (hinv : LInv I L p aggv inp dynR st s) :
    LInv I L p aggv inp dynR st (l.foldl (fun s ρ => heads.foldl (fun s h => headUpdate I {} p s h ρ) s) s) ∧
      LExt I L p s (l.foldl (fun s ρ => heads.foldl (fun s h => headUpdate I {} p s h ρ) s) s) ∧
      ∀ ρ ∈ l, ∀ h ∈ heads, Dominated I L p
        (FactsS (l.foldl (fun s ρ => heads.foldl (fun s h => headUpdate I {} p s h ρ) s) s)) (headFact I h ρ) := by
  refine foldl_track (fun s ρ => heads.foldl (fun s h => headUpdate I {} p s h ρ) s) (LInv I L p aggv inp dynR st) (LExt I L p)
    (fun ρ s => ∀ h ∈ heads, Dominated I L p (FactsS s) (headFact I h ρ)) (LExt.refl I L p) (fun _ _ _ => LExt.trans)
    (fun ρ s s' hd hle h hh => Dominated.mono (hd h hh) hle.dble) l ?_ s hinv
  intro s ρ hρ hs
  exact heads_step' heads ρ (hbf ρ hρ) hdyn s hs

/-- what a pass establishes for variant `vs` of `rule`: every instance over the stable part of the
state has its heads dominated -/
def DoneV (I : Interp E B G P A) (L : LatOrder I) (p : Program E B G P A) (aggv : AggClause E A → List Tuple) (rule : Rule E B G P A)
    (vs : List (Option Ver)) (s : SccSt) : Prop :=
  ∀ ρ, Agg.SatV I (PView s) aggv rule.body vs [] ρ → ∀ h ∈ rule.heads, Dominated I L p (FactsS s) (headFact I h ρ)

theorem DoneV.mono {rule : Rule E B G P A} {vs : List (Option Ver)} {s s' : SccSt} (h : DoneV I L p aggv rule vs s)
    (hext : LExt I L p s s') : DoneV I L p aggv rule vs s' := by
  intro ρ hρ hd hhd
  exact Dominated.mono (h ρ (Agg.SatV.mono (fun r v t hv => PView_anti hext hv) hρ) hd hhd) hext.dble

theorem evalVariant_step' (rule : Rule E B G P A) (hrule : rule ∈ p.rules)
    (hag : ∀ a, Item.agg a ∈ rule.body → dynR.contains a.rel = false ∧ Agg.aggOf {} p st a = aggv a)
    (hdyn : ∀ h ∈ rule.heads, dynR.contains h.rel = true)
    (vs : List (Option Ver)) (s : SccSt) (hinv : LInv I L p aggv inp dynR st s) :
    LInv I L p aggv inp dynR st (evalVariant I {} p s rule vs) ∧ LExt I L p s (evalVariant I {} p s rule vs) ∧
      DoneV I L p aggv rule vs (evalVariant I {} p s rule vs) := by
  have hagS : ∀ s', LInv I L p aggv inp dynR st s' → ∀ a, Item.agg a ∈ rule.body → aggTuples {} p s' a = aggv a := by
    intro s' hs' a ha
    rw [← (hag a ha).2]
    exact Agg.aggTuples_congr {} p a (hs'.keep a.rel (hag a ha).1)
  have hbf : ∀ ρ ∈ evalBody I {} p s rule.body vs [], ∀ h ∈ rule.heads, BelowF I L p aggv inp (headFact I h ρ) := by
    intro ρ hρ h hh M hM
    have hsv := (Agg.SatV_of_evalBody I {} p s rule.body vs [] ρ hρ).congr_agg (hagS s hinv)
    have hsat : Agg.SatA I (FactsS s) aggv rule.body [] ρ :=
      Agg.SatV.toSatA (fun r v t hv => view_sub_rows' {} p hinv.wf hv) hsv
    obtain ⟨ρ', hsat', hdom⟩ := hM.1 (FactsS s) M hinv.keyUnique hM.2.1 (hinv.below M hM) rule hrule ρ hsat
    exact Dominated.single (hdom h hh) (hM.2.2.2 rule hrule ρ' hsat' h hh)
  obtain ⟨h1, h2, h3⟩ := envs_step' rule.heads (evalBody I {} p s rule.body vs []) hbf hdyn s hinv
  refine ⟨h1, h2, ?_⟩
  intro ρ hρ h hh
  have hρ' : Agg.SatV I (viewOf {} p s) aggv rule.body vs [] ρ :=
    Agg.SatV.mono (fun r v t hv => PView_sub_view {} p (PView_anti h2 hv)) hρ
  exact h3 ρ (Agg.evalBody_of_SatV I {} p s (hρ'.congr_agg fun a ha => (hagS s hinv a ha).symm)) h hh

theorem evalRule_step' (rule : Rule E B G P A) (hrule : rule ∈ p.rules)
    (hag : ∀ a, Item.agg a ∈ rule.body → dynR.contains a.rel = false ∧ Agg.aggOf {} p st a = aggv a)
    (hdyn : ∀ h ∈ rule.heads, dynR.contains h.rel = true)
    (vss : List (List (Option Ver))) (s : SccSt) (hinv : LInv I L p aggv inp dynR st s) :
    LInv I L p aggv inp dynR st (vss.foldl (fun s vs => evalVariant I {} p s rule vs) s) ∧
      LExt I L p s (vss.foldl (fun s vs => evalVariant I {} p s rule vs) s) ∧
      ∀ vs ∈ vss, DoneV I L p aggv rule vs (vss.foldl (fun s vs => evalVariant I {} p s rule vs) s) := by
  refine foldl_track (fun s vs => evalVariant I {} p s rule vs) (LInv I L p aggv inp dynR st) (LExt I L p)
    (fun vs s => DoneV I L p aggv rule vs s) (LExt.refl I L p) (fun _ _ _ => LExt.trans)
    (fun vs s s' hd hle => hd.mono hle) vss ?_ s hinv
  intro s vs _ hs
  exact evalVariant_step' rule hrule hag hdyn vs s hs

/-- **one pass**: the invariants are kept and every variant instance over the stable part of the
final state has its heads dominated by the final state -/
theorem evalRules_spec' (rules : List (Rule E B G P A))
    (hrules : ∀ rule ∈ rules, rule ∈ p.rules)
    (hag : ∀ rule ∈ rules, ∀ a, Item.agg a ∈ rule.body → dynR.contains a.rel = false ∧ Agg.aggOf {} p st a = aggv a)
    (hdyn : ∀ rule ∈ rules, ∀ h ∈ rule.heads, dynR.contains h.rel = true)
    (s : SccSt) (hinv : LInv I L p aggv inp dynR st s) :
    LInv I L p aggv inp dynR st (evalRules I {} p dynR rules s) ∧ LExt I L p s (evalRules I {} p dynR rules s) ∧
      ∀ rule ∈ rules, ∀ vs ∈ variants dynR rule, DoneV I L p aggv rule vs (evalRules I {} p dynR rules s) := by
  unfold evalRules
  refine foldl_track (fun s r => (variants dynR r).foldl (fun s vs => evalVariant I {} p s r vs) s)
    (LInv I L p aggv inp dynR st) (LExt I L p)
    (fun rule s => ∀ vs ∈ variants dynR rule, DoneV I L p aggv rule vs s)
    (LExt.refl I L p) (fun _ _ _ => LExt.trans) (fun rule s s' hd hle vs hvs => (hd vs hvs).mono hle)
    rules ?_ s hinv
  intro s rule hr hs
  exact evalRule_step' rule (hrules rule hr) (hag rule hr) (hdyn rule hr) (variants dynR rule) s hs

end Pass

/-- the rules are closed over `D` up to domination -/
def LClosedRules (I : Interp E B G P A) (L : LatOrder I) (p : Program E B G P A) (aggv : AggClause E A → List Tuple)
    (rules : List (Rule E B G P A))
    (D : DB) : Prop :=
  ∀ rule ∈ rules, ∀ ρ, Agg.SatA I D aggv rule.body [] ρ → ∀ h ∈ rule.heads, Dominated I L p D (headFact I h ρ)

/-! ## `shift` and the stable part -/

theorem PView_shift {s : SccSt} {r : RelId} {t : Tuple} (h : PView (shift s) r (some .total) t) :
    PView s r (some .totalDelta) t := by
  obtain ⟨i, hrow, hm⟩ := h
  refine ⟨i, hrow, ?_⟩
  cases hd : findDyn s.dyn r with
  | none =>
    have hd' : findDyn (shift s).dyn r = none := by rw [findDyn_shift, hd]; rfl
    exact (PMem_none hd).mpr ((PMem_none hd').mp hm)
  | some d =>
    have hd' : findDyn (shift s).dyn r = some (shiftD d) := by rw [findDyn_shift, hd]; rfl
    obtain ⟨_, hv⟩ := (PMem_some hd').mp hm
    have hv' : i ∈ d.total ++ d.delta ∧ i ∉ d.new := hv
    exact (PMem_some hd).mpr ⟨hv'.2, List.mem_append.mp hv'.1⟩

theorem facts_sub_PView {n : Nat} {dynR : List RelId} {s : SccSt} (hwf : WF n dynR s) (hs : Settled s) (f : Fact)
    (h : FactsS s f) : PView s f.rel (some .total) f.args := by
  obtain ⟨i, hi, hrow⟩ := (mem_iff_rowAt _ _).mp h
  refine ⟨i, hrow, ?_⟩
  cases hd : findDyn s.dyn f.rel with
  | none => exact (PMem_none hd).mpr ((hwf.cover_nd _ hd i).mp hi)
  | some d =>
    obtain ⟨h1, h2⟩ := hs _ d hd
    refine (PMem_some hd).mpr ⟨by rw [h2]; simp, ?_⟩
    show i ∈ d.total ∧ i ∉ d.delta
    rcases (hwf.cover _ d hd i).mp hi with h | h | h
    · exact ⟨h, by rw [h1]; simp⟩
    · rw [h1] at h; cases h
    · rw [h2] at h; cases h

theorem facts_sub_PView_nd {n : Nat} {dynR : List RelId} {s : SccSt} (hwf : WF n dynR s) (r : RelId)
    (hr : dynR.contains r = false) (t : Tuple) (h : t ∈ rowsOf s r) : PView s r (some .total) t := by
  obtain ⟨i, hi, hrow⟩ := (mem_iff_rowAt _ _).mp h
  have hd : findDyn s.dyn r = none := by
    have := hwf.dyn_iff r
    rw [hr] at this
    cases h' : findDyn s.dyn r with
    | none => rfl
    | some d => rw [h'] at this; cases this
  exact ⟨i, hrow, (PMem_none hd).mpr ((hwf.cover_nd _ hd i).mp hi)⟩

section Iter
variable {I : Interp E B G P A} {L : LatOrder I} {p : Program E B G P A} {aggv : AggClause E A → List Tuple} {inp : RelId → List Tuple}
  {dynR : List RelId} {st : St}

theorem LInv_reset {s : SccSt} (h : LInv I L p aggv inp dynR st s) : LInv I L p aggv inp dynR st { s with changed := false } :=
  ⟨WF_reset _ _ h.wf, h.dlt, h.keys, h.relset, h.below, h.keep⟩

theorem LInv_shift {s : SccSt} (h : LInv I L p aggv inp dynR st s) : LInv I L p aggv inp dynR st (shift s) :=
  ⟨WF_shift h.wf, h.dlt, h.keys, h.relset, h.below, fun r hr => by rw [shift_rels]; exact h.keep r hr⟩

variable (I L p aggv dynR) in
def LFrontier (rules : List (Rule E B G P A)) (Q : Rule E B G P A → Prop) (s : SccSt) : Prop :=
  ∀ rule ∈ rules, Q rule → ∀ ρ, Agg.SatA I (fun f => PView s f.rel (some .total) f.args) aggv rule.body [] ρ →
    ∀ h ∈ rule.heads, Dominated I L p (FactsS s) (headFact I h ρ)

variable (I L p aggv inp dynR st) in
structure LLoopInv (rules : List (Rule E B G P A)) (Q : Rule E B G P A → Prop) (s : SccSt) : Prop where
  inv : LInv I L p aggv inp dynR st s
  newE : NewEmpty s
  front : LFrontier I L p aggv rules Q s

theorem LLoopInv.weaken {rules : List (Rule E B G P A)} {Q Q' : Rule E B G P A → Prop} {s : SccSt}
    (h : LLoopInv I L p aggv inp dynR st rules Q s) (hq : ∀ r, Q' r → Q r) : LLoopInv I L p aggv inp dynR st rules Q' s :=
  ⟨h.inv, h.newE, fun rule hr hq' ρ hs hd hh => h.front rule hr (hq _ hq') ρ hs hd hh⟩

/-- **one iteration** (`evalRules` from a state with `changed = false`, then `shift`) -/
theorem iter_step' (rules : List (Rule E B G P A))
    (hrules : ∀ rule ∈ rules, rule ∈ p.rules)
    (hag : ∀ rule ∈ rules, ∀ a, Item.agg a ∈ rule.body → dynR.contains a.rel = false ∧ Agg.aggOf {} p st a = aggv a)
    (hdyn : ∀ rule ∈ rules, ∀ h ∈ rule.heads, dynR.contains h.rel = true)
    (s : SccSt) (hinv : LLoopInv I L p aggv inp dynR st rules (hasDyn dynR) s) :
    LLoopInv I L p aggv inp dynR st rules (fun _ => True)
        (shift (evalRules I {} p dynR rules { s with changed := false })) ∧
      LExt I L p { s with changed := false } (evalRules I {} p dynR rules { s with changed := false }) := by
  obtain ⟨hinv1, hext, hdone⟩ := evalRules_spec' rules hrules hag hdyn _ (LInv_reset hinv.inv)
  refine ⟨⟨LInv_shift hinv1, ?_, ?_⟩, hext⟩
  · intro r d' hd'
    rw [findDyn_shift] at hd'
    cases hd : findDyn (evalRules I {} p dynR rules { s with changed := false }).dyn r with
    | none => rw [hd] at hd'; cases hd'
    | some d => rw [hd] at hd'; cases hd'; rfl
  · intro rule hr _ ρ hsat h hh
    show Dominated I L p (FactsS (evalRules I {} p dynR rules { s with changed := false })) (headFact I h ρ)
    have hsat' : Agg.SatA I (fun f => PView (evalRules I {} p dynR rules { s with changed := false }) f.rel
        (some .totalDelta) f.args) aggv rule.body [] ρ :=
      Agg.SatA.mono (fun f hf => PView_shift hf) hsat
    rcases Agg.seminaive_cover I (PView (evalRules I {} p dynR rules { s with changed := false })) aggv dynR
        (fun r hr v v' t hv => PView_nd hinv1.wf hr v v' t hv)
        (fun r t hv => PView_split r t hv) rule hsat' with ⟨hn, htot⟩ | ⟨vs, hvs, hsv⟩
    · have htot' : Agg.SatA I (fun f => PView s f.rel (some .total) f.args) aggv rule.body [] ρ :=
        Agg.SatA.mono (fun f hf => PView_anti hext hf) htot
      exact Dominated.mono (hinv.front rule hr hn ρ htot' h hh) hext.dble
    · exact hdone rule hr vs hvs ρ hsv h hh

/-- what an SCC state keeps from the program state `st` at SCC entry -/
def LBase (I : Interp E B G P A) (L : LatOrder I) (p : Program E B G P A) (dynR : List RelId) (st : St) (s : SccSt) :
    Prop :=
  (∀ r, dynR.contains r = false → relSt s.rels r = relSt st r) ∧ DBLe I L p (factsOf st) (FactsS s)

theorem LBase_step {n : Nat} {st : St} {s s₁ : SccSt} (hwf : WF n dynR s) (hb : LBase I L p dynR st s)
    (hext : LExt I L p { s with changed := false } s₁) : LBase I L p dynR st (shift s₁) := by
  refine ⟨?_, ?_⟩
  · intro r hr
    have hd : findDyn s.dyn r = none := by
      have := hwf.dyn_iff r
      rw [hr] at this
      cases h' : findDyn s.dyn r with
      | none => rfl
      | some d => rw [h'] at this; cases this
    rw [shift_rels, (hext.nondyn r hd).2]
    exact hb.1 r hr
  · exact DBLe.trans hb.2 hext.dble

/-- the loop of a looping SCC -/
theorem sccLoop_spec' (rules : List (Rule E B G P A))
    (hrules : ∀ rule ∈ rules, rule ∈ p.rules)
    (hag : ∀ rule ∈ rules, ∀ a, Item.agg a ∈ rule.body → dynR.contains a.rel = false ∧ Agg.aggOf {} p st a = aggv a)
    (hdyn : ∀ rule ∈ rules, ∀ h ∈ rule.heads, dynR.contains h.rel = true)
    (dl : Deadline) : ∀ (fuel : Nat) (rs rs' : RunSt),
      LLoopInv I L p aggv inp dynR st rules (hasDyn dynR) rs.st → LBase I L p dynR st rs.st →
      sccLoop I {} p dynR rules dl fuel rs = .done rs' →
      LLoopInv I L p aggv inp dynR st rules (fun _ => True) rs'.st ∧ Settled rs'.st ∧ LBase I L p dynR st rs'.st := by
  intro fuel
  induction fuel with
  | zero => intro rs rs' _ _ h; simp [sccLoop] at h
  | succ fuel ih =>
    intro rs rs' hinv hb h
    obtain ⟨hinv', hext⟩ := iter_step' rules hrules hag hdyn rs.st hinv
    have hb' := LBase_step hinv.inv.wf hb hext
    simp only [sccLoop] at h
    split at h
    · rename_i hch
      simp only [Outcome.done.injEq] at h
      subst h
      refine ⟨hinv', ?_, hb'⟩
      have hch' : (evalRules I {} p dynR rules { rs.st with changed := false }).changed = false := by
        simpa using hch
      have heq := hext.unchanged hch'
      intro r d' hd'
      simp only [] at hd'
      rw [findDyn_shift, heq] at hd'
      cases hd : findDyn rs.st.dyn r with
      | none =>
        have : findDyn ({ rs.st with changed := false } : SccSt).dyn r = none := hd
        rw [this] at hd'; cases hd'
      | some d =>
        have : findDyn ({ rs.st with changed := false } : SccSt).dyn r = some d := hd
        rw [this] at hd'; cases hd'
        exact ⟨hinv.newE r d hd, rfl⟩
    · split at h
      · cases h
      · exact ih _ rs' (hinv'.weaken fun _ _ => trivial) hb' h

end Iter

/-! ## the program-level state invariant, entering and leaving an SCC -/

section Scc
variable (I : Interp E B G P A) (L : LatOrder I) (p : Program E B G P A) (aggv : AggClause E A → List Tuple) (inp : RelId → List Tuple)

structure LPInv (st : St) : Prop where
  len : st.length = p.rels.length
  keys : ∀ r, (declOf p r).lat = true → ((relSt st r).rows.map keyOf).Nodup
  relset : ∀ r, r < p.rels.length → (declOf p r).lat = false → SetRows inp r (relSt st r).rows
  idxAll : ∀ r i, i < (relSt st r).rows.length ↔ i ∈ (relSt st r).idx
  below : ∀ M, Tgt I L p aggv inp M → DBLe I L p (factsOf st) M

variable {I L p aggv inp}
variable {st : St}

theorem WF_enter' {st : St} (dynR : List RelId) (hp : LPInv I L p aggv inp st) :
    WF p.rels.length dynR (enterScc st dynR) := by
  refine ⟨by rw [enterScc_rels]; exact hp.len, ?_, ?_, ?_, ?_⟩
  · intro r
    rw [findDyn_enter]
    cases dynR.contains r <;> rfl
  · intro d hd
    simp only [enterScc, List.mem_map] at hd
    obtain ⟨x, hx, rfl⟩ := hd
    have := findDyn_enter st dynR x
    rw [List.contains_iff_mem.mpr hx] at this
    exact this
  · intro r d hd i
    rw [findDyn_enter] at hd
    cases hc : dynR.contains r with
    | false => rw [hc] at hd; cases hd
    | true =>
      rw [hc] at hd; cases hd
      simp only [rowsOf, enterScc_rels, List.not_mem_nil, false_or, or_false]
      exact hp.idxAll r i
  · intro r _ i
    simp only [rowsOf, enterScc_rels]
    exact hp.idxAll r i

theorem FactsS_enter (st : St) (dynR : List RelId) : FactsS (enterScc st dynR) = factsOf st := by
  funext f
  simp only [FactsS, factsOf, rowsOf, enterScc_rels]

theorem LLoopInv_enter {st : St} (dynR : List RelId) (hlt : ∀ r, dynR.contains r = true → r < p.rels.length)
    (hp : LPInv I L p aggv inp st) (rules : List (Rule E B G P A)) :
    LLoopInv I L p aggv inp dynR st rules (hasDyn dynR) (enterScc st dynR) := by
  refine ⟨⟨WF_enter' dynR hp, hlt, ?_, ?_, ?_, fun r _ => by rw [enterScc_rels]⟩, ?_, ?_⟩
  · intro r hl
    simp only [rowsOf, enterScc_rels]; exact hp.keys r hl
  · intro r hr hl
    simp only [rowsOf, enterScc_rels]; exact hp.relset r hr hl
  · intro M hM
    rw [FactsS_enter]; exact hp.below M hM
  · intro r d hd
    rw [findDyn_enter] at hd
    cases hc : dynR.contains r with
    | false => rw [hc] at hd; cases hd
    | true => rw [hc] at hd; cases hd; rfl
  · intro rule _ hq ρ hsat
    exfalso
    apply hq
    refine Agg.SatA.no_dyn dynR ?_ hsat
    intro r t hc hD
    obtain ⟨i, _, hm⟩ := hD
    have hd : findDyn (enterScc st dynR).dyn r = some ⟨r, [], (relSt st r).idx, []⟩ := by
      rw [findDyn_enter, hc]; rfl
    have := ((PMem_some hd).mp hm).2
    have h' : i ∈ ([] : List Nat) ∧ i ∉ (relSt st r).idx := this
    cases h'.1

theorem LBase_enter (st : St) (dynR : List RelId) : LBase I L p dynR st (enterScc st dynR) :=
  ⟨fun r _ => by rw [enterScc_rels], by rw [FactsS_enter]; exact DBLe.refl _⟩

/-- storing the indices back: `idx := total` for the dynamic relations -/
theorem leave_spec' {dynR : List RelId} {s : SccSt} (hinv : LInv I L p aggv inp dynR st s) (hs : Settled s) :
    LPInv I L p aggv inp (leaveScc s) ∧ factsOf (leaveScc s) = FactsS s ∧
      (∀ r, dynR.contains r = false → relSt (leaveScc s) r = relSt s.rels r) := by
  have hwf := hinv.wf
  have hdlt : ∀ d ∈ s.dyn, d.rel < s.rels.length := by
    intro d hd
    rw [hwf.len]
    apply hinv.dlt
    rw [← hwf.dyn_iff, hwf.uniq d hd]; rfl
  have hrows : ∀ r, (relSt (leaveScc s) r).rows = rowsOf s r := fun r => by
    rw [leaveScc_eq]; exact leave_rows r s.dyn s.rels hdlt
  have hnd : ∀ r, findDyn s.dyn r = none → relSt (leaveScc s) r = relSt s.rels r := by
    intro r hd
    rw [leaveScc_eq]
    apply leave_untouched
    intro d hdm hrel
    have := List.find?_eq_none.mp hd d hdm
    simp [hrel] at this
  have hfacts : factsOf (leaveScc s) = FactsS s := by
    funext f
    simp only [factsOf, FactsS, hrows]
  refine ⟨⟨?_, ?_, ?_, ?_, ?_⟩, hfacts, ?_⟩
  · rw [leaveScc_eq, leave_length]; exact hwf.len
  · intro r hl
    rw [hrows]; exact hinv.keys r hl
  · intro r hr hl
    rw [hrows]; exact hinv.relset r hr hl
  · intro r i
    cases hd : findDyn s.dyn r with
    | none =>
      rw [hnd r hd]; exact hwf.cover_nd r hd i
    | some d =>
      have hidx : (relSt (leaveScc s) r).idx = d.total := by
        rw [leaveScc_eq]
        apply leave_touched r d.total s.dyn s.rels hdlt
        · intro d' hd' hrel
          have := hwf.uniq d' hd'
          rw [hrel, hd] at this
          cases this; rfl
        · exact .inl ⟨d, findDyn_mem hd, findDyn_rel hd⟩
      rw [hrows, hidx, hwf.cover r d hd i]
      obtain ⟨h1, h2⟩ := hs r d hd
      rw [h1, h2]; simp
  · intro M hM
    rw [hfacts]; exact hinv.below M hM
  · intro r hr
    apply hnd
    have := hwf.dyn_iff r
    rw [hr] at this
    cases h' : findDyn s.dyn r with
    | none => rfl
    | some d => rw [h'] at this; cases this

theorem leave_full' {dynR : List RelId} {st : St} {s : SccSt} (rules : List (Rule E B G P A))
    (hinv : LInv I L p aggv inp dynR st s) (hs : Settled s) (hb : LBase I L p dynR st s)
    (hcl : LClosedRules I L p aggv rules (FactsS s)) :
    LPInv I L p aggv inp (leaveScc s) ∧
      (∀ r, dynR.contains r = false → relSt (leaveScc s) r = relSt st r) ∧
      DBLe I L p (factsOf st) (factsOf (leaveScc s)) ∧
      LClosedRules I L p aggv rules (factsOf (leaveScc s)) := by
  obtain ⟨h1, h2, h3⟩ := leave_spec' hinv hs
  refine ⟨h1, fun r hr => by rw [h3 r hr]; exact hb.1 r hr, ?_, ?_⟩
  · rw [h2]; exact hb.2
  · rw [h2]; exact hcl

/-- **one SCC** -/
theorem runScc_spec' (scc : List Nat) (ps : ProgSt) (hstr : aggOverDynamic p scc = false)
    (hagv : ∀ rule ∈ sccRules p scc, ∀ a, Item.agg a ∈ rule.body → Agg.aggOf {} p ps.st a = aggv a)
    (hh : ∀ r ∈ p.rules, ∀ h ∈ r.heads, h.rel < p.rels.length)
    (dl : Deadline) (fuel : Nat) (ps' : ProgSt)
    (hp : LPInv I L p aggv inp ps.st) (h : runScc I {} p dl fuel scc ps = .done ps') :
    LPInv I L p aggv inp ps'.st ∧
      (∀ r, (dynRels p scc).contains r = false → relSt ps'.st r = relSt ps.st r) ∧
      DBLe I L p (factsOf ps.st) (factsOf ps'.st) ∧
      LClosedRules I L p aggv (sccRules p scc) (factsOf ps'.st) := by
  have hrules := sccRules_sub p scc
  have hafs : ∀ rule ∈ sccRules p scc, ∀ a, Item.agg a ∈ rule.body →
      (dynRels p scc).contains a.rel = false ∧ Agg.aggOf {} p ps.st a = aggv a :=
    fun r hr a ha => ⟨Agg.aggOverDynamic_false p scc hstr r hr a ha, hagv r hr a ha⟩
  have hdyn : ∀ rule ∈ sccRules p scc, ∀ h ∈ rule.heads, (dynRels p scc).contains h.rel = true :=
    fun rule hr h hhd => (dynRels_mem p scc h.rel).mpr ⟨rule, hr, h, hhd, rfl⟩
  have hlt : ∀ r, (dynRels p scc).contains r = true → r < p.rels.length := by
    intro r hr
    obtain ⟨rule, hrule, h, hhd, rfl⟩ := (dynRels_mem p scc r).mp hr
    exact hh rule (hrules rule hrule) h hhd
  have hinv0 := LLoopInv_enter (dynRels p scc) hlt hp (sccRules p scc)
  have hb0 : LBase I L p (dynRels p scc) ps.st (enterScc ps.st (dynRels p scc)) := LBase_enter ps.st (dynRels p scc)
  simp only [runScc] at h
  split at h
  · -- looping
    split at h
    · rename_i rs hloop
      simp only [Outcome.done.injEq] at h
      subst h
      obtain ⟨hinv, hset, hb⟩ := sccLoop_spec' (sccRules p scc) hrules hafs hdyn dl fuel _ rs hinv0 hb0 hloop
      apply leave_full' (sccRules p scc) hinv.inv hset hb
      intro rule hr ρ hsat hd hhd
      refine hinv.front rule hr trivial ρ (Agg.SatA.mono ?_ hsat) hd hhd
      exact fun f hf => facts_sub_PView hinv.inv.wf hset f hf
    · cases h
    · cases h
  · -- not looping
    rename_i hnl
    have hnl' : isLooping p scc = false := by simpa using hnl
    split at h
    · cases h
    · simp only [Outcome.done.injEq] at h
      subst h
      obtain ⟨hinv, hext⟩ := iter_step' (sccRules p scc) hrules hafs hdyn _ hinv0
      have hb := LBase_step hinv0.inv.wf hb0 hext
      have hinv2 := LInv_shift hinv.inv
      have hset : Settled (shift (shift (evalRules I {} p (dynRels p scc) (sccRules p scc)
          (enterScc ps.st (dynRels p scc))))) := by
        intro r d'' hd''
        rw [findDyn_shift] at hd''
        cases hd : findDyn (shift (evalRules I {} p (dynRels p scc) (sccRules p scc)
            (enterScc ps.st (dynRels p scc)))).dyn r with
        | none => rw [hd] at hd''; cases hd''
        | some d' =>
          rw [hd] at hd''; cases hd''
          exact ⟨hinv.newE r d' hd, rfl⟩
      have hb2 : LBase I L p (dynRels p scc) ps.st (shift (shift (evalRules I {} p (dynRels p scc) (sccRules p scc)
          (enterScc ps.st (dynRels p scc))))) := hb
      apply leave_full' (sccRules p scc) hinv2 hset hb2
      intro rule hr ρ hsat hd hhd
      refine hinv.front rule hr trivial ρ (Agg.SatA.congr_rels hsat ?_) hd hhd
      intro r hr' t ht
      exact facts_sub_PView_nd hinv.inv.wf r (notLooping p scc hnl' rule hr r hr') t ht

end Scc

section Strata
variable {I : Interp E B G P A} {L : LatOrder I} {p : Program E B G P A} {aggv : AggClause E A → List Tuple} {inp : RelId → List Tuple} {st : St}

theorem runSccs_spec'
    (hh : ∀ r ∈ p.rules, ∀ h ∈ r.heads, h.rel < p.rels.length)
    (o : SccOrder) (ho : validOrder p o = true) (hs : ∀ s ∈ o, aggOverDynamic p s = false)
    (dl : Deadline) (fuel : Nat) :
    ∀ (rest done : SccOrder) (ps ps' : ProgSt),
    done ++ rest = o → LPInv I L p aggv inp ps.st →
    (∀ scc ∈ done, LClosedRules I L p aggv (sccRules p scc) (factsOf ps.st)) →
    DBLe I L p (inDB p inp) (factsOf ps.st) →
    runSccs I {} p dl fuel rest ps = .done ps' →
    (∀ scc ∈ o, ∀ rule ∈ sccRules p scc, ∀ a, Item.agg a ∈ rule.body → Agg.aggOf {} p ps'.st a = aggv a) →
    LPInv I L p aggv inp ps'.st ∧ (∀ scc ∈ o, LClosedRules I L p aggv (sccRules p scc) (factsOf ps'.st)) ∧
      DBLe I L p (inDB p inp) (factsOf ps'.st) := by
  intro rest
  induction rest with
  | nil =>
    intro done ps ps' hdone hp hcl hin h _
    simp only [runSccs, Outcome.done.injEq] at h
    subst h
    rw [List.append_nil] at hdone
    subst hdone
    exact ⟨hp, hcl, hin⟩
  | cons scc rest ih =>
    intro done ps ps' hdone hp hcl hin h hagg
    have h0 := h
    have ho' : validOrder p (done ++ scc :: rest) = true := by rw [hdone]; exact ho
    have hs' : ∀ s ∈ done ++ scc :: rest, aggOverDynamic p s = false := by rw [hdone]; exact hs
    have hsccO : scc ∈ o := by rw [← hdone]; simp
    have hagv : ∀ rule ∈ sccRules p scc, ∀ a, Item.agg a ∈ rule.body → Agg.aggOf {} p ps.st a = aggv a := by
      intro rule hrule a ha
      have hfr := (AggLat.runSccs_K hh dl fuel (scc :: rest) ps ps' ⟨hp.len, hp.keys, hp.idxAll⟩ h0).2 a.rel
        (Agg.agg_rel_not_later p done rest scc ho' hs' rule hrule a ha)
      exact (Agg.aggOf_congr {} p a hfr).symm.trans (hagg scc hsccO rule hrule a ha)
    simp only [runSccs] at h
    split at h
    · rename_i ps1 hscc
      obtain ⟨hp1, hsame, hle, hcl1⟩ := runScc_spec' scc ps (hs scc hsccO) hagv hh dl fuel ps1 hp hscc
      refine ih (done ++ [scc]) ps1 ps' (by rw [List.append_assoc]; exact hdone) hp1 ?_ (DBLe.trans hin hle) h hagg
      intro scc' hscc'
      rcases List.mem_append.mp hscc' with hscc' | hscc'
      · intro rule hrule ρ hsat hd hhd
        have hfw := validOrder_forward p o ho done scc rest hdone scc' hscc' rule hrule
        have hsat' : Agg.SatA I (factsOf ps.st) aggv rule.body [] ρ := by
          refine Agg.SatA.congr_rels hsat ?_
          intro r hr t ht
          have : relSt ps1.st r = relSt ps.st r := hsame r (hfw r hr)
          simp only [factsOf] at ht ⊢
          rw [← this]; exact ht
        exact Dominated.mono (hcl scc' hscc' rule hrule ρ hsat' hd hhd) hle
      · simp only [List.mem_singleton] at hscc'
        subst hscc'
        exact hcl1
    · rename_i hne
      cases hr : runScc I {} p dl fuel scc ps with
      | done x => exact absurd hr (hne x)
      | timedOut x => rw [hr] at h; cases h
      | outOfFuel => rw [hr] at h; cases h

/-- the fresh program value after `update_indices` -/
theorem LPInv_start
    (hi1 : ∀ r, r < p.rels.length → (declOf p r).lat = true → ((inp r).map keyOf).Nodup) :
    LPInv I L p aggv inp (updateIndices (initSt p inp)) ∧
      DBLe I L p (inDB p inp) (factsOf (updateIndices (initSt p inp))) := by
  have hrows : ∀ r, r < p.rels.length → (relSt (updateIndices (initSt p inp)) r).rows = inp r := by
    intro r hr
    rw [relSt_updateIndices]
    exact rows_initSt p inp r hr
  have hlen : (updateIndices (initSt p inp)).length = p.rels.length := by simp [updateIndices, initSt]
  refine ⟨⟨hlen, ?_, ?_, ?_, ?_⟩, ?_⟩
  · intro r hl
    have hr := lat_lt p hl
    rw [hrows r hr]; exact hi1 r hr hl
  · intro r hr _
    rw [hrows r hr]
    exact ⟨[], by simp, List.nodup_nil, fun t ht => by simp at ht⟩
  · intro r i
    rw [relSt_updateIndices]
    simp only [List.mem_range]
  · intro M hM f hf
    have hr : f.rel < p.rels.length := by
      have := lt_of_mem_rows _ f.rel f.args hf
      rw [hlen] at this; exact this
    have hf' : f.args ∈ (relSt (updateIndices (initSt p inp)) f.rel).rows := hf
    rw [hrows _ hr] at hf'
    exact hM.2.2.1 f ⟨hr, hf'⟩
  · intro f hf
    apply Dominated.of_mem
    show f.args ∈ (relSt (updateIndices (initSt p inp)) f.rel).rows
    rw [hrows _ hf.1]; exact hf.2

/-- everything the final theorems need about a completed run -/
theorem run_spec'
    (hh : ∀ r ∈ p.rules, ∀ h ∈ r.heads, h.rel < p.rels.length)
    (hi1 : ∀ r, r < p.rels.length → (declOf p r).lat = true → ((inp r).map keyOf).Nodup)
    (o : SccOrder) (ho : validOrder p o = true) (hs : ∀ s ∈ o, aggOverDynamic p s = false) (fuel : Nat) (ps : ProgSt)
    (hrun : run I {} p o fuel (initSt p inp) = .done ps) :
    LPInv I L p (Agg.aggOf {} p ps.st) inp ps.st ∧ LClosedRules I L p (Agg.aggOf {} p ps.st) p.rules (factsOf ps.st) ∧
      DBLe I L p (inDB p inp) (factsOf ps.st) := by
  obtain ⟨hp0, hin0⟩ := LPInv_start (I := I) (L := L) (p := p) (aggv := Agg.aggOf {} p ps.st) (inp := inp) hi1
  have h := runSccs_spec' hh o ho hs never fuel o [] _ ps (by simp) hp0
    (by intro scc hscc; simp at hscc) hin0 hrun (fun _ _ _ _ _ _ => rfl)
  refine ⟨h.1, ?_, h.2.2⟩
  intro rule hrule ρ hsat hd hhd
  obtain ⟨i, hi, hri⟩ := List.mem_iff_getElem.mp hrule
  obtain ⟨scc, hscc, hiscc⟩ := validOrder_cover p o ho i hi
  have : rule ∈ sccRules p scc := (mem_sccRules p scc rule).mpr ⟨i, hiscc, by rw [List.getElem?_eq_getElem hi, hri]⟩
  exact h.2.1 scc hscc rule this ρ hsat hd hhd

end Strata

end AscentVerif.Engine.ALS
