import AscentVerif.Proofs.EvalBody
import AscentVerif.Proofs.StBasics
/-!
# Body evaluation with aggregation items (step 2 of the C04 proof)

Generalisation of `Proofs/EvalBody.lean` to bodies with `.agg` items.  The declarative
semantics is first generalised from "one list per aggregated *relation*" (`Sat`, `agg : RelId → _`)
to "one list per aggregation *item*" (`SatA`, `aggv : AggClause → _`): this is what the engine
literally does (`aggTuples` deduplicates or not depending on the item), and `Sat I D agg` is the
special case `SatA I D (fun a => agg a.rel)`.  With that, `evalBody` enumerates exactly the
`SatV` derivations over the view of the current state *without any side condition*.
-/
namespace AscentVerif.Engine.Agg
open AscentVerif AscentVerif.Engine

variable {E B G P A : Type}

/-! ## per-item aggregation semantics -/

inductive SatA (I : Interp E B G P A) (D : DB) (aggv : AggClause E A → List Tuple) :
    List (Item E B G P A) → Env → Env → Prop where
  | nil (ρ : Env) : SatA I D aggv [] ρ ρ
  | clause {r : RelId} {args : List (Arg E)} {conds : List (Cond E B P)} {rest : List (Item E B G P A)}
      {ρ ρ₁ ρ₂ ρ₃ : Env} (t : Tuple) :
      D ⟨r, t⟩ → matchArgs I ρ args t ρ = some ρ₁ → satConds I conds ρ₁ = some ρ₂ →
      SatA I D aggv rest ρ₂ ρ₃ → SatA I D aggv (.clause r args conds :: rest) ρ ρ₃
  | cond {c : Cond E B P} {rest : List (Item E B G P A)} {ρ ρ₁ ρ₂ : Env} :
      satCond I c ρ = some ρ₁ → SatA I D aggv rest ρ₁ ρ₂ → SatA I D aggv (.cond c :: rest) ρ ρ₂
  | gen {v : Var} {g : G} {rest : List (Item E B G P A)} {ρ ρ₂ : Env} (x : Val) :
      x ∈ I.gen g ρ → SatA I D aggv rest ((v, x) :: ρ) ρ₂ → SatA I D aggv (.gen v g :: rest) ρ ρ₂
  | aggr {a : AggClause E A} {rest : List (Item E B G P A)} {ρ ρ₁ ρ₂ : Env} :
      ρ₁ ∈ aggEnvs I a ρ (aggv a) → SatA I D aggv rest ρ₁ ρ₂ → SatA I D aggv (.agg a :: rest) ρ ρ₂

theorem SatA.mono {I : Interp E B G P A} {aggv : AggClause E A → List Tuple} {D D' : DB} (h : ∀ f, D f → D' f) :
    ∀ {items : List (Item E B G P A)} {ρ ρ' : Env}, SatA I D aggv items ρ ρ' → SatA I D' aggv items ρ ρ' := by
  intro items ρ ρ' hs
  induction hs with
  | nil ρ => exact .nil ρ
  | clause t hd hm hc _ ih => exact .clause t (h _ hd) hm hc ih
  | cond hc _ ih => exact .cond hc ih
  | gen x hx _ ih => exact .gen x hx ih
  | aggr ha _ ih => exact .aggr ha ih

/-- `SatA` only looks at the aggregation items occurring in the body -/
theorem SatA.congr_agg {I : Interp E B G P A} {aggv aggv' : AggClause E A → List Tuple} {D : DB} :
    ∀ {items : List (Item E B G P A)} {ρ ρ' : Env}, SatA I D aggv items ρ ρ' →
      (∀ a, Item.agg a ∈ items → aggv a = aggv' a) → SatA I D aggv' items ρ ρ' := by
  intro items ρ ρ' hs
  induction hs with
  | nil ρ => intro _; exact .nil ρ
  | clause t hd hm hc _ ih => intro h; exact .clause t hd hm hc (ih fun a ha => h a (List.mem_cons_of_mem _ ha))
  | cond hc _ ih => intro h; exact .cond hc (ih fun a ha => h a (List.mem_cons_of_mem _ ha))
  | gen x hx _ ih => intro h; exact .gen x hx (ih fun a ha => h a (List.mem_cons_of_mem _ ha))
  | @aggr a rest ρ ρ₁ ρ₂ ha _ ih =>
    intro h
    refine .aggr ?_ (ih fun a ha => h a (List.mem_cons_of_mem _ ha))
    rw [← h a (by simp)]; exact ha

/-- `SatA` only looks at the relations occurring in the body -/
theorem SatA.congr_rels {I : Interp E B G P A} {aggv : AggClause E A → List Tuple} {D D' : DB} :
    ∀ {items : List (Item E B G P A)} {ρ ρ' : Env}, SatA I D aggv items ρ ρ' →
      (∀ r ∈ items.filterMap Item.rel?, ∀ t, D ⟨r, t⟩ → D' ⟨r, t⟩) → SatA I D' aggv items ρ ρ' := by
  intro items ρ ρ' hs
  induction hs with
  | nil ρ => intro _; exact .nil ρ
  | @clause r args conds rest ρ ρ₁ ρ₂ ρ₃ t hd hm hc _ ih =>
    intro h
    refine .clause t (h r ?_ t hd) hm hc (ih fun r' hr' => h r' ?_)
    · simp [Item.rel?]
    · simp only [List.filterMap_cons, Item.rel?, List.mem_cons]; exact .inr hr'
  | cond hc _ ih =>
    intro h
    exact .cond hc (ih fun r' hr' => h r' (by simpa [List.filterMap_cons, Item.rel?] using hr'))
  | gen x hx _ ih =>
    intro h
    exact .gen x hx (ih fun r' hr' => h r' (by simpa [List.filterMap_cons, Item.rel?] using hr'))
  | @aggr a rest ρ ρ₁ ρ₂ ha _ ih =>
    intro h
    refine .aggr ha (ih fun r' hr' => h r' ?_)
    simp only [List.filterMap_cons, Item.rel?, List.mem_cons]; exact .inr hr'

/-- the per-relation semantics of `Spec/Datalog` is the special case `aggv a = agg a.rel` -/
theorem sat_iff_satA {I : Interp E B G P A} {agg : RelId → List Tuple} {D : DB}
    {items : List (Item E B G P A)} {ρ ρ' : Env} :
    Sat I D agg items ρ ρ' ↔ SatA I D (fun a => agg a.rel) items ρ ρ' := by
  constructor
  · intro hs
    induction hs with
    | nil ρ => exact .nil ρ
    | clause t hd hm hc _ ih => exact .clause t hd hm hc ih
    | cond hc _ ih => exact .cond hc ih
    | gen x hx _ ih => exact .gen x hx ih
    | aggr ha _ ih => exact .aggr ha ih
  · intro hs
    induction hs with
    | nil ρ => exact .nil ρ
    | clause t hd hm hc _ ih => exact .clause t hd hm hc ih
    | cond hc _ ih => exact .cond hc ih
    | gen x hx _ ih => exact .gen x hx ih
    | aggr ha _ ih => exact .aggr ha ih

def ConsA (I : Interp E B G P A) (rules : List (Rule E B G P A)) (aggv : AggClause E A → List Tuple) (D : DB)
    (f : Fact) : Prop :=
  ∃ r ∈ rules, ∃ ρ, SatA I D aggv r.body [] ρ ∧ ∃ h ∈ r.heads, f = headFact I h ρ

def ClosedA (I : Interp E B G P A) (rules : List (Rule E B G P A)) (aggv : AggClause E A → List Tuple)
    (inp D : DB) : Prop :=
  (∀ f, inp f → D f) ∧ (∀ f, ConsA I rules aggv D f → D f)

/-- least model under the per-item aggregation semantics -/
def DerA (I : Interp E B G P A) (rules : List (Rule E B G P A)) (aggv : AggClause E A → List Tuple)
    (inp : DB) (f : Fact) : Prop :=
  ∀ D, ClosedA I rules aggv inp D → D f

theorem derA_closed (I : Interp E B G P A) (rules : List (Rule E B G P A)) (aggv : AggClause E A → List Tuple)
    (inp : DB) : ClosedA I rules aggv inp (DerA I rules aggv inp) := by
  refine ⟨fun f hf D hD => hD.1 f hf, ?_⟩
  rintro f ⟨r, hr, ρ, hs, h, hh, rfl⟩ D hD
  exact hD.2 _ ⟨r, hr, ρ, SatA.mono (fun g hg => hg D hD) hs, h, hh, rfl⟩

theorem derA_least (I : Interp E B G P A) (rules : List (Rule E B G P A)) (aggv : AggClause E A → List Tuple)
    (inp D : DB) (hD : ClosedA I rules aggv inp D) : ∀ f, DerA I rules aggv inp f → D f := fun _ hf => hf D hD

theorem derA_input {I : Interp E B G P A} {rules : List (Rule E B G P A)} {aggv : AggClause E A → List Tuple}
    {inp : DB} {f : Fact} (h : inp f) : DerA I rules aggv inp f := fun _ hD => hD.1 f h

theorem derA_cons {I : Interp E B G P A} {rules : List (Rule E B G P A)} {aggv : AggClause E A → List Tuple}
    {inp : DB} {f : Fact} (h : ConsA I rules aggv (DerA I rules aggv inp) f) : DerA I rules aggv inp f :=
  (derA_closed I rules aggv inp).2 f h

theorem closed_iff_closedA {I : Interp E B G P A} {rules : List (Rule E B G P A)} {agg : RelId → List Tuple}
    {inp D : DB} : Closed I rules agg inp D ↔ ClosedA I rules (fun a => agg a.rel) inp D := by
  constructor
  · rintro ⟨h1, h2⟩
    refine ⟨h1, ?_⟩
    rintro f ⟨r, hr, ρ, hs, h⟩
    exact h2 f ⟨r, hr, ρ, sat_iff_satA.mpr hs, h⟩
  · rintro ⟨h1, h2⟩
    refine ⟨h1, ?_⟩
    rintro f ⟨r, hr, ρ, hs, h⟩
    exact h2 f ⟨r, hr, ρ, sat_iff_satA.mp hs, h⟩

theorem derivable_iff_derA {I : Interp E B G P A} {rules : List (Rule E B G P A)} {agg : RelId → List Tuple}
    {inp : DB} {f : Fact} : Derivable I rules agg inp f ↔ DerA I rules (fun a => agg a.rel) inp f :=
  ⟨fun h D hD => h D (closed_iff_closedA.mpr hD), fun h D hD => h D (closed_iff_closedA.mp hD)⟩

/-- two per-item views agreeing on the aggregation items of the rules give the same closed sets -/
theorem closedA_congr {I : Interp E B G P A} {rules : List (Rule E B G P A)} {aggv aggv' : AggClause E A → List Tuple}
    {inp D : DB} (h : ∀ r ∈ rules, ∀ a, Item.agg a ∈ r.body → aggv a = aggv' a)
    (hc : ClosedA I rules aggv inp D) : ClosedA I rules aggv' inp D := by
  refine ⟨hc.1, ?_⟩
  rintro f ⟨r, hr, ρ, hs, hh⟩
  exact hc.2 f ⟨r, hr, ρ, SatA.congr_agg hs (fun a ha => (h r hr a ha).symm), hh⟩

theorem derA_congr {I : Interp E B G P A} {rules : List (Rule E B G P A)} {aggv aggv' : AggClause E A → List Tuple}
    {inp : DB} (h : ∀ r ∈ rules, ∀ a, Item.agg a ∈ r.body → aggv a = aggv' a) (f : Fact) :
    DerA I rules aggv inp f ↔ DerA I rules aggv' inp f :=
  ⟨fun hd D hD => hd D (closedA_congr (fun r hr a ha => (h r hr a ha).symm) hD),
   fun hd D hD => hd D (closedA_congr h hD)⟩

/-! ## versioned derivations with aggregation items -/

inductive SatV (I : Interp E B G P A) (view : RelId → Option Ver → Tuple → Prop)
    (aggv : AggClause E A → List Tuple) :
    List (Item E B G P A) → List (Option Ver) → Env → Env → Prop where
  | nil (vs : List (Option Ver)) (ρ : Env) : SatV I view aggv [] vs ρ ρ
  | clause {r : RelId} {args : List (Arg E)} {conds : List (Cond E B P)} {rest : List (Item E B G P A)}
      {vs : List (Option Ver)} {ρ ρ₁ ρ₂ ρ₃ : Env} (t : Tuple) :
      view r (vs.headD none) t → matchArgs I ρ args t ρ = some ρ₁ → satConds I conds ρ₁ = some ρ₂ →
      SatV I view aggv rest vs.tail ρ₂ ρ₃ → SatV I view aggv (.clause r args conds :: rest) vs ρ ρ₃
  | cond {c : Cond E B P} {rest : List (Item E B G P A)} {vs : List (Option Ver)} {ρ ρ₁ ρ₂ : Env} :
      satCond I c ρ = some ρ₁ → SatV I view aggv rest vs.tail ρ₁ ρ₂ → SatV I view aggv (.cond c :: rest) vs ρ ρ₂
  | gen {v : Var} {g : G} {rest : List (Item E B G P A)} {vs : List (Option Ver)} {ρ ρ₂ : Env} (x : Val) :
      x ∈ I.gen g ρ → SatV I view aggv rest vs.tail ((v, x) :: ρ) ρ₂ → SatV I view aggv (.gen v g :: rest) vs ρ ρ₂
  | aggr {a : AggClause E A} {rest : List (Item E B G P A)} {vs : List (Option Ver)} {ρ ρ₁ ρ₂ : Env} :
      ρ₁ ∈ aggEnvs I a ρ (aggv a) → SatV I view aggv rest vs.tail ρ₁ ρ₂ → SatV I view aggv (.agg a :: rest) vs ρ ρ₂

theorem SatV.mono {I : Interp E B G P A} {view view' : RelId → Option Ver → Tuple → Prop}
    {aggv : AggClause E A → List Tuple} (h : ∀ r v t, view r v t → view' r v t) :
    ∀ {items : List (Item E B G P A)} {vs : List (Option Ver)} {ρ ρ' : Env},
      SatV I view aggv items vs ρ ρ' → SatV I view' aggv items vs ρ ρ' := by
  intro items vs ρ ρ' hs
  induction hs with
  | nil vs ρ => exact .nil vs ρ
  | clause t hd hm hc _ ih => exact .clause t (h _ _ _ hd) hm hc ih
  | cond hc _ ih => exact .cond hc ih
  | gen x hx _ ih => exact .gen x hx ih
  | aggr ha _ ih => exact .aggr ha ih

theorem SatV.congr_agg {I : Interp E B G P A} {view : RelId → Option Ver → Tuple → Prop}
    {aggv aggv' : AggClause E A → List Tuple} :
    ∀ {items : List (Item E B G P A)} {vs : List (Option Ver)} {ρ ρ' : Env},
      SatV I view aggv items vs ρ ρ' → (∀ a, Item.agg a ∈ items → aggv a = aggv' a) →
      SatV I view aggv' items vs ρ ρ' := by
  intro items vs ρ ρ' hs
  induction hs with
  | nil vs ρ => intro _; exact .nil vs ρ
  | clause t hd hm hc _ ih => intro h; exact .clause t hd hm hc (ih fun a ha => h a (List.mem_cons_of_mem _ ha))
  | cond hc _ ih => intro h; exact .cond hc (ih fun a ha => h a (List.mem_cons_of_mem _ ha))
  | gen x hx _ ih => intro h; exact .gen x hx (ih fun a ha => h a (List.mem_cons_of_mem _ ha))
  | @aggr a rest vs ρ ρ₁ ρ₂ ha _ ih =>
    intro h
    refine .aggr ?_ (ih fun a ha => h a (List.mem_cons_of_mem _ ha))
    rw [← h a (by simp)]; exact ha

theorem SatV.toSatA {I : Interp E B G P A} {view : RelId → Option Ver → Tuple → Prop} {D : DB}
    {aggv : AggClause E A → List Tuple} (h : ∀ r v t, view r v t → D ⟨r, t⟩) :
    ∀ {items : List (Item E B G P A)} {vs : List (Option Ver)} {ρ ρ' : Env},
      SatV I view aggv items vs ρ ρ' → SatA I D aggv items ρ ρ' := by
  intro items vs ρ ρ' hs
  induction hs with
  | nil vs ρ => exact .nil ρ
  | clause t hd hm hc _ ih => exact .clause t (h _ _ _ hd) hm hc ih
  | cond hc _ ih => exact .cond hc ih
  | gen x hx _ ih => exact .gen x hx ih
  | aggr ha _ ih => exact .aggr ha ih

/-! ## `evalBody` enumerates the `SatV` derivations over the state's view and its aggregation reads -/

theorem evalBody_of_SatV (I : Interp E B G P A) (cfg : Config) (p : Program E B G P A) (s : SccSt) :
    ∀ {items : List (Item E B G P A)} {vs : List (Option Ver)} {ρ ρ' : Env},
      SatV I (viewOf cfg p s) (aggTuples cfg p s) items vs ρ ρ' → ρ' ∈ evalBody I cfg p s items vs ρ := by
  intro items vs ρ ρ' hs
  induction hs with
  | nil vs ρ => simp [evalBody]
  | @clause r args conds rest vs ρ ρ₁ ρ₂ ρ₃ t hd hm hc _ ih =>
    obtain ⟨i, hi, rfl⟩ := hd
    simp only [evalBody, List.mem_flatMap]
    exact ⟨i, hi, by rw [hm]; simp only []; rw [hc]; exact ih⟩
  | cond hc _ ih =>
    simp only [evalBody]; rw [hc]; exact ih
  | gen x hx _ ih =>
    simp only [evalBody, List.mem_flatMap]
    exact ⟨x, hx, ih⟩
  | @aggr a rest vs ρ ρ₁ ρ₂ ha _ ih =>
    simp only [evalBody, List.mem_flatMap]
    exact ⟨ρ₁, ha, ih⟩

theorem SatV_of_evalBody (I : Interp E B G P A) (cfg : Config) (p : Program E B G P A) (s : SccSt) :
    ∀ (items : List (Item E B G P A)) (vs : List (Option Ver)) (ρ ρ' : Env),
      ρ' ∈ evalBody I cfg p s items vs ρ → SatV I (viewOf cfg p s) (aggTuples cfg p s) items vs ρ ρ' := by
  intro items
  induction items with
  | nil =>
    intro vs ρ ρ' h
    simp only [evalBody, List.mem_singleton] at h
    subst h; exact .nil vs _
  | cons it rest ih =>
    intro vs ρ ρ' h
    cases it with
    | clause r args conds =>
      simp only [evalBody, List.mem_flatMap] at h
      obtain ⟨i, hi, h⟩ := h
      split at h
      · simp at h
      · rename_i ρ₁ hm
        split at h
        · simp at h
        · rename_i ρ₂ hc
          exact .clause _ ⟨i, hi, rfl⟩ hm hc (ih _ _ _ h)
    | cond c =>
      simp only [evalBody] at h
      split at h
      · simp at h
      · rename_i ρ₁ hc
        exact .cond hc (ih _ _ _ h)
    | gen v g =>
      simp only [evalBody, List.mem_flatMap] at h
      obtain ⟨x, hx, h⟩ := h
      exact .gen x hx (ih _ _ _ h)
    | agg a =>
      simp only [evalBody, List.mem_flatMap] at h
      obtain ⟨ρ₁, ha, h⟩ := h
      exact .aggr ha (ih _ _ _ h)

/-! ## the semi-naive covering lemma, abstractly over a view (aggregation items are never dynamic) -/

theorem dynCount_agg (dynR : List RelId) (a : AggClause E A) (rest : List (Item E B G P A)) :
    dynCount dynR (.agg a :: rest) = dynCount dynR rest := by
  simp [dynCount, dynClauses]

section Cover
variable (I : Interp E B G P A) (view : RelId → Option Ver → Tuple → Prop) (aggv : AggClause E A → List Tuple)
  (dynR : List RelId)
  (hnd : ∀ r, dynR.contains r = false → ∀ v v' t, view r v t → view r v' t)
  (hsplit : ∀ r t, view r (some .totalDelta) t → view r (some .total) t ∨ view r (some .delta) t)

include hnd in
/-- a derivation over `total ∪ delta` is a derivation of the all-`TotalDelta` version vector -/
theorem SatV_allTD :
    ∀ {items : List (Item E B G P A)} {ρ ρ' : Env},
      SatA I (fun f => view f.rel (some .totalDelta) f.args) aggv items ρ ρ' →
      ∀ m, dynCount dynR items ≤ m →
        SatV I view aggv items (spread (dynClauses dynR items) (List.replicate m Ver.totalDelta)) ρ ρ' := by
  intro items ρ ρ' hs
  induction hs with
  | nil ρ => intro m _; exact .nil _ ρ
  | @clause r args conds rest ρ ρ₁ ρ₂ ρ₃ t hd hm hc _ ih =>
    intro m hle
    cases hdy : dynR.contains r with
    | false =>
      have hcnt : dynCount dynR rest ≤ m := by
        rw [dynCount_clause_false dynR r args conds rest hdy] at hle; exact hle
      simp only [dynClauses, hdy, spread]
      exact .clause t (hnd r hdy _ _ t hd) hm hc (ih m hcnt)
    | true =>
      have hcnt : dynCount dynR rest + 1 ≤ m := by
        rw [dynCount_clause_true dynR r args conds rest hdy] at hle; exact hle
      obtain ⟨m', rfl⟩ : ∃ m', m = m' + 1 := ⟨m - 1, by omega⟩
      simp only [dynClauses, hdy, spread, List.replicate_succ]
      exact .clause t hd hm hc (ih m' (by omega))
  | cond hc _ ih =>
    intro m hle
    have hcnt := by simpa [dynCount, dynClauses] using hle
    simp only [dynClauses, spread]
    exact .cond hc (ih m hcnt)
  | gen x hx _ ih =>
    intro m hle
    have hcnt := by simpa [dynCount, dynClauses] using hle
    simp only [dynClauses, spread]
    exact .gen x hx (ih m hcnt)
  | aggr ha _ ih =>
    intro m hle
    have hcnt := by simpa [dynCount, dynClauses] using hle
    simp only [dynClauses, spread]
    exact .aggr ha (ih m hcnt)

include hnd hsplit in
theorem seminaive_aux :
    ∀ {items : List (Item E B G P A)} {ρ ρ' : Env},
      SatA I (fun f => view f.rel (some .totalDelta) f.args) aggv items ρ ρ' →
      SatA I (fun f => view f.rel (some .total) f.args) aggv items ρ ρ' ∨
      ∃ vs ∈ versionsBase (dynCount dynR items), SatV I view aggv items (spread (dynClauses dynR items) vs) ρ ρ' := by
  intro items ρ ρ' hs
  induction hs with
  | nil ρ => exact .inl (.nil ρ)
  | @clause r args conds rest ρ ρ₁ ρ₂ ρ₃ t hd hm hc hrest ih =>
    cases hdy : dynR.contains r with
    | false =>
      have hcnt := dynCount_clause_false dynR r args conds rest hdy
      rcases ih with h | ⟨vs, hvs, h⟩
      · exact .inl (.clause t (hnd r hdy _ _ t hd) hm hc h)
      · refine .inr ⟨vs, by rw [hcnt]; exact hvs, ?_⟩
        simp only [dynClauses, hdy, spread]
        exact .clause t (hnd r hdy _ _ t hd) hm hc h
    | true =>
      have hcnt := dynCount_clause_true dynR r args conds rest hdy
      rcases hsplit r t hd with htot | hdel
      · rcases ih with h | ⟨vs, hvs, h⟩
        · exact .inl (.clause t htot hm hc h)
        · refine .inr ⟨Ver.total :: vs, ?_, ?_⟩
          · rw [hcnt]; exact (mem_versionsBase_succ _ _).mpr (.inr ⟨vs, hvs, rfl⟩)
          · simp only [dynClauses, hdy, spread]
            exact .clause t htot hm hc h
      · refine .inr ⟨Ver.delta :: List.replicate (dynCount dynR rest) Ver.totalDelta, ?_, ?_⟩
        · rw [hcnt]; exact (mem_versionsBase_succ _ _).mpr (.inl rfl)
        · simp only [dynClauses, hdy, spread]
          exact .clause t hdel hm hc (SatV_allTD I view aggv dynR hnd hrest _ (Nat.le_refl _))
  | cond hc _ ih =>
    rcases ih with h | ⟨vs, hvs, h⟩
    · exact .inl (.cond hc h)
    · refine .inr ⟨vs, by simpa [dynCount, dynClauses] using hvs, ?_⟩
      simp only [dynClauses, spread]
      exact .cond hc h
  | gen x hx _ ih =>
    rcases ih with h | ⟨vs, hvs, h⟩
    · exact .inl (.gen x hx h)
    · refine .inr ⟨vs, by simpa [dynCount, dynClauses] using hvs, ?_⟩
      simp only [dynClauses, spread]
      exact .gen x hx h
  | aggr ha _ ih =>
    rcases ih with h | ⟨vs, hvs, h⟩
    · exact .inl (.aggr ha h)
    · refine .inr ⟨vs, by simpa [dynCount, dynClauses] using hvs, ?_⟩
      simp only [dynClauses, spread]
      exact .aggr ha h

include hnd hsplit in
/-- **semi-naive covering** for bodies with aggregation items -/
theorem seminaive_cover (r : Rule E B G P A) {ρ' : Env}
    (hs : SatA I (fun f => view f.rel (some .totalDelta) f.args) aggv r.body [] ρ') :
    (dynCount dynR r.body ≠ 0 ∧ SatA I (fun f => view f.rel (some .total) f.args) aggv r.body [] ρ') ∨
    ∃ vs ∈ variants dynR r, SatV I view aggv r.body vs [] ρ' := by
  by_cases hn : dynCount dynR r.body = 0
  · right
    refine ⟨(dynClauses dynR r.body).map fun _ => none, ?_, ?_⟩
    · have : ((dynClauses dynR r.body).filter id).length = 0 := hn
      simp [variants, this]
    · rw [map_none_eq_spread]
      have := SatV_allTD I view aggv dynR hnd hs 0 (by omega)
      simpa using this
  · rcases seminaive_aux I view aggv dynR hnd hsplit hs with h | ⟨vs, hvs, h⟩
    · exact .inl ⟨hn, h⟩
    · right
      refine ⟨spread (dynClauses dynR r.body) vs, ?_, h⟩
      have hn' : ¬ ((dynClauses dynR r.body).filter id).length = 0 := hn
      simp only [variants, hn', if_false, List.mem_map]
      exact ⟨vs, hvs, rfl⟩

end Cover

/-- with no fact in any dynamic relation, a body with a dynamic clause has no instance -/
theorem SatA.no_dyn {I : Interp E B G P A} {D : DB} {aggv : AggClause E A → List Tuple} (dynR : List RelId)
    (hD : ∀ r t, dynR.contains r = true → ¬ D ⟨r, t⟩) :
    ∀ {items : List (Item E B G P A)} {ρ ρ' : Env}, SatA I D aggv items ρ ρ' → dynCount dynR items = 0 := by
  intro items ρ ρ' hs
  induction hs with
  | nil ρ => rfl
  | @clause r args conds rest ρ ρ₁ ρ₂ ρ₃ t hd hm hc _ ih =>
    cases hdy : dynR.contains r with
    | false => rw [dynCount_clause_false dynR r args conds rest hdy]; exact ih
    | true => exact absurd hd (hD r t hdy)
  | cond hc _ ih => simpa [dynCount, dynClauses] using ih
  | gen x hx _ ih => simpa [dynCount, dynClauses] using ih
  | aggr ha _ ih => simpa [dynCount, dynClauses] using ih

end AscentVerif.Engine.Agg
