import AscentVerif.Proofs.PlanSwap
/-!
# Plan proofs, part 9: the pair lemma for the swapped simple join
-/
namespace AscentVerif.Plan
open AscentVerif AscentVerif.Engine AscentVerif.Hir

variable {E B G P A : Type}

/-- what the swapped copy needs on top of `JoinCtx`: the `reorderable` guard (`guardV`, `guardC`), no condition of the
second clause rebinds a variable of the first clause or of its conditions (`d2`), the conditions of the first clause only
mention variables in scope (`s1`), those of the second only its own variables (`s2`, checked by the compiler) -/
structure SwapCtx (V : VarsOf E B) (gk gk1 : List Var) (a1 : List (Arg E)) (c1 : List (Cond E B P)) (a2 : List (Arg E))
    (c2 : List (Cond E B P)) (cols1 cols2 : List Nat) (pre2 preSw : List Var) : Prop where
  base : JoinCtx gk gk1 a1 c1 a2 cols1 cols2 pre2
  guardV : ∀ v ∈ a2.filterMap argVar?, v ∉ gk
  guardC : ∀ v ∈ c2.flatMap Cond.boundVars, v ∉ gk
  d2 : ∀ v ∈ c2.flatMap Cond.boundVars, v ∉ a1.filterMap argVar? ∧ v ∉ c1.flatMap Cond.boundVars
  s1 : condsIn V (gk ++ a1.filterMap argVar?) c1 = true
  s2 : condsIn V (a2.filterMap argVar?) c2 = true
  nd2all : (a2.filterMap argVar?).Nodup
  hpreSw : ∀ v, v ∈ preSw ↔ v ∈ gk ∨ v ∈ a2.filterMap argVar? ∨ v ∈ c2.flatMap Cond.boundVars


theorem get?_app_none {a b : Env} {v : Var} (h : v ∉ keys a) : Env.get? (a ++ b) v = Env.get? b v := by
  rw [get?_append, (get?_eq_none_iff a v).2 h]

theorem get?_app_some {a b : Env} {v : Var} {x : Val} (h : Env.get? a v = some x) : Env.get? (a ++ b) v = some x := by
  rw [get?_append, h]

/-- look-up through a block of bindings taken from a row's valuation -/
theorem block_get {bk z : Env} (hsub : ∀ p ∈ bk, p ∈ z) (σ : Env) (v : Var) :
    (v ∈ keys bk → ∃ x, Env.get? (bk ++ σ) v = some x ∧ (v, x) ∈ z) ∧
    (v ∉ keys bk → Env.get? (bk ++ σ) v = Env.get? σ v) := by
  constructor
  · intro hv
    obtain ⟨x, hx, hz⟩ := get?_sub hsub hv
    exact ⟨x, by rw [get?_append, hx], hz⟩
  · intro hv
    rw [get?_append, (get?_eq_none_iff bk v).2 hv]

theorem freshVars_allNew {g : List Var} {as : List (Arg E)} (hvars : ∀ a ∈ as, ∃ v, a = Arg.var v ∧ v ∉ g) :
    freshVars g as = as.filterMap argVar? := by
  unfold freshVars
  rw [List.filter_eq_self]
  intro v hv
  obtain ⟨a, ha, hav⟩ := List.mem_filterMap.1 hv
  obtain ⟨v', rfl, hng⟩ := hvars a ha
  simp only [argVar?, Option.some.injEq] at hav
  subst hav
  rw [contains_false_of_not_mem hng]; rfl

theorem mem_vars_iff (as : List (Arg E)) (v : Var) :
    v ∈ as.filterMap argVar? ↔ ∃ t : Nat, as[t]? = some (Arg.var v) := by
  rw [List.mem_filterMap]
  constructor
  · rintro ⟨a, ha, hav⟩
    cases a with
    | var w =>
      simp only [argVar?, Option.some.injEq] at hav; subst hav
      obtain ⟨t, ht⟩ := List.mem_iff_getElem?.1 ha
      exact ⟨t, ht⟩
    | expr e => cases hav
  · rintro ⟨t, ht⟩
    exact ⟨_, List.mem_of_getElem? ht, rfl⟩

/-- keys of the bindings `bindArgs` makes -/
theorem mem_keys_bl (skip : Nat → Var → Bool) (as : List (Arg E)) (xs : Tuple) (hlen : xs.length = as.length) (v : Var) :
    v ∈ keys (bl skip 0 as xs) ↔ ∃ t : Nat, as[t]? = some (Arg.var v) ∧ skip t v = false := by
  constructor
  · intro hv
    obtain ⟨p, hp, rfl⟩ := List.mem_map.1 hv
    obtain ⟨t, v, x, h1, _, h3, rfl⟩ := (mem_bl skip p as xs 0).1 hp
    exact ⟨t, h1, by simpa using h3⟩
  · rintro ⟨t, h1, h3⟩
    have ht : t < xs.length := by rw [hlen]; exact (List.getElem?_eq_some_iff.1 h1).1
    exact List.mem_map.2 ⟨(v, xs.getD t .unit),
      (mem_bl skip _ as xs 0).2 ⟨t, v, _, h1, getElem?_getD ht, by simpa using h3, rfl⟩, rfl⟩

section
variable {V : VarsOf E B} {gk gk1 : List Var} {a1 : List (Arg E)} {c1 : List (Cond E B P)} {a2 : List (Arg E)}
  {c2 : List (Cond E B P)} {cols1 cols2 : List Nat} {pre2 preSw : List Var}

/-- the facts about the blocks of bindings made from the two rows -/
structure Blocks (gk gk1 : List Var) (a1 a2 : List (Arg E)) (cols2 : List Nat) (pre2 preSw : List Var) (ρ : Env)
    (row1 row2 : Tuple) : Prop where
  nd1 : (keys (zrow a1 row1)).Nodup
  nd2 : (keys (zrow a2 row2)).Nodup
  s0 : ∀ v, (v ∈ a1.filterMap argVar? →
        ∃ x, Env.get? ((bl (fun _ v => gk.contains v) 0 a1 row1).reverse ++ ρ) v = some x ∧ (v, x) ∈ zrow a1 row1) ∧
      (v ∉ a1.filterMap argVar? → Env.get? ((bl (fun _ v => gk.contains v) 0 a1 row1).reverse ++ ρ) v = Env.get? ρ v)
  p0 : ∀ v, (v ∈ a2.filterMap argVar? →
        ∃ y, Env.get? ((bl (fun j _ => cols2.contains j) 0 a2 row2).reverse ++ ((kb a2 row2 cols2).reverse ++ ρ)) v = some y ∧
          (v, y) ∈ zrow a2 row2) ∧
      (v ∉ a2.filterMap argVar? →
        Env.get? ((bl (fun j _ => cols2.contains j) 0 a2 row2).reverse ++ ((kb a2 row2 cols2).reverse ++ ρ)) v = Env.get? ρ v)
  n2 : ∀ v σ, (v ∈ a2.filterMap argVar? ∧ v ∉ gk1 →
        ∃ y, Env.get? ((bl (fun _ v => pre2.contains v) 0 a2 row2).reverse ++ σ) v = some y ∧ (v, y) ∈ zrow a2 row2) ∧
      (¬(v ∈ a2.filterMap argVar? ∧ v ∉ gk1) →
        Env.get? ((bl (fun _ v => pre2.contains v) 0 a2 row2).reverse ++ σ) v = Env.get? σ v)
  n1 : ∀ v σ, (v ∈ a1.filterMap argVar? ∧ v ∉ preSw →
        ∃ x, Env.get? ((bl (fun _ v => preSw.contains v) 0 a1 row1).reverse ++ σ) v = some x ∧ (v, x) ∈ zrow a1 row1) ∧
      (¬(v ∈ a1.filterMap argVar? ∧ v ∉ preSw) →
        Env.get? ((bl (fun _ v => preSw.contains v) 0 a1 row1).reverse ++ σ) v = Env.get? σ v)

theorem blocks_of (sc : SwapCtx V gk gk1 a1 c1 a2 c2 cols1 cols2 pre2 preSw) (ρ : Env) (row1 row2 : Tuple)
    (hl1 : row1.length = a1.length) (hl2 : row2.length = a2.length) :
    Blocks gk gk1 a1 a2 cols2 pre2 preSw ρ row1 row2 := by
  have hrev : ∀ (l z : Env), (∀ p ∈ l, p ∈ z) → ∀ p ∈ l.reverse, p ∈ z := fun l z h p hp => h p (List.mem_reverse.1 hp)
  have a2var : ∀ a ∈ a2, ∃ v, a = Arg.var v := fun a ha => by
    obtain ⟨v, hv, _⟩ := sc.base.a2vars a ha; exact ⟨v, hv⟩
  refine ⟨?_, ?_, ?_, ?_, ?_, ?_⟩
  · rw [keys_zrow a1 row1 hl1, ← freshVars_allNew sc.base.a1vars]; exact sc.base.nd1
  · rw [keys_zrow a2 row2 hl2]; exact sc.nd2all
  · intro v
    have hb := block_get (hrev _ _ (bl_sub_zrow (fun _ v => gk.contains v) a1 row1)) ρ v
    have hk : v ∈ keys (bl (fun _ v => gk.contains v) 0 a1 row1).reverse ↔ v ∈ a1.filterMap argVar? := by
      rw [keys_reverse, keys_bl gk a1 row1 0 hl1, freshVars_allNew sc.base.a1vars]
    exact ⟨fun h => hb.1 (hk.2 h), fun h => hb.2 fun h' => h (hk.1 h')⟩
  · intro v
    rw [← List.append_assoc]
    have hsub : ∀ p ∈ (bl (fun j _ => cols2.contains j) 0 a2 row2).reverse ++ (kb a2 row2 cols2).reverse,
        p ∈ zrow a2 row2 := by
      intro p hp
      rcases List.mem_append.1 hp with h | h
      · exact bl_sub_zrow _ a2 row2 p (List.mem_reverse.1 h)
      · exact kb_sub_zrow a2 row2 cols2 hl2 p (List.mem_reverse.1 h)
    have hb := block_get hsub ρ v
    have hk : v ∈ keys ((bl (fun j _ => cols2.contains j) 0 a2 row2).reverse ++ (kb a2 row2 cols2).reverse) ↔
        v ∈ a2.filterMap argVar? := by
      constructor
      · intro h
        rw [← keys_zrow a2 row2 hl2]; exact keys_sub hsub v h
      · intro h
        obtain ⟨t, ht⟩ := (mem_vars_iff a2 v).1 h
        rw [keys_append, List.mem_append, keys_reverse, keys_reverse]
        by_cases hc : t ∈ cols2
        · right
          exact List.mem_map.2 ⟨(v, row2.getD t .unit), (mem_kb a2 row2 cols2 _).2 ⟨t, v, hc, ht, rfl⟩, rfl⟩
        · left
          exact (mem_keys_bl _ a2 row2 hl2 v).2 ⟨t, ht, contains_false_of_not_mem hc⟩
    exact ⟨fun h => hb.1 (hk.2 h), fun h => hb.2 fun h' => h (hk.1 h')⟩
  · intro v σ
    have hb := block_get (hrev _ _ (bl_sub_zrow (fun _ v => pre2.contains v) a2 row2)) σ v
    have hk : v ∈ keys (bl (fun _ v => pre2.contains v) 0 a2 row2).reverse ↔ v ∈ a2.filterMap argVar? ∧ v ∉ gk1 := by
      rw [keys_reverse, mem_keys_bl _ a2 row2 hl2 v, mem_vars_iff]
      constructor
      · rintro ⟨t, ht, hs⟩
        refine ⟨⟨t, ht⟩, fun hg => ?_⟩
        rw [List.contains_iff_mem.2 ((sc.base.hpre2 v).2 hg)] at hs; cases hs
      · rintro ⟨⟨t, ht⟩, hg⟩
        exact ⟨t, ht, contains_false_of_not_mem fun hp => hg ((sc.base.hpre2 v).1 hp)⟩
    exact ⟨fun h => hb.1 (hk.2 h), fun h => hb.2 fun h' => h (hk.1 h')⟩
  · intro v σ
    have hb := block_get (hrev _ _ (bl_sub_zrow (fun _ v => preSw.contains v) a1 row1)) σ v
    have hk : v ∈ keys (bl (fun _ v => preSw.contains v) 0 a1 row1).reverse ↔ v ∈ a1.filterMap argVar? ∧ v ∉ preSw := by
      rw [keys_reverse, mem_keys_bl _ a1 row1 hl1 v, mem_vars_iff]
      constructor
      · rintro ⟨t, ht, hs⟩
        refine ⟨⟨t, ht⟩, fun hg => ?_⟩
        rw [List.contains_iff_mem.2 hg] at hs; cases hs
      · rintro ⟨⟨t, ht⟩, hg⟩
        exact ⟨t, ht, contains_false_of_not_mem hg⟩
    exact ⟨fun h => hb.1 (hk.2 h), fun h => hb.2 fun h' => h (hk.1 h')⟩

/-- the two rows agree on the variables they share -/
def RowsJoin (a1 a2 : List (Arg E)) (row1 row2 : Tuple) : Prop :=
  ∀ v x y, (v, x) ∈ zrow a1 row1 → (v, y) ∈ zrow a2 row2 → x = y

theorem a1_fresh (sc : SwapCtx V gk gk1 a1 c1 a2 c2 cols1 cols2 pre2 preSw) {v : Var}
    (hv : v ∈ a1.filterMap argVar?) : v ∉ gk := by
  obtain ⟨a, ha, hav⟩ := List.mem_filterMap.1 hv
  obtain ⟨v', rfl, hng⟩ := sc.base.a1vars a ha
  simp only [argVar?, Option.some.injEq] at hav
  subst hav; exact hng

theorem a2_notc1 (sc : SwapCtx V gk gk1 a1 c1 a2 c2 cols1 cols2 pre2 preSw) {v : Var}
    (hv : v ∈ a2.filterMap argVar?) : v ∉ c1.flatMap Cond.boundVars := by
  obtain ⟨a, ha, hav⟩ := List.mem_filterMap.1 hv
  obtain ⟨v', rfl, hng⟩ := sc.base.a2vars a ha
  simp only [argVar?, Option.some.injEq] at hav
  subst hav; exact hng

/-- a variable of the second clause that is grounded before it is a variable of the first clause (the guard) -/
theorem a2_grounded (sc : SwapCtx V gk gk1 a1 c1 a2 c2 cols1 cols2 pre2 preSw) {v : Var}
    (hv : v ∈ a2.filterMap argVar?) (hg : v ∈ gk1) : v ∈ a1.filterMap argVar? := by
  rcases (sc.base.hgk1 v).1 hg with h | h | h
  · exact absurd h (sc.guardV v hv)
  · exact h
  · exact absurd h (a2_notc1 sc hv)

/-- the key comparison of the swapped copy: the first clause's index columns against the key bound from the second -/
theorem condS_iff (I : Interp E B G P A) (sc : SwapCtx V gk gk1 a1 c1 a2 c2 cols1 cols2 pre2 preSw) (ρ : Env)
    (row1 row2 : Tuple) (hl1 : row1.length = a1.length) (hl2 : row2.length = a2.length)
    (bk : Blocks gk gk1 a1 a2 cols2 pre2 preSw ρ row1 row2) :
    (proj cols1 row1 == keyOf I ((kb a2 row2 cols2).reverse ++ ρ) a1 cols1) = true ↔ RowsJoin a1 a2 row1 row2 := by
  rw [keycond_iff I _ a1 row1 cols1 (a2.filterMap argVar?) sc.base.hcols1 hl1]
  -- the value the key gives to a shared variable
  have hval : ∀ v, v ∈ a1.filterMap argVar? → v ∈ a2.filterMap argVar? →
      ∃ y, Env.get? ((kb a2 row2 cols2).reverse ++ ρ) v = some y ∧ (v, y) ∈ zrow a2 row2 := by
    intro v h1 h2
    obtain ⟨t, ht⟩ := (mem_vars_iff a2 v).1 h2
    have hg : v ∈ gk1 := (sc.base.hgk1 v).2 (.inr (.inl h1))
    have htc : t ∈ cols2 := (sc.base.hcols2 t).2 ⟨_, ht, List.contains_iff_mem.2 hg⟩
    have hsub : ∀ p ∈ (kb a2 row2 cols2).reverse, p ∈ zrow a2 row2 := fun p hp =>
      kb_sub_zrow a2 row2 cols2 hl2 p (List.mem_reverse.1 hp)
    apply (block_get hsub ρ v).1
    rw [keys_reverse]
    exact List.mem_map.2 ⟨(v, row2.getD t .unit), (mem_kb a2 row2 cols2 _).2 ⟨t, v, htc, ht, rfl⟩, rfl⟩
  constructor
  · intro h v x y hx hy
    have h1 : v ∈ a1.filterMap argVar? := by rw [← keys_zrow a1 row1 hl1]; exact List.mem_map.2 ⟨_, hx, rfl⟩
    have h2 : v ∈ a2.filterMap argVar? := by rw [← keys_zrow a2 row2 hl2]; exact List.mem_map.2 ⟨_, hy, rfl⟩
    obtain ⟨y', hg, hz⟩ := hval v h1 h2
    have := h v x hx h2
    rw [hg] at this
    rw [this]
    exact zrow_unique bk.nd2 hz hy
  · intro h v x hx h2
    have h1 : v ∈ a1.filterMap argVar? := by rw [← keys_zrow a1 row1 hl1]; exact List.mem_map.2 ⟨_, hx, rfl⟩
    obtain ⟨y', hg, hz⟩ := hval v h1 h2
    rw [hg]
    exact h v x y' hx hz

/-- the key comparison of `evalBody`'s second clause, after the first clause and its conditions -/
theorem condN_iff (I : Interp E B G P A) (sc : SwapCtx V gk gk1 a1 c1 a2 c2 cols1 cols2 pre2 preSw) (ρ : Env)
    (row1 row2 : Tuple) (hl1 : row1.length = a1.length) (hl2 : row2.length = a2.length)
    (bk : Blocks gk gk1 a1 a2 cols2 pre2 preSw ρ row1 row2) (C1 : Env)
    (hC1 : ∀ v, v ∈ keys C1 ↔ v ∈ c1.flatMap Cond.boundVars) :
    (proj cols2 row2 == keyOf I (C1 ++ ((bl (fun _ v => gk.contains v) 0 a1 row1).reverse ++ ρ)) a2 cols2) = true ↔
      RowsJoin a1 a2 row1 row2 := by
  have hcols : ∀ j, j ∈ cols2 ↔ ∃ v, a2[j]? = some (Arg.var v) ∧ v ∈ gk1 := by
    intro j
    rw [sc.base.hcols2 j]
    constructor
    · rintro ⟨a, ha, hi⟩
      obtain ⟨v, rfl, _⟩ := sc.base.a2vars a (List.mem_of_getElem? ha)
      exact ⟨v, ha, List.contains_iff_mem.1 hi⟩
    · rintro ⟨v, ha, hg⟩
      exact ⟨_, ha, List.contains_iff_mem.2 hg⟩
  rw [keycond_iff I _ a2 row2 cols2 gk1 hcols hl2]
  have hval : ∀ v, v ∈ a1.filterMap argVar? → v ∈ a2.filterMap argVar? →
      ∃ x, Env.get? (C1 ++ ((bl (fun _ v => gk.contains v) 0 a1 row1).reverse ++ ρ)) v = some x ∧ (v, x) ∈ zrow a1 row1 := by
    intro v h1 h2
    have hvC : v ∉ keys C1 := fun h => a2_notc1 sc h2 ((hC1 v).1 h)
    rw [get?_append, (get?_eq_none_iff C1 v).2 hvC]
    exact (bk.s0 v).1 h1
  constructor
  · intro h v x y hx hy
    have h1 : v ∈ a1.filterMap argVar? := by rw [← keys_zrow a1 row1 hl1]; exact List.mem_map.2 ⟨_, hx, rfl⟩
    have h2 : v ∈ a2.filterMap argVar? := by rw [← keys_zrow a2 row2 hl2]; exact List.mem_map.2 ⟨_, hy, rfl⟩
    obtain ⟨x', hg, hz⟩ := hval v h1 h2
    have := h v y hy ((sc.base.hgk1 v).2 (.inr (.inl h1)))
    rw [hg] at this
    rw [this]
    exact zrow_unique bk.nd1 hx hz
  · intro h v y hy hg1
    have h2 : v ∈ a2.filterMap argVar? := by rw [← keys_zrow a2 row2 hl2]; exact List.mem_map.2 ⟨_, hy, rfl⟩
    have h1 := a2_grounded sc h2 hg1
    obtain ⟨x', hg, hz⟩ := hval v h1 h2
    rw [hg]
    exact (h v x' y hz hy).symm

/-- `G1`: on the variables of the second clause, `evalBody`'s environment before the second clause's conditions agrees
with the swapped copy's -/
theorem agree_c2 (sc : SwapCtx V gk gk1 a1 c1 a2 c2 cols1 cols2 pre2 preSw) (ρ : Env) (row1 row2 : Tuple)
    (bk : Blocks gk gk1 a1 a2 cols2 pre2 preSw ρ row1 row2) (hJ : RowsJoin a1 a2 row1 row2) (C1 : Env)
    (hC1 : ∀ v, v ∈ keys C1 ↔ v ∈ c1.flatMap Cond.boundVars) (v : Var) (hv : v ∈ a2.filterMap argVar?) :
    Env.get? ((bl (fun _ v => pre2.contains v) 0 a2 row2).reverse ++
        (C1 ++ ((bl (fun _ v => gk.contains v) 0 a1 row1).reverse ++ ρ))) v =
      Env.get? ((bl (fun j _ => cols2.contains j) 0 a2 row2).reverse ++ ((kb a2 row2 cols2).reverse ++ ρ)) v := by
  obtain ⟨y, hy, hyz⟩ := (bk.p0 v).1 hv
  rw [hy]
  by_cases hg : v ∈ gk1
  · rw [(bk.n2 v _).2 (fun h => h.2 hg)]
    have hvC : v ∉ keys C1 := fun h => a2_notc1 sc hv ((hC1 v).1 h)
    rw [get?_append, (get?_eq_none_iff C1 v).2 hvC]
    obtain ⟨x, hx, hxz⟩ := (bk.s0 v).1 (a2_grounded sc hv hg)
    rw [hx, hJ v x y hxz hyz]
  · obtain ⟨y', hy', hyz'⟩ := (bk.n2 v (C1 ++ ((bl (fun _ v => gk.contains v) 0 a1 row1).reverse ++ ρ))).1 ⟨hv, hg⟩
    rw [hy', zrow_unique bk.nd2 hyz' hyz]

/-- `G2`: on the variables in scope at the first clause's conditions, the swapped copy's environment agrees with
`evalBody`'s -/
theorem agree_c1 (sc : SwapCtx V gk gk1 a1 c1 a2 c2 cols1 cols2 pre2 preSw) (ρ : Env) (row1 row2 : Tuple)
    (bk : Blocks gk gk1 a1 a2 cols2 pre2 preSw ρ row1 row2) (hJ : RowsJoin a1 a2 row1 row2) (C2 : Env)
    (hC2 : ∀ v, v ∈ keys C2 ↔ v ∈ c2.flatMap Cond.boundVars) (v : Var) (hv : v ∈ gk ++ a1.filterMap argVar?) :
    Env.get? ((bl (fun _ v => preSw.contains v) 0 a1 row1).reverse ++
        (C2 ++ ((bl (fun j _ => cols2.contains j) 0 a2 row2).reverse ++ ((kb a2 row2 cols2).reverse ++ ρ)))) v =
      Env.get? ((bl (fun _ v => gk.contains v) 0 a1 row1).reverse ++ ρ) v := by
  by_cases h1 : v ∈ a1.filterMap argVar?
  · obtain ⟨x, hx, hxz⟩ := (bk.s0 v).1 h1
    rw [hx]
    have hvC : v ∉ keys C2 := fun h => (sc.d2 v ((hC2 v).1 h)).1 h1
    by_cases hp : v ∈ preSw
    · rw [(bk.n1 v _).2 (fun h => h.2 hp), get?_append, (get?_eq_none_iff C2 v).2 hvC]
      have h2 : v ∈ a2.filterMap argVar? := by
        rcases (sc.hpreSw v).1 hp with h | h | h
        · exact absurd h (a1_fresh sc h1)
        · exact h
        · exact absurd ((hC2 v).2 h) hvC
      obtain ⟨y, hy, hyz⟩ := (bk.p0 v).1 h2
      rw [hy, hJ v x y hxz hyz]
    · obtain ⟨x', hx', hxz'⟩ := (bk.n1 v (C2 ++ ((bl (fun j _ => cols2.contains j) 0 a2 row2).reverse ++
        ((kb a2 row2 cols2).reverse ++ ρ)))).1 ⟨h1, hp⟩
      rw [hx', zrow_unique bk.nd1 hxz' hxz]
  · have hg : v ∈ gk := by
      rcases List.mem_append.1 hv with h | h
      · exact h
      · exact absurd h h1
    rw [(bk.s0 v).2 h1, (bk.n1 v _).2 (fun h => h1 h.1)]
    have hvC : v ∉ keys C2 := fun h => sc.guardC v ((hC2 v).1 h) hg
    rw [get?_append, (get?_eq_none_iff C2 v).2 hvC]
    exact (bk.p0 v).2 fun h => sc.guardV v h hg

/-- the final environments are look-up-equal -/
theorem final_envEq (sc : SwapCtx V gk gk1 a1 c1 a2 c2 cols1 cols2 pre2 preSw) (ρ : Env) (row1 row2 : Tuple)
    (bk : Blocks gk gk1 a1 a2 cols2 pre2 preSw ρ row1 row2) (hJ : RowsJoin a1 a2 row1 row2) (C1 C2 : Env)
    (hC1 : ∀ v, v ∈ keys C1 ↔ v ∈ c1.flatMap Cond.boundVars)
    (hC2 : ∀ v, v ∈ keys C2 ↔ v ∈ c2.flatMap Cond.boundVars) :
    EnvEq
      (C1 ++ ((bl (fun _ v => preSw.contains v) 0 a1 row1).reverse ++
        (C2 ++ ((bl (fun j _ => cols2.contains j) 0 a2 row2).reverse ++ ((kb a2 row2 cols2).reverse ++ ρ)))))
      (C2 ++ ((bl (fun _ v => pre2.contains v) 0 a2 row2).reverse ++
        (C1 ++ ((bl (fun _ v => gk.contains v) 0 a1 row1).reverse ++ ρ)))) := by
  intro v
  by_cases hc1 : v ∈ keys C1
  · -- bound by a condition of the first clause
    have hn2 : v ∉ keys C2 := fun h => (sc.d2 v ((hC2 v).1 h)).2 ((hC1 v).1 hc1)
    have hna2 : v ∉ a2.filterMap argVar? := fun h => a2_notc1 sc h ((hC1 v).1 hc1)
    obtain ⟨x, hx⟩ := Option.isSome_iff_exists.1 ((get?_isSome_iff C1 v).2 hc1)
    rw [get?_app_some hx, get?_app_none hn2, (bk.n2 v _).2 (fun h => hna2 h.1), get?_app_some hx]
  · rw [get?_app_none hc1]
    by_cases hc2 : v ∈ keys C2
    · have hna1 : v ∉ a1.filterMap argVar? := (sc.d2 v ((hC2 v).1 hc2)).1
      obtain ⟨x, hx⟩ := Option.isSome_iff_exists.1 ((get?_isSome_iff C2 v).2 hc2)
      rw [(bk.n1 v _).2 (fun h => hna1 h.1), get?_app_some hx, get?_app_some hx]
    · rw [get?_app_none (a := C2) (b := (bl (fun _ v => pre2.contains v) 0 a2 row2).reverse ++ _) hc2]
      by_cases h1 : v ∈ gk ++ a1.filterMap argVar?
      · rw [agree_c1 sc ρ row1 row2 bk hJ C2 hC2 v h1]
        have hg1 : v ∈ gk1 := by
          rcases List.mem_append.1 h1 with h | h
          · exact (sc.base.hgk1 v).2 (.inl h)
          · exact (sc.base.hgk1 v).2 (.inr (.inl h))
        rw [(bk.n2 v _).2 (fun h => h.2 hg1), get?_app_none hc1]
      · by_cases h2 : v ∈ a2.filterMap argVar?
        · rw [agree_c2 sc ρ row1 row2 bk hJ C1 hC1 v h2]
          have hna1 : v ∉ a1.filterMap argVar? := fun h => h1 (List.mem_append_right _ h)
          rw [(bk.n1 v _).2 (fun h => hna1 h.1), get?_app_none hc2]
        · have hna1 : v ∉ a1.filterMap argVar? := fun h => h1 (List.mem_append_right _ h)
          rw [(bk.n1 v _).2 (fun h => hna1 h.1), get?_app_none hc2, (bk.p0 v).2 h2,
            (bk.n2 v _).2 (fun h => h2 h.1), get?_app_none hc1, (bk.s0 v).2 hna1]

end

end AscentVerif.Plan
