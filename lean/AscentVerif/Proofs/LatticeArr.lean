import AscentVerif.Proofs.LatticeProduct
/-!
# `Product<[T; N]>`
-/
namespace AscentVerif.Lat

section
variable {α : Type} [Lat α]

theorem arrPcmp_cons (ord : Ordering) (x y : α) (xs ys : List α) :
    arrPcmp ord (x :: xs) (y :: ys) =
      (pcmp x y).bind (fun ith => (combineOrderings ith ord).bind (fun r => arrPcmp r xs ys)) := by
  rw [arrPcmp]
  cases pcmp x y with
  | none => rfl
  | some ith =>
    show (match combineOrderings ith ord with
      | some newOrd => arrPcmp newOrd xs ys
      | none => none) = (combineOrderings ith ord).bind (fun r => arrPcmp r xs ys)
    cases combineOrderings ith ord <;> rfl

theorem arrPcmp_nil_left (ord : Ordering) (ys : List α) : arrPcmp ord [] ys = some ord := by
  rw [arrPcmp]; intros; contradiction

theorem arrPcmp_nil_right (ord : Ordering) (xs : List α) : arrPcmp ord xs [] = some ord := by
  rw [arrPcmp]; intros; contradiction

theorem arrPcmp_acc (ord : Ordering) (xs ys : List α) :
    arrPcmp ord xs ys = (arrPcmp .eq xs ys).bind (fun o => combineOrderings o ord) := by
  induction xs generalizing ord ys with
  | nil => simp [arrPcmp_nil_left, combineOrderings_eq_left]
  | cons x xs ih =>
    cases ys with
    | nil => simp [arrPcmp_nil_right, combineOrderings_eq_left]
    | cons y ys =>
      rw [arrPcmp_cons, arrPcmp_cons]
      cases pcmp x y with
      | none => rfl
      | some ith =>
        simp only [Option.bind_some, combineOrderings_eq_right]
        rw [ih ith]
        cases hc : combineOrderings ith ord with
        | none =>
          cases h : arrPcmp Ordering.eq xs ys with
          | none => rfl
          | some o =>
            simp only [Option.bind_some, Option.bind_none]
            have := combineOrderings_assoc o ith ord
            rw [hc] at this
            exact this.symm
        | some r =>
          simp only [Option.bind_some]
          rw [ih r]
          cases h : arrPcmp Ordering.eq xs ys with
          | none => rfl
          | some o =>
            simp only [Option.bind_some]
            have := combineOrderings_assoc o ith ord
            rw [hc] at this
            exact this.symm

theorem arrJoinMut_cons (c : Bool) (x y : α) (xs ys : List α) :
    arrJoinMut c (x :: xs) (y :: ys) =
      ((joinMut x y).1 :: (arrJoinMut (c || (joinMut x y).2) xs ys).1,
        (arrJoinMut (c || (joinMut x y).2) xs ys).2) := by
  rw [arrJoinMut]

theorem arrMeetMut_cons (c : Bool) (x y : α) (xs ys : List α) :
    arrMeetMut c (x :: xs) (y :: ys) =
      ((meetMut x y).1 :: (arrMeetMut (c || (meetMut x y).2) xs ys).1,
        (arrMeetMut (c || (meetMut x y).2) xs ys).2) := by
  rw [arrMeetMut]

theorem arrJoinMut_nil_left (c : Bool) (ys : List α) : arrJoinMut c [] ys = ([], c) := by
  rw [arrJoinMut]; intros; contradiction
theorem arrJoinMut_nil_right (c : Bool) (xs : List α) : arrJoinMut c xs [] = (xs, c) := by
  rw [arrJoinMut]; intros; contradiction
theorem arrMeetMut_nil_left (c : Bool) (ys : List α) : arrMeetMut c [] ys = ([], c) := by
  rw [arrMeetMut]; intros; contradiction
theorem arrMeetMut_nil_right (c : Bool) (xs : List α) : arrMeetMut c xs [] = (xs, c) := by
  rw [arrMeetMut]; intros; contradiction

theorem arrJoinMut_acc (c : Bool) (xs ys : List α) :
    arrJoinMut c xs ys = ((arrJoinMut false xs ys).1, c || (arrJoinMut false xs ys).2) := by
  induction xs generalizing c ys with
  | nil => simp [arrJoinMut_nil_left]
  | cons x xs ih =>
    cases ys with
    | nil => simp [arrJoinMut_nil_right]
    | cons y ys =>
      rw [arrJoinMut_cons, arrJoinMut_cons, ih (c || _), ih (false || _)]
      simp [Bool.or_assoc]

theorem arrMeetMut_acc (c : Bool) (xs ys : List α) :
    arrMeetMut c xs ys = ((arrMeetMut false xs ys).1, c || (arrMeetMut false xs ys).2) := by
  induction xs generalizing c ys with
  | nil => simp [arrMeetMut_nil_left]
  | cons x xs ih =>
    cases ys with
    | nil => simp [arrMeetMut_nil_right]
    | cons y ys =>
      rw [arrMeetMut_cons, arrMeetMut_cons, ih (c || _), ih (false || _)]
      simp [Bool.or_assoc]

def ArrWF (WF : α → Prop) (n : Nat) (p : ProductArr α) : Prop := p.val.length = n ∧ ∀ x ∈ p.val, WF x

theorem arr_joinMut_cons (a a' : α) (b b' : ProductArr α) :
    joinMut (⟨a :: b.val⟩ : ProductArr α) ⟨a' :: b'.val⟩ =
      (⟨(joinMut a a').1 :: (joinMut b b').1.val⟩, (joinMut a a').2 || (joinMut b b').2) := by
  show ((⟨(arrJoinMut false (a :: b.val) (a' :: b'.val)).1⟩ : ProductArr α),
      (arrJoinMut false (a :: b.val) (a' :: b'.val)).2) = _
  rw [arrJoinMut_cons, arrJoinMut_acc (false || _)]
  simp only [Bool.false_or]
  rfl

theorem arr_meetMut_cons (a a' : α) (b b' : ProductArr α) :
    meetMut (⟨a :: b.val⟩ : ProductArr α) ⟨a' :: b'.val⟩ =
      (⟨(meetMut a a').1 :: (meetMut b b').1.val⟩, (meetMut a a').2 || (meetMut b b').2) := by
  show ((⟨(arrMeetMut false (a :: b.val) (a' :: b'.val)).1⟩ : ProductArr α),
      (arrMeetMut false (a :: b.val) (a' :: b'.val)).2) = _
  rw [arrMeetMut_cons, arrMeetMut_acc (false || _)]
  simp only [Bool.false_or]
  rfl

theorem arr_join_eq (a b : ProductArr α) : join a b = (joinMut a b).1 := rfl
theorem arr_meet_eq (a b : ProductArr α) : meet a b = (meetMut a b).1 := rfl

theorem arr_pairLike {WF : α → Prop} (h : LawfulLat α WF) (n : Nat) :
    PairLike α (ProductArr α) (ProductArr α) WF (ArrWF WF n) (ArrWF WF (n + 1))
      (fun a p => ⟨a :: p.val⟩) where
  surj c hc := by
    rcases c with ⟨_ | ⟨x, xs⟩⟩
    · exact absurd hc.1 (by simp)
    · exact ⟨x, ⟨xs⟩, rfl⟩
  inj a b a' b' h := by
    cases b; cases b'
    simp only [ProductArr.mk.injEq, List.cons.injEq] at h
    exact ⟨h.1, by rw [h.2]⟩
  wf a b := by
    unfold ArrWF
    simp only [List.length_cons, Nat.add_right_cancel_iff, List.mem_cons, forall_eq_or_imp]
    constructor
    · rintro ⟨h1, h2, h3⟩; exact ⟨h2, h1, h3⟩
    · rintro ⟨h2, h1, h3⟩; exact ⟨h1, h2, h3⟩
  pcmp_mk a b a' b' := by
    show arrPcmp Ordering.eq (a :: b.val) (a' :: b'.val) = comb2 (pcmp a a') (arrPcmp Ordering.eq b.val b'.val)
    rw [arrPcmp_cons]
    cases pcmp a a' with
    | none => rfl
    | some ord =>
      simp only [Option.bind_some, combineOrderings_eq_right]
      rw [arrPcmp_acc ord]
      cases arrPcmp Ordering.eq b.val b'.val with
      | none => rfl
      | some o => exact combineOrderings_comm o ord
  join_mk a b a' b' wa _ wa' _ := by
    rw [arr_join_eq, arr_join_eq, arr_joinMut_cons, h.joinMut_fst a a' wa wa']
  meet_mk a b a' b' wa _ wa' _ := by
    rw [arr_meet_eq, arr_meet_eq, arr_meetMut_cons, h.meetMut_fst a a' wa wa']
  joinMut_mk a b a' b' _ _ _ _ := arr_joinMut_cons a a' b b'
  meetMut_mk a b a' b' _ _ _ _ := arr_meetMut_cons a a' b b'

omit [Lat α] in
theorem arrWF_zero {WF : α → Prop} (p : ProductArr α) (h : ArrWF WF 0 p) : p = ⟨[]⟩ := by
  rcases p with ⟨_ | ⟨x, xs⟩⟩
  · rfl
  · exact absurd h.1 (by simp)

omit [Lat α] in
theorem arrWF_nil {WF : α → Prop} : ArrWF WF 0 (⟨[]⟩ : ProductArr α) := ⟨rfl, by simp⟩

theorem lawful_arr_zero (WF : α → Prop) : LawfulLat (ProductArr α) (ArrWF WF 0) where
  pcmp_refl a ha := by rw [arrWF_zero a ha]; rfl
  eq_of_pcmp_eq a b ha hb _ := by rw [arrWF_zero a ha, arrWF_zero b hb]
  pcmp_swap a b ha hb := by rw [arrWF_zero a ha, arrWF_zero b hb]; rfl
  le_trans a b c ha hb hc _ _ := by rw [arrWF_zero a ha, arrWF_zero c hc]; rfl
  join_wf a b ha hb := by rw [arrWF_zero a ha, arrWF_zero b hb]; exact arrWF_nil
  meet_wf a b ha hb := by rw [arrWF_zero a ha, arrWF_zero b hb]; exact arrWF_nil
  le_join_left a b ha hb := by rw [arrWF_zero a ha, arrWF_zero b hb]; rfl
  le_join_right a b ha hb := by rw [arrWF_zero a ha, arrWF_zero b hb]; rfl
  join_le a b c ha hb hc _ _ := by rw [arrWF_zero a ha, arrWF_zero b hb, arrWF_zero c hc]; rfl
  meet_le_left a b ha hb := by rw [arrWF_zero a ha, arrWF_zero b hb]; rfl
  meet_le_right a b ha hb := by rw [arrWF_zero a ha, arrWF_zero b hb]; rfl
  le_meet a b c ha hb hc _ _ := by rw [arrWF_zero a ha, arrWF_zero b hb, arrWF_zero c hc]; rfl
  joinMut_fst a b _ _ := rfl
  joinMut_snd a b ha hb := by
    rw [arrWF_zero a ha, arrWF_zero b hb]
    show false = true ↔ (⟨[]⟩ : ProductArr α) ≠ ⟨[]⟩
    simp
  meetMut_fst a b _ _ := rfl
  meetMut_snd a b ha hb := by
    rw [arrWF_zero a ha, arrWF_zero b hb]
    show false = true ↔ (⟨[]⟩ : ProductArr α) ≠ ⟨[]⟩
    simp

theorem lawful_arr {WF : α → Prop} (h : LawfulLat α WF) (n : Nat) :
    LawfulLat (ProductArr α) (ArrWF WF n) := by
  induction n with
  | zero => exact lawful_arr_zero WF
  | succ n ih => exact lawful_pair (arr_pairLike h n) h ih

end

end AscentVerif.Lat
