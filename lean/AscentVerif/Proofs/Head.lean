import AscentVerif.Proofs.StBasics
import AscentVerif.Proofs.EvalBody
/-!
# Head update and one pass over the rules (step 3 of the C01 proof)

`WF`: intrinsic well-formedness of an SCC state (index entries cover exactly the row numbers).
`Ext s₀ s`: what stays fixed between the start of a pass (`s₀`) and a later state `s`.
`GoodRows`: all rows derivable; row vector = input prefix ++ duplicate-free derived part.
`evalRules_spec`: the pass preserves all of this and every head fact of every variant instance
over the view of `s₀` is present afterwards.
-/
namespace AscentVerif.Engine
open AscentVerif

variable {E B G P A : Type}

/-- the input database of a fresh program value (same as `inputDB` of `Props/C01`) -/
def inDB (p : Program E B G P A) (inp : RelId → List Tuple) : DB :=
  fun f => f.rel < p.rels.length ∧ f.args ∈ inp f.rel

def rowsOf (s : SccSt) (r : RelId) : List Tuple := (relSt s.rels r).rows

def FactsS (s : SccSt) : DB := fun f => f.args ∈ rowsOf s f.rel

structure WF (n : Nat) (dynR : List RelId) (s : SccSt) : Prop where
  len : s.rels.length = n
  dyn_iff : ∀ r, (findDyn s.dyn r).isSome = dynR.contains r
  uniq : ∀ d ∈ s.dyn, findDyn s.dyn d.rel = some d
  cover : ∀ r d, findDyn s.dyn r = some d →
    ∀ i, i < (rowsOf s r).length ↔ (i ∈ d.total ∨ i ∈ d.delta ∨ i ∈ d.new)
  cover_nd : ∀ r, findDyn s.dyn r = none → ∀ i, i < (rowsOf s r).length ↔ i ∈ (relSt s.rels r).idx

structure Ext (s₀ s : SccSt) : Prop where
  idx : ∀ r, (relSt s.rels r).idx = (relSt s₀.rels r).idx
  rows : ∀ r, ∃ extra, rowsOf s r = rowsOf s₀ r ++ extra
  nondyn : ∀ r, findDyn s₀.dyn r = none → findDyn s.dyn r = none ∧ relSt s.rels r = relSt s₀.rels r
  td : ∀ r d₀, findDyn s₀.dyn r = some d₀ →
    ∃ d, findDyn s.dyn r = some d ∧ d.total = d₀.total ∧ d.delta = d₀.delta
  unchanged : s.changed = false → s = s₀

theorem Ext.refl (s : SccSt) : Ext s s :=
  ⟨fun _ => rfl, fun _ => ⟨[], by simp⟩, fun _ h => ⟨h, rfl⟩, fun _ d h => ⟨d, h, rfl, rfl⟩, fun _ => rfl⟩

/-- rows of `s` are rows of `s'` -/
def Le (s s' : SccSt) : Prop := ∀ r t, t ∈ rowsOf s r → t ∈ rowsOf s' r

theorem Le.refl (s : SccSt) : Le s s := fun _ _ h => h
theorem Le.trans {a b c : SccSt} (h₁ : Le a b) (h₂ : Le b c) : Le a c := fun r t h => h₂ r t (h₁ r t h)

theorem Ext.le {s₀ s : SccSt} (h : Ext s₀ s) : Le s₀ s := by
  intro r t ht
  obtain ⟨ex, hex⟩ := h.rows r
  rw [hex]; exact List.mem_append_left _ ht

section Good
variable (I : Interp E B G P A) (p : Program E B G P A) (inp : RelId → List Tuple)

def GoodRows (r : RelId) (rows : List Tuple) : Prop :=
  (∀ t ∈ rows, Derivable I p.rules nAgg (inDB p inp) ⟨r, t⟩) ∧
  ∃ derived, rows = inp r ++ derived ∧ derived.Nodup ∧ ∀ t ∈ derived, t ∉ inp r

theorem GoodRows.append {r : RelId} {rows : List Tuple} {t : Tuple} (h : GoodRows I p inp r rows)
    (hn : t ∉ rows) (hd : Derivable I p.rules nAgg (inDB p inp) ⟨r, t⟩) : GoodRows I p inp r (rows ++ [t]) := by
  obtain ⟨h1, derived, rfl, hnd, hdis⟩ := h
  refine ⟨?_, derived ++ [t], by simp, ?_, ?_⟩
  · intro x hx
    rcases List.mem_append.mp hx with hx | hx
    · exact h1 x hx
    · simp at hx; subst hx; exact hd
  · rw [List.nodup_append]
    refine ⟨hnd, by simp, ?_⟩
    intro a ha b hb
    simp at hb; subst hb
    intro hab; subst hab
    exact hn (List.mem_append_right _ ha)
  · intro x hx
    rcases List.mem_append.mp hx with hx | hx
    · exact hdis x hx
    · simp at hx; subst hx
      intro hin; exact hn (List.mem_append_left _ hin)

def Good (n : Nat) (s : SccSt) : Prop := ∀ r, r < n → GoodRows I p inp r (rowsOf s r)

end Good

/-! ## appending one row -/

def pushRow (s : SccSt) (r : RelId) (d : Dyn) (row : Tuple) : SccSt :=
  { rels := setNth s.rels r { relSt s.rels r with rows := (relSt s.rels r).rows ++ [row] }
    dyn := setDyn s.dyn { d with new := d.new ++ [(relSt s.rels r).rows.length] }
    changed := true }

theorem headRel_eq (s : SccSt) (r : RelId) (row : Tuple) :
    headRel s r row =
      match findDyn s.dyn r with
      | none => s
      | some d =>
        if (bagTuples (rowsOf s r) d.total).contains row || (bagTuples (rowsOf s r) d.delta).contains row
            || (bagTuples (rowsOf s r) d.new).contains row then s
        else pushRow s r d row := by
  unfold headRel
  cases findDyn s.dyn r <;> rfl

section Push
variable {n : Nat} {dynR : List RelId} {s : SccSt} {r : RelId} {d : Dyn} {row : Tuple}

theorem pushRow_rows_self (hr : r < s.rels.length) :
    rowsOf (pushRow s r d row) r = rowsOf s r ++ [row] := by
  simp [pushRow, rowsOf, relSt_setNth_self _ _ _ hr]

theorem pushRow_idx_self (hr : r < s.rels.length) :
    (relSt (pushRow s r d row).rels r).idx = (relSt s.rels r).idx := by
  simp [pushRow, relSt_setNth_self _ _ _ hr]

theorem pushRow_relSt_ne {r' : RelId} (hne : r' ≠ r) :
    relSt (pushRow s r d row).rels r' = relSt s.rels r' := by
  simp [pushRow, relSt_setNth_ne _ _ _ _ hne]

theorem pushRow_rows_ne {r' : RelId} (hne : r' ≠ r) :
    rowsOf (pushRow s r d row) r' = rowsOf s r' := by
  simp [rowsOf, pushRow_relSt_ne hne]

theorem pushRow_dyn_self (hd : findDyn s.dyn r = some d) :
    findDyn (pushRow s r d row).dyn r = some { d with new := d.new ++ [(rowsOf s r).length] } := by
  have hrel : d.rel = r := findDyn_rel hd
  subst hrel
  exact findDyn_setDyn_self s.dyn { d with new := d.new ++ [(rowsOf s d.rel).length] } d hd

theorem pushRow_dyn_ne (hd : findDyn s.dyn r = some d) {r' : RelId} (hne : r' ≠ r) :
    findDyn (pushRow s r d row).dyn r' = findDyn s.dyn r' := by
  have hrel : d.rel = r := findDyn_rel hd
  subst hrel
  exact findDyn_setDyn_ne s.dyn _ r' hne

theorem WF_pushRow (hwf : WF n dynR s) (hd : findDyn s.dyn r = some d) (hr : r < n) :
    WF n dynR (pushRow s r d row) := by
  have hr' : r < s.rels.length := by rw [hwf.len]; exact hr
  have hrel : d.rel = r := findDyn_rel hd
  refine ⟨by simp [pushRow, hwf.len], ?_, ?_, ?_, ?_⟩
  · intro r'
    by_cases hne : r' = r
    · subst hne
      rw [pushRow_dyn_self hd, ← hwf.dyn_iff, hd]; rfl
    · rw [pushRow_dyn_ne hd hne]; exact hwf.dyn_iff r'
  · intro y hy
    simp only [pushRow, setDyn_eq_map, List.mem_map] at hy
    obtain ⟨x, hx, rfl⟩ := hy
    by_cases hxr : x.rel = r
    · have : (x.rel == d.rel) = true := by simp [hxr, hrel]
      simp only [this, if_true]
      subst hrel
      exact pushRow_dyn_self hd
    · have : (x.rel == d.rel) = false := by simp [hxr, hrel]
      simp only [this, Bool.false_eq_true, if_false]
      rw [pushRow_dyn_ne hd hxr]
      exact hwf.uniq x hx
  · intro r' d' hd' i
    by_cases hne : r' = r
    · subst hne
      rw [pushRow_dyn_self hd] at hd'
      cases hd'
      rw [pushRow_rows_self hr']
      have := hwf.cover r' d hd i
      simp only [List.length_append, List.length_singleton, List.mem_append, List.mem_singleton]
      constructor
      · intro hi
        by_cases hlt : i < (rowsOf s r').length
        · rcases this.mp hlt with h | h | h
          · exact .inl h
          · exact .inr (.inl h)
          · exact .inr (.inr (.inl h))
        · exact .inr (.inr (.inr (by omega)))
      · rintro (h | h | h | h)
        · have := this.mpr (.inl h); omega
        · have := this.mpr (.inr (.inl h)); omega
        · have := this.mpr (.inr (.inr h)); omega
        · omega
    · rw [pushRow_dyn_ne hd hne] at hd'
      rw [pushRow_rows_ne hne]
      exact hwf.cover r' d' hd' i
  · intro r' hd' i
    have hne : r' ≠ r := by
      intro h; subst h
      rw [pushRow_dyn_self hd] at hd'; cases hd'
    rw [pushRow_dyn_ne hd hne] at hd'
    rw [pushRow_rows_ne hne, pushRow_relSt_ne hne]
    exact hwf.cover_nd r' hd' i

theorem Ext_pushRow {s₀ : SccSt} (hwf : WF n dynR s) (hext : Ext s₀ s) (hd : findDyn s.dyn r = some d) (hr : r < n) :
    Ext s₀ (pushRow s r d row) := by
  have hr' : r < s.rels.length := by rw [hwf.len]; exact hr
  refine ⟨?_, ?_, ?_, ?_, ?_⟩
  · intro r'
    by_cases hne : r' = r
    · subst hne; rw [pushRow_idx_self hr']; exact hext.idx r'
    · rw [pushRow_relSt_ne hne]; exact hext.idx r'
  · intro r'
    obtain ⟨ex, hex⟩ := hext.rows r'
    by_cases hne : r' = r
    · subst hne
      exact ⟨ex ++ [row], by rw [pushRow_rows_self hr', hex, List.append_assoc]⟩
    · exact ⟨ex, by rw [pushRow_rows_ne hne, hex]⟩
  · intro r' h0
    obtain ⟨h1, h2⟩ := hext.nondyn r' h0
    have hne : r' ≠ r := by
      intro h; subst h; rw [hd] at h1; cases h1
    exact ⟨by rw [pushRow_dyn_ne hd hne]; exact h1, by rw [pushRow_relSt_ne hne]; exact h2⟩
  · intro r' d₀ h0
    obtain ⟨d1, h1, h2, h3⟩ := hext.td r' d₀ h0
    by_cases hne : r' = r
    · subst hne
      rw [hd] at h1; cases h1
      exact ⟨_, pushRow_dyn_self hd, h2, h3⟩
    · exact ⟨d1, by rw [pushRow_dyn_ne hd hne]; exact h1, h2, h3⟩
  · intro h; simp [pushRow] at h

end Push

/-! ## one head update -/

section Step
variable (I : Interp E B G P A) (cfg : Config) (p : Program E B G P A) (inp : RelId → List Tuple)
  (n : Nat) (dynR : List RelId) (hlt : ∀ r, dynR.contains r = true → r < n)

/-- the invariant of a pass, relative to the state `s₀` at its start -/
structure Post (s₀ s : SccSt) : Prop where
  wf : WF n dynR s
  ext : Ext s₀ s
  good : Good I p inp n s

include hlt in
theorem headRel_step {s₀ s : SccSt} (hpost : Post I p inp n dynR s₀ s) (r : RelId) (row : Tuple)
    (hder : Derivable I p.rules nAgg (inDB p inp) ⟨r, row⟩) :
    Post I p inp n dynR s₀ (headRel s r row) ∧ Le s (headRel s r row) ∧
      (dynR.contains r = true → row ∈ rowsOf (headRel s r row) r) := by
  rw [headRel_eq]
  cases hd : findDyn s.dyn r with
  | none =>
    refine ⟨hpost, Le.refl s, ?_⟩
    intro hdy
    have := hpost.wf.dyn_iff r
    rw [hd, hdy] at this; cases this
  | some d =>
    have hdy : dynR.contains r = true := by
      have := hpost.wf.dyn_iff r
      rw [hd] at this; exact this.symm
    have hr : r < n := hlt r hdy
    have hr' : r < s.rels.length := by rw [hpost.wf.len]; exact hr
    have hmem : ((bagTuples (rowsOf s r) d.total).contains row || (bagTuples (rowsOf s r) d.delta).contains row
            || (bagTuples (rowsOf s r) d.new).contains row) = true ↔ row ∈ rowsOf s r := by
      rw [Bool.or_eq_true, Bool.or_eq_true, mem_bagTuples, mem_bagTuples, mem_bagTuples, mem_iff_rowAt]
      constructor
      · rintro ((⟨i, hi, h⟩ | ⟨i, hi, h⟩) | ⟨i, hi, h⟩)
        · exact ⟨i, (hpost.wf.cover r d hd i).mpr (.inl hi), h⟩
        · exact ⟨i, (hpost.wf.cover r d hd i).mpr (.inr (.inl hi)), h⟩
        · exact ⟨i, (hpost.wf.cover r d hd i).mpr (.inr (.inr hi)), h⟩
      · rintro ⟨i, hi, h⟩
        rcases (hpost.wf.cover r d hd i).mp hi with hi | hi | hi
        · exact .inl (.inl ⟨i, hi, h⟩)
        · exact .inl (.inr ⟨i, hi, h⟩)
        · exact .inr ⟨i, hi, h⟩
    simp only []
    split
    · rename_i hc
      exact ⟨hpost, Le.refl s, fun _ => hmem.mp hc⟩
    · rename_i hc
      have hnot : row ∉ rowsOf s r := fun h => hc (hmem.mpr h)
      refine ⟨⟨WF_pushRow hpost.wf hd hr, Ext_pushRow hpost.wf hpost.ext hd hr, ?_⟩, ?_, ?_⟩
      · intro r' hr'n
        by_cases hne : r' = r
        · subst hne
          rw [pushRow_rows_self hr']
          exact (hpost.good r' hr'n).append I p inp hnot hder
        · rw [pushRow_rows_ne hne]; exact hpost.good r' hr'n
      · intro r' t ht
        by_cases hne : r' = r
        · subst hne
          rw [pushRow_rows_self hr']; exact List.mem_append_left _ ht
        · rw [pushRow_rows_ne hne]; exact ht
      · intro _
        rw [pushRow_rows_self hr']; simp

end Step

end AscentVerif.Engine
