import AscentVerif.Proofs.C15Basic
/-!
# C15: characterisation of the HIR pass (`hirRules`) — helper lemmas for `C15Core`
-/
set_option linter.unusedSimpArgs false
namespace AscentVerif.Check
open AscentVerif AscentVerif.Engine

theorem extendGrounded_ok_iff : ∀ (vs g g' : List Var),
    extendGrounded g vs = .ok g' ↔ vs.Nodup ∧ (∀ v ∈ vs, v ∉ g) ∧ g' = g ++ vs
  | [], g, g' => by
    simp [extendGrounded]
    exact eq_comm
  | v :: vs, g, g' => by
    unfold extendGrounded
    by_cases hv : v ∈ g
    · simp [hv]
    · have ih := extendGrounded_ok_iff vs (g ++ [v]) g'
      simp only [List.contains_iff_mem, hv, if_false, ih]
      simp only [List.nodup_cons, List.mem_cons, List.mem_append, List.append_assoc, List.singleton_append,
        List.mem_singleton, List.not_mem_nil, or_false]
      constructor
      · rintro ⟨h1, h2, h3⟩
        refine ⟨⟨?_, h1⟩, ?_, h3⟩
        · intro hm; exact (h2 v hm) (Or.inr rfl)
        · intro w hw
          rcases hw with rfl | hw
          · exact hv
          · intro hg; exact h2 w hw (Or.inl hg)
      · rintro ⟨⟨h0, h1⟩, h2, h3⟩
        refine ⟨h1, ?_, h3⟩
        intro w hw hor
        rcases hor with hg | rfl
        · exact h2 w (Or.inr hw) hg
        · exact h0 hw

theorem extendBinders_ok_iff : ∀ (bs : List Binder) (g g' : List Var),
    extendBinders g bs = .ok g' ↔
      (bs.flatMap (·.seen)).Nodup ∧ (∀ v ∈ bs.flatMap (·.seen), v ∉ g) ∧ g' = g ++ bs.flatMap (·.seen)
  | [], g, g' => by
    simp [extendBinders]
    exact eq_comm
  | b :: bs, g, g' => by
    unfold extendBinders
    cases he : extendGrounded g b.seen with
    | error e =>
      have hne : ¬ (b.seen.Nodup ∧ (∀ v ∈ b.seen, v ∉ g)) := by
        intro ⟨h1, h2⟩
        have := (extendGrounded_ok_iff b.seen g (g ++ b.seen)).2 ⟨h1, h2, rfl⟩
        rw [he] at this; cases this
      simp only [List.flatMap_cons, List.nodup_append, List.mem_append]
      constructor
      · intro h; cases h
      · rintro ⟨⟨h1, _, _⟩, h2, _⟩
        exact absurd ⟨h1, fun v hv => h2 v (Or.inl hv)⟩ hne
    | ok g1 =>
      obtain ⟨h1, h2, rfl⟩ := (extendGrounded_ok_iff b.seen g g1).1 he
      have ih := extendBinders_ok_iff bs (g ++ b.seen) g'
      simp only [ih, List.flatMap_cons, List.nodup_append, List.mem_append, List.append_assoc]
      constructor
      · rintro ⟨k1, k2, k3⟩
        refine ⟨⟨h1, k1, ?_⟩, ?_, k3⟩
        · intro a ha c hc hac
          subst hac
          exact k2 a hc (Or.inr ha)
        · intro v hv
          rcases hv with hv | hv
          · exact h2 v hv
          · intro hg; exact k2 v hv (Or.inl hg)
      · rintro ⟨⟨_, k1, k0⟩, k2, k3⟩
        refine ⟨k1, ?_, k3⟩
        intro v hv hor
        rcases hor with hg | hs
        · exact k2 v (Or.inr hv) hg
        · exact k0 v hs v hv rfl

theorem mem_groundArgs : ∀ (args : List Arg) (g : List Var) (v : Var),
    v ∈ groundArgs g args ↔ v ∈ g ∨ v ∈ argVars args
  | [], g, v => by simp [groundArgs, argVars]
  | .var w :: rest, g, v => by
    unfold groundArgs argVars
    by_cases hw : w ∈ g
    · simp only [List.contains_iff_mem, hw, if_true, mem_groundArgs rest g v, List.mem_cons]
      constructor
      · rintro (h | h)
        · exact Or.inl h
        · exact Or.inr (Or.inr h)
      · rintro (h | rfl | h)
        · exact Or.inl h
        · exact Or.inl hw
        · exact Or.inr h
    · simp only [List.contains_iff_mem, hw, if_false, mem_groundArgs rest (g ++ [w]) v, List.mem_cons,
        List.mem_append, List.mem_singleton, List.not_mem_nil, or_false]
      constructor
      · rintro ((h | h) | h)
        · exact Or.inl h
        · exact Or.inr (Or.inl h)
        · exact Or.inr (Or.inr h)
      · rintro (h | h | h)
        · exact Or.inl (Or.inl h)
        · exact Or.inl (Or.inr h)
        · exact Or.inr h
  | .other :: rest, g, v => by
    unfold groundArgs argVars
    exact mem_groundArgs rest g v
  | .pat b :: rest, g, v => by
    unfold groundArgs argVars
    exact mem_groundArgs rest g v

/-- the relation occurrence of a body item resolves with the right arity -/
def Ev.relOk (ds : List Decl) (ev : Ev) : Prop :=
  ∀ o, ev.rel? = some o → ∃ d, findDecl ds o.1 = some d ∧ d.arity = o.2

theorem getRelation_ok_iff (ds : List Decl) (n : Name) (a : Nat) (u : Unit) :
    getRelation ds n a = .ok u ↔ ∃ d, findDecl ds n = some d ∧ d.arity = a := by
  unfold getRelation
  cases hf : findDecl ds n with
  | none => simp
  | some d =>
    by_cases ha : d.arity = a
    · simp [ha]
    · simp [ha]

/-- the position-independent conditions on a body item: its relation resolves, and (aggregations) the
aggregated variables are arguments of the aggregated relation -/
def Ev.localOk (ds : List Decl) (ev : Ev) : Prop := ev.relOk ds ∧ aggBoundOk ev = true

/-- item-local conditions of the HIR pass at a position where the variables of `g` are grounded -/
def Ev.okAt (ds : List Decl) (g : List Var) (ev : Ev) : Prop :=
  ev.localOk ds ∧ ev.binderVars.Nodup ∧ (∀ v ∈ ev.binderVars, v ∉ g ∧ v ∉ ev.argIdents) ∧
    ev.boundVars.Nodup ∧ ∀ v ∈ ev.boundVars, v ∉ g

theorem hirEv_ok_iff (ds : List Decl) (g : List Var) (ev : Ev) :
    (∃ g', hirEv ds g ev = .ok g') ↔ ev.okAt ds g := by
  cases ev with
  | clause rel args conds =>
    unfold hirEv Ev.okAt Ev.localOk Ev.relOk
    simp only [Ev.rel?, Ev.binderVars, Ev.argIdents, Option.some.injEq, aggBoundOk, Ev.boundVars, List.nodup_nil,
      List.not_mem_nil, false_imp_iff, implies_true, and_true]
    cases hg : getRelation ds rel args.length with
    | error e =>
      have hne : ¬ ∃ d, findDecl ds rel = some d ∧ d.arity = args.length := by
        intro h
        have := (getRelation_ok_iff ds rel args.length ()).2 h
        rw [hg] at this; cases this
      constructor
      · rintro ⟨g', h⟩; cases h
      · rintro ⟨h, _⟩; exact absurd (h _ rfl) hne
    | ok u =>
      have hd := (getRelation_ok_iff ds rel args.length u).1 hg
      simp only [extendBinders_ok_iff]
      constructor
      · rintro ⟨g', h1, h2, _⟩
        refine ⟨?_, h1, ?_⟩
        · intro o ho; subst ho; exact hd
        · intro v hv
          have := h2 v hv
          rw [mem_groundArgs] at this
          exact ⟨fun h => this (Or.inl h), fun h => this (Or.inr h)⟩
      · rintro ⟨_, h1, h2⟩
        refine ⟨_, h1, ?_, rfl⟩
        intro v hv
        rw [mem_groundArgs]
        rintro (h | h)
        · exact (h2 v hv).1 h
        · exact (h2 v hv).2 h
  | binder b =>
    unfold hirEv Ev.okAt Ev.localOk Ev.relOk
    simp only [Ev.rel?, Ev.binderVars, Ev.argIdents, extendGrounded_ok_iff, aggBoundOk, Ev.boundVars, List.nodup_nil,
      List.not_mem_nil, false_imp_iff, implies_true, and_true]
    constructor
    · rintro ⟨g', h1, h2, _⟩
      exact ⟨fun o ho => (by cases ho), h1, fun v hv => ⟨h2 v hv, by simp⟩⟩
    · rintro ⟨_, h1, h2⟩
      exact ⟨_, h1, fun v hv => (h2 v hv).1, rfl⟩
  | agg rel args pat bound =>
    unfold hirEv Ev.okAt Ev.localOk Ev.relOk
    simp only [Ev.rel?, Ev.binderVars, Ev.argIdents, Option.some.injEq, Ev.boundVars]
    cases hb : aggBoundOk (.agg rel args pat bound) with
    | false =>
      simp only [Bool.not_false, if_true]
      constructor
      · rintro ⟨g', h⟩; cases h
      · rintro ⟨⟨_, h⟩, _⟩; cases h
    | true =>
    simp only [Bool.not_true, Bool.false_eq_true, if_false, and_true]
    cases hbd : extendGrounded g bound with
    | error e =>
      constructor
      · rintro ⟨g', h⟩; cases h
      · rintro ⟨_, _, _, k1, k2⟩
        have := (extendGrounded_ok_iff bound g (g ++ bound)).2 ⟨k1, k2, rfl⟩
        rw [hbd] at this; cases this
    | ok gb =>
    obtain ⟨k1, k2, _⟩ := (extendGrounded_ok_iff bound g gb).1 hbd
    cases he : extendGrounded g pat.seen with
    | error e =>
      constructor
      · rintro ⟨g', h⟩; cases h
      · rintro ⟨_, h1, h2, _⟩
        have := (extendGrounded_ok_iff pat.seen g (g ++ pat.seen)).2 ⟨h1, fun v hv => (h2 v hv).1, rfl⟩
        rw [he] at this; cases this
    | ok g1 =>
      obtain ⟨h1, h2, _⟩ := (extendGrounded_ok_iff pat.seen g g1).1 he
      cases hg : getRelation ds rel args.length with
      | error e =>
        have hne : ¬ ∃ d, findDecl ds rel = some d ∧ d.arity = args.length := by
          intro h
          have := (getRelation_ok_iff ds rel args.length ()).2 h
          rw [hg] at this; cases this
        constructor
        · rintro ⟨g', h⟩; cases h
        · rintro ⟨h, _⟩; exact absurd (h _ rfl) hne
      | ok u =>
        have hd := (getRelation_ok_iff ds rel args.length u).1 hg
        constructor
        · intro _
          exact ⟨fun o ho => (by subst ho; exact hd), h1, fun v hv => ⟨h2 v hv, by simp⟩, k1, k2⟩
        · intro _
          exact ⟨g1, rfl⟩

theorem hirEv_mem (ds : List Decl) (g g' : List Var) (ev : Ev) (h : hirEv ds g ev = .ok g') (v : Var) :
    v ∈ g' ↔ v ∈ g ∨ v ∈ ev.grounds := by
  cases ev with
  | clause rel args conds =>
    simp only [hirEv] at h
    split at h
    · cases h
    · obtain ⟨_, _, rfl⟩ := (extendBinders_ok_iff _ _ _).1 h
      simp only [Ev.grounds, Ev.argIdents, Ev.binderVars, List.mem_append, mem_groundArgs]
      exact or_assoc
  | binder b =>
    simp only [hirEv] at h
    obtain ⟨_, _, rfl⟩ := (extendGrounded_ok_iff _ _ _).1 h
    simp [Ev.grounds, Ev.argIdents, Ev.binderVars]
  | agg rel args pat bound =>
    simp only [hirEv] at h
    split at h
    · cases h
    · split at h
      · cases h
      · split at h
        · cases h
        · rename_i g1 he
          split at h
          · cases h
          · cases h
            obtain ⟨_, _, rfl⟩ := (extendGrounded_ok_iff _ _ _).1 he
            simp [Ev.grounds, Ev.argIdents, Ev.binderVars]

theorem Ev.okAt_congr {ds : List Decl} {g g' : List Var} {ev : Ev} (h : ∀ v, v ∈ g ↔ v ∈ g') :
    ev.okAt ds g ↔ ev.okAt ds g' := by
  unfold Ev.okAt
  simp only [h]

/-- the conditions of the HIR pass over a body, by recursion over the body -/
def bodyOk (ds : List Decl) : List Var → List Ev → Prop
  | _, [] => True
  | g, ev :: rest => ev.okAt ds g ∧ bodyOk ds (g ++ ev.grounds) rest

theorem bodyOk_congr (ds : List Decl) : ∀ (evs : List Ev) (g g' : List Var), (∀ v, v ∈ g ↔ v ∈ g') →
    (bodyOk ds g evs ↔ bodyOk ds g' evs)
  | [], _, _, _ => Iff.rfl
  | ev :: rest, g, g', h => by
    unfold bodyOk
    rw [Ev.okAt_congr h, bodyOk_congr ds rest (g ++ ev.grounds) (g' ++ ev.grounds)]
    intro v
    simp only [List.mem_append, h]

theorem hirBody_ok_iff (ds : List Decl) : ∀ (evs : List Ev) (g : List Var),
    (∃ g', hirBody ds g evs = .ok g') ↔ bodyOk ds g evs
  | [], g => by simp [hirBody, bodyOk]
  | ev :: rest, g => by
    unfold hirBody bodyOk
    cases he : hirEv ds g ev with
    | error e =>
      have hne : ¬ ev.okAt ds g := by
        intro h
        obtain ⟨g', hg'⟩ := (hirEv_ok_iff ds g ev).2 h
        rw [he] at hg'; cases hg'
      constructor
      · rintro ⟨g', h⟩; cases h
      · rintro ⟨h, _⟩; exact absurd h hne
    | ok g1 =>
      have hok := (hirEv_ok_iff ds g ev).1 ⟨g1, he⟩
      have hm := hirEv_mem ds g g1 ev he
      have ih := hirBody_ok_iff ds rest g1
      have hc := bodyOk_congr ds rest g1 (g ++ ev.grounds) (by intro v; rw [hm v, List.mem_append])
      simp only [ih, hc, hok, true_and]

/-- the recursive conditions, unfolded into the positional form of the specification -/
theorem bodyOk_iff (ds : List Decl) : ∀ (evs : List Ev) (g : List Var),
    bodyOk ds g evs ↔ (∀ ev ∈ evs, ev.localOk ds) ∧
      ∀ pre ev post, evs = pre ++ ev :: post →
        ev.binderVars.Nodup ∧ (∀ v ∈ ev.binderVars, v ∉ g ++ pre.flatMap Ev.grounds ++ ev.argIdents) ∧
          ev.boundVars.Nodup ∧ ∀ v ∈ ev.boundVars, v ∉ g ++ pre.flatMap Ev.grounds
  | [], g => by
    unfold bodyOk
    simp
  | e :: rest, g => by
    unfold bodyOk
    rw [bodyOk_iff ds rest (g ++ e.grounds)]
    unfold Ev.okAt
    constructor
    · rintro ⟨⟨h1, h2, h3, h6, h7⟩, h4, h5⟩
      refine ⟨?_, ?_⟩
      · intro ev hev
        rcases List.mem_cons.1 hev with rfl | hev
        · exact h1
        · exact h4 ev hev
      · intro pre ev post heq
        cases pre with
        | nil =>
          simp only [List.nil_append, List.cons.injEq] at heq
          obtain ⟨rfl, rfl⟩ := heq
          refine ⟨h2, ?_, h6, ?_⟩
          · intro v hv
            simp only [List.flatMap_nil, List.append_nil, List.mem_append, not_or]
            exact h3 v hv
          · intro v hv
            simp only [List.flatMap_nil, List.append_nil]
            exact h7 v hv
        | cons e' pre' =>
          simp only [List.cons_append, List.cons.injEq] at heq
          obtain ⟨rfl, rfl⟩ := heq
          obtain ⟨k1, k2, k3, k4⟩ := h5 pre' ev post rfl
          refine ⟨k1, ?_, k3, ?_⟩
          · intro v hv
            have := k2 v hv
            simpa only [List.flatMap_cons, List.mem_append, not_or, and_assoc] using this
          · intro v hv
            have := k4 v hv
            simpa only [List.flatMap_cons, List.mem_append, not_or, and_assoc] using this
    · rintro ⟨h1, h2⟩
      refine ⟨⟨h1 e (List.mem_cons_self ..), ?_, ?_, ?_, ?_⟩, ?_, ?_⟩
      · exact (h2 [] e rest rfl).1
      · intro v hv
        have := (h2 [] e rest rfl).2.1 v hv
        simpa only [List.flatMap_nil, List.append_nil, List.mem_append, not_or] using this
      · exact (h2 [] e rest rfl).2.2.1
      · intro v hv
        have := (h2 [] e rest rfl).2.2.2 v hv
        simpa only [List.flatMap_nil, List.append_nil] using this
      · intro ev hev
        exact h1 ev (List.mem_cons_of_mem _ hev)
      · intro pre ev post heq
        obtain ⟨k1, k2, k3, k4⟩ := h2 (e :: pre) ev post (by rw [heq]; rfl)
        refine ⟨k1, ?_, k3, ?_⟩
        · intro v hv
          have := k2 v hv
          simpa only [List.flatMap_cons, List.mem_append, not_or, and_assoc] using this
        · intro v hv
          have := k4 v hv
          simpa only [List.flatMap_cons, List.mem_append, not_or, and_assoc] using this

theorem hirHeads_ok_iff (ds : List Decl) : ∀ (hs : List Head),
    hirHeads ds hs = .ok () ↔ ∀ h ∈ hs, ∃ d, findDecl ds h.rel = some d ∧ d.arity = h.nargs
  | [] => by simp [hirHeads]
  | h :: rest => by
    unfold hirHeads
    cases hg : getRelation ds h.rel h.nargs with
    | error e =>
      have hne : ¬ ∃ d, findDecl ds h.rel = some d ∧ d.arity = h.nargs := by
        intro hx
        have := (getRelation_ok_iff ds h.rel h.nargs ()).2 hx
        rw [hg] at this; cases this
      constructor
      · intro hx; cases hx
      · intro hx; exact absurd (hx h (List.mem_cons_self ..)) hne
    | ok u =>
      have hd := (getRelation_ok_iff ds h.rel h.nargs u).1 hg
      simp only [hirHeads_ok_iff ds rest, List.mem_cons, forall_eq_or_imp, hd, true_and]

theorem hirRule_ok_iff (ds : List Decl) (r : CoreRule) :
    hirRule ds r = .ok () ↔
      (∀ o ∈ r.occurrences, ∃ d, findDecl ds o.1 = some d ∧ d.arity = o.2) ∧
      (∀ ev ∈ r.body, aggBoundOk ev = true) ∧
      (∀ pre ev post, r.body = pre ++ ev :: post →
        ev.binderVars.Nodup ∧ (∀ v ∈ ev.binderVars, v ∉ pre.flatMap Ev.grounds ++ ev.argIdents) ∧
          ev.boundVars.Nodup ∧ ∀ v ∈ ev.boundVars, v ∉ pre.flatMap Ev.grounds) := by
  have hocc : (∀ o ∈ r.occurrences, ∃ d, findDecl ds o.1 = some d ∧ d.arity = o.2) ↔
      (∀ ev ∈ r.body, ev.relOk ds) ∧ ∀ h ∈ r.heads, ∃ d, findDecl ds h.rel = some d ∧ d.arity = h.nargs := by
    unfold CoreRule.occurrences Ev.relOk
    simp only [List.mem_append, List.mem_filterMap, List.mem_map]
    constructor
    · intro h
      refine ⟨fun ev hev o ho => h o (Or.inl ⟨ev, hev, ho⟩), fun hd hhd => h (hd.rel, hd.nargs) (Or.inr ⟨hd, hhd, rfl⟩)⟩
    · rintro ⟨h1, h2⟩ o (⟨ev, hev, ho⟩ | ⟨hd, hhd, rfl⟩)
      · exact h1 ev hev o ho
      · exact h2 hd hhd
  have hb := (hirBody_ok_iff ds r.body []).trans (bodyOk_iff ds r.body [])
  simp only [List.nil_append] at hb
  rw [hocc]
  unfold hirRule
  cases hbody : hirBody ds [] r.body with
  | error e =>
    constructor
    · intro h; cases h
    · rintro ⟨⟨h1, _⟩, h3, h2⟩
      obtain ⟨g', hg'⟩ := hb.2 ⟨fun ev hev => ⟨h1 ev hev, h3 ev hev⟩, h2⟩
      rw [hbody] at hg'; cases hg'
  | ok g1 =>
    obtain ⟨k1, k2⟩ := hb.1 ⟨g1, hbody⟩
    simp only [hirHeads_ok_iff]
    constructor
    · intro h; exact ⟨⟨fun ev hev => (k1 ev hev).1, h⟩, fun ev hev => (k1 ev hev).2, k2⟩
    · rintro ⟨⟨_, h⟩, _⟩; exact h

theorem hirRules_ok_iff' (ds : List Decl) : ∀ (rules : List CoreRule),
    hirRules ds rules = .ok () ↔ ∀ r ∈ rules, hirRule ds r = .ok ()
  | [] => by simp [hirRules]
  | r :: rest => by
    unfold hirRules
    cases hr : hirRule ds r with
    | error e =>
      constructor
      · intro h; cases h
      · intro h
        have := h r (List.mem_cons_self ..)
        rw [hr] at this; cases this
    | ok u =>
      cases u
      simp only [hirRules_ok_iff' ds rest, List.mem_cons, forall_eq_or_imp, hr, true_and]

end AscentVerif.Check
