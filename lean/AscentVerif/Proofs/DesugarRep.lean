import AscentVerif.Proofs.SurfaceDefs
import AscentVerif.Proofs.DesugarRepAux
import AscentVerif.Proofs.DesugarRepArgs
/-!
# Pass 6 of the desugaring (repeated variables / arguments mentioning a column of the same clause) and the final
conversion to core items preserve the documented meaning
-/
namespace AscentVerif.Surface
open AscentVerif AscentVerif.Engine

variable {E B G P A : Type}

/-! ## the conversion to core items succeeds -/

theorem coreShaped_tail {f : FItem E B G P A} {fs : List (FItem E B G P A)} (h : CoreShaped (f :: fs)) : CoreShaped fs :=
  fun f' hf' => h f' (List.mem_cons_of_mem _ hf')

theorem coreShaped_clause {r : RelId} {as : List (SArg E P)} {cs : List (Cond E B P)} {fs : List (FItem E B G P A)}
    (h : CoreShaped (FItem.clause r as cs :: fs)) : ∀ a ∈ as, IsVE a :=
  (h _ (by simp)).1 r as cs rfl

theorem toCore_clause (ops : Ops E B G A) (r : RelId) (i : Nat) (as : List (SArg E P)) (g : Grounded) (c : Nat)
    (conds : List (Cond E B P)) (has : ∀ a ∈ as, IsVE a) :
    FItem.toCore (FItem.clause r (repArgs ops i as g c).args ((repArgs ops i as g c).conds ++ conds) : FItem E B G P A) =
      some (Item.clause r ((repArgs ops i as g c).args.map SArg.toArg) ((repArgs ops i as g c).conds ++ conds)) := by
  simp only [FItem.toCore, mapM_toCore_of_VE _ (repArgs_args_VE ops i as g c has), Option.map_some]

theorem rep_toCore_isSome_gen (ops : Ops E B G A) (fs : List (FItem E B G P A)) (hshape : CoreShaped fs) :
    ∀ (i : Nat) (g : Grounded) (c : Nat), ∃ items, (repItems ops fs i g c).1.mapM FItem.toCore = some items := by
  induction fs with
  | nil => intro i g c; exact ⟨[], by simp [repItems]⟩
  | cons f fs ih =>
    intro i g c
    have ih' := ih (coreShaped_tail hshape)
    cases f with
    | clause r as conds =>
      obtain ⟨its, hits⟩ := ih' (i + 1) (repArgs ops i as g c).g (repArgs ops i as g c).c
      exact ⟨_, mapM_cons_eq_some.mpr ⟨_, its, toCore_clause ops r i as g c conds (coreShaped_clause hshape), hits, rfl⟩⟩
    | cond cd =>
      cases cd with
      | ifc b =>
        obtain ⟨its, hits⟩ := ih' (i + 1) g c
        exact ⟨_, mapM_cons_eq_some.mpr ⟨_, its, rfl, hits, rfl⟩⟩
      | letc v e =>
        obtain ⟨its, hits⟩ := ih' (i + 1) (g.orInsert v i) c
        exact ⟨_, mapM_cons_eq_some.mpr ⟨_, its, rfl, hits, rfl⟩⟩
      | ifLet p vs e =>
        obtain ⟨its, hits⟩ := ih' (i + 1) (orInsertAll g vs i) c
        exact ⟨_, mapM_cons_eq_some.mpr ⟨_, its, rfl, hits, rfl⟩⟩
    | gen v gn =>
      obtain ⟨its, hits⟩ := ih' (i + 1) (g.orInsert v i) c
      exact ⟨_, mapM_cons_eq_some.mpr ⟨_, its, rfl, hits, rfl⟩⟩
    | agg a =>
      obtain ⟨its, hits⟩ := ih' (i + 1) (orInsertAll g a.outs i) c
      exact ⟨_, mapM_cons_eq_some.mpr ⟨_, its, rfl, hits, rfl⟩⟩
    | neg r as => exact absurd rfl ((hshape _ (by simp)).2 r as)

/-- the repeated-variable pass never leaves a form behind on core-shaped bodies -/
theorem rep_toCore_isSome (ops : Ops E B G A) (fs : List (FItem E B G P A)) (c : Nat) (hshape : CoreShaped fs) :
    ((repItems ops fs 0 [] c).1.mapM FItem.toCore).isSome = true := by
  obtain ⟨items, h⟩ := rep_toCore_isSome_gen ops fs hshape 0 [] c
  rw [h]; rfl

/-! ## correctness -/

/-- the two directions, from a pair of start environments -/
def RepOK (I : Interp E B G P A) (D : DB) (agg : RelId → List Tuple) (fs : List (FItem E B G P A))
    (items : List (Item E B G P A)) (ρ σ : Env) : Prop :=
  (∀ ρ', Sat I D agg items ρ ρ' → ∃ σ', SatF I D agg fs σ σ' ∧ AgreeOff isRep ρ' σ') ∧
  (∀ σ', SatF I D agg fs σ σ' → ∃ ρ', Sat I D agg items ρ ρ' ∧ AgreeOff isRep ρ' σ')

/-- an item that the pass leaves alone and whose documented meaning is the core one -/
theorem repOK_step {I : Interp E B G P A} {ops : Ops E B G A} {varsB : B → List Var} {varsG : G → List Var}
    (hV : VarsSound I ops.varsE varsB varsG) {D : DB} {agg : RelId → List Tuple}
    (f : FItem E B G P A) (it : Item E B G P A) (fs : List (FItem E B G P A)) (its : List (Item E B G P A))
    (hstep : ∀ ρ ρ', StepF I D agg f ρ ρ' ↔ Step I D agg it ρ ρ')
    (hment : ∀ v ∈ Item.mentions ops.varsE varsB varsG it, ¬ isRep v)
    {g : Grounded} {i c : Nat} {ρ σ : Env}
    (hag : AgreeOff isRep ρ σ) (h1 : Inv1 c ρ) (h2 : Inv2 g i σ)
    (ih : ∀ ρ₁ σ₁, AgreeOff isRep ρ₁ σ₁ → Inv1 c ρ₁ → Inv2 (orInsertAll g (Item.binds [] it) i) (i + 1) σ₁ →
      RepOK I D agg fs its ρ₁ σ₁) :
    RepOK I D agg (f :: fs) (it :: its) ρ σ := by
  constructor
  · intro ρ' hs
    obtain ⟨ρ₁, hst, hrest⟩ := sat_cons_iff.mp hs
    obtain ⟨n, rfl, hst', hn, hb⟩ := step_transfer hV it hag hment hst
    obtain ⟨σ', hs', hag'⟩ := (ih (n ++ ρ) (n ++ σ) (hag.append n) (h1.append hn) (h2.step fun v hv => (hb v hv).2)).1 ρ' hrest
    exact ⟨σ', ⟨n ++ σ, (hstep _ _).mpr hst', hs'⟩, hag'⟩
  · intro σ' hs
    obtain ⟨σ₁, hst, hrest⟩ := hs
    obtain ⟨n, rfl, hst', hn, hb⟩ := step_transfer hV it hag.symm hment ((hstep _ _).mp hst)
    obtain ⟨ρ', hs', hag'⟩ := (ih (n ++ ρ) (n ++ σ) (hag.append n) (h1.append hn) (h2.step fun v hv => (hb v hv).1)).2 σ' hrest
    exact ⟨ρ', sat_cons_iff.mpr ⟨n ++ ρ, hst', hs'⟩, hag'⟩

theorem agg_mentions_sub (varsE : E → List Var) (varsB : B → List Var) (varsG : G → List Var) (a : AggClause E A) :
    ∀ v ∈ Item.mentions varsE varsB varsG (Item.agg a : Item E B G P A),
      v ∈ FItem.mentions varsE varsB varsG (FItem.agg a : FItem E B G P A) := by
  intro v hv
  simp only [Item.mentions, FItem.mentions, List.mem_append, List.mem_flatMap] at hv ⊢
  rcases hv with hv | ⟨x, hx, hvx⟩
  · exact .inl (.inl hv)
  · refine .inr ⟨x, hx, ?_⟩
    cases x <;> simp_all [AggArg.keyVars]

theorem rep_correct_gen {I : Interp E B G P A} {ops : Ops E B G A} {varsB : B → List Var} {varsG : G → List Var}
    (hS : SugarSound I ops) (hV : VarsSound I ops.varsE varsB varsG) (D : DB) (agg : RelId → List Tuple) :
    ∀ (fs : List (FItem E B G P A)) (i : Nat) (g : Grounded) (c : Nat) (ρ σ : Env) (items : List (Item E B G P A)),
      CoreShaped fs →
      (∀ f ∈ fs, ∀ v ∈ FItem.mentions ops.varsE varsB varsG f, ¬ isRep v) →
      (∀ rel args conds, FItem.clause rel args conds ∈ fs → ExprScopedArgs ops.varsE args) →
      (repItems ops fs i g c).1.mapM FItem.toCore = some items →
      AgreeOff isRep ρ σ → Inv1 c ρ → Inv2 g i σ →
      RepOK I D agg fs items ρ σ := by
  intro fs
  induction fs with
  | nil =>
    intro i g c ρ σ items _ _ _ hd hag _ _
    simp only [repItems, List.mapM_nil, Option.pure_def, Option.some.injEq] at hd
    subst hd
    constructor
    · intro ρ' hs
      rw [sat_nil_iff] at hs
      subst hs
      exact ⟨σ, rfl, hag⟩
    · intro σ' hs
      have : σ' = σ := hs
      subst this
      exact ⟨ρ, .nil _, hag⟩
  | cons f fs ih =>
    intro i g c ρ σ items hshape hres hws hd hag h1 h2
    have hshape' := coreShaped_tail hshape
    have hres' : ∀ f' ∈ fs, ∀ v ∈ FItem.mentions ops.varsE varsB varsG f', ¬ isRep v :=
      fun f' hf' => hres f' (List.mem_cons_of_mem _ hf')
    have hws' : ∀ rel args conds, FItem.clause rel args conds ∈ fs → ExprScopedArgs ops.varsE args :=
      fun rel args conds h => hws rel args conds (List.mem_cons_of_mem _ h)
    have hf := hres f (by simp)
    cases f with
    | clause r as conds =>
      have hVE : ∀ a ∈ as, IsVE a := coreShaped_clause hshape
      have hd' : (FItem.clause r (repArgs ops i as g c).args ((repArgs ops i as g c).conds ++ conds) ::
          (repItems ops fs (i + 1) (repArgs ops i as g c).g (repArgs ops i as g c).c).1).mapM FItem.toCore = some items := hd
      obtain ⟨it, its, hit, hits, rfl⟩ := mapM_cons_eq_some.mp hd'
      rw [toCore_clause ops r i as g c conds hVE, Option.some.injEq] at hit
      subst hit
      -- the arguments
      have hargs : ∀ t, RepArgsOK I i ρ as t (repArgs ops i as g c) ρ σ := by
        intro t
        apply repArgs_correct hS hV i ρ as t g c ρ σ hVE
        · intro a ha v hv
          apply hf
          simp only [FItem.mentions, List.mem_append, List.mem_flatMap]
          exact .inl ⟨a, ha, hv⟩
        · intro pre e post he v hv hpost
          exact .inl (hws r as conds (by simp) pre e post he v hv hpost)
        · exact hag
        · exact h1
        · exact fun v j h => ⟨Nat.le_of_lt (h2 v j h).1, (h2 v j h).2⟩
        · exact fun v hv _ => hag v hv
      have hcment : ∀ v ∈ conds.flatMap (Cond.vars ops.varsE varsB), ¬ isRep v := by
        intro v hv
        apply hf
        simp only [FItem.mentions, List.mem_append]
        exact .inr hv
      have hifc := repArgs_conds_ifc ops i as g c
      -- the rest of the body, after the clause
      have hrest : ∀ ρ₁ σ₁ n, RepPost i (repArgs ops i as g c) ρ₁ σ₁ → (∀ p ∈ n, ¬ isRep p.1) →
          RepOK I D agg fs its (n ++ ρ₁) (n ++ σ₁) := by
        intro ρ₁ σ₁ n hpost hn
        apply ih (i + 1) _ _ (n ++ ρ₁) (n ++ σ₁) its hshape' hres' hws' hits (hpost.1.append n) (hpost.2.1.append hn)
        intro v j hl
        exact ⟨Nat.lt_succ_of_le (hpost.2.2 v j hl).1, get?_append_ne_none (hpost.2.2 v j hl).2⟩
      constructor
      · intro ρ' hs
        obtain ⟨ρ₂, ⟨t, ρ₁, hD, hm, hc⟩, hrest'⟩ := sat_cons_iff.mp hs
        rw [satConds_append] at hc
        cases hc1 : satConds I (repArgs ops i as g c).conds ρ₁ with
        | none => rw [hc1] at hc; cases hc
        | some ρ₁' =>
          rw [hc1, Option.bind_some] at hc
          obtain ⟨rfl, htests⟩ := (satConds_tests I _ hifc ρ₁ ρ₁').mp hc1
          obtain ⟨σ₁, hms, hpost⟩ := (hargs t).1 ρ₁' hm htests
          obtain ⟨n, rfl, hcσ, hn⟩ := conds_transfer hV conds hpost.1 hcment hc
          obtain ⟨σ', hs', hag'⟩ := (hrest ρ₁' σ₁ n hpost hn).1 ρ' hrest'
          exact ⟨σ', ⟨n ++ σ₁, ⟨t, σ₁, hD, hms, hcσ⟩, hs'⟩, hag'⟩
      · intro σ' hs
        obtain ⟨σ₂, ⟨t, σ₁, hD, hms, hc⟩, hrest'⟩ := hs
        obtain ⟨ρ₁, hm, htests, hpost⟩ := (hargs t).2 σ₁ hms
        obtain ⟨n, rfl, hcρ, hn⟩ := conds_transfer hV conds hpost.1.symm hcment hc
        obtain ⟨ρ', hs', hag'⟩ := (hrest ρ₁ σ₁ n hpost hn).2 σ' hrest'
        refine ⟨ρ', sat_cons_iff.mpr ⟨n ++ ρ₁, ⟨t, ρ₁, hD, hm, ?_⟩, hs'⟩, hag'⟩
        rw [satConds_append, (satConds_tests I _ hifc ρ₁ ρ₁).mpr ⟨rfl, htests⟩, Option.bind_some]
        exact hcρ
    | cond cd =>
      cases cd with
      | ifc b =>
        have hd' : (FItem.cond (Cond.ifc b) :: (repItems ops fs (i + 1) g c).1).mapM FItem.toCore = some items := hd
        obtain ⟨it, its, hit, hits, rfl⟩ := mapM_cons_eq_some.mp hd'
        cases hit
        exact repOK_step hV _ (Item.cond (Cond.ifc b)) fs its (fun _ _ => Iff.rfl) hf hag h1 h2
          (fun ρ₁ σ₁ ha hb hc => ih (i + 1) _ c ρ₁ σ₁ its hshape' hres' hws' hits ha hb hc)
      | letc v e =>
        have hd' : (FItem.cond (Cond.letc v e) :: (repItems ops fs (i + 1) (g.orInsert v i) c).1).mapM FItem.toCore = some items := hd
        obtain ⟨it, its, hit, hits, rfl⟩ := mapM_cons_eq_some.mp hd'
        cases hit
        exact repOK_step hV _ (Item.cond (Cond.letc v e)) fs its (fun _ _ => Iff.rfl) hf hag h1 h2
          (fun ρ₁ σ₁ ha hb hc => ih (i + 1) _ c ρ₁ σ₁ its hshape' hres' hws' hits ha hb hc)
      | ifLet p vs e =>
        have hd' : (FItem.cond (Cond.ifLet p vs e) :: (repItems ops fs (i + 1) (orInsertAll g vs i) c).1).mapM FItem.toCore = some items := hd
        obtain ⟨it, its, hit, hits, rfl⟩ := mapM_cons_eq_some.mp hd'
        cases hit
        exact repOK_step hV _ (Item.cond (Cond.ifLet p vs e)) fs its (fun _ _ => Iff.rfl) hf hag h1 h2
          (fun ρ₁ σ₁ ha hb hc => ih (i + 1) _ c ρ₁ σ₁ its hshape' hres' hws' hits ha hb hc)
    | gen v gn =>
      have hd' : (FItem.gen v gn :: (repItems ops fs (i + 1) (g.orInsert v i) c).1).mapM FItem.toCore = some items := hd
      obtain ⟨it, its, hit, hits, rfl⟩ := mapM_cons_eq_some.mp hd'
      cases hit
      exact repOK_step hV _ (Item.gen v gn) fs its (fun _ _ => Iff.rfl) hf hag h1 h2
        (fun ρ₁ σ₁ ha hb hc => ih (i + 1) _ c ρ₁ σ₁ its hshape' hres' hws' hits ha hb hc)
    | agg a =>
      have hd' : (FItem.agg a :: (repItems ops fs (i + 1) (orInsertAll g a.outs i) c).1).mapM FItem.toCore = some items := hd
      obtain ⟨it, its, hit, hits, rfl⟩ := mapM_cons_eq_some.mp hd'
      cases hit
      exact repOK_step hV _ (Item.agg a) fs its (fun _ _ => Iff.rfl)
        (fun v hv => hf v (agg_mentions_sub ops.varsE varsB varsG a v hv)) hag h1 h2
        (fun ρ₁ σ₁ ha hb hc => ih (i + 1) _ c ρ₁ σ₁ its hshape' hres' hws' hits ha hb hc)
    | neg r as => exact absurd rfl ((hshape _ (by simp)).2 r as)

/-- a core-shaped flat body (documented meaning: every expression argument sees the earlier columns of its clause) and the core
items after the repeated-variable pass are satisfied by the same environments, up to the generated variables `x_N` -/
theorem rep_correct (I : Interp E B G P A) (ops : Ops E B G A) {varsB : B → List Var} {varsG : G → List Var}
    (hS : SugarSound I ops) (hV : VarsSound I ops.varsE varsB varsG) (D : DB) (agg : RelId → List Tuple)
    (fs : List (FItem E B G P A)) (c : Nat) (items : List (Item E B G P A))
    (hshape : CoreShaped fs)
    (hres : ∀ f ∈ fs, ∀ v ∈ FItem.mentions ops.varsE varsB varsG f, ¬ isRep v)
    (hws : ∀ rel args conds, FItem.clause rel args conds ∈ fs → ExprScopedArgs ops.varsE args)
    (hd : (repItems ops fs 0 [] c).1.mapM FItem.toCore = some items) :
    (∀ ρ', Sat I D agg items [] ρ' → ∃ σ', SatF I D agg fs [] σ' ∧ AgreeOff isRep ρ' σ') ∧
    (∀ σ', SatF I D agg fs [] σ' → ∃ ρ', Sat I D agg items [] ρ' ∧ AgreeOff isRep ρ' σ') :=
  rep_correct_gen hS hV D agg fs 0 [] c [] [] items hshape hres hws hd (fun _ _ => rfl) (fun _ _ => rfl)
    (fun _ _ h => by cases h)

end AscentVerif.Surface

section
open AscentVerif.Surface
#print axioms rep_correct
#print axioms rep_toCore_isSome
end
