import AscentVerif.Model.Engine
/-!
# Pure list lemmas about `versionsBase` (step 1 of the C01 proof)
-/
namespace AscentVerif.Engine
open AscentVerif

/-- variant `k` of `n`: `Total^k, Delta, TotalDelta^(n-k-1)` -/
def vk (n k : Nat) : List Ver :=
  List.replicate k Ver.total ++ [Ver.delta] ++ List.replicate (n - k - 1) Ver.totalDelta

theorem versionsBase_eq_vk (n : Nat) : versionsBase n = (List.range n).map (vk n) := by
  induction n with
  | zero => rfl
  | succ n ih =>
    rw [versionsBase, ih, List.range_succ, List.map_append, List.map_map]
    congr 1
    · apply List.map_congr_left
      intro k hk
      have hk' : k < n := List.mem_range.mp hk
      have e : n + 1 - k - 1 = (n - k - 1) + 1 := by omega
      simp only [Function.comp, vk, e, List.replicate_succ', List.append_assoc]
    · simp [vk]

theorem vk_zero (n : Nat) : vk (n + 1) 0 = Ver.delta :: List.replicate n Ver.totalDelta := by
  simp [vk]

theorem vk_succ (n k : Nat) : vk (n + 1) (k + 1) = Ver.total :: vk n k := by
  simp [vk, List.replicate_succ]

/-- cons-recursive characterisation of the variants -/
theorem mem_versionsBase_succ (n : Nat) (vs : List Ver) :
    vs ∈ versionsBase (n + 1) ↔
      vs = Ver.delta :: List.replicate n Ver.totalDelta ∨ ∃ v ∈ versionsBase n, vs = Ver.total :: v := by
  rw [versionsBase_eq_vk, versionsBase_eq_vk, List.range_succ_eq_map]
  simp only [List.map_cons, List.map_map, List.mem_cons, List.mem_map, Function.comp, vk_zero]
  constructor
  · rintro (h | ⟨k, hk, rfl⟩)
    · exact .inl h
    · exact .inr ⟨vk n k, ⟨k, hk, rfl⟩, vk_succ n k⟩
  · rintro (h | ⟨v, ⟨k, hk, rfl⟩, rfl⟩)
    · exact .inl h
    · exact .inr ⟨k, hk, (vk_succ n k)⟩

theorem versionsBase_zero : versionsBase 0 = [] := rfl

theorem length_of_mem_versionsBase : ∀ (n : Nat) (vs : List Ver), vs ∈ versionsBase n → vs.length = n
  | 0, vs, h => by simp [versionsBase] at h
  | n + 1, vs, h => by
    rcases (mem_versionsBase_succ n vs).mp h with rfl | ⟨v, hv, rfl⟩
    · simp
    · simp [length_of_mem_versionsBase n v hv]

end AscentVerif.Engine
