import AscentVerif.Proofs.TrRelCollapseMerge
/-!
# Pure relational facts about the result of `merge_multiple` (`C9` / `R9`)

`c3`, `r3` are the two stored relations when `merge_multiple(X, Y, M)` starts (after the
`add_set_connection(X, Y)` of the collapse branch).  Nothing here mentions the data structure.
-/
namespace AscentVerif.TrRel

section
variable {c3 r3 : Nat → Nat → Prop} {M : Nat → Prop} {X Y : Nat}

theorem Fix_keep {cond : Nat → Prop} {r : Nat → Nat → Prop} {z w : Nat} (h : r z w) (hw : Clean M Y w) :
    Fix cond M X Y r z w := by
  unfold Fix
  by_cases hc : cond z
  · exact Or.inl ⟨hc, Or.inl ⟨h, hw.1, hw.2⟩⟩
  · exact Or.inr ⟨hc, h⟩

theorem Fix_new {cond : Nat → Prop} {r : Nat → Nat → Prop} {z : Nat} (h : cond z) : Fix cond M X Y r z X :=
  Or.inl ⟨h, Or.inr rfl⟩

theorem Fix_elim {cond : Nat → Prop} {r : Nat → Nat → Prop} {z w : Nat} (h : Fix cond M X Y r z w) :
    r z w ∨ (cond z ∧ w = X) := by
  rcases h with ⟨hc, ⟨h, _⟩ | h⟩ | ⟨_, h⟩
  · exact Or.inl h
  · exact Or.inr ⟨hc, h⟩
  · exact Or.inl h

theorem Fix_dirty {cond : Nat → Prop} {r : Nat → Nat → Prop} {z w : Nat} (h : Fix cond M X Y r z w)
    (hw : ¬ Clean M Y w) (hwX : w ≠ X) : ¬ cond z ∧ r z w := by
  rcases h with ⟨_, ⟨_, h1, h2⟩ | h⟩ | h
  · exact absurd ⟨h1, h2⟩ hw
  · exact absurd h hwX
  · exact h

/-- pairs between non-absorbed ids survive `merge_multiple` (`set_connections`) -/
theorem C9_keep {a b : Nat} (h : c3 a b) (ha : Clean M Y a) (hb : Clean M Y b) : C9 c3 r3 M X Y a b :=
  ⟨ha, Fix_keep (Fix_keep h hb) hb, fun _ => hb⟩

/-- pairs between non-absorbed ids survive `merge_multiple` (`reverse_set_connections`) -/
theorem R9_keep {a b : Nat} (h : r3 a b) (ha : Clean M Y a) (hb : Clean M Y b) : R9 c3 r3 M X Y a b :=
  ⟨ha, Fix_keep (Fix_keep h hb) hb, fun _ => hb⟩

/-- everything `Y` pointed to gets `X` as a reverse connection -/
theorem R9_new {b : Nat} (hX : Clean M Y X) (h : c3 Y b) (hb : Clean M Y b) : R9 c3 r3 M X Y b X :=
  ⟨hb, Fix_new ⟨Fix_keep h hb, hb.1⟩, fun _ => hX⟩

/-- `set_connections` mentions no absorbed id afterwards -/
theorem C9_clean (hX : Clean M Y X) (H1 : ∀ a b, c3 a b → ¬ Clean M Y b → Clean M Y a → a ≠ X → r3 X a) {a b : Nat}
    (h : C9 c3 r3 M X Y a b) : Clean M Y a ∧ Clean M Y b := by
  obtain ⟨ha, h7, hx⟩ := h
  refine ⟨ha, Classical.byContradiction fun hb => ?_⟩
  have haX : a ≠ X := fun e => hb (hx e)
  have hbX : b ≠ X := fun e => hb (e ▸ hX)
  obtain ⟨_, h5⟩ := Fix_dirty h7 hb hbX
  obtain ⟨hn5, h3⟩ := Fix_dirty h5 hb hbX
  exact hn5 ⟨Fix_keep (H1 a b h3 hb ha haX) ha, ha.1⟩

/-- `reverse_set_connections` mentions no absorbed id afterwards -/
theorem R9_clean (hX : Clean M Y X) (H2 : ∀ a b, r3 a b → ¬ Clean M Y b → Clean M Y a → a ≠ X → c3 Y a) {a b : Nat}
    (h : R9 c3 r3 M X Y a b) : Clean M Y a ∧ Clean M Y b := by
  obtain ⟨ha, h6, hx⟩ := h
  refine ⟨ha, Classical.byContradiction fun hb => ?_⟩
  have haX : a ≠ X := fun e => hb (hx e)
  have hbX : b ≠ X := fun e => hb (e ▸ hX)
  obtain ⟨hn6, h4⟩ := Fix_dirty h6 hb hbX
  obtain ⟨_, h3⟩ := Fix_dirty h4 hb hbX
  exact hn6 ⟨Fix_keep (H2 a b h3 hb ha haX) ha, ha.1⟩

/-- upper bound: the fixing loops only add pairs justified by a transitive relation containing both maps and the cycle -/
theorem C7_R6_le {T : Nat → Nat → Prop} (htrans : ∀ a b c, T a b → T b c → T a c) (hc : ∀ a b, c3 a b → T a b)
    (hr : ∀ a b, r3 a b → T b a) (hXY : T X Y) (hYX : T Y X) :
    (∀ z w, C7 c3 r3 M X Y z w → T z w) ∧ (∀ z w, R6 c3 r3 M X Y z w → T w z) := by
  have h4 : ∀ z w, R4 c3 r3 M X Y z w → T w z := by
    intro z w h
    rcases Fix_elim h with h | ⟨⟨h, _⟩, rfl⟩
    · exact hr z w h
    · exact hc _ _ h
  have h5 : ∀ z w, C5 c3 r3 M X Y z w → T z w := by
    intro z w h
    rcases Fix_elim h with h | ⟨⟨h, _⟩, rfl⟩
    · exact hc z w h
    · exact h4 _ _ h
  have h6 : ∀ z w, R6 c3 r3 M X Y z w → T w z := by
    intro z w h
    rcases Fix_elim h with h | ⟨⟨h, _⟩, rfl⟩
    · exact h4 z w h
    · exact htrans _ _ _ hXY (h5 _ _ h)
  refine ⟨?_, h6⟩
  intro z w h
  rcases Fix_elim h with h | ⟨⟨h, _⟩, rfl⟩
  · exact h5 z w h
  · exact htrans _ _ _ (h6 _ _ h) hYX

end

end AscentVerif.TrRel
