import AscentVerif.Proofs.TrRelCollapseNode
/-!
# `add_set_connection` without any assumption on the two maps

`ConnPost`: what `add_set_connection(f, to)` (for `f ≠ to`, edge not yet stored) guarantees about
its result on an ARBITRARY state — in particular on the deliberately de-mirrored state on which the
collapse branch of `add` calls it, and on states whose diagonal entries are junk.
Upper bounds come from `addSetConnection_le`.
-/
namespace AscentVerif.TrRel

/-! ## well-formedness (duplicate-free keys and members) is kept by every map primitive -/

theorem MapOk.orDefault {m : NMap} (h : MapOk m) (k : Nat) : MapOk (entryOrDefault m k).1 ∧ (entryOrDefault m k).2.Nodup := by
  unfold entryOrDefault
  cases hk : alGet m k with
  | some s => exact ⟨h, h.2 k s hk⟩
  | none => exact ⟨h.alSet k List.nodup_nil, List.nodup_nil⟩

theorem MapOk.entryInsert {m : NMap} (h : MapOk m) (k x : Nat) : MapOk (entryInsert m k x).1 := by
  unfold TrRel.entryInsert
  exact (h.orDefault k).1.alSet _ (nodup_nsInsert (h.orDefault k).2 x)

theorem MapOk.entryExtend {m : NMap} (h : MapOk m) (k : Nat) (xs : List Nat) : MapOk (entryExtend m k xs) := by
  unfold TrRel.entryExtend
  exact (h.orDefault k).1.alSet _ (nodup_nsExtend (h.orDefault k).2 xs)

theorem MapOk.foldl_insert (l : List Nat) (to : Nat) {m : NMap} (h : MapOk m) :
    MapOk (l.foldl (fun c z => (TrRel.entryInsert c z to).1) m) := by
  induction l generalizing m with
  | nil => exact h
  | cons z t ih => simp only [List.foldl_cons]; exact ih (h.entryInsert z to)

theorem MapOk.foldl_insert_val (l : List Nat) (f : Nat) {m : NMap} (h : MapOk m) :
    MapOk (l.foldl (fun c y' => (TrRel.entryInsert c y' f).1) m) := MapOk.foldl_insert l f h

/-- both maps are well formed -/
def KeysOk (t : TrRel) : Prop := MapOk t.conn ∧ MapOk t.rconn

theorem Core.keysOk {t : TrRel} {ps : List (Int × Int)} (C : Core t ps) : KeysOk t :=
  ⟨⟨C.conn_keys, C.conn_vals⟩, ⟨C.rconn_keys, C.rconn_vals⟩⟩

theorem addOneConnection_keys {t : TrRel} (h : KeysOk t) (f to : Nat) : KeysOk (t.addOneConnection f to).1 := by
  unfold TrRel.addOneConnection
  have hc := h.1.entryInsert f to
  rcases hei : TrRel.entryInsert t.conn f to with ⟨conn1, isNew⟩
  rw [hei] at hc
  cases isNew
  · exact ⟨hc, h.2⟩
  · exact ⟨hc, h.2.entryInsert to f⟩

theorem foldl_addOne_keys (xs ys : List Nat) {t : TrRel} (h : KeysOk t) :
    KeysOk (xs.foldl (fun t x' => ys.foldl (fun t y' => (t.addOneConnection x' y').1) t) t) := by
  induction xs generalizing t with
  | nil => exact h
  | cons x rest ih =>
    simp only [List.foldl_cons]
    apply ih
    clear ih
    induction ys generalizing t with
    | nil => exact h
    | cons y rest' ih' => simp only [List.foldl_cons]; exact ih' (addOneConnection_keys h x y)

theorem isSome_alGet_entryExtend (m : NMap) (k : Nat) (xs : List Nat) : (alGet (entryExtend m k xs) k).isSome = true := by
  unfold entryExtend
  simp only
  rw [alGet_alSet, if_pos rfl]; rfl

/-! ## the off-diagonal partial mirror -/

/-- every stored connection between two different ids, not touching the two temporarily emptied
entries, has its reverse stored -/
def PMirror' (t : TrRel) (f to : Nat) : Prop := ∀ a b, a ≠ b → a ≠ to → b ≠ f → rel t.conn a b → rel t.rconn b a

theorem addOneConnection_pmirror' {t : TrRel} {f to : Nat} (x y : Nat) (h : PMirror' t f to) :
    PMirror' (t.addOneConnection x y).1 f to := by
  intro a b hab ha hb hr
  unfold TrRel.addOneConnection at hr ⊢
  have hnew := entryInsert_snd t.conn x y
  have hrel := rel_entryInsert t.conn x y a b
  rcases hei : entryInsert t.conn x y with ⟨conn1, isNew⟩
  rw [hei] at hr hnew hrel
  cases isNew with
  | false =>
    simp only at hr ⊢
    have hold : rel t.conn x y := by
      apply Classical.byContradiction; intro hn
      have := hnew.mpr hn; simp at this
    rcases hrel.mp hr with h' | ⟨rfl, rfl⟩
    · exact h a b hab ha hb h'
    · exact h a b hab ha hb hold
  | true =>
    simp only at hr ⊢
    rcases hrel.mp hr with h' | ⟨rfl, rfl⟩
    · exact rel_entryInsert_mono _ _ (h a b hab ha hb h')
    · exact (rel_entryInsert _ _ _ _ _).mpr (Or.inr ⟨rfl, rfl⟩)

theorem foldl_addOne_pmirror' (xs ys : List Nat) {t : TrRel} {f to : Nat} (h : PMirror' t f to) :
    PMirror' (xs.foldl (fun t x' => ys.foldl (fun t y' => (t.addOneConnection x' y').1) t) t) f to := by
  induction xs generalizing t with
  | nil => exact h
  | cons x rest ih =>
    simp only [List.foldl_cons]
    apply ih
    clear ih
    induction ys generalizing t with
    | nil => exact h
    | cons y rest' ih' => simp only [List.foldl_cons]; exact ih' (addOneConnection_pmirror' x y h)

/-! ## the general postcondition -/

structure ConnPost (t t' : TrRel) (f to : Nat) : Prop where
  core : SameCore t t'
  conn_mono : ∀ a c, rel t.conn a c → rel t'.conn a c
  rconn_mono : ∀ a c, rel t.rconn a c → rel t'.rconn a c
  conn_new : rel t'.conn f to
  rconn_new : rel t'.rconn to f
  conn_f : ∀ c, rel t.conn to c → rel t'.conn f c
  rconn_to : ∀ a, rel t.rconn f a → rel t'.rconn to a
  conn_to : ∀ c, rel t'.conn to c ↔ rel t.conn to c
  rconn_f : ∀ a, rel t'.rconn f a ↔ rel t.rconn f a
  conn_nf : ∀ a, rel t.rconn f a → ¬ rel t.rconn to a → a ≠ f → a ≠ to → rel t'.conn a to
  rconn_nt : ∀ c, rel t.conn to c → ¬ rel t.conn f c → c ≠ to → c ≠ f → rel t'.rconn c f
  conn_prod : ∀ a c, rel t.rconn f a → ¬ rel t.rconn to a → a ≠ f → rel t.conn to c → ¬ rel t.conn f c → c ≠ to →
    a ≠ to → rel t'.conn a c
  rconn_prod : PMirror' t f to → ∀ a c, rel t.rconn f a → ¬ rel t.rconn to a → a ≠ f → rel t.conn to c →
    ¬ rel t.conn f c → c ≠ to → a ≠ to → c ≠ f → a ≠ c → rel t'.rconn c a
  conn_key : (alGet t'.conn f).isSome = true
  rconn_key : (alGet t'.rconn f).isSome = true
  keys : KeysOk t → KeysOk t'

theorem addSetConnection_post {t t' : TrRel} {f to : Nat} {b : Bool} (hne : f ≠ to) (hnotyet : ¬ rel t.conn f to)
    (he : t.addSetConnection f to = .ok (t', b)) : ConnPost t t' f to := by
  have hcore := addSetConnection_core he
  have hge := addSetConnection_ge he
  have hger := addSetConnection_ge_rconn he
  unfold TrRel.addSetConnection at he
  have hnew := entryInsert_snd t.conn f to
  have hrel1 := rel_entryInsert t.conn f to
  have hk1 : MapOk t.conn → MapOk (entryInsert t.conn f to).1 := fun h => h.entryInsert f to
  rcases hei : entryInsert t.conn f to with ⟨conn1, isNew⟩
  rw [hei] at he hnew hrel1 hk1
  simp only at he hnew hrel1 hk1
  have hisNew : isNew = true := hnew.mpr hnotyet
  subst hisNew
  simp only [Bool.not_true, Bool.false_eq_true, if_false] at he
  have hrr1 := rel_entryInsert t.rconn to f
  have hfr := mem_entryOrDefault_snd (entryInsert t.rconn to f).1 f
  have hr2 := rel_entryOrDefault (entryInsert t.rconn to f).1 f
  have hkr2 : MapOk t.rconn → MapOk (entryOrDefault (entryInsert t.rconn to f).1 f).1 ∧
      (entryOrDefault (entryInsert t.rconn to f).1 f).2.Nodup := fun h => (h.entryInsert to f).orDefault f
  rcases heo : entryOrDefault (entryInsert t.rconn to f).1 f with ⟨rconn2, fromRev⟩
  rw [heo] at he hfr hr2 hkr2
  have htc := mem_entryOrDefault_snd conn1 to
  have hc2 := rel_entryOrDefault conn1 to
  have hkc2 : MapOk t.conn → MapOk (entryOrDefault conn1 to).1 ∧ (entryOrDefault conn1 to).2.Nodup :=
    fun h => (hk1 h).orDefault to
  rcases heo2 : entryOrDefault conn1 to with ⟨conn2, toConn⟩
  rw [heo2] at he htc hc2 hkc2
  simp only at he hfr hr2 htc hc2 hkr2 hkc2
  obtain ⟨cf, hcf, he⟩ := Res.bind_eq_ok he
  obtain ⟨rt, hrt, he⟩ := Res.bind_eq_ok he
  have hcf' := mem_of_alGet (unwrap_eq_ok hcf)
  have hrt' := mem_of_alGet (unwrap_eq_ok hrt)
  have fromRev_iff : ∀ x, x ∈ fromRev ↔ rel t.rconn f x := by
    intro x; rw [hfr, hrr1]
    constructor
    · rintro (h | ⟨h, _⟩)
      · exact h
      · exact absurd h hne
    · exact Or.inl
  have toConn_iff : ∀ y, y ∈ toConn ↔ rel t.conn to y := by
    intro y; rw [htc, hrel1]
    constructor
    · rintro (h | ⟨h, _⟩)
      · exact h
      · exact absurd h.symm hne
    · exact Or.inl
  have cf_iff : ∀ y, y ∈ cf ↔ (rel t.conn f y ∨ y = to) := by
    intro y; rw [hcf', rel_alSet, if_neg (Ne.symm hne), hc2, hrel1]
    constructor
    · rintro (h | ⟨_, h⟩)
      · exact Or.inl h
      · exact Or.inr h
    · rintro (h | h)
      · exact Or.inl h
      · exact Or.inr ⟨rfl, h⟩
  have rt_iff : ∀ x, x ∈ rt ↔ (rel t.rconn to x ∨ x = f) := by
    intro x; rw [hrt', rel_alSet, if_neg hne, hr2, hrr1]
    constructor
    · rintro (h | ⟨_, h⟩)
      · exact Or.inl h
      · exact Or.inr h
    · rintro (h | h)
      · exact Or.inl h
      · exact Or.inr ⟨rfl, h⟩
  have nf_iff : ∀ a, a ∈ nsDiff fromRev rt ↔ (rel t.rconn f a ∧ ¬ rel t.rconn to a ∧ a ≠ f) := by
    intro a; rw [mem_nsDiff, fromRev_iff, rt_iff, not_or]
  have nt_iff : ∀ c, c ∈ nsDiff toConn cf ↔ (rel t.conn to c ∧ ¬ rel t.conn f c ∧ c ≠ to) := by
    intro c; rw [mem_nsDiff, toConn_iff, cf_iff, not_or]
  -- the double loop
  have P := foldl_addOne_outer_post (nsDiff fromRev rt) (nsDiff toConn cf)
    { t with conn := alSet conn2 to [], rconn := alSet rconn2 f [] } f to
  have PM := foldl_addOne_pmirror' (nsDiff fromRev rt) (nsDiff toConn cf)
    (t := { t with conn := alSet conn2 to [], rconn := alSet rconn2 f [] }) (f := f) (to := to)
  have PK := foldl_addOne_keys (nsDiff fromRev rt) (nsDiff toConn cf)
    (t := { t with conn := alSet conn2 to [], rconn := alSet rconn2 f [] })
  generalize ht2 : (nsDiff fromRev rt).foldl (fun t x' => (nsDiff toConn cf).foldl (fun t y' => (t.addOneConnection x' y').1) t)
    { t with conn := alSet conn2 to [], rconn := alSet rconn2 f [] } = t2 at he P PM PK
  simp only [Res.pure_eq, Res.ok.injEq, Prod.mk.injEq] at he
  obtain ⟨rfl, _⟩ := he
  simp only at hge hger ⊢
  have Cmono : ∀ a c, a ≠ to → rel t2.conn a c → rel (alSet (entryExtend (List.foldl (fun c x' => (entryInsert c x' to).1) t2.conn
      (nsDiff fromRev rt)) f toConn) to toConn) a c := by
    intro a c ha h
    rw [rel_alSet, if_neg (Ne.symm ha)]
    exact (rel_entryExtend _ _ _ _ _).mpr (Or.inl (rel_foldl_insert_mono _ _ h))
  have Rmono : ∀ a c, a ≠ f → rel t2.rconn a c → rel (alSet (entryExtend (List.foldl (fun c y' => (entryInsert c y' f).1) t2.rconn
      (nsDiff toConn cf)) to fromRev) f fromRev) a c := by
    intro a c ha h
    rw [rel_alSet, if_neg (Ne.symm ha)]
    exact (rel_entryExtend _ _ _ _ _).mpr (Or.inl (rel_foldl_insert_mono _ _ h))
  refine ⟨hcore, hge.1, hger.1, hge.2, hger.2 hnotyet, ?_, ?_, ?_, ?_, ?_, ?_, ?_, ?_, ?_, ?_, ?_⟩
  · intro c hc
    rw [rel_alSet, if_neg (Ne.symm hne)]
    exact (rel_entryExtend _ _ _ _ _).mpr (Or.inr ⟨rfl, (toConn_iff c).mpr hc⟩)
  · intro a ha
    rw [rel_alSet, if_neg hne]
    exact (rel_entryExtend _ _ _ _ _).mpr (Or.inr ⟨rfl, (fromRev_iff a).mpr ha⟩)
  · intro c
    rw [rel_alSet, if_pos rfl]; exact toConn_iff c
  · intro a
    rw [rel_alSet, if_pos rfl]; exact fromRev_iff a
  · intro a h1 h2 h3 h4
    rw [rel_alSet, if_neg (Ne.symm h4)]
    exact (rel_entryExtend _ _ _ _ _).mpr (Or.inl (rel_foldl_insert_mem _ _ _ ((nf_iff a).mpr ⟨h1, h2, h3⟩)))
  · intro c h1 h2 h3 h4
    rw [rel_alSet, if_neg (Ne.symm h4)]
    exact (rel_entryExtend _ _ _ _ _).mpr (Or.inl (rel_foldl_insert_mem _ _ _ ((nt_iff c).mpr ⟨h1, h2, h3⟩)))
  · intro a c h1 h2 h3 h4 h5 h6 h7
    exact Cmono a c h7 (P.conn_new a ((nf_iff a).mpr ⟨h1, h2, h3⟩) c ((nt_iff c).mpr ⟨h4, h5, h6⟩))
  · intro hpm a c h1 h2 h3 h4 h5 h6 h7 h8 h9
    have hpm1 : PMirror' { t with conn := alSet conn2 to [], rconn := alSet rconn2 f [] } f to := by
      intro a' c' hac ha' hc' hr
      simp only at hr ⊢
      rw [rel_alSet, if_neg (Ne.symm ha'), hc2, hrel1] at hr
      rw [rel_alSet, if_neg (Ne.symm hc'), hr2, hrr1]
      rcases hr with h | ⟨rfl, rfl⟩
      · exact Or.inl (hpm a' c' hac ha' hc' h)
      · exact Or.inr ⟨rfl, rfl⟩
    exact Rmono c a h8 (PM hpm1 a c h9 h7 h8 (P.conn_new a ((nf_iff a).mpr ⟨h1, h2, h3⟩) c ((nt_iff c).mpr ⟨h4, h5, h6⟩)))
  · rw [alGet_alSet, if_neg (Ne.symm hne)]
    exact isSome_alGet_entryExtend _ _ _
  · rw [alGet_alSet, if_pos rfl]; rfl
  · rintro ⟨hkc, hkr⟩
    have hk2 : KeysOk t2 := PK ⟨(hkc2 hkc).1.alSet _ List.nodup_nil, (hkr2 hkr).1.alSet _ List.nodup_nil⟩
    exact ⟨((hk2.1.foldl_insert _ _).entryExtend _ _).alSet _ (hkc2 hkc).2,
      ((hk2.2.foldl_insert_val _ _).entryExtend _ _).alSet _ (hkr2 hkr).2⟩

/-- `add_set_connection` keeps both maps well formed in every case -/
theorem addSetConnection_keys {t t' : TrRel} {f to : Nat} {b : Bool} (hk : KeysOk t)
    (he : t.addSetConnection f to = .ok (t', b)) : KeysOk t' := by
  unfold TrRel.addSetConnection at he
  have hk1 : MapOk (entryInsert t.conn f to).1 := hk.1.entryInsert f to
  rcases hei : entryInsert t.conn f to with ⟨conn1, isNew⟩
  rw [hei] at he hk1
  simp only at he hk1
  split at he
  · cases he; exact ⟨hk1, hk.2⟩
  · have hkr2 : MapOk (entryOrDefault (entryInsert t.rconn to f).1 f).1 ∧ (entryOrDefault (entryInsert t.rconn to f).1 f).2.Nodup :=
      (hk.2.entryInsert to f).orDefault f
    rcases heo : entryOrDefault (entryInsert t.rconn to f).1 f with ⟨rconn2, fromRev⟩
    rw [heo] at he hkr2
    have hkc2 : MapOk (entryOrDefault conn1 to).1 ∧ (entryOrDefault conn1 to).2.Nodup := hk1.orDefault to
    rcases heo2 : entryOrDefault conn1 to with ⟨conn2, toConn⟩
    rw [heo2] at he hkc2
    simp only at he hkr2 hkc2
    obtain ⟨cf, hcf, he⟩ := Res.bind_eq_ok he
    obtain ⟨rt, hrt, he⟩ := Res.bind_eq_ok he
    have PK := foldl_addOne_keys (nsDiff fromRev rt) (nsDiff toConn cf)
      (t := { t with conn := alSet conn2 to [], rconn := alSet rconn2 f [] })
      ⟨hkc2.1.alSet _ List.nodup_nil, hkr2.1.alSet _ List.nodup_nil⟩
    simp only [Res.pure_eq, Res.ok.injEq, Prod.mk.injEq] at he
    obtain ⟨rfl, _⟩ := he
    exact ⟨((PK.1.foldl_insert _ _).entryExtend _ _).alSet _ hkc2.2, ((PK.2.foldl_insert_val _ _).entryExtend _ _).alSet _ hkr2.2⟩

end AscentVerif.TrRel
