import AscentVerif.Proofs.DesugarPWNBase
/-!
# Syntactic facts about the passes `patItems`, `wildItems`, `negItem`
-/
namespace AscentVerif.Surface
open AscentVerif AscentVerif.Engine

variable {E B G P A : Type}

/-! ## arguments -/

theorem patArgs_mem (ops : Ops E B G A) (as : List (SArg E P)) (k : Nat) :
    ∀ a ∈ (patArgs (B := B) ops as k).1,
      (∃ j, k ≤ j ∧ a = SArg.var (gsPat j)) ∨ (a ∈ as ∧ ∀ p vs, a ≠ SArg.pat p vs) := by
  induction as generalizing k with
  | nil => intro a ha; simp [patArgs] at ha
  | cons b as ih =>
    intro a ha
    cases b with
    | pat p vs =>
      simp only [patArgs, List.mem_cons] at ha
      rcases ha with rfl | ha
      · exact .inl ⟨k, Nat.le_refl _, rfl⟩
      · rcases ih (k + 1) a ha with ⟨j, hj, rfl⟩ | ⟨h1, h2⟩
        · exact .inl ⟨j, by omega, rfl⟩
        · exact .inr ⟨List.mem_cons_of_mem _ h1, h2⟩
    | var v =>
      simp only [patArgs, List.mem_cons] at ha
      rcases ha with rfl | ha
      · exact .inr ⟨by simp, by simp⟩
      · rcases ih k a ha with ⟨j, hj, rfl⟩ | ⟨h1, h2⟩
        · exact .inl ⟨j, hj, rfl⟩
        · exact .inr ⟨List.mem_cons_of_mem _ h1, h2⟩
    | expr e =>
      simp only [patArgs, List.mem_cons] at ha
      rcases ha with rfl | ha
      · exact .inr ⟨by simp, by simp⟩
      · rcases ih k a ha with ⟨j, hj, rfl⟩ | ⟨h1, h2⟩
        · exact .inl ⟨j, hj, rfl⟩
        · exact .inr ⟨List.mem_cons_of_mem _ h1, h2⟩
    | wild =>
      simp only [patArgs, List.mem_cons] at ha
      rcases ha with rfl | ha
      · exact .inr ⟨by simp, by simp⟩
      · rcases ih k a ha with ⟨j, hj, rfl⟩ | ⟨h1, h2⟩
        · exact .inl ⟨j, hj, rfl⟩
        · exact .inr ⟨List.mem_cons_of_mem _ h1, h2⟩

theorem patArgs_conds (ops : Ops E B G A) (as : List (SArg E P)) (k : Nat) :
    ∀ c ∈ (patArgs (B := B) ops as k).2.1,
      ∃ p vs j, k ≤ j ∧ c = Cond.ifLet p vs (ops.varE (gsPat j)) ∧ SArg.pat p vs ∈ as := by
  induction as generalizing k with
  | nil => intro c hc; simp [patArgs] at hc
  | cons b as ih =>
    intro c hc
    cases b with
    | pat p vs =>
      simp only [patArgs, List.mem_cons] at hc
      rcases hc with rfl | hc
      · exact ⟨p, vs, k, Nat.le_refl _, rfl, by simp⟩
      · obtain ⟨p', vs', j, hj, rfl, hm⟩ := ih (k + 1) c hc
        exact ⟨p', vs', j, by omega, rfl, List.mem_cons_of_mem _ hm⟩
    | var v =>
      simp only [patArgs] at hc
      obtain ⟨p', vs', j, hj, rfl, hm⟩ := ih k c hc
      exact ⟨p', vs', j, hj, rfl, List.mem_cons_of_mem _ hm⟩
    | expr e =>
      simp only [patArgs] at hc
      obtain ⟨p', vs', j, hj, rfl, hm⟩ := ih k c hc
      exact ⟨p', vs', j, hj, rfl, List.mem_cons_of_mem _ hm⟩
    | wild =>
      simp only [patArgs] at hc
      obtain ⟨p', vs', j, hj, rfl, hm⟩ := ih k c hc
      exact ⟨p', vs', j, hj, rfl, List.mem_cons_of_mem _ hm⟩

theorem wildArgs_mem (as : List (SArg E P)) (k : Nat) :
    ∀ a ∈ (wildArgs as k).1,
      (∃ j, k ≤ j ∧ a = SArg.var (gsWild j)) ∨ (a ∈ as ∧ a ≠ SArg.wild) := by
  induction as generalizing k with
  | nil => intro a ha; simp [wildArgs] at ha
  | cons b as ih =>
    intro a ha
    cases b with
    | wild =>
      simp only [wildArgs, List.mem_cons] at ha
      rcases ha with rfl | ha
      · exact .inl ⟨k, Nat.le_refl _, rfl⟩
      · rcases ih (k + 1) a ha with ⟨j, hj, rfl⟩ | ⟨h1, h2⟩
        · exact .inl ⟨j, by omega, rfl⟩
        · exact .inr ⟨List.mem_cons_of_mem _ h1, h2⟩
    | var v =>
      simp only [wildArgs, List.mem_cons] at ha
      rcases ha with rfl | ha
      · exact .inr ⟨by simp, by simp⟩
      · rcases ih k a ha with ⟨j, hj, rfl⟩ | ⟨h1, h2⟩
        · exact .inl ⟨j, hj, rfl⟩
        · exact .inr ⟨List.mem_cons_of_mem _ h1, h2⟩
    | expr e =>
      simp only [wildArgs, List.mem_cons] at ha
      rcases ha with rfl | ha
      · exact .inr ⟨by simp, by simp⟩
      · rcases ih k a ha with ⟨j, hj, rfl⟩ | ⟨h1, h2⟩
        · exact .inl ⟨j, hj, rfl⟩
        · exact .inr ⟨List.mem_cons_of_mem _ h1, h2⟩
    | pat p vs =>
      simp only [wildArgs, List.mem_cons] at ha
      rcases ha with rfl | ha
      · exact .inr ⟨by simp, by simp⟩
      · rcases ih k a ha with ⟨j, hj, rfl⟩ | ⟨h1, h2⟩
        · exact .inl ⟨j, hj, rfl⟩
        · exact .inr ⟨List.mem_cons_of_mem _ h1, h2⟩

/-! ## items -/

theorem patItems_mem (ops : Ops E B G A) (fs : List (FItem E B G P A)) (k : Nat) :
    ∀ f ∈ patItems ops fs k,
      (∃ r as cs k', f = FItem.clause r (patArgs (B := B) ops as k').1 ((patArgs ops as k').2.1 ++ cs) ∧
        FItem.clause r as cs ∈ fs) ∨
      (f ∈ fs ∧ ∀ r as cs, f ≠ FItem.clause r as cs) := by
  induction fs generalizing k with
  | nil => intro f hf; simp [patItems] at hf
  | cons g rest ih =>
    intro f hf
    have lift : ∀ k₁, f ∈ patItems ops rest k₁ →
        (∃ r as cs k', f = FItem.clause r (patArgs (B := B) ops as k').1 ((patArgs ops as k').2.1 ++ cs) ∧
          FItem.clause r as cs ∈ g :: rest) ∨
        (f ∈ g :: rest ∧ ∀ r as cs, f ≠ FItem.clause r as cs) := by
      intro k₁ h
      rcases ih k₁ f h with ⟨r, as, cs, k', h1, h2⟩ | ⟨h1, h2⟩
      · exact .inl ⟨r, as, cs, k', h1, List.mem_cons_of_mem _ h2⟩
      · exact .inr ⟨List.mem_cons_of_mem _ h1, h2⟩
    cases g with
    | clause r as cs =>
      simp only [patItems, List.mem_cons] at hf
      rcases hf with rfl | hf
      · exact .inl ⟨r, as, cs, k, rfl, by simp⟩
      · exact lift _ hf
    | cond c =>
      simp only [patItems, List.mem_cons] at hf
      rcases hf with rfl | hf
      · exact .inr ⟨by simp, by simp⟩
      · exact lift _ hf
    | gen v g' =>
      simp only [patItems, List.mem_cons] at hf
      rcases hf with rfl | hf
      · exact .inr ⟨by simp, by simp⟩
      · exact lift _ hf
    | agg a =>
      simp only [patItems, List.mem_cons] at hf
      rcases hf with rfl | hf
      · exact .inr ⟨by simp, by simp⟩
      · exact lift _ hf
    | neg r as =>
      simp only [patItems, List.mem_cons] at hf
      rcases hf with rfl | hf
      · exact .inr ⟨by simp, by simp⟩
      · exact lift _ hf

theorem wildItems_mem (fs : List (FItem E B G P A)) (k : Nat) :
    ∀ f ∈ wildItems fs k,
      (∃ r as cs k', f = FItem.clause r (wildArgs as k').1 cs ∧ FItem.clause r as cs ∈ fs) ∨
      (f ∈ fs ∧ ∀ r as cs, f ≠ FItem.clause r as cs) := by
  induction fs generalizing k with
  | nil => intro f hf; simp [wildItems] at hf
  | cons g rest ih =>
    intro f hf
    have lift : ∀ k₁, f ∈ wildItems rest k₁ →
        (∃ r as cs k', f = FItem.clause r (wildArgs as k').1 cs ∧ FItem.clause r as cs ∈ g :: rest) ∨
        (f ∈ g :: rest ∧ ∀ r as cs, f ≠ FItem.clause r as cs) := by
      intro k₁ h
      rcases ih k₁ f h with ⟨r, as, cs, k', h1, h2⟩ | ⟨h1, h2⟩
      · exact .inl ⟨r, as, cs, k', h1, List.mem_cons_of_mem _ h2⟩
      · exact .inr ⟨List.mem_cons_of_mem _ h1, h2⟩
    cases g with
    | clause r as cs =>
      simp only [wildItems, List.mem_cons] at hf
      rcases hf with rfl | hf
      · exact .inl ⟨r, as, cs, k, rfl, by simp⟩
      · exact lift _ hf
    | cond c =>
      simp only [wildItems, List.mem_cons] at hf
      rcases hf with rfl | hf
      · exact .inr ⟨by simp, by simp⟩
      · exact lift _ hf
    | gen v g' =>
      simp only [wildItems, List.mem_cons] at hf
      rcases hf with rfl | hf
      · exact .inr ⟨by simp, by simp⟩
      · exact lift _ hf
    | agg a =>
      simp only [wildItems, List.mem_cons] at hf
      rcases hf with rfl | hf
      · exact .inr ⟨by simp, by simp⟩
      · exact lift _ hf
    | neg r as =>
      simp only [wildItems, List.mem_cons] at hf
      rcases hf with rfl | hf
      · exact .inr ⟨by simp, by simp⟩
      · exact lift _ hf

theorem negItem_clause (ops : Ops E B G A) {f : FItem E B G P A} {r : RelId} {as : List (SArg E P)} {cs : List (Cond E B P)}
    (h : negItem ops f = FItem.clause r as cs) : f = FItem.clause r as cs := by
  cases f <;> simp_all [negItem]

theorem negItem_ne_neg (ops : Ops E B G A) (f : FItem E B G P A) (r : RelId) (as : List (NArg E)) :
    negItem ops f ≠ FItem.neg r as := by
  cases f <;> simp [negItem]

/-! ## mentions -/

theorem patArgs_mentions (ops : Ops E B G A) (varsE : E → List Var) (as : List (SArg E P)) (k : Nat) :
    ∀ v ∈ (patArgs (B := B) ops as k).1.flatMap (SArg.mentions varsE),
      (∃ j, k ≤ j ∧ v = gsPat j) ∨ v ∈ as.flatMap (SArg.mentions varsE) := by
  intro v hv
  simp only [List.mem_flatMap] at hv ⊢
  obtain ⟨a, ha, hva⟩ := hv
  rcases patArgs_mem ops as k a ha with ⟨j, hj, rfl⟩ | ⟨h1, _⟩
  · simp only [SArg.mentions, List.mem_singleton] at hva
    exact .inl ⟨j, hj, hva⟩
  · exact .inr ⟨a, h1, hva⟩

theorem wildArgs_mentions (varsE : E → List Var) (as : List (SArg E P)) (k : Nat) :
    ∀ v ∈ (wildArgs as k).1.flatMap (SArg.mentions varsE),
      (∃ j, k ≤ j ∧ v = gsWild j) ∨ v ∈ as.flatMap (SArg.mentions varsE) := by
  intro v hv
  simp only [List.mem_flatMap] at hv ⊢
  obtain ⟨a, ha, hva⟩ := hv
  rcases wildArgs_mem as k a ha with ⟨j, hj, rfl⟩ | ⟨h1, _⟩
  · simp only [SArg.mentions, List.mem_singleton] at hva
    exact .inl ⟨j, hj, hva⟩
  · exact .inr ⟨a, h1, hva⟩

theorem patItems_mentions (ops : Ops E B G A) {varsB : B → List Var} {varsG : G → List Var}
    (hvv : ∀ v, ops.varsE (ops.varE v) = [v]) (fs : List (FItem E B G P A)) (k : Nat) :
    ∀ f ∈ patItems ops fs k, ∀ v ∈ FItem.mentions ops.varsE varsB varsG f,
      isPat v ∨ ∃ f₀ ∈ fs, v ∈ FItem.mentions ops.varsE varsB varsG f₀ := by
  intro f hf v hv
  rcases patItems_mem ops fs k f hf with ⟨r, as, cs, k', rfl, hmem⟩ | ⟨h1, _⟩
  · simp only [FItem.mentions, List.mem_append, List.flatMap_append] at hv
    rcases hv with hv | hv | hv
    · rcases patArgs_mentions ops ops.varsE as k' v hv with ⟨j, _, rfl⟩ | h
      · exact .inl ⟨j, rfl⟩
      · exact .inr ⟨_, hmem, by simp only [FItem.mentions, List.mem_append]; exact .inl h⟩
    · simp only [List.mem_flatMap] at hv
      obtain ⟨c, hc, hvc⟩ := hv
      obtain ⟨p, vs, j, _, rfl, hp⟩ := patArgs_conds ops as k' c hc
      simp only [Cond.vars, hvv, List.mem_append, List.mem_singleton] at hvc
      rcases hvc with hvc | rfl
      · refine .inr ⟨_, hmem, ?_⟩
        simp only [FItem.mentions, List.mem_append, List.mem_flatMap]
        exact .inl ⟨_, hp, hvc⟩
      · exact .inl ⟨j, rfl⟩
    · exact .inr ⟨_, hmem, by simp only [FItem.mentions, List.mem_append]; exact .inr hv⟩
  · exact .inr ⟨f, h1, hv⟩

theorem wildItems_mentions {varsE : E → List Var} {varsB : B → List Var} {varsG : G → List Var}
    (fs : List (FItem E B G P A)) (k : Nat) :
    ∀ f ∈ wildItems fs k, ∀ v ∈ FItem.mentions varsE varsB varsG f,
      isWild v ∨ ∃ f₀ ∈ fs, v ∈ FItem.mentions varsE varsB varsG f₀ := by
  intro f hf v hv
  rcases wildItems_mem fs k f hf with ⟨r, as, cs, k', rfl, hmem⟩ | ⟨h1, _⟩
  · simp only [FItem.mentions, List.mem_append] at hv
    rcases hv with hv | hv
    · rcases wildArgs_mentions varsE as k' v hv with ⟨j, _, rfl⟩ | h
      · exact .inl ⟨j, rfl⟩
      · exact .inr ⟨_, hmem, by simp only [FItem.mentions, List.mem_append]; exact .inl h⟩
    · exact .inr ⟨_, hmem, by simp only [FItem.mentions, List.mem_append]; exact .inr hv⟩
  · exact .inr ⟨f, h1, hv⟩

theorem negItem_mentions (ops : Ops E B G A) {varsE : E → List Var} {varsB : B → List Var} {varsG : G → List Var}
    (f : FItem E B G P A) :
    ∀ v ∈ FItem.mentions varsE varsB varsG (negItem ops f), v ∈ FItem.mentions varsE varsB varsG f := by
  intro v hv
  cases f with
  | neg r as =>
    simp only [negItem, FItem.mentions, List.nil_append, List.mem_flatMap, List.mem_map] at hv ⊢
    obtain ⟨a', ⟨a, ha, rfl⟩, hva⟩ := hv
    refine ⟨a, ha, ?_⟩
    cases a <;> exact hva
  | clause r as cs => exact hv
  | cond c => exact hv
  | gen w g => exact hv
  | agg a => exact hv

/-! ## expression scoping -/

/-- `as'` is `as` with some non-variable, non-expression arguments replaced by generated variable columns -/
inductive ArgsRel (Gn : Var → Prop) : List (SArg E P) → List (SArg E P) → Prop
  | nil : ArgsRel Gn [] []
  | same (a : SArg E P) {as as' : List (SArg E P)} : ArgsRel Gn as as' → ArgsRel Gn (a :: as) (a :: as')
  | gen (a : SArg E P) (g : Var) {as as' : List (SArg E P)} : Gn g → SArg.varCol a = [] → (∀ e, a ≠ SArg.expr e) →
      ArgsRel Gn as as' → ArgsRel Gn (a :: as) (SArg.var g :: as')

theorem ArgsRel.split {Gn : Var → Prop} {as as' : List (SArg E P)} (h : ArgsRel Gn as as') :
    ∀ pre' e post', as' = pre' ++ SArg.expr e :: post' →
      ∃ pre post, as = pre ++ SArg.expr e :: post ∧ ArgsRel Gn pre pre' ∧ ArgsRel Gn post post' := by
  induction h with
  | nil => intro pre' e post' he; simp at he
  | same a hr ih =>
    intro pre' e post' he
    cases pre' with
    | nil =>
      simp only [List.nil_append, List.cons.injEq] at he
      obtain ⟨rfl, rfl⟩ := he
      exact ⟨[], _, rfl, .nil, hr⟩
    | cons b pre'' =>
      simp only [List.cons_append, List.cons.injEq] at he
      obtain ⟨rfl, he⟩ := he
      obtain ⟨pre, post, rfl, h1, h2⟩ := ih pre'' e post' he
      exact ⟨a :: pre, post, rfl, .same a h1, h2⟩
  | gen a g hg hvc hne hr ih =>
    intro pre' e post' he
    cases pre' with
    | nil => simp at he
    | cons b pre'' =>
      simp only [List.cons_append, List.cons.injEq] at he
      obtain ⟨rfl, he⟩ := he
      obtain ⟨pre, post, rfl, h1, h2⟩ := ih pre'' e post' he
      exact ⟨a :: pre, post, rfl, .gen a g hg hvc hne h1, h2⟩

theorem ArgsRel.varCol_sub {Gn : Var → Prop} {as as' : List (SArg E P)} (h : ArgsRel Gn as as') :
    ∀ v ∈ as.flatMap SArg.varCol, v ∈ as'.flatMap SArg.varCol := by
  induction h with
  | nil => simp
  | same a hr ih =>
    intro v hv
    simp only [List.flatMap_cons, List.mem_append] at hv ⊢
    exact hv.imp id (ih v)
  | gen a g hg hvc hne hr ih =>
    intro v hv
    simp only [List.flatMap_cons, List.mem_append, hvc] at hv ⊢
    rcases hv with hv | hv
    · simp at hv
    · exact .inr (ih v hv)

theorem ArgsRel.varCol_sup {Gn : Var → Prop} {as as' : List (SArg E P)} (h : ArgsRel Gn as as') :
    ∀ v ∈ as'.flatMap SArg.varCol, v ∈ as.flatMap SArg.varCol ∨ Gn v := by
  induction h with
  | nil => simp
  | same a hr ih =>
    intro v hv
    simp only [List.flatMap_cons, List.mem_append] at hv ⊢
    rcases hv with hv | hv
    · exact .inl (.inl hv)
    · exact (ih v hv).imp .inr id
  | gen a g hg hvc hne hr ih =>
    intro v hv
    simp only [List.flatMap_cons, List.mem_append, SArg.varCol, List.mem_singleton] at hv ⊢
    rcases hv with rfl | hv
    · exact .inr hg
    · exact (ih v hv).imp .inr id

theorem exprScoped_of_argsRel {Gn : Var → Prop} {varsE : E → List Var} {as as' : List (SArg E P)} (h : ArgsRel Gn as as')
    (hno : ∀ e, SArg.expr e ∈ as → ∀ v ∈ varsE e, ¬ Gn v) (hs : ExprScopedArgs varsE as) : ExprScopedArgs varsE as' := by
  intro pre' e post' he v hv hpost
  obtain ⟨pre, post, rfl, h1, h2⟩ := h.split pre' e post' he
  rcases h2.varCol_sup v hpost with hp | hg
  · exact h1.varCol_sub v (hs pre e post rfl v hv hp)
  · exact absurd hg (hno e (by simp) v hv)

theorem patArgs_rel (ops : Ops E B G A) (as : List (SArg E P)) (k : Nat) :
    ArgsRel (fun v => reservedBase ≤ v) as (patArgs (B := B) ops as k).1 := by
  induction as generalizing k with
  | nil => exact .nil
  | cons a as ih =>
    cases a with
    | pat p vs =>
      simp only [patArgs]
      exact .gen _ _ (by unfold gsPat; omega) rfl (by simp) (ih _)
    | var v => simp only [patArgs]; exact .same _ (ih _)
    | expr e => simp only [patArgs]; exact .same _ (ih _)
    | wild => simp only [patArgs]; exact .same _ (ih _)

theorem wildArgs_rel (as : List (SArg E P)) (k : Nat) :
    ArgsRel (fun v => reservedBase ≤ v) as (wildArgs as k).1 := by
  induction as generalizing k with
  | nil => exact .nil
  | cons a as ih =>
    cases a with
    | wild =>
      simp only [wildArgs]
      exact .gen _ _ (by unfold gsWild; omega) rfl (by simp) (ih _)
    | var v => simp only [wildArgs]; exact .same _ (ih _)
    | expr e => simp only [wildArgs]; exact .same _ (ih _)
    | pat p vs => simp only [wildArgs]; exact .same _ (ih _)

theorem not_pat_of_lt {v : Nat} (h : v < reservedBase) : ¬ isPat v := by
  rintro ⟨k, rfl⟩; unfold gsPat reservedBase at h; omega

theorem not_wild_of_lt {v : Nat} (h : v < reservedBase) : ¬ isWild v := by
  rintro ⟨k, rfl⟩; unfold gsWild reservedBase at h; omega

theorem not_wild_of_pat {v : Nat} (h : isPat v) : ¬ isWild v := by
  obtain ⟨j, rfl⟩ := h
  rintro ⟨k, hk⟩; unfold gsPat gsWild reservedBase at hk; change (_ : Nat) = _ at hk; omega

theorem ge_of_pat {v : Nat} (h : isPat v) : reservedBase ≤ v := by
  obtain ⟨j, rfl⟩ := h; unfold gsPat; omega

theorem ge_of_wild {v : Nat} (h : isWild v) : reservedBase ≤ v := by
  obtain ⟨j, rfl⟩ := h; unfold gsWild; omega

end AscentVerif.Surface
