import AscentVerif.Proofs.PhysParTimeout
import AscentVerif.Proofs.PhysParAggLink
/-!
# `run_timeout` of the parallel physical engine on stratified programs with aggregation / negation

The analogue of `Proofs/PhysAggTimeout.lean` (serial) for `PhysPar.runTimeout` (`Model/EnginePhysParTimeout.lean`), with the
simulation lemmas of `Proofs/PhysParAggRun.lean`: whatever the schedule, the pool, the deadline oracle and the fuel, the call
never panics, and a call that returned `false` is a PREFIX of an execution of the nondeterministic engine (`Agg.RunPreND`);
`abandonScc` keeps the rows of the SCC state so reached and leaves only unfrozen indices in the struct.
-/
namespace AscentVerif.PhysPar
open AscentVerif AscentVerif.Engine AscentVerif.Index AscentVerif.Phys

variable {E B G P A : Type}

/-- the early return leaves only unfrozen indices of the current pool's shape in the struct -/
theorem abandon_flagsPar (threads : Nat) (p : Program E B G P A) (scc : List Nat) {s : PCScc}
    (hfl : Flags (max threads 1) (bodyOnly p scc) false s) :
    StFlags (max threads 1) (abandonScc threads p scc s) := by
  intro pr hpr
  simp only [abandonScc, List.mem_map, List.mem_range] at hpr
  obtain ⟨r, hr, rfl⟩ := hpr
  split
  · refine ⟨rfl, ?_⟩
    intro ci hci
    obtain ⟨c, _, rfl⟩ := List.mem_map.mp hci
    exact ⟨Shape_new threads c.1, isFrozen_new threads c.1⟩
  · rename_i ht
    have hb : (bodyOnly p scc).contains r = false := by
      cases hb : (bodyOnly p scc).contains r with
      | false => rfl
      | true =>
        exfalso
        apply ht
        have hm := (List.mem_filter.mp (List.contains_iff_mem.mp hb)).1
        exact List.contains_iff_mem.mpr (List.mem_append_right _ hm)
    have := hfl.rels r hr
    rw [hb] at this
    exact this

/-! ## the loop of a looping SCC under the deadline -/

section Loop
variable (I : Interp E B G P A) (hI : Plan.Ext I) (cfg : Config) (V : Hir.VarsOf E B) (hS : Plan.Supp I V)
  (hperm : ∀ (fn : A) (l l' : List Tuple), l.Perm l' → I.agg fn l = I.agg fn l')
  (p : Program E B G P A) (hl : ∀ d ∈ p.rels, d.lat = false) (ix : IxSets) (dynR : List RelId)
  (hlt : ∀ r, dynR.contains r = true → r < p.rels.length) (N : Nat) (hN : 0 < N) (bo : List RelId)

include hI hS hperm hl hlt hN in
theorem sccLoopT_simParA (σ : Sched E B G P A) (rules : List (Rule E B G P A)) (hR : ∀ r ∈ rules, RuleFitA V p ix r)
    (hstr : ∀ r ∈ rules, ∀ ag, Item.agg ag ∈ r.body → dynR.contains ag.rel = false)
    (hbo : ∀ rule ∈ rules, ∀ r ∈ rule.bodyRels, dynR.contains r = false → bo.contains r = true ∧ r < p.rels.length)
    (dl : Deadline) :
    ∀ (fuel : Nat) (rs : RunStT) (a : SccSt),
      WF p.rels.length dynR a → Sim p ix a rs.st.erase → SimM a rs.st.erase → Flags N bo false rs.st →
      ∃ out, sccLoopT I V p σ dynR rules dl fuel rs = .ok out ∧ ∀ rs', out = .timedOut rs' →
        ∃ a', Agg.LoopPreND I cfg p dynR rules a a' ∧ Sim p ix a' rs'.st.erase ∧ Flags N bo false rs'.st := by
  intro fuel
  induction fuel with
  | zero =>
    intro rs a _ _ _ _
    exact ⟨.outOfFuel, rfl, fun rs' h => by cases h⟩
  | succ fuel ih =>
    intro rs a hwf hsim hm hfl
    obtain ⟨s1, hit, a1, hpass, hwf1, _, hsim1, hm1, hfl1⟩ := iteration_simA I hI cfg V hS hperm p hl ix dynR hlt N hN bo σ
      rs.clock rules hR hstr hbo a rs.st hwf hsim hm hfl
    obtain ⟨s2, hsh, hsim2, hfl2, _⟩ := shiftPar_sim hsim1 hfl1
    have hm2 := shiftPar_simM hsim1 hm1 hfl1 hsh
    rw [sccLoopT_succ, hit, bind_ok, hsh, bind_ok]
    cases hc : s1.changed with
    | false =>
      refine ⟨.done { st := s2, clock := rs.clock + 1, checks := rs.checks, iters := rs.iters + 1 }, rfl, ?_⟩
      intro rs' h
      cases h
    | true =>
      cases hd : dl rs.checks with
      | true =>
        refine ⟨.timedOut { st := s2, clock := rs.clock + 1, checks := rs.checks + 1, iters := rs.iters + 1 }, rfl, ?_⟩
        intro rs' h
        simp only [Outcome.timedOut.injEq] at h
        subst h
        exact ⟨Engine.shift a1, Agg.LoopPreND.last hpass, hsim2, hfl2⟩
      | false =>
        obtain ⟨out, hout, hspec⟩ := ih { st := s2, clock := rs.clock + 1, checks := rs.checks + 1, iters := rs.iters + 1 }
          (Engine.shift a1) (WF_shift hwf1) hsim2 hm2 hfl2
        refine ⟨out, hout, ?_⟩
        intro rs' h
        obtain ⟨a', hloop, hsim', hfl'⟩ := hspec rs' h
        exact ⟨a', Agg.LoopPreND.more hpass hloop, hsim', hfl'⟩

end Loop

/-! ## one SCC, the SCCs in order -/

section Run
variable (I : Interp E B G P A) (hI : Plan.Ext I) (cfg : Config) (V : Hir.VarsOf E B) (hS : Plan.Supp I V)
  (hperm : ∀ (fn : A) (l l' : List Tuple), l.Perm l' → I.agg fn l = I.agg fn l')
  (p : Program E B G P A) (hp : RelationalAgg p) (hb : BodyDeclared p) (ix : IxSets)
  (hR : ∀ r ∈ p.rules, RuleFitA V p ix r) (σ : Sched E B G P A) (threads : Nat)

include hI hS hperm hp hb hR in
/-- one SCC under the deadline: no panic; if interrupted, the value left is `abandonScc` of a physical SCC state (protocol state
`Flags`, unfrozen) simulating a state in which the nondeterministic engine may abandon the SCC -/
theorem runSccT_simParA (dl : Deadline) (fuel : Nat) (scc : List Nat) (hstrat : aggOverDynamic p scc = false) (ps : ProgStT)
    (st : St) (hs : SimStParM p ix (max threads 1) st ps.st) :
    ∃ out, runSccT I V p σ threads dl fuel scc ps = .ok out ∧ ∀ ps', out = .timedOut ps' →
      ∃ a' ph, Agg.SccPreND I cfg p scc st a' ∧ Sim p ix a' ph.erase ∧ Flags (max threads 1) (bodyOnly p scc) false ph ∧
        ps'.st = abandonScc threads p scc ph := by
  obtain ⟨hl, hh⟩ := hp
  have hN : 0 < max threads 1 := by omega
  have hrules := sccRules_sub p scc
  have hRs : ∀ r ∈ sccRules p scc, RuleFitA V p ix r := fun r hr => hR r (hrules r hr)
  have hstr : ∀ r ∈ sccRules p scc, ∀ ag, Item.agg ag ∈ r.body → (dynRels p scc).contains ag.rel = false :=
    fun r hr ag ha => Agg.aggOverDynamic_false p scc hstrat r hr ag ha
  have hlt : ∀ r, (dynRels p scc).contains r = true → r < p.rels.length := by
    intro r hr
    obtain ⟨rule, hrule, h, hhd, rfl⟩ := (dynRels_mem p scc r).mp hr
    exact hh rule (hrules rule hrule) h hhd
  have hbo : ∀ rule ∈ sccRules p scc, ∀ r ∈ rule.bodyRels, (dynRels p scc).contains r = false →
      (bodyOnly p scc).contains r = true ∧ r < p.rels.length := by
    intro rule hrule r hr hnd
    refine ⟨?_, hb rule (hrules rule hrule) r hr⟩
    rw [List.contains_iff_mem]
    unfold bodyOnly
    rw [List.mem_filter]
    exact ⟨List.mem_flatMap.mpr ⟨rule, hrule, hr⟩, by rw [hnd]; rfl⟩
  have hwf0 := WF_enterA hs.inv (dynRels p scc)
  have hsim0 : Sim p ix (Engine.enterScc st (dynRels p scc)) (enterScc threads p scc ps.st).erase := by
    rw [erase_enterScc]
    exact enter_sim hs.sim _ (fun r hr => by rw [hs.inv.len]; exact hlt r (List.contains_iff_mem.mpr hr))
  have hm0 : SimM (Engine.enterScc st (dynRels p scc)) (enterScc threads p scc ps.st).erase := by
    rw [erase_enterScc]
    exact enter_simM hs.simM _
  have hfl0 := Flags_enterScc threads p scc ps.st hs.fl
  rw [runSccT_eq]
  by_cases hlp : isLooping p scc = true
  · rw [if_pos hlp]
    obtain ⟨out, hout, hspec⟩ := sccLoopT_simParA I hI cfg V hS hperm p hl ix (dynRels p scc) hlt (max threads 1) hN
      (bodyOnly p scc) σ (sccRules p scc) hRs hstr hbo dl fuel
      { st := enterScc threads p scc ps.st, clock := ps.clock, checks := ps.checks, iters := 0 } _ hwf0 hsim0 hm0 hfl0
    rw [hout, bind_ok]
    refine ⟨_, rfl, ?_⟩
    intro ps' h
    cases out with
    | done rs => simp [endLoopT] at h
    | outOfFuel => simp [endLoopT] at h
    | timedOut rs =>
      simp only [endLoopT, Outcome.timedOut.injEq] at h
      subst h
      obtain ⟨a', hpre, hsim', hfl'⟩ := hspec rs rfl
      refine ⟨a', rs.st, ?_, hsim', hfl', rfl⟩
      unfold Agg.SccPreND
      rw [if_pos hlp]
      exact hpre
  · rw [if_neg hlp]
    obtain ⟨s1, hit, a1, hpass, hwf1, _, hsim1, hm1, hfl1⟩ := iteration_simA I hI cfg V hS hperm p hl ix (dynRels p scc) hlt
      (max threads 1) hN (bodyOnly p scc) σ ps.clock (sccRules p scc) hRs hstr hbo _ _ hwf0 hsim0 hm0 hfl0
    obtain ⟨s2, hsh2, hsim2, hfl2, _⟩ := shiftPar_sim hsim1 hfl1
    obtain ⟨s3, hsh3, hsim3, hfl3, _⟩ := shiftPar_sim hsim2 hfl2
    rw [hit, bind_ok, hsh2, bind_ok, hsh3, bind_ok]
    cases hd : dl ps.checks with
    | false =>
      simp only [Bool.false_eq_true, if_false, pure_eq_ok]
      exact ⟨_, rfl, fun ps' h => by cases h⟩
    | true =>
      simp only [if_true, pure_eq_ok]
      refine ⟨_, rfl, ?_⟩
      intro ps' h
      simp only [Outcome.timedOut.injEq] at h
      subst h
      refine ⟨Engine.shift (Engine.shift a1), s3, ?_, hsim3, hfl3, rfl⟩
      unfold Agg.SccPreND
      rw [if_neg hlp]
      exact ⟨a1, hpass, rfl⟩

include hI hS hperm hp hb hR in
/-- the SCCs in order under the deadline: no panic; an interrupted call = completed SCCs of the nondeterministic engine + one
abandoned SCC -/
theorem runSccsT_simParA (dl : Deadline) (fuel : Nat) : ∀ (order : SccOrder), Stratified p order → ∀ (ps : ProgStT) (st : St),
    SimStParM p ix (max threads 1) st ps.st →
    ∃ out, runSccsT I V p σ threads dl fuel order ps = .ok out ∧ ∀ ps', out = .timedOut ps' →
      ∃ (done : SccOrder) (scc : List Nat) (rest : SccOrder) (stMid : St) (a' : SccSt) (ph : PCScc),
        order = done ++ scc :: rest ∧ SccsND I cfg p done st stMid ∧ Agg.SccPreND I cfg p scc stMid a' ∧
        Sim p ix a' ph.erase ∧ Flags (max threads 1) (bodyOnly p scc) false ph ∧ ps'.st = abandonScc threads p scc ph := by
  intro order
  induction order with
  | nil =>
    intro _ ps st _
    exact ⟨.done ps, rfl, fun ps' h => by cases h⟩
  | cons scc rest ih =>
    intro hst ps st hs
    obtain ⟨out, hout, hspec⟩ := runSccT_simParA I hI cfg V hS hperm p hp hb ix hR σ threads dl fuel scc (hst scc (by simp))
      ps st hs
    cases out with
    | done ps1 =>
      have hscc' := runSccT_done I V p σ threads dl fuel scc ps ps1 hout
      obtain ⟨res, hres, hsp⟩ := runScc_simParA I hI cfg V hS hperm p hp hb ix hR σ threads fuel scc (hst scc (by simp))
        ⟨ps.st, ps.clock, ps.iters⟩ st hs
      rw [hscc'] at hres
      have hres' : res = some ⟨ps1.st, ps1.clock, ps1.iters⟩ := by
        injection hres with hres
        exact hres.symm
      obtain ⟨st1, hnd, hs1⟩ := hsp _ hres'
      obtain ⟨out2, hout2, hspec2⟩ := ih (fun s hs' => hst s (List.mem_cons_of_mem _ hs')) ps1 st1 hs1
      refine ⟨out2, by simp only [runSccsT, hout]; exact hout2, ?_⟩
      intro ps' h
      obtain ⟨done, scc', rest', stMid, a', ph, ho, hdone, hpre, hsim, hfl, hab⟩ := hspec2 ps' h
      exact ⟨scc :: done, scc', rest', stMid, a', ph, by rw [ho]; rfl, SccsND.cons hnd hdone, hpre, hsim, hfl, hab⟩
    | timedOut x =>
      refine ⟨.timedOut x, by simp only [runSccsT, hout], ?_⟩
      intro ps' h
      obtain ⟨a', ph, hpre, hsim, hfl, hab⟩ := hspec x rfl
      simp only [Outcome.timedOut.injEq] at h
      subst h
      exact ⟨[], scc, rest, st, a', ph, rfl, SccsND.nil, hpre, hsim, hfl, hab⟩
    | outOfFuel =>
      exact ⟨.outOfFuel, by simp only [runSccsT, hout], fun ps' h => by cases h⟩

end Run

/-! ## `run_timeout` -/

/-- **`run_timeout` of a stratified parallel program never panics**, whatever the schedule, the pool, the deadline oracle and
the fuel; a call that returned `false` is a prefix of an execution of the nondeterministic engine, the value left has the rows of
the SCC state in which that prefix ends, is typed, and every stored index is unfrozen -/
theorem runTimeoutPar_linkA (I : Interp E B G P A) (hI : Plan.Ext I) (V : Hir.VarsOf E B) (hS : Plan.Supp I V)
    (hperm : ∀ (fn : A) (l l' : List Tuple), l.Perm l' → I.agg fn l = I.agg fn l')
    (p : Program E B G P A) (ix : IxSets) (order : SccOrder) (σ : Sched E B G P A) (threads : Nat) (dl : Deadline)
    (fuel : Nat) (s : PCSt) (hp : RelationalAgg p) (hst : Stratified p order) (hb : BodyDeclared p)
    (hplan : planOk V p ix = true) (hagg : aggPlanOk V p ix = true)
    (hd : ∀ r ∈ p.rules, Hir.Desugared V r = true ∧ Plan.WellScoped V r = true)
    (hs : WFPCSt p s) :
    ∃ out, runTimeout I V p ix order σ threads dl fuel s = .ok out ∧ ∀ o, out = .timedOut o →
      ∃ a', Agg.RunPreND I {} p order (absSt (s.map PCRel.erase)) a' ∧ a'.rels.length = o.st.length ∧
        (∀ r, (relSt a'.rels r).rows = (pcrel o.st r).rows) ∧ (∀ r, ∀ t ∈ (pcrel o.st r).rows, t.length = arityOf p r) ∧
        StFlags (max threads 1) o.st := by
  have hR := ruleFitA_of_planOk V p ix hplan hagg hd
  obtain ⟨st0, hupd, _, hfl0, hsim0⟩ := updateIndices_simSt p threads σ ix s hs.2.1
  have hm0 := updateIndices_simStM threads σ ix s st0 hupd
  obtain ⟨out, hout, hspec⟩ := runSccsT_simParA I hI {} V hS hperm p hp hb ix hR σ threads dl fuel order hst
    { st := st0, clock := 0, checks := 0, iters := [] } _ ⟨StI_start p _ (wfPSt_erase hs), hsim0, hm0, hfl0⟩
  refine ⟨out, ?_, ?_⟩
  · show (updateIndices threads σ ix s >>= fun s0 =>
      runSccsT I V p σ threads dl fuel order { st := s0, clock := 0, checks := 0, iters := [] }) = _
    rw [hupd]; exact hout
  · intro o ho
    obtain ⟨done, scc, rest, stMid, a', ph, hord, hdone, hpre, hsim, hfl, hab⟩ := hspec o ho
    have hrows : ∀ r, (relSt a'.rels r).rows = (pcrel o.st r).rows := by
      intro r
      rw [hab, abandonPar_rows, hsim.rows r]
      show (prel (ph.rels.map PCRel.erase) r).rows = _
      rw [erase_rows]
    refine ⟨a', ⟨done, scc, rest, stMid, hord, hdone, hpre⟩, ?_, hrows, ?_, ?_⟩
    · rw [hab, abandonPar_length]
      have := hsim.len
      simpa [PCScc.erase] using this
    · intro r t ht
      rw [← hrows r] at ht
      exact hsim.typed r t ht
    · rw [hab]; exact abandon_flagsPar threads p scc hfl

section Link
variable (I : Interp E B G P A) (hI : Plan.Ext I) (V : Hir.VarsOf E B) (hS : Plan.Supp I V)
  (hperm : AggPermInvariant I)
  (p : Program E B G P A) (ix : IxSets) (order : SccOrder)
  (hp : RelationalAgg p) (ho : validOrder p order = true) (hst : Stratified p order) (hb : BodyDeclared p)
  (hplan : planOk V p ix = true) (hagg : aggPlanOk V p ix = true)
  (hd : ∀ r ∈ p.rules, Hir.Desugared V r = true ∧ Plan.WellScoped V r = true)

include hI hS hperm hp ho hst hb hplan hagg hd in
/-- **`run_timeout` from any runnable value between the inputs and the reference result: no panic; if it returned `false`, the
value left is runnable, extends the original value and holds only facts of the reference result** -/
theorem timeout_false_physParA (s t : PCSt) (σM σ : Sched E B G P A) (threadsM threads fuelM fuel : Nat) (dl : Deadline)
    (oM : ProgSt) (hs : WFPCSt p s) (ht : WFPCSt p t)
    (hM : run I V p ix order σM threadsM fuelM s = .ok (some oM))
    (hext : PCExt p s t) (hsound : ∀ f, factsOf t f → factsOf oM.st f) :
    ∃ out, runTimeout I V p ix order σ threads dl fuel t = .ok out ∧ ∀ o, out = .timedOut o →
      WFPCSt p o.st ∧ PCExt p s o.st ∧ (∀ f, factsOf o.st f → factsOf oM.st f) := by
  obtain ⟨resM, hresM, hspM⟩ := runPar_linkA I hI V hS hperm p ix order hp ho hst hb hplan hagg hd σM threadsM fuelM s hs
  rw [hM] at hresM
  have hresM' : resM = some oM := by
    injection hresM with h
    exact h.symm
  obtain ⟨stM, hMnd, hrowsM, _, _⟩ := hspM oM hresM'
  obtain ⟨out, hout, hspec⟩ := runTimeoutPar_linkA I hI V hS hperm p ix order σ threads dl fuel t hp hst hb hplan hagg hd ht
  refine ⟨out, hout, ?_⟩
  intro o ho'
  obtain ⟨a', hpre, hlen, hrows, htyped, hfl⟩ := hspec o ho'
  have hsound' : ∀ f, Engine.factsOf (absSt (t.map PCRel.erase)) f → Engine.factsOf stM f := by
    intro f hf
    have hf' : f.args ∈ (relSt (absSt (t.map PCRel.erase)) f.rel).rows := hf
    rw [relSt_absSt, erase_rows] at hf'
    show f.args ∈ (relSt stM f.rel).rows
    rw [hrowsM]
    exact hsound f hf'
  obtain ⟨h1, h2, h3⟩ := Agg.timeoutND_sound_from I {} p order hp.1 hp.2 ho hst hperm (absSt (s.map PCRel.erase))
    (absSt (t.map PCRel.erase)) stM a' (wfSt'_absSt p _ (wfPSt_erase hs)) (wfSt'_absSt p _ (wfPSt_erase ht)) hMnd
    hext.erase.abs hsound' hpre
  refine ⟨⟨by rw [← hlen]; exact h1, htyped, ?_⟩, ?_, ?_⟩
  · intro pr hpr
    obtain ⟨f1, f2⟩ := hfl pr hpr
    exact ⟨f1, fun ci hci => (f2 ci hci).2⟩
  · intro r hr
    obtain ⟨extra, he, hn, hdj⟩ := h2 r hr
    rw [hrows r, relSt_absSt, erase_rows] at he
    rw [relSt_absSt, erase_rows] at hdj
    exact ⟨extra, he, hn, hdj⟩
  · intro f hf
    have hf' : f.args ∈ (pcrel o.st f.rel).rows := hf
    rw [← hrows] at hf'
    have := h3 f hf'
    show f.args ∈ (pcrel oM.st f.rel).rows
    rw [← hrowsM]
    exact this

end Link

end AscentVerif.PhysPar
