import AscentVerif.Proofs.UFRun
import AscentVerif.Spec.UFSpec
/-!
# Refinement: every history inside the contract runs without panic on the model and ends in a
well-formed state whose partition is `EqvGen` of the united pairs
-/
namespace AscentVerif

/-! ## facts about `EqvGen` -/

theorem EqvGen.mono {α : Type} {r r' : α → α → Prop} (h : ∀ a b, r a b → r' a b) {a b : α} (e : EqvGen r a b) :
    EqvGen r' a b := by
  induction e with
  | rel h' => exact .rel (h _ _ h')
  | refl => exact .refl _
  | symm _ ih => exact .symm ih
  | trans _ _ ih1 ih2 => exact .trans ih1 ih2

/-- adding one edge `(a, b)` merges exactly the classes of `a` and `b` -/
theorem EqvGen.add_edge {α : Type} (r : α → α → Prop) (a b i j : α) :
    EqvGen (fun p q => (p = a ∧ q = b) ∨ r p q) i j ↔
      (EqvGen r i j ∨ (EqvGen r i a ∧ EqvGen r b j) ∨ (EqvGen r i b ∧ EqvGen r a j)) := by
  constructor
  · intro h
    induction h with
    | rel h =>
      rcases h with ⟨rfl, rfl⟩ | h
      · exact Or.inr (Or.inl ⟨.refl _, .refl _⟩)
      · exact Or.inl (.rel h)
    | refl => exact Or.inl (.refl _)
    | symm _ ih =>
      rcases ih with h | ⟨h1, h2⟩ | ⟨h1, h2⟩
      · exact Or.inl h.symm
      · exact Or.inr (Or.inr ⟨h2.symm, h1.symm⟩)
      · exact Or.inr (Or.inl ⟨h2.symm, h1.symm⟩)
    | trans _ _ ih1 ih2 =>
      rcases ih1 with h | ⟨h1, h2⟩ | ⟨h1, h2⟩ <;> rcases ih2 with h' | ⟨h3, h4⟩ | ⟨h3, h4⟩
      · exact Or.inl (h.trans h')
      · exact Or.inr (Or.inl ⟨h.trans h3, h4⟩)
      · exact Or.inr (Or.inr ⟨h.trans h3, h4⟩)
      · exact Or.inr (Or.inl ⟨h1, h2.trans h'⟩)
      · exact Or.inl (h1.trans (h3.symm.trans (h2.symm.trans h4)))
      · exact Or.inl (h1.trans h4)
      · exact Or.inr (Or.inr ⟨h1, h2.trans h'⟩)
      · exact Or.inl (h1.trans h4)
      · exact Or.inl (h1.trans (h3.symm.trans (h2.symm.trans h4)))
  · have lift : ∀ {p q}, EqvGen r p q → EqvGen (fun p q => (p = a ∧ q = b) ∨ r p q) p q :=
      fun h => h.mono fun _ _ h => Or.inr h
    have edge : EqvGen (fun p q => (p = a ∧ q = b) ∨ r p q) a b := .rel (Or.inl ⟨rfl, rfl⟩)
    rintro (h | ⟨h1, h2⟩ | ⟨h1, h2⟩)
    · exact lift h
    · exact (lift h1).trans (edge.trans (lift h2))
    · exact (lift h1).trans (edge.symm.trans (lift h2))

/-- an element that occurs in no pair is related only to itself -/
theorem EqvGen.isolated {α : Type} {r : α → α → Prop} {x : α} (hx : ∀ y, ¬ r x y ∧ ¬ r y x) {p q : α}
    (h : EqvGen r p q) : (p = x ∨ q = x) → p = q := by
  induction h with
  | rel h =>
    rintro (rfl | rfl)
    · exact absurd h (hx _).1
    · exact absurd h (hx _).2
  | refl => intro _; rfl
  | symm _ ih => intro h; exact (ih h.symm).symm
  | trans _ _ ih1 ih2 =>
    rintro (h | h)
    · have e1 := ih1 (Or.inl h); subst e1; exact ih2 (Or.inl h)
    · have e2 := ih2 (Or.inr h); subst e2; exact ih1 (Or.inr h)

namespace UF

/-- the model state `u` represents the abstract state `s` -/
structure Refines (u : UnionFind) (s : Spec) : Prop where
  wf : WF u
  len : s.items.length = u.elems.length
  val : ∀ i, i < u.elems.length → s.items[i]? = some (valueOf u.elems i)
  same_iff : ∀ i j, i < u.elems.length → j < u.elems.length →
    (Same u.elems i j ↔ s.Conn (valueOf u.elems i) (valueOf u.elems j))
  pairs_mem : ∀ x y, (x, y) ∈ s.pairs → x ∈ s.items ∧ y ∈ s.items
  next : NextCycles u.elems

theorem refines_empty : Refines {} {} := by
  refine ⟨wf_empty, rfl, ?_, ?_, ?_, nextCycles_nil⟩ <;> simp

theorem Refines.mem_iff {u : UnionFind} {s : Spec} (R : Refines u s) (x : Int) :
    x ∈ s.items ↔ ∃ i, i < u.elems.length ∧ valueOf u.elems i = x := by
  rw [List.mem_iff_getElem?]
  constructor
  · rintro ⟨i, hi⟩
    have hlt : i < u.elems.length := by rw [← R.len]; exact (List.getElem?_eq_some_iff.mp hi).1
    rw [R.val i hlt] at hi
    exact ⟨i, hlt, Option.some.inj hi⟩
  · rintro ⟨i, hi, rfl⟩; exact ⟨i, R.val i hi⟩

theorem Refines.mem_iff_lookup {u : UnionFind} {s : Spec} (R : Refines u s) (x : Int) :
    x ∈ s.items ↔ (lookup u.items x).isSome = true := by
  rw [R.mem_iff]
  constructor
  · rintro ⟨i, hi, rfl⟩
    obtain ⟨id, h, _⟩ := R.wf.item_of_elem i hi
    simp [h]
  · intro h
    cases hl : lookup u.items x with
    | none => simp [hl] at h
    | some id => exact R.wf.elem_of_item x id hl

theorem refines_of_keeps {u u' : UnionFind} {s : Spec} (R : Refines u s) (K : Keeps u u') : Refines u' s := by
  refine ⟨K.wf, by rw [K.length_eq]; exact R.len, ?_, ?_, R.pairs_mem, K.next_ok R.next⟩
  · intro i hi; rw [K.length_eq] at hi; rw [K.value_eq]; exact R.val i hi
  · intro i j hi hj; rw [K.length_eq] at hi hj; rw [K.same_iff, K.value_eq, K.value_eq]; exact R.same_iff i j hi hj

/-- `add x` refines `addItem x`; the returned id lies in the class of `x`'s element; nothing is split -/
theorem add_refines {u : UnionFind} {s : Spec} (R : Refines u s) (x : Int) :
    ∃ u' isNew id, u.add x = .ok (u', isNew, id) ∧ Refines u' (s.addItem x) ∧
      (∃ i, i < u'.elems.length ∧ valueOf u'.elems i = x ∧ Same u'.elems id i) ∧
      (∀ i j, Same u.elems i j → Same u'.elems i j) := by
  obtain ⟨u', isNew, id, hadd, P⟩ := add_ok R.wf x
  refine ⟨u', isNew, id, hadd, ?_, P.id_same, ?_⟩
  · cases isNew with
    | false =>
      obtain ⟨hsome, K⟩ := P.old rfl
      have hx : x ∈ s.items := (R.mem_iff_lookup x).mpr hsome
      simp only [Spec.addItem, if_pos hx]
      exact refines_of_keeps R K
    | true =>
      obtain ⟨hnone, _, hlen, hvlt, hvnew, hsame, _⟩ := P.new rfl
      have hx : x ∉ s.items := by
        intro h; have := (R.mem_iff_lookup x).mp h; simp [hnone] at this
      simp only [Spec.addItem, if_neg hx]
      have hiso : ∀ y, ¬ (x, y) ∈ s.pairs ∧ ¬ (y, x) ∈ s.pairs :=
        fun y => ⟨fun h => hx (R.pairs_mem _ _ h).1, fun h => hx (R.pairs_mem _ _ h).2⟩
      have hvx : ∀ j, j < u.elems.length → valueOf u.elems j ≠ x := by
        intro j hj h; exact hx ((R.mem_iff x).mpr ⟨j, hj, h⟩)
      refine ⟨P.wf, by simp [hlen, R.len], ?_, ?_, ?_, P.next_ok R.next⟩
      · intro i hi; rw [hlen] at hi
        by_cases h : i < u.elems.length
        · show (s.items ++ [x])[i]? = _
          rw [List.getElem?_append_left (by rw [R.len]; exact h), hvlt i h]; exact R.val i h
        · have : i = u.elems.length := by omega
          subst this
          show (s.items ++ [x])[u.elems.length]? = _
          rw [List.getElem?_append_right (by rw [R.len]; exact Nat.le_refl _), R.len, hvnew]; simp
      · intro i j hi hj; rw [hlen] at hi hj
        show Same u'.elems i j ↔ EqvGen (fun a b => (a, b) ∈ s.pairs) (valueOf u'.elems i) (valueOf u'.elems j)
        rw [hsame]
        by_cases h1 : i < u.elems.length <;> by_cases h2 : j < u.elems.length
        · rw [hvlt i h1, hvlt j h2]
          constructor
          · rintro (h | ⟨h, _⟩)
            · exact (R.same_iff i j h1 h2).mp h
            · omega
          · intro h; exact Or.inl ((R.same_iff i j h1 h2).mpr h)
        · have : j = u.elems.length := by omega
          subst this
          rw [hvlt i h1, hvnew]
          constructor
          · rintro (h | ⟨h, _⟩)
            · have := h.lt_right; omega
            · omega
          · intro h; exact absurd (EqvGen.isolated hiso h (Or.inr rfl)) (hvx i h1)
        · have : i = u.elems.length := by omega
          subst this
          rw [hvlt j h2, hvnew]
          constructor
          · rintro (h | ⟨_, h⟩)
            · have := h.lt_left; omega
            · omega
          · intro h; exact absurd (EqvGen.isolated hiso h (Or.inl rfl)).symm (hvx j h2)
        · have e1 : i = u.elems.length := by omega
          have e2 : j = u.elems.length := by omega
          subst e1; subst e2
          exact ⟨fun _ => .refl _, fun _ => Or.inr ⟨rfl, rfl⟩⟩
      · intro a b h
        obtain ⟨h1, h2⟩ := R.pairs_mem a b h
        exact ⟨List.mem_append_left _ h1, List.mem_append_left _ h2⟩
  · intro i j h
    cases isNew with
    | false => exact ((P.old rfl).2.same_iff i j).mpr h
    | true =>
      obtain ⟨_, _, _, _, _, hsame, _⟩ := P.new rfl
      exact (hsame i j).mpr (Or.inl h)

/-- `union a b` where `a`, `b` lie in the classes of the elements carrying `x`, `y`: refines adding the pair `(x, y)` -/
theorem union_refines {u : UnionFind} {s : Spec} (R : Refines u s) {a b ia ib : Nat}
    (ha : Same u.elems a ia) (hb : Same u.elems b ib) :
    ∃ u' w, u.union a b = .ok (u', w) ∧
      Refines u' { s with pairs := (valueOf u.elems ia, valueOf u.elems ib) :: s.pairs } := by
  obtain ⟨u', w, hu, P⟩ := union_ok R.wf ha.lt_left hb.lt_left
  refine ⟨u', w, hu, P.wf, by rw [P.length_eq]; exact R.len, ?_, ?_, ?_, P.next_ok R.next⟩
  · intro i hi; rw [P.length_eq] at hi; rw [P.value_eq]; exact R.val i hi
  · intro i j hi hj; rw [P.length_eq] at hi hj
    rw [P.value_eq, P.value_eq, P.same_iff]
    have hia := ha.lt_right
    have hib := hb.lt_right
    show _ ↔ EqvGen (fun p q => (p, q) ∈ (valueOf u.elems ia, valueOf u.elems ib) :: s.pairs) _ _
    have e : ∀ p q : Int, ((p, q) ∈ (valueOf u.elems ia, valueOf u.elems ib) :: s.pairs) ↔
        ((p = valueOf u.elems ia ∧ q = valueOf u.elems ib) ∨ (p, q) ∈ s.pairs) := by
      intro p q; simp [List.mem_cons]
    have e' : (fun p q : Int => (p, q) ∈ (valueOf u.elems ia, valueOf u.elems ib) :: s.pairs) =
        (fun p q => (p = valueOf u.elems ia ∧ q = valueOf u.elems ib) ∨ (p, q) ∈ s.pairs) := by
      funext p q; exact propext (e p q)
    rw [e', EqvGen.add_edge]
    have c := R.same_iff
    constructor
    · rintro (h | ⟨h1, h2⟩ | ⟨h1, h2⟩)
      · exact Or.inl ((c i j hi hj).mp h)
      · exact Or.inr (Or.inl ⟨(c i ia hi hia).mp (h1.trans ha), (c ib j hib hj).mp (hb.symm.trans h2)⟩)
      · exact Or.inr (Or.inr ⟨(c i ib hi hib).mp (h1.trans hb), (c ia j hia hj).mp (ha.symm.trans h2)⟩)
    · rintro (h | ⟨h1, h2⟩ | ⟨h1, h2⟩)
      · exact Or.inl ((c i j hi hj).mpr h)
      · exact Or.inr (Or.inl ⟨((c i ia hi hia).mpr h1).trans ha.symm, hb.trans ((c ib j hib hj).mpr h2)⟩)
      · exact Or.inr (Or.inr ⟨((c i ib hi hib).mpr h1).trans hb.symm, ha.trans ((c ia j hia hj).mpr h2)⟩)
  · intro p q h
    rcases List.mem_cons.mp h with h | h
    · cases h
      exact ⟨(R.mem_iff _).mpr ⟨ia, ha.lt_right, rfl⟩, (R.mem_iff _).mpr ⟨ib, hb.lt_right, rfl⟩⟩
    · exact R.pairs_mem p q h

/-- one operation inside the contract: no panic, and the result represents the abstract result -/
theorem step_refines {u : UnionFind} {s s' : Spec} (R : Refines u s) (op : Op) (h : s.step op = some s') :
    ∃ u', step u op = .ok u' ∧ Refines u' s' := by
  cases op with
  | add x =>
    obtain ⟨u', isNew, id, hadd, R', _, _⟩ := add_refines R x
    simp only [Spec.step, Option.some.injEq] at h; subst h
    exact ⟨u', by simp [step, hadd], R'⟩
  | findItem x =>
    simp only [Spec.step, Option.some.injEq] at h; subst h
    cases hl : lookup u.items x with
    | none => exact ⟨u, by simp [step, findItem_none hl], R⟩
    | some id =>
      obtain ⟨u', r, hf, K, _⟩ := findItem_some R.wf hl
      exact ⟨u', by simp [step, hf], refines_of_keeps R K⟩
  | find id =>
    simp only [Spec.step] at h
    split at h
    · next hid =>
      cases h
      obtain ⟨u', r, hf, K, _⟩ := find_ok R.wf (by rw [← R.len]; exact hid)
      exact ⟨u', by simp [step, hf], refines_of_keeps R K⟩
    · cases h
  | union a b =>
    simp only [Spec.step] at h
    split at h
    · next x y hx hy =>
      cases h
      have ha : a < u.elems.length := by rw [← R.len]; exact (List.getElem?_eq_some_iff.mp hx).1
      have hb : b < u.elems.length := by rw [← R.len]; exact (List.getElem?_eq_some_iff.mp hy).1
      have vx : valueOf u.elems a = x := by have := R.val a ha; rw [hx] at this; exact (Option.some.inj this).symm
      have vy : valueOf u.elems b = y := by have := R.val b hb; rw [hy] at this; exact (Option.some.inj this).symm
      obtain ⟨u', w, hu, R'⟩ := union_refines R (R.wf.forest.same_refl ha) (R.wf.forest.same_refl hb)
      rw [vx, vy] at R'
      exact ⟨u', by simp [step, hu], R'⟩
    · cases h
  | unionAdd x y =>
    simp only [Spec.step, Option.some.injEq] at h; subst h
    obtain ⟨u1, n1, id1, hadd1, R1, ⟨i1, hi1, hv1, hs1⟩, _⟩ := add_refines R x
    obtain ⟨u2, n2, id2, hadd2, R2, ⟨i2, hi2, hv2, hs2⟩, hmono⟩ := add_refines R1 y
    have hs1' : Same u2.elems id1 i1 := hmono _ _ hs1
    -- the element carrying `x` keeps its index and value in `u2`
    have hv1' : valueOf u2.elems i1 = x := by
      have h1 := R1.val i1 hi1
      have hlt : i1 < u2.elems.length := hs1'.lt_right
      have h2 := R2.val i1 hlt
      have : ∀ (s1 : Spec), i1 < s1.items.length → (s1.addItem y).items[i1]? = s1.items[i1]? := by
        intro s1 hlt; unfold Spec.addItem; split
        · rfl
        · exact List.getElem?_append_left hlt
      rw [this _ (by rw [R1.len]; exact hi1), h1] at h2
      rw [← hv1]; exact (Option.some.inj h2).symm
    obtain ⟨u3, w, hu, R3⟩ := union_refines R2 hs1' hs2
    rw [hv1', hv2] at R3
    exact ⟨u3, by simp [step, UnionFind.unionAdd, hadd1, hadd2, hu], R3⟩

/-- every history inside the contract runs without panic and ends in a state that represents
its abstract meaning -/
theorem run_refines {u : UnionFind} {s s' : Spec} (R : Refines u s) (ops : List Op) (h : s.run ops = some s') :
    ∃ u', run u ops = .ok u' ∧ Refines u' s' := by
  induction ops generalizing u s with
  | nil => simp only [Spec.run, Option.some.injEq] at h; subst h; exact ⟨u, rfl, R⟩
  | cons op rest ih =>
    simp only [Spec.run] at h
    cases hs : s.step op with
    | none => simp [hs] at h
    | some s1 =>
      rw [hs] at h
      obtain ⟨u1, h1, R1⟩ := step_refines R op hs
      obtain ⟨u', h2, R'⟩ := ih R1 h
      exact ⟨u', by simp [run, h1, h2], R'⟩

end UF
end AscentVerif
