import AscentVerif.Proofs.LatticeSet
/-!
# `BoundedSet<BOUND, T>` (`BSet n`)
-/
namespace AscentVerif.Lat

theorem bset_wf_none {n : Nat} : BSet.WF (⟨none⟩ : BSet n) := by
  intro x h; cases h

theorem bset_wf_some {n : Nat} (s : LSet) : BSet.WF (⟨some s⟩ : BSet n) ↔ s.WF ∧ s.elems.length ≤ n := by
  constructor
  · intro h; exact h s rfl
  · intro h x hx; cases hx; exact h

theorem bset_le_nn {n : Nat} : le (⟨none⟩ : BSet n) ⟨none⟩ = true := rfl
theorem bset_le_ns {n : Nat} (s : LSet) : le (⟨none⟩ : BSet n) ⟨some s⟩ = false := rfl
theorem bset_le_sn {n : Nat} (s : LSet) : le (⟨some s⟩ : BSet n) ⟨none⟩ = true := rfl
theorem bset_le_ss {n : Nat} (s1 s2 : LSet) : le (⟨some s1⟩ : BSet n) ⟨some s2⟩ = le s1 s2 := rfl
theorem bset_le_none {n : Nat} (a : BSet n) : le a ⟨none⟩ = true := by
  rcases a with ⟨_ | s⟩ <;> rfl

theorem bset_join_ss {n : Nat} (s1 s2 : LSet) : join (⟨some s1⟩ : BSet n) ⟨some s2⟩ =
    if (join s1 s2).elems.length > n then ⟨none⟩ else ⟨some (join s1 s2)⟩ := rfl
theorem bset_joinMut_ss {n : Nat} (s1 s2 : LSet) : joinMut (⟨some s1⟩ : BSet n) ⟨some s2⟩ =
    if (join s1 s2).elems.length > n then (⟨none⟩, true)
    else (⟨some (join s1 s2)⟩, (joinMut s1 s2).2) := rfl
theorem bset_meet_ss {n : Nat} (s1 s2 : LSet) : meet (⟨some s1⟩ : BSet n) ⟨some s2⟩ = ⟨some (meet s1 s2)⟩ := rfl
theorem bset_meetMut_ss {n : Nat} (s1 s2 : LSet) : meetMut (⟨some s1⟩ : BSet n) ⟨some s2⟩ =
    (⟨some (meet s1 s2)⟩, (meetMut s1 s2).2) := rfl

theorem lset_le_refl (s : LSet) : le s s = true := by
  rw [lset_le_iff']; exact fun _ h => h

theorem lset_le_length (s1 s2 : LSet) (h1 : s1.WF) (h2 : s2.WF) (h : le s1 s2 = true) :
    s1.elems.length ≤ s2.elems.length := by
  rw [lset_le_iff'] at h
  exact (sorted_subset_length s2.elems s1.elems h1 h2 h).1

theorem bset_some_ne {n : Nat} (s1 s2 : LSet) : (⟨some s1⟩ : BSet n) ≠ ⟨some s2⟩ ↔ s1 ≠ s2 := by
  simp

theorem lawful_bset' (n : Nat) : LawfulLat (BSet n) BSet.WF where
  pcmp_refl a ha := by
    rcases a with ⟨_ | s⟩
    · rfl
    · exact lawful_lset'.pcmp_refl s ((bset_wf_some s).1 ha).1
  eq_of_pcmp_eq a b ha hb h := by
    rcases a with ⟨_ | s1⟩ <;> rcases b with ⟨_ | s2⟩
    · rfl
    · cases h
    · cases h
    · rw [lawful_lset'.eq_of_pcmp_eq s1 s2 ((bset_wf_some s1).1 ha).1 ((bset_wf_some s2).1 hb).1 h]
  pcmp_swap a b ha hb := by
    rcases a with ⟨_ | s1⟩ <;> rcases b with ⟨_ | s2⟩
    · rfl
    · rfl
    · rfl
    · exact lawful_lset'.pcmp_swap s1 s2 ((bset_wf_some s1).1 ha).1 ((bset_wf_some s2).1 hb).1
  le_trans a b c ha hb hc h1 h2 := by
    rcases a with ⟨_ | s1⟩ <;> rcases b with ⟨_ | s2⟩ <;> rcases c with ⟨_ | s3⟩ <;>
      simp only [bset_le_nn, bset_le_ns, bset_le_sn, bset_le_ss] at * <;> try contradiction
    exact lawful_lset'.le_trans s1 s2 s3 ((bset_wf_some s1).1 ha).1 ((bset_wf_some s2).1 hb).1
      ((bset_wf_some s3).1 hc).1 h1 h2
  join_wf a b ha hb := by
    rcases a with ⟨_ | s1⟩ <;> rcases b with ⟨_ | s2⟩
    · exact bset_wf_none
    · exact bset_wf_none
    · exact bset_wf_none
    · rw [bset_join_ss]
      split
      · exact bset_wf_none
      · rw [bset_wf_some]
        exact ⟨lset_join_wf' s1 s2 ((bset_wf_some s1).1 ha).1 ((bset_wf_some s2).1 hb).1, by omega⟩
  meet_wf a b ha hb := by
    rcases a with ⟨_ | s1⟩ <;> rcases b with ⟨_ | s2⟩
    · exact bset_wf_none
    · exact hb
    · exact ha
    · rw [bset_meet_ss, bset_wf_some]
      have h1 := (bset_wf_some s1).1 ha
      refine ⟨lset_meet_wf' s1 s2, ?_⟩
      have := lset_le_length (meet s1 s2) s1 (lset_meet_wf' s1 s2) h1.1
        (lawful_lset'.meet_le_left s1 s2 h1.1 ((bset_wf_some s2).1 hb).1)
      omega
  le_join_left a b ha hb := by
    rcases a with ⟨_ | s1⟩ <;> rcases b with ⟨_ | s2⟩
    · rfl
    · rfl
    · rfl
    · rw [bset_join_ss]
      split
      · rfl
      · exact lawful_lset'.le_join_left s1 s2 ((bset_wf_some s1).1 ha).1 ((bset_wf_some s2).1 hb).1
  le_join_right a b ha hb := by
    rcases a with ⟨_ | s1⟩ <;> rcases b with ⟨_ | s2⟩
    · rfl
    · rfl
    · rfl
    · rw [bset_join_ss]
      split
      · rfl
      · exact lawful_lset'.le_join_right s1 s2 ((bset_wf_some s1).1 ha).1 ((bset_wf_some s2).1 hb).1
  join_le a b c ha hb hc h1 h2 := by
    rcases c with ⟨_ | s3⟩
    · exact bset_le_none _
    · rcases a with ⟨_ | s1⟩
      · cases h1
      · rcases b with ⟨_ | s2⟩
        · cases h2
        · rw [bset_le_ss] at h1 h2
          have w1 := (bset_wf_some s1).1 ha
          have w2 := (bset_wf_some s2).1 hb
          have w3 := (bset_wf_some s3).1 hc
          have hle := lawful_lset'.join_le s1 s2 s3 w1.1 w2.1 w3.1 h1 h2
          have hlen := lset_le_length _ _ (lset_join_wf' s1 s2 w1.1 w2.1) w3.1 hle
          rw [bset_join_ss]
          split
          · omega
          · exact hle
  meet_le_left a b ha hb := by
    rcases a with ⟨_ | s1⟩ <;> rcases b with ⟨_ | s2⟩
    · rfl
    · rfl
    · exact lset_le_refl s1
    · exact lawful_lset'.meet_le_left s1 s2 ((bset_wf_some s1).1 ha).1 ((bset_wf_some s2).1 hb).1
  meet_le_right a b ha hb := by
    rcases a with ⟨_ | s1⟩ <;> rcases b with ⟨_ | s2⟩
    · rfl
    · exact lset_le_refl s2
    · rfl
    · exact lawful_lset'.meet_le_right s1 s2 ((bset_wf_some s1).1 ha).1 ((bset_wf_some s2).1 hb).1
  le_meet a b c ha hb hc h1 h2 := by
    rcases a with ⟨_ | s1⟩ <;> rcases b with ⟨_ | s2⟩
    · exact bset_le_none _
    · exact h2
    · exact h1
    · rcases c with ⟨_ | s3⟩
      · cases h1
      · exact lawful_lset'.le_meet s1 s2 s3 ((bset_wf_some s1).1 ha).1 ((bset_wf_some s2).1 hb).1
          ((bset_wf_some s3).1 hc).1 h1 h2
  joinMut_fst a b ha hb := by
    rcases a with ⟨_ | s1⟩ <;> rcases b with ⟨_ | s2⟩
    · rfl
    · rfl
    · rfl
    · rw [bset_join_ss, bset_joinMut_ss]
      split <;> rfl
  joinMut_snd a b ha hb := by
    rcases a with ⟨_ | s1⟩ <;> rcases b with ⟨_ | s2⟩
    · show false = true ↔ (⟨none⟩ : BSet n) ≠ ⟨none⟩; simp
    · show false = true ↔ (⟨none⟩ : BSet n) ≠ ⟨none⟩; simp
    · show true = true ↔ (⟨none⟩ : BSet n) ≠ ⟨some s1⟩; simp
    · rw [bset_join_ss, bset_joinMut_ss]
      split
      · simp
      · rw [bset_some_ne]
        exact lawful_lset'.joinMut_snd s1 s2 ((bset_wf_some s1).1 ha).1 ((bset_wf_some s2).1 hb).1
  meetMut_fst a b ha hb := by
    rcases a with ⟨_ | s1⟩ <;> rcases b with ⟨_ | s2⟩ <;> rfl
  meetMut_snd a b ha hb := by
    rcases a with ⟨_ | s1⟩ <;> rcases b with ⟨_ | s2⟩
    · show false = true ↔ (⟨none⟩ : BSet n) ≠ ⟨none⟩; simp
    · show true = true ↔ (⟨some s2⟩ : BSet n) ≠ ⟨none⟩; simp
    · show false = true ↔ (⟨some s1⟩ : BSet n) ≠ ⟨some s1⟩; simp
    · rw [bset_meet_ss, bset_meetMut_ss, bset_some_ne]
      exact lawful_lset'.meetMut_snd s1 s2 ((bset_wf_some s1).1 ha).1 ((bset_wf_some s2).1 hb).1

theorem lawfulB_bset' (n : Nat) : LawfulBLat (BSet n) BSet.WF where
  toLawfulLat := lawful_bset' n
  top_wf := bset_wf_none
  bottom_wf := (bset_wf_some _).2 ⟨by unfold LSet.WF; simp, Nat.zero_le _⟩
  le_top a _ := bset_le_none a
  bottom_le a _ := by
    rcases a with ⟨_ | s⟩
    · rfl
    · show le (⟨[]⟩ : LSet) s = true
      rw [lset_le_iff']
      intro x hx
      cases hx

end AscentVerif.Lat
