import AscentVerif.Model.Desugar
/-!
# C08, auxiliary lemmas that only concern the model of the expansion (`Model/Desugar.lean`)

* one item of a sequence (`expandOne`), how a successful `expandItemsWith` / `expandAltsWith` / `expandInv` decomposes;
* monotonicity of the expansion in the function that expands at the next depth;
* `argsOk` spelled out; `indexOf?`; membership in `originated`.
-/
namespace AscentVerif.Surface
open AscentVerif

variable {E B G P A : Type}

/-! ### one item of a sequence -/

/-- the expansion of ONE item of a sequence (the local `one` of `expandItemsWith`) -/
def expandOne (ops : Ops E B G A) (defs : Defs E B G P A) (full : Bool)
    (recur : ExpSt → SItems E B G P A (MInv E) → Except ExpandErr (SItems E B G P A (MInv E) × ExpSt))
    (st : ExpSt) : SItem E B G P A (MInv E) → Except ExpandErr (SItems E B G P A (MInv E) × ExpSt)
  | .flat f => .ok (.cons (.flat f) .nil, st)
  | .disj alts =>
    match expandAltsWith recur st alts with
    | .error e => .error e
    | .ok (alts', st1) => .ok (.cons (.disj alts') .nil, st1)
  | .mac inv => expandInv ops defs full recur st inv

theorem expandItemsWith_cons (ops : Ops E B G A) (defs : Defs E B G P A) (full : Bool)
    (recur : ExpSt → SItems E B G P A (MInv E) → Except ExpandErr (SItems E B G P A (MInv E) × ExpSt))
    (st : ExpSt) (i : SItem E B G P A (MInv E)) (rest : SItems E B G P A (MInv E)) :
    expandItemsWith ops defs full recur st (.cons i rest) =
      match expandOne ops defs full recur st i with
      | .error e => .error e
      | .ok (is, st1) =>
        match expandItemsWith ops defs full recur st1 rest with
        | .error e => .error e
        | .ok (rest', st2) => .ok (is.append rest', st2) := by
  cases i <;> rfl

theorem expandItemsWith_cons_ok {ops : Ops E B G A} {defs : Defs E B G P A} {full : Bool}
    {recur : ExpSt → SItems E B G P A (MInv E) → Except ExpandErr (SItems E B G P A (MInv E) × ExpSt)}
    {st : ExpSt} {i : SItem E B G P A (MInv E)} {rest : SItems E B G P A (MInv E)} {r : SItems E B G P A (MInv E) × ExpSt}
    (h : expandItemsWith ops defs full recur st (.cons i rest) = .ok r) :
    ∃ is st1 rest', expandOne ops defs full recur st i = .ok (is, st1) ∧
      expandItemsWith ops defs full recur st1 rest = .ok (rest', r.2) ∧ r.1 = is.append rest' := by
  rw [expandItemsWith_cons] at h
  cases h1 : expandOne ops defs full recur st i with
  | error e => rw [h1] at h; cases h
  | ok p =>
    obtain ⟨is, st1⟩ := p
    rw [h1] at h
    simp only at h
    cases h2 : expandItemsWith ops defs full recur st1 rest with
    | error e => rw [h2] at h; cases h
    | ok q =>
      obtain ⟨rest', st2⟩ := q
      rw [h2] at h
      simp only at h
      cases h
      exact ⟨is, st1, rest', rfl, h2, rfl⟩

theorem expandAltsWith_cons_ok {S : Type} {recur : S → SItems E B G P A (MInv E) → Except ExpandErr (SItems E B G P A (MInv E) × S)}
    {st : S} {a : SItems E B G P A (MInv E)} {rest : SAlts E B G P A (MInv E)} {r : SAlts E B G P A (MInv E) × S}
    (h : expandAltsWith recur st (.cons a rest) = .ok r) :
    ∃ a' st1 rest', recur st a = .ok (a', st1) ∧ expandAltsWith recur st1 rest = .ok (rest', r.2) ∧ r.1 = .cons a' rest' := by
  simp only [expandAltsWith] at h
  cases h1 : recur st a with
  | error e => rw [h1] at h; cases h
  | ok p =>
    obtain ⟨a', st1⟩ := p
    rw [h1] at h
    simp only at h
    cases h2 : expandAltsWith recur st1 rest with
    | error e => rw [h2] at h; cases h
    | ok q =>
      obtain ⟨rest', st2⟩ := q
      rw [h2] at h
      simp only at h
      cases h
      exact ⟨a', st1, rest', rfl, h2, rfl⟩

theorem expandInv_ok {ops : Ops E B G A} {defs : Defs E B G P A} {full : Bool}
    {recur : ExpSt → SItems E B G P A (MInv E) → Except ExpandErr (SItems E B G P A (MInv E) × ExpSt)}
    {st : ExpSt} {inv : MInv E} {r : SItems E B G P A (MInv E) × ExpSt}
    (h : expandInv ops defs full recur st inv = .ok r) :
    ∃ d exp st', defs[inv.mac]? = some d ∧ argsOk d.params inv.args = true ∧
      recur { st with inv := st.inv + 1 } (instItems ops inv.args (tagVar st.inv) d.body) = .ok (exp, st') ∧
      r = (renItems ops true (untagMap st.inv) (renItems ops full (renameMap st.inv st'.gs exp) exp),
            { st' with gs := st'.gs + (originated st.inv exp).length }) := by
  unfold expandInv at h
  cases hd : defs[inv.mac]? with
  | none => rw [hd] at h; cases h
  | some d =>
    rw [hd] at h
    simp only at h
    cases ha : argsOk d.params inv.args with
    | false => rw [ha] at h; cases h
    | true =>
      rw [ha] at h
      simp only [Bool.not_true, Bool.false_eq_true, if_false] at h
      cases hr : recur { st with inv := st.inv + 1 } (instItems ops inv.args (tagVar st.inv) d.body) with
      | error e => rw [hr] at h; cases h
      | ok p =>
        obtain ⟨exp, st'⟩ := p
        rw [hr] at h
        simp only at h
        cases h
        exact ⟨d, exp, st', rfl, ha, hr, rfl⟩

/-! ### monotonicity in `recur` -/

def RecLe {S : Type} (recur recur' : S → SItems E B G P A (MInv E) → Except ExpandErr (SItems E B G P A (MInv E) × S)) : Prop :=
  ∀ st items r, recur st items = .ok r → recur' st items = .ok r

theorem expandAltsWith_mono {S : Type} {recur recur' : S → SItems E B G P A (MInv E) → Except ExpandErr (SItems E B G P A (MInv E) × S)}
    (hle : RecLe recur recur') : ∀ (alts : SAlts E B G P A (MInv E)) (st : S) r,
    expandAltsWith recur st alts = .ok r → expandAltsWith recur' st alts = .ok r
  | .nil, st, r, h => h
  | .cons a rest, st, r, h => by
    obtain ⟨a', st1, rest', h1, h2, h3⟩ := expandAltsWith_cons_ok h
    have h2' := expandAltsWith_mono hle rest st1 _ h2
    simp only [expandAltsWith, hle _ _ _ h1, h2']
    obtain ⟨r1, r2⟩ := r
    simp only at h3
    rw [h3]

theorem expandInv_mono {ops : Ops E B G A} {defs : Defs E B G P A} {full : Bool}
    {recur recur' : ExpSt → SItems E B G P A (MInv E) → Except ExpandErr (SItems E B G P A (MInv E) × ExpSt)}
    (hle : RecLe recur recur') (st : ExpSt) (inv : MInv E) r
    (h : expandInv ops defs full recur st inv = .ok r) : expandInv ops defs full recur' st inv = .ok r := by
  obtain ⟨d, exp, st', hd, ha, hr, rfl⟩ := expandInv_ok h
  unfold expandInv
  simp only [hd, ha, Bool.not_true, Bool.false_eq_true, if_false, hle _ _ _ hr]

theorem expandOne_mono {ops : Ops E B G A} {defs : Defs E B G P A} {full : Bool}
    {recur recur' : ExpSt → SItems E B G P A (MInv E) → Except ExpandErr (SItems E B G P A (MInv E) × ExpSt)}
    (hle : RecLe recur recur') (st : ExpSt) (i : SItem E B G P A (MInv E)) r
    (h : expandOne ops defs full recur st i = .ok r) : expandOne ops defs full recur' st i = .ok r := by
  cases i with
  | flat f => exact h
  | mac inv => exact expandInv_mono hle st inv r h
  | disj alts =>
    simp only [expandOne] at h ⊢
    cases h1 : expandAltsWith recur st alts with
    | error e => rw [h1] at h; cases h
    | ok p =>
      rw [h1] at h
      rw [expandAltsWith_mono hle alts st p h1]
      exact h

theorem expandItemsWith_mono {ops : Ops E B G A} {defs : Defs E B G P A} {full : Bool}
    {recur recur' : ExpSt → SItems E B G P A (MInv E) → Except ExpandErr (SItems E B G P A (MInv E) × ExpSt)}
    (hle : RecLe recur recur') : ∀ (items : SItems E B G P A (MInv E)) (st : ExpSt) r,
    expandItemsWith ops defs full recur st items = .ok r → expandItemsWith ops defs full recur' st items = .ok r
  | .nil, st, r, h => h
  | .cons i rest, st, r, h => by
    obtain ⟨is, st1, rest', h1, h2, h3⟩ := expandItemsWith_cons_ok h
    have h2' := expandItemsWith_mono hle rest st1 _ h2
    rw [expandItemsWith_cons, expandOne_mono hle st i _ h1]
    simp only [h2']
    obtain ⟨r1, r2⟩ := r
    simp only at h3
    rw [h3]

theorem expandBody_recLe (ops : Ops E B G A) (defs : Defs E B G P A) (full : Bool) :
    ∀ d, RecLe (expandBody ops defs full d) (expandBody ops defs full (d + 1))
  | 0 => by
    intro st items r h
    cases items with
    | nil => exact h
    | cons i rest => cases h
  | d + 1 => by
    intro st items r h
    exact expandItemsWith_mono (expandBody_recLe ops defs full d) items st r h


/-! ### `argsOk`, `indexOf?`, `originated` -/

theorem argsOk_iff : ∀ (ks : List ParamKind) (as : List (MArg E)),
    argsOk ks as = true ↔ ks.length = as.length ∧ ∀ i : Nat, ks[i]? = some ParamKind.ident → ∃ x, as[i]? = some (MArg.ident x)
  | [], [] => by simp [argsOk]
  | [], _ :: _ => by simp [argsOk]
  | .ident :: ks, [] => by simp [argsOk]
  | .expr :: ks, [] => by simp [argsOk]
  | .ident :: ks, .ident x :: as => by
    simp only [argsOk, argsOk_iff ks as, List.length_cons, Nat.add_right_cancel_iff]
    constructor
    · rintro ⟨hl, h⟩
      refine ⟨hl, ?_⟩
      intro i hi
      cases i with
      | zero => exact ⟨x, rfl⟩
      | succ i => exact h i hi
    · rintro ⟨hl, h⟩
      exact ⟨hl, fun i hi => h (i + 1) hi⟩
  | .ident :: ks, .expr e :: as => by
    simp only [argsOk, List.length_cons, Nat.add_right_cancel_iff, Bool.false_eq_true, false_iff, not_and]
    intro _ h
    have := h 0 rfl
    simp at this
  | .expr :: ks, a :: as => by
    simp only [argsOk, argsOk_iff ks as, List.length_cons, Nat.add_right_cancel_iff]
    constructor
    · rintro ⟨hl, h⟩
      refine ⟨hl, ?_⟩
      intro i hi
      cases i with
      | zero => simp at hi
      | succ i => exact h i hi
    · rintro ⟨hl, h⟩
      exact ⟨hl, fun i hi => h (i + 1) hi⟩

theorem indexOf?_some {v : Var} : ∀ {l : List Var} {i : Nat}, indexOf? v l = some i → l[i]? = some v
  | [], _, h => by cases h
  | x :: xs, i, h => by
    simp only [indexOf?] at h
    split at h
    · rename_i hx
      cases h
      simp [hx]
    · cases hi : indexOf? v xs with
      | none => rw [hi] at h; cases h
      | some i' =>
        rw [hi] at h
        cases h
        simpa using indexOf?_some hi

theorem indexOf?_none {v : Var} : ∀ {l : List Var}, indexOf? v l = none → v ∉ l
  | [], _ => by simp
  | x :: xs, h => by
    simp only [indexOf?] at h
    split at h
    · cases h
    · rename_i hx
      cases hi : indexOf? v xs with
      | none =>
        have := indexOf?_none hi
        simp only [List.mem_cons, not_or]
        exact ⟨fun h => hx h.symm, this⟩
      | some i' => rw [hi] at h; cases h

theorem indexOf?_of_mem {v : Var} {l : List Var} (h : v ∈ l) : ∃ i, i < l.length ∧ indexOf? v l = some i := by
  cases hi : indexOf? v l with
  | none => exact absurd h (indexOf?_none hi)
  | some i =>
    refine ⟨i, ?_, rfl⟩
    have := indexOf?_some hi
    rcases Nat.lt_or_ge i l.length with hlt | hge
    · exact hlt
    · rw [List.getElem?_eq_none hge] at this; cases this

theorem mem_originated {j : Nat} {items : SItems E B G P A (MInv E)} {v : Var} :
    v ∈ originated j items ↔ v ∈ boundVarsS items ∧ ∃ x, untag? j v = some x := by
  unfold originated
  rw [List.mem_eraseDups, List.mem_filter, Option.isSome_iff_exists]


end AscentVerif.Surface
