import AscentVerif.Proofs.C15Basic
/-!
# C15: facts about `collectLazy` / `mapLazy` / `flattenP` / `zipIdx`
-/
namespace AscentVerif.Check
open AscentVerif AscentVerif.Engine

theorem mapLazy_eq_collectLazy' {α β : Type} (f : α → Except Err β) (xs : List α) :
    mapLazy f xs = collectLazy (xs.map f) := by
  induction xs with
  | nil => rfl
  | cons x rest ih =>
    simp only [mapLazy, List.map_cons]
    cases hfx : f x with
    | error e => simp [collectLazy]
    | ok b => simp [collectLazy, ih]

/-! ## collectLazy -/

theorem collectLazy_error {α : Type} : ∀ {rs : List (Except Err α)} {e : Err},
    collectLazy rs = .error e → .error e ∈ rs
  | [], e, h => by simp [collectLazy] at h
  | .error e' :: rest, e, h => by
    simp only [collectLazy, Except.error.injEq] at h
    subst h
    exact List.mem_cons_self
  | .ok a :: rest, e, h => by
    simp only [collectLazy] at h
    split at h
    · rename_i e' he'
      simp only [Except.error.injEq] at h
      subst h
      exact List.mem_cons_of_mem _ (collectLazy_error he')
    · cases h

theorem collectLazy_ok {α : Type} : ∀ {rs : List (Except Err α)} {xs : List α},
    collectLazy rs = .ok xs → rs = xs.map Except.ok
  | [], xs, h => by
    simp only [collectLazy, Except.ok.injEq] at h
    subst h
    rfl
  | .error e' :: rest, xs, h => by simp [collectLazy] at h
  | .ok a :: rest, xs, h => by
    simp only [collectLazy] at h
    split at h
    · cases h
    · rename_i as has
      simp only [Except.ok.injEq] at h
      subst h
      rw [collectLazy_ok has]
      rfl

theorem collectLazy_error_of_mem {α : Type} : ∀ {rs : List (Except Err α)} {e : Err},
    .error e ∈ rs → ∃ e', collectLazy rs = .error e'
  | [], e, h => by cases h
  | .error e' :: rest, e, h => ⟨e', by simp [collectLazy]⟩
  | .ok a :: rest, e, h => by
    have h' : .error e ∈ rest := by
      cases h with
      | tail _ h => exact h
    obtain ⟨e', he'⟩ := collectLazy_error_of_mem h'
    exact ⟨e', by simp [collectLazy, he']⟩

theorem collectLazy_map_ok {α : Type} : ∀ (xs : List α), collectLazy (xs.map Except.ok) = (.ok xs : Except Err (List α))
  | [] => rfl
  | x :: rest => by simp [collectLazy, collectLazy_map_ok rest]

theorem collectLazy_ok_mem {α : Type} {rs : List (Except Err α)} {xs : List α}
    (h : collectLazy rs = .ok xs) {x : α} (hx : x ∈ xs) : .ok x ∈ rs := by
  rw [collectLazy_ok h]
  exact List.mem_map_of_mem hx

/-! ## mapLazy -/

theorem mapLazy_error {α β : Type} {f : α → Except Err β} {xs : List α} {e : Err}
    (h : mapLazy f xs = .error e) : ∃ x ∈ xs, f x = .error e := by
  rw [mapLazy_eq_collectLazy'] at h
  have := collectLazy_error h
  obtain ⟨x, hx, hfx⟩ := List.mem_map.1 this
  exact ⟨x, hx, hfx⟩

theorem mapLazy_ok_mem {α β : Type} {f : α → Except Err β} {xs : List α} {ys : List β}
    (h : mapLazy f xs = .ok ys) {y : β} (hy : y ∈ ys) : ∃ x ∈ xs, f x = .ok y := by
  rw [mapLazy_eq_collectLazy'] at h
  have := collectLazy_ok_mem h hy
  obtain ⟨x, hx, hfx⟩ := List.mem_map.1 this
  exact ⟨x, hx, hfx⟩

theorem mapLazy_error_of_mem {α β : Type} {f : α → Except Err β} {xs : List α} {x : α} {e : Err}
    (hx : x ∈ xs) (h : f x = .error e) : ∃ e', mapLazy f xs = .error e' := by
  rw [mapLazy_eq_collectLazy']
  apply collectLazy_error_of_mem (e := e)
  rw [← h]
  exact List.mem_map_of_mem hx

theorem mapLazy_ne_ok_of_mem {α β : Type} {f : α → Except Err β} {xs : List α} {x : α} {e : Err} {ys : List β}
    (hx : x ∈ xs) (h : f x = .error e) : mapLazy f xs ≠ .ok ys := by
  obtain ⟨e', he'⟩ := mapLazy_error_of_mem hx h
  rw [he']
  intro h'
  cases h'

theorem mapLazy_ok_of_forall {α β : Type} {f : α → Except Err β} : ∀ {xs : List α},
    (∀ x ∈ xs, ∃ y, f x = .ok y) → ∃ ys, mapLazy f xs = .ok ys
  | [], _ => ⟨[], rfl⟩
  | x :: rest, h => by
    obtain ⟨y, hy⟩ := h x List.mem_cons_self
    obtain ⟨ys, hys⟩ := mapLazy_ok_of_forall (xs := rest) (fun x hx => h x (List.mem_cons_of_mem _ hx))
    exact ⟨y :: ys, by simp [mapLazy, hy, hys]⟩

/-! ## flattenP -/

theorem flattenP_ok {α : Type} {inner : List (List α)} {t : Bool} {ys : List α}
    (h : flattenP inner t = .ok ys) : ys = inner.flatten := by
  unfold flattenP at h
  simp only [Except.ok.injEq] at h
  exact h.symm

theorem flattenP_error {α : Type} {inner : List (List α)} {t : Bool} {e : Err}
    (h : flattenP inner t = .error e) : False := by
  unfold flattenP at h
  cases h

/-- since fix 71f89c5 `flatten_punctuated` is total -/
theorem flattenP_total {α : Type} (inner : List (List α)) (t : Bool) : flattenP inner t = .ok inner.flatten := rfl

/-! ## zipIdx -/

theorem exists_mem_zipIdx {α : Type} {x : α} : ∀ {l : List α} (n : Nat), x ∈ l → ∃ k, (x, k) ∈ l.zipIdx n
  | [], _, h => by cases h
  | y :: rest, n, h => by
    rw [List.zipIdx_cons]
    cases h with
    | head => exact ⟨n, List.mem_cons_self⟩
    | tail _ h =>
      obtain ⟨k, hk⟩ := exists_mem_zipIdx (n + 1) h
      exact ⟨k, List.mem_cons_of_mem _ hk⟩

end AscentVerif.Check
