import AscentVerif.Proofs.DesugarRepAux
/-!
# One clause of the repeated-variable pass: the new argument list followed by the generated tests matches exactly the
tuples the documented left-to-right matching accepts
-/
namespace AscentVerif.Surface
open AscentVerif AscentVerif.Engine

variable {E B G P A : Type}

/-- what holds after the arguments of clause `i` have been matched -/
def RepPost (i : Nat) (r : RepOut E B P) (ρ₁ σ₁ : Env) : Prop :=
  AgreeOff isRep ρ₁ σ₁ ∧ Inv1 r.c ρ₁ ∧ ∀ v j, r.g.lookup v = some j → j ≤ i ∧ Env.get? σ₁ v ≠ none

/-- the two directions for one argument list -/
def RepArgsOK (I : Interp E B G P A) (i : Nat) (ρ₀ : Env) (as : List (SArg E P)) (t : Tuple)
    (r : RepOut E B P) (ρ σ : Env) : Prop :=
  (∀ ρ₁, matchArgs I ρ₀ (r.args.map SArg.toArg) t ρ = some ρ₁ → (∀ b, Cond.ifc b ∈ r.conds → I.test b ρ₁ = true) →
      ∃ σ₁, matchSArgs I as t σ = some σ₁ ∧ RepPost i r ρ₁ σ₁) ∧
  (∀ σ₁, matchSArgs I as t σ = some σ₁ →
      ∃ ρ₁, matchArgs I ρ₀ (r.args.map SArg.toArg) t ρ = some ρ₁ ∧ (∀ b, Cond.ifc b ∈ r.conds → I.test b ρ₁ = true) ∧
        RepPost i r ρ₁ σ₁)

/-- an expression argument mentions a later variable column only if the variable is an earlier variable column
or already bound -/
def ScopedIn (varsE : E → List Var) (as : List (SArg E P)) (σ : Env) : Prop :=
  ∀ pre e post, as = pre ++ SArg.expr e :: post → ∀ v ∈ varsE e, v ∈ post.flatMap SArg.varCol →
    v ∈ pre.flatMap SArg.varCol ∨ Env.get? σ v ≠ none

theorem ScopedIn.tail {varsE : E → List Var} {a : SArg E P} {as : List (SArg E P)} {σ σ' : Env}
    (h : ScopedIn varsE (a :: as) σ) (hmono : ∀ v, Env.get? σ v ≠ none → Env.get? σ' v ≠ none)
    (ha : ∀ v ∈ SArg.varCol a, Env.get? σ' v ≠ none) : ScopedIn varsE as σ' := by
  intro pre e post he v hv hpost
  rcases h (a :: pre) e post (by rw [he]; rfl) v hv hpost with h1 | h1
  · rw [List.flatMap_cons, List.mem_append] at h1
    rcases h1 with h1 | h1
    · exact .inr (ha v h1)
    · exact .inl h1
  · exact .inr (hmono v h1)

theorem toE_vars {I : Interp E B G P A} {ops : Ops E B G A} (hS : SugarSound I ops) {a : SArg E P} (ha : IsVE a) :
    ops.varsE (a.toE ops) = a.vars ops := by
  rcases ha with ⟨v, rfl⟩ | ⟨e, rfl⟩
  · exact hS.varsE_varE v
  · rfl

theorem vars_eq_mentions (ops : Ops E B G A) {a : SArg E P} (ha : IsVE a) : a.vars ops = SArg.mentions ops.varsE a := by
  rcases ha with ⟨v, rfl⟩ | ⟨e, rfl⟩ <;> rfl

/-- the documented matching of a column that is a test -/
theorem matchSArgs_cons_test {I : Interp E B G P A} {ops : Ops E B G A} (hS : SugarSound I ops) {a : SArg E P}
    (as : List (SArg E P)) (x : Val) (xs : Tuple) {σ : Env}
    (ha : (∃ v, a = SArg.var v ∧ Env.get? σ v ≠ none) ∨ ∃ e, a = SArg.expr e) :
    matchSArgs I (a :: as) (x :: xs) σ = if I.expr (a.toE ops) σ = x then matchSArgs I as xs σ else none := by
  rcases ha with ⟨v, rfl, hv⟩ | ⟨e, rfl⟩
  · cases hσ : Env.get? σ v with
    | none => exact absurd hσ hv
    | some y =>
      simp only [matchSArgs, hσ, SArg.toE, hS.varE v σ y hσ]
      by_cases hxy : x = y
      · simp [hxy]
      · have : ¬ y = x := fun h => hxy h.symm
        simp [hxy, this]
  · rfl

theorem repArgs_correct {I : Interp E B G P A} {ops : Ops E B G A} {varsB : B → List Var} {varsG : G → List Var}
    (hS : SugarSound I ops) (hV : VarsSound I ops.varsE varsB varsG) (i : Nat) (ρ₀ : Env) :
    ∀ (as : List (SArg E P)) (t : Tuple) (g : Grounded) (c : Nat) (ρ σ : Env),
      (∀ a ∈ as, IsVE a) →
      (∀ a ∈ as, ∀ v ∈ SArg.mentions ops.varsE a, ¬ isRep v) →
      ScopedIn ops.varsE as σ →
      AgreeOff isRep ρ σ →
      Inv1 c ρ →
      (∀ v j, g.lookup v = some j → j ≤ i ∧ Env.get? σ v ≠ none) →
      (∀ v, ¬ isRep v → g.lookup v ≠ some i → Env.get? ρ₀ v = Env.get? σ v) →
      RepArgsOK I i ρ₀ as t (repArgs ops i as g c) ρ σ := by
  intro as
  induction as with
  | nil =>
    intro t g c ρ σ _ _ _ hag h1 hD _
    cases t with
    | nil =>
      refine ⟨fun ρ₁ hm _ => ⟨σ, rfl, ?_⟩, fun σ₁ hm => ⟨ρ, rfl, ?_, ?_⟩⟩
      · simp only [repArgs, List.map_nil, matchArgs, Option.some.injEq] at hm
        subst hm
        exact ⟨hag, h1, hD⟩
      · intro b hb; simp [repArgs] at hb
      · simp only [matchSArgs, Option.some.injEq] at hm
        subst hm
        exact ⟨hag, h1, hD⟩
    | cons x xs =>
      refine ⟨fun ρ₁ hm _ => ?_, fun σ₁ hm => ?_⟩
      · simp [repArgs, matchArgs] at hm
      · simp [matchSArgs] at hm
  | cons a as ih =>
    intro t g c ρ σ hVE hres hsc hag h1 hD hC
    have hVE' : ∀ b ∈ as, IsVE b := fun b hb => hVE b (List.mem_cons_of_mem _ hb)
    have hres' : ∀ b ∈ as, ∀ v ∈ SArg.mentions ops.varsE b, ¬ isRep v := fun b hb => hres b (List.mem_cons_of_mem _ hb)
    have haVE : IsVE a := hVE a (by simp)
    have hares : ∀ v ∈ a.vars ops, ¬ isRep v := by
      rw [vars_eq_mentions ops haVE]; exact hres a (by simp)
    cases t with
    | nil =>
      refine ⟨fun ρ₁ hm _ => ?_, fun σ₁ hm => ?_⟩
      · by_cases hrep : ((a.vars ops).any fun v => g.lookup v == some i) = true
        · rw [repArgs_cons_pos ops i a as g c hrep] at hm
          simp [matchArgs, SArg.toArg] at hm
        · rw [repArgs_cons_neg ops i a as g c hrep] at hm
          rcases haVE with ⟨v, rfl⟩ | ⟨e, rfl⟩ <;> simp [matchArgs, SArg.toArg] at hm
      · rcases haVE with ⟨v, rfl⟩ | ⟨e, rfl⟩ <;> simp [matchSArgs] at hm
    | cons x xs =>
      by_cases hrep : ((a.vars ops).any fun v => g.lookup v == some i) = true
      · -- the column is replaced by a fresh variable and a test
        rw [repArgs_cons_pos ops i a as g c hrep]
        have hfresh : Env.get? ρ (gsRep c) = none := h1 c (Nat.le_refl _)
        -- the variables of the column
        have hbound : ∀ v, a = SArg.var v → Env.get? σ v ≠ none := by
          rintro v rfl
          simp only [SArg.vars, List.any_cons, List.any_nil, Bool.or_false, beq_iff_eq] at hrep
          exact (hD v i hrep).2
        have hvars : ∀ v ∈ a.vars ops, Env.get? σ v ≠ none ∨ v ∉ as.flatMap SArg.varCol := by
          intro v hv
          rcases haVE with ⟨w, rfl⟩ | ⟨e, rfl⟩
          · simp only [SArg.vars, List.mem_singleton] at hv
            subst hv
            exact .inl (hbound v rfl)
          · by_cases hin : v ∈ as.flatMap SArg.varCol
            · rcases hsc [] e as rfl v hv hin with h | h
              · simp at h
              · exact .inl h
            · exact .inr hin
        have hms : matchSArgs I (a :: as) (x :: xs) σ =
            if I.expr (a.toE ops) σ = x then matchSArgs I as xs σ else none := by
          apply matchSArgs_cons_test hS
          rcases haVE with ⟨w, rfl⟩ | ⟨e, rfl⟩
          · exact .inl ⟨w, rfl, hbound w rfl⟩
          · exact .inr ⟨e, rfl⟩
        have hm : ∀ L : List (Arg E), matchArgs I ρ₀ (Arg.var (gsRep c) :: L) (x :: xs) ρ =
            matchArgs I ρ₀ L xs ((gsRep c, x) :: ρ) := by
          intro L; simp only [matchArgs, hfresh]
        have hag' : AgreeOff isRep ((gsRep c, x) :: ρ) σ := hag.cons_rep c x
        have h1' : Inv1 (c + 1) ((gsRep c, x) :: ρ) := by
          intro k hk
          rw [get?_cons, if_neg (fun he => by have := gsRep_inj he; omega)]
          exact h1 k (by omega)
        have hsc' : ScopedIn ops.varsE as σ := by
          refine hsc.tail (fun _ h => h) ?_
          intro v hv
          rcases haVE with ⟨w, rfl⟩ | ⟨e, rfl⟩
          · simp only [SArg.varCol, List.mem_singleton] at hv
            subst hv
            exact hbound v rfl
          · simp [SArg.varCol] at hv
        obtain ⟨fwd, bwd⟩ := ih xs g (c + 1) ((gsRep c, x) :: ρ) σ hVE' hres' hsc' hag' h1' hD hC
        -- what the generated test says in the final environment
        have hkey : ∀ ρ₁, matchArgs I ρ₀ ((repArgs ops i as g (c + 1)).args.map SArg.toArg) xs ((gsRep c, x) :: ρ) = some ρ₁ →
            I.test (ops.eqB (gsRep c) (a.toE ops)) ρ₁ = decide (x = I.expr (a.toE ops) σ) := by
          intro ρ₁ hmatch
          have hx : Env.get? ρ₁ (gsRep c) = some x := by
            rw [matchArgs_get? hV hmatch (.inl (by simp [get?_cons]))]
            simp [get?_cons]
          rw [hS.eqB _ _ _ _ hx]
          congr 2
          apply hV.expr
          rw [toE_vars hS haVE]
          intro v hv
          have hvr : ¬ isRep v := hares v hv
          have : Env.get? ρ₁ v = Env.get? ((gsRep c, x) :: ρ) v := by
            apply matchArgs_get? hV hmatch
            rcases hvars v hv with h | h
            · left
              rw [hag' v hvr]; exact h
            · right
              intro hin
              rcases repArgs_bvars ops i as g (c + 1) hVE' v hin with h' | h'
              · exact hvr h'
              · exact h h'
          rw [this, hag' v hvr]
        refine ⟨fun ρ₁ hmatch htests => ?_, fun σ₁ hs => ?_⟩
        · simp only [List.map_cons, SArg.toArg, hm] at hmatch
          obtain ⟨σ₁, hs, hpost⟩ := fwd ρ₁ hmatch (fun b hb => htests b (List.mem_cons_of_mem _ hb))
          have ht := htests _ (List.mem_cons_self)
          rw [hkey ρ₁ hmatch, decide_eq_true_eq] at ht
          exact ⟨σ₁, by rw [hms, if_pos ht.symm]; exact hs, hpost⟩
        · rw [hms] at hs
          split at hs
          · rename_i hx
            obtain ⟨ρ₁, hmatch, htests, hpost⟩ := bwd σ₁ hs
            refine ⟨ρ₁, by simp only [List.map_cons, SArg.toArg, hm]; exact hmatch, ?_, hpost⟩
            intro b hb
            rcases List.mem_cons.mp hb with hb | hb
            · cases hb
              rw [hkey ρ₁ hmatch, decide_eq_true_eq]; exact hx.symm
            · exact htests b hb
          · cases hs
      · -- the column is kept
        rw [repArgs_cons_neg ops i a as g c hrep]
        rcases haVE with ⟨v, rfl⟩ | ⟨e, rfl⟩
        · -- a variable column
          have hvr : ¬ isRep v := hares v (by simp [SArg.vars])
          have hneg : g.lookup v ≠ some i := by
            simpa [SArg.vars] using hrep
          have hget : Env.get? ρ v = Env.get? σ v := hag v hvr
          have hC' : ∀ w, ¬ isRep w → (g.orInsert v i).lookup w ≠ some i → Env.get? ρ₀ w = Env.get? σ w :=
            fun w hw hl => hC w hw (fun h => hl (lookup_orInsert_of_some h))
          cases hσ : Env.get? σ v with
          | some y =>
            have hD' : ∀ w j, (g.orInsert v i).lookup w = some j → j ≤ i ∧ Env.get? σ w ≠ none := by
              intro w j hl
              rcases lookup_orInsert_cases hl with h | ⟨rfl, rfl⟩
              · exact hD w j h
              · exact ⟨Nat.le_refl _, by simp [hσ]⟩
            have hsc' : ScopedIn ops.varsE as σ := by
              refine hsc.tail (fun _ h => h) ?_
              intro w hw
              simp only [SArg.varCol, List.mem_singleton] at hw
              subst hw
              simp [hσ]
            have hih := ih xs (g.orInsert v i) c ρ σ hVE' hres' hsc' hag h1 hD' hC'
            have e1 : ∀ L : List (Arg E), matchArgs I ρ₀ (Arg.var v :: L) (x :: xs) ρ =
                if x = y then matchArgs I ρ₀ L xs ρ else none := by
              intro L; simp only [matchArgs, hget, hσ]
            have e2 : matchSArgs I (SArg.var v :: as) (x :: xs) σ = if x = y then matchSArgs I as xs σ else none := by
              simp only [matchSArgs, hσ]
            by_cases hxy : x = y
            · simp only [hxy, if_true] at e1 e2
              unfold RepArgsOK
              simp only [List.map_cons, SArg.toArg, repG1, hxy, e1, e2]
              exact hih
            · simp only [hxy, if_false] at e1 e2
              refine ⟨fun ρ₁ hmatch _ => ?_, fun σ₁ hs => ?_⟩
              · simp only [List.map_cons, SArg.toArg, e1] at hmatch
                cases hmatch
              · rw [e2] at hs; cases hs
          | none =>
            have hgn : g.lookup v = none := by
              cases hl : g.lookup v with
              | none => rfl
              | some j => exact absurd hσ (hD v j hl).2
            have hD' : ∀ w j, (g.orInsert v i).lookup w = some j → j ≤ i ∧ Env.get? ((v, x) :: σ) w ≠ none := by
              intro w j hl
              rcases lookup_orInsert_cases hl with h | ⟨rfl, rfl⟩
              · refine ⟨(hD w j h).1, ?_⟩
                rw [get?_cons]
                split
                · simp
                · exact (hD w j h).2
              · exact ⟨Nat.le_refl _, by simp [get?_cons]⟩
            have hC'' : ∀ w, ¬ isRep w → (g.orInsert v i).lookup w ≠ some i →
                Env.get? ρ₀ w = Env.get? ((v, x) :: σ) w := by
              intro w hw hl
              have hwv : ¬ v = w := by
                rintro rfl
                exact hl (lookup_orInsert_of_none hgn)
              rw [get?_cons, if_neg hwv]
              exact hC' w hw hl
            have hsc' : ScopedIn ops.varsE as ((v, x) :: σ) := by
              refine hsc.tail (fun w h => ?_) ?_
              · rw [get?_cons]; split
                · simp
                · exact h
              · intro w hw
                simp only [SArg.varCol, List.mem_singleton] at hw
                subst hw
                simp [get?_cons]
            have h1' : Inv1 c ((v, x) :: ρ) := by
              intro k hk
              rw [get?_cons, if_neg (fun he => hvr ⟨k, he⟩)]
              exact h1 k hk
            have hih := ih xs (g.orInsert v i) c ((v, x) :: ρ) ((v, x) :: σ) hVE' hres' hsc' (hag.cons v x) h1' hD' hC''
            have e1 : ∀ L : List (Arg E), matchArgs I ρ₀ (Arg.var v :: L) (x :: xs) ρ =
                matchArgs I ρ₀ L xs ((v, x) :: ρ) := by
              intro L; simp only [matchArgs, hget, hσ]
            have e2 : matchSArgs I (SArg.var v :: as) (x :: xs) σ = matchSArgs I as xs ((v, x) :: σ) := by
              simp only [matchSArgs, hσ]
            unfold RepArgsOK
            simp only [List.map_cons, SArg.toArg, repG1, e1, e2]
            exact hih
        · -- an expression column none of whose variables was grounded in this clause
          have hneg : ∀ v ∈ ops.varsE e, g.lookup v ≠ some i := by
            simpa [SArg.vars] using hrep
          have hexpr : I.expr e ρ₀ = I.expr e σ := by
            apply hV.expr
            intro v hv
            exact hC v (hares v hv) (hneg v hv)
          have hsc' : ScopedIn ops.varsE as σ := by
            refine hsc.tail (fun _ h => h) ?_
            intro w hw
            simp [SArg.varCol] at hw
          have hih := ih xs g c ρ σ hVE' hres' hsc' hag h1 hD hC
          have e1 : ∀ L : List (Arg E), matchArgs I ρ₀ (Arg.expr e :: L) (x :: xs) ρ =
              if I.expr e σ = x then matchArgs I ρ₀ L xs ρ else none := by
            intro L; simp only [matchArgs, hexpr]
          have e2 : matchSArgs I (SArg.expr e :: as) (x :: xs) σ = if I.expr e σ = x then matchSArgs I as xs σ else none := by
            simp only [matchSArgs]
          by_cases hx : I.expr e σ = x
          · simp only [hx, if_true] at e1 e2
            unfold RepArgsOK
            simp only [List.map_cons, SArg.toArg, repG1, e1, e2]
            exact hih
          · simp only [hx, if_false] at e1 e2
            refine ⟨fun ρ₁ hmatch _ => ?_, fun σ₁ hs => ?_⟩
            · simp only [List.map_cons, SArg.toArg, e1] at hmatch
              cases hmatch
            · rw [e2] at hs; cases hs

end AscentVerif.Surface
