import AscentVerif.Proofs.SurfaceDefs
import AscentVerif.Proofs.DesugarPWNPat
/-!
# Passes 3–5 of the desugaring (pattern arguments, wildcards, negation) preserve the documented meaning

Helper files: `DesugarPWNBase` (frame lemmas, `OptRel`, item simulation), `DesugarPWNSyn` (syntactic facts about the passes),
`DesugarPWNSem` (negation and wildcard passes), `DesugarPWNPat` (pattern-argument pass).
-/
namespace AscentVerif.Surface
open AscentVerif AscentVerif.Engine

variable {E B G P A : Type}

/-- the output has the shape `FItem.toCore` accepts -/
theorem pwn_shape (ops : Ops E B G A) (fs : List (FItem E B G P A)) : CoreShaped (pwn ops fs) := by
  intro f hf
  simp only [pwn, List.mem_map] at hf
  obtain ⟨f₂, hf₂, rfl⟩ := hf
  refine ⟨?_, fun r as => negItem_ne_neg ops f₂ r as⟩
  intro r as cs he a ha
  have he' := negItem_clause ops he
  subst he'
  rcases wildItems_mem _ 1 _ hf₂ with ⟨r', as₁, cs', k', heq, hmem⟩ | ⟨_, hne⟩
  · simp only [FItem.clause.injEq] at heq
    obtain ⟨rfl, rfl, rfl⟩ := heq
    rcases wildArgs_mem as₁ k' a ha with ⟨j, _, rfl⟩ | ⟨ha₁, hnw⟩
    · exact .inl ⟨_, rfl⟩
    · rcases patItems_mem ops fs 0 _ hmem with ⟨r'', as₀, cs₀, k'', heq', _⟩ | ⟨_, hne'⟩
      · simp only [FItem.clause.injEq] at heq'
        obtain ⟨rfl, rfl, rfl⟩ := heq'
        rcases patArgs_mem ops as₀ k'' a ha₁ with ⟨j, _, rfl⟩ | ⟨_, hnp⟩
        · exact .inl ⟨_, rfl⟩
        · cases a with
          | var v => exact .inl ⟨v, rfl⟩
          | expr e => exact .inr ⟨e, rfl⟩
          | wild => exact absurd rfl hnw
          | pat p vs => exact absurd rfl (hnp p vs)
      · exact absurd rfl (hne' _ _ _)
  · exact absurd rfl (hne _ _ _)

/-- the output mentions user variables, `__arg_pattern_N` and `__N` only -/
theorem pwn_mentions (I : Interp E B G P A) (ops : Ops E B G A) {varsB : B → List Var} {varsG : G → List Var} (hS : SugarSound I ops)
    (fs : List (FItem E B G P A)) (hres : ∀ f ∈ fs, ∀ v ∈ FItem.mentions ops.varsE varsB varsG f, v < reservedBase) :
    ∀ f ∈ pwn ops fs, ∀ v ∈ FItem.mentions ops.varsE varsB varsG f, v < reservedBase ∨ isPat v ∨ isWild v := by
  intro f hf v hv
  simp only [pwn, List.mem_map] at hf
  obtain ⟨f₂, hf₂, rfl⟩ := hf
  have hv₂ := negItem_mentions ops f₂ v hv
  rcases wildItems_mentions _ 1 f₂ hf₂ v hv₂ with hw | ⟨f₁, hf₁, hv₁⟩
  · exact .inr (.inr hw)
  · rcases patItems_mentions ops hS.varsE_varE fs 0 f₁ hf₁ v hv₁ with hp | ⟨f₀, hf₀, hv₀⟩
    · exact .inr (.inl hp)
    · exact .inl (hres f₀ hf₀ v hv₀)

/-- expression arguments stay scoped -/
theorem pwn_exprScoped (ops : Ops E B G A) {varsB : B → List Var} {varsG : G → List Var} (fs : List (FItem E B G P A))
    (hres : ∀ f ∈ fs, ∀ v ∈ FItem.mentions ops.varsE varsB varsG f, v < reservedBase)
    (hws : ∀ rel args conds, FItem.clause rel args conds ∈ fs → ExprScopedArgs ops.varsE args) :
    ∀ rel args conds, FItem.clause rel args conds ∈ pwn ops fs → ExprScopedArgs ops.varsE args := by
  intro r as cs hf
  simp only [pwn, List.mem_map] at hf
  obtain ⟨f₂, hf₂, he⟩ := hf
  have he' := negItem_clause ops he
  subst he'
  rcases wildItems_mem _ 1 _ hf₂ with ⟨r', as₁, cs', k', heq, hmem⟩ | ⟨_, hne⟩
  · simp only [FItem.clause.injEq] at heq
    obtain ⟨rfl, rfl, rfl⟩ := heq
    rcases patItems_mem ops fs 0 _ hmem with ⟨r'', as₀, cs₀, k'', heq', hmem₀⟩ | ⟨_, hne'⟩
    · simp only [FItem.clause.injEq] at heq'
      obtain ⟨rfl, rfl, rfl⟩ := heq'
      -- the user's expressions mention user variables only
      have huser : ∀ e, SArg.expr e ∈ as₀ → ∀ v ∈ ops.varsE e, ¬ reservedBase ≤ v := by
        intro e hein v hv
        have := hres _ hmem₀ v (by
          simp only [FItem.mentions, List.mem_append, List.mem_flatMap]
          exact .inl ⟨_, hein, hv⟩)
        exact Nat.not_le.mpr this
      have h₁ : ExprScopedArgs ops.varsE (patArgs (B := B) ops as₀ k'').1 :=
        exprScoped_of_argsRel (patArgs_rel ops as₀ k'') huser (hws _ _ _ hmem₀)
      refine exprScoped_of_argsRel (wildArgs_rel _ k') ?_ h₁
      intro e hein
      rcases patArgs_mem ops as₀ k'' _ hein with ⟨j, _, hj⟩ | ⟨h0, _⟩
      · cases hj
      · exact huser e h0
    · exact absurd rfl (hne' _ _ _)
  · exact absurd rfl (hne _ _ _)

/-- a flat body and its image under passes 3–5 are satisfied by the same environments, up to the generated variables -/
theorem pwn_correct (I : Interp E B G P A) (ops : Ops E B G A) {varsB : B → List Var} {varsG : G → List Var}
    (hS : SugarSound I ops) (hV : VarsSound I ops.varsE varsB varsG) (D : DB) (agg : RelId → List Tuple)
    (fs : List (FItem E B G P A))
    (hres : ∀ f ∈ fs, ∀ v ∈ FItem.mentions ops.varsE varsB varsG f, v < reservedBase)
    (hws : ∀ rel args conds, FItem.clause rel args conds ∈ fs → WellScopedArgs ops.varsE args) :
    (∀ ρ', SatF I D agg (pwn ops fs) [] ρ' → ∃ σ', SatF I D agg fs [] σ' ∧ AgreeUser ρ' σ') ∧
    (∀ σ', SatF I D agg fs [] σ' → ∃ ρ', SatF I D agg (pwn ops fs) [] ρ' ∧ AgreeUser ρ' σ') := by
  -- pass 3
  have hpat : ListSim I D agg gsPat (patItems ops fs 0) fs 0 :=
    patItems_sim hS hV D agg fs 0 (fun f hf v hv => not_pat_of_lt (hres f hf v hv)) (fun r as cs h => (hws r as cs h).2)
  -- pass 4
  have hwild : ListSim I D agg gsWild (wildItems (patItems ops fs 0) 1) (patItems ops fs 0) 1 := by
    refine wildItems_sim hV D agg _ 1 ?_
    intro f hf v hv
    rcases patItems_mentions ops hS.varsE_varE fs 0 f hf v hv with hp | ⟨f₀, hf₀, hv₀⟩
    · exact not_wild_of_pat hp
    · exact not_wild_of_lt (hres f₀ hf₀ v hv₀)
  have hnil : ∀ gen : Nat → Var, AgreeOff (GenOf gen) ([] : Env) [] := fun _ _ _ => rfl
  have hunb : ∀ (gen : Nat → Var) (k : Nat), Unbound gen k ([] : Env) := fun _ _ _ _ => rfl
  have huser : ∀ ρ τ σ : Env, AgreeOff (GenOf gsWild) ρ τ → AgreeOff (GenOf gsPat) τ σ → AgreeUser ρ σ := by
    intro ρ τ σ h₁ h₂ v hv
    rw [h₁ v (not_wild_of_lt hv), h₂ v (not_pat_of_lt hv)]
  constructor
  · intro ρ' h
    rw [pwn, satF_negItems hS] at h
    obtain ⟨τ, hτ, h₁⟩ := (hwild [] [] (hnil _) (hunb _ _)).1 ρ' h
    obtain ⟨σ', hσ, h₂⟩ := (hpat [] [] (hnil _) (hunb _ _)).1 τ hτ
    exact ⟨σ', hσ, huser _ _ _ h₁ h₂⟩
  · intro σ' h
    obtain ⟨τ, hτ, h₂⟩ := (hpat [] [] (hnil _) (hunb _ _)).2 σ' h
    obtain ⟨ρ', hρ, h₁⟩ := (hwild [] [] (hnil _) (hunb _ _)).2 τ hτ
    refine ⟨ρ', ?_, huser _ _ _ h₁ h₂⟩
    rw [pwn, satF_negItems hS]
    exact hρ

#print axioms pwn_shape
#print axioms pwn_mentions
#print axioms pwn_exprScoped
#print axioms pwn_correct

end AscentVerif.Surface
