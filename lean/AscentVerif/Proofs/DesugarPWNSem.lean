import AscentVerif.Proofs.DesugarPWNSyn
/-!
# Semantic correctness of the three passes `negItem`, `wildItems`, `patItems`, one by one
-/
namespace AscentVerif.Surface
open AscentVerif AscentVerif.Engine

variable {E B G P A : Type}

/-! ## list level simulation -/

def ListSim (I : Interp E B G P A) (D : DB) (agg : RelId → List Tuple) (gen : Nat → Var)
    (fs' fs : List (FItem E B G P A)) (k : Nat) : Prop :=
  ∀ ρ σ, AgreeOff (GenOf gen) ρ σ → Unbound gen k ρ →
    (∀ ρ', SatF I D agg fs' ρ ρ' → ∃ σ', SatF I D agg fs σ σ' ∧ AgreeOff (GenOf gen) ρ' σ') ∧
    (∀ σ', SatF I D agg fs σ σ' → ∃ ρ', SatF I D agg fs' ρ ρ' ∧ AgreeOff (GenOf gen) ρ' σ')

theorem listSim_nil (I : Interp E B G P A) (D : DB) (agg : RelId → List Tuple) (gen : Nat → Var) (k : Nat) :
    ListSim I D agg gen [] [] k := by
  intro ρ σ ha _
  constructor
  · intro ρ' h; cases h; exact ⟨σ, rfl, ha⟩
  · intro σ' h; cases h; exact ⟨ρ, rfl, ha⟩

theorem listSim_cons {I : Interp E B G P A} {D : DB} {agg : RelId → List Tuple} {gen : Nat → Var}
    {f' f : FItem E B G P A} {fs' fs : List (FItem E B G P A)} {k k' : Nat}
    (h₁ : ItemSim I D agg gen f' f k k') (h₂ : ListSim I D agg gen fs' fs k') :
    ListSim I D agg gen (f' :: fs') (f :: fs) k := by
  intro ρ σ ha hu
  constructor
  · rintro ρ' ⟨ρ₁, hst, hr⟩
    obtain ⟨σ₁, hst', ha₁, hu₁⟩ := (h₁ ρ σ ha hu).1 ρ₁ hst
    obtain ⟨σ', hr', ha'⟩ := (h₂ ρ₁ σ₁ ha₁ hu₁).1 ρ' hr
    exact ⟨σ', ⟨σ₁, hst', hr'⟩, ha'⟩
  · rintro σ' ⟨σ₁, hst, hr⟩
    obtain ⟨ρ₁, hst', ha₁, hu₁⟩ := (h₁ ρ σ ha hu).2 σ₁ hst
    obtain ⟨ρ', hr', ha'⟩ := (h₂ ρ₁ σ₁ ha₁ hu₁).2 σ' hr
    exact ⟨ρ', ⟨ρ₁, hst', hr'⟩, ha'⟩

theorem stepF_clause_iff (I : Interp E B G P A) (D : DB) (agg : RelId → List Tuple) (r : RelId) (as : List (SArg E P))
    (cs : List (Cond E B P)) (ρ ρ' : Env) :
    StepF I D agg (.clause r as cs) ρ ρ' ↔ ∃ t, D ⟨r, t⟩ ∧ (matchSArgs I as t ρ).bind (satConds I cs) = some ρ' := by
  simp only [StepF, Option.bind_eq_some_iff]
  constructor
  · rintro ⟨t, ρ₁, hd, hm, hc⟩; exact ⟨t, hd, ρ₁, hm, hc⟩
  · rintro ⟨t, hd, ρ₁, hm, hc⟩; exact ⟨t, ρ₁, hd, hm, hc⟩

/-- a clause simulates a clause when their (functional) matchers are related -/
theorem itemSim_clause {I : Interp E B G P A} {D : DB} {agg : RelId → List Tuple} {gen : Nat → Var}
    {f' f : FItem E B G P A} {k k' : Nat} (r : RelId) (F' F : Tuple → Env → Option Env)
    (hf' : ∀ ρ ρ', StepF I D agg f' ρ ρ' ↔ ∃ t, D ⟨r, t⟩ ∧ F' t ρ = some ρ')
    (hf : ∀ ρ ρ', StepF I D agg f ρ ρ' ↔ ∃ t, D ⟨r, t⟩ ∧ F t ρ = some ρ')
    (h : ∀ t ρ σ, AgreeOff (GenOf gen) ρ σ → Unbound gen k ρ →
      OptRel (fun ρ₁ σ₁ => AgreeOff (GenOf gen) ρ₁ σ₁ ∧ Unbound gen k' ρ₁) (F' t ρ) (F t σ)) :
    ItemSim I D agg gen f' f k k' := by
  intro ρ σ ha hu
  constructor
  · intro ρ₁ hst
    obtain ⟨t, hd, he⟩ := (hf' _ _).mp hst
    obtain ⟨σ₁, hσ, hr⟩ := (h t ρ σ ha hu).fwd he
    exact ⟨σ₁, (hf _ _).mpr ⟨t, hd, hσ⟩, hr⟩
  · intro σ₁ hst
    obtain ⟨t, hd, he⟩ := (hf _ _).mp hst
    obtain ⟨ρ₁, hρ, hr⟩ := (h t ρ σ ha hu).bwd he
    exact ⟨ρ₁, (hf' _ _).mpr ⟨t, hd, hρ⟩, hr⟩

/-! ## conditions -/

theorem cond_binds_sub_vars (varsE : E → List Var) (varsB : B → List Var) (cs : List (Cond E B P)) :
    ∀ v ∈ cs.flatMap Cond.binds, v ∈ cs.flatMap (Cond.vars varsE varsB) := by
  intro v hv
  simp only [List.mem_flatMap] at hv ⊢
  obtain ⟨c, hc, hvc⟩ := hv
  refine ⟨c, hc, ?_⟩
  cases c <;> simp_all [Cond.binds, Cond.vars]

theorem satConds_envEqv {I : Interp E B G P A} {varsE : E → List Var} {varsB : B → List Var} {varsG : G → List Var}
    (hV : VarsSound I varsE varsB varsG) (cs : List (Cond E B P)) {ρ σ : Env} (he : EnvEqv ρ σ) :
    OptRel EnvEqv (satConds I cs ρ) (satConds I cs σ) := by
  cases h : satConds I cs ρ with
  | some ρ₁ =>
    obtain ⟨n, rfl, _, _, hf⟩ := satConds_frame hV cs ρ ρ₁ h
    rw [hf σ (he.agree _)]
    exact he.append n
  | none =>
    cases h' : satConds I cs σ with
    | none => trivial
    | some σ₁ =>
      obtain ⟨n, rfl, _, _, hf⟩ := satConds_frame hV cs σ σ₁ h'
      rw [hf ρ (he.symm.agree _)] at h
      cases h

theorem satConds_sim {I : Interp E B G P A} {varsE : E → List Var} {varsB : B → List Var} {varsG : G → List Var}
    (hV : VarsSound I varsE varsB varsG) (gen : Nat → Var) (cs : List (Cond E B P))
    (hm : ∀ v ∈ cs.flatMap (Cond.vars varsE varsB), ¬ GenOf gen v) (k : Nat) {ρ σ : Env}
    (ha : AgreeOff (GenOf gen) ρ σ) (hu : Unbound gen k ρ) :
    OptRel (fun ρ₁ σ₁ => AgreeOff (GenOf gen) ρ₁ σ₁ ∧ Unbound gen k ρ₁) (satConds I cs ρ) (satConds I cs σ) := by
  cases h : satConds I cs ρ with
  | some ρ₁ =>
    obtain ⟨n, rfl, hk, _, hf⟩ := satConds_frame hV cs ρ ρ₁ h
    rw [hf σ (ha.agree hm)]
    exact ⟨ha.append n, hu.append (fun p hp => hm _ (cond_binds_sub_vars varsE varsB cs _ (hk p hp)))⟩
  | none =>
    cases h' : satConds I cs σ with
    | none => trivial
    | some σ₁ =>
      obtain ⟨n, rfl, _, _, hf⟩ := satConds_frame hV cs σ σ₁ h'
      rw [hf ρ (ha.symm.agree hm)] at h
      cases h

/-! ## negation -/

theorem matchAggArgs_toAgg (I : Interp E B G P A) (ρ : Env) (args : List (NArg E)) (t : Tuple) (acc : Env) :
    matchAggArgs I ρ (args.map NArg.toAgg) t acc = if matchNArgs I ρ args t then some acc else none := by
  induction args generalizing t with
  | nil => cases t <;> simp [matchAggArgs, matchNArgs]
  | cons a as ih =>
    cases t with
    | nil => cases a <;> simp [matchAggArgs, matchNArgs, NArg.toAgg]
    | cons x xs =>
      cases a with
      | wild => simp only [List.map_cons, NArg.toAgg, matchAggArgs, matchNArgs]; exact ih xs
      | expr e =>
        simp only [List.map_cons, NArg.toAgg, matchAggArgs, matchNArgs, ih xs]
        by_cases h : I.expr e ρ = x <;> simp [h]

theorem stepF_negItem {I : Interp E B G P A} {ops : Ops E B G A} (hS : SugarSound I ops) (D : DB) (agg : RelId → List Tuple)
    (f : FItem E B G P A) (ρ ρ' : Env) : StepF I D agg (negItem ops f) ρ ρ' ↔ StepF I D agg f ρ ρ' := by
  cases f with
  | neg r as =>
    simp only [negItem, StepF, aggEnvs, hS.notA]
    have hbag : (aggBag I { outs := [], fn := ops.notA, boundArgs := [], rel := r, args := as.map NArg.toAgg } ρ (agg r)).isEmpty = true ↔
        ∀ t ∈ agg r, matchNArgs I ρ as t = false := by
      simp only [aggBag, matchAggArgs_toAgg, List.isEmpty_iff, List.filterMap_eq_nil_iff]
      constructor
      · intro h t ht
        have := h t ht
        cases hm : matchNArgs I ρ as t <;> simp_all
      · intro h t ht
        simp [h t ht]
    by_cases hb : ∀ t ∈ agg r, matchNArgs I ρ as t = false
    · rw [if_pos (hbag.mpr hb)]
      simp only [List.filterMap_cons, List.length_nil, if_true, List.zip_nil_left, List.nil_append, List.filterMap_nil,
        List.mem_singleton]
      exact ⟨fun h => ⟨h, hb⟩, fun h => h.1⟩
    · rw [if_neg (mt hbag.mp hb)]
      simp only [List.filterMap_nil, List.not_mem_nil, false_iff]
      exact fun h => hb h.2
  | clause r as cs => exact Iff.rfl
  | cond c => exact Iff.rfl
  | gen v g => exact Iff.rfl
  | agg a => exact Iff.rfl

theorem satF_negItems {I : Interp E B G P A} {ops : Ops E B G A} (hS : SugarSound I ops) (D : DB) (agg : RelId → List Tuple)
    (fs : List (FItem E B G P A)) (ρ ρ' : Env) :
    SatF I D agg (fs.map (negItem ops)) ρ ρ' ↔ SatF I D agg fs ρ ρ' := by
  induction fs generalizing ρ with
  | nil => exact Iff.rfl
  | cons f fs ih => simp only [List.map_cons, SatF, stepF_negItem hS, ih]

/-! ## wildcards -/

theorem gsWild_inj : ∀ i j : Nat, gsWild i = gsWild j → i = j := by
  intro i j h
  unfold gsWild at h
  change (_ : Nat) = _ at h
  omega

theorem gsPat_inj : ∀ i j : Nat, gsPat i = gsPat j → i = j := by
  intro i j h
  unfold gsPat at h
  change (_ : Nat) = _ at h
  omega

theorem wildArgs_sim {I : Interp E B G P A} {varsE : E → List Var} {varsB : B → List Var} {varsG : G → List Var}
    (hV : VarsSound I varsE varsB varsG) (as : List (SArg E P)) :
    ∀ (t : Tuple) (k : Nat) (ρ σ : Env),
      (∀ v ∈ as.flatMap (SArg.mentions varsE), ¬ GenOf gsWild v) → AgreeOff (GenOf gsWild) ρ σ → Unbound gsWild k ρ →
      OptRel (fun ρ₁ σ₁ => AgreeOff (GenOf gsWild) ρ₁ σ₁ ∧ Unbound gsWild (wildArgs as k).2 ρ₁)
        (matchSArgs I (wildArgs as k).1 t ρ) (matchSArgs I as t σ) := by
  induction as with
  | nil =>
    intro t k ρ σ _ ha hu
    cases t with
    | nil => simp only [wildArgs, matchSArgs, optRel_some_some]; exact ⟨ha, hu⟩
    | cons x xs => simp only [wildArgs, matchSArgs, optRel_none_none]
  | cons a as ih =>
    intro t k ρ σ hm ha hu
    have hm' : ∀ v ∈ as.flatMap (SArg.mentions varsE), ¬ GenOf gsWild v :=
      fun v hv => hm v (by simp only [List.flatMap_cons, List.mem_append]; exact .inr hv)
    have hma : ∀ v ∈ SArg.mentions varsE a, ¬ GenOf gsWild v :=
      fun v hv => hm v (by simp only [List.flatMap_cons, List.mem_append]; exact .inl hv)
    cases t with
    | nil => cases a <;> simp [wildArgs, matchSArgs]
    | cons x xs =>
      cases a with
      | var v =>
        have hv : ¬ GenOf gsWild v := hma v (by simp [SArg.mentions])
        simp only [wildArgs, matchSArgs]
        rw [ha v hv]
        cases hg : σ.get? v with
        | none => exact ih xs k _ _ hm' (ha.cons v x) (hu.cons hv x)
        | some y =>
          simp only
          by_cases hxy : x = y
          · simp only [if_pos hxy]; exact ih xs k ρ σ hm' ha hu
          · simp only [if_neg hxy, optRel_none_none]
      | expr e =>
        have he : I.expr e ρ = I.expr e σ := hV.expr e ρ σ (ha.agree (fun v hv => hma v (by simpa [SArg.mentions] using hv)))
        simp only [wildArgs, matchSArgs, he]
        by_cases hx : I.expr e σ = x
        · simp only [if_pos hx]; exact ih xs k ρ σ hm' ha hu
        · simp only [if_neg hx, optRel_none_none]
      | wild =>
        simp only [wildArgs, matchSArgs, hu k (Nat.le_refl k)]
        exact ih xs (k + 1) _ σ hm' (ha.cons_left ⟨k, rfl⟩ x) (hu.cons_gen gsWild_inj x)
      | pat p vs =>
        simp only [wildArgs, matchSArgs]
        cases I.pat p x with
        | none => simp only [Option.bind_none, optRel_none_none]
        | some ys =>
          simp only [Option.bind_some]
          by_cases hl : ys.length = vs.length
          · simp only [if_pos hl]
            exact ih xs k _ _ hm' (ha.append _)
              (hu.append (fun q hq => hma _ (by simpa [SArg.mentions] using zip_keys hq)))
          · simp only [if_neg hl, optRel_none_none]

theorem wildItems_sim {I : Interp E B G P A} {varsE : E → List Var} {varsB : B → List Var} {varsG : G → List Var}
    (hV : VarsSound I varsE varsB varsG) (D : DB) (agg : RelId → List Tuple) (fs : List (FItem E B G P A)) :
    ∀ k, (∀ f ∈ fs, ∀ v ∈ FItem.mentions varsE varsB varsG f, ¬ GenOf gsWild v) →
      ListSim I D agg gsWild (wildItems fs k) fs k := by
  induction fs with
  | nil => intro k _; exact listSim_nil I D agg gsWild k
  | cons f rest ih =>
    intro k hm
    have hmf := hm f (by simp)
    have hmr : ∀ f ∈ rest, ∀ v ∈ FItem.mentions varsE varsB varsG f, ¬ GenOf gsWild v :=
      fun g hg => hm g (List.mem_cons_of_mem _ hg)
    cases f with
    | clause r as cs =>
      simp only [wildItems]
      refine listSim_cons ?_ (ih _ hmr)
      refine itemSim_clause r (fun t ρ => (matchSArgs I (wildArgs as k).1 t ρ).bind (satConds I cs))
        (fun t ρ => (matchSArgs I as t ρ).bind (satConds I cs)) (stepF_clause_iff I D agg r _ cs) (stepF_clause_iff I D agg r as cs) ?_
      intro t ρ σ ha hu
      refine (wildArgs_sim hV as t k ρ σ ?_ ha hu).bind ?_
      · intro v hv
        exact hmf v (by simp only [FItem.mentions, List.mem_append]; exact .inl hv)
      · rintro ρ₁ σ₁ ⟨ha₁, hu₁⟩
        exact satConds_sim hV gsWild cs
          (fun v hv => hmf v (by simp only [FItem.mentions, List.mem_append]; exact .inr hv)) _ ha₁ hu₁
    | cond c => simp only [wildItems]; exact listSim_cons (itemSim_same hV D agg gsWild _ hmf k) (ih k hmr)
    | gen w g => simp only [wildItems]; exact listSim_cons (itemSim_same hV D agg gsWild _ hmf k) (ih k hmr)
    | agg a => simp only [wildItems]; exact listSim_cons (itemSim_same hV D agg gsWild _ hmf k) (ih k hmr)
    | neg r as => simp only [wildItems]; exact listSim_cons (itemSim_same hV D agg gsWild _ hmf k) (ih k hmr)

end AscentVerif.Surface
