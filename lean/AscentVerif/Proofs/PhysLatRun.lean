import AscentVerif.Proofs.PhysLatScc
import AscentVerif.Proofs.NDLattice
import AscentVerif.Proofs.PhysRun
/-!
# The physical engine with lattices is one execution of the nondeterministic lattice engine

One pass of `PhysLat.evalRules` is a trace of `Proofs/NDLattice.lean`: every environment the physical loop nest of a rule
variant reaches its head update with has the head rows of an environment of `Engine.evalBody` over the abstract state at
variant start (which is a state of the trace), and conversely; the head updates simulate each other.  The loop, the SCCs and
the run follow, carrying the invariants of the nondeterministic engine (`LInv` along the trace gives one row per key).
-/
namespace AscentVerif.PhysLat
open AscentVerif AscentVerif.Engine AscentVerif.Index AscentVerif.Phys

variable {E B G P A : Type}

/-- what the pass needs to know about a rule (from `latPlanOk`, `LatticeProg` and the hypotheses on the rules) -/
structure RuleFitL (V : Hir.VarsOf E B) (p : Program E B G P A) (ix : IxSets) (r : Rule E B G P A) : Prop where
  desug : Hir.Desugared V r = true
  wscoped : Plan.WellScoped V r = true
  clok : ClOk p (fun r => ixOf p ix r) (Hir.compileRule V r) 0 r.body
  cll : ClL p (Hir.compileRule V r) 0 r.body
  aggFree : r.aggFree = true
  heads : ∀ h ∈ r.heads, h.args.length = arityOf p h.rel

section Pass
variable (I : Interp E B G P A) (L : LatOrder I) (hI : Plan.Ext I) (V : Hir.VarsOf E B) (hS : Plan.Supp I V)
  (p : Program E B G P A) (ix : IxSets) (inp : RelId → List Tuple) (dynR : List RelId) (rules : List (Rule E B G P A))
  (hlt : ∀ r, dynR.contains r = true → r < p.rels.length)
  (har : ∀ r, isLatRel p r = true → 0 < arityOf p r)
  (hrules : ∀ rule ∈ rules, rule ∈ p.rules)
  (hdyn : ∀ rule ∈ rules, ∀ h ∈ rule.heads, dynR.contains h.rel = true)
  (hR : ∀ rule ∈ rules, RuleFitL V p ix rule)

include hlt har in
theorem heads_simL (heads : List (HeadClause E)) (ρ ρ' : Env)
    (hh : ∀ h ∈ heads, h.args.length = arityOf p h.rel) (hd : ∀ h ∈ heads, dynR.contains h.rel = true)
    (heq : ∀ h ∈ heads, (h.args.map fun e => I.expr e ρ) = h.args.map fun e => I.expr e ρ')
    (hbf : ∀ h ∈ heads, BelowF I L p inp (headFact I h ρ')) :
    ∀ (a : SccSt) (x : XScc), LInv I L p inp dynR a → SimL p ix a x →
      SimL p ix (heads.foldl (fun s h => Engine.headUpdate I {} p s h ρ') a)
        (heads.foldl (fun s h => headUpdate I p s h ρ) x) := by
  induction heads with
  | nil => intro a x _ h; exact h
  | cons h rest ih =>
    intro a x hinv hsim
    simp only [List.foldl_cons]
    have hstep := headUpdate_step hinv h ρ' (hd h (by simp)) (hbf h (by simp))
    refine ih (fun h' hh' => hh h' (List.mem_cons_of_mem _ hh')) (fun h' hh' => hd h' (List.mem_cons_of_mem _ hh'))
      (fun h' hh' => heq h' (List.mem_cons_of_mem _ hh')) (fun h' hh' => hbf h' (List.mem_cons_of_mem _ hh')) _ _ hstep.1 ?_
    show SimL p ix
      (if (declOf p h.rel).lat then Engine.headLat I {} a h.rel (h.args.map fun e => I.expr e ρ')
        else Engine.headRel a h.rel (h.args.map fun e => I.expr e ρ'))
      (if isLatRel p h.rel then headLat I p x h.rel (h.args.map fun e => I.expr e ρ)
        else headRel x h.rel (h.args.map fun e => I.expr e ρ))
    rw [heq h (by simp)]
    exact headUpdate_simL I hsim hinv.wf hlt h.rel _ (har h.rel) (by rw [List.length_map]; exact hh h (by simp))
      (fun hl => hinv.keys h.rel hl)

/-- the invariant of a pass: a trace from `a₀` whose newest state simulates the physical state -/
structure PIL (a₀ : SccSt) (t : List (EntryL E B G P A) × SccSt) (x : XScc) : Prop where
  tr : TrAt I p dynR rules t.1 t.2
  last : t.1.getLast?.map (·.st) = some a₀
  sim : SimL p ix t.2 x

include hrules hdyn in
theorem PIL.invs {a₀ : SccSt} (hinv0 : LInv I L p inp dynR a₀) {t : List (EntryL E B G P A) × SccSt} {x : XScc}
    (h : PIL I p ix dynR rules a₀ t x) : ∀ s ∈ t.1.map (·.st), LInv I L p inp dynR s := by
  obtain ⟨hall, _⟩ := trace_inv (L := L) (inp := inp) rules hrules hdyn h.tr.1 a₀ h.last hinv0
  intro s hs
  obtain ⟨e, he, rfl⟩ := List.mem_map.mp hs
  exact hall e he

theorem headRows_eq {heads : List (HeadClause E)} {ρ ρ' : Env}
    (h : Plan.headRows I heads ρ = Plan.headRows I heads ρ') :
    ∀ hd ∈ heads, (hd.args.map fun e => I.expr e ρ) = hd.args.map fun e => I.expr e ρ' := by
  intro hd hhd
  have := List.map_inj_left.mp h hd hhd
  exact (Prod.mk.inj this).2

include hlt har hrules hdyn hR in
/-- one environment of the physical loop nest = one micro-step -/
theorem env_simL {a₀ : SccSt} (hinv0 : LInv I L p inp dynR a₀) (rule : Rule E B G P A) (hrule : rule ∈ rules)
    (vs : List (Option Ver)) (hvs : vs ∈ variants dynR rule) (sr : SccSt) (ρ ρ' : Env)
    (hsat : SatV I (Engine.viewOf {} p sr) rule.body vs [] ρ')
    (heq : Plan.headRows I rule.heads ρ = Plan.headRows I rule.heads ρ')
    (x : XScc) (t : List (EntryL E B G P A) × SccSt) (h : PIL I p ix dynR rules a₀ t x) (hsr : sr ∈ t.1.map (·.st)) :
    ∃ t' : List (EntryL E B G P A) × SccSt,
      (PIL I p ix dynR rules a₀ t' (rule.heads.foldl (fun s h => headUpdate I p s h ρ) x) ∧ sr ∈ t'.1.map (·.st)) ∧
      (t.1 <:+ t'.1 ∧ PExt t.2 t'.2) ∧
      ∃ e ∈ t'.1, ∃ ρ'', e.src = some (rule, ρ'') ∧ Plan.headRows I rule.heads ρ'' = Plan.headRows I rule.heads ρ := by
  have hinvs := h.invs I L p ix inp dynR rules hrules hdyn hinv0
  have hinv : LInv I L p inp dynR t.2 := hinvs _ h.tr.mem
  have hinvr : LInv I L p inp dynR sr := hinvs _ hsr
  have hbf := belowF_of_view rule (hrules rule hrule) vs sr hinvr ρ' hsat
  have hstep := h.tr.step rule hrule vs hvs sr hsr ρ' hsat
  refine ⟨(_, _), ⟨⟨hstep, ?_, ?_⟩, ?_⟩, ⟨List.suffix_cons _ _, PExt_heads I p ρ' rule.heads t.2⟩,
    _, List.mem_cons_self, ρ', rfl, heq.symm⟩
  · have hl := h.last
    obtain ⟨t1, t2⟩ := t
    cases t1 with
    | nil => simp at hl
    | cons e0 hist => simpa [List.getLast?_cons_cons] using hl
  · exact heads_simL I L p ix inp dynR hlt har rule.heads ρ ρ' (hR rule hrule).heads (hdyn rule hrule)
      (headRows_eq I heq) hbf t.2 x hinv h.sim
  · simp only [List.map_cons, List.mem_cons]
    exact .inr hsr

include hlt har hrules hdyn hR in
/-- the environments of one variant, all read from `sr` -/
theorem envs_simL {a₀ : SccSt} (hinv0 : LInv I L p inp dynR a₀) (rule : Rule E B G P A) (hrule : rule ∈ rules)
    (vs : List (Option Ver)) (hvs : vs ∈ variants dynR rule) (sr : SccSt) (envs : List Env)
    (hl : ∀ ρ ∈ envs, ∃ ρ', SatV I (Engine.viewOf {} p sr) rule.body vs [] ρ' ∧
      Plan.headRows I rule.heads ρ = Plan.headRows I rule.heads ρ') :
    ∀ (x : XScc) (t : List (EntryL E B G P A) × SccSt), (PIL I p ix dynR rules a₀ t x ∧ sr ∈ t.1.map (·.st)) →
      ∃ t' : List (EntryL E B G P A) × SccSt,
        (PIL I p ix dynR rules a₀ t' (envs.foldl (fun s ρ => rule.heads.foldl (fun s h => headUpdate I p s h ρ) s) x) ∧
          sr ∈ t'.1.map (·.st)) ∧
        (t.1 <:+ t'.1 ∧ PExt t.2 t'.2) ∧
        ∀ ρ ∈ envs, ∃ e ∈ t'.1, ∃ ρ'', e.src = some (rule, ρ'') ∧
          Plan.headRows I rule.heads ρ'' = Plan.headRows I rule.heads ρ := by
  refine foldl_trackE (fun s ρ => rule.heads.foldl (fun s h => headUpdate I p s h ρ) s)
    (fun (t : List (EntryL E B G P A) × SccSt) x => PIL I p ix dynR rules a₀ t x ∧ sr ∈ t.1.map (·.st))
    (fun t _ t' _ => t.1 <:+ t'.1 ∧ PExt t.2 t'.2)
    (fun ρ t _ => ∃ e ∈ t.1, ∃ ρ'', e.src = some (rule, ρ'') ∧
      Plan.headRows I rule.heads ρ'' = Plan.headRows I rule.heads ρ)
    (fun t _ => ⟨List.suffix_refl _, PExt.refl _⟩)
    (fun _ _ _ _ _ _ h₁ h₂ => ⟨h₁.1.trans h₂.1, h₁.2.trans h₂.2⟩)
    (fun ρ t _ t' _ hd hR' => by
      obtain ⟨e, he, ρ'', hsrc, hh⟩ := hd
      exact ⟨e, hR'.1.subset he, ρ'', hsrc, hh⟩) envs ?_
  intro x t ρ hρ hinv
  obtain ⟨ρ', hsat, heq⟩ := hl ρ hρ
  exact env_simL I L V p ix inp dynR rules hlt har hrules hdyn hR hinv0 rule hrule vs hvs sr ρ ρ' hsat heq x t hinv.1 hinv.2

variable {I} in
/-- every instance of variant `vs` of `rule` over the stable part of `s` was processed in the trace, up to head facts -/
def DoneL (rule : Rule E B G P A) (vs : List (Option Ver)) (t : List (EntryL E B G P A) × SccSt) : Prop :=
  ∀ ρ, SatV I (PView t.2) rule.body vs [] ρ → ∃ e ∈ t.1, ∃ ρ', e.src = some (rule, ρ') ∧
    ∀ h ∈ rule.heads, headFact I h ρ' = headFact I h ρ

theorem DoneL.mono {rule : Rule E B G P A} {vs : List (Option Ver)} {t t' : List (EntryL E B G P A) × SccSt}
    (h : DoneL (I := I) rule vs t) (hsuf : t.1 <:+ t'.1) (hext : PExt t.2 t'.2) : DoneL (I := I) rule vs t' := by
  intro ρ hρ
  obtain ⟨e, he, ρ', hsrc, hh⟩ := h ρ (SatV.mono (fun r v t hv => PView_anti' hext hv) hρ)
  exact ⟨e, hsuf.subset he, ρ', hsrc, hh⟩

include hI hS hlt har hrules hdyn hR in
theorem variant_simL {a₀ : SccSt} (hinv0 : LInv I L p inp dynR a₀) (rule : Rule E B G P A) (hrule : rule ∈ rules)
    (vs : List (Option Ver)) (hvs : vs ∈ variants dynR rule) (x : XScc) (t : List (EntryL E B G P A) × SccSt)
    (h : PIL I p ix dynR rules a₀ t x) :
    ∃ t' : List (EntryL E B G P A) × SccSt, PIL I p ix dynR rules a₀ t' (evalVariant I V p x rule vs) ∧
      (t.1 <:+ t'.1 ∧ PExt t.2 t'.2) ∧ DoneL (I := I) rule vs t' := by
  have hfit := hR rule hrule
  have hinv : LInv I L p inp dynR t.2 := h.invs I L p ix inp dynR rules hrules hdyn hinv0 _ h.tr.mem
  have hV := sim_viewsOkL p ix h.sim hinv.wf har
  obtain ⟨hA, hB⟩ := evalRule_envs I hI V hS p _ t.2 x hV rule hfit.desug hfit.wscoped hfit.clok hfit.cll hfit.aggFree vs
  obtain ⟨t', ⟨h1, _⟩, ⟨h2, h3⟩, h4⟩ := envs_simL I L V p ix inp dynR rules hlt har hrules hdyn hR hinv0 rule hrule vs hvs
    t.2 (evalRule I p x (Hir.compileRule V rule) rule.body vs)
    (by
      intro ρ hρ
      obtain ⟨ρ', hρ', heq⟩ := hA ρ hρ
      exact ⟨ρ', SatV_of_evalBody I {} p t.2 rule.body vs [] ρ' hfit.aggFree hρ', heq⟩)
    x t ⟨h, h.tr.mem⟩
  refine ⟨t', h1, ⟨h2, h3⟩, ?_⟩
  intro ρ hρ
  have hρ' : SatV I (Engine.viewOf {} p t.2) rule.body vs [] ρ :=
    SatV.mono (fun r v t hv => PView_sub_view {} p (PView_anti' h3 hv)) hρ
  obtain ⟨ρ₁, hρ₁, heq₁⟩ := hB ρ (evalBody_of_SatV I {} p t.2 hρ')
  obtain ⟨e, he, ρ'', hsrc, heq₂⟩ := h4 ρ₁ hρ₁
  refine ⟨e, he, ρ'', hsrc, ?_⟩
  intro hd hhd
  have := headRows_eq I (heq₂.trans heq₁) hd hhd
  simp only [headFact, this]

include hI hS hlt har hrules hdyn hR in
theorem rule_simL {a₀ : SccSt} (hinv0 : LInv I L p inp dynR a₀) (rule : Rule E B G P A) (hrule : rule ∈ rules)
    (x : XScc) (t : List (EntryL E B G P A) × SccSt) (h : PIL I p ix dynR rules a₀ t x) :
    ∃ t' : List (EntryL E B G P A) × SccSt,
      PIL I p ix dynR rules a₀ t' ((variants dynR rule).foldl (fun s vs => evalVariant I V p s rule vs) x) ∧
      (t.1 <:+ t'.1 ∧ PExt t.2 t'.2) ∧ ∀ vs ∈ variants dynR rule, DoneL (I := I) rule vs t' := by
  refine foldl_trackE (fun s vs => evalVariant I V p s rule vs)
    (fun (t : List (EntryL E B G P A) × SccSt) x => PIL I p ix dynR rules a₀ t x)
    (fun t _ t' _ => t.1 <:+ t'.1 ∧ PExt t.2 t'.2)
    (fun vs t _ => DoneL (I := I) rule vs t)
    (fun t _ => ⟨List.suffix_refl _, PExt.refl _⟩)
    (fun _ _ _ _ _ _ h₁ h₂ => ⟨h₁.1.trans h₂.1, h₁.2.trans h₂.2⟩)
    (fun vs t _ t' _ hd hR' => hd.mono I hR'.1 hR'.2) (variants dynR rule) ?_ x t h
  intro x t vs hvs hinv
  exact variant_simL I L hI V hS p ix inp dynR rules hlt har hrules hdyn hR hinv0 rule hrule vs hvs x t hinv

include hI hS hlt har hrules hdyn hR in
theorem rules_simL {a₀ : SccSt} (hinv0 : LInv I L p inp dynR a₀)
    (x : XScc) (t : List (EntryL E B G P A) × SccSt) (h : PIL I p ix dynR rules a₀ t x) :
    ∃ t' : List (EntryL E B G P A) × SccSt, PIL I p ix dynR rules a₀ t' (evalRules I V p dynR rules x) ∧
      (t.1 <:+ t'.1 ∧ PExt t.2 t'.2) ∧ ∀ rule ∈ rules, ∀ vs ∈ variants dynR rule, DoneL (I := I) rule vs t' := by
  unfold evalRules
  have key : ∀ l : List (Rule E B G P A), (∀ rule ∈ l, rule ∈ rules) → ∀ x t, PIL I p ix dynR rules a₀ t x →
      ∃ t' : List (EntryL E B G P A) × SccSt,
        PIL I p ix dynR rules a₀ t'
          (l.foldl (fun s r => (variants dynR r).foldl (fun s vs => evalVariant I V p s r vs) s) x) ∧
        (t.1 <:+ t'.1 ∧ PExt t.2 t'.2) ∧ ∀ rule ∈ l, ∀ vs ∈ variants dynR rule, DoneL (I := I) rule vs t' := by
    intro l hl
    refine foldl_trackE (fun s r => (variants dynR r).foldl (fun s vs => evalVariant I V p s r vs) s)
      (fun (t : List (EntryL E B G P A) × SccSt) x => PIL I p ix dynR rules a₀ t x)
      (fun t _ t' _ => t.1 <:+ t'.1 ∧ PExt t.2 t'.2)
      (fun rule t _ => ∀ vs ∈ variants dynR rule, DoneL (I := I) rule vs t)
      (fun t _ => ⟨List.suffix_refl _, PExt.refl _⟩)
      (fun _ _ _ _ _ _ h₁ h₂ => ⟨h₁.1.trans h₂.1, h₁.2.trans h₂.2⟩)
      (fun rule t _ t' _ hd hR' vs hvs => (hd vs hvs).mono I hR'.1 hR'.2) l ?_
    intro x t rule hr hinv
    exact rule_simL I L hI V hS p ix inp dynR rules hlt har hrules hdyn hR hinv0 rule (hl rule hr) x t hinv
  exact key rules (fun _ h => h) x t h

include hI hS hlt har hrules hdyn hR in
/-- **one pass** of the physical engine is a pass of the nondeterministic lattice engine -/
theorem pass_simL (a : SccSt) (x : XScc) (hinv : LInv I L p inp dynR { a with changed := false })
    (hsim : SimL p ix a x) :
    ∃ a1, PassNDL I p dynR rules a a1 ∧ SimL p ix a1 (evalRules I V p dynR rules { x with changed := false }) := by
  have h0 : PIL I p ix dynR rules { a with changed := false }
      ([{ st := { a with changed := false }, src := none }], { a with changed := false }) { x with changed := false } :=
    ⟨⟨TraceL.start _, rfl⟩, rfl, reset_simL hsim⟩
  obtain ⟨t', h1, ⟨hsuf, _⟩, hdone⟩ := rules_simL I L hI V hS p ix inp dynR rules hlt har hrules hdyn hR hinv _ _ h0
  refine ⟨t'.2, ⟨t'.1, h1.tr.1, h1.tr.2, h1.last, ?_⟩, h1.sim⟩
  intro rule hrule vs hvs ρ hρ
  exact hdone rule hrule vs hvs ρ hρ

end Pass

/-! ## the loop of a looping SCC -/

section Loop
variable (I : Interp E B G P A) (L : LatOrder I) (hI : Plan.Ext I) (V : Hir.VarsOf E B) (hS : Plan.Supp I V)
  (p : Program E B G P A) (ix : IxSets) (inp : RelId → List Tuple) (dynR : List RelId) (rules : List (Rule E B G P A))
  (hlt : ∀ r, dynR.contains r = true → r < p.rels.length)
  (har : ∀ r, isLatRel p r = true → 0 < arityOf p r)
  (hrules : ∀ rule ∈ rules, rule ∈ p.rules)
  (hdyn : ∀ rule ∈ rules, ∀ h ∈ rule.heads, dynR.contains h.rel = true)
  (hR : ∀ rule ∈ rules, RuleFitL V p ix rule)

include hI hS hlt har hrules hdyn hR in
theorem sccLoop_simL :
    ∀ (fuel : Nat) (rs rs' : RunSt) (a : SccSt), sccLoop I V p dynR rules fuel rs = some rs' →
      LLoopInv I L p inp dynR rules (hasDyn dynR) a → SimL p ix a rs.st →
      ∃ a', LoopNDL I p dynR rules a a' ∧ SimL p ix a' rs'.st ∧ LInv I L p inp dynR a' := by
  have haf : ∀ rule ∈ rules, rule.aggFree = true := fun r hr => (hR r hr).aggFree
  intro fuel
  induction fuel with
  | zero => intro rs rs' a h; simp [sccLoop] at h
  | succ fuel ih =>
    intro rs rs' a h hinv hsim
    obtain ⟨a1, hpass, hsim1⟩ := pass_simL I L hI V hS p ix inp dynR rules hlt har hrules hdyn hR a rs.st
      (LInv_reset hinv.inv) hsim
    obtain ⟨hinv1, _, _⟩ := passNDL_spec rules hrules hdyn a a1 (LInv_reset hinv.inv) hpass
    obtain ⟨hinv', _⟩ := iter_step_ndl rules hrules haf hdyn a a1 hinv hpass
    have hshift : SimL p ix (Engine.shift a1) (shift (evalRules I V p dynR rules { rs.st with changed := false })) :=
      shift_simL hsim1 hinv1.wf (fun r hl => hinv1.keys r hl)
    simp only [sccLoop] at h
    split at h
    · rename_i hch
      simp only [Option.some.injEq] at h
      subst h
      have hch' : a1.changed = false := by
        rw [hsim1.changed]; simpa using hch
      exact ⟨_, LoopNDL.exit hpass hch', hshift, hinv'.inv⟩
    · rename_i hch
      have hch' : a1.changed = true := by
        rw [hsim1.changed]; simpa using hch
      obtain ⟨a', hloop, hsim', hinva'⟩ := ih _ rs' (Engine.shift a1) h (hinv'.weaken fun _ _ => trivial) hshift
      exact ⟨a', LoopNDL.more hpass hch' hloop, hsim', hinva'⟩

end Loop

/-! ## `latPlanOk`, unpacked -/

theorem clL_of_latPlanOk (V : Hir.VarsOf E B) (p : Program E B G P A) (r : Rule E B G P A)
    (h : ((List.range r.body.length).all fun i =>
      match r.body[i]? with
      | some (.clause rel _ _) => !isLatRel p rel || (Plan.colsAt (Hir.compileRule V r) i).all (· < arityOf p rel - 1)
      | _ => true) = true) : ClL p (Hir.compileRule V r) 0 r.body := by
  intro k it hk
  rw [Nat.zero_add]
  have hlt : k < r.body.length := by
    rcases Nat.lt_or_ge k r.body.length with h' | h'
    · exact h'
    · rw [List.getElem?_eq_none h'] at hk; cases hk
  have hk' := List.all_eq_true.mp h k (List.mem_range.mpr hlt)
  rw [hk] at hk'
  cases it with
  | clause rel args conds =>
    intro hl c hc
    simp only [hl, Bool.not_true, Bool.false_or, List.all_eq_true, decide_eq_true_eq] at hk'
    exact hk' c hc
  | cond c => trivial
  | gen v g => trivial
  | agg a => trivial

theorem ruleFitL_of_latPlanOk (V : Hir.VarsOf E B) (p : Program E B G P A) (ix : IxSets) (hp : LatticeProg p)
    (hplan : latPlanOk V p ix = true)
    (hd : ∀ r ∈ p.rules, Hir.Desugared V r = true ∧ Plan.WellScoped V r = true) :
    ∀ r ∈ p.rules, RuleFitL V p ix r := by
  intro r hr
  simp only [latPlanOk, Bool.and_eq_true] at hplan
  obtain ⟨⟨h1, h2⟩, _⟩ := hplan
  have h := List.all_eq_true.mp h1 r hr
  simp only [Bool.and_eq_true] at h
  have h2' := List.all_eq_true.mp h2 r hr
  refine ⟨(hd r hr).1, (hd r hr).2, clOk_of_ruleOk V p _ r h.1, clL_of_latPlanOk V p r h2', hp.1 r hr, ?_⟩
  intro hc hhc
  simpa using List.all_eq_true.mp h.2 hc hhc

theorem arity_pos_of_latPlanOk (V : Hir.VarsOf E B) (p : Program E B G P A) (ix : IxSets)
    (hplan : latPlanOk V p ix = true) : ∀ r, isLatRel p r = true → 0 < arityOf p r := by
  intro r hl
  simp only [latPlanOk, Bool.and_eq_true] at hplan
  have hr : r < p.rels.length := lat_lt p hl
  have := List.all_eq_true.mp hplan.2 r (List.mem_range.mpr hr)
  simpa [hl] using this

/-! ## one SCC, the SCCs in order -/

section Run
variable (I : Interp E B G P A) (L : LatOrder I) (hI : Plan.Ext I) (V : Hir.VarsOf E B) (hS : Plan.Supp I V)
  (p : Program E B G P A) (hp : LatticeProg p) (ix : IxSets) (inp : RelId → List Tuple)
  (har : ∀ r, isLatRel p r = true → 0 < arityOf p r)
  (hR : ∀ r ∈ p.rules, RuleFitL V p ix r)

include hI hS hp har hR in
theorem runScc_simL (fuel : Nat) (scc : List Nat) (ps ps' : ProgSt) (st : St)
    (hinv : LPInv I L p inp st) (hs : SimStL p ix st ps.st)
    (h : runScc I V p fuel scc ps = some ps') : ∃ st', SccNDL I p scc st st' ∧ SimStL p ix st' ps'.st := by
  obtain ⟨_, hh, _, _⟩ := hp
  have hrules := sccRules_sub p scc
  have hRs : ∀ r ∈ sccRules p scc, RuleFitL V p ix r := fun r hr => hR r (hrules r hr)
  have hdyn : ∀ rule ∈ sccRules p scc, ∀ h ∈ rule.heads, (dynRels p scc).contains h.rel = true :=
    fun rule hr h hhd => (dynRels_mem p scc h.rel).mpr ⟨rule, hr, h, hhd, rfl⟩
  have hlt : ∀ r, (dynRels p scc).contains r = true → r < p.rels.length := by
    intro r hr
    obtain ⟨rule, hrule, h, hhd, rfl⟩ := (dynRels_mem p scc r).mp hr
    exact hh rule (hrules rule hrule) h hhd
  have hinv0 := LLoopInv_enter (dynRels p scc) hlt hinv (sccRules p scc)
  have hsim0 : SimL p ix (Engine.enterScc st (dynRels p scc)) (enterScc ps.st (dynRels p scc)) :=
    enter_simL hs _ (fun r hr => by rw [hinv.len]; exact hlt r (List.contains_iff_mem.mpr hr))
  have hdlt : ∀ a : SccSt, WF p.rels.length (dynRels p scc) a → ∀ d ∈ a.dyn, d.rel < a.rels.length := by
    intro a hwf d hd
    rw [hwf.len]; apply hlt
    rw [← hwf.dyn_iff, hwf.uniq d hd]; rfl
  simp only [runScc] at h
  split at h
  · rename_i hlp
    simp only [Option.map_eq_some_iff] at h
    obtain ⟨rs, hloop, rfl⟩ := h
    obtain ⟨a', hnd, hsim', hinva'⟩ := sccLoop_simL I L hI V hS p ix inp (dynRels p scc) (sccRules p scc) hlt har hrules
      hdyn hRs fuel _ rs _ hloop hinv0 hsim0
    refine ⟨Engine.leaveScc a', ?_, leave_simL hsim' (hdlt a' hinva'.wf)⟩
    unfold SccNDL
    rw [if_pos hlp]
    exact ⟨a', hnd, rfl⟩
  · rename_i hlp
    simp only [Option.some.injEq] at h
    subst h
    obtain ⟨a1, hpass, hsim1⟩ := pass_simL I L hI V hS p ix inp (dynRels p scc) (sccRules p scc) hlt har hrules hdyn hRs
      (Engine.enterScc st (dynRels p scc)) (enterScc ps.st (dynRels p scc)) (LInv_reset hinv0.inv) hsim0
    obtain ⟨hinv1, _, _⟩ := passNDL_spec (sccRules p scc) hrules hdyn _ a1 (LInv_reset hinv0.inv) hpass
    have hinv2 := LInv_shift hinv1
    have hinv3 := LInv_shift hinv2
    have hs1 := shift_simL hsim1 hinv1.wf (fun r hl => hinv1.keys r hl)
    have hs2 := shift_simL hs1 hinv2.wf (fun r hl => hinv2.keys r hl)
    refine ⟨Engine.leaveScc (Engine.shift (Engine.shift a1)), ?_, leave_simL hs2 (hdlt _ hinv3.wf)⟩
    unfold SccNDL
    rw [if_neg hlp]
    exact ⟨a1, hpass, rfl⟩

include hI hS hp har hR in
theorem runSccs_simL (fuel : Nat) : ∀ (order : SccOrder) (ps ps' : ProgSt) (st : St),
    LPInv I L p inp st → SimStL p ix st ps.st → runSccs I V p fuel order ps = some ps' →
    ∃ st', SccsNDL I p order st st' ∧ SimStL p ix st' ps'.st := by
  intro order
  induction order with
  | nil =>
    intro ps ps' st _ hs h
    simp only [runSccs, Option.some.injEq] at h
    subst h
    exact ⟨st, SccsNDL.nil, hs⟩
  | cons scc rest ih =>
    intro ps ps' st hinv hs h
    simp only [runSccs, Option.bind_eq_some_iff] at h
    obtain ⟨ps1, hscc, h⟩ := h
    obtain ⟨st1, hnd, hs1⟩ := runScc_simL I L hI V hS p hp ix inp har hR fuel scc ps ps1 st hinv hs hscc
    have hinv1 := (sccNDL_spec hp.1 hp.2.1 scc st st1 hinv hnd).1
    obtain ⟨st2, hnd2, hs2⟩ := ih ps1 ps' st1 hinv1 hs1 h
    exact ⟨st2, SccsNDL.cons hnd hnd2, hs2⟩

end Run

/-! ## the start value -/

theorem absStX_initSt (p : Program E B G P A) (inp : RelId → List Tuple) :
    absStX (initSt p inp) = Engine.initSt p inp := by
  simp [absStX, initSt, Engine.initSt, List.map_map, Function.comp_def]

theorem xrel_initSt_rows (p : Program E B G P A) (inp : RelId → List Tuple) (r : RelId) :
    (xrel (initSt p inp) r).rows = if r < p.rels.length then inp r else [] := by
  by_cases hr : r < p.rels.length
  · simp only [initSt, xrel_rangeMap _ _ _ hr, hr, if_true]
  · have hr' : p.rels.length ≤ r := Nat.le_of_not_lt hr
    simp only [initSt, xrel_rangeMap_ge _ _ _ hr', hr, if_false]

/-- **the run of the physical engine with lattices is an execution of the nondeterministic lattice engine** -/
theorem run_is_RunNDL (I : Interp E B G P A) (L : LatOrder I) (hI : Plan.Ext I) (V : Hir.VarsOf E B) (hS : Plan.Supp I V)
    (p : Program E B G P A) (ix : IxSets) (order : SccOrder) (inp : RelId → List Tuple) (fuel : Nat) (out : ProgSt)
    (hp : LatticeProg p) (hi : InputOK p inp) (hplan : latPlanOk V p ix = true)
    (hd : ∀ r ∈ p.rules, Hir.Desugared V r = true ∧ Plan.WellScoped V r = true)
    (hrun : run I V p ix order fuel (initSt p inp) = some out) :
    ∃ st', RunNDL I p order (Engine.initSt p inp) st' ∧ SimStL p ix st' out.st := by
  have hR := ruleFitL_of_latPlanOk V p ix hp hplan hd
  have har := arity_pos_of_latPlanOk V p ix hplan
  have hinv0 : LPInv I L p inp (Engine.updateIndices (Engine.initSt p inp)) := (LPInv_start hi.2).1
  have hsim0 : SimStL p ix (Engine.updateIndices (absStX (initSt p inp))) (updateIndices p ix (initSt p inp)) := by
    apply updateIndices_simL
    · intro r t ht
      rw [xrel_initSt_rows] at ht
      split at ht
      · rename_i hr; exact hi.1 r hr t ht
      · cases ht
    · intro r hl
      have hr : r < p.rels.length := lat_lt p hl
      rw [xrel_initSt_rows, if_pos hr]
      exact hi.2 r hr hl
  rw [absStX_initSt] at hsim0
  exact runSccs_simL I L hI V hS p hp ix inp har hR fuel order _ out _ hinv0 hsim0 hrun

end AscentVerif.PhysLat
