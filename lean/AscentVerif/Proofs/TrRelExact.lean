import AscentVerif.Proofs.TrRelSound
/-!
# `add_set_connection` computes exactly the transitive closure step

If `set_connections` (`C a b := rel t.conn a b`) is transitively closed and mirrored by
`reverse_set_connections`, and there is no back edge `to → from` (or `from = to`), then after
`add_set_connection(from, to)` the stored relation is exactly

  `C ∪ ({from} ∪ pred from) × ({to} ∪ succ to)`

in both maps — again transitively closed and mirrored.  The `difference` shortcuts of the Rust
code (`new_to_connections`, `new_from_reverse_connections`) are justified by closedness.
-/
namespace AscentVerif.TrRel

/-- `reverse_set_connections` is the mirror image of `set_connections` -/
def Mirror (t : TrRel) : Prop := ∀ a b, rel t.conn a b ↔ rel t.rconn b a

/-- `set_connections` is transitively closed -/
def Closed (t : TrRel) : Prop := ∀ a b c, rel t.conn a b → rel t.conn b c → rel t.conn a c

/-- the relation `add_set_connection(f, to)` must produce -/
def Cstar (t : TrRel) (f to a b : Nat) : Prop :=
  rel t.conn a b ∨ ((a = f ∨ rel t.conn a f) ∧ (b = to ∨ rel t.conn to b))

theorem Cstar.trans {t : TrRel} (K : Closed t) (f to : Nat) (a b c : Nat) (h1 : Cstar t f to a b) (h2 : Cstar t f to b c) :
    Cstar t f to a c := by
  rcases h1 with h1 | ⟨ha, hb⟩ <;> rcases h2 with h2 | ⟨hb', hc⟩
  · exact Or.inl (K _ _ _ h1 h2)
  · right
    refine ⟨?_, hc⟩
    rcases hb' with rfl | hb'
    · exact Or.inr h1
    · exact Or.inr (K _ _ _ h1 hb')
  · right
    refine ⟨ha, ?_⟩
    rcases hb with rfl | hb
    · exact Or.inr h2
    · exact Or.inr (K _ _ _ hb h2)
  · exact Or.inr ⟨ha, hc⟩

/-! ## lower bounds through the folds -/

theorem rel_foldl_insert_mem (l : List Nat) (to : Nat) (m : NMap) {z : Nat} (hz : z ∈ l) :
    rel (l.foldl (fun c z => (entryInsert c z to).1) m) z to := by
  induction l generalizing m with
  | nil => simp at hz
  | cons x t ih =>
    simp only [List.foldl_cons]
    rcases List.mem_cons.mp hz with rfl | hz
    · exact rel_foldl_insert_mono t to ((rel_entryInsert _ _ _ _ _).mpr (Or.inr ⟨rfl, rfl⟩))
    · exact ih _ hz

theorem rel_foldl_insert_val_mem (l : List Nat) (f : Nat) (m : NMap) {z : Nat} (hz : z ∈ l) :
    rel (l.foldl (fun c y' => (entryInsert c y' f).1) m) z f := rel_foldl_insert_mem l f m hz

theorem addOneConnection_rconn_mono {t : TrRel} {a b : Nat} (f to : Nat) (h : rel t.rconn a b) :
    rel (t.addOneConnection f to).1.rconn a b := by
  unfold TrRel.addOneConnection
  rcases hei : entryInsert t.conn f to with ⟨conn1, isNew⟩
  cases isNew
  · exact h
  · exact rel_entryInsert_mono to f h

theorem addOneConnection_conn_new {t : TrRel} (f to : Nat) : rel (t.addOneConnection f to).1.conn f to := by
  unfold TrRel.addOneConnection
  have hc : rel (entryInsert t.conn f to).1 f to := (rel_entryInsert _ _ _ _ _).mpr (Or.inr ⟨rfl, rfl⟩)
  rcases hei : entryInsert t.conn f to with ⟨conn1, isNew⟩
  rw [hei] at hc
  cases isNew <;> exact hc

/-- "partial mirror": every stored connection not touching the two temporarily emptied
entries has its reverse stored -/
def PMirror (t : TrRel) (f to : Nat) : Prop := ∀ a b, a ≠ to → b ≠ f → rel t.conn a b → rel t.rconn b a

theorem addOneConnection_pmirror {t : TrRel} {f to : Nat} (x y : Nat) (h : PMirror t f to) :
    PMirror (t.addOneConnection x y).1 f to := by
  intro a b ha hb hr
  unfold TrRel.addOneConnection at hr ⊢
  have hnew := entryInsert_snd t.conn x y
  have hrel := rel_entryInsert t.conn x y a b
  rcases hei : entryInsert t.conn x y with ⟨conn1, isNew⟩
  rw [hei] at hr hnew hrel
  cases isNew with
  | false =>
    simp only at hr ⊢
    have hold : rel t.conn x y := by
      apply Classical.byContradiction; intro hn
      have := hnew.mpr hn; simp at this
    rcases hrel.mp hr with h' | ⟨rfl, rfl⟩
    · exact h a b ha hb h'
    · exact h a b ha hb hold
  | true =>
    simp only at hr ⊢
    rcases hrel.mp hr with h' | ⟨rfl, rfl⟩
    · exact rel_entryInsert_mono _ _ (h a b ha hb h')
    · exact (rel_entryInsert _ _ _ _ _).mpr (Or.inr ⟨rfl, rfl⟩)

/-- the double loop of `add_one_connection`s: facts about its result -/
structure OuterPost (t t2 : TrRel) (xs ys : List Nat) (f to : Nat) : Prop where
  conn_mono : ∀ a b, rel t.conn a b → rel t2.conn a b
  rconn_mono : ∀ a b, rel t.rconn a b → rel t2.rconn a b
  conn_new : ∀ x ∈ xs, ∀ y ∈ ys, rel t2.conn x y
  pmirror : PMirror t f to → PMirror t2 f to

theorem foldl_addOne_inner_post (x : Nat) (ys : List Nat) (t : TrRel) (f to : Nat) :
    OuterPost t (ys.foldl (fun t y' => (t.addOneConnection x y').1) t) [x] ys f to := by
  induction ys generalizing t with
  | nil => exact ⟨fun _ _ h => h, fun _ _ h => h, by simp, fun h => h⟩
  | cons y rest ih =>
    simp only [List.foldl_cons]
    have P := ih (t.addOneConnection x y).1
    refine ⟨fun a b h => P.conn_mono a b (addOneConnection_conn_mono x y h),
      fun a b h => P.rconn_mono a b (addOneConnection_rconn_mono x y h), ?_,
      fun h => P.pmirror (addOneConnection_pmirror x y h)⟩
    intro x' hx' y' hy'
    simp only [List.mem_singleton] at hx'; subst hx'
    rcases List.mem_cons.mp hy' with rfl | hy'
    · exact P.conn_mono _ _ (addOneConnection_conn_new x' y')
    · exact P.conn_new x' (by simp) y' hy'

theorem foldl_addOne_outer_post (xs ys : List Nat) (t : TrRel) (f to : Nat) :
    OuterPost t (xs.foldl (fun t x' => ys.foldl (fun t y' => (t.addOneConnection x' y').1) t) t) xs ys f to := by
  induction xs generalizing t with
  | nil => exact ⟨fun _ _ h => h, fun _ _ h => h, by simp, fun h => h⟩
  | cons x rest ih =>
    simp only [List.foldl_cons]
    have P1 := foldl_addOne_inner_post x ys t f to
    have P := ih (ys.foldl (fun t y' => (t.addOneConnection x y').1) t)
    refine ⟨fun a b h => P.conn_mono a b (P1.conn_mono a b h), fun a b h => P.rconn_mono a b (P1.rconn_mono a b h), ?_,
      fun h => P.pmirror (P1.pmirror h)⟩
    intro x' hx' y' hy'
    rcases List.mem_cons.mp hx' with rfl | hx'
    · exact P.conn_mono _ _ (P1.conn_new x' (by simp) y' hy')
    · exact P.conn_new x' hx' y' hy'

/-! ## the exact result of `add_set_connection` -/

theorem mem_of_alGet {m : NMap} {k : Nat} {s : NSet} (h : alGet m k = some s) (x : Nat) : x ∈ s ↔ rel m k x := by
  unfold rel; rw [h]; simp

/-- `add_set_connection(f, to)` for `f ≠ to` without a back edge, on a closed and mirrored state -/
theorem addSetConnection_exact {t t' : TrRel} {f to : Nat} {b : Bool} (M : Mirror t) (K : Closed t)
    (hne : f ≠ to) (hback : ¬ rel t.conn to f) (he : t.addSetConnection f to = .ok (t', b)) :
    (∀ a c, rel t'.conn a c ↔ Cstar t f to a c) ∧ (∀ a c, rel t'.rconn c a ↔ Cstar t f to a c) := by
  -- upper bounds: `add_set_connection` only stores `Cstar` pairs
  have hup : ConnLe (Cstar t f to) t' := by
    refine (addSetConnection_le (G := Cstar t f to) (Cstar.trans K f to) ⟨fun a c h => Or.inl h, fun a c h => Or.inl ((M c a).mpr h)⟩
      (Or.inr ⟨Or.inl rfl, Or.inl rfl⟩) he).1
  have hge := addSetConnection_ge he
  suffices hlow : (∀ a c, Cstar t f to a c → rel t'.conn a c) ∧ (∀ a c, Cstar t f to a c → rel t'.rconn c a) from
    ⟨fun a c => ⟨hup.conn a c, hlow.1 a c⟩, fun a c => ⟨hup.rconn c a, hlow.2 a c⟩⟩
  unfold TrRel.addSetConnection at he
  have hnew := entryInsert_snd t.conn f to
  have hrel1 := rel_entryInsert t.conn f to
  rcases hei : entryInsert t.conn f to with ⟨conn1, isNew⟩
  rw [hei] at he hnew hrel1
  simp only at he hnew hrel1
  split at he
  · -- the edge was already stored: nothing changes, and `Cstar = C` by closedness
    next hnn =>
    have hold : rel t.conn f to := by
      apply Classical.byContradiction; intro hn
      have := hnew.mpr hn; simp [this] at hnn
    cases he
    have hC : ∀ a c, Cstar t f to a c → rel t.conn a c := by
      rintro a c (h | ⟨ha, hc⟩)
      · exact h
      · have h1 : rel t.conn a to := by
          rcases ha with rfl | ha
          · exact hold
          · exact K _ _ _ ha hold
        rcases hc with rfl | hc
        · exact h1
        · exact K _ _ _ h1 hc
    exact ⟨fun a c h => (hrel1 a c).mpr (Or.inl (hC a c h)), fun a c h => (M a c).mp (hC a c h)⟩
  · have hrr1 := rel_entryInsert t.rconn to f
    have hfr := mem_entryOrDefault_snd (entryInsert t.rconn to f).1 f
    have hr2 := rel_entryOrDefault (entryInsert t.rconn to f).1 f
    rcases heo : entryOrDefault (entryInsert t.rconn to f).1 f with ⟨rconn2, fromRev⟩
    rw [heo] at he hfr hr2
    have htc := mem_entryOrDefault_snd conn1 to
    have hc2 := rel_entryOrDefault conn1 to
    rcases heo2 : entryOrDefault conn1 to with ⟨conn2, toConn⟩
    rw [heo2] at he htc hc2
    simp only at he hfr hr2 htc hc2
    obtain ⟨cf, hcf, he⟩ := Res.bind_eq_ok he
    obtain ⟨rt, hrt, he⟩ := Res.bind_eq_ok he
    have hcf' := mem_of_alGet (unwrap_eq_ok hcf)
    have hrt' := mem_of_alGet (unwrap_eq_ok hrt)
    -- membership in the four sets, in terms of the original relation
    have fromRev_iff : ∀ x, x ∈ fromRev ↔ rel t.conn x f := by
      intro x; rw [hfr, hrr1, M x f]
      constructor
      · rintro (h | ⟨h, _⟩)
        · exact h
        · exact absurd h hne
      · exact Or.inl
    have toConn_iff : ∀ y, y ∈ toConn ↔ rel t.conn to y := by
      intro y; rw [htc, hrel1]
      constructor
      · rintro (h | ⟨h, _⟩)
        · exact h
        · exact absurd h.symm hne
      · exact Or.inl
    have cf_iff : ∀ y, y ∈ cf ↔ (rel t.conn f y ∨ y = to) := by
      intro y; rw [hcf', rel_alSet, if_neg (Ne.symm hne), hc2, hrel1]
      constructor
      · rintro (h | ⟨_, h⟩)
        · exact Or.inl h
        · exact Or.inr h
      · rintro (h | h)
        · exact Or.inl h
        · exact Or.inr ⟨rfl, h⟩
    have rt_iff : ∀ x, x ∈ rt ↔ (rel t.conn x to ∨ x = f) := by
      intro x; rw [hrt', rel_alSet, if_neg hne, hr2, hrr1, M x to]
      constructor
      · rintro (h | ⟨_, h⟩)
        · exact Or.inl h
        · exact Or.inr h
      · rintro (h | h)
        · exact Or.inl h
        · exact Or.inr ⟨rfl, h⟩
    have fromRev_ne : ∀ x, x ∈ fromRev → x ≠ to := by
      intro x hx h; subst h; exact hback ((fromRev_iff _).mp hx)
    have toConn_ne : ∀ y, y ∈ toConn → y ≠ f := by
      intro y hy h; subst h; exact hback ((toConn_iff _).mp hy)
    -- the double loop
    have P := foldl_addOne_outer_post (nsDiff fromRev rt) (nsDiff toConn cf)
      { t with conn := alSet conn2 to [], rconn := alSet rconn2 f [] } f to
    generalize ht2 : (nsDiff fromRev rt).foldl (fun t x' => (nsDiff toConn cf).foldl (fun t y' => (t.addOneConnection x' y').1) t)
      { t with conn := alSet conn2 to [], rconn := alSet rconn2 f [] } = t2 at he P
    have hpm : PMirror t2 f to := by
      apply P.pmirror
      intro a c ha hc hr
      simp only at hr ⊢
      rw [rel_alSet, if_neg (Ne.symm ha), hc2, hrel1] at hr
      rw [rel_alSet, if_neg (Ne.symm hc), hr2, hrr1]
      rcases hr with h | ⟨rfl, rfl⟩
      · exact Or.inl ((M a c).mp h)
      · exact Or.inr ⟨rfl, rfl⟩
    simp only [Res.pure_eq, Res.ok.injEq, Prod.mk.injEq] at he
    obtain ⟨rfl, _⟩ := he
    simp only at hge ⊢
    -- lower bounds on the final maps
    have L1 : ∀ y, y ∈ toConn → rel (alSet (entryExtend (List.foldl (fun c x' => (entryInsert c x' to).1) t2.conn
        (nsDiff fromRev rt)) f toConn) to toConn) f y := by
      intro y hy
      rw [rel_alSet, if_neg (Ne.symm hne)]
      exact (rel_entryExtend _ _ _ _ _).mpr (Or.inr ⟨rfl, hy⟩)
    have L2 : ∀ x, x ∈ nsDiff fromRev rt → rel (alSet (entryExtend (List.foldl (fun c x' => (entryInsert c x' to).1) t2.conn
        (nsDiff fromRev rt)) f toConn) to toConn) x to := by
      intro x hx
      have hxne := fromRev_ne x ((mem_nsDiff _ _ _).mp hx).1
      rw [rel_alSet, if_neg (Ne.symm hxne)]
      exact (rel_entryExtend _ _ _ _ _).mpr (Or.inl (rel_foldl_insert_mem _ _ _ hx))
    have L3 : ∀ x, x ∈ nsDiff fromRev rt → ∀ y, y ∈ nsDiff toConn cf → rel (alSet (entryExtend (List.foldl
        (fun c x' => (entryInsert c x' to).1) t2.conn (nsDiff fromRev rt)) f toConn) to toConn) x y := by
      intro x hx y hy
      have hxne := fromRev_ne x ((mem_nsDiff _ _ _).mp hx).1
      rw [rel_alSet, if_neg (Ne.symm hxne)]
      exact (rel_entryExtend _ _ _ _ _).mpr (Or.inl (rel_foldl_insert_mono _ _ (P.conn_new x hx y hy)))
    -- monotonicity of the reverse map for keys other than `f`
    have Rmono : ∀ a c, a ≠ f → rel t2.rconn a c → rel (alSet (entryExtend (List.foldl (fun c y' => (entryInsert c y' f).1) t2.rconn
        (nsDiff toConn cf)) to fromRev) f fromRev) a c := by
      intro a c ha h
      rw [rel_alSet, if_neg (Ne.symm ha)]
      exact (rel_entryExtend _ _ _ _ _).mpr (Or.inl (rel_foldl_insert_mono _ _ h))
    have Rold : ∀ a c, rel t.rconn a c → rel (alSet (entryExtend (List.foldl (fun c y' => (entryInsert c y' f).1) t2.rconn
        (nsDiff toConn cf)) to fromRev) f fromRev) a c := by
      intro a c h
      by_cases ha : a = f
      · subst ha
        rw [rel_alSet, if_pos rfl, fromRev_iff]; exact (M c a).mpr h
      · apply Rmono a c ha
        apply P.rconn_mono
        simp only
        rw [rel_alSet, if_neg (Ne.symm ha), hr2, hrr1]; exact Or.inl h
    have R0 : rel (alSet (entryExtend (List.foldl (fun c y' => (entryInsert c y' f).1) t2.rconn
        (nsDiff toConn cf)) to fromRev) f fromRev) to f := by
      apply Rmono to f (Ne.symm hne)
      apply P.rconn_mono
      simp only
      rw [rel_alSet, if_neg hne, hr2, hrr1]; exact Or.inr ⟨rfl, rfl⟩
    have R1 : ∀ x, x ∈ fromRev → rel (alSet (entryExtend (List.foldl (fun c y' => (entryInsert c y' f).1) t2.rconn
        (nsDiff toConn cf)) to fromRev) f fromRev) to x := by
      intro x hx
      rw [rel_alSet, if_neg hne]
      exact (rel_entryExtend _ _ _ _ _).mpr (Or.inr ⟨rfl, hx⟩)
    have R2 : ∀ y, y ∈ nsDiff toConn cf → rel (alSet (entryExtend (List.foldl (fun c y' => (entryInsert c y' f).1) t2.rconn
        (nsDiff toConn cf)) to fromRev) f fromRev) y f := by
      intro y hy
      have hyne := toConn_ne y ((mem_nsDiff _ _ _).mp hy).1
      rw [rel_alSet, if_neg (Ne.symm hyne)]
      exact (rel_entryExtend _ _ _ _ _).mpr (Or.inl (rel_foldl_insert_mem _ _ _ hy))
    have R3 : ∀ x, x ∈ nsDiff fromRev rt → ∀ y, y ∈ nsDiff toConn cf → rel (alSet (entryExtend (List.foldl
        (fun c y' => (entryInsert c y' f).1) t2.rconn (nsDiff toConn cf)) to fromRev) f fromRev) y x := by
      intro x hx y hy
      have hxne := fromRev_ne x ((mem_nsDiff _ _ _).mp hx).1
      have hyne := toConn_ne y ((mem_nsDiff _ _ _).mp hy).1
      exact Rmono y x hyne (hpm x y hxne hyne (P.conn_new x hx y hy))
    -- a pair of `Cstar` that is not justified by the shortcuts is already in the old closed relation
    have hC : ∀ a c, rel t.conn a c → rel (alSet (entryExtend (List.foldl (fun c x' => (entryInsert c x' to).1) t2.conn
        (nsDiff fromRev rt)) f toConn) to toConn) a c := hge.1
    refine ⟨?_, ?_⟩
    · rintro a c (h | ⟨ha, hc⟩)
      · exact hC a c h
      · -- first the case c = to, then the general case
        have hto : rel (alSet (entryExtend (List.foldl (fun c x' => (entryInsert c x' to).1) t2.conn
            (nsDiff fromRev rt)) f toConn) to toConn) a to := by
          rcases ha with rfl | ha
          · exact hge.2
          · by_cases hx : a ∈ rt
            · rcases (rt_iff a).mp hx with h | rfl
              · exact hC _ _ h
              · exact hge.2
            · exact L2 a ((mem_nsDiff _ _ _).mpr ⟨(fromRev_iff a).mpr ha, hx⟩)
        rcases hc with rfl | hc
        · exact hto
        · have hcin := (toConn_iff c).mpr hc
          rcases ha with rfl | ha
          · exact L1 c hcin
          · by_cases hx : a ∈ rt
            · rcases (rt_iff a).mp hx with h | rfl
              · exact hC _ _ (K _ _ _ h hc)
              · exact L1 c hcin
            · by_cases hy : c ∈ cf
              · rcases (cf_iff c).mp hy with h | rfl
                · exact hC _ _ (K _ _ _ ha h)
                · exact hto
              · exact L3 a ((mem_nsDiff _ _ _).mpr ⟨(fromRev_iff a).mpr ha, hx⟩) c ((mem_nsDiff _ _ _).mpr ⟨hcin, hy⟩)
    · rintro a c (h | ⟨ha, hc⟩)
      · exact Rold c a ((M a c).mp h)
      · have hto : rel (alSet (entryExtend (List.foldl (fun c y' => (entryInsert c y' f).1) t2.rconn
            (nsDiff toConn cf)) to fromRev) f fromRev) to a := by
          rcases ha with rfl | ha
          · exact R0
          · exact R1 a ((fromRev_iff a).mpr ha)
        rcases hc with rfl | hc
        · exact hto
        · have hcin := (toConn_iff c).mpr hc
          have hfc : rel (alSet (entryExtend (List.foldl (fun c y' => (entryInsert c y' f).1) t2.rconn
              (nsDiff toConn cf)) to fromRev) f fromRev) c f := by
            by_cases hy : c ∈ cf
            · rcases (cf_iff c).mp hy with h | rfl
              · exact Rold c f ((M f c).mp h)
              · exact R0
            · exact R2 c ((mem_nsDiff _ _ _).mpr ⟨hcin, hy⟩)
          rcases ha with rfl | ha
          · exact hfc
          · by_cases hx : a ∈ rt
            · rcases (rt_iff a).mp hx with h | rfl
              · exact Rold c a ((M a c).mp (K _ _ _ h hc))
              · exact hfc
            · by_cases hy : c ∈ cf
              · rcases (cf_iff c).mp hy with h | rfl
                · exact Rold c a ((M a c).mp (K _ _ _ ha h))
                · exact hto
              · exact R3 a ((mem_nsDiff _ _ _).mpr ⟨(fromRev_iff a).mpr ha, hx⟩) c ((mem_nsDiff _ _ _).mpr ⟨hcin, hy⟩)

/-- the reverse map never loses a pair either, and stores `to ← f` whenever the edge is new -/
theorem addSetConnection_ge_rconn {t t' : TrRel} {f to : Nat} {b : Bool} (he : t.addSetConnection f to = .ok (t', b)) :
    (∀ a c, rel t.rconn a c → rel t'.rconn a c) ∧ (¬ rel t.conn f to → rel t'.rconn to f) := by
  unfold TrRel.addSetConnection at he
  have hnew := entryInsert_snd t.conn f to
  rcases hei : entryInsert t.conn f to with ⟨conn1, isNew⟩
  rw [hei] at he hnew
  simp only at he hnew
  split at he
  · next hnn =>
    cases he
    refine ⟨fun a c h => h, fun hn => ?_⟩
    have := hnew.mpr hn; simp [this] at hnn
  · suffices hs : ∀ a c, rel (entryInsert t.rconn to f).1 a c → rel t'.rconn a c from
      ⟨fun a c h => hs a c (rel_entryInsert_mono to f h), fun _ => hs to f ((rel_entryInsert _ _ _ _ _).mpr (Or.inr ⟨rfl, rfl⟩))⟩
    have hfr : ∀ c, rel (entryInsert t.rconn to f).1 f c → c ∈ (entryOrDefault (entryInsert t.rconn to f).1 f).2 :=
      fun c h => (mem_entryOrDefault_snd _ _ _).mpr h
    have hod : ∀ a c, rel (entryInsert t.rconn to f).1 a c → rel (entryOrDefault (entryInsert t.rconn to f).1 f).1 a c :=
      fun a c h => (rel_entryOrDefault _ _ _ _).mpr h
    rcases heo : entryOrDefault (entryInsert t.rconn to f).1 f with ⟨rconn2, fromRev⟩
    rw [heo] at he hfr hod
    rcases heo2 : entryOrDefault conn1 to with ⟨conn2, toConn⟩
    rw [heo2] at he
    simp only at he hfr hod
    obtain ⟨cf, _, he⟩ := Res.bind_eq_ok he
    obtain ⟨rt, _, he⟩ := Res.bind_eq_ok he
    have P := foldl_addOne_outer_post (nsDiff fromRev rt) (nsDiff toConn cf)
      { t with conn := alSet conn2 to [], rconn := alSet rconn2 f [] } f to
    simp only [Res.pure_eq, Res.ok.injEq, Prod.mk.injEq] at he
    obtain ⟨rfl, _⟩ := he
    intro a c h
    simp only
    rw [rel_alSet]
    by_cases hfa : f = a
    · subst hfa; rw [if_pos rfl]; exact hfr c h
    · rw [if_neg hfa]
      apply (rel_entryExtend _ _ _ _ _).mpr; left
      apply rel_foldl_insert_mono
      apply P.rconn_mono
      show rel (alSet rconn2 f []) a c
      rw [rel_alSet, if_neg hfa]
      exact hod a c h

/-- `add_set_connection(s, s)` on a node without any connection (a freshly created set) -/
theorem addSetConnection_exact_self {t t' : TrRel} {s : Nat} {b : Bool} (M : Mirror t) (K : Closed t)
    (hiso : ∀ a, ¬ rel t.conn s a ∧ ¬ rel t.conn a s) (he : t.addSetConnection s s = .ok (t', b)) :
    (∀ a c, rel t'.conn a c ↔ Cstar t s s a c) ∧ (∀ a c, rel t'.rconn c a ↔ Cstar t s s a c) := by
  have hup : ConnLe (Cstar t s s) t' :=
    (addSetConnection_le (G := Cstar t s s) (Cstar.trans K s s) ⟨fun a c h => Or.inl h, fun a c h => Or.inl ((M c a).mpr h)⟩
      (Or.inr ⟨Or.inl rfl, Or.inl rfl⟩) he).1
  have hge := addSetConnection_ge he
  have hger := addSetConnection_ge_rconn he
  have hC : ∀ a c, Cstar t s s a c → rel t.conn a c ∨ (a = s ∧ c = s) := by
    rintro a c (h | ⟨ha, hc⟩)
    · exact Or.inl h
    · rcases ha with rfl | ha
      · rcases hc with rfl | hc
        · exact Or.inr ⟨rfl, rfl⟩
        · exact absurd hc (hiso c).1
      · exact absurd ha (hiso a).2
  refine ⟨fun a c => ⟨hup.conn a c, fun h => ?_⟩, fun a c => ⟨hup.rconn c a, fun h => ?_⟩⟩
  · rcases hC a c h with h | ⟨rfl, rfl⟩
    · exact hge.1 a c h
    · exact hge.2
  · rcases hC a c h with h | ⟨rfl, rfl⟩
    · exact hger.1 c a ((M a c).mp h)
    · exact hger.2 (hiso _).1

/-- consequences of exactness: the new state is again mirrored and closed -/
theorem mirror_closed_of_exact {t t' : TrRel} {f to : Nat} (K : Closed t)
    (h : (∀ a c, rel t'.conn a c ↔ Cstar t f to a c) ∧ (∀ a c, rel t'.rconn c a ↔ Cstar t f to a c)) :
    Mirror t' ∧ Closed t' := by
  refine ⟨fun a c => by rw [h.1, h.2], fun a c d h1 h2 => ?_⟩
  rw [h.1] at h1 h2 ⊢
  exact Cstar.trans K f to a c d h1 h2

end AscentVerif.TrRel
