import AscentVerif.Proofs.ParScc
import AscentVerif.Proofs.Strata
/-!
# Strata for the parallel engine: `runSccsPar` over a valid SCC order and the final statements
(step 5/6 of the C02 proof; mirrors `Proofs/Strata.lean`, every schedule)
-/
namespace AscentVerif.Engine
open AscentVerif

variable {E B G P A : Type}

section ParStrata
variable (I : Interp E B G P A) (cfg : Config) (p : Program E B G P A) (inp : RelId → List Tuple)
  (hl : ∀ d ∈ p.rels, d.lat = false) (haf : ∀ r ∈ p.rules, r.aggFree = true)
  (hh : ∀ r ∈ p.rules, ∀ h ∈ r.heads, h.rel < p.rels.length)
  (o : SccOrder) (ho : validOrder p o = true)

include hl haf hh ho in
theorem runSccsPar_spec (σ : Sched E B G P A) (fuel : Nat) : ∀ (rest done : SccOrder) (ps ps' : ParProgSt),
    done ++ rest = o → PInv I p inp p.rels.length ps.st →
    (∀ scc ∈ done, ClosedRules I (sccRules p scc) (factsOf ps.st)) →
    runSccsPar I cfg p σ fuel rest ps = some ps' →
    PInv I p inp p.rels.length ps'.st ∧ ∀ scc ∈ o, ClosedRules I (sccRules p scc) (factsOf ps'.st) := by
  intro rest
  induction rest with
  | nil =>
    intro done ps ps' hdone hp hcl h
    simp only [runSccsPar, Option.some.injEq] at h
    subst h
    rw [List.append_nil] at hdone
    subst hdone
    exact ⟨hp, hcl⟩
  | cons scc rest ih =>
    intro done ps ps' hdone hp hcl h
    simp only [runSccsPar, Option.bind_eq_some_iff] at h
    obtain ⟨ps1, hscc, h⟩ := h
    obtain ⟨hp1, hsame, hmono, hcl1⟩ := runSccPar_spec I cfg p inp hl haf hh σ fuel scc ps ps1 hp hscc
    refine ih (done ++ [scc]) ps1 ps' (by rw [List.append_assoc]; exact hdone) hp1 ?_ h
    intro scc' hscc'
    rcases List.mem_append.mp hscc' with hscc' | hscc'
    · intro rule hrule ρ hsat hd hhd
      have hfw := validOrder_forward p o ho done scc rest hdone scc' hscc' rule hrule
      have hsat' : Sat I (factsOf ps.st) nAgg rule.body [] ρ := by
        refine Sat.congr_rels hsat ?_
        intro r hr t ht
        have : relSt ps1.st r = relSt ps.st r := hsame r (hfw r hr)
        simp only [factsOf] at ht ⊢
        rw [← this]; exact ht
      exact hmono _ _ (hcl scc' hscc' rule hrule ρ hsat' hd hhd)
    · simp only [List.mem_singleton] at hscc'
      subst hscc'
      exact hcl1

include hl haf hh ho in
/-- everything the final theorems need about a completed parallel run (any schedule) -/
theorem runPar_spec (σ : Sched E B G P A) (fuel : Nat) (s : St) (ps : ParProgSt) (hs : WFSt' p s)
    (hinp : ∀ r, r < p.rels.length → (relSt s r).rows = inp r)
    (hrun : runPar I cfg p o σ fuel s = some ps) :
    PInv I p inp p.rels.length ps.st ∧ ClosedRules I p.rules (factsOf ps.st) := by
  have h := runSccsPar_spec I cfg p inp hl haf hh o ho σ fuel o [] _ ps (by simp)
    (PInv_start I p inp s hs hinp) (by intro scc hscc; simp at hscc) hrun
  refine ⟨h.1, ?_⟩
  intro rule hrule ρ hsat hd hhd
  obtain ⟨i, hi, hri⟩ := List.mem_iff_getElem.mp hrule
  obtain ⟨scc, hscc, hiscc⟩ := validOrder_cover p o ho i hi
  have : rule ∈ sccRules p scc := (mem_sccRules p scc rule).mpr ⟨i, hiscc, by rw [List.getElem?_eq_getElem hi, hri]⟩
  exact h.2 scc hscc rule this ρ hsat hd hhd

section General
variable (σ : Sched E B G P A) (fuel : Nat) (s : St) (ps : ParProgSt) (hs : WFSt' p s)
  (hinp : ∀ r, r < p.rels.length → (relSt s r).rows = inp r)
  (hrun : runPar I cfg p o σ fuel s = some ps)

include hl haf hh ho hs hinp hrun in
theorem runParFrom_sound : ∀ f, factsOf ps.st f → Derivable I p.rules nAgg (inDB p inp) f := by
  intro f hf
  obtain ⟨hp, _⟩ := runPar_spec I cfg p inp hl haf hh o ho σ fuel s ps hs hinp hrun
  have hr : f.rel < p.rels.length := by
    have := lt_of_mem_rows ps.st f.rel f.args hf
    rw [hp.len] at this; exact this
  have := (hp.good f.rel hr).1 f.args hf
  cases f; exact this

include hl haf hh ho hs hinp hrun in
theorem runParFrom_exit_closed : ∀ f, Cons I p.rules nAgg (factsOf ps.st) f → factsOf ps.st f := by
  rintro f ⟨rule, hrule, ρ, hsat, h, hhd, rfl⟩
  exact (runPar_spec I cfg p inp hl haf hh o ho σ fuel s ps hs hinp hrun).2 rule hrule ρ hsat h hhd

include hl haf hh ho hs hinp hrun in
theorem runParFrom_complete : ∀ f, Derivable I p.rules nAgg (inDB p inp) f → factsOf ps.st f := by
  apply derivable_least
  refine ⟨?_, runParFrom_exit_closed I cfg p inp hl haf hh o ho σ fuel s ps hs hinp hrun⟩
  rintro f ⟨hr, hf⟩
  obtain ⟨hp, _⟩ := runPar_spec I cfg p inp hl haf hh o ho σ fuel s ps hs hinp hrun
  obtain ⟨_, derived, hrows, _, _⟩ := hp.good f.rel hr
  show f.args ∈ (relSt ps.st f.rel).rows
  rw [hrows]; exact List.mem_append_left _ hf

include hl haf hh ho hs hinp hrun in
theorem runParFrom_rows_set : ∀ r, r < p.rels.length → ∃ derived : List Tuple,
    (relSt ps.st r).rows = inp r ++ derived ∧ derived.Nodup ∧ ∀ t ∈ derived, t ∉ inp r := by
  intro r hr
  exact ((runPar_spec I cfg p inp hl haf hh o ho σ fuel s ps hs hinp hrun).1.good r hr).2

include hl haf hh ho hs hinp hrun in
theorem runParFrom_wf : WFSt' p ps.st :=
  (runPar_spec I cfg p inp hl haf hh o ho σ fuel s ps hs hinp hrun).1.wfSt I p inp

end General

end ParStrata

end AscentVerif.Engine
