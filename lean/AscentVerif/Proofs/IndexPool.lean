import AscentVerif.Proofs.IndexConc
/-!
# List-level lemmas for C20 (pool independence of `CRelNoIndex`)
-/
namespace AscentVerif.Index

variable {V : Type}

/-- all content of a shard vector lives in the first `m` shards -/
def ShardsWithin (l : List (List V)) (m : Nat) : Prop := ∀ i, m ≤ i → l.getD i [] = []

theorem ShardsWithin.tail {x : List V} {l : List (List V)} {m : Nat} (h : ShardsWithin (x :: l) m) :
    ShardsWithin l (m - 1) := by
  intro i hi
  have := h (i + 1) (by omega)
  simpa using this

theorem flatten_of_within_zero (l : List (List V)) (h : ShardsWithin l 0) : l.flatten = [] := by
  induction l with
  | nil => rfl
  | cons x xs ih =>
    have h0 : x = [] := by simpa using h 0 (Nat.le_refl _)
    have := ih (ShardsWithin.tail h)
    simp [h0, this]

theorem noIdx_zip_move_within (fs ts : List (List V)) (m : Nat) (hm : m ≤ ts.length)
    (hf : ShardsWithin fs m) (ht : ShardsWithin ts m) :
    (((fs.zip ts).map noIdxShardMove).map (·.1) ++ fs.drop ((fs.zip ts).map noIdxShardMove).length).flatten = [] ∧
    (((fs.zip ts).map noIdxShardMove).map (·.2) ++ ts.drop ((fs.zip ts).map noIdxShardMove).length).length = ts.length ∧
    ShardsWithin (((fs.zip ts).map noIdxShardMove).map (·.2) ++ ts.drop ((fs.zip ts).map noIdxShardMove).length) m ∧
    (((fs.zip ts).map noIdxShardMove).map (·.2) ++ ts.drop ((fs.zip ts).map noIdxShardMove).length).flatten.Perm
      (ts.flatten ++ fs.flatten) := by
  induction fs generalizing ts m with
  | nil => simpa using ht
  | cons f fs ih =>
    cases ts with
    | nil =>
      have hm0 : m = 0 := by simpa using hm
      subst hm0
      have := flatten_of_within_zero _ hf
      simp only [List.zip_nil_right, List.map_nil, List.length_nil, List.drop_zero, List.nil_append, this,
        List.flatten_nil, List.append_nil, List.Perm.refl, and_true, true_and]
      exact ht
    | cons t ts =>
      simp only [List.length_cons] at hm
      obtain ⟨ih1, ih2, ih3, ih4⟩ := ih ts (m - 1) (by omega) hf.tail ht.tail
      simp only [List.length_map] at ih1 ih2 ih3 ih4
      simp only [List.zip_cons_cons, List.map_cons, List.length_cons, List.length_map, List.drop_succ_cons,
        List.cons_append, List.flatten_cons]
      refine ⟨by rw [ih1]; rfl, by simp only [ih2], ?_, ?_⟩
      · intro i hi
        cases i with
        | zero =>
          have hm0 : m = 0 := by omega
          subst hm0
          have hf0 : f = [] := by simpa using hf 0 (Nat.le_refl _)
          have ht0 : t = [] := by simpa using ht 0 (Nat.le_refl _)
          subst hf0; subst ht0
          simp [noIdxShardMove]
        | succ i =>
          have := ih3 i (by omega)
          simpa using this
      · have h1 : (noIdxShardMove (f, t)).2.Perm (t ++ f) := by
          unfold noIdxShardMove
          split
          · exact List.perm_append_comm
          · exact List.Perm.refl _
        refine (List.Perm.append h1 ih4).trans ?_
        simp only [List.append_assoc]
        apply List.Perm.append_left
        rw [← List.append_assoc, ← List.append_assoc]
        exact List.Perm.append_right _ List.perm_append_comm

theorem flatten_modifyNth_append (l : List (List V)) (i : Nat) (v : V) (hi : i < l.length) :
    (modifyNth l i fun s => s ++ [v]).flatten.Perm (v :: l.flatten) := by
  induction l generalizing i with
  | nil => simp at hi
  | cons x xs ih =>
    cases i with
    | zero =>
      simp only [modifyNth, List.flatten_cons, List.append_assoc]
      exact (List.perm_append_comm (l₁ := x) (l₂ := [v] ++ xs.flatten)).trans
        (by simpa using List.Perm.cons v (List.perm_append_comm (l₁ := xs.flatten) (l₂ := x)))
    | succ i =>
      simp only [modifyNth, List.flatten_cons]
      have := ih i (by simpa using hi)
      exact (List.Perm.append_left x this).trans (List.perm_middle)

end AscentVerif.Index
