import AscentVerif.Proofs.AggPass
import AscentVerif.Proofs.RunScc
/-!
# One iteration, the SCC loop and `runScc`, with aggregation items (step 4 of the C04 proof)

Generalisation of `Proofs/SccStep.lean`, `Proofs/Scc.lean`, `Proofs/RunScc.lean`.
-/
namespace AscentVerif.Engine.Agg
open AscentVerif AscentVerif.Engine

variable {E B G P A : Type}

/-- what an aggregation item reads from a program value between SCCs -/
def aggOf (cfg : Config) (p : Program E B G P A) (st : St) (a : AggClause E A) : List Tuple :=
  aggTuples cfg p ⟨st, [], false⟩ a

theorem aggTuples_eq_aggOf (cfg : Config) (p : Program E B G P A) (s : SccSt) (a : AggClause E A) :
    aggTuples cfg p s a = aggOf cfg p s.rels a := rfl

theorem aggOf_congr (cfg : Config) (p : Program E B G P A) {st st' : St} (a : AggClause E A)
    (h : relSt st a.rel = relSt st' a.rel) : aggOf cfg p st a = aggOf cfg p st' a :=
  aggTuples_congr cfg p a h

theorem ND_shift {s : SccSt} (h : ND s) : ND (shift s) := by
  refine ⟨?_, ?_⟩
  · intro r d' hd'
    rw [findDyn_shift] at hd'
    cases hd : findDyn s.dyn r with
    | none => rw [hd] at hd'; cases hd'
    | some d =>
      rw [hd] at hd'; cases hd'
      simpa [shiftD] using h.dyn r d hd
  · intro r hd'
    rw [findDyn_shift] at hd'
    cases hd : findDyn s.dyn r with
    | none => exact h.nondyn r hd
    | some d => rw [hd] at hd'; cases hd'

section Iter
variable (I : Interp E B G P A) (cfg : Config) (p : Program E B G P A) (inp : RelId → List Tuple)
  (aggv : AggClause E A → List Tuple) (K : Prop)
  (n : Nat) (dynR : List RelId) (hlt : ∀ r, dynR.contains r = true → r < n)
  (hl : ∀ d ∈ p.rels, d.lat = false)

def Frontier (rules : List (Rule E B G P A)) (Q : Rule E B G P A → Prop) (s : SccSt) : Prop :=
  ∀ rule ∈ rules, Q rule → ∀ ρ, SatA I (Dtot cfg p s) aggv rule.body [] ρ →
    ∀ h ∈ rule.heads, FactsS s (headFact I h ρ)

structure LoopInv (rules : List (Rule E B G P A)) (Q : Rule E B G P A → Prop) (s : SccSt) : Prop where
  wf : WF n dynR s
  good : Good I p inp aggv n s
  newE : NewEmpty s
  front : Frontier I cfg p aggv rules Q s
  nd : K → ND s
  aggOK : ∀ rule ∈ rules, AggOK cfg p aggv dynR rule s

theorem LoopInv.weaken {rules : List (Rule E B G P A)} {Q Q' : Rule E B G P A → Prop} {s : SccSt}
    (h : LoopInv I cfg p inp aggv K n dynR rules Q s) (hq : ∀ r, Q' r → Q r) :
    LoopInv I cfg p inp aggv K n dynR rules Q' s :=
  ⟨h.wf, h.good, h.newE, fun rule hr hq' ρ hs hd hh => h.front rule hr (hq _ hq') ρ hs hd hh, h.nd, h.aggOK⟩

include hlt hl in
/-- **one iteration** (`evalRules` from a state with `changed = false`, then `shift`) -/
theorem iter_step (rules : List (Rule E B G P A))
    (hrules : ∀ rule ∈ rules, rule ∈ p.rules)
    (hdyn : ∀ rule ∈ rules, ∀ h ∈ rule.heads, dynR.contains h.rel = true)
    (s : SccSt) (hinv : LoopInv I cfg p inp aggv K n dynR rules (hasDyn dynR) s) :
    LoopInv I cfg p inp aggv K n dynR rules (fun _ => True)
        (shift (evalRules I cfg p dynR rules { s with changed := false })) ∧
      Ext { s with changed := false } (evalRules I cfg p dynR rules { s with changed := false }) := by
  have hwf0 : WF n dynR { s with changed := false } := WF_reset n dynR hinv.wf
  have hagg0 : ∀ rule ∈ rules, AggOK cfg p aggv dynR rule { s with changed := false } :=
    fun rule hr a ha => hinv.aggOK rule hr a ha
  have hpost0 : Post I p inp aggv K n dynR { s with changed := false } { s with changed := false } :=
    ⟨hwf0, Ext.refl _, hinv.good, fun hk => ⟨(hinv.nd hk).dyn, (hinv.nd hk).nondyn⟩⟩
  obtain ⟨hpost, hle, hproc⟩ := evalRules_spec I cfg p inp aggv K n dynR hlt hl hwf0 rules hrules hagg0 hdyn _ hpost0
  refine ⟨⟨WF_shift hpost.wf, hpost.good, ?_, ?_, fun hk => ND_shift (hpost.nd hk), ?_⟩, hpost.ext⟩
  · intro r d' hd'
    rw [findDyn_shift] at hd'
    cases hd : findDyn (evalRules I cfg p dynR rules { s with changed := false }).dyn r with
    | none => rw [hd] at hd'; cases hd'
    | some d => rw [hd] at hd'; cases hd'; rfl
  · intro rule hr _ ρ hsat h hh
    have hsat' : SatA I (Dall cfg p { s with changed := false }) aggv rule.body [] ρ :=
      SatA.mono (fun f hf => Dtot_shift_sub cfg p n dynR hl hwf0 hpost.ext f hf) hsat
    show FactsS (evalRules I cfg p dynR rules { s with changed := false }) (headFact I h ρ)
    rcases seminaive_cover I (viewOf cfg p { s with changed := false }) aggv dynR
        (fun r hr v v' t hv => view_nd cfg p hl hwf0 hr v v' t hv)
        (fun r t hv => view_split cfg p hl hwf0 r t hv) rule hsat' with ⟨hn, htot⟩ | ⟨vs, hvs, hsv⟩
    · exact hle _ _ (hinv.front rule hr hn ρ htot h hh)
    · exact hproc rule hr vs hvs ρ hsv h hh
  · intro rule hr a ha
    exact (hagg0 rule hr).ext cfg p aggv n dynR hwf0 hpost.ext a ha

end Iter

/-! ## the program-level state invariant -/

section Scc
variable (I : Interp E B G P A) (cfg : Config) (p : Program E B G P A) (inp : RelId → List Tuple)
  (aggv : AggClause E A → List Tuple) (K : Prop)
  (n : Nat)

structure PInv (st : St) : Prop where
  len : st.length = n
  good : ∀ r, r < n → GoodRows I p inp aggv r (relSt st r).rows
  idxAll : ∀ r i, i < (relSt st r).rows.length ↔ i ∈ (relSt st r).idx
  idxNd : K → ∀ r, (relSt st r).idx.Nodup

variable (dynR : List RelId) (hlt : ∀ r, dynR.contains r = true → r < n)
  (hl : ∀ d ∈ p.rels, d.lat = false)

theorem WF_enter {st : St} (hp : PInv I p inp aggv K n st) : WF n dynR (enterScc st dynR) := by
  refine ⟨by rw [enterScc_rels]; exact hp.len, ?_, ?_, ?_, ?_⟩
  · intro r
    rw [findDyn_enter]
    cases dynR.contains r <;> rfl
  · intro d hd
    simp only [enterScc, List.mem_map] at hd
    obtain ⟨x, hx, rfl⟩ := hd
    have := findDyn_enter st dynR x
    rw [List.contains_iff_mem.mpr hx] at this
    exact this
  · intro r d hd i
    rw [findDyn_enter] at hd
    cases hc : dynR.contains r with
    | false => rw [hc] at hd; cases hd
    | true =>
      rw [hc] at hd; cases hd
      simp only [rowsOf, enterScc_rels, List.not_mem_nil, false_or, or_false]
      exact hp.idxAll r i
  · intro r _ i
    simp only [rowsOf, enterScc_rels]
    exact hp.idxAll r i

theorem ND_enter {st : St} (hnd : ∀ r, (relSt st r).idx.Nodup) : ND (enterScc st dynR) := by
  refine ⟨?_, ?_⟩
  · intro r d hd
    rw [findDyn_enter] at hd
    cases hc : dynR.contains r with
    | false => rw [hc] at hd; cases hd
    | true =>
      rw [hc] at hd; cases hd
      simpa using hnd r
  · intro r _
    rw [enterScc_rels]; exact hnd r

include hl in
theorem LoopInv_enter {st : St} (hp : PInv I p inp aggv K n st) (rules : List (Rule E B G P A))
    (hagg : ∀ rule ∈ rules, AggOK cfg p aggv dynR rule (enterScc st dynR)) :
    LoopInv I cfg p inp aggv K n dynR rules (hasDyn dynR) (enterScc st dynR) := by
  have hwf := WF_enter I p inp aggv K n dynR hp
  refine ⟨hwf, ?_, ?_, ?_, fun hk => ND_enter dynR (hp.idxNd hk), hagg⟩
  · intro r hr
    simp only [rowsOf, enterScc_rels]; exact hp.good r hr
  · intro r d hd
    rw [findDyn_enter] at hd
    cases hc : dynR.contains r with
    | false => rw [hc] at hd; cases hd
    | true => rw [hc] at hd; cases hd; rfl
  · intro rule _ hq ρ hsat
    exfalso
    apply hq
    refine SatA.no_dyn dynR ?_ hsat
    intro r t hc hD
    obtain ⟨i, hi, _⟩ := hD
    have hd : findDyn (enterScc st dynR).dyn r = some ⟨r, [], (relSt st r).idx, []⟩ := by
      rw [findDyn_enter, hc]; rfl
    have : i ∈ clauseRows cfg p (enterScc st dynR) r (some .total) := hi
    rw [clauseRows_some cfg p hl _ hd] at this
    cases this

include hlt hl in
/-- the loop of a looping SCC -/
theorem sccLoop_spec (rules : List (Rule E B G P A))
    (hrules : ∀ rule ∈ rules, rule ∈ p.rules)
    (hdyn : ∀ rule ∈ rules, ∀ h ∈ rule.heads, dynR.contains h.rel = true)
    (dl : Deadline) (st : St) : ∀ (fuel : Nat) (rs rs' : RunSt),
      LoopInv I cfg p inp aggv K n dynR rules (hasDyn dynR) rs.st → Base dynR st rs.st →
      sccLoop I cfg p dynR rules dl fuel rs = .done rs' →
      LoopInv I cfg p inp aggv K n dynR rules (fun _ => True) rs'.st ∧ Settled rs'.st ∧ Base dynR st rs'.st := by
  intro fuel
  induction fuel with
  | zero => intro rs rs' _ _ h; simp [sccLoop] at h
  | succ fuel ih =>
    intro rs rs' hinv hb h
    obtain ⟨hinv', hext⟩ := iter_step I cfg p inp aggv K n dynR hlt hl rules hrules hdyn rs.st hinv
    have hb' := Base_step n dynR hinv.wf hb hext
    simp only [sccLoop] at h
    split at h
    · rename_i hch
      simp only [Outcome.done.injEq] at h
      subst h
      refine ⟨hinv', ?_, hb'⟩
      have hch' : (evalRules I cfg p dynR rules { rs.st with changed := false }).changed = false := by
        simpa using hch
      have heq := hext.unchanged hch'
      intro r d' hd'
      simp only [] at hd'
      rw [findDyn_shift, heq] at hd'
      cases hd : findDyn rs.st.dyn r with
      | none =>
        have : findDyn ({ rs.st with changed := false } : SccSt).dyn r = none := hd
        rw [this] at hd'; cases hd'
      | some d =>
        have : findDyn ({ rs.st with changed := false } : SccSt).dyn r = some d := hd
        rw [this] at hd'; cases hd'
        exact ⟨hinv.newE r d hd, rfl⟩
    · split at h
      · cases h
      · exact ih _ rs' (hinv'.weaken I cfg p inp aggv K n dynR fun _ _ => trivial) hb' h

end Scc

/-! ## `runScc` -/

/-- the rules are closed over `D`: every instance over `D` has its head facts in `D` -/
def ClosedRules (I : Interp E B G P A) (aggv : AggClause E A → List Tuple) (rules : List (Rule E B G P A))
    (D : DB) : Prop :=
  ∀ rule ∈ rules, ∀ ρ, SatA I D aggv rule.body [] ρ → ∀ h ∈ rule.heads, D (headFact I h ρ)

section RunScc
variable (I : Interp E B G P A) (cfg : Config) (p : Program E B G P A) (inp : RelId → List Tuple)
  (aggv : AggClause E A → List Tuple) (K : Prop)
  (n : Nat) (dynR : List RelId) (hlt : ∀ r, dynR.contains r = true → r < n)
  (hl : ∀ d ∈ p.rels, d.lat = false)

include hlt in
/-- storing the indices back: `idx := total` for the dynamic relations -/
theorem leave_spec {s : SccSt} (hwf : WF n dynR s) (hgood : Good I p inp aggv n s) (hs : Settled s)
    (hnds : K → ND s) :
    PInv I p inp aggv K n (leaveScc s) ∧ (∀ r, (relSt (leaveScc s) r).rows = rowsOf s r) ∧
      (∀ r, dynR.contains r = false → relSt (leaveScc s) r = relSt s.rels r) := by
  have hdlt : ∀ d ∈ s.dyn, d.rel < s.rels.length := by
    intro d hd
    rw [hwf.len]
    apply hlt
    rw [← hwf.dyn_iff, hwf.uniq d hd]; rfl
  have hrows : ∀ r, (relSt (leaveScc s) r).rows = rowsOf s r := fun r => by
    rw [leaveScc_eq]; exact leave_rows r s.dyn s.rels hdlt
  have hnd : ∀ r, findDyn s.dyn r = none → relSt (leaveScc s) r = relSt s.rels r := by
    intro r hd
    rw [leaveScc_eq]
    apply leave_untouched
    intro d hdm hrel
    have := List.find?_eq_none.mp hd d hdm
    simp [hrel] at this
  have hidx : ∀ r d, findDyn s.dyn r = some d → (relSt (leaveScc s) r).idx = d.total := by
    intro r d hd
    rw [leaveScc_eq]
    apply leave_touched r d.total s.dyn s.rels hdlt
    · intro d' hd' hrel
      have := hwf.uniq d' hd'
      rw [hrel, hd] at this
      cases this; rfl
    · exact .inl ⟨d, findDyn_mem hd, findDyn_rel hd⟩
  refine ⟨⟨?_, ?_, ?_, ?_⟩, hrows, ?_⟩
  · rw [leaveScc_eq, leave_length]; exact hwf.len
  · intro r hr
    rw [hrows]; exact hgood r hr
  · intro r i
    cases hd : findDyn s.dyn r with
    | none =>
      rw [hnd r hd]; exact hwf.cover_nd r hd i
    | some d =>
      rw [hrows, hidx r d hd, hwf.cover r d hd i]
      obtain ⟨h1, h2⟩ := hs r d hd
      rw [h1, h2]; simp
  · intro hk r
    cases hd : findDyn s.dyn r with
    | none => rw [hnd r hd]; exact (hnds hk).nondyn r hd
    | some d =>
      rw [hidx r d hd]
      have := (hnds hk).dyn r d hd
      rw [List.append_assoc] at this
      exact (List.nodup_append.mp this).1
  · intro r hr
    exact hnd r (findDyn_none_of_not_dyn hwf hr)

include hlt in
theorem leave_full {st : St} {s : SccSt} (rules : List (Rule E B G P A)) (hwf : WF n dynR s)
    (hgood : Good I p inp aggv n s) (hs : Settled s) (hnds : K → ND s) (hb : Base dynR st s)
    (hcl : ClosedRules I aggv rules (FactsS s)) :
    PInv I p inp aggv K n (leaveScc s) ∧
      (∀ r, dynR.contains r = false → relSt (leaveScc s) r = relSt st r) ∧
      (∀ r t, t ∈ (relSt st r).rows → t ∈ (relSt (leaveScc s) r).rows) ∧
      ClosedRules I aggv rules (factsOf (leaveScc s)) := by
  obtain ⟨h1, h2, h3⟩ := leave_spec I p inp aggv K n dynR hlt hwf hgood hs hnds
  have heq : factsOf (leaveScc s) = FactsS s := by
    funext f
    simp only [factsOf, FactsS, h2]
  refine ⟨h1, fun r hr => by rw [h3 r hr]; exact hb.1 r hr, fun r t ht => by rw [h2]; exact hb.2 r t ht, ?_⟩
  rw [heq]; exact hcl

end RunScc

section RunScc2
variable (I : Interp E B G P A) (cfg : Config) (p : Program E B G P A) (inp : RelId → List Tuple)
  (aggv : AggClause E A → List Tuple) (K : Prop)
  (hl : ∀ d ∈ p.rels, d.lat = false)
  (hh : ∀ r ∈ p.rules, ∀ h ∈ r.heads, h.rel < p.rels.length)

include hl hh in
/-- what processing one SCC establishes, provided its aggregation items range over non-dynamic
relations and read `aggv` from the program value at SCC entry -/
theorem runScc_spec (dl : Deadline) (fuel : Nat) (scc : List Nat) (ps ps' : ProgSt)
    (hp : PInv I p inp aggv K p.rels.length ps.st)
    (hagg : ∀ rule ∈ sccRules p scc, ∀ a, Item.agg a ∈ rule.body →
      (dynRels p scc).contains a.rel = false ∧ aggOf cfg p ps.st a = aggv a)
    (h : runScc I cfg p dl fuel scc ps = .done ps') :
    PInv I p inp aggv K p.rels.length ps'.st ∧
      (∀ r, (dynRels p scc).contains r = false → relSt ps'.st r = relSt ps.st r) ∧
      (∀ r t, t ∈ (relSt ps.st r).rows → t ∈ (relSt ps'.st r).rows) ∧
      ClosedRules I aggv (sccRules p scc) (factsOf ps'.st) := by
  have hrules := sccRules_sub p scc
  have hdyn : ∀ rule ∈ sccRules p scc, ∀ h ∈ rule.heads, (dynRels p scc).contains h.rel = true :=
    fun rule hr h hhd => (dynRels_mem p scc h.rel).mpr ⟨rule, hr, h, hhd, rfl⟩
  have hlt : ∀ r, (dynRels p scc).contains r = true → r < p.rels.length := by
    intro r hr
    obtain ⟨rule, hrule, h, hhd, rfl⟩ := (dynRels_mem p scc r).mp hr
    exact hh rule (hrules rule hrule) h hhd
  have hagg0 : ∀ rule ∈ sccRules p scc, AggOK cfg p aggv (dynRels p scc) rule (enterScc ps.st (dynRels p scc)) := by
    intro rule hr a ha
    obtain ⟨h1, h2⟩ := hagg rule hr a ha
    refine ⟨h1, ?_⟩
    rw [aggTuples_eq_aggOf, enterScc_rels]; exact h2
  have hinv0 := LoopInv_enter I cfg p inp aggv K p.rels.length (dynRels p scc) hl hp (sccRules p scc) hagg0
  have hb0 := Base_enter (dynRels p scc) ps.st
  simp only [runScc] at h
  split at h
  · -- looping
    split at h
    · rename_i rs hloop
      simp only [Outcome.done.injEq] at h
      subst h
      obtain ⟨hinv, hset, hb⟩ := sccLoop_spec I cfg p inp aggv K p.rels.length (dynRels p scc) hlt hl (sccRules p scc)
        hrules hdyn dl ps.st fuel _ rs hinv0 hb0 hloop
      apply leave_full I p inp aggv K p.rels.length (dynRels p scc) hlt (sccRules p scc) hinv.wf hinv.good hset
        hinv.nd hb
      intro rule hr ρ hsat hd hhd
      refine hinv.front rule hr trivial ρ (SatA.mono ?_ hsat) hd hhd
      exact fun f hf => facts_sub_Dtot cfg p p.rels.length (dynRels p scc) hl hinv.wf hset f hf
    · cases h
    · cases h
  · -- not looping
    rename_i hnl
    have hnl' : isLooping p scc = false := by simpa using hnl
    split at h
    · cases h
    · simp only [Outcome.done.injEq] at h
      subst h
      obtain ⟨hinv, hext⟩ := iter_step I cfg p inp aggv K p.rels.length (dynRels p scc) hlt hl (sccRules p scc)
        hrules hdyn _ hinv0
      have hb := Base_step p.rels.length (dynRels p scc) hinv0.wf hb0 hext
      have hwf2 := WF_shift hinv.wf
      have hset : Settled (shift (shift (evalRules I cfg p (dynRels p scc) (sccRules p scc)
          (enterScc ps.st (dynRels p scc))))) := by
        intro r d'' hd''
        rw [findDyn_shift] at hd''
        cases hd : findDyn (shift (evalRules I cfg p (dynRels p scc) (sccRules p scc)
            (enterScc ps.st (dynRels p scc)))).dyn r with
        | none => rw [hd] at hd''; cases hd''
        | some d' =>
          rw [hd] at hd''; cases hd''
          exact ⟨hinv.newE r d' hd, rfl⟩
      have hb2 : Base (dynRels p scc) ps.st (shift (shift (evalRules I cfg p (dynRels p scc) (sccRules p scc)
          (enterScc ps.st (dynRels p scc))))) := hb
      apply leave_full I p inp aggv K p.rels.length (dynRels p scc) hlt (sccRules p scc) hwf2 hinv.good hset
        (fun hk => ND_shift (hinv.nd hk)) hb2
      intro rule hr ρ hsat hd hhd
      refine hinv.front rule hr trivial ρ (SatA.congr_rels hsat ?_) hd hhd
      intro r hr' t ht
      exact facts_sub_Dtot_nd cfg p p.rels.length (dynRels p scc) hl hinv.wf r (notLooping p scc hnl' rule hr r hr') t ht

end RunScc2

end AscentVerif.Engine.Agg
