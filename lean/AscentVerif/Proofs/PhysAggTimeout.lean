import AscentVerif.Proofs.PhysTimeout
import AscentVerif.Proofs.PhysAggRun
import AscentVerif.Proofs.NDAggRestart
/-!
# `run_timeout` over the physical indices on stratified programs with aggregation / negation

The analogue of `Proofs/PhysTimeout.lean` with the simulation lemmas of `Proofs/PhysAggRun.lean`:

* `runTimeout_doneA`: a call that returned `true` is an execution of the nondeterministic engine (`RunND`) with the same rows;
* `runTimeout_timedOutA`: a call that returned `false` is a PREFIX of an execution (`Agg.RunPreND`, `Proofs/NDAggRestart.lean`):
  completed SCCs of the nondeterministic engine followed by some passes and merges of the interrupted SCC; `abandonScc` keeps the
  rows of the SCC state so reached.

Unlike `Proofs/PhysTimeout.lean` no least-model invariant is threaded through: the simulation only needs the structural
invariants `StI` / `WF` (every execution keeps them), the semantic part is `Agg.timeoutND_sound_from`.
-/
namespace AscentVerif.Phys
open AscentVerif AscentVerif.Engine AscentVerif.Index

variable {E B G P A : Type}

/-! ## the loop of a looping SCC, interrupted -/

section Loop
variable (I : Interp E B G P A) (hI : Plan.Ext I) (cfg : Config) (V : Hir.VarsOf E B) (hS : Plan.Supp I V)
  (hperm : ∀ (fn : A) (l l' : List Tuple), l.Perm l' → I.agg fn l = I.agg fn l')
  (p : Program E B G P A) (hl : ∀ d ∈ p.rels, d.lat = false) (ix : IxSets) (dynR : List RelId)
  (hlt : ∀ r, dynR.contains r = true → r < p.rels.length)

include hI hS hperm hl hlt in
theorem sccLoopT_timedOutA (rules : List (Rule E B G P A)) (hR : ∀ r ∈ rules, RuleFitA V p ix r)
    (hstr : ∀ r ∈ rules, ∀ ag, Item.agg ag ∈ r.body → dynR.contains ag.rel = false) (dl : Deadline) :
    ∀ (fuel : Nat) (rs rs' : RunStT) (a : SccSt), sccLoopT I V p dynR rules dl fuel rs = .timedOut rs' →
      WF p.rels.length dynR a → Sim p ix a rs.st → SimM a rs.st →
      ∃ a', Agg.LoopPreND I cfg p dynR rules a a' ∧ Sim p ix a' rs'.st := by
  intro fuel
  induction fuel with
  | zero => intro rs rs' a h; simp [sccLoopT] at h
  | succ fuel ih =>
    intro rs rs' a h hwf hsim hm
    obtain ⟨a1, hpass, hinv⟩ := pass_simA I hI cfg V hS hperm p hl ix dynR hlt rules hR hstr a rs.st hwf hsim hm
    simp only [sccLoopT] at h
    split at h
    · cases h
    · split at h
      · cases h
        exact ⟨Engine.shift a1, Agg.LoopPreND.last hpass, shift_sim hinv.sim⟩
      · obtain ⟨a', hloop, hsim'⟩ := ih _ rs' (Engine.shift a1) h (WF_shift hinv.wf) (shift_sim hinv.sim)
          (shift_simM hinv.sim hinv.simM)
        exact ⟨a', Agg.LoopPreND.more hpass hloop, hsim'⟩

end Loop

/-! ## one SCC, the SCCs in order -/

section Run
variable (I : Interp E B G P A) (hI : Plan.Ext I) (cfg : Config) (V : Hir.VarsOf E B) (hS : Plan.Supp I V)
  (hperm : ∀ (fn : A) (l l' : List Tuple), l.Perm l' → I.agg fn l = I.agg fn l')
  (p : Program E B G P A) (hp : RelationalAgg p) (ix : IxSets)
  (hR : ∀ r ∈ p.rules, RuleFitA V p ix r)

include hI hS hperm hp hR in
/-- one SCC, interrupted: the value left is `abandonScc` of a physical SCC state simulating a state in which the
nondeterministic engine may abandon the SCC -/
theorem runSccT_timedOutA (dl : Deadline) (fuel : Nat) (scc : List Nat) (hstrat : aggOverDynamic p scc = false)
    (ps ps' : ProgStT) (st : St)
    (hinv : StI p st) (hs : SimSt p ix st ps.st) (hsm : SimStM st ps.st)
    (h : runSccT I V p dl fuel scc ps = .timedOut ps') :
    ∃ a' ph, Agg.SccPreND I cfg p scc st a' ∧ Sim p ix a' ph ∧ ps'.st = abandonScc p scc ph := by
  obtain ⟨hl, hh⟩ := hp
  have hrules := sccRules_sub p scc
  have hRs : ∀ r ∈ sccRules p scc, RuleFitA V p ix r := fun r hr => hR r (hrules r hr)
  have hstr : ∀ r ∈ sccRules p scc, ∀ ag, Item.agg ag ∈ r.body → (dynRels p scc).contains ag.rel = false :=
    fun r hr ag ha => Agg.aggOverDynamic_false p scc hstrat r hr ag ha
  have hlt : ∀ r, (dynRels p scc).contains r = true → r < p.rels.length := by
    intro r hr
    obtain ⟨rule, hrule, h, hhd, rfl⟩ := (dynRels_mem p scc r).mp hr
    exact hh rule (hrules rule hrule) h hhd
  have hwf0 := WF_enterA hinv (dynRels p scc)
  have hsim0 : Sim p ix (Engine.enterScc st (dynRels p scc)) (Phys.enterScc ps.st (dynRels p scc)) :=
    enter_sim hs _ (fun r hr => by rw [hinv.len]; exact hlt r (List.contains_iff_mem.mpr hr))
  have hm0 : SimM (Engine.enterScc st (dynRels p scc)) (Phys.enterScc ps.st (dynRels p scc)) := enter_simM hsm _
  simp only [runSccT] at h
  split at h
  · rename_i hlp
    split at h
    · cases h
    · rename_i rs hloop
      cases h
      obtain ⟨a', hpre, hsim'⟩ := sccLoopT_timedOutA I hI cfg V hS hperm p hl ix (dynRels p scc) hlt (sccRules p scc)
        hRs hstr dl fuel _ rs _ hloop hwf0 hsim0 hm0
      refine ⟨a', rs.st, ?_, hsim', rfl⟩
      unfold Agg.SccPreND
      rw [if_pos hlp]
      exact hpre
    · cases h
  · rename_i hlp
    split at h
    · cases h
      obtain ⟨a1, hpass, hinv1⟩ := pass_simA I hI cfg V hS hperm p hl ix (dynRels p scc) hlt (sccRules p scc) hRs hstr _ _
        hwf0 hsim0 hm0
      refine ⟨Engine.shift (Engine.shift a1), _, ?_, shift_sim (shift_sim hinv1.sim), rfl⟩
      unfold Agg.SccPreND
      rw [if_neg hlp]
      exact ⟨a1, hpass, rfl⟩
    · cases h

include hI hS hperm hp hR in
/-- an interrupted `runSccsT` = completed SCCs of the nondeterministic engine + one abandoned SCC -/
theorem runSccsT_timedOutA (dl : Deadline) (fuel : Nat) : ∀ (order : SccOrder), Stratified p order →
    ∀ (ps ps' : ProgStT) (st : St),
    StI p st → SimSt p ix st ps.st → SimStM st ps.st → runSccsT I V p dl fuel order ps = .timedOut ps' →
    ∃ (done : SccOrder) (scc : List Nat) (rest : SccOrder) (stMid : St) (a' : SccSt) (ph : PScc),
      order = done ++ scc :: rest ∧ SccsND I cfg p done st stMid ∧ Agg.SccPreND I cfg p scc stMid a' ∧
      Sim p ix a' ph ∧ ps'.st = abandonScc p scc ph := by
  intro order
  induction order with
  | nil =>
    intro _ ps ps' st _ _ _ h
    simp only [runSccsT] at h
    cases h
  | cons scc rest ih =>
    intro hst ps ps' st hinv hs hsm h
    simp only [runSccsT] at h
    split at h
    · rename_i ps1 hscc
      have hscc' := runSccT_done I V p dl fuel scc ps ps1 hscc
      obtain ⟨st1, hnd, hs1, hsm1, hinv1⟩ := runScc_simA I hI cfg V hS hperm p hp ix hR fuel scc
        (hst scc (by simp)) ⟨ps.st, ps.iters⟩ ⟨ps1.st, ps1.iters⟩ st hinv hs hsm hscc'
      obtain ⟨done, scc', rest', stMid, a', ph, ho, hdone, hpre, hsim, hab⟩ :=
        ih (fun s hs' => hst s (List.mem_cons_of_mem _ hs')) ps1 ps' st1 hinv1 hs1 hsm1 h
      exact ⟨scc :: done, scc', rest', stMid, a', ph, by rw [ho]; rfl, SccsND.cons hnd hdone, hpre, hsim, hab⟩
    · rename_i other hne
      cases hr : runSccT I V p dl fuel scc ps with
      | done x => exact absurd hr (hne x)
      | timedOut x =>
        rw [hr] at h
        cases h
        obtain ⟨a', ph, hpre, hsim, hab⟩ := runSccT_timedOutA I hI cfg V hS hperm p hp ix hR dl fuel scc
          (hst scc (by simp)) ps ps' st hinv hs hsm hr
        exact ⟨[], scc, rest, st, a', ph, rfl, SccsND.nil, hpre, hsim, hab⟩
      | outOfFuel => rw [hr] at h; cases h

end Run

/-! ## `run_timeout` -/

/-- the abstract value a typed physical value stands for is well-formed -/
theorem wfSt'_absSt (p : Program E B G P A) (s : PSt) (hs : WFPSt p s) : WFSt' p (absSt s) := by
  refine ⟨by simpa [absSt] using hs.1, ?_⟩
  intro rs hrs i hi
  simp only [absSt, List.mem_map] at hrs
  obtain ⟨pr, _, rfl⟩ := hrs
  cases hi

/-- **`run_timeout` returned `true`**: an execution of the nondeterministic engine with the same rows -/
theorem runTimeout_doneA (I : Interp E B G P A) (hI : Plan.Ext I) (V : Hir.VarsOf E B) (hS : Plan.Supp I V)
    (hperm : ∀ (fn : A) (l l' : List Tuple), l.Perm l' → I.agg fn l = I.agg fn l')
    (p : Program E B G P A) (ix : IxSets) (order : SccOrder) (dl : Deadline) (s : PSt) (fuel : Nat) (o : ProgStT)
    (hp : RelationalAgg p) (hst : Stratified p order)
    (hplan : planOk V p ix = true) (hagg : aggPlanOk V p ix = true)
    (hd : ∀ r ∈ p.rules, Hir.Desugared V r = true ∧ Plan.WellScoped V r = true)
    (hs : WFPSt p s)
    (hrun : runTimeout I V p ix order dl fuel s = .done o) :
    ∃ st', RunND I {} p order (absSt s) st' ∧ SimSt p ix st' o.st :=
  run_is_RunND_agg I hI V hS hperm p ix order s fuel ⟨o.st, o.iters⟩ hp hst hplan hagg hd hs
    (runTimeout_done I V p ix order dl fuel s o hrun)

/-- **`run_timeout` returned `false`**: a prefix of an execution of the nondeterministic engine; the value left has the rows of
the SCC state in which that prefix ends, and is typed -/
theorem runTimeout_timedOutA (I : Interp E B G P A) (hI : Plan.Ext I) (V : Hir.VarsOf E B) (hS : Plan.Supp I V)
    (hperm : ∀ (fn : A) (l l' : List Tuple), l.Perm l' → I.agg fn l = I.agg fn l')
    (p : Program E B G P A) (ix : IxSets) (order : SccOrder) (dl : Deadline) (s : PSt) (fuel : Nat) (o : ProgStT)
    (hp : RelationalAgg p) (hst : Stratified p order)
    (hplan : planOk V p ix = true) (hagg : aggPlanOk V p ix = true)
    (hd : ∀ r ∈ p.rules, Hir.Desugared V r = true ∧ Plan.WellScoped V r = true)
    (hs : WFPSt p s)
    (hrun : runTimeout I V p ix order dl fuel s = .timedOut o) :
    ∃ a', Agg.RunPreND I {} p order (absSt s) a' ∧ a'.rels.length = o.st.length ∧
      (∀ r, (relSt a'.rels r).rows = (prel o.st r).rows) ∧ (∀ r, ∀ t ∈ (prel o.st r).rows, t.length = arityOf p r) := by
  have hR := ruleFitA_of_planOk V p ix hplan hagg hd
  obtain ⟨done, scc, rest, stMid, a', ph, ho, hdone, hpre, hsim, hab⟩ :=
    runSccsT_timedOutA I hI {} V hS hperm p hp ix hR dl fuel order hst _ o _ (StI_start p s hs)
      (updateIndices_sim p ix s hs) (updateIndices_simM ix s) hrun
  refine ⟨a', ⟨done, scc, rest, stMid, ho, hdone, hpre⟩, ?_, ?_, ?_⟩
  · rw [hab, abandon_length]; exact hsim.len
  · intro r
    rw [hab, abandon_rows]; exact hsim.rows r
  · intro r t ht
    rw [hab, abandon_rows, ← hsim.rows] at ht
    exact hsim.typed r t ht

end AscentVerif.Phys
