import AscentVerif.Proofs.SurfaceDefs
/-!
# Auxiliary lemmas for the repeated-variable pass (`repArgs` / `repItems`)
-/
namespace AscentVerif.Surface
open AscentVerif AscentVerif.Engine

variable {E B G P A : Type}

/-! ## generated names -/

theorem gsRep_inj {k l : Nat} (h : gsRep k = gsRep l) : k = l := by
  have h' : 1000 + 8 * k = 1000 + 8 * l := h
  omega

theorem isRep_gsRep (k : Nat) : isRep (gsRep k) := ⟨k, rfl⟩

/-! ## `AgreeOff` -/

theorem AgreeOff.symm {Gn : Var → Prop} {ρ σ : Env} (h : AgreeOff Gn ρ σ) : AgreeOff Gn σ ρ :=
  fun v hv => (h v hv).symm

theorem AgreeOff.append {Gn : Var → Prop} {ρ σ : Env} (h : AgreeOff Gn ρ σ) (n : Env) : AgreeOff Gn (n ++ ρ) (n ++ σ) := by
  intro v hv
  rw [get?_append, get?_append, h v hv]

theorem AgreeOff.cons {Gn : Var → Prop} {ρ σ : Env} (h : AgreeOff Gn ρ σ) (w : Var) (x : Val) :
    AgreeOff Gn ((w, x) :: ρ) ((w, x) :: σ) := by
  intro v hv
  rw [get?_cons, get?_cons, h v hv]

theorem AgreeOff.agree {Gn : Var → Prop} {ρ σ : Env} (h : AgreeOff Gn ρ σ) {vs : List Var} (hvs : ∀ v ∈ vs, ¬ Gn v) :
    Agree vs ρ σ := fun v hv => h v (hvs v hv)

/-- a fresh generated name in front does not disturb agreement off the generated names -/
theorem AgreeOff.cons_rep {ρ σ : Env} (h : AgreeOff isRep ρ σ) (k : Nat) (x : Val) :
    AgreeOff isRep ((gsRep k, x) :: ρ) σ := by
  intro v hv
  rw [get?_cons, if_neg (fun he => hv ⟨k, he.symm⟩)]
  exact h v hv

/-- no generated name with number `≥ c` is bound -/
def Inv1 (c : Nat) (ρ : Env) : Prop := ∀ k, c ≤ k → Env.get? ρ (gsRep k) = none

theorem Inv1.append {c : Nat} {ρ : Env} (h : Inv1 c ρ) {n : Env} (hn : ∀ p ∈ n, ¬ isRep p.1) : Inv1 c (n ++ ρ) := by
  intro k hk
  rw [get?_append, get?_none_of_keys (fun p hp he => hn p hp ⟨k, he⟩), h k hk]
  rfl

theorem get?_append_ne_none {n ρ : Env} {v : Var} (h : Env.get? ρ v ≠ none) : Env.get? (n ++ ρ) v ≠ none := by
  rw [get?_append]
  cases Env.get? n v <;> simp [h]

/-! ## the grounded map -/

theorem lookup_cons (w : Var) (j : Nat) (g : Grounded) (v : Var) :
    Grounded.lookup ((w, j) :: g) v = if w = v then some j else Grounded.lookup g v := rfl

theorem lookup_orInsert_of_some {g : Grounded} {v w : Var} {i j : Nat} (h : g.lookup w = some j) :
    (g.orInsert v i).lookup w = some j := by
  unfold Grounded.orInsert
  split
  · exact h
  · rename_i hn
    rw [lookup_cons]
    split
    · rename_i hvw
      subst hvw
      simp [h] at hn
    · exact h

theorem lookup_orInsert_cases {g : Grounded} {v w : Var} {i j : Nat} (h : (g.orInsert v i).lookup w = some j) :
    g.lookup w = some j ∨ (w = v ∧ j = i) := by
  unfold Grounded.orInsert at h
  split at h
  · exact .inl h
  · rw [lookup_cons] at h
    split at h
    · rename_i hvw
      right
      cases h
      exact ⟨hvw.symm, rfl⟩
    · exact .inl h

theorem lookup_orInsert_of_none {g : Grounded} {v : Var} {i : Nat} (h : g.lookup v = none) :
    (g.orInsert v i).lookup v = some i := by
  unfold Grounded.orInsert
  simp [h, lookup_cons]

theorem lookup_orInsertAll_cases {g : Grounded} {vs : List Var} {w : Var} {i j : Nat}
    (h : (orInsertAll g vs i).lookup w = some j) : g.lookup w = some j ∨ (w ∈ vs ∧ j = i) := by
  induction vs generalizing g with
  | nil => exact .inl h
  | cons v vs ih =>
    have h' : (orInsertAll (g.orInsert v i) vs i).lookup w = some j := h
    rcases ih h' with h1 | ⟨h1, h2⟩
    · rcases lookup_orInsert_cases h1 with h3 | ⟨h3, h4⟩
      · exact .inl h3
      · exact .inr ⟨by simp [h3], h4⟩
    · exact .inr ⟨List.mem_cons_of_mem _ h1, h2⟩

/-- every grounded entry was made by an earlier item and its variable is bound -/
def Inv2 (g : Grounded) (i : Nat) (σ : Env) : Prop := ∀ v j, g.lookup v = some j → j < i ∧ Env.get? σ v ≠ none

/-! ## conditions -/

theorem satConds_append (I : Interp E B G P A) (cs ds : List (Cond E B P)) (ρ : Env) :
    satConds I (cs ++ ds) ρ = (satConds I cs ρ).bind (satConds I ds) := by
  induction cs generalizing ρ with
  | nil => rfl
  | cons c cs ih =>
    simp only [List.cons_append, satConds]
    cases satCond I c ρ with
    | none => rfl
    | some ρ₁ => simp only [Option.bind_some, ih]

/-- a list of tests leaves the environment unchanged and succeeds iff every test is true -/
theorem satConds_tests (I : Interp E B G P A) (cs : List (Cond E B P)) (hcs : ∀ cd ∈ cs, ∃ b, cd = Cond.ifc b) (ρ ρ' : Env) :
    satConds I cs ρ = some ρ' ↔ (ρ' = ρ ∧ ∀ b, Cond.ifc b ∈ cs → I.test b ρ = true) := by
  induction cs with
  | nil =>
    simp only [satConds, Option.some.injEq, List.not_mem_nil, false_imp_iff, implies_true, and_true]
    exact eq_comm
  | cons cd cs ih =>
    obtain ⟨b, rfl⟩ := hcs cd (by simp)
    have ih' := ih (fun cd hcd => hcs cd (List.mem_cons_of_mem _ hcd))
    simp only [satConds, satCond]
    by_cases hb : I.test b ρ = true
    · simp only [hb, if_true, Option.bind_some, ih', List.mem_cons]
      constructor
      · rintro ⟨h1, h2⟩
        refine ⟨h1, fun b' hb' => ?_⟩
        rcases hb' with hb' | hb'
        · cases hb'; exact hb
        · exact h2 b' hb'
      · rintro ⟨h1, h2⟩
        exact ⟨h1, fun b' hb' => h2 b' (.inr hb')⟩
    · simp only [hb, List.mem_cons]
      constructor
      · intro h; cases h
      · rintro ⟨_, h2⟩
        exact absurd (h2 b (.inl rfl)) hb

theorem cond_binds_subset_vars (varsE : E → List Var) (varsB : B → List Var) (cd : Cond E B P) :
    ∀ v ∈ Cond.binds cd, v ∈ Cond.vars varsE varsB cd := by
  intro v hv
  cases cd <;> simp_all [Cond.binds, Cond.vars]

/-- conditions mentioning no generated name behave identically on environments that agree off the generated names -/
theorem conds_transfer {I : Interp E B G P A} {varsE : E → List Var} {varsB : B → List Var} {varsG : G → List Var}
    (hV : VarsSound I varsE varsB varsG) (conds : List (Cond E B P)) {ρ σ ρ' : Env} (h : AgreeOff isRep ρ σ)
    (hment : ∀ v ∈ conds.flatMap (Cond.vars varsE varsB), ¬ isRep v) (hc : satConds I conds ρ = some ρ') :
    ∃ n, ρ' = n ++ ρ ∧ satConds I conds σ = some (n ++ σ) ∧ ∀ p ∈ n, ¬ isRep p.1 := by
  obtain ⟨n, rfl, hk, _, hf⟩ := satConds_frame hV conds ρ ρ' hc
  refine ⟨n, rfl, hf σ (h.agree hment), fun p hp => hment _ ?_⟩
  obtain ⟨cd, hcd, hv⟩ := List.mem_flatMap.mp (hk p hp)
  exact List.mem_flatMap.mpr ⟨cd, hcd, cond_binds_subset_vars varsE varsB cd _ hv⟩

/-! ## items other than clauses -/

/-- an item mentioning no generated name behaves identically on environments that agree off the generated names -/
theorem step_transfer {I : Interp E B G P A} {varsE : E → List Var} {varsB : B → List Var} {varsG : G → List Var}
    (hV : VarsSound I varsE varsB varsG) {D : DB} {agg : RelId → List Tuple} (it : Item E B G P A) {ρ σ ρ' : Env}
    (h : AgreeOff isRep ρ σ) (hment : ∀ v ∈ Item.mentions varsE varsB varsG it, ¬ isRep v) (hst : Step I D agg it ρ ρ') :
    ∃ n, ρ' = n ++ ρ ∧ Step I D agg it σ (n ++ σ) ∧ (∀ p ∈ n, ¬ isRep p.1) ∧
      ∀ v ∈ Item.binds [] it, Env.get? (n ++ ρ) v ≠ none ∧ Env.get? (n ++ σ) v ≠ none := by
  obtain ⟨n, rfl, hk, hbd, hf⟩ := step_frame hV [] it (by simp) hst
  have hsub := binds_subset_mentions varsE varsB varsG [] it
  refine ⟨n, rfl, hf σ (h.agree hment), fun p hp => hment _ (hsub _ (hk p hp)), fun v hv => ⟨hbd v hv, ?_⟩⟩
  rw [← (h.append n) v (hment v (hsub v hv))]
  exact hbd v hv

theorem Inv2.step {g : Grounded} {i : Nat} {σ n : Env} {vs : List Var} (h : Inv2 g i σ)
    (hb : ∀ v ∈ vs, Env.get? (n ++ σ) v ≠ none) : Inv2 (orInsertAll g vs i) (i + 1) (n ++ σ) := by
  intro v j hl
  rcases lookup_orInsertAll_cases hl with h1 | ⟨h1, h2⟩
  · exact ⟨Nat.lt_succ_of_lt (h v j h1).1, get?_append_ne_none (h v j h1).2⟩
  · exact ⟨by omega, hb v h1⟩

/-! ## conversion to core arguments -/

/-- the core argument behind a variable / expression argument -/
def SArg.toArg : SArg E P → Arg E
  | .var v => .var v
  | .expr e => .expr e
  | _ => .var 0

def IsVE (a : SArg E P) : Prop := (∃ v, a = SArg.var v) ∨ ∃ e, a = SArg.expr e

theorem mapM_cons_eq_some {α β : Type} {f : α → Option β} {a : α} {l : List α} {ys : List β} :
    (a :: l).mapM f = some ys ↔ ∃ b bs, f a = some b ∧ l.mapM f = some bs ∧ ys = b :: bs := by
  rw [List.mapM_cons]
  cases f a with
  | none => simp
  | some b =>
    cases l.mapM f with
    | none => simp
    | some bs => simp [eq_comm]

theorem mapM_toCore_of_VE (as : List (SArg E P)) (h : ∀ a ∈ as, IsVE a) : as.mapM SArg.toCore = some (as.map SArg.toArg) := by
  induction as with
  | nil => simp
  | cons a as ih =>
    rw [mapM_cons_eq_some]
    refine ⟨a.toArg, as.map SArg.toArg, ?_, ih (fun b hb => h b (List.mem_cons_of_mem _ hb)), rfl⟩
    rcases h a (by simp) with ⟨v, rfl⟩ | ⟨e, rfl⟩ <;> rfl

/-! ## equations of `repArgs` -/

/-- the grounded map after a column that is kept -/
def repG1 (g : Grounded) (i : Nat) : SArg E P → Grounded
  | .var v => g.orInsert v i
  | _ => g

theorem repArgs_cons_pos (ops : Ops E B G A) (i : Nat) (a : SArg E P) (as : List (SArg E P)) (g : Grounded) (c : Nat)
    (h : ((a.vars ops).any fun v => g.lookup v == some i) = true) :
    repArgs ops i (a :: as) g c =
      ⟨.var (gsRep c) :: (repArgs ops i as g (c + 1)).args,
       .ifc (ops.eqB (gsRep c) (a.toE ops)) :: (repArgs ops i as g (c + 1)).conds,
       (repArgs ops i as g (c + 1)).g, (repArgs ops i as g (c + 1)).c⟩ := by
  simp only [repArgs, h, if_true]

theorem repArgs_cons_neg (ops : Ops E B G A) (i : Nat) (a : SArg E P) (as : List (SArg E P)) (g : Grounded) (c : Nat)
    (h : ¬ ((a.vars ops).any fun v => g.lookup v == some i) = true) :
    repArgs ops i (a :: as) g c =
      ⟨a :: (repArgs ops i as (repG1 g i a) c).args, (repArgs ops i as (repG1 g i a) c).conds,
       (repArgs ops i as (repG1 g i a) c).g, (repArgs ops i as (repG1 g i a) c).c⟩ := by
  cases a <;> simp only [repArgs, h, repG1] <;> rfl

theorem repArgs_conds_ifc (ops : Ops E B G A) (i : Nat) (as : List (SArg E P)) (g : Grounded) (c : Nat) :
    ∀ cd ∈ (repArgs ops i as g c).conds, ∃ b, cd = Cond.ifc b := by
  induction as generalizing g c with
  | nil => intro cd hcd; simp [repArgs] at hcd
  | cons a as ih =>
    by_cases h : ((a.vars ops).any fun v => g.lookup v == some i) = true
    · rw [repArgs_cons_pos ops i a as g c h]
      intro cd hcd
      rcases List.mem_cons.mp hcd with rfl | hcd
      · exact ⟨_, rfl⟩
      · exact ih _ _ cd hcd
    · rw [repArgs_cons_neg ops i a as g c h]
      exact ih _ _

theorem repArgs_args_VE (ops : Ops E B G A) (i : Nat) (as : List (SArg E P)) (g : Grounded) (c : Nat)
    (has : ∀ a ∈ as, IsVE a) : ∀ a ∈ (repArgs ops i as g c).args, IsVE a := by
  induction as generalizing g c with
  | nil => intro a ha; simp [repArgs] at ha
  | cons a as ih =>
    have ih' := fun g c => ih g c (fun b hb => has b (List.mem_cons_of_mem _ hb))
    by_cases h : ((a.vars ops).any fun v => g.lookup v == some i) = true
    · rw [repArgs_cons_pos ops i a as g c h]
      intro b hb
      rcases List.mem_cons.mp hb with rfl | hb
      · exact .inl ⟨_, rfl⟩
      · exact ih' _ _ b hb
    · rw [repArgs_cons_neg ops i a as g c h]
      intro b hb
      rcases List.mem_cons.mp hb with rfl | hb
      · exact has _ (by simp)
      · exact ih' _ _ b hb

/-- the variables the new argument list can bind are generated names or variable columns of the old list -/
theorem repArgs_bvars (ops : Ops E B G A) (i : Nat) (as : List (SArg E P)) (g : Grounded) (c : Nat)
    (has : ∀ a ∈ as, IsVE a) :
    ∀ v ∈ ((repArgs ops i as g c).args.map SArg.toArg).flatMap Arg.bvars, isRep v ∨ v ∈ as.flatMap SArg.varCol := by
  induction as generalizing g c with
  | nil => intro v hv; simp [repArgs] at hv
  | cons a as ih =>
    have ih' := fun g c => ih g c (fun b hb => has b (List.mem_cons_of_mem _ hb))
    by_cases h : ((a.vars ops).any fun v => g.lookup v == some i) = true
    · rw [repArgs_cons_pos ops i a as g c h]
      intro v hv
      simp only [List.map_cons, List.flatMap_cons, List.mem_append] at hv ⊢
      rcases hv with hv | hv
      · simp only [SArg.toArg, Arg.bvars, List.mem_singleton] at hv
        exact .inl ⟨c, hv⟩
      · rcases ih' _ _ v hv with h1 | h1
        · exact .inl h1
        · exact .inr (.inr h1)
    · rw [repArgs_cons_neg ops i a as g c h]
      intro v hv
      simp only [List.map_cons, List.flatMap_cons, List.mem_append] at hv ⊢
      rcases hv with hv | hv
      · rcases has a (by simp) with ⟨w, rfl⟩ | ⟨e, rfl⟩
        · exact .inr (.inl hv)
        · simp [SArg.toArg, Arg.bvars] at hv
      · rcases ih' _ _ v hv with h1 | h1
        · exact .inl h1
        · exact .inr (.inr h1)

/-! ## `matchArgs` keeps what is bound -/

theorem matchArgs_get? {I : Interp E B G P A} {varsE : E → List Var} {varsB : B → List Var} {varsG : G → List Var}
    (hV : VarsSound I varsE varsB varsG) {args : List (Arg E)} {t : Tuple} {ρ₀ ρ ρ₁ : Env}
    (h : matchArgs I ρ₀ args t ρ = some ρ₁) {v : Var} (hv : Env.get? ρ v ≠ none ∨ v ∉ args.flatMap Arg.bvars) :
    Env.get? ρ₁ v = Env.get? ρ v := by
  obtain ⟨n, rfl, hk, _, _⟩ := matchArgs_frame hV args t ρ₀ ρ ρ₁ h
  rw [get?_append, get?_none_of_keys]
  · rfl
  · intro p hp he
    subst he
    rcases hv with hv | hv
    · exact hv (hk p hp).2
    · exact hv (hk p hp).1

end AscentVerif.Surface
