import AscentVerif.Proofs.AggScc
import AscentVerif.Proofs.Strata
/-!
# Strata with aggregation: `runSccs` over a valid, stratified SCC order (step 5 of the C04 proof)

* a frame property proved without any invariant: an SCC only touches its dynamic relations;
* hence, for a valid stratified order, the relation an aggregation item ranges over is final when
  the item's SCC starts (`agg_rel_final`);
* the strata induction of `Proofs/Strata.lean`, with the per-item aggregation view fixed to what
  the items read from the FINAL program value.
-/
namespace AscentVerif.Engine.Agg
open AscentVerif AscentVerif.Engine

variable {E B G P A : Type}

/-! ## frame: an SCC only touches its dynamic relations -/

structure Frame (L : List RelId) (st : St) (s : SccSt) : Prop where
  names : s.dyn.map (·.rel) = L
  keep : ∀ r, r ∉ L → relSt s.rels r = relSt st r

theorem foldl_inv {σ α : Type} (f : σ → α → σ) (Inv : σ → Prop) (h : ∀ s a, Inv s → Inv (f s a)) :
    ∀ (l : List α) (s : σ), Inv s → Inv (l.foldl f s)
  | [], _, hs => hs
  | a :: l, s, hs => foldl_inv f Inv h l (f s a) (h s a hs)

theorem Frame_headRel {L : List RelId} {st : St} {s : SccSt} (h : Frame L st s) (r : RelId) (row : Tuple) :
    Frame L st (headRel s r row) := by
  rw [headRel_eq]
  cases hd : findDyn s.dyn r with
  | none => exact h
  | some d =>
    simp only []
    split
    · exact h
    · refine ⟨?_, ?_⟩
      · rw [← h.names]
        simp only [pushRow, setDyn_eq_map, List.map_map]
        apply List.map_congr_left
        intro x _
        exact setDyn_fn_rel { d with new := d.new ++ [(relSt s.rels r).rows.length] } x
      · intro r' hr'
        have hne : r' ≠ r := by
          intro e; subst e; apply hr'; rw [← h.names]
          exact List.mem_map.mpr ⟨d, findDyn_mem hd, findDyn_rel hd⟩
        rw [pushRow_relSt_ne hne]; exact h.keep r' hr'

section FrameRun
variable (I : Interp E B G P A) (cfg : Config) (p : Program E B G P A) (hl : ∀ d ∈ p.rels, d.lat = false)

include hl in
theorem Frame_evalRules {L : List RelId} {st : St} (dynR : List RelId) (rules : List (Rule E B G P A)) (s : SccSt)
    (h : Frame L st s) : Frame L st (evalRules I cfg p dynR rules s) := by
  unfold evalRules
  refine foldl_inv _ (Frame L st) ?_ rules s h
  intro s rule hs
  refine foldl_inv _ (Frame L st) ?_ _ s hs
  intro s vs hs
  unfold evalVariant
  refine foldl_inv _ (Frame L st) ?_ _ s hs
  intro s ρ hs
  refine foldl_inv _ (Frame L st) ?_ _ s hs
  intro s hd hs
  have hupd : headUpdate I cfg p s hd ρ = headRel s hd.rel (hd.args.map fun e => I.expr e ρ) := by
    simp [headUpdate, declOf_lat p hl]
  rw [hupd]
  exact Frame_headRel hs _ _

theorem Frame_shift {L : List RelId} {st : St} {s : SccSt} (h : Frame L st s) : Frame L st (shift s) := by
  refine ⟨?_, h.keep⟩
  rw [shift_dyn, List.map_map]
  exact h.names

include hl in
theorem Frame_sccLoop {L : List RelId} {st : St} (dynR : List RelId) (rules : List (Rule E B G P A))
    (dl : Deadline) : ∀ (fuel : Nat) (rs rs' : RunSt), Frame L st rs.st →
      sccLoop I cfg p dynR rules dl fuel rs = .done rs' → Frame L st rs'.st := by
  intro fuel
  induction fuel with
  | zero => intro rs rs' _ h; simp [sccLoop] at h
  | succ fuel ih =>
    intro rs rs' hf h
    have h1 : Frame L st (shift (evalRules I cfg p dynR rules { rs.st with changed := false })) :=
      Frame_shift (Frame_evalRules I cfg p hl dynR rules _ ⟨hf.names, hf.keep⟩)
    simp only [sccLoop] at h
    split at h
    · simp only [Outcome.done.injEq] at h
      subst h; exact h1
    · split at h
      · cases h
      · exact ih _ rs' h1 h

include hl in
/-- a relation that is not a head relation of the SCC keeps its rows AND its stored index -/
theorem runScc_nondyn (dl : Deadline) (fuel : Nat) (scc : List Nat) (ps ps' : ProgSt)
    (h : runScc I cfg p dl fuel scc ps = .done ps') (r : RelId) (hr : (dynRels p scc).contains r = false) :
    relSt ps'.st r = relSt ps.st r := by
  have hr' : r ∉ dynRels p scc := by
    intro hm; rw [List.contains_iff_mem.mpr hm] at hr; cases hr
  have h0 : Frame (dynRels p scc) ps.st (enterScc ps.st (dynRels p scc)) := by
    refine ⟨?_, fun r _ => by rw [enterScc_rels]⟩
    simp [enterScc, List.map_map, Function.comp_def]
  have hleave : ∀ s, Frame (dynRels p scc) ps.st s → relSt (leaveScc s) r = relSt ps.st r := by
    intro s hs
    rw [leaveScc_eq, leave_untouched r s.dyn s.rels, hs.keep r hr']
    intro d hd e
    apply hr'
    rw [← hs.names, ← e]
    exact List.mem_map.mpr ⟨d, hd, rfl⟩
  simp only [runScc] at h
  split at h
  · split at h
    · rename_i rs hloop
      simp only [Outcome.done.injEq] at h
      subst h
      exact hleave _ (Frame_sccLoop I cfg p hl _ _ dl fuel _ rs h0 hloop)
    · cases h
    · cases h
  · split at h
    · cases h
    · simp only [Outcome.done.injEq] at h
      subst h
      exact hleave _ (Frame_shift (Frame_shift (Frame_evalRules I cfg p hl _ _ _ h0)))

include hl in
theorem runSccs_stable (dl : Deadline) (fuel : Nat) (r : RelId) : ∀ (rest : SccOrder) (ps ps' : ProgSt),
    runSccs I cfg p dl fuel rest ps = .done ps' → (∀ scc ∈ rest, (dynRels p scc).contains r = false) →
    relSt ps'.st r = relSt ps.st r := by
  intro rest
  induction rest with
  | nil =>
    intro ps ps' h _
    simp only [runSccs, Outcome.done.injEq] at h
    subst h; rfl
  | cons scc rest ih =>
    intro ps ps' h hr
    simp only [runSccs] at h
    split at h
    · rename_i ps1 hscc
      rw [ih ps1 ps' h (fun s hs => hr s (List.mem_cons_of_mem _ hs))]
      exact runScc_nondyn I cfg p hl dl fuel scc ps ps1 hscc r (hr scc (by simp))
    · rename_i hne
      cases hrun : runScc I cfg p dl fuel scc ps with
      | done x => exact absurd hrun (hne x)
      | timedOut x => rw [hrun] at h; cases h
      | outOfFuel => rw [hrun] at h; cases h

end FrameRun

/-! ## stratification + valid order: aggregated relations are never written again -/

theorem aggOverDynamic_false (p : Program E B G P A) (scc : List Nat) (h : aggOverDynamic p scc = false)
    (rule : Rule E B G P A) (hrule : rule ∈ sccRules p scc) (a : AggClause E A) (ha : Item.agg a ∈ rule.body) :
    (dynRels p scc).contains a.rel = false := by
  simp only [aggOverDynamic, List.any_eq_false] at h
  have h1 := h rule hrule
  simp only [List.any_eq_true, not_exists, not_and] at h1
  have h2 := h1 (Item.agg a) ha
  simpa using h2

theorem agg_rel_not_later (p : Program E B G P A) (pre post : SccOrder) (scc : List Nat)
    (ho : validOrder p (pre ++ scc :: post) = true)
    (hs : ∀ s ∈ pre ++ scc :: post, aggOverDynamic p s = false)
    (rule : Rule E B G P A) (hrule : rule ∈ sccRules p scc) (a : AggClause E A) (ha : Item.agg a ∈ rule.body) :
    ∀ scc' ∈ scc :: post, (dynRels p scc').contains a.rel = false := by
  intro scc' hscc'
  rcases List.mem_cons.mp hscc' with rfl | hscc'
  · exact aggOverDynamic_false p scc' (hs scc' (by simp)) rule hrule a ha
  · obtain ⟨post1, post2, rfl⟩ := List.append_of_mem hscc'
    have hb : a.rel ∈ rule.bodyRels := by
      simp only [Rule.bodyRels, List.mem_filterMap]
      exact ⟨Item.agg a, ha, rfl⟩
    exact validOrder_forward p _ ho (pre ++ scc :: post1) scc' post2 (by simp) scc (by simp) rule hrule a.rel hb

/-- when an SCC with an aggregation over `a.rel` starts, `a.rel` (rows and stored index) is final -/
theorem agg_rel_final (I : Interp E B G P A) (cfg : Config) (p : Program E B G P A)
    (hl : ∀ d ∈ p.rels, d.lat = false) (dl : Deadline) (fuel : Nat)
    (pre post : SccOrder) (scc : List Nat) (ps ps' : ProgSt)
    (ho : validOrder p (pre ++ scc :: post) = true)
    (hs : ∀ s ∈ pre ++ scc :: post, aggOverDynamic p s = false)
    (hpost : runSccs I cfg p dl fuel (scc :: post) ps = .done ps')
    (rule : Rule E B G P A) (hrule : rule ∈ sccRules p scc) (a : AggClause E A) (ha : Item.agg a ∈ rule.body) :
    relSt ps'.st a.rel = relSt ps.st a.rel :=
  runSccs_stable I cfg p hl dl fuel a.rel (scc :: post) ps ps' hpost
    (agg_rel_not_later p pre post scc ho hs rule hrule a ha)

/-! ## the strata induction -/

section Strata
variable (I : Interp E B G P A) (cfg : Config) (p : Program E B G P A) (inp : RelId → List Tuple) (K : Prop)
  (hl : ∀ d ∈ p.rels, d.lat = false)
  (hh : ∀ r ∈ p.rules, ∀ h ∈ r.heads, h.rel < p.rels.length)
  (o : SccOrder) (ho : validOrder p o = true) (hs : ∀ s ∈ o, aggOverDynamic p s = false)

include hl hh ho hs in
/-- the aggregation view is fixed to what the items read from the final value `ps'` -/
theorem runSccs_spec (dl : Deadline) (fuel : Nat) (ps' : ProgSt) : ∀ (rest done : SccOrder) (ps : ProgSt),
    done ++ rest = o → PInv I p inp (aggOf cfg p ps'.st) K p.rels.length ps.st →
    (∀ scc ∈ done, ClosedRules I (aggOf cfg p ps'.st) (sccRules p scc) (factsOf ps.st)) →
    runSccs I cfg p dl fuel rest ps = .done ps' →
    PInv I p inp (aggOf cfg p ps'.st) K p.rels.length ps'.st ∧
      ∀ scc ∈ o, ClosedRules I (aggOf cfg p ps'.st) (sccRules p scc) (factsOf ps'.st) := by
  intro rest
  induction rest with
  | nil =>
    intro done ps hdone hp hcl h
    simp only [runSccs, Outcome.done.injEq] at h
    subst h
    rw [List.append_nil] at hdone
    subst hdone
    exact ⟨hp, hcl⟩
  | cons scc rest ih =>
    intro done ps hdone hp hcl h
    have hagg : ∀ rule ∈ sccRules p scc, ∀ a, Item.agg a ∈ rule.body →
        (dynRels p scc).contains a.rel = false ∧ aggOf cfg p ps.st a = aggOf cfg p ps'.st a := by
      intro rule hrule a ha
      subst hdone
      refine ⟨agg_rel_not_later p done rest scc ho hs rule hrule a ha scc (by simp), ?_⟩
      exact (aggOf_congr cfg p a (agg_rel_final I cfg p hl dl fuel done rest scc ps ps' ho hs h rule hrule a ha)).symm
    simp only [runSccs] at h
    split at h
    · rename_i ps1 hscc
      obtain ⟨hp1, hsame, hmono, hcl1⟩ :=
        runScc_spec I cfg p inp (aggOf cfg p ps'.st) K hl hh dl fuel scc ps ps1 hp hagg hscc
      refine ih (done ++ [scc]) ps1 (by rw [List.append_assoc]; exact hdone) hp1 ?_ h
      intro scc' hscc'
      rcases List.mem_append.mp hscc' with hscc' | hscc'
      · intro rule hrule ρ hsat hd hhd
        have hfw := validOrder_forward p o ho done scc rest hdone scc' hscc' rule hrule
        have hsat' : SatA I (factsOf ps.st) (aggOf cfg p ps'.st) rule.body [] ρ := by
          refine SatA.congr_rels hsat ?_
          intro r hr t ht
          have : relSt ps1.st r = relSt ps.st r := hsame r (hfw r hr)
          simp only [factsOf] at ht ⊢
          rw [← this]; exact ht
        exact hmono _ _ (hcl scc' hscc' rule hrule ρ hsat' hd hhd)
      · simp only [List.mem_singleton] at hscc'
        subst hscc'
        exact hcl1
    · rename_i hne
      cases hr : runScc I cfg p dl fuel scc ps with
      | done x => exact absurd hr (hne x)
      | timedOut x => rw [hr] at h; cases h
      | outOfFuel => rw [hr] at h; cases h

/-- after `updateIndices` the stored index of every relation holds exactly its row numbers
(each once: the indices are rebuilt, whatever they held before) -/
theorem PInv_start (aggv : AggClause E A → List Tuple) (s : St) (hst : WFSt' p s)
    (hinp : ∀ r, r < p.rels.length → (relSt s r).rows = inp r) :
    PInv I p inp aggv K p.rels.length (updateIndices s) := by
  refine ⟨by simpa [updateIndices] using hst.1, ?_, ?_, ?_⟩
  · intro r hr
    rw [relSt_updateIndices]
    simp only [hinp r hr]
    refine ⟨fun t ht => derA_input ⟨hr, ht⟩, [], by simp, List.nodup_nil, fun t ht => by simp at ht⟩
  · intro r i
    rw [relSt_updateIndices]
    simp only [List.mem_range]
  · intro _ r
    rw [relSt_updateIndices]
    exact List.nodup_range

include hl hh ho hs in
/-- everything the final theorems need about a completed run (any deadline oracle) -/
theorem run_spec (dl : Deadline) (fuel : Nat) (s : St) (ps : ProgSt) (hst : WFSt' p s)
    (hinp : ∀ r, r < p.rels.length → (relSt s r).rows = inp r)
    (hrun : runTimeout I cfg p o dl fuel s = .done ps) :
    PInv I p inp (aggOf cfg p ps.st) K p.rels.length ps.st ∧
      ClosedRules I (aggOf cfg p ps.st) p.rules (factsOf ps.st) := by
  have h := runSccs_spec I cfg p inp K hl hh o ho hs dl fuel ps o [] _ (by simp)
    (PInv_start I p inp K (aggOf cfg p ps.st) s hst hinp) (by intro scc hscc; simp at hscc) hrun
  refine ⟨h.1, ?_⟩
  intro rule hrule ρ hsat hd hhd
  obtain ⟨i, hi, hri⟩ := List.mem_iff_getElem.mp hrule
  obtain ⟨scc, hscc, hiscc⟩ := validOrder_cover p o ho i hi
  have : rule ∈ sccRules p scc := (mem_sccRules p scc rule).mpr ⟨i, hiscc, by rw [List.getElem?_eq_getElem hi, hri]⟩
  exact h.2 scc hscc rule this ρ hsat hd hhd

section General
variable (dl : Deadline) (fuel : Nat) (s : St) (ps : ProgSt) (hst : WFSt' p s)
  (hinp : ∀ r, r < p.rels.length → (relSt s r).rows = inp r)
  (hrun : runTimeout I cfg p o dl fuel s = .done ps)

include K hl hh ho hs hst hinp hrun in
/-- **run = least model** where every aggregation item is evaluated on what it reads from the
final program value -/
theorem runFrom_eq_model : ∀ f, factsOf ps.st f ↔ DerA I p.rules (aggOf cfg p ps.st) (inDB p inp) f := by
  obtain ⟨hp, hcl⟩ := run_spec I cfg p inp K hl hh o ho hs dl fuel s ps hst hinp hrun
  intro f
  constructor
  · intro hf
    have hr : f.rel < p.rels.length := by
      have := lt_of_mem_rows ps.st f.rel f.args hf
      rw [hp.len] at this; exact this
    have := (hp.good f.rel hr).1 f.args hf
    cases f; exact this
  · revert f
    apply derA_least
    refine ⟨?_, ?_⟩
    · rintro f ⟨hr, hf⟩
      obtain ⟨_, derived, hrows, _, _⟩ := hp.good f.rel hr
      show f.args ∈ (relSt ps.st f.rel).rows
      rw [hrows]; exact List.mem_append_left _ hf
    · rintro f ⟨rule, hrule, ρ, hsat, h, hhd, rfl⟩
      exact hcl rule hrule ρ hsat h hhd

include K hl hh ho hs hst hinp hrun in
theorem runFrom_rows_set : ∀ r, r < p.rels.length → ∃ derived : List Tuple,
    (relSt ps.st r).rows = inp r ++ derived ∧ derived.Nodup ∧ ∀ t ∈ derived, t ∉ inp r := by
  intro r hr
  exact ((run_spec I cfg p inp K hl hh o ho hs dl fuel s ps hst hinp hrun).1.good r hr).2

include hl hh ho hs hst hinp hrun in
/-- the stored index of every relation holds exactly its row numbers, each once -/
theorem runFrom_idx : (∀ r i, i < (relSt ps.st r).rows.length ↔ i ∈ (relSt ps.st r).idx) ∧
    (K → ∀ r, (relSt ps.st r).idx.Nodup) :=
  let h := (run_spec I cfg p inp K hl hh o ho hs dl fuel s ps hst hinp hrun).1
  ⟨h.idxAll, h.idxNd⟩

end General

end Strata

end AscentVerif.Engine.Agg
