import AscentVerif.Proofs.AggLatInv
/-!
# Mixed programs: the stored index of every NON-lattice relation stays duplicate-free

`Proofs/AggLatInv.lean` (`KInv` / `KPInv`) with one more field: for non-lattice relations the index
bags `total ++ delta ++ new` (SCC state) resp. the stored index (program value) have no repeated row
number.  With duplicate-free relation inputs this makes the view a full-key aggregation item reads
from a non-lattice relation duplicate-free (`Props/C04LatSem.lean`, `run_mixed_viewOK`).
-/
namespace AscentVerif.Engine.ALSN
open AscentVerif AscentVerif.Engine AscentVerif.Engine.AggLat

variable {E B G P A : Type}

section Inv
variable (p : Program E B G P A) (dynR : List RelId) (st : St)

/-- the invariant of every SCC state, whatever the rule bodies produce -/
structure KInv (s : SccSt) : Prop where
  wf : WF p.rels.length dynR s
  dlt : ∀ r, dynR.contains r = true → r < p.rels.length
  keys : ∀ r, (declOf p r).lat = true → ((rowsOf s r).map keyOf).Nodup
  quiet : s.changed = false → NewEmpty s
  keep : ∀ r, dynR.contains r = false → relSt s.rels r = relSt st r
  nd : ∀ r d, Engine.findDyn s.dyn r = some d → (declOf p r).lat = false → (d.total ++ d.delta ++ d.new).Nodup
  ndSt : ∀ r, (declOf p r).lat = false → (relSt st r).idx.Nodup

/-- the invariant of every program value between SCCs -/
structure KPInv (t : St) : Prop where
  len : t.length = p.rels.length
  keys : ∀ r, (declOf p r).lat = true → ((relSt t r).rows.map keyOf).Nodup
  idxAll : ∀ r i, i < (relSt t r).rows.length ↔ i ∈ (relSt t r).idx
  idxNd : ∀ r, (declOf p r).lat = false → (relSt t r).idx.Nodup

variable {p dynR st}

theorem KInv.dynSome {s : SccSt} (hinv : KInv p dynR st s) {r : RelId} (hdyn : dynR.contains r = true) :
    ∃ d, findDyn s.dyn r = some d := by
  have := hinv.wf.dyn_iff r
  rw [hdyn] at this
  exact Option.isSome_iff_exists.mp this

theorem KInv.dynNone {s : SccSt} (hinv : KInv p dynR st s) {r : RelId} (hdyn : dynR.contains r = false) :
    findDyn s.dyn r = none := by
  have := hinv.wf.dyn_iff r
  rw [hdyn] at this
  cases h' : Engine.findDyn s.dyn r with
  | none => rfl
  | some d => rw [h'] at this; cases this

theorem KInv_upd {s : SccSt} {r : RelId} {d d' : Dyn} {rows' : List Tuple}
    (hinv : KInv p dynR st s) (hd : Engine.findDyn s.dyn r = some d) (hr : r < p.rels.length)
    (hrel : d'.rel = r)
    (hcov : ∀ i, i < rows'.length ↔ (i ∈ d'.total ∨ i ∈ d'.delta ∨ i ∈ d'.new))
    (hkeys : (declOf p r).lat = true → (rows'.map keyOf).Nodup)
    (hnd' : (declOf p r).lat = false → (d'.total ++ d'.delta ++ d'.new).Nodup) :
    KInv p dynR st (upd s r d' rows') := by
  have hr' : r < s.rels.length := by rw [hinv.wf.len]; exact hr
  refine ⟨WF_upd hinv.wf hd hr hrel hcov, hinv.dlt, ?_, ?_, ?_, ?_, hinv.ndSt⟩
  · intro r' hl
    by_cases hne : r' = r
    · subst hne; rw [upd_rows_self hr']; exact hkeys hl
    · rw [upd_rows_ne hne]; exact hinv.keys r' hl
  · intro h; simp [upd] at h
  · intro r' hc
    have hne : r' ≠ r := by
      intro e; subst e
      rw [hinv.dynNone hc] at hd; cases hd
    rw [upd_relSt_ne hne]; exact hinv.keep r' hc
  · intro r' d'' hd'' hl
    by_cases hne : r' = r
    · subst hne
      rw [upd_dyn_self hd hrel] at hd''
      cases hd''; exact hnd' hl
    · rw [upd_dyn_ne hrel hne] at hd''
      exact hinv.nd r' d'' hd'' hl

theorem headLat_stepK (I : Interp E B G P A) {s : SccSt} (hinv : KInv p dynR st s) (r : RelId) (row : Tuple)
    (hlat : (declOf p r).lat = true) (hdyn : dynR.contains r = true) : KInv p dynR st (headLat I {} s r row) := by
  have hr := hinv.dlt r hdyn
  obtain ⟨d, hd⟩ := hinv.dynSome hdyn
  have hcov := hinv.wf.cover r d hd
  have hrel := findDyn_rel hd
  rw [headLat_eq, hd]
  simp only []
  cases hkr : keyRow (rowsOf s r) d (keyOf row) with
  | none =>
    simp only []
    rw [pushRow_eq_upd]
    exact KInv_upd hinv hd hr hrel (cover_push row hcov)
      (fun hl => nodup_keys_push (hinv.keys r hl) (keyRow_fresh hcov hkr))
      (fun hl => by rw [hlat] at hl; cases hl)
  | some i =>
    obtain ⟨hi, _⟩ := keyRow_found hcov hkr
    simp only []
    by_cases hj : (I.joinMut r (valOf (rowAt (rowsOf s r) i)) (valOf row)).2 = true
    · rw [if_pos hj, joinSt_eq_upd hinv.wf hd]
      generalize (I.joinMut r (valOf (rowAt (rowsOf s r) i)) (valOf row)).1 = x
      have hrel' : (requeue d i).rel = r := by rw [requeue_rel]; exact hrel
      have hcov' : ∀ j, j < (joinRows (rowsOf s r) i x).length ↔
          (j ∈ (requeue d i).total ∨ j ∈ (requeue d i).delta ∨ j ∈ (requeue d i).new) := by
        intro j
        rw [joinRows_length, requeue_total, requeue_delta, mem_requeue_new, hcov j]
        constructor
        · rintro (h | h | h)
          · exact .inl h
          · exact .inr (.inl h)
          · exact .inr (.inr (.inl h))
        · rintro (h | h | h | h)
          · exact .inl h
          · exact .inr (.inl h)
          · exact .inr (.inr h)
          · subst h; exact (hcov j).mp hi
      exact KInv_upd hinv hd hr hrel' hcov' (fun hl => by rw [joinRows_keys]; exact hinv.keys r hl)
        (fun hl => by rw [hlat] at hl; cases hl)
    · rw [if_neg hj]; exact hinv

theorem headRel_stepK {s : SccSt} (hinv : KInv p dynR st s) (r : RelId) (row : Tuple)
    (hlat : (declOf p r).lat = false) (hdyn : dynR.contains r = true) : KInv p dynR st (headRel s r row) := by
  have hr := hinv.dlt r hdyn
  obtain ⟨d, hd⟩ := hinv.dynSome hdyn
  have hcov := hinv.wf.cover r d hd
  rw [headRel_eq, hd]
  simp only []
  split
  · exact hinv
  · rw [pushRow_eq_upd]
    have hrel : d.rel = r := findDyn_rel hd
    refine KInv_upd hinv hd hr hrel (cover_push row hcov) (fun hl => by rw [hlat] at hl; cases hl) ?_
    intro _
    have h0 := hinv.nd r d hd hlat
    have hfresh : (rowsOf s r).length ∉ d.total ++ d.delta ++ d.new := by
      intro hm
      have : (rowsOf s r).length < (rowsOf s r).length := (hcov _).mpr (by
        simp only [List.mem_append] at hm
        rcases hm with (h | h) | h
        · exact .inl h
        · exact .inr (.inl h)
        · exact .inr (.inr h))
      exact Nat.lt_irrefl _ this
    show (d.total ++ d.delta ++ (d.new ++ [(rowsOf s r).length])).Nodup
    rw [← List.append_assoc, List.nodup_append]
    refine ⟨h0, by simp, ?_⟩
    intro a ha b hb e
    simp only [List.mem_singleton] at hb
    subst hb; subst e
    exact hfresh ha

theorem headUpdate_stepK (I : Interp E B G P A) {s : SccSt} (hinv : KInv p dynR st s) (h : HeadClause E) (ρ : Env)
    (hdyn : dynR.contains h.rel = true) : KInv p dynR st (headUpdate I {} p s h ρ) := by
  unfold headUpdate
  cases hlat : (declOf p h.rel).lat with
  | true => exact headLat_stepK I hinv h.rel _ hlat hdyn
  | false => exact headRel_stepK hinv h.rel _ hlat hdyn

/-- one pass over the rules, whatever environments the bodies (clauses, conditions, generators,
aggregations, negations) produce -/
theorem evalRules_K (I : Interp E B G P A) (rules : List (Rule E B G P A))
    (hdyn : ∀ rule ∈ rules, ∀ h ∈ rule.heads, dynR.contains h.rel = true)
    (s : SccSt) (hinv : KInv p dynR st s) : KInv p dynR st (evalRules I {} p dynR rules s) := by
  unfold evalRules
  refine foldl_inv_mem _ (KInv p dynR st) rules ?_ s hinv
  intro s rule hrule hs
  refine foldl_inv_mem _ (KInv p dynR st) _ ?_ s hs
  intro s vs _ hs
  unfold evalVariant
  refine foldl_inv_mem _ (KInv p dynR st) _ ?_ s hs
  intro s ρ _ hs
  refine foldl_inv_mem _ (KInv p dynR st) _ ?_ s hs
  intro s hd hhd hs
  exact headUpdate_stepK I hs hd ρ (hdyn rule hrule hd hhd)

theorem KInv_shift {s : SccSt} (h : KInv p dynR st s) : KInv p dynR st (shift s) :=
  ⟨WF_shift h.wf, h.dlt, h.keys, fun _ => NewEmpty_shift s, h.keep, by
    intro r d' hd' hl
    rw [findDyn_shift] at hd'
    cases hd : Engine.findDyn s.dyn r with
    | none => rw [hd] at hd'; cases hd'
    | some d =>
      rw [hd] at hd'; cases hd'
      have := h.nd r d hd hl
      simpa [shiftD] using this, h.ndSt⟩

theorem KInv_reset {s : SccSt} (h : KInv p dynR st s) (hn : NewEmpty s) :
    KInv p dynR st { s with changed := false } :=
  ⟨⟨h.wf.len, h.wf.dyn_iff, h.wf.uniq, h.wf.cover, h.wf.cover_nd⟩, h.dlt, h.keys, fun _ => hn, h.keep, h.nd, h.ndSt⟩

theorem sccLoop_K (I : Interp E B G P A) (rules : List (Rule E B G P A))
    (hdyn : ∀ rule ∈ rules, ∀ h ∈ rule.heads, dynR.contains h.rel = true) (dl : Deadline) :
    ∀ (fuel : Nat) (rs rs' : RunSt), KInv p dynR st rs.st → NewEmpty rs.st →
      sccLoop I {} p dynR rules dl fuel rs = .done rs' → KInv p dynR st rs'.st ∧ Settled rs'.st := by
  intro fuel
  induction fuel with
  | zero => intro rs rs' _ _ h; simp [sccLoop] at h
  | succ fuel ih =>
    intro rs rs' hinv hn h
    have h1 : KInv p dynR st (evalRules I {} p dynR rules { rs.st with changed := false }) :=
      evalRules_K I rules hdyn _ (KInv_reset hinv hn)
    simp only [sccLoop] at h
    split at h
    · rename_i hch
      simp only [Outcome.done.injEq] at h
      subst h
      have hch' : (evalRules I {} p dynR rules { rs.st with changed := false }).changed = false := by
        simpa using hch
      exact ⟨KInv_shift h1, Settled_shift_of_newEmpty (h1.quiet hch')⟩
    · split at h
      · cases h
      · exact ih _ rs' (KInv_shift h1) (NewEmpty_shift _) h

theorem KInv_enter {t : St} (hlt : ∀ r, dynR.contains r = true → r < p.rels.length) (hp : KPInv p t) :
    KInv p dynR t (enterScc t dynR) ∧ NewEmpty (enterScc t dynR) := by
  have hne : NewEmpty (enterScc t dynR) := by
    intro r d hd
    rw [findDyn_enter] at hd
    cases hc : dynR.contains r with
    | false => rw [hc] at hd; cases hd
    | true => rw [hc] at hd; cases hd; rfl
  refine ⟨⟨⟨by rw [enterScc_rels]; exact hp.len, ?_, ?_, ?_, ?_⟩, hlt, ?_, fun _ => hne, ?_, ?_, hp.idxNd⟩, hne⟩
  · intro r
    rw [findDyn_enter]
    cases dynR.contains r <;> rfl
  · intro d hd
    simp only [enterScc, List.mem_map] at hd
    obtain ⟨x, hx, rfl⟩ := hd
    have := findDyn_enter t dynR x
    rw [List.contains_iff_mem.mpr hx] at this
    exact this
  · intro r d hd i
    rw [findDyn_enter] at hd
    cases hc : dynR.contains r with
    | false => rw [hc] at hd; cases hd
    | true =>
      rw [hc] at hd; cases hd
      simp only [rowsOf, enterScc_rels, List.not_mem_nil, false_or, or_false]
      exact hp.idxAll r i
  · intro r _ i
    simp only [rowsOf, enterScc_rels]
    exact hp.idxAll r i
  · intro r hl
    simp only [rowsOf, enterScc_rels]; exact hp.keys r hl
  · intro r _
    rw [enterScc_rels]
  · intro r d hd hl
    rw [findDyn_enter] at hd
    cases hc : dynR.contains r with
    | false => rw [hc] at hd; cases hd
    | true =>
      rw [hc] at hd; cases hd
      simpa using hp.idxNd r hl

theorem leave_K {s : SccSt} (hinv : KInv p dynR st s) (hs : Settled s) :
    KPInv p (leaveScc s) ∧ (∀ r, dynR.contains r = false → relSt (leaveScc s) r = relSt st r) := by
  have hwf := hinv.wf
  have hdlt : ∀ d ∈ s.dyn, d.rel < s.rels.length := by
    intro d hd
    rw [hwf.len]
    apply hinv.dlt
    rw [← hwf.dyn_iff, hwf.uniq d hd]; rfl
  have hrows : ∀ r, (relSt (leaveScc s) r).rows = rowsOf s r := fun r => by
    rw [leaveScc_eq]; exact leave_rows r s.dyn s.rels hdlt
  have hnd : ∀ r, Engine.findDyn s.dyn r = none → relSt (leaveScc s) r = relSt s.rels r := by
    intro r hd
    rw [leaveScc_eq]
    apply leave_untouched
    intro d hdm hrel
    have := List.find?_eq_none.mp hd d hdm
    simp [hrel] at this
  refine ⟨⟨?_, ?_, ?_, ?_⟩, ?_⟩
  · rw [leaveScc_eq, leave_length]; exact hwf.len
  · intro r hl
    rw [hrows]; exact hinv.keys r hl
  · intro r i
    cases hd : Engine.findDyn s.dyn r with
    | none =>
      rw [hnd r hd]; exact hwf.cover_nd r hd i
    | some d =>
      have hidx : (relSt (leaveScc s) r).idx = d.total := by
        rw [leaveScc_eq]
        apply leave_touched r d.total s.dyn s.rels hdlt
        · intro d' hd' hrel
          have := hwf.uniq d' hd'
          rw [hrel, hd] at this
          cases this; rfl
        · exact .inl ⟨d, findDyn_mem hd, findDyn_rel hd⟩
      rw [hrows, hidx, hwf.cover r d hd i]
      obtain ⟨h1, h2⟩ := hs r d hd
      rw [h1, h2]; simp
  · intro r hl
    cases hd : Engine.findDyn s.dyn r with
    | none =>
      rw [hnd r hd, hinv.keep r (Agg.not_dyn_of_findDyn_none hwf hd)]
      exact hinv.ndSt r hl
    | some d =>
      have hidx : (relSt (leaveScc s) r).idx = d.total := by
        rw [leaveScc_eq]
        apply leave_touched r d.total s.dyn s.rels hdlt
        · intro d' hd' hrel
          have := hwf.uniq d' hd'
          rw [hrel, hd] at this
          cases this; rfl
        · exact .inl ⟨d, findDyn_mem hd, findDyn_rel hd⟩
      rw [hidx]
      obtain ⟨h1, h2⟩ := hs r d hd
      have := hinv.nd r d hd hl
      rw [h1, h2] at this
      simpa using this
  · intro r hr
    rw [hnd r (hinv.dynNone hr)]
    exact hinv.keep r hr

end Inv

section Run
variable {I : Interp E B G P A} {p : Program E B G P A}

/-- **one SCC of an arbitrary program**: one row per lattice key and exact stored indices are kept;
relations that are not heads of the SCC keep rows and stored index -/
theorem runScc_K (hh : ∀ r ∈ p.rules, ∀ h ∈ r.heads, h.rel < p.rels.length)
    (dl : Deadline) (fuel : Nat) (scc : List Nat) (ps ps' : ProgSt)
    (hp : KPInv p ps.st) (h : runScc I {} p dl fuel scc ps = .done ps') :
    KPInv p ps'.st ∧ (∀ r, (dynRels p scc).contains r = false → relSt ps'.st r = relSt ps.st r) := by
  have hrules := sccRules_sub p scc
  have hdyn : ∀ rule ∈ sccRules p scc, ∀ h ∈ rule.heads, (dynRels p scc).contains h.rel = true :=
    fun rule hr h hhd => (dynRels_mem p scc h.rel).mpr ⟨rule, hr, h, hhd, rfl⟩
  have hlt : ∀ r, (dynRels p scc).contains r = true → r < p.rels.length := by
    intro r hr
    obtain ⟨rule, hrule, h, hhd, rfl⟩ := (dynRels_mem p scc r).mp hr
    exact hh rule (hrules rule hrule) h hhd
  obtain ⟨hinv0, hne0⟩ := KInv_enter (dynR := dynRels p scc) hlt hp
  simp only [runScc] at h
  split at h
  · split at h
    · rename_i rs hloop
      simp only [Outcome.done.injEq] at h
      subst h
      obtain ⟨hinv, hset⟩ := sccLoop_K I (sccRules p scc) hdyn dl fuel _ rs hinv0 hne0 hloop
      exact leave_K hinv hset
    · cases h
    · cases h
  · split at h
    · cases h
    · simp only [Outcome.done.injEq] at h
      subst h
      have h1 := evalRules_K I (sccRules p scc) hdyn _ hinv0
      exact leave_K (KInv_shift (KInv_shift h1)) (Settled_shift_of_newEmpty (NewEmpty_shift _))

theorem runSccs_K (hh : ∀ r ∈ p.rules, ∀ h ∈ r.heads, h.rel < p.rels.length)
    (dl : Deadline) (fuel : Nat) : ∀ (rest : SccOrder) (ps ps' : ProgSt),
    KPInv p ps.st → runSccs I {} p dl fuel rest ps = .done ps' →
    KPInv p ps'.st ∧ (∀ r, (∀ scc ∈ rest, (dynRels p scc).contains r = false) → relSt ps'.st r = relSt ps.st r) := by
  intro rest
  induction rest with
  | nil =>
    intro ps ps' hp h
    simp only [runSccs, Outcome.done.injEq] at h
    subst h
    exact ⟨hp, fun _ _ => rfl⟩
  | cons scc rest ih =>
    intro ps ps' hp h
    simp only [runSccs] at h
    split at h
    · rename_i ps1 hscc
      obtain ⟨hp1, hf1⟩ := runScc_K hh dl fuel scc ps ps1 hp hscc
      obtain ⟨hp2, hf2⟩ := ih ps1 ps' hp1 h
      refine ⟨hp2, ?_⟩
      intro r hr
      rw [hf2 r (fun s hs => hr s (List.mem_cons_of_mem _ hs))]
      exact hf1 r (hr scc (by simp))
    · rename_i hne
      cases hrun : runScc I {} p dl fuel scc ps with
      | done x => exact absurd hrun (hne x)
      | timedOut x => rw [hrun] at h; cases h
      | outOfFuel => rw [hrun] at h; cases h

/-- any well-formed start value with one row per lattice key, after `update_indices` -/
theorem KPInv_updateIndices (s : St) (hlen : s.length = p.rels.length)
    (hk : ∀ r, (declOf p r).lat = true → ((relSt s r).rows.map keyOf).Nodup) :
    KPInv p (updateIndices s) := by
  refine ⟨by simp [updateIndices, hlen], ?_, ?_, ?_⟩
  · intro r hl
    rw [relSt_updateIndices]; exact hk r hl
  · intro r i
    rw [relSt_updateIndices]
    simp only [List.mem_range]
  · intro r _
    rw [relSt_updateIndices]
    exact List.nodup_range

theorem KPInv_start (inp : RelId → List Tuple)
    (hi : ∀ r, r < p.rels.length → (declOf p r).lat = true → ((inp r).map keyOf).Nodup) :
    KPInv p (updateIndices (initSt p inp)) := by
  apply KPInv_updateIndices
  · simp [initSt]
  · intro r hl
    have hr := lat_lt p hl
    rw [rows_initSt p inp r hr]; exact hi r hr hl

end Run

end AscentVerif.Engine.ALSN
