import AscentVerif.Proofs.PhysLatEval
import AscentVerif.Proofs.PhysSim
import AscentVerif.Proofs.LatInv
/-!
# The simulation relation between the physical engine with lattices and the bag engine

`SimL p ix a x`: the abstract SCC state `a` (row vectors, bags of row numbers) and the physical one `x` (row vectors, hash
indices) hold the same rows, the same `changed` flag, the same dynamic relations in the same order, and every physical index
version holds exactly the entries of the rows numbered by the corresponding bag: `VerOk`-style for plain relations
(`POk` = `Phys.IxOk`), `LOk` for the indices of a lattice whose columns are key columns (an index over the value column —
never read under `latPlanOk` — is not constrained).
-/
namespace AscentVerif.PhysLat
open AscentVerif AscentVerif.Engine AscentVerif.Index AscentVerif.Phys

variable {E B G P A : Type}

/-! ## projections on key columns -/

theorem proj_congr_key {cols : List Nat} {t t' : Tuple} {n : Nat} (ht : t.length = n) (ht' : t'.length = n)
    (hk : t.dropLast = t'.dropLast) (hc : ∀ c ∈ cols, c < n - 1) : Plan.proj cols t = Plan.proj cols t' := by
  unfold Plan.proj
  apply List.map_congr_left
  intro c hcm
  have h1 : c < t.dropLast.length := by rw [List.length_dropLast, ht]; exact hc c hcm
  have h2 : c < t'.dropLast.length := by rw [List.length_dropLast, ht']; exact hc c hcm
  have e1 : t.getD c .unit = t.dropLast.getD c .unit := by
    simp only [List.getD_eq_getElem?_getD]
    rw [List.getElem?_eq_getElem h1, List.getElem_dropLast, List.getElem?_eq_getElem]
  have e2 : t'.getD c .unit = t'.dropLast.getD c .unit := by
    simp only [List.getD_eq_getElem?_getD]
    rw [List.getElem?_eq_getElem h2, List.getElem_dropLast, List.getElem?_eq_getElem]
  rw [e1, e2, hk]

theorem proj_keyCols {t : Tuple} {n : Nat} (ht : t.length = n) : Plan.proj (List.range (n - 1)) t = t.dropLast := by
  apply List.ext_getElem
  · simp [Plan.proj, ht]
  · intro j h1 h2
    have hj : j < t.length - 1 := by simpa using h2
    simp only [Plan.proj, List.getElem_map, List.getElem_range, List.getD_eq_getElem?_getD, List.getElem_dropLast]
    rw [List.getElem?_eq_getElem (by omega)]
    rfl

/-! ## the physical state accessors -/

theorem xrel_setNth_self (s : XSt) (r : RelId) (x : XRel) (h : r < s.length) : xrel (setNth s r x) r = x := by
  simp [xrel, setNth_eq_set, List.getD_eq_getElem?_getD, h]

theorem xrel_setNth_ne (s : XSt) (r r' : RelId) (x : XRel) (h : r' ≠ r) : xrel (setNth s r x) r' = xrel s r' := by
  simp [xrel, setNth_eq_set, List.getD_eq_getElem?_getD, List.getElem?_set_ne (Ne.symm h)]

theorem xrel_of_ge (s : XSt) (r : RelId) (h : s.length ≤ r) : xrel s r = ⟨[], [], []⟩ := by
  simp [xrel, List.getD_eq_getElem?_getD, List.getElem?_eq_none h]

theorem xrel_rangeMap (f : Nat → XRel) (m : Nat) (r : RelId) (hr : r < m) : xrel ((List.range m).map f) r = f r := by
  simp [xrel, List.getD_eq_getElem?_getD, List.getElem?_map, List.getElem?_range hr]

theorem xrel_rangeMap_ge (f : Nat → XRel) (m : Nat) (r : RelId) (hr : m ≤ r) :
    xrel ((List.range m).map f) r = ⟨[], [], []⟩ :=
  xrel_of_ge _ _ (by simpa using hr)

theorem findXDyn_cons (x : XDyn) (l : List XDyn) (r : RelId) :
    findXDyn (x :: l) r = if x.rel == r then some x else findXDyn l r := by
  simp only [findXDyn, List.find?_cons]
  cases x.rel == r <;> rfl

theorem isLat_of_ge (p : Program E B G P A) (r : RelId) (h : p.rels.length ≤ r) : isLatRel p r = false := by
  simp [isLatRel, declOf, List.getD_eq_getElem?_getD, List.getElem?_eq_none h]

/-! ## the simulation relation -/

/-- an index of a plain relation -/
def POk (rows : List Tuple) (bag cols : List Nat) : XIx → Prop
  | .vals m => IxOk rows bag cols m
  | _ => False

/-- one version of one index of relation `r` -/
def XOk (p : Program E B G P A) (r : RelId) (rows : List Tuple) (bag cols : List Nat) (x : XIx) : Prop :=
  (isLatRel p r = true → (∀ c ∈ cols, c < arityOf p r - 1) → LOk (keyCols p r) rows bag cols x) ∧
  (isLatRel p r = false → POk rows bag cols x)

/-- one version of all the indices of relation `r` -/
def XVerOk (p : Program E B G P A) (ix : IxSets) (r : RelId) (rows : List Tuple) (bag : List Nat) (full : FIx)
    (idxs : List (List Nat × XIx)) : Prop :=
  (isLatRel p r = false → FullOk rows bag full) ∧ idxs.map (·.1) = ixOf p ix r ∧
    ∀ ci ∈ idxs, XOk p r rows bag ci.1 ci.2

structure XTriOk (p : Program E B G P A) (ix : IxSets) (r : RelId) (rows : List Tuple) (d : Dyn) (full : Tri FIx)
    (idxs : List (List Nat × Tri XIx)) : Prop where
  ft : isLatRel p r = false → FullOk rows d.total full.total
  fd : isLatRel p r = false → FullOk rows d.delta full.delta
  fn : isLatRel p r = false → FullOk rows d.new full.new
  cols : idxs.map (·.1) = ixOf p ix r
  it : ∀ ci ∈ idxs, XOk p r rows d.total ci.1 ci.2.total
  id : ∀ ci ∈ idxs, XOk p r rows d.delta ci.1 ci.2.delta
  inw : ∀ ci ∈ idxs, XOk p r rows d.new ci.1 ci.2.new

theorem xverOk_map {p : Program E B G P A} {ix : IxSets} {r : RelId} {rows : List Tuple} {bag : List Nat} {full : FIx}
    {idxs : List (List Nat × Tri XIx)} (sel : Tri XIx → XIx) (hf : isLatRel p r = false → FullOk rows bag full)
    (hc : idxs.map (·.1) = ixOf p ix r) (hi : ∀ ci ∈ idxs, XOk p r rows bag ci.1 (sel ci.2)) :
    XVerOk p ix r rows bag full (idxs.map fun ci => (ci.1, sel ci.2)) := by
  refine ⟨hf, ?_, ?_⟩
  · rw [List.map_map, ← hc]; rfl
  · intro ci hci
    obtain ⟨c, hc', rfl⟩ := List.mem_map.mp hci
    exact hi c hc'

theorem XTriOk.verT {p : Program E B G P A} {ix : IxSets} {r : RelId} {rows : List Tuple} {d : Dyn} {full : Tri FIx}
    {idxs : List (List Nat × Tri XIx)} (h : XTriOk p ix r rows d full idxs) :
    XVerOk p ix r rows d.total full.total (idxs.map fun ci => (ci.1, ci.2.total)) :=
  xverOk_map (·.total) h.ft h.cols h.it

theorem XTriOk.verD {p : Program E B G P A} {ix : IxSets} {r : RelId} {rows : List Tuple} {d : Dyn} {full : Tri FIx}
    {idxs : List (List Nat × Tri XIx)} (h : XTriOk p ix r rows d full idxs) :
    XVerOk p ix r rows d.delta full.delta (idxs.map fun ci => (ci.1, ci.2.delta)) :=
  xverOk_map (·.delta) h.fd h.cols h.id

theorem XTriOk.verN {p : Program E B G P A} {ix : IxSets} {r : RelId} {rows : List Tuple} {d : Dyn} {full : Tri FIx}
    {idxs : List (List Nat × Tri XIx)} (h : XTriOk p ix r rows d full idxs) :
    XVerOk p ix r rows d.new full.new (idxs.map fun ci => (ci.1, ci.2.new)) :=
  xverOk_map (·.new) h.fn h.cols h.inw

structure XDynOk (p : Program E B G P A) (ix : IxSets) (rows : RelId → List Tuple) (d : Dyn) (pd : XDyn) : Prop where
  rel : pd.rel = d.rel
  tri : XTriOk p ix d.rel (rows d.rel) d pd.full pd.idxs

theorem XDynOk.congr {p : Program E B G P A} {ix : IxSets} {rows rows' : RelId → List Tuple} {d : Dyn} {pd : XDyn}
    (h : XDynOk p ix rows d pd) (he : rows' d.rel = rows d.rel) : XDynOk p ix rows' d pd :=
  ⟨h.rel, by rw [he]; exact h.tri⟩

theorem rel2_findX {p : Program E B G P A} {ix : IxSets} {rows : RelId → List Tuple} {l : List Dyn} {l' : List XDyn}
    (h : Rel2 (XDynOk p ix rows) l l') (r : RelId) :
    (findDyn l r = none ∧ findXDyn l' r = none) ∨
      ∃ d pd, findDyn l r = some d ∧ findXDyn l' r = some pd ∧ XDynOk p ix rows d pd := by
  induction h with
  | nil => exact .inl ⟨rfl, rfl⟩
  | @cons d pd l l' hab _ ih =>
    rw [findDyn_cons, findXDyn_cons, hab.rel]
    cases hr : d.rel == r with
    | true => exact .inr ⟨d, pd, rfl, rfl, hab⟩
    | false => exact ih

structure SimL (p : Program E B G P A) (ix : IxSets) (a : SccSt) (x : XScc) : Prop where
  len : a.rels.length = x.rels.length
  rows : ∀ r, (relSt a.rels r).rows = (xrel x.rels r).rows
  changed : a.changed = x.changed
  dyn : Rel2 (XDynOk p ix fun r => (relSt a.rels r).rows) a.dyn x.dyn
  nd : ∀ r, r < a.rels.length → findDyn a.dyn r = none →
    XVerOk p ix r (relSt a.rels r).rows (relSt a.rels r).idx (xrel x.rels r).full (xrel x.rels r).idxs
  typed : ∀ r, ∀ t ∈ (relSt a.rels r).rows, t.length = arityOf p r

structure SimStL (p : Program E B G P A) (ix : IxSets) (st : St) (xst : XSt) : Prop where
  len : st.length = xst.length
  rows : ∀ r, (relSt st r).rows = (xrel xst r).rows
  ok : ∀ r, r < st.length → XVerOk p ix r (relSt st r).rows (relSt st r).idx (xrel xst r).full (xrel xst r).idxs
  typed : ∀ r, ∀ t ∈ (relSt st r).rows, t.length = arityOf p r

/-! ## reading one version -/

def toP : XIx → PIx
  | .vals m => m
  | _ => []

theorem lookupX_some {idxs : List (List Nat × XIx)} {cols : List Nat} {ixr : List (List Nat)}
    (hm : idxs.map (·.1) = ixr) (hc : cols ∈ ixr) : ∃ ci ∈ idxs, ci.1 = cols ∧ lookupX idxs cols = some ci.2 := by
  unfold lookupX
  cases hf : idxs.find? (·.1 == cols) with
  | none =>
    rw [← hm, List.mem_map] at hc
    obtain ⟨ci, hci, e⟩ := hc
    have := List.find?_eq_none.mp hf ci hci
    simp [e] at this
  | some ci =>
    have h1 := List.mem_of_find?_eq_some hf
    have h2 := List.find?_some hf
    exact ⟨ci, h1, by simpa using h2, rfl⟩

theorem lookupIx_toP (idxs : List (List Nat × XIx)) (cols : List Nat) :
    lookupIx (idxs.map fun ci => (ci.1, toP ci.2)) cols = ((lookupX idxs cols).map toP).getD [] := by
  unfold lookupIx lookupX
  rw [List.find?_map]
  have : ((fun ci : List Nat × PIx => ci.1 == cols) ∘ fun ci : List Nat × XIx => (ci.1, toP ci.2)) =
      fun ci : List Nat × XIx => ci.1 == cols := rfl
  rw [this]
  cases idxs.find? (fun ci => ci.1 == cols) <;> rfl

theorem plain_reads (arity : Nat) (v : Ver1) (hv : ∀ ci ∈ v.idxs, ∃ m, ci.2 = .vals m) (cols : List Nat) :
    (∀ key, get1 false arity v cols key = Phys.get1 arity v.full (v.idxs.map fun ci => (ci.1, toP ci.2)) cols key) ∧
    all1 false arity v cols = Phys.all1 arity v.full (v.idxs.map fun ci => (ci.1, toP ci.2)) cols ∧
    len1 false arity v cols = Phys.len1 arity v.full (v.idxs.map fun ci => (ci.1, toP ci.2)) cols := by
  have hl := lookupIx_toP v.idxs cols
  have hx : ∀ x, lookupX v.idxs cols = some x → ∃ m, x = .vals m := by
    intro x hx
    unfold lookupX at hx
    cases hf : v.idxs.find? (·.1 == cols) with
    | none => rw [hf] at hx; cases hx
    | some ci =>
      rw [hf] at hx
      simp only [Option.map_some, Option.some.injEq] at hx
      subst hx
      exact hv ci (List.mem_of_find?_eq_some hf)
  refine ⟨?_, ?_, ?_⟩
  · intro key
    unfold get1 Phys.get1
    by_cases hc : (cols.length == arity) = true
    · simp [hc]
    · simp only [Bool.not_false, Bool.true_and, hc, Bool.false_eq_true, if_false, hl]
      cases hlx : lookupX v.idxs cols with
      | none => simp [Idx.get, HMap.get?_nil]
      | some x =>
        obtain ⟨m, rfl⟩ := hx x hlx
        simp [XIx.get, toP]
  · unfold all1 Phys.all1
    by_cases hc : (cols.length == arity) = true
    · simp [hc]
    · simp only [Bool.not_false, Bool.true_and, hc, Bool.false_eq_true, if_false, hl]
      cases hlx : lookupX v.idxs cols with
      | none => simp
      | some x =>
        obtain ⟨m, rfl⟩ := hx x hlx
        simp [XIx.all, toP]
  · unfold len1 Phys.len1
    by_cases hc : (cols.length == arity) = true
    · simp [hc]
    · simp only [Bool.not_false, Bool.true_and, hc, Bool.false_eq_true, if_false, hl]
      cases hlx : lookupX v.idxs cols with
      | none => simp
      | some x =>
        obtain ⟨m, rfl⟩ := hx x hlx
        simp [XIx.size, toP]

theorem cols_short {arity : Nat} {cols : List Nat} (hc : ColsOk arity cols) (ha : 0 < arity)
    (hl : ∀ c ∈ cols, c < arity - 1) : cols.length ≠ arity := by
  cases cols with
  | nil => simp; omega
  | cons c t =>
    have := increasing_bound t c (arity - 1) hc.1 hl
    simp only [List.length_cons]
    omega

/-- reading a version of the indices of a plain relation -/
theorem plain_spec (arity : Nat) (ixr : List (List Nat)) (rows : List Tuple) (bag : List Nat) (v1 : Ver1)
    (hvals : ∀ ci ∈ v1.idxs, ∃ m, ci.2 = .vals m)
    (hver : VerOk ixr rows bag v1.full (v1.idxs.map fun ci => (ci.1, toP ci.2))) (cols : List Nat)
    (hc : ColsOk arity cols) (hix : cols.length = arity ∨ cols ∈ ixr)
    (hty : ∀ i ∈ bag, (rowAt rows i).length = arity) :
    GSpec rows bag cols (get1 false arity v1 cols) (all1 false arity v1 cols) (len1 false arity v1 cols) := by
  obtain ⟨e1, e2, e3⟩ := plain_reads arity v1 hvals cols
  refine ⟨?_, ?_, ?_⟩
  · intro key t
    rw [e1 key]
    exact get1_spec arity cols key hver hc hix hty t
  · intro k t
    rw [e2]
    exact all1_spec arity cols hver hc hix hty k t
  · intro hz
    rw [e3] at hz
    exact (len1_eq_zero arity cols hver hix).mp hz

/-- what a clause sees of one version of the indices of relation `r` -/
theorem ver1_spec (p : Program E B G P A) (ix : IxSets) (r : RelId) (rows : List Tuple) (bag : List Nat) (v1 : Ver1)
    (hrows : v1.rows = rows) (hv : XVerOk p ix r rows bag v1.full v1.idxs) (cols : List Nat)
    (hc : ColsOk (arityOf p r) cols) (hix : cols.length = arityOf p r ∨ cols ∈ ixOf p ix r)
    (hlc : isLatRel p r = true → ∀ c ∈ cols, c < arityOf p r - 1)
    (hty : ∀ i ∈ bag, (rowAt rows i).length = arityOf p r) (har : isLatRel p r = true → 0 < arityOf p r) :
    GSpec rows bag cols (get1 (isLatRel p r) (arityOf p r) v1 cols) (all1 (isLatRel p r) (arityOf p r) v1 cols)
      (len1 (isLatRel p r) (arityOf p r) v1 cols) := by
  obtain ⟨hfull, hcols, hidx⟩ := hv
  cases hl : isLatRel p r with
  | false =>
    have hvals : ∀ ci ∈ v1.idxs, ∃ m, ci.2 = .vals m := by
      intro ci hci
      have := (hidx ci hci).2 hl
      cases hx : ci.2 with
      | vals m => exact ⟨m, rfl⟩
      | rows m => rw [hx] at this; exact absurd this id
      | key m => rw [hx] at this; exact absurd this id
    have hver : VerOk (ixOf p ix r) rows bag v1.full (v1.idxs.map fun ci => (ci.1, toP ci.2)) := by
      refine ⟨hfull hl, ?_, ?_⟩
      · rw [List.map_map, ← hcols]; rfl
      · intro ci hci
        obtain ⟨c, hc', rfl⟩ := List.mem_map.mp hci
        have := (hidx c hc').2 hl
        obtain ⟨m, hm⟩ := hvals c hc'
        rw [hm] at this
        simp only [hm, toP]
        exact this
    exact plain_spec (arityOf p r) _ rows bag v1 hvals hver cols hc hix hty
  | true =>
    have hne := cols_short hc (har hl) (hlc hl)
    obtain ⟨ci, hci, hc1, hlook⟩ := lookupX_some hcols (hix.resolve_left hne)
    have hok : LOk (keyCols p r) rows bag cols ci.2 := by
      have := (hidx ci hci).1 hl (by rw [hc1]; exact hlc hl)
      rw [hc1] at this
      exact this
    refine ⟨?_, ?_, ?_⟩
    · intro key t
      simp only [get1, Bool.not_true, Bool.false_and, Bool.false_eq_true, if_false, hlook, hrows]
      exact XIx_get_spec hok _ key t
    · intro k t
      simp only [all1, Bool.not_true, Bool.false_and, Bool.false_eq_true, if_false, hlook, hrows]
      exact XIx_all_spec hok _ k t
    · intro hz
      simp only [len1, Bool.not_true, Bool.false_and, Bool.false_eq_true, if_false, hlook] at hz
      exact XIx_size_spec hok hz

/-! ## the simulation relation gives the evaluation its interface -/

theorem sim_viewsOkL (p : Program E B G P A) (ix : IxSets) {dynR : List RelId} {a : SccSt} {x : XScc}
    (hsim : SimL p ix a x) (hwf : WF p.rels.length dynR a) (har : ∀ r, isLatRel p r = true → 0 < arityOf p r) :
    ViewsOkL p (fun r => ixOf p ix r) a x := by
  intro r v cols hc hix hlc
  have hty : ∀ i, i < (relSt a.rels r).rows.length → (rowAt (relSt a.rels r).rows i).length = arityOf p r :=
    fun i hi => hsim.typed r _ (rowAt_mem _ i hi)
  rcases rel2_findX hsim.dyn r with ⟨h1, h2⟩ | ⟨d, pd, h1, h2, hok⟩
  · have hview : viewOf x r v = .one ⟨(xrel x.rels r).rows, (xrel x.rels r).full, (xrel x.rels r).idxs⟩ := by
      simp only [viewOf, h2]
    rw [hview]
    by_cases hr : r < a.rels.length
    · exact (ver1_spec p ix r _ (relSt a.rels r).idx _ (hsim.rows r).symm (hsim.nd r hr h1) cols hc hix hlc
        (fun i hi => hty i ((hwf.cover_nd r h1 i).mpr hi)) (har r)).congr_bag
        (fun i => mem_clauseRows_none' {} p v h1 i)
    · have hr' : a.rels.length ≤ r := Nat.le_of_not_lt hr
      have hrp : p.rels.length ≤ r := by rw [← hwf.len]; exact hr'
      have harz : arityOf p r = 0 := arityOf_of_ge p r hrp
      have hlat : isLatRel p r = false := isLat_of_ge p r hrp
      have hcols : cols = [] := by
        cases cols with
        | nil => rfl
        | cons j t => have := hc.2 j (by simp); omega
      have hx : xrel x.rels r = ⟨[], [], []⟩ := xrel_of_ge _ _ (by rw [← hsim.len]; exact hr')
      have ha : relSt a.rels r = ⟨[], []⟩ := relSt_of_ge _ _ hr'
      rw [hx, ha, hlat]
      refine (plain_spec (arityOf p r) [] [] [] ⟨[], [], []⟩ (by intro ci hci; cases hci)
        ⟨FullOk_nil [], rfl, by intro ci hci; cases hci⟩ cols hc (.inl (by rw [hcols, harz]; rfl))
        (by intro i hi; cases hi)).congr_bag ?_
      intro i
      rw [mem_clauseRows_none' {} p v h1 i, ha]
  · have hrel : d.rel = r := findDyn_rel h1
    have tri : XTriOk p ix r (relSt a.rels r).rows d pd.full pd.idxs := by
      have := hok.tri; rw [hrel] at this; exact this
    have hbT : ∀ i ∈ d.total, (rowAt (relSt a.rels r).rows i).length = arityOf p r :=
      fun i hi => hty i ((hwf.cover r d h1 i).mpr (.inl hi))
    have hbD : ∀ i ∈ d.delta, (rowAt (relSt a.rels r).rows i).length = arityOf p r :=
      fun i hi => hty i ((hwf.cover r d h1 i).mpr (.inr (.inl hi)))
    have hxr : (xrel x.rels r).rows = (relSt a.rels r).rows := (hsim.rows r).symm
    have specT := ver1_spec p ix r (relSt a.rels r).rows d.total
      ⟨(xrel x.rels r).rows, pd.full.total, pd.idxs.map fun ci => (ci.1, ci.2.total)⟩ hxr tri.verT cols hc hix hlc hbT (har r)
    have specD := ver1_spec p ix r (relSt a.rels r).rows d.delta
      ⟨(xrel x.rels r).rows, pd.full.delta, pd.idxs.map fun ci => (ci.1, ci.2.delta)⟩ hxr tri.verD cols hc hix hlc hbD (har r)
    have hmem := mem_clauseRows_some' {} p v h1
    cases v with
    | none =>
      have hview : viewOf x r none = .one ⟨(xrel x.rels r).rows, pd.full.total, pd.idxs.map fun ci => (ci.1, ci.2.total)⟩ := by
        simp only [viewOf, h2]
      rw [hview]; exact specT.congr_bag hmem
    | some v =>
      cases v with
      | total =>
        have hview : viewOf x r (some .total) =
            .one ⟨(xrel x.rels r).rows, pd.full.total, pd.idxs.map fun ci => (ci.1, ci.2.total)⟩ := by
          simp only [viewOf, h2]
        rw [hview]; exact specT.congr_bag hmem
      | delta =>
        have hview : viewOf x r (some .delta) =
            .one ⟨(xrel x.rels r).rows, pd.full.delta, pd.idxs.map fun ci => (ci.1, ci.2.delta)⟩ := by
          simp only [viewOf, h2]
        rw [hview]; exact specD.congr_bag hmem
      | totalDelta =>
        have hview : viewOf x r (some .totalDelta) =
            .two ⟨(xrel x.rels r).rows, pd.full.total, pd.idxs.map fun ci => (ci.1, ci.2.total)⟩
              ⟨(xrel x.rels r).rows, pd.full.delta, pd.idxs.map fun ci => (ci.1, ci.2.delta)⟩ := by
          simp only [viewOf, h2]
        rw [hview]; exact specT.append specD hmem

/-! ## replacing the row vector and the dynamic part of one relation -/

def updX (x : XScc) (r : RelId) (pd' : XDyn) (rows' : List Tuple) : XScc :=
  { rels := setNth x.rels r { xrel x.rels r with rows := rows' }, dyn := setXDyn x.dyn pd', changed := true }

theorem upd_simL {p : Program E B G P A} {ix : IxSets} {a : SccSt} {x : XScc} (hsim : SimL p ix a x) {r : RelId} {d : Dyn}
    (hd : findDyn a.dyn r = some d) (hr : r < a.rels.length) (d' : Dyn) (hrel : d'.rel = r) (pd' : XDyn)
    (hprel : pd'.rel = r) (rows' : List Tuple) (htri : XTriOk p ix r rows' d' pd'.full pd'.idxs)
    (htyped : ∀ t ∈ rows', t.length = arityOf p r) : SimL p ix (upd a r d' rows') (updX x r pd' rows') := by
  have hrp : r < x.rels.length := by rw [← hsim.len]; exact hr
  have hrows_self : (relSt (upd a r d' rows').rels r).rows = rows' := upd_rows_self hr
  have hrows_ne : ∀ r', r' ≠ r → relSt (upd a r d' rows').rels r' = relSt a.rels r' := fun r' hne => upd_relSt_ne hne
  have hxrows_ne : ∀ r', r' ≠ r → xrel (updX x r pd' rows').rels r' = xrel x.rels r' := by
    intro r' hne; simp [updX, xrel_setNth_ne _ _ _ _ hne]
  refine ⟨?_, ?_, rfl, ?_, ?_, ?_⟩
  · simp [upd, updX, hsim.len]
  · intro r'
    by_cases hne : r' = r
    · subst hne
      rw [hrows_self]
      simp [updX, xrel_setNth_self _ _ _ hrp]
    · rw [hrows_ne r' hne, hxrows_ne r' hne]; exact hsim.rows r'
  · show Rel2 _ (setDyn a.dyn d') (setXDyn x.dyn pd')
    rw [setDyn_eq_map]
    unfold setXDyn
    refine Rel2.map _ _ ?_ hsim.dyn
    intro y py hy
    have hyr : py.rel = y.rel := hy.rel
    by_cases hc : y.rel = r
    · have h1 : (y.rel == d'.rel) = true := by simp [hc, hrel]
      have h2 : (py.rel == pd'.rel) = true := by simp [hyr, hc, hprel]
      simp only [h1, h2, if_true]
      refine ⟨by rw [hprel, hrel], ?_⟩
      rw [hrel, hrows_self]
      exact htri
    · have h1 : (y.rel == d'.rel) = false := by simp [hc, hrel]
      have h2 : (py.rel == pd'.rel) = false := by simp [hyr, hc, hprel]
      simp only [h1, h2, Bool.false_eq_true, if_false]
      exact hy.congr (by show (relSt (upd a r d' rows').rels y.rel).rows = _; rw [hrows_ne _ hc])
  · intro r' hr' hnd
    have hne : r' ≠ r := by
      intro h; subst h
      rw [upd_dyn_self hd hrel] at hnd; cases hnd
    have hnd0 : findDyn a.dyn r' = none := by rw [← upd_dyn_ne hrel hne]; exact hnd
    rw [hrows_ne r' hne, hxrows_ne r' hne]
    exact hsim.nd r' (by simpa [upd] using hr') hnd0
  · intro r' t ht
    by_cases hne : r' = r
    · subst hne
      rw [hrows_self] at ht
      exact htyped t ht
    · rw [hrows_ne r' hne] at ht; exact hsim.typed r' t ht

/-! ## the lattice head update -/

theorem XOk_lat_congr {p : Program E B G P A} {r : RelId} {rows rows' : List Tuple} {bag bag' cols : List Nat} {x : XIx}
    (hlat : isLatRel p r = true) (h : XOk p r rows bag cols x) (hb : ∀ i, i ∈ bag' ↔ i ∈ bag)
    (hr : (∀ c ∈ cols, c < arityOf p r - 1) →
      ∀ i ∈ bag, Plan.proj cols (rowAt rows' i) = Plan.proj cols (rowAt rows i)) : XOk p r rows' bag' cols x :=
  ⟨fun _ hc => LOk_congr (h.1 hlat hc) hb (hr hc), fun hf => by rw [hlat] at hf; cases hf⟩

theorem XOk_lat_insert {p : Program E B G P A} {r : RelId} {rows : List Tuple} {bag bag' cols : List Nat} {x : XIx}
    (hlat : isLatRel p r = true) (row : Tuple) (i : Nat) (h : XOk p r rows bag cols x)
    (hrow : (∀ c ∈ cols, c < arityOf p r - 1) → Plan.proj cols (rowAt rows i) = Plan.proj cols row)
    (hb : ∀ j, j ∈ bag' ↔ j ∈ bag ∨ j = i)
    (hu : cols = keyCols p r → ∀ j ∈ bag, Plan.proj cols (rowAt rows j) = Plan.proj cols row → j = i) :
    XOk p r rows bag' cols (x.insert cols row i) :=
  ⟨fun _ hc => LOk_insert row i (h.1 hlat hc) (hrow hc) hb hu, fun hf => by rw [hlat] at hf; cases hf⟩

theorem keyGet_eq_findKey {kc : List Nat} {rows : List Tuple} {bag : List Nat} {x : XIx} (h : LOk kc rows bag kc x)
    (hproj : ∀ i ∈ bag, Plan.proj kc (rowAt rows i) = keyOf (rowAt rows i))
    (hu : ∀ i ∈ bag, ∀ j ∈ bag, keyOf (rowAt rows i) = keyOf (rowAt rows j) → i = j) (key : Tuple) :
    keyGet x key = findKey rows bag key := by
  obtain ⟨hw, hh⟩ := h
  cases x with
  | vals m => exact absurd hw id
  | rows m => exact absurd rfl hw.1
  | key m =>
    have hh' : ∀ k i, HMap.get? m k = some i ↔ i ∈ bag ∧ Plan.proj kc (rowAt rows i) = k := hh
    show HMap.get? m key = findKey rows bag key
    cases hg : HMap.get? m key with
    | none =>
      cases hf : findKey rows bag key with
      | none => rfl
      | some j =>
        obtain ⟨hj, hk⟩ := findKey_some hf
        have := (hh' key j).mpr ⟨hj, by rw [hproj j hj]; exact hk⟩
        rw [hg] at this; cases this
    | some i =>
      obtain ⟨hi, hk⟩ := (hh' key i).mp hg
      rw [hproj i hi] at hk
      cases hf : findKey rows bag key with
      | none => exact absurd hk (findKey_none hf i hi)
      | some j =>
        obtain ⟨hj, hk'⟩ := findKey_some hf
        rw [hu i hi j hj (hk.trans hk'.symm)]

theorem physHeadLat_eq (I : Interp E B G P A) (p : Program E B G P A) (s : XScc) (r : RelId) (row : Tuple) :
    headLat I p s r row =
      match findXDyn s.dyn r with
      | none => s
      | some d =>
        match lookupX (d.idxs.map fun ci => (ci.1, ci.2.new)) (keyCols p r),
              lookupX (d.idxs.map fun ci => (ci.1, ci.2.delta)) (keyCols p r),
              lookupX (d.idxs.map fun ci => (ci.1, ci.2.total)) (keyCols p r) with
        | some kn, some kd, some kt =>
          match (keyGet kn row.dropLast).orElse fun _ => (keyGet kd row.dropLast).orElse fun _ => keyGet kt row.dropLast with
          | some i =>
            if (I.joinMut r ((rowAt (xrel s.rels r).rows i).getLastD .unit) (row.getLastD .unit)).2 then
              updX s r { d with idxs := d.idxs.map fun ci => (ci.1, { ci.2 with new := ci.2.new.insert ci.1 row i }) }
                (setNth (xrel s.rels r).rows i ((rowAt (xrel s.rels r).rows i).dropLast ++
                  [(I.joinMut r ((rowAt (xrel s.rels r).rows i).getLastD .unit) (row.getLastD .unit)).1]))
            else s
          | none =>
            updX s r { d with idxs := d.idxs.map fun ci =>
                (ci.1, { ci.2 with new := ci.2.new.insert ci.1 row (xrel s.rels r).rows.length }) }
              ((xrel s.rels r).rows ++ [row])
        | _, _, _ => s := by
  unfold headLat
  cases findXDyn s.dyn r <;> rfl

theorem proj_joinRows {rows : List Tuple} {i n : Nat} {cols : List Nat} (x : Val) (hi : i < rows.length)
    (hty : (rowAt rows i).length = n) (hn : 0 < n) (hc : ∀ c ∈ cols, c < n - 1) (j : Nat) :
    Plan.proj cols (rowAt (joinRows rows i x) j) = Plan.proj cols (rowAt rows j) := by
  by_cases hji : j = i
  · subst hji
    rw [joinRows_at_self x hi]
    apply proj_congr_key (n := n) _ hty _ hc
    · simp [keyOf, hty]; omega
    · show keyOf (keyOf (rowAt rows j) ++ [x]) = keyOf (rowAt rows j)
      rw [keyOf_snoc]
  · rw [joinRows_at_ne x hji]

theorem headLat_simL (I : Interp E B G P A) {p : Program E B G P A} {ix : IxSets} {dynR : List RelId} {a : SccSt}
    {x : XScc} (hsim : SimL p ix a x) (hwf : WF p.rels.length dynR a)
    (hlt : ∀ r, dynR.contains r = true → r < p.rels.length) (r : RelId) (row : Tuple)
    (hlat : isLatRel p r = true) (har : 0 < arityOf p r) (hlen : row.length = arityOf p r)
    (hkeys : ((rowsOf a r).map keyOf).Nodup) :
    SimL p ix (Engine.headLat I {} a r row) (headLat I p x r row) := by
  rw [headLat_eq, physHeadLat_eq]
  rcases rel2_findX hsim.dyn r with ⟨h1, h2⟩ | ⟨d, pd, h1, h2, hok⟩
  · rw [h1, h2]; exact hsim
  · rw [h1, h2]
    have hrel : d.rel = r := findDyn_rel h1
    have hprel : pd.rel = r := by rw [hok.rel, hrel]
    have hr : r < a.rels.length := by
      rw [hwf.len]; apply hlt
      rw [← hwf.dyn_iff, h1]; rfl
    have tri : XTriOk p ix r (rowsOf a r) d pd.full pd.idxs := by
      have := hok.tri; rw [hrel] at this; exact this
    have hxr : (xrel x.rels r).rows = rowsOf a r := (hsim.rows r).symm
    have hcov := hwf.cover r d h1
    have hty : ∀ i, i < (rowsOf a r).length → (rowAt (rowsOf a r) i).length = arityOf p r :=
      fun i hi => hsim.typed r _ (rowAt_mem _ i hi)
    have hproj : ∀ i, i < (rowsOf a r).length → Plan.proj (keyCols p r) (rowAt (rowsOf a r) i) = keyOf (rowAt (rowsOf a r) i) :=
      fun i hi => proj_keyCols (hty i hi)
    have hu : ∀ i j, i < (rowsOf a r).length → j < (rowsOf a r).length →
        keyOf (rowAt (rowsOf a r) i) = keyOf (rowAt (rowsOf a r) j) → i = j := fun i j hi hj h => idx_of_key hkeys hi hj h
    have hprow : Plan.proj (keyCols p r) row = keyOf row := proj_keyCols hlen
    have hkc : keyCols p r ∈ ixOf p ix r := by simp [ixOf, hlat]
    have hkcs : ∀ c ∈ keyCols p r, c < arityOf p r - 1 := fun c hc => List.mem_range.mp hc
    have hnoF : ∀ {α : Prop}, isLatRel p r = false → α := fun hf => by rw [hlat] at hf; cases hf
    -- the three key indices
    obtain ⟨cn, hcn, hcn1, hln⟩ := lookupX_some tri.verN.2.1 hkc
    obtain ⟨cd, hcd, hcd1, hld⟩ := lookupX_some tri.verD.2.1 hkc
    obtain ⟨ct, hct, hct1, hlt'⟩ := lookupX_some tri.verT.2.1 hkc
    have okn : LOk (keyCols p r) (rowsOf a r) d.new (keyCols p r) cn.2 := by
      have := (tri.verN.2.2 cn hcn).1 hlat (by rw [hcn1]; exact hkcs)
      rw [hcn1] at this; exact this
    have okd : LOk (keyCols p r) (rowsOf a r) d.delta (keyCols p r) cd.2 := by
      have := (tri.verD.2.2 cd hcd).1 hlat (by rw [hcd1]; exact hkcs)
      rw [hcd1] at this; exact this
    have okt : LOk (keyCols p r) (rowsOf a r) d.total (keyCols p r) ct.2 := by
      have := (tri.verT.2.2 ct hct).1 hlat (by rw [hct1]; exact hkcs)
      rw [hct1] at this; exact this
    have bN : ∀ i ∈ d.new, i < (rowsOf a r).length := fun i hi => (hcov i).mpr (.inr (.inr hi))
    have bD : ∀ i ∈ d.delta, i < (rowsOf a r).length := fun i hi => (hcov i).mpr (.inr (.inl hi))
    have bT : ∀ i ∈ d.total, i < (rowsOf a r).length := fun i hi => (hcov i).mpr (.inl hi)
    have en := keyGet_eq_findKey okn (fun i hi => hproj i (bN i hi)) (fun i hi j hj => hu i j (bN i hi) (bN j hj)) row.dropLast
    have ed := keyGet_eq_findKey okd (fun i hi => hproj i (bD i hi)) (fun i hi j hj => hu i j (bD i hi) (bD j hj)) row.dropLast
    have et := keyGet_eq_findKey okt (fun i hi => hproj i (bT i hi)) (fun i hi j hj => hu i j (bT i hi) (bT j hj)) row.dropLast
    simp only []
    rw [hln, hld, hlt']
    simp only []
    rw [en, ed, et, hxr]
    have hkr : ((findKey (rowsOf a r) d.new row.dropLast).orElse fun _ =>
        (findKey (rowsOf a r) d.delta row.dropLast).orElse fun _ => findKey (rowsOf a r) d.total row.dropLast) =
        keyRow (rowsOf a r) d (keyOf row) := rfl
    rw [hkr]
    have hcolsmap : ∀ f : List Nat × Tri XIx → Tri XIx, (pd.idxs.map fun ci => (ci.1, f ci)).map (·.1) = ixOf p ix r := by
      intro f
      rw [List.map_map, ← tri.cols]; rfl
    cases hk : keyRow (rowsOf a r) d (keyOf row) with
    | none =>
      simp only []
      have hfresh := keyRow_fresh hcov hk
      rw [pushRow_eq_upd]
      refine upd_simL hsim h1 hr { d with new := d.new ++ [(rowsOf a r).length] } hrel
        { pd with idxs := pd.idxs.map fun ci =>
            (ci.1, { ci.2 with new := ci.2.new.insert ci.1 row (rowsOf a r).length }) } hprel
        (rowsOf a r ++ [row]) ?_ ?_
      · refine ⟨hnoF, hnoF, hnoF,
          hcolsmap fun ci => { ci.2 with new := ci.2.new.insert ci.1 row (rowsOf a r).length }, ?_, ?_, ?_⟩
        · intro ci hci
          obtain ⟨c, hc, rfl⟩ := List.mem_map.mp hci
          exact XOk_lat_congr hlat (tri.it c hc) (fun _ => Iff.rfl)
            (fun _ i hi => by rw [rowAt_append_left _ _ _ (bT i hi)])
        · intro ci hci
          obtain ⟨c, hc, rfl⟩ := List.mem_map.mp hci
          exact XOk_lat_congr hlat (tri.id c hc) (fun _ => Iff.rfl)
            (fun _ i hi => by rw [rowAt_append_left _ _ _ (bD i hi)])
        · intro ci hci
          obtain ⟨c, hc, rfl⟩ := List.mem_map.mp hci
          have h0 : XOk p r (rowsOf a r ++ [row]) d.new c.1 c.2.new :=
            XOk_lat_congr hlat (tri.inw c hc) (fun _ => Iff.rfl)
              (fun _ i hi => by rw [rowAt_append_left _ _ _ (bN i hi)])
          apply XOk_lat_insert hlat row (rowsOf a r).length h0
          · intro _; rw [rowAt_length_append]
          · intro j; simp
          · intro hc1 j hj hp
            exfalso
            rw [rowAt_append_left _ _ _ (bN j hj), hc1, hproj j (bN j hj), hprow] at hp
            exact hfresh _ (rowAt_mem _ j (bN j hj)) hp
      · intro t ht
        rcases List.mem_append.mp ht with ht | ht
        · exact hsim.typed r t ht
        · simp only [List.mem_singleton] at ht; rw [ht]; exact hlen
    | some i =>
      obtain ⟨hi, hkey⟩ := keyRow_found hcov hk
      simp only []
      by_cases hj : (I.joinMut r (valOf (rowAt (rowsOf a r) i)) (valOf row)).2 = true
      · have hj' : (I.joinMut r ((rowAt (rowsOf a r) i).getLastD Val.unit) (row.getLastD Val.unit)).2 = true := hj
        rw [if_pos hj, if_pos hj', joinSt_eq_upd hwf h1]
        have hrel' : (requeue d i).rel = r := by rw [requeue_rel]; exact hrel
        have hpj : ∀ cols : List Nat, (∀ c ∈ cols, c < arityOf p r - 1) → ∀ j,
            Plan.proj cols (rowAt (joinRows (rowsOf a r) i (I.joinMut r (valOf (rowAt (rowsOf a r) i)) (valOf row)).1) j) =
              Plan.proj cols (rowAt (rowsOf a r) j) :=
          fun cols hc j => proj_joinRows _ hi (hty i hi) har hc j
        refine upd_simL hsim h1 hr (requeue d i) hrel'
          { pd with idxs := pd.idxs.map fun ci => (ci.1, { ci.2 with new := ci.2.new.insert ci.1 row i }) } hprel
          (joinRows (rowsOf a r) i (I.joinMut r (valOf (rowAt (rowsOf a r) i)) (valOf row)).1) ?_ ?_
        · refine ⟨hnoF, hnoF, hnoF, hcolsmap fun ci => { ci.2 with new := ci.2.new.insert ci.1 row i }, ?_, ?_, ?_⟩
          · intro ci hci
            obtain ⟨c, hc, rfl⟩ := List.mem_map.mp hci
            exact XOk_lat_congr hlat (tri.it c hc) (fun j => by rw [requeue_total]) (fun hcl j _ => hpj _ hcl j)
          · intro ci hci
            obtain ⟨c, hc, rfl⟩ := List.mem_map.mp hci
            exact XOk_lat_congr hlat (tri.id c hc) (fun j => by rw [requeue_delta]) (fun hcl j _ => hpj _ hcl j)
          · intro ci hci
            obtain ⟨c, hc, rfl⟩ := List.mem_map.mp hci
            have h0 : XOk p r (joinRows (rowsOf a r) i (I.joinMut r (valOf (rowAt (rowsOf a r) i)) (valOf row)).1)
                d.new c.1 c.2.new :=
              XOk_lat_congr hlat (tri.inw c hc) (fun _ => Iff.rfl) (fun hcl j _ => hpj _ hcl j)
            apply XOk_lat_insert hlat row i h0
            · intro hcl
              rw [hpj _ hcl i]
              exact proj_congr_key (hty i hi) hlen hkey hcl
            · intro j; exact mem_requeue_new d i j
            · intro hc1 j hj2 hp
              rw [hpj _ (by rw [hc1]; exact hkcs) j, hc1, hproj j (bN j hj2), hprow] at hp
              exact hu j i (bN j hj2) hi (hp.trans hkey.symm)
        · intro t ht
          rcases mem_setNth _ _ _ _ ht with ht | ht
          · subst ht
            have := hty i hi
            simp [keyOf, this]; omega
          · exact hsim.typed r t ht
      · have hj' : ¬ (I.joinMut r ((rowAt (rowsOf a r) i).getLastD Val.unit) (row.getLastD Val.unit)).2 = true := hj
        rw [if_neg hj, if_neg hj']
        exact hsim

/-! ## the head update of a plain relation -/

theorem POk_rows_append {rows : List Tuple} {bag cols : List Nat} {x : XIx} (t : Tuple) (h : POk rows bag cols x)
    (hb : ∀ i ∈ bag, i < rows.length) : POk (rows ++ [t]) bag cols x := by
  cases x with
  | vals m => exact IxOk_rows_append t h hb
  | rows m => exact absurd h id
  | key m => exact absurd h id

theorem POk_insert {rows : List Tuple} {bag cols : List Nat} {x : XIx} (t : Tuple) (h : POk rows bag cols x)
    (hb : ∀ i ∈ bag, i < rows.length) : POk (rows ++ [t]) (bag ++ [rows.length]) cols (x.insert cols t rows.length) := by
  cases x with
  | vals m => exact IxOk_insert t h hb
  | rows m => exact absurd h id
  | key m => exact absurd h id

theorem XOk_plain {p : Program E B G P A} {r : RelId} {rows : List Tuple} {bag cols : List Nat} {x : XIx}
    (hlat : isLatRel p r = false) (h : POk rows bag cols x) : XOk p r rows bag cols x :=
  ⟨fun ht => (by rw [hlat] at ht; cases ht), fun _ => h⟩

theorem physHeadRelX_eq (s : XScc) (r : RelId) (row : Tuple) :
    headRel s r row =
      match findXDyn s.dyn r with
      | none => s
      | some d =>
        if FullIdx.containsKey d.full.total row || FullIdx.containsKey d.full.delta row then s
        else if !(FullIdx.insertIfNotPresent d.full.new row ()).2 then s
        else updX s r { d with
            full := { d.full with new := (FullIdx.insertIfNotPresent d.full.new row ()).1 }
            idxs := d.idxs.map fun ci =>
              (ci.1, { ci.2 with new := ci.2.new.insert ci.1 row (xrel s.rels r).rows.length }) }
          ((xrel s.rels r).rows ++ [row]) := by
  unfold headRel
  cases findXDyn s.dyn r <;> rfl

theorem headRel_simL {p : Program E B G P A} {ix : IxSets} {dynR : List RelId} {a : SccSt} {x : XScc}
    (hsim : SimL p ix a x) (hwf : WF p.rels.length dynR a) (hlt : ∀ r, dynR.contains r = true → r < p.rels.length)
    (r : RelId) (row : Tuple) (hlat : isLatRel p r = false) (hlen : row.length = arityOf p r) :
    SimL p ix (Engine.headRel a r row) (headRel x r row) := by
  rw [headRel_eq, physHeadRelX_eq]
  rcases rel2_findX hsim.dyn r with ⟨h1, h2⟩ | ⟨d, pd, h1, h2, hok⟩
  · rw [h1, h2]; exact hsim
  · rw [h1, h2]
    have hrel : d.rel = r := findDyn_rel h1
    have hprel : pd.rel = r := by rw [hok.rel, hrel]
    have hr : r < a.rels.length := by
      rw [hwf.len]; apply hlt
      rw [← hwf.dyn_iff, h1]; rfl
    have tri : XTriOk p ix r (rowsOf a r) d pd.full pd.idxs := by
      have := hok.tri; rw [hrel] at this; exact this
    have hxr : (xrel x.rels r).rows = rowsOf a r := (hsim.rows r).symm
    have hcov := hwf.cover r d h1
    have bN : ∀ i ∈ d.new, i < (rowsOf a r).length := fun i hi => (hcov i).mpr (.inr (.inr hi))
    have bD : ∀ i ∈ d.delta, i < (rowsOf a r).length := fun i hi => (hcov i).mpr (.inr (.inl hi))
    have bT : ∀ i ∈ d.total, i < (rowsOf a r).length := fun i hi => (hcov i).mpr (.inl hi)
    have eT := contains_eq_of_fullOk (tri.ft hlat) row
    have eD := contains_eq_of_fullOk (tri.fd hlat) row
    have eN := contains_eq_of_fullOk (tri.fn hlat) row
    simp only []
    rw [← eT, ← eD, ← eN, hxr]
    by_cases h12 : (FullIdx.containsKey pd.full.total row || FullIdx.containsKey pd.full.delta row) = true
    · rw [if_pos h12, if_pos (by rw [h12]; rfl)]; exact hsim
    · rw [if_neg h12]
      have h12' : (FullIdx.containsKey pd.full.total row || FullIdx.containsKey pd.full.delta row) = false := by
        simpa using h12
      by_cases hN : FullIdx.containsKey pd.full.new row = true
      · rw [if_pos (by rw [hN]; simp), insertIfNotPresent_present hN]
        exact hsim
      · have hN' : FullIdx.containsKey pd.full.new row = false := by simpa using hN
        obtain ⟨hi2, hfull⟩ := FullOk_insertIfNotPresent row (tri.fn hlat) bN hN'
        rw [if_neg (by rw [h12', hN']; simp), hi2]
        simp only [Bool.not_true, Bool.false_eq_true, if_false]
        rw [pushRow_eq_upd]
        refine upd_simL hsim h1 hr { d with new := d.new ++ [(rowsOf a r).length] } hrel
          { pd with
            full := { pd.full with new := (FullIdx.insertIfNotPresent pd.full.new row ()).1 }
            idxs := pd.idxs.map fun ci =>
              (ci.1, { ci.2 with new := ci.2.new.insert ci.1 row (rowsOf a r).length }) } hprel
          (rowsOf a r ++ [row]) ?_ ?_
        · refine ⟨fun _ => FullOk_rows_append row (tri.ft hlat) bT, fun _ => FullOk_rows_append row (tri.fd hlat) bD,
            fun _ => hfull, ?_, ?_, ?_, ?_⟩
          · show (pd.idxs.map fun ci : List Nat × Tri XIx =>
                (ci.1, ({ ci.2 with new := ci.2.new.insert ci.1 row (rowsOf a r).length } : Tri XIx))).map (·.1) = _
            rw [List.map_map, ← tri.cols]; rfl
          · intro ci hci
            obtain ⟨c, hc, rfl⟩ := List.mem_map.mp hci
            exact XOk_plain hlat (POk_rows_append row ((tri.it c hc).2 hlat) bT)
          · intro ci hci
            obtain ⟨c, hc, rfl⟩ := List.mem_map.mp hci
            exact XOk_plain hlat (POk_rows_append row ((tri.id c hc).2 hlat) bD)
          · intro ci hci
            obtain ⟨c, hc, rfl⟩ := List.mem_map.mp hci
            exact XOk_plain hlat (POk_insert row ((tri.inw c hc).2 hlat) bN)
        · intro t ht
          rcases List.mem_append.mp ht with ht | ht
          · exact hsim.typed r t ht
          · simp only [List.mem_singleton] at ht; rw [ht]; exact hlen

theorem headUpdate_simL (I : Interp E B G P A) {p : Program E B G P A} {ix : IxSets} {dynR : List RelId} {a : SccSt}
    {x : XScc} (hsim : SimL p ix a x) (hwf : WF p.rels.length dynR a)
    (hlt : ∀ r, dynR.contains r = true → r < p.rels.length) (r : RelId) (row : Tuple)
    (har : isLatRel p r = true → 0 < arityOf p r) (hlen : row.length = arityOf p r)
    (hkeys : isLatRel p r = true → ((rowsOf a r).map keyOf).Nodup) :
    SimL p ix (if (declOf p r).lat then Engine.headLat I {} a r row else Engine.headRel a r row)
      (if isLatRel p r then headLat I p x r row else headRel x r row) := by
  cases hl : isLatRel p r with
  | true =>
    have hl' : (declOf p r).lat = true := hl
    rw [hl']
    exact headLat_simL I hsim hwf hlt r row hl (har hl) hlen (hkeys hl)
  | false =>
    have hl' : (declOf p r).lat = false := hl
    rw [hl']
    exact headRel_simL hsim hwf hlt r row hl hlen

end AscentVerif.PhysLat
