import AscentVerif.Proofs.SurfaceDefs
/-!
# Generic tools for the pass-by-pass proofs of `DesugarPWN.lean`

`OptRel`, agreement off a family of generated names, frame lemmas for `matchSArgs` / `StepF`, and the
"unchanged item" simulation.
-/
namespace AscentVerif.Surface
open AscentVerif AscentVerif.Engine

variable {E B G P A : Type}

/-! ## relating optional environments -/

def OptRel (R : Env → Env → Prop) : Option Env → Option Env → Prop
  | some a, some b => R a b
  | none, none => True
  | _, _ => False

@[simp] theorem optRel_some_some (R : Env → Env → Prop) (a b : Env) : OptRel R (some a) (some b) ↔ R a b := Iff.rfl
@[simp] theorem optRel_none_none (R : Env → Env → Prop) : OptRel R none none ↔ True := Iff.rfl
@[simp] theorem optRel_some_none (R : Env → Env → Prop) (a : Env) : OptRel R (some a) none ↔ False := Iff.rfl
@[simp] theorem optRel_none_some (R : Env → Env → Prop) (b : Env) : OptRel R none (some b) ↔ False := Iff.rfl

theorem OptRel.mono {R S : Env → Env → Prop} (h : ∀ a b, R a b → S a b) {x y : Option Env} (hx : OptRel R x y) :
    OptRel S x y := by
  cases x <;> cases y <;> simp_all

theorem OptRel.bind {R S : Env → Env → Prop} {x y : Option Env} {f g : Env → Option Env} (hx : OptRel R x y)
    (h : ∀ a b, R a b → OptRel S (f a) (g b)) : OptRel S (x.bind f) (y.bind g) := by
  cases x <;> cases y <;> simp_all

theorem OptRel.fwd {R : Env → Env → Prop} {x y : Option Env} (h : OptRel R x y) {a : Env} (hx : x = some a) :
    ∃ b, y = some b ∧ R a b := by
  subst hx
  cases y with
  | none => simp at h
  | some b => exact ⟨b, rfl, h⟩

theorem OptRel.bwd {R : Env → Env → Prop} {x y : Option Env} (h : OptRel R x y) {b : Env} (hy : y = some b) :
    ∃ a, x = some a ∧ R a b := by
  subst hy
  cases x with
  | none => simp at h
  | some a => exact ⟨a, rfl, h⟩

/-- compose on the left with a relation `Q` that `R` absorbs -/
theorem OptRel.trans_left {Q R : Env → Env → Prop} {x y z : Option Env} (h₁ : OptRel Q x y) (h₂ : OptRel R y z)
    (habs : ∀ a b c, Q a b → R b c → R a c) : OptRel R x z := by
  cases x <;> cases y <;> cases z <;> simp_all
  exact habs _ _ _ h₁ h₂

/-! ## generated names -/

/-- the names a gensym function produces -/
def GenOf (gen : Nat → Var) (v : Var) : Prop := ∃ k, v = gen k

/-- the generated names with index `≥ k` are unbound -/
def Unbound (gen : Nat → Var) (k : Nat) (ρ : Env) : Prop := ∀ j, k ≤ j → Env.get? ρ (gen j) = none

theorem get?_append_of_not_key {n : Env} {v : Var} (h : ∀ p ∈ n, p.1 ≠ v) (ρ : Env) :
    Env.get? (n ++ ρ) v = Env.get? ρ v := by
  rw [get?_append, get?_none_of_keys h]; rfl

theorem zip_keys {vs : List Var} {ys : List Val} {p : Var × Val} (hp : p ∈ vs.zip ys) : p.1 ∈ vs := by
  obtain ⟨w, x⟩ := p
  exact (List.of_mem_zip hp).1

theorem AgreeOff.symm {Gn : Var → Prop} {ρ σ : Env} (h : AgreeOff Gn ρ σ) : AgreeOff Gn σ ρ :=
  fun v hv => (h v hv).symm

theorem AgreeOff.append {Gn : Var → Prop} {ρ σ : Env} (h : AgreeOff Gn ρ σ) (n : Env) : AgreeOff Gn (n ++ ρ) (n ++ σ) := by
  intro v hv
  rw [get?_append, get?_append, h v hv]

theorem AgreeOff.cons {Gn : Var → Prop} {ρ σ : Env} (h : AgreeOff Gn ρ σ) (w : Var) (x : Val) :
    AgreeOff Gn ((w, x) :: ρ) ((w, x) :: σ) := h.append [(w, x)]

theorem AgreeOff.cons_left {Gn : Var → Prop} {ρ σ : Env} (h : AgreeOff Gn ρ σ) {w : Var} (hw : Gn w) (x : Val) :
    AgreeOff Gn ((w, x) :: ρ) σ := by
  intro v hv
  rw [get?_cons, if_neg (fun he : w = v => hv (he ▸ hw))]
  exact h v hv

theorem AgreeOff.agree {Gn : Var → Prop} {ρ σ : Env} (h : AgreeOff Gn ρ σ) {vs : List Var} (hvs : ∀ v ∈ vs, ¬ Gn v) :
    Agree vs ρ σ := fun v hv => h v (hvs v hv)

theorem AgreeOff.of_envEqv_left {Gn : Var → Prop} {ρ ρ' σ : Env} (he : EnvEqv ρ ρ') (h : AgreeOff Gn ρ' σ) :
    AgreeOff Gn ρ σ := fun v hv => (he v).trans (h v hv)

theorem Unbound.append {gen : Nat → Var} {k : Nat} {ρ : Env} (h : Unbound gen k ρ) {n : Env}
    (hn : ∀ p ∈ n, ¬ GenOf gen p.1) : Unbound gen k (n ++ ρ) := by
  intro j hj
  rw [get?_append_of_not_key (fun p hp he => hn p hp ⟨j, he⟩)]
  exact h j hj

theorem Unbound.cons {gen : Nat → Var} {k : Nat} {ρ : Env} (h : Unbound gen k ρ) {w : Var} (hw : ¬ GenOf gen w) (x : Val) :
    Unbound gen k ((w, x) :: ρ) :=
  h.append (n := [(w, x)]) (by simpa using hw)

theorem Unbound.mono {gen : Nat → Var} {k k' : Nat} {ρ : Env} (h : Unbound gen k ρ) (hk : k ≤ k') : Unbound gen k' ρ :=
  fun j hj => h j (Nat.le_trans hk hj)

theorem Unbound.of_envEqv {gen : Nat → Var} {k : Nat} {ρ ρ' : Env} (he : EnvEqv ρ ρ') (h : Unbound gen k ρ') :
    Unbound gen k ρ := fun j hj => (he _).trans (h j hj)

/-- binding the next generated name -/
theorem Unbound.cons_gen {gen : Nat → Var} (hinj : ∀ i j, gen i = gen j → i = j) {k : Nat} {ρ : Env}
    (h : Unbound gen k ρ) (x : Val) : Unbound gen (k + 1) ((gen k, x) :: ρ) := by
  intro j hj
  rw [get?_cons, if_neg (fun he => by have := hinj _ _ he; omega)]
  exact h j (by omega)

/-! ## frame lemmas -/

theorem matchSArgs_frame {I : Interp E B G P A} {varsE : E → List Var} {varsB : B → List Var} {varsG : G → List Var}
    (hV : VarsSound I varsE varsB varsG) (args : List (SArg E P)) (t : Tuple) (ρ ρ' : Env)
    (h : matchSArgs I args t ρ = some ρ') :
    ∃ n, ρ' = n ++ ρ ∧ (∀ p ∈ n, p.1 ∈ args.flatMap (SArg.mentions varsE)) ∧
      ∀ σ, Agree (args.flatMap (SArg.mentions varsE)) ρ σ → matchSArgs I args t σ = some (n ++ σ) := by
  induction args generalizing t ρ with
  | nil =>
    cases t with
    | nil =>
      simp only [matchSArgs, Option.some.injEq] at h
      subst h
      exact ⟨[], rfl, by simp, fun _ _ => rfl⟩
    | cons x xs => simp [matchSArgs] at h
  | cons a as ih =>
    cases t with
    | nil => cases a <;> simp [matchSArgs] at h
    | cons x xs =>
      cases a with
      | var v =>
        simp only [matchSArgs] at h
        cases hg : ρ.get? v with
        | some y =>
          simp only [hg] at h
          split at h
          · rename_i hxy
            obtain ⟨n, hn, hk, hfr⟩ := ih xs ρ h
            refine ⟨n, hn, fun p hp => by simp [hk p hp], ?_⟩
            intro σ h₁
            have hσ : σ.get? v = some y := by rw [← h₁ v (by simp [SArg.mentions]), hg]
            simp only [matchSArgs, hσ, hxy, if_true]
            exact hfr σ (h₁.mono (by simp +contextual))
          · cases h
        | none =>
          simp only [hg] at h
          obtain ⟨n, hn, hk, hfr⟩ := ih xs ((v, x) :: ρ) h
          refine ⟨n ++ [(v, x)], by rw [hn]; simp, ?_, ?_⟩
          · intro p hp
            rcases List.mem_append.mp hp with hp | hp
            · simp [hk p hp]
            · simp only [List.mem_singleton] at hp
              subst hp
              simp [SArg.mentions]
          · intro σ h₁
            have hσ : σ.get? v = none := by rw [← h₁ v (by simp [SArg.mentions]), hg]
            simp only [matchSArgs, hσ]
            have := hfr ((v, x) :: σ) (by
              intro w hw
              rw [get?_cons, get?_cons, h₁ w (by simp [hw])])
            rw [this]; simp
      | expr e =>
        simp only [matchSArgs] at h
        split at h
        · rename_i hex
          obtain ⟨n, hn, hk, hfr⟩ := ih xs ρ h
          refine ⟨n, hn, fun p hp => by simp [hk p hp], ?_⟩
          intro σ h₁
          have : I.expr e σ = x := by
            rw [← hex]; exact (hV.expr e ρ σ (h₁.mono (by simp +contextual [SArg.mentions]))).symm
          simp only [matchSArgs, this, if_true]
          exact hfr σ (h₁.mono (by simp +contextual))
        · cases h
      | wild =>
        simp only [matchSArgs] at h
        obtain ⟨n, hn, hk, hfr⟩ := ih xs ρ h
        refine ⟨n, hn, fun p hp => by simp [hk p hp], ?_⟩
        intro σ h₁
        simp only [matchSArgs]
        exact hfr σ (h₁.mono (by simp +contextual))
      | pat q vs =>
        simp only [matchSArgs] at h
        cases hq : I.pat q x with
        | none => simp [hq] at h
        | some ys =>
          simp only [hq, Option.bind_some] at h
          split at h
          · rename_i hl
            obtain ⟨n, hn, hk, hfr⟩ := ih xs (vs.zip ys ++ ρ) h
            refine ⟨n ++ vs.zip ys, by rw [hn]; simp, ?_, ?_⟩
            · intro p hp
              rcases List.mem_append.mp hp with hp | hp
              · simp [hk p hp]
              · simp [SArg.mentions, zip_keys hp]
            · intro σ h₁
              simp only [matchSArgs, hq, Option.bind_some, hl, if_true]
              rw [hfr (vs.zip ys ++ σ) ((h₁.mono (by simp +contextual)).append _)]
              simp
          · cases h

theorem matchNArgs_agree {I : Interp E B G P A} {varsE : E → List Var} {varsB : B → List Var} {varsG : G → List Var}
    (hV : VarsSound I varsE varsB varsG) (args : List (NArg E)) (t : Tuple) (ρ σ : Env)
    (h : ∀ e, NArg.expr e ∈ args → Agree (varsE e) ρ σ) : matchNArgs I ρ args t = matchNArgs I σ args t := by
  induction args generalizing t with
  | nil => cases t <;> rfl
  | cons a as ih =>
    cases t with
    | nil => cases a <;> rfl
    | cons x xs =>
      have h' := ih xs (fun e he => h e (List.mem_cons_of_mem _ he))
      cases a with
      | wild => simp only [matchNArgs]; exact h'
      | expr e => simp only [matchNArgs, h', hV.expr e ρ σ (h e (by simp))]

theorem satConds_append (I : Interp E B G P A) (cs ds : List (Cond E B P)) (ρ : Env) :
    satConds I (cs ++ ds) ρ = (satConds I cs ρ).bind (satConds I ds) := by
  induction cs generalizing ρ with
  | nil => simp [satConds]
  | cons c cs ih =>
    simp only [List.cons_append, satConds]
    cases satCond I c ρ with
    | none => rfl
    | some ρ₁ => simp only [Option.bind_some]; exact ih ρ₁

/-- **frame lemma for flat items** -/
theorem stepF_frame {I : Interp E B G P A} {varsE : E → List Var} {varsB : B → List Var} {varsG : G → List Var}
    (hV : VarsSound I varsE varsB varsG) {D : DB} {agg : RelId → List Tuple}
    (f : FItem E B G P A) {ρ ρ' : Env} (h : StepF I D agg f ρ ρ') :
    ∃ n, ρ' = n ++ ρ ∧ (∀ p ∈ n, p.1 ∈ FItem.mentions varsE varsB varsG f) ∧
      ∀ σ, Agree (FItem.mentions varsE varsB varsG f) ρ σ → StepF I D agg f σ (n ++ σ) := by
  cases f with
  | clause r args conds =>
    obtain ⟨t, ρ₁, hd, hm, hc⟩ := h
    obtain ⟨n₁, rfl, hk₁, hf₁⟩ := matchSArgs_frame hV args t ρ ρ₁ hm
    obtain ⟨n₂, rfl, hk₂, _, hf₂⟩ := satConds_frame hV conds _ ρ' hc
    refine ⟨n₂ ++ n₁, by simp, ?_, ?_⟩
    · intro p hp
      simp only [FItem.mentions, List.mem_append]
      rcases List.mem_append.mp hp with hp | hp
      · refine .inr ?_
        have := hk₂ p hp
        simp only [List.mem_flatMap] at this ⊢
        obtain ⟨c, hc, hpc⟩ := this
        refine ⟨c, hc, ?_⟩
        cases c <;> simp_all [Cond.binds, Cond.vars]
      · exact .inl (hk₁ p hp)
    · intro σ hσ
      refine ⟨t, n₁ ++ σ, hd, hf₁ σ (hσ.mono ?_), ?_⟩
      · simp +contextual [FItem.mentions]
      · rw [hf₂ (n₁ ++ σ) ((hσ.mono (by simp +contextual [FItem.mentions])).append n₁)]
        simp
  | cond c =>
    obtain ⟨n, rfl, hk, _, hf⟩ := satCond_frame hV c ρ ρ' h
    refine ⟨n, rfl, ?_, hf⟩
    intro p hp
    have := hk p hp
    simp only [FItem.mentions]
    cases c <;> simp_all [Cond.binds, Cond.vars]
  | gen v g =>
    obtain ⟨x, hx, rfl⟩ := h
    refine ⟨[(v, x)], rfl, by simp [FItem.mentions], fun σ hσ => ⟨x, ?_, rfl⟩⟩
    rw [← hV.gen g ρ σ (hσ.mono (by simp +contextual [FItem.mentions]))]; exact hx
  | agg a =>
    simp only [StepF, aggEnvs, List.mem_filterMap] at h
    obtain ⟨out, hout, ho⟩ := h
    split at ho
    · rename_i hl
      cases ho
      refine ⟨a.outs.zip out, rfl, ?_, fun σ hσ => ?_⟩
      · intro q hq
        simp only [FItem.mentions, List.mem_append]
        exact .inl (.inl (zip_keys hq))
      · simp only [StepF, aggEnvs, List.mem_filterMap]
        refine ⟨out, ?_, by simp [hl]⟩
        have hbag : aggBag I a σ (agg a.rel) = aggBag I a ρ (agg a.rel) := by
          unfold aggBag
          congr 1
          funext t
          rw [matchAggArgs_agree hV a.args t ρ σ [] (hσ.mono ?_)]
          intro v hv
          simp only [List.mem_flatMap] at hv
          obtain ⟨x, hx, hvx⟩ := hv
          simp only [FItem.mentions, List.mem_append, List.mem_flatMap]
          refine .inr ⟨x, hx, ?_⟩
          cases x <;> simp_all [AggArg.keyVars]
        rw [hbag]; exact hout
    · cases ho
  | neg r args =>
    obtain ⟨h1, hno⟩ := h
    subst h1
    refine ⟨[], rfl, by simp, fun σ hσ => ⟨rfl, fun t ht => ?_⟩⟩
    rw [← matchNArgs_agree hV args t ρ' σ ?_]
    · exact hno t ht
    · intro e he
      refine hσ.mono ?_
      intro v hv
      simp only [FItem.mentions, List.mem_flatMap]
      exact ⟨.expr e, he, hv⟩

/-! ## simulation of one item by one item -/

/-- item `f'` (after a pass, run from `ρ`) and item `f` (before, run from `σ`) do the same up to the generated names;
the pass counter moves from `k` to `k'` -/
def ItemSim (I : Interp E B G P A) (D : DB) (agg : RelId → List Tuple) (gen : Nat → Var)
    (f' f : FItem E B G P A) (k k' : Nat) : Prop :=
  ∀ ρ σ, AgreeOff (GenOf gen) ρ σ → Unbound gen k ρ →
    (∀ ρ₁, StepF I D agg f' ρ ρ₁ → ∃ σ₁, StepF I D agg f σ σ₁ ∧ AgreeOff (GenOf gen) ρ₁ σ₁ ∧ Unbound gen k' ρ₁) ∧
    (∀ σ₁, StepF I D agg f σ σ₁ → ∃ ρ₁, StepF I D agg f' ρ ρ₁ ∧ AgreeOff (GenOf gen) ρ₁ σ₁ ∧ Unbound gen k' ρ₁)

/-- an item that mentions no generated name simulates itself -/
theorem itemSim_same {I : Interp E B G P A} {varsE : E → List Var} {varsB : B → List Var} {varsG : G → List Var}
    (hV : VarsSound I varsE varsB varsG) (D : DB) (agg : RelId → List Tuple) (gen : Nat → Var)
    (f : FItem E B G P A) (hm : ∀ v ∈ FItem.mentions varsE varsB varsG f, ¬ GenOf gen v) (k : Nat) :
    ItemSim I D agg gen f f k k := by
  intro ρ σ ha hu
  constructor
  · intro ρ₁ h
    obtain ⟨n, rfl, hk, hf⟩ := stepF_frame hV f h
    exact ⟨n ++ σ, hf σ (ha.agree hm), ha.append n, hu.append (fun p hp => hm _ (hk p hp))⟩
  · intro σ₁ h
    obtain ⟨n, rfl, hk, hf⟩ := stepF_frame hV f h
    exact ⟨n ++ ρ, hf ρ (ha.symm.agree hm), ha.append n, hu.append (fun p hp => hm _ (hk p hp))⟩

end AscentVerif.Surface
