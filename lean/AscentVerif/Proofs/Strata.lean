import AscentVerif.Proofs.RunScc
/-!
# Strata: `runSccs` over a valid SCC order, and the final statements (step 5/6 of the C01 proof)
-/
namespace AscentVerif.Engine
open AscentVerif

variable {E B G P A : Type}

/-! ## what `validOrder` gives -/

theorem validOrder_cover (p : Program E B G P A) (o : SccOrder) (h : validOrder p o = true) :
    ∀ i, i < p.rules.length → ∃ scc ∈ o, i ∈ scc := by
  intro i hi
  simp only [validOrder, Bool.and_eq_true, List.all_eq_true, List.mem_range] at h
  have := h.1.2 i hi
  rw [List.contains_iff_mem, List.mem_flatten] at this
  exact this

theorem validOrder_feeds (p : Program E B G P A) (o : SccOrder) (h : validOrder p o = true) :
    ∀ a b, a < o.length → b < o.length → ∀ i ∈ o.getD a [], ∀ j ∈ o.getD b [], feeds p i j = true → a ≤ b := by
  intro a b ha hb i hi j hj hf
  simp only [validOrder, Bool.and_eq_true, List.all_eq_true, List.mem_range] at h
  have := (h.2 a ha b hb i hi j hj).2
  rw [hf] at this
  simpa using this

theorem mem_sccRules (p : Program E B G P A) (scc : List Nat) (rule : Rule E B G P A) :
    rule ∈ sccRules p scc ↔ ∃ i ∈ scc, p.rules[i]? = some rule := by
  simp [sccRules, List.mem_filterMap]

/-- a relation written by a later SCC is not read by an earlier one -/
theorem validOrder_forward (p : Program E B G P A) (o : SccOrder) (h : validOrder p o = true)
    (done : SccOrder) (scc : List Nat) (rest : SccOrder) (ho : done ++ scc :: rest = o) :
    ∀ scc' ∈ done, ∀ rule ∈ sccRules p scc', ∀ b ∈ rule.bodyRels, (dynRels p scc).contains b = false := by
  intro scc' hscc' rule hrule b hb
  cases hc : (dynRels p scc).contains b with
  | false => rfl
  | true =>
    exfalso
    obtain ⟨rule', hrule', hd, hhd, hrel⟩ := (dynRels_mem p scc b).mp hc
    obtain ⟨i, hi, hpi⟩ := (mem_sccRules p scc' rule).mp hrule
    obtain ⟨i', hi', hpi'⟩ := (mem_sccRules p scc rule').mp hrule'
    obtain ⟨a, ha, hda⟩ := List.mem_iff_getElem.mp hscc'
    have hlen : o.length = done.length + (rest.length + 1) := by rw [← ho]; simp
    have hoa : o.getD a [] = scc' := by
      rw [← ho, List.getD_eq_getElem?_getD, List.getElem?_append_left ha, List.getElem?_eq_getElem ha, hda]; rfl
    have hob : o.getD done.length [] = scc := by
      rw [← ho, List.getD_eq_getElem?_getD, List.getElem?_append_right (Nat.le_refl _)]; simp
    have hfeeds : feeds p i' i = true := by
      simp only [feeds, hpi, hpi']
      rw [List.any_eq_true]
      refine ⟨b, ?_, ?_⟩
      · simp only [Rule.headRels, List.mem_map]; exact ⟨hd, hhd, hrel⟩
      · exact List.contains_iff_mem.mpr hb
    have := validOrder_feeds p o h done.length a (by omega) (by omega) i' (by rw [hob]; exact hi') i
      (by rw [hoa]; exact hi) hfeeds
    omega

/-! ## the strata induction -/

section Strata
variable (I : Interp E B G P A) (cfg : Config) (p : Program E B G P A) (inp : RelId → List Tuple)
  (hl : ∀ d ∈ p.rels, d.lat = false) (haf : ∀ r ∈ p.rules, r.aggFree = true)
  (hh : ∀ r ∈ p.rules, ∀ h ∈ r.heads, h.rel < p.rels.length)
  (o : SccOrder) (ho : validOrder p o = true)

include hl haf hh ho in
theorem runSccs_spec (dl : Deadline) (fuel : Nat) : ∀ (rest done : SccOrder) (ps ps' : ProgSt),
    done ++ rest = o → PInv I p inp p.rels.length ps.st →
    (∀ scc ∈ done, ClosedRules I (sccRules p scc) (factsOf ps.st)) →
    runSccs I cfg p dl fuel rest ps = .done ps' →
    PInv I p inp p.rels.length ps'.st ∧ ∀ scc ∈ o, ClosedRules I (sccRules p scc) (factsOf ps'.st) := by
  intro rest
  induction rest with
  | nil =>
    intro done ps ps' hdone hp hcl h
    simp only [runSccs, Outcome.done.injEq] at h
    subst h
    rw [List.append_nil] at hdone
    subst hdone
    exact ⟨hp, hcl⟩
  | cons scc rest ih =>
    intro done ps ps' hdone hp hcl h
    simp only [runSccs] at h
    split at h
    · rename_i ps1 hscc
      obtain ⟨hp1, hsame, hmono, hcl1⟩ := runScc_spec I cfg p inp hl haf hh dl fuel scc ps ps1 hp hscc
      refine ih (done ++ [scc]) ps1 ps' (by rw [List.append_assoc]; exact hdone) hp1 ?_ h
      intro scc' hscc'
      rcases List.mem_append.mp hscc' with hscc' | hscc'
      · intro rule hrule ρ hsat hd hhd
        have hfw := validOrder_forward p o ho done scc rest hdone scc' hscc' rule hrule
        have hsat' : Sat I (factsOf ps.st) nAgg rule.body [] ρ := by
          refine Sat.congr_rels hsat ?_
          intro r hr t ht
          have : relSt ps1.st r = relSt ps.st r := hsame r (hfw r hr)
          simp only [factsOf] at ht ⊢
          rw [← this]; exact ht
        exact hmono _ _ (hcl scc' hscc' rule hrule ρ hsat' hd hhd)
      · simp only [List.mem_singleton] at hscc'
        subst hscc'
        exact hcl1
    · rename_i hne
      cases hr : runScc I cfg p dl fuel scc ps with
      | done x => exact absurd hr (hne x)
      | timedOut x => rw [hr] at h; cases h
      | outOfFuel => rw [hr] at h; cases h

/-! ## the start state: any well-formed program value -/

/-- a program value the engine may be started from (same as `WFSt` of `Props/C01`): every stored
index entry is a valid row number -/
def WFSt' (p : Program E B G P A) (s : St) : Prop :=
  s.length = p.rels.length ∧ ∀ rs ∈ s, ∀ i ∈ rs.idx, i < rs.rows.length

theorem relSt_init (st : St) (f : Nat → RelSt) (m : Nat) (hst : st = (List.range m).map f) (r : RelId) (hr : r < m) :
    relSt st r = f r := by
  subst hst
  simp [relSt, List.getD_eq_getElem?_getD, List.getElem?_map, List.getElem?_range hr]

theorem relSt_updateIndices (s : St) (r : RelId) :
    relSt (updateIndices s) r =
      { rows := (relSt s r).rows, idx := List.range (relSt s r).rows.length } := by
  by_cases hr : r < s.length
  · simp [relSt, updateIndices, List.getD_eq_getElem?_getD, List.getElem?_map, List.getElem?_eq_getElem hr]
  · have hr' : s.length ≤ r := Nat.le_of_not_lt hr
    rw [relSt_of_ge _ _ (by simpa [updateIndices] using hr'), relSt_of_ge _ _ hr']; rfl

theorem WFSt_initSt (p : Program E B G P A) (inp : RelId → List Tuple) : WFSt' p (initSt p inp) := by
  refine ⟨by simp [initSt], ?_⟩
  intro rs hrs i hi
  simp only [initSt, List.mem_map] at hrs
  obtain ⟨r, _, rfl⟩ := hrs
  simp at hi

theorem rows_initSt (p : Program E B G P A) (inp : RelId → List Tuple) (r : RelId) (hr : r < p.rels.length) :
    (relSt (initSt p inp) r).rows = inp r := by
  rw [relSt_init (initSt p inp) _ _ rfl r hr]

/-- after `updateIndices` the stored index of every relation holds exactly its row numbers -/
theorem PInv_start (s : St) (hs : WFSt' p s) (hinp : ∀ r, r < p.rels.length → (relSt s r).rows = inp r) :
    PInv I p inp p.rels.length (updateIndices s) := by
  refine ⟨by simpa [updateIndices] using hs.1, ?_, ?_⟩
  · intro r hr
    rw [relSt_updateIndices]
    simp only [hinp r hr]
    refine ⟨fun t ht => derivable_input ⟨hr, ht⟩, [], by simp, List.nodup_nil, fun t ht => by simp at ht⟩
  · intro r i
    rw [relSt_updateIndices]
    simp only [List.mem_range]

include hl haf hh ho in
/-- everything the final theorems need about a completed run (any deadline oracle) -/
theorem run_spec (dl : Deadline) (fuel : Nat) (s : St) (ps : ProgSt) (hs : WFSt' p s)
    (hinp : ∀ r, r < p.rels.length → (relSt s r).rows = inp r)
    (hrun : runTimeout I cfg p o dl fuel s = .done ps) :
    PInv I p inp p.rels.length ps.st ∧ ClosedRules I p.rules (factsOf ps.st) := by
  have h := runSccs_spec I cfg p inp hl haf hh o ho dl fuel o [] _ ps (by simp)
    (PInv_start I p inp s hs hinp) (by intro scc hscc; simp at hscc) hrun
  refine ⟨h.1, ?_⟩
  intro rule hrule ρ hsat hd hhd
  obtain ⟨i, hi, hri⟩ := List.mem_iff_getElem.mp hrule
  obtain ⟨scc, hscc, hiscc⟩ := validOrder_cover p o ho i hi
  have : rule ∈ sccRules p scc := (mem_sccRules p scc rule).mpr ⟨i, hiscc, by rw [List.getElem?_eq_getElem hi, hri]⟩
  exact h.2 scc hscc rule this ρ hsat hd hhd

/-- the state invariant is a well-formed program value -/
theorem PInv.wfSt {st : St} (h : PInv I p inp p.rels.length st) : WFSt' p st := by
  refine ⟨h.len, ?_⟩
  intro rs hrs i hi
  obtain ⟨r, hr, rfl⟩ := List.mem_iff_getElem.mp hrs
  have : relSt st r = st[r] := by
    simp [relSt, List.getD_eq_getElem?_getD, List.getElem?_eq_getElem hr]
  rw [← this] at hi ⊢
  exact (h.idxAll r i).mpr hi

section General
variable (dl : Deadline) (fuel : Nat) (s : St) (ps : ProgSt) (hs : WFSt' p s)
  (hinp : ∀ r, r < p.rels.length → (relSt s r).rows = inp r)
  (hrun : runTimeout I cfg p o dl fuel s = .done ps)

include hl haf hh ho hs hinp hrun in
theorem runFrom_sound : ∀ f, factsOf ps.st f → Derivable I p.rules nAgg (inDB p inp) f := by
  intro f hf
  obtain ⟨hp, _⟩ := run_spec I cfg p inp hl haf hh o ho dl fuel s ps hs hinp hrun
  have hr : f.rel < p.rels.length := by
    have := lt_of_mem_rows ps.st f.rel f.args hf
    rw [hp.len] at this; exact this
  have := (hp.good f.rel hr).1 f.args hf
  cases f; exact this

include hl haf hh ho hs hinp hrun in
theorem runFrom_exit_closed : ∀ f, Cons I p.rules nAgg (factsOf ps.st) f → factsOf ps.st f := by
  rintro f ⟨rule, hrule, ρ, hsat, h, hhd, rfl⟩
  exact (run_spec I cfg p inp hl haf hh o ho dl fuel s ps hs hinp hrun).2 rule hrule ρ hsat h hhd

include hl haf hh ho hs hinp hrun in
theorem runFrom_complete : ∀ f, Derivable I p.rules nAgg (inDB p inp) f → factsOf ps.st f := by
  apply derivable_least
  refine ⟨?_, runFrom_exit_closed I cfg p inp hl haf hh o ho dl fuel s ps hs hinp hrun⟩
  rintro f ⟨hr, hf⟩
  obtain ⟨hp, _⟩ := run_spec I cfg p inp hl haf hh o ho dl fuel s ps hs hinp hrun
  obtain ⟨_, derived, hrows, _, _⟩ := hp.good f.rel hr
  show f.args ∈ (relSt ps.st f.rel).rows
  rw [hrows]; exact List.mem_append_left _ hf

include hl haf hh ho hs hinp hrun in
theorem runFrom_rows_set : ∀ r, r < p.rels.length → ∃ derived : List Tuple,
    (relSt ps.st r).rows = inp r ++ derived ∧ derived.Nodup ∧ ∀ t ∈ derived, t ∉ inp r := by
  intro r hr
  exact ((run_spec I cfg p inp hl haf hh o ho dl fuel s ps hs hinp hrun).1.good r hr).2

include hl haf hh ho hs hinp hrun in
theorem runFrom_wf : WFSt' p ps.st :=
  (run_spec I cfg p inp hl haf hh o ho dl fuel s ps hs hinp hrun).1.wfSt I p inp

end General

/-! ## corollaries for a fresh program value -/

include hl haf hh ho in
theorem run_sound' (fuel : Nat) (ps : ProgSt) (hrun : run I cfg p o fuel (initSt p inp) = .done ps) :
    ∀ f, factsOf ps.st f → Derivable I p.rules nAgg (inDB p inp) f :=
  runFrom_sound I cfg p inp hl haf hh o ho never fuel _ ps (WFSt_initSt p inp) (rows_initSt p inp) hrun

include hl haf hh ho in
theorem run_exit_closed' (fuel : Nat) (ps : ProgSt) (hrun : run I cfg p o fuel (initSt p inp) = .done ps) :
    ∀ f, Cons I p.rules nAgg (factsOf ps.st) f → factsOf ps.st f :=
  runFrom_exit_closed I cfg p inp hl haf hh o ho never fuel _ ps (WFSt_initSt p inp) (rows_initSt p inp) hrun

include hl haf hh ho in
theorem run_complete' (fuel : Nat) (ps : ProgSt) (hrun : run I cfg p o fuel (initSt p inp) = .done ps) :
    ∀ f, Derivable I p.rules nAgg (inDB p inp) f → factsOf ps.st f :=
  runFrom_complete I cfg p inp hl haf hh o ho never fuel _ ps (WFSt_initSt p inp) (rows_initSt p inp) hrun

include hl haf hh ho in
theorem run_rows_set' (fuel : Nat) (ps : ProgSt) (hrun : run I cfg p o fuel (initSt p inp) = .done ps) :
    ∀ r, r < p.rels.length → ∃ derived : List Tuple,
      (relSt ps.st r).rows = inp r ++ derived ∧ derived.Nodup ∧ ∀ t ∈ derived, t ∉ inp r :=
  runFrom_rows_set I cfg p inp hl haf hh o ho never fuel _ ps (WFSt_initSt p inp) (rows_initSt p inp) hrun

end Strata

end AscentVerif.Engine
