import AscentVerif.Model.EnginePhysParTimeout
import AscentVerif.Proofs.PhysParRun
import AscentVerif.Proofs.PhysTimeout
/-!
# `run_timeout` of the parallel physical engine

* `sccLoopT_done` / `runSccT_done` / `runSccsT_done` / `runTimeout_done`: a call that returned `true` never took the early
  return, so it computed exactly what `PhysPar.run` computes under the same schedule in the same pool (same value, same
  schedule clock, same iteration counts);
* `sccLoopT_simPar` / `runSccT_simPar` / `runSccsT_simPar` / `runTimeout_ok`: whatever the schedule, the pool, the deadline
  oracle and the fuel, the call never panics (the frozen / unfrozen protocol state `Flags` of `Proofs/PhysParSim.lean` is
  kept along the iterations, and the early return touches no index), and if it was interrupted the value it leaves is
  `SoundSt` (of `Proofs/PhysTimeout.lean`, on the erased state: typed, every row derivable, rows = input prefix ++
  duplicate-free derived part) with every stored index unfrozen and of the current pool's shape (`StFlags`).
-/
namespace AscentVerif.PhysPar
open AscentVerif AscentVerif.Engine AscentVerif.Index AscentVerif.Phys

variable {E B G P A : Type}

/-! ## unfolding -/

theorem sccLoopT_succ (I : Interp E B G P A) (V : Hir.VarsOf E B) (p : Program E B G P A) (σ : Sched E B G P A)
    (dyn : List RelId) (rules : List (Rule E B G P A)) (dl : Deadline) (fuel : Nat) (rs : RunStT) :
    sccLoopT I V p σ dyn rules dl (fuel + 1) rs =
      (iteration I V p σ rs.clock dyn rules rs.st >>= fun s1 =>
       shiftPar s1 >>= fun s2 =>
       if !s1.changed then
         pure (.done { st := s2, clock := rs.clock + 1, checks := rs.checks, iters := rs.iters + 1 })
       else if dl rs.checks then
         pure (.timedOut { st := s2, clock := rs.clock + 1, checks := rs.checks + 1, iters := rs.iters + 1 })
       else sccLoopT I V p σ dyn rules dl fuel
         { st := s2, clock := rs.clock + 1, checks := rs.checks + 1, iters := rs.iters + 1 }) := rfl

/-- what `runSccT` does with the result of the loop of a looping SCC -/
def endLoopT (threads : Nat) (p : Program E B G P A) (scc : List Nat) (ps : ProgStT) : Outcome RunStT → Outcome ProgStT
  | .done rs => .done { st := leaveScc p scc rs.st, clock := rs.clock, checks := rs.checks, iters := ps.iters ++ [rs.iters] }
  | .timedOut rs =>
    .timedOut { st := abandonScc threads p scc rs.st, clock := rs.clock, checks := rs.checks, iters := ps.iters ++ [rs.iters] }
  | .outOfFuel => .outOfFuel

theorem runSccT_eq (I : Interp E B G P A) (V : Hir.VarsOf E B) (p : Program E B G P A) (σ : Sched E B G P A)
    (threads : Nat) (dl : Deadline) (fuel : Nat) (scc : List Nat) (ps : ProgStT) :
    runSccT I V p σ threads dl fuel scc ps =
      if isLooping p scc then
        sccLoopT I V p σ (dynRels p scc) (sccRules p scc) dl fuel
          { st := enterScc threads p scc ps.st, clock := ps.clock, checks := ps.checks, iters := 0 } >>= fun r =>
        pure (endLoopT threads p scc ps r)
      else
        iteration I V p σ ps.clock (dynRels p scc) (sccRules p scc) (enterScc threads p scc ps.st) >>= fun s1 =>
        shiftPar s1 >>= fun s2 =>
        shiftPar s2 >>= fun s3 =>
        if dl ps.checks then
          pure (.timedOut { st := abandonScc threads p scc s3, clock := ps.clock + 1, checks := ps.checks + 1,
                            iters := ps.iters ++ [1] })
        else
          pure (.done { st := leaveScc p scc s3, clock := ps.clock + 1, checks := ps.checks + 1, iters := ps.iters ++ [1] }) := by
  unfold runSccT
  split
  · show (_ >>= _) = (_ >>= _)
    congr 1
    funext r
    cases r <;> rfl
  · rfl

/-! ## a completed `run_timeout` is a `run()` under the same schedule -/

theorem sccLoopT_done (I : Interp E B G P A) (V : Hir.VarsOf E B) (p : Program E B G P A) (σ : Sched E B G P A)
    (dyn : List RelId) (rules : List (Rule E B G P A)) (dl : Deadline) : ∀ (fuel : Nat) (rs rs' : RunStT),
    sccLoopT I V p σ dyn rules dl fuel rs = .ok (.done rs') →
    sccLoop I V p σ dyn rules fuel ⟨rs.st, rs.clock, rs.iters⟩ = .ok (some ⟨rs'.st, rs'.clock, rs'.iters⟩) := by
  intro fuel
  induction fuel with
  | zero => intro rs rs' h; cases h
  | succ fuel ih =>
    intro rs rs' h
    rw [sccLoopT_succ] at h
    rw [sccLoop_succ]
    show (iteration I V p σ rs.clock dyn rules rs.st >>= _) = _
    cases hit : iteration I V p σ rs.clock dyn rules rs.st with
    | panic => rw [hit] at h; cases h
    | ok s1 =>
      rw [hit, bind_ok] at h
      rw [bind_ok]
      cases hsh : shiftPar s1 with
      | panic => rw [hsh] at h; cases h
      | ok s2 =>
        rw [hsh, bind_ok] at h
        rw [bind_ok]
        cases hc : s1.changed with
        | false =>
          rw [hc] at h
          simp only [Bool.not_false, if_true, pure_eq_ok, Res.ok.injEq, Outcome.done.injEq] at h
          subst h
          rfl
        | true =>
          rw [hc] at h
          simp only [Bool.not_true, Bool.false_eq_true, if_false] at h ⊢
          cases hd : dl rs.checks with
          | true => rw [hd] at h; cases h
          | false =>
            rw [hd] at h
            simp only [Bool.false_eq_true, if_false] at h
            exact ih _ rs' h

theorem runSccT_done (I : Interp E B G P A) (V : Hir.VarsOf E B) (p : Program E B G P A) (σ : Sched E B G P A)
    (threads : Nat) (dl : Deadline) (fuel : Nat) (scc : List Nat) (ps ps' : ProgStT)
    (h : runSccT I V p σ threads dl fuel scc ps = .ok (.done ps')) :
    runScc I V p σ threads fuel scc ⟨ps.st, ps.clock, ps.iters⟩ = .ok (some ⟨ps'.st, ps'.clock, ps'.iters⟩) := by
  rw [runSccT_eq] at h
  rw [runScc_eq]
  by_cases hlp : isLooping p scc = true
  · rw [if_pos hlp] at h ⊢
    cases hl : sccLoopT I V p σ (dynRels p scc) (sccRules p scc) dl fuel
        { st := enterScc threads p scc ps.st, clock := ps.clock, checks := ps.checks, iters := 0 } with
    | panic => rw [hl] at h; cases h
    | ok r =>
      rw [hl, bind_ok] at h
      cases r with
      | done rs =>
        have h' : endLoopT threads p scc ps (.done rs) = .done ps' := by
          have : (Res.ok (endLoopT threads p scc ps (.done rs))) = Res.ok (Outcome.done ps') := h
          injection this
        simp only [endLoopT, Outcome.done.injEq] at h'
        subst h'
        rw [sccLoopT_done I V p σ _ _ dl fuel _ rs hl]
        rfl
      | timedOut rs =>
        have : (Res.ok (endLoopT threads p scc ps (.timedOut rs))) = Res.ok (Outcome.done ps') := h
        injection this with this
        simp [endLoopT] at this
      | outOfFuel =>
        have : (Res.ok (endLoopT threads p scc ps .outOfFuel)) = Res.ok (Outcome.done ps') := h
        injection this with this
        simp [endLoopT] at this
  · rw [if_neg hlp] at h ⊢
    show (iteration I V p σ ps.clock (dynRels p scc) (sccRules p scc) (enterScc threads p scc ps.st) >>= _) = _
    cases hit : iteration I V p σ ps.clock (dynRels p scc) (sccRules p scc) (enterScc threads p scc ps.st) with
    | panic => rw [hit] at h; cases h
    | ok s1 =>
      rw [hit, bind_ok] at h
      rw [bind_ok]
      cases h2 : shiftPar s1 with
      | panic => rw [h2] at h; cases h
      | ok s2 =>
        rw [h2, bind_ok] at h
        rw [bind_ok]
        cases h3 : shiftPar s2 with
        | panic => rw [h3] at h; cases h
        | ok s3 =>
          rw [h3, bind_ok] at h
          rw [bind_ok]
          cases hd : dl ps.checks with
          | true => rw [hd] at h; cases h
          | false =>
            rw [hd] at h
            simp only [Bool.false_eq_true, if_false, pure_eq_ok, Res.ok.injEq, Outcome.done.injEq] at h
            subst h
            rfl

theorem runSccsT_done (I : Interp E B G P A) (V : Hir.VarsOf E B) (p : Program E B G P A) (σ : Sched E B G P A)
    (threads : Nat) (dl : Deadline) (fuel : Nat) : ∀ (order : SccOrder) (ps ps' : ProgStT),
    runSccsT I V p σ threads dl fuel order ps = .ok (.done ps') →
    runSccs I V p σ threads fuel order ⟨ps.st, ps.clock, ps.iters⟩ = .ok (some ⟨ps'.st, ps'.clock, ps'.iters⟩) := by
  intro order
  induction order with
  | nil =>
    intro ps ps' h
    simp only [runSccsT, Res.ok.injEq, Outcome.done.injEq] at h
    subst h
    rfl
  | cons scc rest ih =>
    intro ps ps' h
    cases hr : runSccT I V p σ threads dl fuel scc ps with
    | panic => simp only [runSccsT, hr] at h; cases h
    | ok out =>
      cases out with
      | done ps1 =>
        simp only [runSccsT, hr] at h
        simp only [runSccs, runSccT_done I V p σ threads dl fuel scc ps ps1 hr]
        exact ih ps1 ps' h
      | timedOut x => simp only [runSccsT, hr] at h; cases h
      | outOfFuel => simp only [runSccsT, hr] at h; cases h

/-- `run_timeout` returned `true`: it computed what `run()` computes under the same schedule in the same pool -/
theorem runTimeout_done (I : Interp E B G P A) (V : Hir.VarsOf E B) (p : Program E B G P A) (ix : IxSets) (order : SccOrder)
    (σ : Sched E B G P A) (threads : Nat) (dl : Deadline) (fuel : Nat) (s : PCSt) (o : ProgStT)
    (h : runTimeout I V p ix order σ threads dl fuel s = .ok (.done o)) :
    run I V p ix order σ threads fuel s = .ok (some ⟨o.st, o.clock, o.iters⟩) := by
  have h' : (updateIndices threads σ ix s >>= fun s0 =>
      runSccsT I V p σ threads dl fuel order { st := s0, clock := 0, checks := 0, iters := [] }) = .ok (.done o) := h
  show (updateIndices threads σ ix s >>= fun s0 =>
      runSccs I V p σ threads fuel order { st := s0, clock := 0, iters := [] }) = _
  cases hu : updateIndices threads σ ix s with
  | panic => rw [hu] at h'; cases h'
  | ok s0 =>
    rw [hu, bind_ok] at h'
    rw [bind_ok]
    exact runSccsT_done I V p σ threads dl fuel order _ o h'

/-! ## the value an interrupted call leaves -/

theorem abandonPar_length (threads : Nat) (p : Program E B G P A) (scc : List Nat) (s : PCScc) :
    (abandonScc threads p scc s).length = s.rels.length := by
  simp [abandonScc]

theorem abandonPar_rows (threads : Nat) (p : Program E B G P A) (scc : List Nat) (s : PCScc) (r : RelId) :
    (pcrel (abandonScc threads p scc s) r).rows = (pcrel s.rels r).rows := by
  by_cases hr : r < s.rels.length
  · simp only [abandonScc, pcrel_rangeMap _ _ _ hr]
    split <;> rfl
  · have hr' : s.rels.length ≤ r := Nat.le_of_not_lt hr
    rw [pcrel_of_ge _ _ (by rw [abandonPar_length]; exact hr'), pcrel_of_ge _ _ hr']

/-- the early return keeps the rows and leaves only unfrozen indices of the current pool's shape in the struct -/
theorem abandon_soundPar (I : Interp E B G P A) (p : Program E B G P A) (ix : IxSets) (inp : RelId → List Tuple)
    (threads : Nat) (scc : List Nat) {a : SccSt} {s : PCScc} (hwf : WF p.rels.length (dynRels p scc) a)
    (hgood : Good I p inp p.rels.length a) (hsim : Sim p ix a s.erase)
    (hfl : Flags (max threads 1) (bodyOnly p scc) false s) :
    SoundSt I p inp ((abandonScc threads p scc s).map PCRel.erase) ∧
      StFlags (max threads 1) (abandonScc threads p scc s) := by
  have hlen : a.rels.length = s.rels.length := by
    have := hsim.len
    simpa [PCScc.erase] using this
  have hrows : ∀ r, (prel ((abandonScc threads p scc s).map PCRel.erase) r).rows = (relSt a.rels r).rows := by
    intro r
    rw [prel_erase, hsim.rows r]
    show (pcrel (abandonScc threads p scc s) r).rows = (prel (s.rels.map PCRel.erase) r).rows
    rw [prel_erase, abandonPar_rows]
    rfl
  refine ⟨⟨by rw [List.length_map, abandonPar_length, ← hlen, hwf.len], ?_, ?_⟩, ?_⟩
  · intro r t ht
    rw [hrows] at ht
    exact hsim.typed r t ht
  · intro r hr
    rw [hrows]
    exact hgood r hr
  · intro pr hpr
    simp only [abandonScc, List.mem_map, List.mem_range] at hpr
    obtain ⟨r, hr, rfl⟩ := hpr
    split
    · refine ⟨rfl, ?_⟩
      intro ci hci
      obtain ⟨c, _, rfl⟩ := List.mem_map.mp hci
      exact ⟨Shape_new threads c.1, isFrozen_new threads c.1⟩
    · rename_i ht
      have hb : (bodyOnly p scc).contains r = false := by
        cases hb : (bodyOnly p scc).contains r with
        | false => rfl
        | true =>
          exfalso
          apply ht
          have hm := (List.mem_filter.mp (List.contains_iff_mem.mp hb)).1
          exact List.contains_iff_mem.mpr (List.mem_append_right _ hm)
      have := hfl.rels r hr
      rw [hb] at this
      exact this

/-! ## the loop of a looping SCC under the deadline -/

section Loop
variable (I : Interp E B G P A) (hI : Plan.Ext I) (cfg : Config) (V : Hir.VarsOf E B) (hS : Plan.Supp I V)
  (p : Program E B G P A) (hl : ∀ d ∈ p.rels, d.lat = false) (ix : IxSets) (inp : RelId → List Tuple)
  (dynR : List RelId) (hlt : ∀ r, dynR.contains r = true → r < p.rels.length) (N : Nat) (hN : 0 < N) (bo : List RelId)
  (σ : Sched E B G P A)

include hI hS hl hlt hN in
theorem sccLoopT_simPar (rules : List (Rule E B G P A)) (hR : ∀ r ∈ rules, RuleFit V p ix r)
    (hrules : ∀ rule ∈ rules, rule ∈ p.rules)
    (hdyn : ∀ rule ∈ rules, ∀ h ∈ rule.heads, dynR.contains h.rel = true)
    (hbo : ∀ rule ∈ rules, ∀ r ∈ rule.bodyRels, dynR.contains r = false → bo.contains r = true ∧ r < p.rels.length)
    (dl : Deadline) :
    ∀ (fuel : Nat) (rs : RunStT) (a : SccSt),
      LoopInv I cfg p inp p.rels.length dynR rules (hasDyn dynR) a → Sim p ix a rs.st.erase → Flags N bo false rs.st →
      ∃ out, sccLoopT I V p σ dynR rules dl fuel rs = .ok out ∧ ∀ rs', out = .timedOut rs' →
        ∃ a', WF p.rels.length dynR a' ∧ Good I p inp p.rels.length a' ∧ Sim p ix a' rs'.st.erase ∧
          Flags N bo false rs'.st := by
  have haf : ∀ rule ∈ rules, rule.aggFree = true := fun r hr => (hR r hr).aggFree
  intro fuel
  induction fuel with
  | zero =>
    intro rs a _ _ _
    exact ⟨.outOfFuel, rfl, fun rs' h => by cases h⟩
  | succ fuel ih =>
    intro rs a hinv hsim hfl
    obtain ⟨s1, hit, a1, hpass, hsim1, hfl1⟩ := iteration_sim I hI cfg V hS p hl ix dynR hlt N hN bo σ rs.clock rules hR hbo
      a rs.st hinv.wf hsim hfl
    obtain ⟨hinv', _⟩ := iter_step_nd I cfg p inp p.rels.length dynR hlt hl rules hrules haf hdyn a a1 hinv hpass
    obtain ⟨s2, hsh, hsim2, hfl2, _⟩ := shiftPar_sim hsim1 hfl1
    rw [sccLoopT_succ, hit, bind_ok, hsh, bind_ok]
    cases hc : s1.changed with
    | false =>
      refine ⟨.done { st := s2, clock := rs.clock + 1, checks := rs.checks, iters := rs.iters + 1 }, rfl, ?_⟩
      intro rs' h
      cases h
    | true =>
      cases hd : dl rs.checks with
      | true =>
        refine ⟨.timedOut { st := s2, clock := rs.clock + 1, checks := rs.checks + 1, iters := rs.iters + 1 }, rfl, ?_⟩
        intro rs' h
        simp only [Outcome.timedOut.injEq] at h
        subst h
        exact ⟨Engine.shift a1, hinv'.wf, hinv'.good, hsim2, hfl2⟩
      | false =>
        obtain ⟨out, hout, hspec⟩ := ih { st := s2, clock := rs.clock + 1, checks := rs.checks + 1, iters := rs.iters + 1 }
          (Engine.shift a1) (hinv'.weaken I cfg p inp p.rels.length dynR fun _ _ => trivial) hsim2 hfl2
        exact ⟨out, hout, hspec⟩

end Loop

/-! ## one SCC, the SCCs in order -/

section Run
variable (I : Interp E B G P A) (hI : Plan.Ext I) (cfg : Config) (V : Hir.VarsOf E B) (hS : Plan.Supp I V)
  (p : Program E B G P A) (hp : Relational p) (hb : BodyDeclared p) (ix : IxSets) (inp : RelId → List Tuple)
  (hR : ∀ r ∈ p.rules, RuleFit V p ix r) (σ : Sched E B G P A) (threads : Nat)

include hI hS hp hb hR cfg in
theorem runSccT_simPar (dl : Deadline) (fuel : Nat) (scc : List Nat) (ps : ProgStT) (st : St)
    (hinv : PInv I p inp p.rels.length st) (hs : SimStPar p ix (max threads 1) st ps.st) :
    ∃ out, runSccT I V p σ threads dl fuel scc ps = .ok out ∧ ∀ ps', out = .timedOut ps' →
      SoundSt I p inp (ps'.st.map PCRel.erase) ∧ StFlags (max threads 1) ps'.st := by
  obtain ⟨_, hl, hh⟩ := hp
  have hN : 0 < max threads 1 := by omega
  have hrules := sccRules_sub p scc
  have hRs : ∀ r ∈ sccRules p scc, RuleFit V p ix r := fun r hr => hR r (hrules r hr)
  have hdyn : ∀ rule ∈ sccRules p scc, ∀ h ∈ rule.heads, (dynRels p scc).contains h.rel = true :=
    fun rule hr h hhd => (dynRels_mem p scc h.rel).mpr ⟨rule, hr, h, hhd, rfl⟩
  have hlt : ∀ r, (dynRels p scc).contains r = true → r < p.rels.length := by
    intro r hr
    obtain ⟨rule, hrule, h, hhd, rfl⟩ := (dynRels_mem p scc r).mp hr
    exact hh rule (hrules rule hrule) h hhd
  have hbo : ∀ rule ∈ sccRules p scc, ∀ r ∈ rule.bodyRels, (dynRels p scc).contains r = false →
      (bodyOnly p scc).contains r = true ∧ r < p.rels.length := by
    intro rule hrule r hr hnd
    refine ⟨?_, hb rule (hrules rule hrule) r hr⟩
    rw [List.contains_iff_mem]
    unfold bodyOnly
    rw [List.mem_filter]
    exact ⟨List.mem_flatMap.mpr ⟨rule, hrule, hr⟩, by rw [hnd]; rfl⟩
  have hinv0 := LoopInv_enter I cfg p inp p.rels.length (dynRels p scc) hl hinv (sccRules p scc)
  have hsim0 : Sim p ix (Engine.enterScc st (dynRels p scc)) (enterScc threads p scc ps.st).erase := by
    rw [erase_enterScc]
    exact enter_sim hs.sim _ (fun r hr => by rw [hinv.len]; exact hlt r (List.contains_iff_mem.mpr hr))
  have hfl0 := Flags_enterScc threads p scc ps.st hs.fl
  rw [runSccT_eq]
  by_cases hlp : isLooping p scc = true
  · rw [if_pos hlp]
    obtain ⟨out, hout, hspec⟩ := sccLoopT_simPar I hI cfg V hS p hl ix inp (dynRels p scc) hlt (max threads 1) hN
      (bodyOnly p scc) σ (sccRules p scc) hRs hrules hdyn hbo dl fuel
      { st := enterScc threads p scc ps.st, clock := ps.clock, checks := ps.checks, iters := 0 } _ hinv0 hsim0 hfl0
    rw [hout, bind_ok]
    refine ⟨_, rfl, ?_⟩
    intro ps' h
    cases out with
    | done rs => simp [endLoopT] at h
    | outOfFuel => simp [endLoopT] at h
    | timedOut rs =>
      simp only [endLoopT, Outcome.timedOut.injEq] at h
      subst h
      obtain ⟨a', hwf', hgood', hsim', hfl'⟩ := hspec rs rfl
      exact abandon_soundPar I p ix inp threads scc hwf' hgood' hsim' hfl'
  · rw [if_neg hlp]
    obtain ⟨s1, hit, a1, hpass, hsim1, hfl1⟩ := iteration_sim I hI cfg V hS p hl ix (dynRels p scc) hlt (max threads 1) hN
      (bodyOnly p scc) σ ps.clock (sccRules p scc) hRs hbo _ _ hinv0.wf hsim0 hfl0
    obtain ⟨hinv', _⟩ := iter_step_nd I cfg p inp p.rels.length (dynRels p scc) hlt hl (sccRules p scc) hrules
      (fun r hr => (hRs r hr).aggFree) hdyn _ a1 hinv0 hpass
    obtain ⟨s2, hsh2, hsim2, hfl2, _⟩ := shiftPar_sim hsim1 hfl1
    obtain ⟨s3, hsh3, hsim3, hfl3, _⟩ := shiftPar_sim hsim2 hfl2
    rw [hit, bind_ok, hsh2, bind_ok, hsh3, bind_ok]
    cases hd : dl ps.checks with
    | false =>
      simp only [Bool.false_eq_true, if_false, pure_eq_ok]
      exact ⟨_, rfl, fun ps' h => by cases h⟩
    | true =>
      simp only [if_true, pure_eq_ok]
      refine ⟨_, rfl, ?_⟩
      intro ps' h
      simp only [Outcome.timedOut.injEq] at h
      subst h
      exact abandon_soundPar I p ix inp threads scc (a := Engine.shift (Engine.shift a1)) (WF_shift hinv'.wf)
        hinv'.good hsim3 hfl3

include hI hS hp hb hR cfg in
theorem runSccsT_simPar (dl : Deadline) (fuel : Nat) : ∀ (order : SccOrder) (ps : ProgStT) (st : St),
    PInv I p inp p.rels.length st → SimStPar p ix (max threads 1) st ps.st →
    ∃ out, runSccsT I V p σ threads dl fuel order ps = .ok out ∧ ∀ ps', out = .timedOut ps' →
      SoundSt I p inp (ps'.st.map PCRel.erase) ∧ StFlags (max threads 1) ps'.st := by
  intro order
  induction order with
  | nil =>
    intro ps st _ _
    exact ⟨.done ps, rfl, fun ps' h => by cases h⟩
  | cons scc rest ih =>
    intro ps st hinv hs
    obtain ⟨out, hout, hspec⟩ := runSccT_simPar I hI cfg V hS p hp hb ix inp hR σ threads dl fuel scc ps st hinv hs
    cases out with
    | done ps1 =>
      have hscc' := runSccT_done I V p σ threads dl fuel scc ps ps1 hout
      obtain ⟨res, hres, hsp⟩ := runScc_simPar I hI cfg V hS p hp hb ix inp hR σ threads fuel scc
        ⟨ps.st, ps.clock, ps.iters⟩ st hinv hs
      rw [hscc'] at hres
      have hres' : res = some ⟨ps1.st, ps1.clock, ps1.iters⟩ := by
        injection hres with hres
        exact hres.symm
      obtain ⟨st1, hnd, hs1⟩ := hsp _ hres'
      have hinv1 := (sccND_spec I cfg p inp hp.2.1 hp.1 hp.2.2 scc st st1 hinv hnd).1
      obtain ⟨out2, hout2, hspec2⟩ := ih ps1 st1 hinv1 hs1
      exact ⟨out2, by simp only [runSccsT, hout]; exact hout2, hspec2⟩
    | timedOut x =>
      exact ⟨.timedOut x, by simp only [runSccsT, hout], hspec⟩
    | outOfFuel =>
      exact ⟨.outOfFuel, by simp only [runSccsT, hout], fun ps' h => by cases h⟩

end Run

/-- **`run_timeout` of a parallel program never panics**, whatever the schedule, the pool, the deadline oracle and the fuel;
if it returned `false` the value left is typed, holds only derivable rows, keeps the start rows as a prefix of every row vector,
and every stored index is unfrozen -/
theorem runTimeout_ok (I : Interp E B G P A) (hI : Plan.Ext I) (V : Hir.VarsOf E B) (hS : Plan.Supp I V)
    (p : Program E B G P A) (ix : IxSets) (order : SccOrder) (σ : Sched E B G P A) (threads : Nat) (dl : Deadline)
    (fuel : Nat) (s : PCSt) (hp : Relational p) (hb : BodyDeclared p) (hplan : planOk V p ix = true)
    (hd : ∀ r ∈ p.rules, Hir.Desugared V r = true ∧ Plan.WellScoped V r = true)
    (hlen : s.length = p.rels.length) (hty : ∀ r, ∀ t ∈ (pcrel s r).rows, t.length = arityOf p r) :
    ∃ out, runTimeout I V p ix order σ threads dl fuel s = .ok out ∧ ∀ o, out = .timedOut o →
      SoundSt I p (fun r => (pcrel s r).rows) (o.st.map PCRel.erase) ∧ StFlags (max threads 1) o.st := by
  have hR := ruleFit_of_planOk V p ix hp hplan hd
  obtain ⟨st0, hupd, _, hfl0, hsim0⟩ := updateIndices_simSt p threads σ ix s hty
  have hrows0 : (fun r => (relSt (absSt (s.map PCRel.erase)) r).rows) = fun r => (pcrel s r).rows := by
    funext r; rw [relSt_absSt, prel_erase]; rfl
  have hwfs : WFSt p (absSt (s.map PCRel.erase)) := by
    refine ⟨by simpa [absSt] using hlen, ?_⟩
    intro rs hrs i hi
    simp only [absSt, List.mem_map] at hrs
    obtain ⟨pr, _, rfl⟩ := hrs
    cases hi
  have hinv0 : PInv I p (fun r => (relSt (absSt (s.map PCRel.erase)) r).rows) p.rels.length
      (Engine.updateIndices (absSt (s.map PCRel.erase))) :=
    PInv_start I p _ (absSt (s.map PCRel.erase)) hwfs (fun _ _ => rfl)
  rw [hrows0] at hinv0
  obtain ⟨out, hout, hspec⟩ := runSccsT_simPar I hI {} V hS p hp hb ix _ hR σ threads dl fuel order
    { st := st0, clock := 0, checks := 0, iters := [] } _ hinv0 ⟨hsim0, hfl0⟩
  refine ⟨out, ?_, hspec⟩
  show (updateIndices threads σ ix s >>= fun s0 =>
    runSccsT I V p σ threads dl fuel order { st := s0, clock := 0, checks := 0, iters := [] }) = _
  rw [hupd]; exact hout

end AscentVerif.PhysPar
