import AscentVerif.Proofs.PhysParAggRun
import AscentVerif.Proofs.PhysAggTimeoutLink
import AscentVerif.Proofs.NDAggRestart
import AscentVerif.Props.C04PhysPlan
/-!
# Stratified restart over the concurrent indices (`ascent_par!` with aggregation / negation), for any usable plan

`Proofs/PhysParAggRun.lean` (`runPar_is_RunND_agg`: every run of the parallel physical engine on a stratified program is an
execution of the nondeterministic engine, and never panics) combined with `Proofs/NDAggRestart.lean` (restart theory of the
nondeterministic engine): the parallel counterpart of `Proofs/PhysAggTimeoutLink.lean`.
-/
namespace AscentVerif.PhysPar
open AscentVerif AscentVerif.Engine AscentVerif.Index AscentVerif.Phys

variable {E B G P A : Type}

/-- `t` extends `s`: every row vector of `s` is a prefix of the one of `t`, the rows added are pairwise distinct and not among
the rows of `s` (`Phys.ExtendsP` for values of an `ascent_par!` program) -/
def PCExt (p : Program E B G P A) (s t : PCSt) : Prop :=
  ∀ r, r < p.rels.length → ∃ extra : List Tuple,
    (pcrel t r).rows = (pcrel s r).rows ++ extra ∧ extra.Nodup ∧ ∀ x ∈ extra, x ∉ (pcrel s r).rows

theorem PCExt.refl (p : Program E B G P A) (s : PCSt) : PCExt p s s :=
  fun _ _ => ⟨[], by simp, List.nodup_nil, fun x hx => by simp at hx⟩

theorem erase_rows (s : PCSt) (r : RelId) : (prel (s.map PCRel.erase) r).rows = (pcrel s r).rows := by
  rw [prel_erase]; rfl

theorem PCExt.erase {p : Program E B G P A} {s t : PCSt} (h : PCExt p s t) :
    PExt p (s.map PCRel.erase) (t.map PCRel.erase) := by
  intro r hr
  obtain ⟨extra, he, hn, hd⟩ := h r hr
  refine ⟨extra, ?_, hn, ?_⟩
  · rw [erase_rows, erase_rows]; exact he
  · intro x hx
    rw [erase_rows]; exact hd x hx

theorem wfPSt_erase {p : Program E B G P A} {s : PCSt} (hs : WFPCSt p s) : WFPSt p (s.map PCRel.erase) := by
  refine ⟨by rw [List.length_map]; exact hs.1, ?_⟩
  intro r t ht
  rw [erase_rows] at ht
  exact hs.2.1 r t ht

theorem PCExt.facts {p : Program E B G P A} {s t : PCSt} (h : PCExt p s t) (hs : s.length = p.rels.length) :
    ∀ f, factsOf s f → factsOf t f := by
  intro f hf
  have hr : f.rel < p.rels.length := by
    rcases Nat.lt_or_ge f.rel p.rels.length with h' | h'
    · exact h'
    · exfalso
      have hf' : f.args ∈ (pcrel s f.rel).rows := hf
      rw [pcrel_of_ge _ _ (by rw [hs]; exact h')] at hf'
      cases hf'
  obtain ⟨extra, he, _, _⟩ := h f.rel hr
  show f.args ∈ (pcrel t f.rel).rows
  rw [he]; exact List.mem_append_left _ hf

theorem PCExt.trans {p : Program E B G P A} {s t u : PCSt} (h₁ : PCExt p s t) (h₂ : PCExt p t u) : PCExt p s u := by
  intro r hr
  obtain ⟨e₁, he₁, hn₁, hd₁⟩ := h₁ r hr
  obtain ⟨e₂, he₂, hn₂, hd₂⟩ := h₂ r hr
  refine ⟨e₁ ++ e₂, by rw [he₂, he₁, List.append_assoc], ?_, ?_⟩
  · rw [List.nodup_append]
    refine ⟨hn₁, hn₂, ?_⟩
    intro a ha b hb hab
    subst hab
    exact hd₂ a hb (by rw [he₁]; exact List.mem_append_right _ ha)
  · intro x hx hxs
    rcases List.mem_append.mp hx with hx | hx
    · exact hd₁ x hx hxs
    · exact hd₂ x hx (by rw [he₁]; exact List.mem_append_left _ hxs)

section Link
variable (I : Interp E B G P A) (hI : Plan.Ext I) (V : Hir.VarsOf E B) (hS : Plan.Supp I V)
  (hperm : AggPermInvariant I)
  (p : Program E B G P A) (ix : IxSets) (order : SccOrder)
  (hp : RelationalAgg p) (ho : validOrder p order = true) (hst : Stratified p order) (hb : BodyDeclared p)
  (hplan : planOk V p ix = true) (hagg : aggPlanOk V p ix = true)
  (hd : ∀ r ∈ p.rules, Hir.Desugared V r = true ∧ Plan.WellScoped V r = true)

include hI hS hperm hp ho hst hb hplan hagg hd in
/-- **every run from a runnable value: no panic; an execution of the nondeterministic engine with the same rows; the value left is
again runnable and extends the start value** -/
theorem runPar_linkA (σ : Sched E B G P A) (threads fuel : Nat) (s : PCSt) (hs : WFPCSt p s) :
    ∃ res, run I V p ix order σ threads fuel s = .ok res ∧ ∀ out, res = some out →
      ∃ st', RunND I {} p order (absSt (s.map PCRel.erase)) st' ∧ (∀ r, (relSt st' r).rows = (pcrel out.st r).rows) ∧
        WFPCSt p out.st ∧ PCExt p s out.st := by
  obtain ⟨res, hres, hspec⟩ := runPar_is_RunND_agg I hI V hS hperm p ix order σ threads fuel s hp hst hb hplan hagg hd hs.1 hs.2.1
  refine ⟨res, hres, ?_⟩
  intro out hout
  obtain ⟨st', hnd, hsim, hfl⟩ := hspec out hout
  have hrows : ∀ r, (relSt st' r).rows = (pcrel out.st r).rows := fun r => by rw [hsim.rows r, erase_rows]
  obtain ⟨hw, hext, _⟩ := Agg.runND_wf_extends I {} p order hp.1 hp.2 ho hst (absSt (s.map PCRel.erase)) st'
    (wfSt'_absSt p _ (wfPSt_erase hs)) hnd
  refine ⟨st', hnd, hrows, ⟨?_, ?_, ?_⟩, ?_⟩
  · have := hsim.len
    rw [List.length_map] at this
    rw [← this]; exact hw.1
  · intro r t ht
    rw [← hrows r] at ht
    exact hsim.typed r t ht
  · intro pr hpr
    obtain ⟨f1, f2⟩ := hfl pr hpr
    exact ⟨f1, fun ci hci => (f2 ci hci).2⟩
  · intro r hr
    obtain ⟨extra, he, hn, hdj⟩ := hext r hr
    rw [hrows r, relSt_absSt, erase_rows] at he
    rw [relSt_absSt, erase_rows] at hdj
    exact ⟨extra, he, hn, hdj⟩

include hI hS hperm hp ho hst hb hplan hagg hd in
/-- **stratified restart over the concurrent indices**: the reference run and the run from `t` under their own schedules, in their
own pools, with their own fuels -/
theorem restart_physParA (s t : PCSt) (σM σ : Sched E B G P A) (threadsM threads fuelM fuel : Nat) (oM : ProgSt)
    (hs : WFPCSt p s) (ht : WFPCSt p t)
    (hM : run I V p ix order σM threadsM fuelM s = .ok (some oM))
    (hext : PCExt p s t) (hsound : ∀ f, factsOf t f → factsOf oM.st f) :
    ∃ res, run I V p ix order σ threads fuel t = .ok res ∧ ∀ o, res = some o →
      WFPCSt p o.st ∧ PCExt p t o.st ∧ ∀ f, factsOf o.st f ↔ factsOf oM.st f := by
  obtain ⟨resM, hresM, hspM⟩ := runPar_linkA I hI V hS hperm p ix order hp ho hst hb hplan hagg hd σM threadsM fuelM s hs
  rw [hM] at hresM
  have hresM' : resM = some oM := by
    injection hresM with h
    exact h.symm
  obtain ⟨stM, hMnd, hrowsM, _, _⟩ := hspM oM hresM'
  obtain ⟨res, hres, hsp⟩ := runPar_linkA I hI V hS hperm p ix order hp ho hst hb hplan hagg hd σ threads fuel t ht
  refine ⟨res, hres, ?_⟩
  intro o ho'
  obtain ⟨st', hnd, hrows, hw, hext'⟩ := hsp o ho'
  have hsound' : ∀ f, Engine.factsOf (absSt (t.map PCRel.erase)) f → Engine.factsOf stM f := by
    intro f hf
    have hf' : f.args ∈ (relSt (absSt (t.map PCRel.erase)) f.rel).rows := hf
    rw [relSt_absSt, erase_rows] at hf'
    show f.args ∈ (relSt stM f.rel).rows
    rw [hrowsM]
    exact hsound f hf'
  have h := Agg.restartND_facts I {} p order hp.1 hp.2 ho hst hperm (absSt (s.map PCRel.erase)) (absSt (t.map PCRel.erase))
    stM st' (wfSt'_absSt p _ (wfPSt_erase hs)) (wfSt'_absSt p _ (wfPSt_erase ht)) hMnd hext.erase.abs hsound' hnd
  refine ⟨hw, hext', ?_⟩
  intro f
  have hf := h f
  simp only [Engine.factsOf, hrows, hrowsM] at hf
  exact hf

end Link

end AscentVerif.PhysPar
