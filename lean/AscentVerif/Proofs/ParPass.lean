import AscentVerif.Proofs.Pass
import AscentVerif.Model.EngineSched
/-!
# One parallel pass (`evalRulesPar`): a single fold over a permutation of the tasks computed on
the state at iteration start — step 3 of the C02 proof (mirrors `Proofs/Pass.lean`)
-/
namespace AscentVerif.Engine
open AscentVerif

variable {E B G P A : Type}

theorem mem_iterTasks (I : Interp E B G P A) (cfg : Config) (p : Program E B G P A) (dynR : List RelId)
    (rules : List (Rule E B G P A)) (s : SccSt) (t : Rule E B G P A × Env) :
    t ∈ iterTasks I cfg p dynR rules s ↔
      t.1 ∈ rules ∧ ∃ vs ∈ variants dynR t.1, t.2 ∈ evalBody I cfg p s t.1.body vs [] := by
  simp only [iterTasks, List.mem_flatMap, List.mem_map]
  constructor
  · rintro ⟨r, hr, vs, hvs, ρ, hρ, rfl⟩
    exact ⟨hr, vs, hvs, hρ⟩
  · rintro ⟨hr, vs, hvs, hρ⟩
    exact ⟨t.1, hr, vs, hvs, t.2, hρ, rfl⟩

section ParPass
variable (I : Interp E B G P A) (cfg : Config) (p : Program E B G P A) (inp : RelId → List Tuple)
  (n : Nat) (dynR : List RelId) (hlt : ∀ r, dynR.contains r = true → r < n)
  (hl : ∀ d ∈ p.rels, d.lat = false)

include hlt hl in
/-- folding the head updates of ANY list of tasks whose environments are variant instances over the
state `s₀` at pass start -/
theorem tasks_step {s₀ : SccSt} (hwf0 : WF n dynR s₀) (hgood0 : Good I p inp n s₀)
    (rules : List (Rule E B G P A))
    (hrules : ∀ rule ∈ rules, rule ∈ p.rules) (haf : ∀ rule ∈ rules, rule.aggFree = true)
    (hdyn : ∀ rule ∈ rules, ∀ h ∈ rule.heads, dynR.contains h.rel = true)
    (l : List (Rule E B G P A × Env)) (hl' : ∀ t ∈ l, t ∈ iterTasks I cfg p dynR rules s₀)
    (s : SccSt) (hpost : Post I p inp n dynR s₀ s) :
    Post I p inp n dynR s₀ (l.foldl (fun s t => t.1.heads.foldl (fun s h => headUpdate I cfg p s h t.2) s) s) ∧
      Le s (l.foldl (fun s t => t.1.heads.foldl (fun s h => headUpdate I cfg p s h t.2) s) s) ∧
      ∀ t ∈ l, ∀ h ∈ t.1.heads,
        FactsS (l.foldl (fun s t => t.1.heads.foldl (fun s h => headUpdate I cfg p s h t.2) s) s) (headFact I h t.2) := by
  refine foldl_track (fun s (t : Rule E B G P A × Env) => t.1.heads.foldl (fun s h => headUpdate I cfg p s h t.2) s)
    (Post I p inp n dynR s₀) Le
    (fun t s => ∀ h ∈ t.1.heads, FactsS s (headFact I h t.2)) Le.refl (fun _ _ _ => Le.trans)
    (fun t s s' hd hle h hh => hle _ _ (hd h hh)) l ?_ s hpost
  intro s t ht hs
  obtain ⟨hr, vs, _, hρ⟩ := (mem_iterTasks I cfg p dynR rules s₀ t).mp (hl' t ht)
  have hder : ∀ h ∈ t.1.heads, Derivable I p.rules nAgg (inDB p inp) (headFact I h t.2) := by
    intro h hh
    have hsv := SatV_of_evalBody I cfg p s₀ t.1.body vs [] t.2 (haf t.1 hr) hρ
    have hsat : Sat I (Derivable I p.rules nAgg (inDB p inp)) nAgg t.1.body [] t.2 := by
      refine SatV.toSat ?_ hsv
      intro r v x hv
      have hmem := view_sub_rows cfg p hl hwf0 hv
      have hrn : r < n := by
        have := lt_of_mem_rows s₀.rels r x hmem
        rw [hwf0.len] at this; exact this
      exact (hgood0 r hrn).1 x hmem
    exact derivable_cons ⟨t.1, hrules t.1 hr, t.2, hsat, h, hh, rfl⟩
  exact heads_step I cfg p inp n dynR hlt hl t.1.heads t.2 hder (hdyn t.1 hr) s hs

include hlt hl in
/-- **one parallel pass, any schedule**: the invariants are kept and every variant instance over the
view at the start of the pass has all its head facts stored afterwards -/
theorem evalRulesPar_spec {s₀ : SccSt} (hwf0 : WF n dynR s₀) (hgood0 : Good I p inp n s₀)
    (rules : List (Rule E B G P A))
    (hrules : ∀ rule ∈ rules, rule ∈ p.rules) (haf : ∀ rule ∈ rules, rule.aggFree = true)
    (hdyn : ∀ rule ∈ rules, ∀ h ∈ rule.heads, dynR.contains h.rel = true)
    (σ : Sched E B G P A) (k : Nat) :
    Post I p inp n dynR s₀ (evalRulesPar I cfg p dynR rules σ k s₀) ∧ Le s₀ (evalRulesPar I cfg p dynR rules σ k s₀) ∧
      ∀ rule ∈ rules, ∀ vs ∈ variants dynR rule, ∀ ρ, SatV I (viewOf cfg p s₀) rule.body vs [] ρ →
        ∀ h ∈ rule.heads, FactsS (evalRulesPar I cfg p dynR rules σ k s₀) (headFact I h ρ) := by
  have hperm := σ.isPerm k (iterTasks I cfg p dynR rules s₀)
  obtain ⟨h1, h2, h3⟩ := tasks_step I cfg p inp n dynR hlt hl hwf0 hgood0 rules hrules haf hdyn
    (σ.perm k (iterTasks I cfg p dynR rules s₀)) (fun t ht => hperm.mem_iff.mp ht) s₀ ⟨hwf0, Ext.refl _, hgood0⟩
  refine ⟨h1, h2, ?_⟩
  intro rule hr vs hvs ρ hρ h hh
  have hmem : (rule, ρ) ∈ σ.perm k (iterTasks I cfg p dynR rules s₀) :=
    hperm.mem_iff.mpr ((mem_iterTasks I cfg p dynR rules s₀ (rule, ρ)).mpr
      ⟨hr, vs, hvs, evalBody_of_SatV I cfg p s₀ hρ⟩)
  exact h3 (rule, ρ) hmem h hh

end ParPass

end AscentVerif.Engine
