import AscentVerif.Proofs.PlanStep
/-!
# Plan proofs, part 4: evaluation respects look-up equality of environments

The simple-join code binds the variables of the first clause in a different order than `matchArgs` does (join variables
first, from the key).  The resulting environments give every variable the same value but are different lists, so the
rest of the body is evaluated from `EnvEq` environments.  For an interpretation whose functions only look variables up
(`Interp.Ext`), `evalBody` maps `EnvEq` start environments to pointwise-`EnvEq` results.
-/
namespace AscentVerif.Plan
open AscentVerif AscentVerif.Engine AscentVerif.Hir

variable {E B G P A : Type}

/-- the interpreted functions see an environment only through variable look-up -/
structure Ext (I : Interp E B G P A) : Prop where
  expr : ∀ e ρ ρ', EnvEq ρ ρ' → I.expr e ρ = I.expr e ρ'
  test : ∀ b ρ ρ', EnvEq ρ ρ' → I.test b ρ = I.test b ρ'
  gen : ∀ g ρ ρ', EnvEq ρ ρ' → I.gen g ρ = I.gen g ρ'

def OptEnvEq : Option Env → Option Env → Prop
  | none, none => True
  | some a, some b => EnvEq a b
  | _, _ => False

theorem OptEnvEq.refl : ∀ o : Option Env, OptEnvEq o o
  | none => trivial
  | some a => EnvEq.refl a

theorem OptEnvEq.bind {o o' : Option Env} {f f' : Env → Option Env} (h : OptEnvEq o o')
    (hf : ∀ a b, o = some a → o' = some b → EnvEq a b → OptEnvEq (f a) (f' b)) : OptEnvEq (o.bind f) (o'.bind f') := by
  cases o with
  | none => cases o' with
    | none => trivial
    | some b => exact h.elim
  | some a => cases o' with
    | none => exact h.elim
    | some b => exact hf a b rfl rfl h

theorem matchArgs_envEq (I : Interp E B G P A) (hI : Ext I) {ρ₀ ρ₀' : Env} (h0 : EnvEq ρ₀ ρ₀') :
    ∀ (as : List (Arg E)) (xs : Tuple) (acc acc' : Env), EnvEq acc acc' →
      OptEnvEq (matchArgs I ρ₀ as xs acc) (matchArgs I ρ₀' as xs acc')
  | [], [], _, _, h => h
  | [], _ :: _, _, _, _ => by simp [matchArgs, OptEnvEq]
  | a :: _, [], _, _, _ => by cases a <;> simp [matchArgs, OptEnvEq]
  | .var v :: as, x :: xs, acc, acc', h => by
    simp only [matchArgs]
    rw [← h v]
    cases hg : Env.get? acc v with
    | some y =>
      dsimp only
      by_cases hxy : x = y
      · rw [if_pos hxy, if_pos hxy]; exact matchArgs_envEq I hI h0 as xs acc acc' h
      · rw [if_neg hxy, if_neg hxy]; trivial
    | none => exact matchArgs_envEq I hI h0 as xs _ _ (h.cons v x)
  | .expr e :: as, x :: xs, acc, acc', h => by
    simp only [matchArgs]
    rw [← hI.expr e ρ₀ ρ₀' h0]
    by_cases hxy : I.expr e ρ₀ = x
    · rw [if_pos hxy, if_pos hxy]; exact matchArgs_envEq I hI h0 as xs acc acc' h
    · rw [if_neg hxy, if_neg hxy]; trivial

theorem satCond_envEq (I : Interp E B G P A) (hI : Ext I) (c : Cond E B P) {ρ ρ' : Env} (h : EnvEq ρ ρ') :
    OptEnvEq (satCond I c ρ) (satCond I c ρ') := by
  cases c with
  | ifc b =>
    simp only [satCond]
    rw [← hI.test b ρ ρ' h]
    by_cases hb : I.test b ρ = true
    · rw [if_pos hb, if_pos hb]; exact h
    · rw [if_neg hb, if_neg hb]; trivial
  | letc v e =>
    simp only [satCond]
    rw [← hI.expr e ρ ρ' h]
    exact h.cons v _
  | ifLet pt vs e =>
    simp only [satCond]
    rw [← hI.expr e ρ ρ' h]
    cases I.pat pt (I.expr e ρ) with
    | none => trivial
    | some xs =>
      simp only [Option.bind_some]
      by_cases hl : xs.length = vs.length
      · rw [if_pos hl, if_pos hl]; exact EnvEq.append_left _ h
      · rw [if_neg hl, if_neg hl]; trivial

theorem satConds_envEq (I : Interp E B G P A) (hI : Ext I) :
    ∀ (cs : List (Cond E B P)) {ρ ρ' : Env}, EnvEq ρ ρ' → OptEnvEq (satConds I cs ρ) (satConds I cs ρ')
  | [], _, _, h => h
  | c :: cs, _, _, h => by
    simp only [satConds]
    exact (satCond_envEq I hI c h).bind fun a b _ _ hab => satConds_envEq I hI cs hab

theorem bindArgs_envEq (skip : Nat → Var → Bool) :
    ∀ (as : List (Arg E)) (xs : Tuple) (j : Nat) (acc acc' : Env), EnvEq acc acc' →
      OptEnvEq (bindArgs skip j as xs acc) (bindArgs skip j as xs acc')
  | [], [], _, _, _, h => h
  | [], _ :: _, _, _, _, _ => by simp [bindArgs, OptEnvEq]
  | a :: _, [], _, _, _, _ => by cases a <;> simp [bindArgs, OptEnvEq]
  | .var v :: as, x :: xs, j, acc, acc', h => by
    simp only [bindArgs]
    apply bindArgs_envEq skip as xs (j + 1)
    cases skip j v with
    | true => exact h
    | false => exact h.cons v x
  | .expr e :: as, x :: xs, j, acc, acc', h => by
    simp only [bindArgs]
    exact bindArgs_envEq skip as xs (j + 1) _ _ h

theorem matchAggArgs_envEq (I : Interp E B G P A) (hI : Ext I) {ρ ρ' : Env} (h : EnvEq ρ ρ') :
    ∀ (as : List (AggArg E)) (xs : Tuple) (acc : Env), matchAggArgs I ρ as xs acc = matchAggArgs I ρ' as xs acc
  | [], [], _ => rfl
  | [], _ :: _, _ => by simp [matchAggArgs]
  | a :: _, [], _ => by cases a <;> simp [matchAggArgs]
  | .wild :: as, _ :: xs, acc => by simp only [matchAggArgs]; exact matchAggArgs_envEq I hI h as xs acc
  | .bound v :: as, x :: xs, acc => by
    simp only [matchAggArgs]
    cases Env.get? acc v with
    | some y =>
      dsimp only
      rw [matchAggArgs_envEq I hI h as xs acc]
    | none => exact matchAggArgs_envEq I hI h as xs _
  | .key e :: as, x :: xs, acc => by
    simp only [matchAggArgs]
    rw [← hI.expr e ρ ρ' h, matchAggArgs_envEq I hI h as xs acc]

theorem aggEnvs_envEq (I : Interp E B G P A) (hI : Ext I) (a : AggClause E A) {ρ ρ' : Env} (h : EnvEq ρ ρ')
    (tuples : List Tuple) : EnvsEq (aggEnvs I a ρ tuples) (aggEnvs I a ρ' tuples) := by
  have hb : aggBag I a ρ tuples = aggBag I a ρ' tuples := by
    unfold aggBag
    congr 1
    funext t
    rw [matchAggArgs_envEq I hI h]
  unfold aggEnvs
  rw [hb]
  generalize I.agg a.fn (aggBag I a ρ' tuples) = outs
  induction outs with
  | nil => exact .nil
  | cons out outs ih =>
    simp only [List.filterMap_cons]
    by_cases hl : out.length = a.outs.length
    · rw [if_pos hl, if_pos hl]; exact .cons (EnvEq.append_left _ h) ih
    · rw [if_neg hl, if_neg hl]; exact ih

/-- the filter evaluation of a body maps look-up-equal start environments to pointwise look-up-equal results -/
theorem evalBody_envEq (I : Interp E B G P A) (hI : Ext I) (cfg : Config) (p : Program E B G P A) (s : SccSt) :
    ∀ (body : List (Item E B G P A)) (vs : List (Option Ver)) {ρ ρ' : Env}, EnvEq ρ ρ' →
      EnvsEq (evalBody I cfg p s body vs ρ) (evalBody I cfg p s body vs ρ')
  | [], _, _, _, h => by simp only [evalBody]; exact .cons h .nil
  | .clause r args conds :: rest, vs, ρ, ρ', h => by
    rw [evalBody_clause, evalBody_clause]
    unfold semClause
    apply EnvsEq.flatMap
    intro i _
    have hm := matchArgs_envEq I hI h args (rowAt (relSt s.rels r).rows i) ρ ρ' h
    cases h1 : matchArgs I ρ args (rowAt (relSt s.rels r).rows i) ρ with
    | none =>
      cases h2 : matchArgs I ρ' args (rowAt (relSt s.rels r).rows i) ρ' with
      | none => exact .nil
      | some b => rw [h1, h2] at hm; exact hm.elim
    | some a =>
      cases h2 : matchArgs I ρ' args (rowAt (relSt s.rels r).rows i) ρ' with
      | none => rw [h1, h2] at hm; exact hm.elim
      | some b =>
        rw [h1, h2] at hm
        dsimp only
        have hc := satConds_envEq I hI conds (ρ := a) (ρ' := b) hm
        cases h3 : satConds I conds a with
        | none =>
          cases h4 : satConds I conds b with
          | none => exact .nil
          | some d => rw [h3, h4] at hc; exact hc.elim
        | some c =>
          cases h4 : satConds I conds b with
          | none => rw [h3, h4] at hc; exact hc.elim
          | some d =>
            rw [h3, h4] at hc
            exact evalBody_envEq I hI cfg p s rest vs.tail hc
  | .cond c :: rest, vs, ρ, ρ', h => by
    simp only [evalBody]
    have hc := satCond_envEq I hI c h
    cases h3 : satCond I c ρ with
    | none =>
      cases h4 : satCond I c ρ' with
      | none => exact .nil
      | some d => rw [h3, h4] at hc; exact hc.elim
    | some a =>
      cases h4 : satCond I c ρ' with
      | none => rw [h3, h4] at hc; exact hc.elim
      | some d =>
        rw [h3, h4] at hc
        exact evalBody_envEq I hI cfg p s rest vs.tail hc
  | .gen v g :: rest, vs, ρ, ρ', h => by
    simp only [evalBody]
    rw [← hI.gen g ρ ρ' h]
    apply EnvsEq.flatMap
    intro x _
    exact evalBody_envEq I hI cfg p s rest vs.tail (h.cons v x)
  | .agg a :: rest, vs, ρ, ρ', h => by
    simp only [evalBody]
    have := aggEnvs_envEq I hI a h (aggTuples cfg p s a)
    generalize aggEnvs I a ρ (aggTuples cfg p s a) = l1 at this
    generalize aggEnvs I a ρ' (aggTuples cfg p s a) = l2 at this
    induction this with
    | nil => exact .nil
    | cons hab _ ih =>
      simp only [List.flatMap_cons]
      exact (evalBody_envEq I hI cfg p s rest vs.tail hab).append ih

end AscentVerif.Plan
