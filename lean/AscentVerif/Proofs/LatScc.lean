import AscentVerif.Proofs.LatPass
import AscentVerif.Proofs.RunScc
/-!
# One iteration, the loop, and a whole SCC with lattice relations (C03)
-/
namespace AscentVerif.Engine
open AscentVerif

variable {E B G P A : Type}

/-- the rules are closed over `D` up to domination -/
def LClosedRules (I : Interp E B G P A) (L : LatOrder I) (p : Program E B G P A) (rules : List (Rule E B G P A))
    (D : DB) : Prop :=
  ∀ rule ∈ rules, ∀ ρ, Sat I D nAgg rule.body [] ρ → ∀ h ∈ rule.heads, Dominated I L p D (headFact I h ρ)

/-! ## `shift` and the stable part -/

theorem PView_shift {s : SccSt} {r : RelId} {t : Tuple} (h : PView (shift s) r (some .total) t) :
    PView s r (some .totalDelta) t := by
  obtain ⟨i, hrow, hm⟩ := h
  refine ⟨i, hrow, ?_⟩
  cases hd : findDyn s.dyn r with
  | none =>
    have hd' : findDyn (shift s).dyn r = none := by rw [findDyn_shift, hd]; rfl
    exact (PMem_none hd).mpr ((PMem_none hd').mp hm)
  | some d =>
    have hd' : findDyn (shift s).dyn r = some (shiftD d) := by rw [findDyn_shift, hd]; rfl
    obtain ⟨_, hv⟩ := (PMem_some hd').mp hm
    have hv' : i ∈ d.total ++ d.delta ∧ i ∉ d.new := hv
    exact (PMem_some hd).mpr ⟨hv'.2, List.mem_append.mp hv'.1⟩

theorem facts_sub_PView {n : Nat} {dynR : List RelId} {s : SccSt} (hwf : WF n dynR s) (hs : Settled s) (f : Fact)
    (h : FactsS s f) : PView s f.rel (some .total) f.args := by
  obtain ⟨i, hi, hrow⟩ := (mem_iff_rowAt _ _).mp h
  refine ⟨i, hrow, ?_⟩
  cases hd : findDyn s.dyn f.rel with
  | none => exact (PMem_none hd).mpr ((hwf.cover_nd _ hd i).mp hi)
  | some d =>
    obtain ⟨h1, h2⟩ := hs _ d hd
    refine (PMem_some hd).mpr ⟨by rw [h2]; simp, ?_⟩
    show i ∈ d.total ∧ i ∉ d.delta
    rcases (hwf.cover _ d hd i).mp hi with h | h | h
    · exact ⟨h, by rw [h1]; simp⟩
    · rw [h1] at h; cases h
    · rw [h2] at h; cases h

theorem facts_sub_PView_nd {n : Nat} {dynR : List RelId} {s : SccSt} (hwf : WF n dynR s) (r : RelId)
    (hr : dynR.contains r = false) (t : Tuple) (h : t ∈ rowsOf s r) : PView s r (some .total) t := by
  obtain ⟨i, hi, hrow⟩ := (mem_iff_rowAt _ _).mp h
  have hd : findDyn s.dyn r = none := by
    have := hwf.dyn_iff r
    rw [hr] at this
    cases h' : findDyn s.dyn r with
    | none => rfl
    | some d => rw [h'] at this; cases this
  exact ⟨i, hrow, (PMem_none hd).mpr ((hwf.cover_nd _ hd i).mp hi)⟩

section Iter
variable {I : Interp E B G P A} {L : LatOrder I} {p : Program E B G P A} {inp : RelId → List Tuple}
  {dynR : List RelId}

theorem LInv_reset {s : SccSt} (h : LInv I L p inp dynR s) : LInv I L p inp dynR { s with changed := false } :=
  ⟨WF_reset _ _ h.wf, h.dlt, h.keys, h.relset, h.below⟩

theorem LInv_shift {s : SccSt} (h : LInv I L p inp dynR s) : LInv I L p inp dynR (shift s) :=
  ⟨WF_shift h.wf, h.dlt, h.keys, h.relset, h.below⟩

variable (I L p dynR) in
def LFrontier (rules : List (Rule E B G P A)) (Q : Rule E B G P A → Prop) (s : SccSt) : Prop :=
  ∀ rule ∈ rules, Q rule → ∀ ρ, Sat I (fun f => PView s f.rel (some .total) f.args) nAgg rule.body [] ρ →
    ∀ h ∈ rule.heads, Dominated I L p (FactsS s) (headFact I h ρ)

variable (I L p inp dynR) in
structure LLoopInv (rules : List (Rule E B G P A)) (Q : Rule E B G P A → Prop) (s : SccSt) : Prop where
  inv : LInv I L p inp dynR s
  newE : NewEmpty s
  front : LFrontier I L p rules Q s

theorem LLoopInv.weaken {rules : List (Rule E B G P A)} {Q Q' : Rule E B G P A → Prop} {s : SccSt}
    (h : LLoopInv I L p inp dynR rules Q s) (hq : ∀ r, Q' r → Q r) : LLoopInv I L p inp dynR rules Q' s :=
  ⟨h.inv, h.newE, fun rule hr hq' ρ hs hd hh => h.front rule hr (hq _ hq') ρ hs hd hh⟩

/-- **one iteration** (`evalRules` from a state with `changed = false`, then `shift`) -/
theorem iter_step' (rules : List (Rule E B G P A))
    (hrules : ∀ rule ∈ rules, rule ∈ p.rules) (haf : ∀ rule ∈ rules, rule.aggFree = true)
    (hdyn : ∀ rule ∈ rules, ∀ h ∈ rule.heads, dynR.contains h.rel = true)
    (s : SccSt) (hinv : LLoopInv I L p inp dynR rules (hasDyn dynR) s) :
    LLoopInv I L p inp dynR rules (fun _ => True)
        (shift (evalRules I {} p dynR rules { s with changed := false })) ∧
      LExt I L p { s with changed := false } (evalRules I {} p dynR rules { s with changed := false }) := by
  obtain ⟨hinv1, hext, hdone⟩ := evalRules_spec' rules hrules haf hdyn _ (LInv_reset hinv.inv)
  refine ⟨⟨LInv_shift hinv1, ?_, ?_⟩, hext⟩
  · intro r d' hd'
    rw [findDyn_shift] at hd'
    cases hd : findDyn (evalRules I {} p dynR rules { s with changed := false }).dyn r with
    | none => rw [hd] at hd'; cases hd'
    | some d => rw [hd] at hd'; cases hd'; rfl
  · intro rule hr _ ρ hsat h hh
    show Dominated I L p (FactsS (evalRules I {} p dynR rules { s with changed := false })) (headFact I h ρ)
    have hsat' : Sat I (fun f => PView (evalRules I {} p dynR rules { s with changed := false }) f.rel
        (some .totalDelta) f.args) nAgg rule.body [] ρ :=
      Sat.mono (fun f hf => PView_shift hf) hsat
    rcases seminaive_cover I (PView (evalRules I {} p dynR rules { s with changed := false })) dynR
        (fun r hr v v' t hv => PView_nd hinv1.wf hr v v' t hv)
        (fun r t hv => PView_split r t hv) rule (haf rule hr) hsat' with ⟨hn, htot⟩ | ⟨vs, hvs, hsv⟩
    · have htot' : Sat I (fun f => PView s f.rel (some .total) f.args) nAgg rule.body [] ρ :=
        Sat.mono (fun f hf => PView_anti hext hf) htot
      exact Dominated.mono (hinv.front rule hr hn ρ htot' h hh) hext.dble
    · exact hdone rule hr vs hvs ρ hsv h hh

/-- what an SCC state keeps from the program state `st` at SCC entry -/
def LBase (I : Interp E B G P A) (L : LatOrder I) (p : Program E B G P A) (dynR : List RelId) (st : St) (s : SccSt) :
    Prop :=
  (∀ r, dynR.contains r = false → relSt s.rels r = relSt st r) ∧ DBLe I L p (factsOf st) (FactsS s)

theorem LBase_step {n : Nat} {st : St} {s s₁ : SccSt} (hwf : WF n dynR s) (hb : LBase I L p dynR st s)
    (hext : LExt I L p { s with changed := false } s₁) : LBase I L p dynR st (shift s₁) := by
  refine ⟨?_, ?_⟩
  · intro r hr
    have hd : findDyn s.dyn r = none := by
      have := hwf.dyn_iff r
      rw [hr] at this
      cases h' : findDyn s.dyn r with
      | none => rfl
      | some d => rw [h'] at this; cases this
    rw [shift_rels, (hext.nondyn r hd).2]
    exact hb.1 r hr
  · exact DBLe.trans hb.2 hext.dble

/-- the loop of a looping SCC -/
theorem sccLoop_spec' (rules : List (Rule E B G P A))
    (hrules : ∀ rule ∈ rules, rule ∈ p.rules) (haf : ∀ rule ∈ rules, rule.aggFree = true)
    (hdyn : ∀ rule ∈ rules, ∀ h ∈ rule.heads, dynR.contains h.rel = true)
    (dl : Deadline) (st : St) : ∀ (fuel : Nat) (rs rs' : RunSt),
      LLoopInv I L p inp dynR rules (hasDyn dynR) rs.st → LBase I L p dynR st rs.st →
      sccLoop I {} p dynR rules dl fuel rs = .done rs' →
      LLoopInv I L p inp dynR rules (fun _ => True) rs'.st ∧ Settled rs'.st ∧ LBase I L p dynR st rs'.st := by
  intro fuel
  induction fuel with
  | zero => intro rs rs' _ _ h; simp [sccLoop] at h
  | succ fuel ih =>
    intro rs rs' hinv hb h
    obtain ⟨hinv', hext⟩ := iter_step' rules hrules haf hdyn rs.st hinv
    have hb' := LBase_step hinv.inv.wf hb hext
    simp only [sccLoop] at h
    split at h
    · rename_i hch
      simp only [Outcome.done.injEq] at h
      subst h
      refine ⟨hinv', ?_, hb'⟩
      have hch' : (evalRules I {} p dynR rules { rs.st with changed := false }).changed = false := by
        simpa using hch
      have heq := hext.unchanged hch'
      intro r d' hd'
      simp only [] at hd'
      rw [findDyn_shift, heq] at hd'
      cases hd : findDyn rs.st.dyn r with
      | none =>
        have : findDyn ({ rs.st with changed := false } : SccSt).dyn r = none := hd
        rw [this] at hd'; cases hd'
      | some d =>
        have : findDyn ({ rs.st with changed := false } : SccSt).dyn r = some d := hd
        rw [this] at hd'; cases hd'
        exact ⟨hinv.newE r d hd, rfl⟩
    · split at h
      · cases h
      · exact ih _ rs' (hinv'.weaken fun _ _ => trivial) hb' h

end Iter

/-! ## the program-level state invariant, entering and leaving an SCC -/

section Scc
variable (I : Interp E B G P A) (L : LatOrder I) (p : Program E B G P A) (inp : RelId → List Tuple)

structure LPInv (st : St) : Prop where
  len : st.length = p.rels.length
  keys : ∀ r, (declOf p r).lat = true → ((relSt st r).rows.map keyOf).Nodup
  relset : ∀ r, r < p.rels.length → (declOf p r).lat = false → SetRows inp r (relSt st r).rows
  idxAll : ∀ r i, i < (relSt st r).rows.length ↔ i ∈ (relSt st r).idx
  below : ∀ M, Tgt I L p inp M → DBLe I L p (factsOf st) M

variable {I L p inp}

theorem WF_enter' {st : St} (dynR : List RelId) (hp : LPInv I L p inp st) :
    WF p.rels.length dynR (enterScc st dynR) := by
  refine ⟨by rw [enterScc_rels]; exact hp.len, ?_, ?_, ?_, ?_⟩
  · intro r
    rw [findDyn_enter]
    cases dynR.contains r <;> rfl
  · intro d hd
    simp only [enterScc, List.mem_map] at hd
    obtain ⟨x, hx, rfl⟩ := hd
    have := findDyn_enter st dynR x
    rw [List.contains_iff_mem.mpr hx] at this
    exact this
  · intro r d hd i
    rw [findDyn_enter] at hd
    cases hc : dynR.contains r with
    | false => rw [hc] at hd; cases hd
    | true =>
      rw [hc] at hd; cases hd
      simp only [rowsOf, enterScc_rels, List.not_mem_nil, false_or, or_false]
      exact hp.idxAll r i
  · intro r _ i
    simp only [rowsOf, enterScc_rels]
    exact hp.idxAll r i

theorem FactsS_enter (st : St) (dynR : List RelId) : FactsS (enterScc st dynR) = factsOf st := by
  funext f
  simp only [FactsS, factsOf, rowsOf, enterScc_rels]

theorem LLoopInv_enter {st : St} (dynR : List RelId) (hlt : ∀ r, dynR.contains r = true → r < p.rels.length)
    (hp : LPInv I L p inp st) (rules : List (Rule E B G P A)) :
    LLoopInv I L p inp dynR rules (hasDyn dynR) (enterScc st dynR) := by
  refine ⟨⟨WF_enter' dynR hp, hlt, ?_, ?_, ?_⟩, ?_, ?_⟩
  · intro r hl
    simp only [rowsOf, enterScc_rels]; exact hp.keys r hl
  · intro r hr hl
    simp only [rowsOf, enterScc_rels]; exact hp.relset r hr hl
  · intro M hM
    rw [FactsS_enter]; exact hp.below M hM
  · intro r d hd
    rw [findDyn_enter] at hd
    cases hc : dynR.contains r with
    | false => rw [hc] at hd; cases hd
    | true => rw [hc] at hd; cases hd; rfl
  · intro rule _ hq ρ hsat
    exfalso
    apply hq
    refine Sat.no_dyn dynR ?_ hsat
    intro r t hc hD
    obtain ⟨i, _, hm⟩ := hD
    have hd : findDyn (enterScc st dynR).dyn r = some ⟨r, [], (relSt st r).idx, []⟩ := by
      rw [findDyn_enter, hc]; rfl
    have := ((PMem_some hd).mp hm).2
    have h' : i ∈ ([] : List Nat) ∧ i ∉ (relSt st r).idx := this
    cases h'.1

theorem LBase_enter (st : St) (dynR : List RelId) : LBase I L p dynR st (enterScc st dynR) :=
  ⟨fun r _ => by rw [enterScc_rels], by rw [FactsS_enter]; exact DBLe.refl _⟩

/-- storing the indices back: `idx := total` for the dynamic relations -/
theorem leave_spec' {dynR : List RelId} {s : SccSt} (hinv : LInv I L p inp dynR s) (hs : Settled s) :
    LPInv I L p inp (leaveScc s) ∧ factsOf (leaveScc s) = FactsS s ∧
      (∀ r, dynR.contains r = false → relSt (leaveScc s) r = relSt s.rels r) := by
  have hwf := hinv.wf
  have hdlt : ∀ d ∈ s.dyn, d.rel < s.rels.length := by
    intro d hd
    rw [hwf.len]
    apply hinv.dlt
    rw [← hwf.dyn_iff, hwf.uniq d hd]; rfl
  have hrows : ∀ r, (relSt (leaveScc s) r).rows = rowsOf s r := fun r => by
    rw [leaveScc_eq]; exact leave_rows r s.dyn s.rels hdlt
  have hnd : ∀ r, findDyn s.dyn r = none → relSt (leaveScc s) r = relSt s.rels r := by
    intro r hd
    rw [leaveScc_eq]
    apply leave_untouched
    intro d hdm hrel
    have := List.find?_eq_none.mp hd d hdm
    simp [hrel] at this
  have hfacts : factsOf (leaveScc s) = FactsS s := by
    funext f
    simp only [factsOf, FactsS, hrows]
  refine ⟨⟨?_, ?_, ?_, ?_, ?_⟩, hfacts, ?_⟩
  · rw [leaveScc_eq, leave_length]; exact hwf.len
  · intro r hl
    rw [hrows]; exact hinv.keys r hl
  · intro r hr hl
    rw [hrows]; exact hinv.relset r hr hl
  · intro r i
    cases hd : findDyn s.dyn r with
    | none =>
      rw [hnd r hd]; exact hwf.cover_nd r hd i
    | some d =>
      have hidx : (relSt (leaveScc s) r).idx = d.total := by
        rw [leaveScc_eq]
        apply leave_touched r d.total s.dyn s.rels hdlt
        · intro d' hd' hrel
          have := hwf.uniq d' hd'
          rw [hrel, hd] at this
          cases this; rfl
        · exact .inl ⟨d, findDyn_mem hd, findDyn_rel hd⟩
      rw [hrows, hidx, hwf.cover r d hd i]
      obtain ⟨h1, h2⟩ := hs r d hd
      rw [h1, h2]; simp
  · intro M hM
    rw [hfacts]; exact hinv.below M hM
  · intro r hr
    apply hnd
    have := hwf.dyn_iff r
    rw [hr] at this
    cases h' : findDyn s.dyn r with
    | none => rfl
    | some d => rw [h'] at this; cases this

theorem leave_full' {dynR : List RelId} {st : St} {s : SccSt} (rules : List (Rule E B G P A))
    (hinv : LInv I L p inp dynR s) (hs : Settled s) (hb : LBase I L p dynR st s)
    (hcl : LClosedRules I L p rules (FactsS s)) :
    LPInv I L p inp (leaveScc s) ∧
      (∀ r, dynR.contains r = false → relSt (leaveScc s) r = relSt st r) ∧
      DBLe I L p (factsOf st) (factsOf (leaveScc s)) ∧
      LClosedRules I L p rules (factsOf (leaveScc s)) := by
  obtain ⟨h1, h2, h3⟩ := leave_spec' hinv hs
  refine ⟨h1, fun r hr => by rw [h3 r hr]; exact hb.1 r hr, ?_, ?_⟩
  · rw [h2]; exact hb.2
  · rw [h2]; exact hcl

/-- **one SCC** -/
theorem runScc_spec' (haf : ∀ r ∈ p.rules, r.aggFree = true)
    (hh : ∀ r ∈ p.rules, ∀ h ∈ r.heads, h.rel < p.rels.length)
    (dl : Deadline) (fuel : Nat) (scc : List Nat) (ps ps' : ProgSt)
    (hp : LPInv I L p inp ps.st) (h : runScc I {} p dl fuel scc ps = .done ps') :
    LPInv I L p inp ps'.st ∧
      (∀ r, (dynRels p scc).contains r = false → relSt ps'.st r = relSt ps.st r) ∧
      DBLe I L p (factsOf ps.st) (factsOf ps'.st) ∧
      LClosedRules I L p (sccRules p scc) (factsOf ps'.st) := by
  have hrules := sccRules_sub p scc
  have hafs : ∀ rule ∈ sccRules p scc, rule.aggFree = true := fun r hr => haf r (hrules r hr)
  have hdyn : ∀ rule ∈ sccRules p scc, ∀ h ∈ rule.heads, (dynRels p scc).contains h.rel = true :=
    fun rule hr h hhd => (dynRels_mem p scc h.rel).mpr ⟨rule, hr, h, hhd, rfl⟩
  have hlt : ∀ r, (dynRels p scc).contains r = true → r < p.rels.length := by
    intro r hr
    obtain ⟨rule, hrule, h, hhd, rfl⟩ := (dynRels_mem p scc r).mp hr
    exact hh rule (hrules rule hrule) h hhd
  have hinv0 := LLoopInv_enter (dynRels p scc) hlt hp (sccRules p scc)
  have hb0 : LBase I L p (dynRels p scc) ps.st (enterScc ps.st (dynRels p scc)) := LBase_enter ps.st (dynRels p scc)
  simp only [runScc] at h
  split at h
  · -- looping
    split at h
    · rename_i rs hloop
      simp only [Outcome.done.injEq] at h
      subst h
      obtain ⟨hinv, hset, hb⟩ := sccLoop_spec' (sccRules p scc) hrules hafs hdyn dl ps.st fuel _ rs hinv0 hb0 hloop
      apply leave_full' (sccRules p scc) hinv.inv hset hb
      intro rule hr ρ hsat hd hhd
      refine hinv.front rule hr trivial ρ (Sat.mono ?_ hsat) hd hhd
      exact fun f hf => facts_sub_PView hinv.inv.wf hset f hf
    · cases h
    · cases h
  · -- not looping
    rename_i hnl
    have hnl' : isLooping p scc = false := by simpa using hnl
    split at h
    · cases h
    · simp only [Outcome.done.injEq] at h
      subst h
      obtain ⟨hinv, hext⟩ := iter_step' (sccRules p scc) hrules hafs hdyn _ hinv0
      have hb := LBase_step hinv0.inv.wf hb0 hext
      have hinv2 := LInv_shift hinv.inv
      have hset : Settled (shift (shift (evalRules I {} p (dynRels p scc) (sccRules p scc)
          (enterScc ps.st (dynRels p scc))))) := by
        intro r d'' hd''
        rw [findDyn_shift] at hd''
        cases hd : findDyn (shift (evalRules I {} p (dynRels p scc) (sccRules p scc)
            (enterScc ps.st (dynRels p scc)))).dyn r with
        | none => rw [hd] at hd''; cases hd''
        | some d' =>
          rw [hd] at hd''; cases hd''
          exact ⟨hinv.newE r d' hd, rfl⟩
      have hb2 : LBase I L p (dynRels p scc) ps.st (shift (shift (evalRules I {} p (dynRels p scc) (sccRules p scc)
          (enterScc ps.st (dynRels p scc))))) := hb
      apply leave_full' (sccRules p scc) hinv2 hset hb2
      intro rule hr ρ hsat hd hhd
      refine hinv.front rule hr trivial ρ (Sat.congr_rels hsat ?_) hd hhd
      intro r hr' t ht
      exact facts_sub_PView_nd hinv.inv.wf r (notLooping p scc hnl' rule hr r hr') t ht

end Scc

end AscentVerif.Engine
