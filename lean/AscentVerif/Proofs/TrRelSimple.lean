import AscentVerif.Proofs.TrRelSound
/-!
# `TrRelUnionFind` on histories without class collapse

As long as no back edge has been added, `set_subsumptions` is empty, every set is the
singleton of its element, and `set_connections` / `reverse_set_connections` only contain pairs
justified by the added edges.  `t.subs = []` on the *final* state characterises such
histories, because `merge_multiple` always records a subsumption and nothing ever removes one.
-/
namespace AscentVerif

theorem ReflTransGen.trans {α : Type} {r : α → α → Prop} {a b c : α} (h1 : ReflTransGen r a b)
    (h2 : ReflTransGen r b c) : ReflTransGen r a c := by
  induction h2 with
  | refl => exact h1
  | tail _ hr ih => exact .tail ih hr

theorem ReflTransGen.single {α : Type} {r : α → α → Prop} {a b : α} (h : r a b) : ReflTransGen r a b :=
  .tail (.refl a) h

theorem ReflTransGen.mono {α : Type} {r r' : α → α → Prop} (h : ∀ a b, r a b → r' a b) {a b : α}
    (e : ReflTransGen r a b) : ReflTransGen r' a b := by
  induction e with
  | refl => exact .refl _
  | tail _ hr ih => exact .tail ih (h _ _ hr)

namespace TrRel

/-- reachability through the added pairs -/
def Reach (ps : List (Int × Int)) : Int → Int → Prop := ReflTransGen fun a b => (a, b) ∈ ps

theorem Reach.mono {ps ps' : List (Int × Int)} (h : ∀ p, p ∈ ps → p ∈ ps') {a b : Int} (e : Reach ps a b) :
    Reach ps' a b := ReflTransGen.mono (fun _ _ hp => h _ hp) e

theorem mentioned_append (ps : List (Int × Int)) (x y z : Int) :
    Mentioned (ps ++ [(x, y)]) z ↔ Mentioned ps z ∨ z = x ∨ z = y := by
  unfold Mentioned
  constructor
  · rintro ⟨p, hp, h⟩
    rcases List.mem_append.mp hp with hp | hp
    · exact Or.inl ⟨p, hp, h⟩
    · simp at hp; subst hp
      rcases h with h | h
      · exact Or.inr (Or.inl h.symm)
      · exact Or.inr (Or.inr h.symm)
  · rintro (⟨p, hp, h⟩ | rfl | rfl)
    · exact ⟨p, List.mem_append_left _ hp, h⟩
    · exact ⟨(z, y), by simp, Or.inl rfl⟩
    · exact ⟨(x, z), by simp, Or.inr rfl⟩

/-! ## the dominant id when nothing was merged -/

theorem getDominantId_nil {t : TrRel} (h : t.subs = []) (id : Nat) : t.getDominantId id = .ok id := by
  simp [TrRel.getDominantId, h, TrRel.getDominantIdAux, alGet]

theorem getDominantIdMut_nil {t : TrRel} (h : t.subs = []) (id : Nat) : t.getDominantIdMut id = .ok (t, id) := by
  cases t
  simp only at h; subst h
  simp [TrRel.getDominantIdMut, TrRel.getDominantIdMutAux, alGet]

theorem elemSet_nil {t : TrRel} (h : t.subs = []) (x : Int) : t.elemSet x = .ok (alGet t.elemIds x) := by
  unfold TrRel.elemSet
  cases hx : alGet t.elemIds x with
  | none => rfl
  | some id => simp [getDominantId_nil h]

theorem elemSetUpdate_nil {t : TrRel} (h : t.subs = []) (x : Int) : t.elemSetUpdate x = .ok (t, alGet t.elemIds x) := by
  unfold TrRel.elemSetUpdate
  cases hx : alGet t.elemIds x with
  | none => rfl
  | some id => simp [getDominantIdMut_nil h]

/-- the state after `add_node_new` created a fresh singleton set for `x` -/
def withNew (t : TrRel) (x : Int) : TrRel :=
  { t with sets := t.sets ++ [[x]], elemIds := alSet t.elemIds x t.sets.length }

/-- `add_node_new` when nothing was merged: either the element is known (state unchanged) or a
fresh singleton set is appended -/
theorem addNodeNew_nil {t t' : TrRel} (h : t.subs = []) {x : Int} {id : Nat} {isNew : Bool}
    (he : t.addNodeNew x = .ok (t', id, isNew)) :
    (alGet t.elemIds x = some id ∧ isNew = false ∧ t' = t) ∨
    (alGet t.elemIds x = none ∧ isNew = true ∧ id = t.sets.length ∧ t' = withNew t x) := by
  unfold TrRel.addNodeNew at he
  rw [elemSetUpdate_nil h] at he
  simp only [Res.bind_ok] at he
  cases hx : alGet t.elemIds x with
  | some setId =>
    rw [hx] at he
    simp only at he
    split at he
    · cases he
    · simp only [Res.pure_eq, Res.ok.injEq, Prod.mk.injEq] at he
      obtain ⟨rfl, rfl, rfl⟩ := he
      exact Or.inl ⟨rfl, rfl, rfl⟩
  | none =>
    rw [hx] at he
    simp only at he
    split at he
    · cases he
    · simp only [Res.pure_eq, Res.ok.injEq, Prod.mk.injEq] at he
      obtain ⟨rfl, rfl, rfl⟩ := he
      exact Or.inr ⟨rfl, rfl, rfl, rfl⟩

/-! ## the invariant of collapse-free histories -/

/-- nothing was merged: no subsumptions, every set is the singleton of its element -/
structure Simple (t : TrRel) : Prop where
  subs_nil : t.subs = []
  set_of_id : ∀ x i, alGet t.elemIds x = some i → t.sets[i]? = some [x]
  id_of_set : ∀ i s, t.sets[i]? = some s → ∃ x, s = [x] ∧ alGet t.elemIds x = some i

/-- set-level image of an element-level relation -/
def G (t : TrRel) (R : Int → Int → Prop) (a b : Nat) : Prop :=
  ∃ x y, t.sets[a]? = some [x] ∧ t.sets[b]? = some [y] ∧ R x y

theorem G.trans {t : TrRel} {R : Int → Int → Prop} (hR : ∀ a b c, R a b → R b c → R a c) (a b c : Nat)
    (h1 : G t R a b) (h2 : G t R b c) : G t R a c := by
  obtain ⟨x, y, hx, hy, hxy⟩ := h1
  obtain ⟨y', z, hy', hz, hyz⟩ := h2
  rw [hy] at hy'; cases hy'
  exact ⟨x, z, hx, hz, hR _ _ _ hxy hyz⟩

theorem simple_empty : Simple {} := by
  refine ⟨rfl, ?_, ?_⟩ <;> simp [alGet]

theorem Simple.withNew {t : TrRel} (S : Simple t) {x : Int} (hx : alGet t.elemIds x = none) : Simple (withNew t x) := by
  refine ⟨S.subs_nil, ?_, ?_⟩
  · intro x' i hi
    simp only [TrRel.withNew] at hi ⊢
    rw [alGet_alSet] at hi
    by_cases h : x = x'
    · subst h; rw [if_pos rfl] at hi; cases hi
      rw [List.getElem?_append_right (Nat.le_refl _)]; simp
    · rw [if_neg h] at hi
      have := S.set_of_id x' i hi
      have hlt : i < t.sets.length := (List.getElem?_eq_some_iff.mp this).1
      rw [List.getElem?_append_left hlt]; exact this
  · intro i s hs
    simp only [TrRel.withNew] at hs ⊢
    by_cases hlt : i < t.sets.length
    · rw [List.getElem?_append_left hlt] at hs
      obtain ⟨x', rfl, hx'⟩ := S.id_of_set i s hs
      refine ⟨x', rfl, ?_⟩
      rw [alGet_alSet]
      have : x ≠ x' := by intro h; subst h; rw [hx] at hx'; cases hx'
      rw [if_neg this]; exact hx'
    · have hge : t.sets.length ≤ i := by omega
      rw [List.getElem?_append_right hge] at hs
      have : i - t.sets.length = 0 := by
        apply Classical.byContradiction; intro h
        rw [List.getElem?_eq_none (by simp; omega)] at hs; cases hs
      rw [this] at hs; simp at hs; subst hs
      refine ⟨x, rfl, ?_⟩
      rw [alGet_alSet, if_pos rfl]
      congr 1; omega

theorem G.withNew {t : TrRel} {R R' : Int → Int → Prop} (hR : ∀ a b, R a b → R' a b) (x : Int) (a b : Nat)
    (h : G t R a b) : G (withNew t x) R' a b := by
  obtain ⟨x', y', hx', hy', hr⟩ := h
  have ha : a < t.sets.length := (List.getElem?_eq_some_iff.mp hx').1
  have hb : b < t.sets.length := (List.getElem?_eq_some_iff.mp hy').1
  refine ⟨x', y', ?_, ?_, hR _ _ hr⟩
  · simp only [TrRel.withNew]; rw [List.getElem?_append_left ha]; exact hx'
  · simp only [TrRel.withNew]; rw [List.getElem?_append_left hb]; exact hy'

/-! ## subsumptions never disappear, and a collapse always records one -/

theorem alSet_ne_nil {κ β : Type} [DecidableEq κ] (m : List (κ × β)) (k : κ) (v : β) : alSet m k v ≠ [] := by
  cases m with
  | nil => simp [alSet]
  | cons a t =>
    obtain ⟨a1, a2⟩ := a
    simp only [alSet]
    split <;> simp

theorem getDominantIdMutAux_ne_nil {subs subs' : List (Nat × Nat)} {id d fuel : Nat} (h : subs ≠ [])
    (he : TrRel.getDominantIdMutAux subs id fuel = .ok (subs', d)) : subs' ≠ [] := by
  induction fuel generalizing id subs' d with
  | zero => simp [TrRel.getDominantIdMutAux] at he
  | succ fuel ih =>
    unfold TrRel.getDominantIdMutAux at he
    split at he
    · next parent _ =>
      split at he
      · cases he
      · next subs1 dom h1 =>
        simp only [Res.ok.injEq, Prod.mk.injEq] at he
        obtain ⟨rfl, _⟩ := he
        split
        · exact alSet_ne_nil _ _ _
        · exact ih h1
    · simp only [Res.ok.injEq, Prod.mk.injEq] at he
      obtain ⟨rfl, _⟩ := he; exact h

theorem elemSetUpdate_subs_ne_nil {t t' : TrRel} {x : Int} {r : Option Nat} (h : t.subs ≠ [])
    (he : t.elemSetUpdate x = .ok (t', r)) : t'.subs ≠ [] := by
  unfold TrRel.elemSetUpdate at he
  split at he
  · cases he; exact h
  · next id _ =>
    obtain ⟨⟨t1, dom⟩, h1, he⟩ := Res.bind_eq_ok he
    unfold TrRel.getDominantIdMut at h1
    split at h1
    · cases h1
    · next subs' dom' h2 =>
      cases h1
      simp only [Res.pure_eq, Res.ok.injEq, Prod.mk.injEq] at he
      obtain ⟨rfl, _⟩ := he
      have := getDominantIdMutAux_ne_nil h h2
      split <;> exact this

theorem addNodeNew_subs_ne_nil {t t' : TrRel} {x : Int} {r : Nat × Bool} (h : t.subs ≠ [])
    (he : t.addNodeNew x = .ok (t', r)) : t'.subs ≠ [] := by
  unfold TrRel.addNodeNew at he
  obtain ⟨⟨t1, r1⟩, h1, he⟩ := Res.bind_eq_ok he
  have h2 := elemSetUpdate_subs_ne_nil h h1
  cases r1 with
  | some setId =>
    simp only at he
    split at he
    · cases he
    · cases he; exact h2
  | none =>
    simp only at he
    split at he
    · cases he
    · cases he; exact h2

theorem foldl_subs {α : Type} (f : TrRel → α → TrRel) (hf : ∀ t z, (f t z).subs = t.subs) (l : List α) (t : TrRel) :
    (l.foldl f t).subs = t.subs := by
  induction l generalizing t with
  | nil => rfl
  | cons z rest ih => simp only [List.foldl_cons]; rw [ih, hf]

theorem mergeFixForward_subs (t : TrRel) (s frm to : Nat) (ib : NSet) : (t.mergeFixForward s frm to ib).subs = t.subs := by
  unfold TrRel.mergeFixForward
  split
  · rfl
  · apply foldl_subs; intro t z; rfl

theorem mergeFixBackward_subs (t : TrRel) (s frm to : Nat) (ib : NSet) : (t.mergeFixBackward s frm to ib).subs = t.subs := by
  unfold TrRel.mergeFixBackward
  split
  · rfl
  · apply foldl_subs; intro t z; rfl

theorem mergeAbsorb_subs_ne_nil {t t' : TrRel} {frm : Nat} {l : List Nat} (h : l ≠ [] ∨ t.subs ≠ [])
    (he : t.mergeAbsorb frm l = .ok t') : t'.subs ≠ [] := by
  induction l generalizing t with
  | nil =>
    simp only [TrRel.mergeAbsorb] at he; cases he
    rcases h with h | h
    · exact absurd rfl h
    · exact h
  | cons s rest ih =>
    unfold TrRel.mergeAbsorb at he
    split at he
    · cases he
    · obtain ⟨sTaken, _, he⟩ := Res.bind_eq_ok he
      obtain ⟨fromSet, _, he⟩ := Res.bind_eq_ok he
      exact ih (Or.inr (alSet_ne_nil _ _ _)) he

theorem mergeMultiple_subs_ne_nil {t t' : TrRel} {frm to m : Nat} {ib : NSet}
    (he : t.mergeMultiple frm to ib = .ok (t', m)) : t'.subs ≠ [] := by
  unfold TrRel.mergeMultiple at he
  simp only at he
  obtain ⟨tA, hA, he⟩ := Res.bind_eq_ok he
  have hne := mergeAbsorb_subs_ne_nil (Or.inl (by simp)) hA
  obtain ⟨fromConn, _, he⟩ := Res.bind_eq_ok he
  obtain ⟨fromRev, _, he⟩ := Res.bind_eq_ok he
  split at he
  · cases he
  · cases he; exact hne

theorem addSetConnection_core {t t' : TrRel} {f to : Nat} {b : Bool} (he : t.addSetConnection f to = .ok (t', b)) :
    SameCore t t' :=
  (addSetConnection_le (G := fun _ _ => True) (fun _ _ _ _ _ => trivial) ⟨fun _ _ _ => trivial, fun _ _ _ => trivial⟩
    trivial he).2

/-- a state with subsumptions keeps having subsumptions -/
theorem add_subs_ne_nil {t t' : TrRel} {x y : Int} {b : Bool} (h : t.subs ≠ []) (he : t.add x y = .ok (t', b)) :
    t'.subs ≠ [] := by
  unfold TrRel.add at he
  obtain ⟨⟨t1, xSet, xNew⟩, h1, he⟩ := Res.bind_eq_ok he
  obtain ⟨⟨t2, ySet, yNew⟩, h2, he⟩ := Res.bind_eq_ok he
  have hs2 := addNodeNew_subs_ne_nil (addNodeNew_subs_ne_nil h h1) h2
  simp only at he
  split at he
  · obtain ⟨⟨t3, _⟩, h3, he⟩ := Res.bind_eq_ok he
    cases he; rw [(addSetConnection_core h3).2.2]; exact hs2
  · split at he
    · cases he; exact hs2
    · split at he
      · obtain ⟨_, _, he⟩ := Res.bind_eq_ok he
        obtain ⟨_, _, he⟩ := Res.bind_eq_ok he
        obtain ⟨_, _, he⟩ := Res.bind_eq_ok he
        obtain ⟨_, _, he⟩ := Res.bind_eq_ok he
        obtain ⟨⟨t3, _⟩, _, he⟩ := Res.bind_eq_ok he
        obtain ⟨⟨t4, merged⟩, h4, he⟩ := Res.bind_eq_ok he
        have hne := mergeMultiple_subs_ne_nil h4
        simp only at he
        split at he
        · cases he
        · split at he
          · cases he
          · cases he; exact hne
      · obtain ⟨⟨t3, _⟩, h3, he⟩ := Res.bind_eq_ok he
        cases he; rw [(addSetConnection_core h3).2.2]; exact hs2

/-- the invariant of a collapse-free history `ps` -/
structure SoundFor (t : TrRel) (ps : List (Int × Int)) : Prop where
  simple : Simple t
  ids : ∀ x, (alGet t.elemIds x).isSome = true ↔ Mentioned ps x
  le : ConnLe (G t (Reach ps)) t
  /-- every added pair is stored (or is a self pair) -/
  added : ∀ p, p ∈ ps → p.1 = p.2 ∨ ∃ a b, alGet t.elemIds p.1 = some a ∧ alGet t.elemIds p.2 = some b ∧ rel t.conn a b
  /-- `assert_disjoint_invariant` holds -/
  disjoint : t.disjointInvariant = true

/-- `add_node_new` only returns normally if `assert_disjoint_invariant` held on its result -/
theorem addNodeNew_disjoint {t t' : TrRel} {x : Int} {r : Nat × Bool} (he : t.addNodeNew x = .ok (t', r)) :
    t'.disjointInvariant = true := by
  unfold TrRel.addNodeNew at he
  obtain ⟨⟨t1, r1⟩, _, he⟩ := Res.bind_eq_ok he
  cases r1 with
  | some setId =>
    simp only at he
    split at he
    · cases he
    · next h => cases he; simpa using h
  | none =>
    simp only at he
    split at he
    · cases he
    · next h => cases he; simpa using h

theorem soundFor_empty : SoundFor {} [] := by
  refine ⟨simple_empty, ?_, ⟨?_, ?_⟩, by simp, by decide⟩
  · intro x; simp [alGet, Mentioned]
  · intro a b h; simp [rel, alGet] at h
  · intro a b h; simp [rel, alGet] at h

/-- `add_node_new` in a collapse-free state: the invariant is kept (for any larger history), the
returned id is the element's singleton set, existing sets stay where they are -/
theorem addNodeNew_sound {t t' : TrRel} {ps ps' : List (Int × Int)} (S : Simple t) (L : ConnLe (G t (Reach ps)) t)
    {x : Int} {id : Nat} {isNew : Bool}
    (he : t.addNodeNew x = .ok (t', id, isNew)) (hps : ∀ p, p ∈ ps → p ∈ ps') :
    Simple t' ∧ ConnLe (G t' (Reach ps')) t' ∧ t'.sets[id]? = some [x] ∧
      (∀ z, (alGet t'.elemIds z).isSome = true ↔ ((alGet t.elemIds z).isSome = true ∨ z = x)) ∧
      (∀ (a : Nat) (s : List Int), t.sets[a]? = some s → t'.sets[a]? = some s) ∧
      alGet t'.elemIds x = some id ∧ (∀ z a, alGet t.elemIds z = some a → alGet t'.elemIds z = some a) ∧
      t'.conn = t.conn ∧ t'.rconn = t.rconn ∧ (t'.sets.length = t.sets.length ∨ (id = t.sets.length ∧ alGet t.elemIds x = none)) := by
  have hmono : ∀ a b, Reach ps a b → Reach ps' a b := fun a b h => h.mono hps
  rcases addNodeNew_nil S.subs_nil he with ⟨hx, _, rfl⟩ | ⟨hx, _, rfl, rfl⟩
  · refine ⟨S, ⟨?_, ?_⟩, S.set_of_id x id hx, ?_, fun _ _ h => h, hx, fun _ _ h => h, rfl, rfl, Or.inl rfl⟩
    · intro a b h
      obtain ⟨x', y', h1, h2, h3⟩ := L.conn a b h
      exact ⟨x', y', h1, h2, hmono _ _ h3⟩
    · intro a b h
      obtain ⟨x', y', h1, h2, h3⟩ := L.rconn a b h
      exact ⟨x', y', h1, h2, hmono _ _ h3⟩
    · intro z
      constructor
      · exact Or.inl
      · rintro (h | rfl)
        · exact h
        · simp [hx]
  · refine ⟨S.withNew hx, ⟨?_, ?_⟩, ?_, ?_, ?_, ?_, ?_, rfl, rfl, Or.inr ⟨rfl, hx⟩⟩
    rotate_left 5
    · simp only [withNew]; rw [alGet_alSet, if_pos rfl]
    · intro z a hz
      simp only [withNew]; rw [alGet_alSet]
      have : x ≠ z := by intro h; subst h; rw [hx] at hz; cases hz
      rw [if_neg this]; exact hz
    · intro a b h; exact G.withNew hmono x a b (L.conn a b h)
    · intro a b h; exact G.withNew hmono x b a (L.rconn a b h)
    · simp only [withNew]; rw [List.getElem?_append_right (Nat.le_refl _)]; simp
    · intro z
      simp only [withNew]
      rw [alGet_alSet]
      by_cases hz : x = z
      · subst hz; simp
      · rw [if_neg hz]
        constructor
        · exact Or.inl
        · rintro (h | rfl)
          · exact h
          · exact absurd rfl hz
    · intro a s' h
      simp only [withNew]
      rw [List.getElem?_append_left (List.getElem?_eq_some_iff.mp h).1]; exact h

theorem reach_trans (ps : List (Int × Int)) (a b c : Int) (h1 : Reach ps a b) (h2 : Reach ps b c) : Reach ps a c :=
  ReflTransGen.trans h1 h2

theorem Simple.of_core {t t' : TrRel} (c : SameCore t t') (S : Simple t) : Simple t' := by
  obtain ⟨c1, c2, c3⟩ := c
  refine ⟨by rw [c3]; exact S.subs_nil, ?_, ?_⟩
  · intro x i h; rw [c2] at h; rw [c1]; exact S.set_of_id x i h
  · intro i s' h; rw [c1] at h; rw [c2]; exact S.id_of_set i s' h

theorem connLe_of_core {t t' : TrRel} {R : Int → Int → Prop} (c : SameCore t t') (L : ConnLe (G t R) t') :
    ConnLe (G t' R) t' := by
  have e : G t' R = G t R := by unfold G; rw [c.1]
  rw [e]; exact L

/-- `add` on a collapse-free state whose result is still collapse-free keeps the invariant -/
theorem add_sound {t t' : TrRel} {ps : List (Int × Int)} {x y : Int} {b : Bool} (S : SoundFor t ps)
    (he : t.add x y = .ok (t', b)) (hs : t'.subs = []) : SoundFor t' (ps ++ [(x, y)]) := by
  unfold TrRel.add at he
  obtain ⟨⟨t1, xSet, xNew⟩, h1, he⟩ := Res.bind_eq_ok he
  obtain ⟨⟨t2, ySet, yNew⟩, h2, he⟩ := Res.bind_eq_ok he
  have hsub : ∀ p, p ∈ ps → p ∈ ps ++ [(x, y)] := fun p hp => List.mem_append_left _ hp
  obtain ⟨S1, L1, hx1, ids1, _, hidx1, keepid1, hc1, _, _⟩ := addNodeNew_sound S.simple S.le h1 hsub
  obtain ⟨S2, L2, hy2, ids2, keep2, hidy2, keepid2, hc2, _, _⟩ := addNodeNew_sound S1 L1 h2 (fun p hp => hp)
  have hx2 := keep2 _ _ hx1
  have hidx2 := keepid2 _ _ hidx1
  have ids : ∀ z, (alGet t2.elemIds z).isSome = true ↔ Mentioned (ps ++ [(x, y)]) z := by
    intro z; rw [ids2, ids1, S.ids, mentioned_append]
    constructor
    · rintro ((h | h) | h)
      · exact Or.inl h
      · exact Or.inr (Or.inl h)
      · exact Or.inr (Or.inr h)
    · rintro (h | h | h)
      · exact Or.inl (Or.inl h)
      · exact Or.inl (Or.inr h)
      · exact Or.inr h
  have hG : G t2 (Reach (ps ++ [(x, y)])) xSet ySet :=
    ⟨x, y, hx2, hy2, ReflTransGen.single (by simp)⟩
  have htr := G.trans (t := t2) (reach_trans (ps ++ [(x, y)]))
  -- the pairs added before are still stored in `t2`
  have old2 : ∀ p, p ∈ ps → p.1 = p.2 ∨ ∃ a b, alGet t2.elemIds p.1 = some a ∧ alGet t2.elemIds p.2 = some b ∧ rel t2.conn a b := by
    intro p hp
    rcases S.added p hp with h | ⟨a, b', ha, hb, hr⟩
    · exact Or.inl h
    · exact Or.inr ⟨a, b', keepid2 _ _ (keepid1 _ _ ha), keepid2 _ _ (keepid1 _ _ hb), by rw [hc2, hc1]; exact hr⟩
  have viaConn : ∀ {t3 : TrRel} {b3 : Bool}, t2.addSetConnection xSet ySet = .ok (t3, b3) →
      SoundFor t3 (ps ++ [(x, y)]) := by
    intro t3 b3 h3
    obtain ⟨L3, c3⟩ := addSetConnection_le htr L2 hG h3
    obtain ⟨hge, hnew⟩ := addSetConnection_ge h3
    refine ⟨S2.of_core c3, by intro z; rw [c3.2.1]; exact ids z, connLe_of_core c3 L3, ?_,
      by unfold TrRel.disjointInvariant; rw [c3.1]; exact addNodeNew_disjoint h2⟩
    intro p hp
    rw [c3.2.1]
    rcases List.mem_append.mp hp with hp | hp
    · rcases old2 p hp with h | ⟨a, b', ha, hb, hr⟩
      · exact Or.inl h
      · exact Or.inr ⟨a, b', ha, hb, hge _ _ hr⟩
    · simp at hp; subst hp
      exact Or.inr ⟨xSet, ySet, hidx2, hidy2, hnew⟩
  simp only at he
  split at he
  · obtain ⟨⟨t3, _⟩, h3, he⟩ := Res.bind_eq_ok he
    cases he; exact viaConn h3
  · split at he
    · next hxy =>
      cases he
      refine ⟨S2, ids, L2, ?_, addNodeNew_disjoint h2⟩
      intro p hp
      rcases List.mem_append.mp hp with hp | hp
      · exact old2 p hp
      · simp at hp; subst hp
        left
        rw [hxy, hy2] at hx2
        simpa using hx2.symm
    · split at he
      · exfalso
        obtain ⟨_, _, he⟩ := Res.bind_eq_ok he
        obtain ⟨_, _, he⟩ := Res.bind_eq_ok he
        obtain ⟨_, _, he⟩ := Res.bind_eq_ok he
        obtain ⟨_, _, he⟩ := Res.bind_eq_ok he
        obtain ⟨⟨t3, _⟩, _, he⟩ := Res.bind_eq_ok he
        obtain ⟨⟨t4, merged⟩, h4, he⟩ := Res.bind_eq_ok he
        have hne := mergeMultiple_subs_ne_nil h4
        simp only at he
        split at he
        · cases he
        · split at he
          · cases he
          · cases he; exact hne hs
      · obtain ⟨⟨t3, _⟩, h3, he⟩ := Res.bind_eq_ok he
        cases he; exact viaConn h3

/-- a whole history that ends collapse-free was collapse-free throughout and keeps the invariant -/
theorem run_sound {t t' : TrRel} {ps rest : List (Int × Int)} (S : SoundFor t ps)
    (he : run t rest = .ok t') (hs : t'.subs = []) : SoundFor t' (ps ++ rest) := by
  induction rest generalizing t ps with
  | nil => simp only [run] at he; cases he; simpa using S
  | cons p rest ih =>
    obtain ⟨x, y⟩ := p
    simp only [run] at he
    split at he
    · next t1 b1 h1 =>
      have hs1 : t1.subs = [] := by
        apply Classical.byContradiction; intro hne
        -- subsumptions never disappear
        have : ∀ (l : List (Int × Int)) (u u' : TrRel), u.subs ≠ [] → run u l = .ok u' → u'.subs ≠ [] := by
          intro l
          induction l with
          | nil => intro u u' hu h; simp only [run] at h; cases h; exact hu
          | cons q l ihl =>
            intro u u' hu h
            obtain ⟨a, c⟩ := q
            simp only [run] at h
            split at h
            · next u1 _ hq => exact ihl u1 u' (add_subs_ne_nil hu hq) h
            · cases h
        exact this rest t1 t' hne he hs
      have := ih (add_sound S h1 hs1) he
      simpa [List.append_assoc] using this
    · cases he

/-! ## `contains` on collapse-free states -/

theorem mapM_getDominantId_nil {t : TrRel} (h : t.subs = []) (c : List Nat) :
    c.mapM (fun x => t.getDominantId x) = .ok c := by
  induction c with
  | nil => rfl
  | cons a rest ih => rw [List.mapM_cons, getDominantId_nil h, ih]; rfl

theorem mem_dedupConsecutive : ∀ (l : List Nat) (s : Nat), s ∈ TrRel.dedupConsecutive l → s ∈ l
  | [], _, h => by simp [TrRel.dedupConsecutive] at h
  | [x], _, h => by simpa [TrRel.dedupConsecutive] using h
  | x :: y :: rest, s, h => by
    rw [TrRel.dedupConsecutive] at h
    split at h
    · exact List.mem_cons_of_mem _ (mem_dedupConsecutive (y :: rest) s h)
    · rcases List.mem_cons.mp h with rfl | h
      · exact List.mem_cons_self ..
      · exact List.mem_cons_of_mem _ (mem_dedupConsecutive (y :: rest) s h)

theorem anyM_true {t : TrRel} {y : Int} {ss : List Nat} (h : TrRel.contains.anyM t y ss = .ok true) :
    ∃ s ∈ ss, ∃ set, t.sets[s]? = some set ∧ y ∈ set := by
  induction ss with
  | nil => simp [TrRel.contains.anyM] at h
  | cons s rest ih =>
    unfold TrRel.contains.anyM at h
    split at h
    · cases h
    · next set hset =>
      split at h
      · next hc => exact ⟨s, List.mem_cons_self .., set, hset, by simpa using hc⟩
      · obtain ⟨s', hs', r⟩ := ih h
        exact ⟨s', List.mem_cons_of_mem _ hs', r⟩

/-- on a collapse-free state every mentioned element is related to itself -/
theorem contains_refl_of_sound {t : TrRel} {ps : List (Int × Int)} (S : SoundFor t ps) {x : Int} (hx : Mentioned ps x) :
    t.contains x x = .ok true := by
  have := (S.ids x).mpr hx
  cases hi : alGet t.elemIds x with
  | none => simp [hi] at this
  | some i =>
    have hset := S.simple.set_of_id x i hi
    simp [TrRel.contains, elemSet_nil S.simple.subs_nil, hi, hset, unwrap]

/-- on a collapse-free state `contains` only answers `true` for pairs of the reference closure -/
theorem contains_sound_of_sound {t : TrRel} {ps : List (Int × Int)} (S : SoundFor t ps) {x y : Int}
    (h : t.contains x y = .ok true) : Closure ps x y := by
  unfold TrRel.contains at h
  rw [elemSet_nil S.simple.subs_nil] at h
  simp only [Res.bind_ok] at h
  cases hi : alGet t.elemIds x with
  | none => rw [hi] at h; cases h
  | some i =>
    rw [hi] at h
    simp only at h
    have hset := S.simple.set_of_id x i hi
    have hmx : Mentioned ps x := (S.ids x).mp (by simp [hi])
    rw [hset] at h
    simp only [unwrap, Res.bind_ok] at h
    split at h
    · next hc =>
      have : y = x := by simpa using hc
      subst this
      exact ⟨hmx, hmx, .refl _⟩
    · obtain ⟨cs, hcs, h⟩ := Res.bind_eq_ok h
      unfold TrRel.getSetConnections at hcs
      split at hcs
      · cases hcs; cases h
      · next c hc =>
        rw [mapM_getDominantId_nil S.simple.subs_nil] at hcs
        simp only [Res.bind_ok, Res.pure_eq, Res.ok.injEq] at hcs
        subst hcs
        simp only at h
        obtain ⟨s, hs, set, hset', hy⟩ := anyM_true h
        have hrel : rel t.conn i s := ⟨c, hc, mem_dedupConsecutive _ _ hs⟩
        obtain ⟨x', y', h1, h2, hr⟩ := S.le.conn i s hrel
        rw [hset] at h1; cases h1
        rw [hset'] at h2; cases h2
        have : y = y' := by simpa using hy
        subst this
        obtain ⟨y'', hy'', hid⟩ := S.simple.id_of_set s _ hset'
        cases hy''
        exact ⟨hmx, (S.ids _).mp (by simp [hid]), hr⟩

theorem mem_dedupConsecutive_of_mem : ∀ (l : List Nat) (s : Nat), s ∈ l → s ∈ TrRel.dedupConsecutive l
  | [], _, h => by simp at h
  | [x], _, h => by simpa [TrRel.dedupConsecutive] using h
  | x :: y :: rest, s, h => by
    rw [TrRel.dedupConsecutive]
    split
    · next hxy =>
      rcases List.mem_cons.mp h with rfl | h
      · exact mem_dedupConsecutive_of_mem (y :: rest) _ (by rw [hxy]; exact List.mem_cons_self ..)
      · exact mem_dedupConsecutive_of_mem (y :: rest) s h
    · rcases List.mem_cons.mp h with rfl | h
      · exact List.mem_cons_self ..
      · exact List.mem_cons_of_mem _ (mem_dedupConsecutive_of_mem (y :: rest) s h)

theorem anyM_of_mem {t : TrRel} {y : Int} {ss : List Nat} (hall : ∀ s ∈ ss, ∃ set, t.sets[s]? = some set)
    (hex : ∃ s ∈ ss, ∃ set, t.sets[s]? = some set ∧ y ∈ set) : TrRel.contains.anyM t y ss = .ok true := by
  induction ss with
  | nil => obtain ⟨s, hs, _⟩ := hex; simp at hs
  | cons s rest ih =>
    unfold TrRel.contains.anyM
    obtain ⟨set, hset⟩ := hall s (List.mem_cons_self ..)
    rw [hset]
    simp only
    by_cases hy : y ∈ set
    · simp [hy]
    · have hc : set.contains y = false := by simpa using hy
      rw [hc]
      simp only [Bool.false_eq_true, if_false]
      apply ih (fun s' hs' => hall s' (List.mem_cons_of_mem _ hs'))
      obtain ⟨s', hs', set', hset', hy'⟩ := hex
      rcases List.mem_cons.mp hs' with rfl | hs'
      · rw [hset] at hset'; cases hset'; exact absurd hy' hy
      · exact ⟨s', hs', set', hset', hy'⟩

/-- on a collapse-free state every added pair is contained -/
theorem contains_added_of_sound {t : TrRel} {ps : List (Int × Int)} (S : SoundFor t ps) {x y : Int}
    (hp : (x, y) ∈ ps) : t.contains x y = .ok true := by
  rcases S.added (x, y) hp with h | ⟨a, b, ha, hb, hr⟩
  · simp only at h; subst h
    exact contains_refl_of_sound S ⟨(x, x), hp, Or.inl rfl⟩
  · simp only at ha hb
    have hset := S.simple.set_of_id x a ha
    obtain ⟨c, hc, hbc⟩ := hr
    unfold TrRel.contains
    rw [elemSet_nil S.simple.subs_nil, ha]
    simp only [Res.bind_ok, hset, unwrap]
    split
    · rfl
    · unfold TrRel.getSetConnections
      rw [hc]
      simp only [mapM_getDominantId_nil S.simple.subs_nil, Res.bind_ok, Res.pure_eq]
      apply anyM_of_mem
      · intro s hs
        obtain ⟨_, y', _, h2, _⟩ := S.le.conn a s ⟨c, hc, mem_dedupConsecutive _ _ hs⟩
        exact ⟨_, h2⟩
      · exact ⟨b, mem_dedupConsecutive_of_mem _ _ hbc, [y], S.simple.set_of_id y b hb, by simp⟩

end TrRel
end AscentVerif
