import AscentVerif.Proofs.TrRelCollapseSem
/-!
# `add` keeps the invariant in every branch; whole histories

* `collapse_core`: the state after the collapse branch satisfies `Core` for the extended history;
* `add_inv`: `add` never panics under `Inv` and re-establishes it for `ps ++ [(x, y)]`;
* `run_inv`: every history runs without panic and ends in a state satisfying `Inv`.
-/
namespace AscentVerif.TrRel
open TrRel (getDominantIdAux getDominantIdMutAux)

theorem collapse_core {t : TrRel} {ps : List (Int × Int)} {x0 y0 : Int} {X Y : Nat} {ta t3 t9 : TrRel} {ml tm : NSet}
    (D : CollapseData t ps x0 y0 X Y ta t3 t9 ml tm) {t' : TrRel} (hs' : t'.sets = t9.sets) (hsub' : t'.subs = t9.subs)
    (hc' : t'.conn = t9.conn) (hr' : t'.rconn = t9.rconn) (he' : t'.elemIds = alSet (alSet t9.elemIds x0 X) y0 X) :
    Core t' (ps ++ [(x0, y0)]) := by
  have C := D.K.C
  have hM : Mem t' = Mem t9 := by funext d v; simp only [Mem, hs']
  have hlen : t'.sets.length = t.sets.length := by rw [hs', D.merge.len, D.sets3]
  have hsubs : ∀ j, alGet t'.subs j = if j ∈ ml ++ [Y] then some X else alGet t.subs j := by
    intro j; rw [hsub', D.merge.subs_get, D.subs3]
  have he : t9.elemIds = t.elemIds := D.merge.elemIds.trans D.elemIds3
  have hXnone : alGet t.subs X = none := (C.mem_dom D.K.hX).2
  have hsubsX : alGet t'.subs X = none := by rw [hsubs, if_neg D.X_notin_l]; exact hXnone
  have hmono : ∀ u v, Reach ps u v → Reach (ps ++ [(x0, y0)]) u v :=
    fun u v h => (reach_append_iff ps x0 y0 u v).mpr (Or.inl h)
  have hclean_l : ∀ d, Clean (· ∈ ml) Y d → d ∉ ml ++ [Y] := by
    intro d hc h
    rcases (D.mem_l d).mp h with h | h
    · exact ((D.clean_iff d).mp hc).1 h
    · exact hc.2 h
  have hl_clean : ∀ d, d ∉ ml ++ [Y] → Clean (· ∈ ml) Y d := by
    intro d h
    exact (D.clean_iff d).mpr ⟨fun e => h ((D.mem_l d).mpr (Or.inl e)), fun e => h ((D.mem_l d).mpr (Or.inr e))⟩
  have hdom9 : ∀ d, IsDom t d → Clean (· ∈ ml) Y d → IsDom t' d := by
    intro d hd hc
    exact ⟨by rw [hlen]; exact hd.1, by rw [hsubs, if_neg (hclean_l d hc)]; exact hd.2⟩
  have hdom9' : ∀ d, IsDom t' d → IsDom t d ∧ Clean (· ∈ ml) Y d := by
    rintro d ⟨h1, h2⟩
    rw [hsubs] at h2
    by_cases hd : d ∈ ml ++ [Y]
    · rw [if_pos hd] at h2; cases h2
    · rw [if_neg hd] at h2
      exact ⟨⟨by rw [← hlen]; exact h1, h2⟩, hl_clean d hd⟩
  have up9 := D.upper9
  have hC9 : ∀ a b, rel t'.conn a b →
      Clean (· ∈ ml) Y a ∧ Clean (· ∈ ml) Y b ∧ GSem t (ps ++ [(x0, y0)]) a b := by
    intro a b h
    rw [hc'] at h
    have h9 := (D.merge.conn a b).mp h
    obtain ⟨ca, cb⟩ := C9_clean D.cleanX D.H1 h9
    exact ⟨ca, cb, up9.1 a b h9.2.1⟩
  have hR9 : ∀ a b, rel t'.rconn a b →
      Clean (· ∈ ml) Y a ∧ Clean (· ∈ ml) Y b ∧ GSem t (ps ++ [(x0, y0)]) b a := by
    intro a b h
    rw [hr'] at h
    have h9 := (D.merge.rconn a b).mp h
    obtain ⟨ca, cb⟩ := R9_clean D.cleanX D.H2 h9
    exact ⟨ca, cb, up9.2 a b h9.2.1⟩
  have hsem9 : ∀ a b, Clean (· ∈ ml) Y a → Clean (· ∈ ml) Y b → Sem t (ps ++ [(x0, y0)]) a b →
      Sem t' (ps ++ [(x0, y0)]) a b := by
    rintro a b ca cb ⟨u, v, hu, hv, hr⟩
    exact ⟨u, v, by rw [hM]; exact D.mem9_of_clean ca hu, by rw [hM]; exact D.mem9_of_clean cb hv, hr⟩
  have hisSome : ∀ z, (alGet t.elemIds z).isSome = true → (alGet t'.elemIds z).isSome = true := by
    intro z h
    rw [he', he]
    exact (isSome_alSet _ _ _ _).mpr (Or.inl ((isSome_alSet _ _ _ _).mpr (Or.inl h)))
  have hcyc : ∀ a u, Mem t9 a u → Reach ps y0 u → Reach ps u x0 → a = X := by
    intro a u hu h1 h2
    obtain ⟨a0, hu0, h | h⟩ := D.class9 hu
    · exact h.1
    · exact absurd (D.K.cyc_of_reach hu0 h1 h2) h.2
  have hk9 := D.merge.keys (D.post.keys (D.prep.keys C.keysOk))
  refine ⟨?_, ?_, ?_, ?_, ?_, ?_, ?_, ?_, ?_, ?_, ?_, ?_, ?_, ?_, by rw [hc']; exact hk9.1.1, by rw [hr']; exact hk9.2.1,
    by rw [hc']; exact hk9.1.2, by rw [hr']; exact hk9.2.2, ?_, ?_⟩
  · -- forest
    rw [hsub']
    exact D.merge.forest (by rw [D.subs3]; exact C.forest)
  · -- subs_lt
    intro i p h
    rw [hsubs] at h
    rw [hlen]
    by_cases hi : i ∈ ml ++ [Y]
    · rw [if_pos hi] at h; cases h
      exact ⟨(D.l_dom hi).1, D.K.hX.lt⟩
    · rw [if_neg hi] at h; exact C.subs_lt i p h
  · -- dominated_empty
    intro i p x h hm
    rw [hM] at hm
    rw [hsubs] at h
    rcases (D.mem9 i x).mp hm with ⟨rfl, _⟩ | ⟨hn, hm⟩
    · rw [if_neg D.X_notin_l, hXnone] at h; cases h
    · have hi : i ∉ ml ++ [Y] := hclean_l i (D.clean_of_notCyc hn)
      rw [if_neg hi] at h
      exact C.dominated_empty i p x h hm
  · -- nonempty
    intro d hd
    obtain ⟨hd0, hc⟩ := hdom9' d hd
    obtain ⟨v, hv⟩ := C.nonempty d hd0
    exact ⟨v, by rw [hM]; exact D.mem9_of_clean hc hv⟩
  · -- disjoint
    intro d d' v h h'
    rw [hM] at h h'
    rcases (D.mem9 d v).mp h with ⟨rfl, m, hm, k⟩ | ⟨hn, k⟩
    · rcases (D.mem9 d' v).mp h' with ⟨rfl, _⟩ | ⟨hn', k'⟩
      · rfl
      · exact absurd ((C.disjoint m d' v k k') ▸ hm) hn'
    · rcases (D.mem9 d' v).mp h' with ⟨rfl, m, hm, k'⟩ | ⟨hn', k'⟩
      · exact absurd ((C.disjoint m d v k' k) ▸ hm) hn
      · exact C.disjoint d d' v k k'
  · -- elem
    intro z id h
    rw [he', he, alGet_alSet] at h
    rw [hM]
    by_cases hz : y0 = z
    · subst hz
      rw [if_pos rfl] at h; cases h
      exact ⟨X, rt_of_none hsubsX, (D.mem9 X y0).mpr (Or.inl ⟨rfl, Y, Or.inr (Or.inl rfl), D.K.hY⟩)⟩
    · rw [if_neg hz, alGet_alSet] at h
      by_cases hz' : x0 = z
      · subst hz'
        rw [if_pos rfl] at h; cases h
        exact ⟨X, rt_of_none hsubsX, (D.mem9 X x0).mpr (Or.inl ⟨rfl, X, Or.inl rfl, D.K.hX⟩)⟩
      · rw [if_neg hz'] at h
        obtain ⟨d0, hr0, hm0⟩ := C.elem z id h
        have hr9 := rt_after (s' := t'.subs) (l := ml ++ [Y]) (frm := X) hsubs (fun j hj => (D.l_dom hj).2) hXnone D.X_notin_l hr0
        refine ⟨_, hr9, ?_⟩
        by_cases hd0 : d0 ∈ ml ++ [Y]
        · rw [if_pos hd0]
          refine (D.mem9 X z).mpr (Or.inl ⟨rfl, d0, ?_, hm0⟩)
          rcases (D.mem_l d0).mp hd0 with e | e
          · exact Or.inr (Or.inr e)
          · exact Or.inr (Or.inl e)
        · rw [if_neg hd0]
          exact D.mem9_of_clean (hl_clean d0 hd0) hm0
  · -- elem_of_mem
    intro d z hm
    rw [hM] at hm
    obtain ⟨a0, hm0, _⟩ := D.class9 hm
    exact hisSome z (C.elem_of_mem a0 z hm0)
  · -- known
    intro z hz
    exact hisSome z (mentioned_known C (C.elem_of_mem X x0 D.K.hX) (C.elem_of_mem Y y0 D.K.hY) z hz)
  · -- conn_dom
    intro a b h
    obtain ⟨ca, cb, ha, hb, _⟩ := hC9 a b h
    exact ⟨hdom9 a ha ca, hdom9 b hb cb⟩
  · -- rconn_dom
    intro a b h
    obtain ⟨ca, cb, hb, ha, _⟩ := hR9 a b h
    exact ⟨hdom9 a ha ca, hdom9 b hb cb⟩
  · -- conn_iff
    intro a b hab
    constructor
    · intro h
      obtain ⟨ca, cb, _, _, h⟩ := hC9 a b h
      rcases h with h | h
      · exact absurd h hab
      · exact hsem9 a b ca cb h
    · rintro ⟨u, v, hu, hv, hr⟩
      rw [hM] at hu hv
      rw [hc']
      exact (D.merge.conn a b).mpr (D.sem_lower hab hu hv hr).1
  · -- rconn_iff
    intro a b hab
    constructor
    · intro h
      obtain ⟨cb, ca, _, _, h⟩ := hR9 b a h
      rcases h with h | h
      · exact absurd h hab
      · exact hsem9 a b ca cb h
    · rintro ⟨u, v, hu, hv, hr⟩
      rw [hM] at hu hv
      rw [hr']
      exact (D.merge.rconn b a).mpr (D.sem_lower hab hu hv hr).2
  · -- same
    intro d u v hu hv
    rw [hM] at hu hv
    rcases (D.mem9 d u).mp hu with ⟨rfl, m, hm, ku⟩ | ⟨hn, ku⟩
    · rcases (D.mem9 d v).mp hv with ⟨_, m', hm', kv⟩ | ⟨hn', _⟩
      · exact (reach_append_iff ps x0 y0 u v).mpr (Or.inr ⟨(D.K.cyc_reach hm ku).2, (D.K.cyc_reach hm' kv).1⟩)
      · exact absurd (Or.inl rfl) hn'
    · rcases (D.mem9 d v).mp hv with ⟨rfl, _⟩ | ⟨_, kv⟩
      · exact absurd (Or.inl rfl) hn
      · exact hmono _ _ (C.same d u v ku kv)
  · -- scc
    intro a b u v hu hv h1 h2
    rw [hM] at hu hv
    rw [reach_append_iff] at h1 h2
    rcases h1 with h1 | ⟨h1, h1'⟩ <;> rcases h2 with h2 | ⟨h2, h2'⟩
    · obtain ⟨a0, hu0, ha⟩ := D.class9 hu
      obtain ⟨b0, hv0, hb⟩ := D.class9 hv
      have e := C.scc a0 b0 u v hu0 hv0 h1 h2
      subst e
      rcases ha with ⟨rfl, ha⟩ | ⟨rfl, ha⟩ <;> rcases hb with ⟨rfl, hb⟩ | ⟨rfl, hb⟩
      · rfl
      · exact absurd ha hb
      · exact absurd hb ha
      · rfl
    · -- u → v, v → x0, y0 → u
      rw [hcyc a u hu h2' (reach_trans _ _ _ _ h1 h2), hcyc b v hv (reach_trans _ _ _ _ h2' h1) h2]
    · -- u → x0, y0 → v, v → u
      rw [hcyc a u hu (reach_trans _ _ _ _ h1' h2) h1, hcyc b v hv h1' (reach_trans _ _ _ _ h2 h1)]
    · rw [hcyc a u hu h2' h1, hcyc b v hv h1' h2]
  · -- elem_keys
    rw [he', he]; exact (C.elem_keys.alSet _ _).alSet _ _
  · -- sets_nodup
    rw [hs']
    exact D.merge.sets_nodup (by rw [D.sets3]; exact C.sets_nodup)

/-- `add_set_connection(X, X)` for a pair inside one set: nothing off the diagonal changes -/
theorem core_self_conn2 {t t' : TrRel} {ps : List (Int × Int)} (C : Core t ps) {x0 y0 : Int} {X : Nat} {b : Bool}
    (hX : Mem t X x0) (hY : Mem t X y0) (he : t.addSetConnection X X = .ok (t', b)) : Core t' (ps ++ [(x0, y0)]) := by
  have hiff : ∀ u v, Reach (ps ++ [(x0, y0)]) u v ↔ Reach ps u v := by
    intro u v
    rw [reach_append_iff]
    constructor
    · rintro (h | ⟨h1, h2⟩)
      · exact h
      · exact reach_trans _ _ _ _ h1 (reach_trans _ _ _ _ (C.same X x0 y0 hX hY) h2)
    · exact Or.inl
  have hsem : ∀ a c, Sem t (ps ++ [(x0, y0)]) a c → Sem t ps a c :=
    fun a c ⟨u, v, hu, hv, h⟩ => ⟨u, v, hu, hv, (hiff u v).mp h⟩
  have hsame' : ∀ d u v, Mem t d u → Mem t d v → Reach (ps ++ [(x0, y0)]) u v :=
    fun d u v hu hv => (hiff u v).mpr (C.same d u v hu hv)
  have hdomX := C.mem_dom hX
  obtain ⟨up, sc⟩ := addSetConnection_le (GSem.trans hsame') (C.connLe fun u v h => (hiff u v).mpr h)
    ⟨hdomX, hdomX, Or.inl rfl⟩ he
  apply core_step C sc (mentioned_known C (C.elem_of_mem X x0 hX) (C.elem_of_mem X y0 hY))
    (addSetConnection_keys C.keysOk he) up
  · intro a c hac h
    exact ⟨(addSetConnection_ge he).1 a c ((C.conn_iff a c hac).mpr (hsem a c h)),
      (addSetConnection_ge_rconn he).1 c a ((C.rconn_iff a c hac).mpr (hsem a c h))⟩
  · exact fun u v h => (hiff u v).mpr h
  · intro a b u v hu hv h1 h2
    exact C.scc a b u v hu hv ((hiff _ _).mp h1) ((hiff _ _).mp h2)

/-- **`add` never panics under the invariant and re-establishes it for the extended history** -/
theorem add_inv {t : TrRel} {ps : List (Int × Int)} (I : Inv t ps) (x y : Int) :
    ∃ t' b, t.add x y = .ok (t', b) ∧ Inv t' (ps ++ [(x, y)]) := by
  have C := I.core
  obtain ⟨t1, X, xNew, h1, C1, N1⟩ := addNodeNew_core C x
  obtain ⟨t2, Y, yNew, h2, C2, N2⟩ := addNodeNew_core C1 y
  have hX2 : Mem t2 X x := N2.mono _ _ N1.mem
  have hY2 : Mem t2 Y y := N2.mem
  have hment2 : ∀ z, (alGet t2.elemIds z).isSome = true → Mentioned (ps ++ [(x, y)]) z := by
    intro z hz
    rw [N2.ids, N1.ids] at hz
    rw [mentioned_append]
    rcases hz with (hz | hz) | hz
    · exact Or.inl (I.mentioned z hz)
    · exact Or.inr (Or.inl hz)
    · exact Or.inr (Or.inr hz)
  have viaConn : ∀ {t3 : TrRel} {b3 : Bool}, t2.addSetConnection X Y = .ok (t3, b3) → ¬ rel t2.conn Y X ∨ X = Y →
      Inv t3 (ps ++ [(x, y)]) := by
    intro t3 b3 h3 hpre
    have hcore : Core t3 (ps ++ [(x, y)]) := by
      by_cases hXY : X = Y
      · subst hXY; exact core_self_conn2 C2 hX2 hY2 h3
      · exact core_new_edge C2 hX2 hY2 hXY (hpre.resolve_right hXY) h3
    refine ⟨hcore, ?_⟩
    intro z hz
    rw [(addSetConnection_core h3).2.1] at hz
    exact hment2 z hz
  rw [add_eq]
  simp only [h1, h2, Res.bind_ok]
  obtain ⟨t3, b3, h3⟩ := addSetConnection_ok t2 X Y
  by_cases hnew : (xNew || yNew) = true
  · simp only [hnew, if_true, h3, Res.bind_ok, Res.pure_eq]
    refine ⟨t3, true, rfl, viaConn h3 ?_⟩
    by_cases hXY : X = Y
    · exact Or.inr hXY
    · left
      intro hr
      rw [N2.conn_eq] at hr
      rcases Bool.or_eq_true_iff.mp hnew with hn | hn
      · have hXeq := N1.fresh hn
        rw [N1.conn_eq] at hr
        have := (C.conn_dom Y X hr).2.1
        omega
      · have hYeq := N2.fresh hn
        have := (C1.conn_dom Y X hr).1.1
        omega
  · simp only [hnew, Bool.false_eq_true, if_false]
    by_cases hXY : X = Y
    · simp only [hXY, if_true, Res.pure_eq]
      refine ⟨t2, false, rfl, ?_, hment2⟩
      exact core_same_set C2 hX2 (hXY ▸ hY2)
    · simp only [hXY, if_false]
      by_cases hany : (Option.any (fun s => List.contains s X) (alGet t2.conn Y)) = true
      · simp only [hany, if_true]
        have K : CollapseCtx t2 ps x y X Y := ⟨C2, hX2, hY2, hXY, rel_of_any_true hany⟩
        obtain ⟨ta, t3', t9, ml, tm, hml, htm, prep, post, up, merge, hrun⟩ := collapse_run K
        have D : CollapseData t2 ps x y X Y ta t3' t9 ml tm := ⟨K, hml, htm, prep, post, up, merge⟩
        refine ⟨_, true, hrun, collapse_core D rfl rfl rfl rfl rfl, ?_⟩
        intro z hz
        have hz : (alGet (alSet (alSet t9.elemIds x X) y X) z).isSome = true := hz
        rw [isSome_alSet, isSome_alSet, merge.elemIds, D.elemIds3] at hz
        rcases hz with (hz | hz) | hz
        · exact hment2 z hz
        · subst hz; exact hment2 z (C2.elem_of_mem X z hX2)
        · subst hz; exact hment2 z (C2.elem_of_mem Y z hY2)
      · simp only [hany, Bool.false_eq_true, if_false, h3, Res.bind_ok, Res.pure_eq]
        exact ⟨t3, true, rfl, viaConn h3 (Or.inl (not_rel_of_any_false hany))⟩

/-- every history runs to completion without panic, keeping the invariant -/
theorem run_inv {t : TrRel} {ps : List (Int × Int)} (I : Inv t ps) (rest : List (Int × Int)) :
    ∃ t', run t rest = .ok t' ∧ Inv t' (ps ++ rest) := by
  induction rest generalizing t ps with
  | nil => exact ⟨t, rfl, by simpa using I⟩
  | cons p rest ih =>
    obtain ⟨x, y⟩ := p
    obtain ⟨t1, b1, h1, I1⟩ := add_inv I x y
    obtain ⟨t', hr, I'⟩ := ih I1
    exact ⟨t', by simp [run, h1, hr], by simpa [List.append_assoc] using I'⟩

end AscentVerif.TrRel
