import AscentVerif.Proofs.Pass
/-!
# One iteration of an SCC and the SCC loop (step 4 of the C01 proof)
-/
namespace AscentVerif.Engine
open AscentVerif

variable {E B G P A : Type}

/-! ## `shift` -/

def shiftD (d : Dyn) : Dyn := { d with total := d.total ++ d.delta, delta := d.new, new := [] }

theorem shift_dyn (s : SccSt) : (shift s).dyn = s.dyn.map shiftD := rfl
theorem shift_rels (s : SccSt) : (shift s).rels = s.rels := rfl
theorem shift_rowsOf (s : SccSt) (r : RelId) : rowsOf (shift s) r = rowsOf s r := rfl

theorem findDyn_shift (s : SccSt) (r : RelId) : findDyn (shift s).dyn r = (findDyn s.dyn r).map shiftD := by
  rw [shift_dyn]; exact findDyn_map s.dyn shiftD (fun _ => rfl) r

theorem WF_shift {n : Nat} {dynR : List RelId} {s : SccSt} (h : WF n dynR s) : WF n dynR (shift s) := by
  refine ⟨h.len, ?_, ?_, ?_, ?_⟩
  · intro r
    rw [findDyn_shift, Option.isSome_map]; exact h.dyn_iff r
  · intro y hy
    rw [shift_dyn, List.mem_map] at hy
    obtain ⟨x, hx, rfl⟩ := hy
    rw [findDyn_shift]
    show (findDyn s.dyn x.rel).map shiftD = _
    rw [h.uniq x hx]; rfl
  · intro r d' hd' i
    rw [findDyn_shift] at hd'
    cases hd : findDyn s.dyn r with
    | none => rw [hd] at hd'; cases hd'
    | some d =>
      rw [hd] at hd'; cases hd'
      rw [shift_rowsOf, h.cover r d hd i]
      simp only [shiftD, List.mem_append, List.not_mem_nil, or_false]
      constructor
      · rintro (h | h | h)
        · exact .inl (.inl h)
        · exact .inl (.inr h)
        · exact .inr h
      · rintro ((h | h) | h)
        · exact .inl h
        · exact .inr (.inl h)
        · exact .inr (.inr h)
  · intro r hd' i
    rw [findDyn_shift] at hd'
    cases hd : findDyn s.dyn r with
    | none => exact h.cover_nd r hd i
    | some d => rw [hd] at hd'; cases hd'

/-! ## databases denoted by a state -/

section Iter
variable (I : Interp E B G P A) (cfg : Config) (p : Program E B G P A) (inp : RelId → List Tuple)
  (n : Nat) (dynR : List RelId) (hlt : ∀ r, dynR.contains r = true → r < n)
  (hl : ∀ d ∈ p.rels, d.lat = false)

def Dtot (s : SccSt) : DB := fun f => viewOf cfg p s f.rel (some .total) f.args
def Dall (s : SccSt) : DB := fun f => viewOf cfg p s f.rel (some .totalDelta) f.args

/-- all index entries of the dynamic relations are in `total` -/
def Settled (s : SccSt) : Prop := ∀ r d, findDyn s.dyn r = some d → d.delta = [] ∧ d.new = []

def NewEmpty (s : SccSt) : Prop := ∀ r d, findDyn s.dyn r = some d → d.new = []

include hl in
theorem facts_sub_Dtot {s : SccSt} (hwf : WF n dynR s) (hs : Settled s) (f : Fact) (h : FactsS s f) :
    Dtot cfg p s f := by
  obtain ⟨i, hi, hrow⟩ := (mem_iff_rowAt _ _).mp h
  refine ⟨i, ?_, hrow⟩
  cases hd : findDyn s.dyn f.rel with
  | none =>
    rw [clauseRows_none cfg p hl _ hd]
    exact (hwf.cover_nd _ hd i).mp hi
  | some d =>
    rw [clauseRows_some cfg p hl _ hd]
    obtain ⟨h1, h2⟩ := hs _ d hd
    rcases (hwf.cover _ d hd i).mp hi with h | h | h
    · exact h
    · rw [h1] at h; cases h
    · rw [h2] at h; cases h

include hl in
theorem facts_sub_Dtot_nd {s : SccSt} (hwf : WF n dynR s) (r : RelId) (hr : dynR.contains r = false) (t : Tuple)
    (h : t ∈ rowsOf s r) : Dtot cfg p s ⟨r, t⟩ := by
  obtain ⟨i, hi, hrow⟩ := (mem_iff_rowAt _ _).mp h
  refine ⟨i, ?_, hrow⟩
  have hd : findDyn s.dyn r = none := by
    have := hwf.dyn_iff r
    rw [hr] at this
    cases h' : findDyn s.dyn r with
    | none => rfl
    | some d => rw [h'] at this; cases this
  show i ∈ clauseRows cfg p s r (some .total)
  rw [clauseRows_none cfg p hl _ hd]
  exact (hwf.cover_nd _ hd i).mp hi

/-- rules with at least one dynamic clause -/
def hasDyn (rule : Rule E B G P A) : Prop := dynCount dynR rule.body ≠ 0

def Frontier (rules : List (Rule E B G P A)) (Q : Rule E B G P A → Prop) (s : SccSt) : Prop :=
  ∀ rule ∈ rules, Q rule → ∀ ρ, Sat I (Dtot cfg p s) nAgg rule.body [] ρ →
    ∀ h ∈ rule.heads, FactsS s (headFact I h ρ)

structure LoopInv (rules : List (Rule E B G P A)) (Q : Rule E B G P A → Prop) (s : SccSt) : Prop where
  wf : WF n dynR s
  good : Good I p inp n s
  newE : NewEmpty s
  front : Frontier I cfg p rules Q s

theorem LoopInv.weaken {rules : List (Rule E B G P A)} {Q Q' : Rule E B G P A → Prop} {s : SccSt}
    (h : LoopInv I cfg p inp n dynR rules Q s) (hq : ∀ r, Q' r → Q r) : LoopInv I cfg p inp n dynR rules Q' s :=
  ⟨h.wf, h.good, h.newE, fun rule hr hq' ρ hs hd hh => h.front rule hr (hq _ hq') ρ hs hd hh⟩

/-- resetting `changed` does not touch anything the invariants talk about -/
theorem WF_reset {s : SccSt} (h : WF n dynR s) : WF n dynR { s with changed := false } :=
  ⟨h.len, h.dyn_iff, h.uniq, h.cover, h.cover_nd⟩

include hl in
/-- the `total` view after the shift is the `total ∪ delta` view at the start of the pass -/
theorem Dtot_shift_sub {s₀ s₁ : SccSt} (hwf0 : WF n dynR s₀) (hext : Ext s₀ s₁) (f : Fact)
    (h : Dtot cfg p (shift s₁) f) : Dall cfg p s₀ f := by
  obtain ⟨i, hi, hrow⟩ := h
  cases hd : findDyn s₀.dyn f.rel with
  | none =>
    obtain ⟨h1, h2⟩ := hext.nondyn _ hd
    have hd' : findDyn (shift s₁).dyn f.rel = none := by rw [findDyn_shift, h1]; rfl
    rw [clauseRows_none cfg p hl _ hd', shift_rels, h2] at hi
    rw [shift_rels, h2] at hrow
    exact ⟨i, by rw [clauseRows_none cfg p hl _ hd]; exact hi, hrow⟩
  | some d₀ =>
    obtain ⟨d, h1, h2, h3⟩ := hext.td _ d₀ hd
    have hd' : findDyn (shift s₁).dyn f.rel = some (shiftD d) := by rw [findDyn_shift, h1]; rfl
    rw [clauseRows_some cfg p hl _ hd'] at hi
    have hi' : i ∈ d₀.total ++ d₀.delta := by simpa [shiftD, h2, h3] using hi
    have hlt' : i < (rowsOf s₀ f.rel).length := by
      rcases List.mem_append.mp hi' with h | h
      · exact (hwf0.cover _ d₀ hd i).mpr (.inl h)
      · exact (hwf0.cover _ d₀ hd i).mpr (.inr (.inl h))
    refine ⟨i, by rw [clauseRows_some cfg p hl _ hd]; exact hi', ?_⟩
    obtain ⟨ex, hex⟩ := hext.rows f.rel
    have : rowAt (rowsOf s₁ f.rel) i = f.args := hrow
    rw [hex, rowAt_append_left _ _ _ hlt'] at this
    exact this

include hlt hl in
/-- **one iteration** (`evalRules` from a state with `changed = false`, then `shift`) -/
theorem iter_step (rules : List (Rule E B G P A))
    (hrules : ∀ rule ∈ rules, rule ∈ p.rules) (haf : ∀ rule ∈ rules, rule.aggFree = true)
    (hdyn : ∀ rule ∈ rules, ∀ h ∈ rule.heads, dynR.contains h.rel = true)
    (s : SccSt) (hinv : LoopInv I cfg p inp n dynR rules (hasDyn dynR) s) :
    LoopInv I cfg p inp n dynR rules (fun _ => True)
        (shift (evalRules I cfg p dynR rules { s with changed := false })) ∧
      Ext { s with changed := false } (evalRules I cfg p dynR rules { s with changed := false }) := by
  have hwf0 : WF n dynR { s with changed := false } := WF_reset n dynR hinv.wf
  have hpost0 : Post I p inp n dynR { s with changed := false } { s with changed := false } :=
    ⟨hwf0, Ext.refl _, hinv.good⟩
  obtain ⟨hpost, hle, hproc⟩ := evalRules_spec I cfg p inp n dynR hlt hl hwf0 rules hrules haf hdyn _ hpost0
  refine ⟨⟨WF_shift hpost.wf, hpost.good, ?_, ?_⟩, hpost.ext⟩
  · intro r d' hd'
    rw [findDyn_shift] at hd'
    cases hd : findDyn (evalRules I cfg p dynR rules { s with changed := false }).dyn r with
    | none => rw [hd] at hd'; cases hd'
    | some d => rw [hd] at hd'; cases hd'; rfl
  · intro rule hr _ ρ hsat h hh
    have hsat' : Sat I (Dall cfg p { s with changed := false }) nAgg rule.body [] ρ :=
      Sat.mono (fun f hf => Dtot_shift_sub cfg p n dynR hl hwf0 hpost.ext f hf) hsat
    show FactsS (evalRules I cfg p dynR rules { s with changed := false }) (headFact I h ρ)
    rcases seminaive_cover I (viewOf cfg p { s with changed := false }) dynR
        (fun r hr v v' t hv => view_nd cfg p hl hwf0 hr v v' t hv)
        (fun r t hv => view_split cfg p hl hwf0 r t hv) rule (haf rule hr) hsat' with ⟨hn, htot⟩ | ⟨vs, hvs, hsv⟩
    · exact hle _ _ (hinv.front rule hr hn ρ htot h hh)
    · exact hproc rule hr vs hvs ρ hsv h hh

end Iter

end AscentVerif.Engine
