import AscentVerif.Spec.LatticeLaws
/-!
# Helper lemmas for C16 (part 1)
-/
namespace AscentVerif.Lat

section derived
variable {α : Type} [Lat α] {WF : α → Prop}

theorem le_refl' (h : LawfulLat α WF) (a : α) (ha : WF a) : le a a = true := by
  unfold le; rw [h.pcmp_refl a ha]; rfl

theorem le_antisymm' (h : LawfulLat α WF) (a b : α) (ha : WF a) (hb : WF b)
    (h1 : le a b = true) (h2 : le b a = true) : a = b := by
  have hs := h.pcmp_swap a b ha hb
  unfold le at h1 h2
  cases hab : pcmp a b with
  | none => simp [hab] at h1
  | some o =>
    cases o with
    | eq => exact h.eq_of_pcmp_eq a b ha hb hab
    | lt => rw [hab] at hs; simp [hs] at h2
    | gt => simp [hab] at h1

theorem le_of_eq' (h : LawfulLat α WF) (a b : α) (ha : WF a) (e : a = b) : le a b = true := by
  subst e; exact le_refl' h a ha

theorem join_eq_of_le (h : LawfulLat α WF) (a b : α) (ha : WF a) (hb : WF b) (hab : le a b = true) :
    join a b = b :=
  le_antisymm' h _ _ (h.join_wf a b ha hb) hb
    (h.join_le a b b ha hb hb hab (le_refl' h b hb)) (h.le_join_right a b ha hb)

theorem join_eq_of_ge (h : LawfulLat α WF) (a b : α) (ha : WF a) (hb : WF b) (hab : le b a = true) :
    join a b = a :=
  le_antisymm' h _ _ (h.join_wf a b ha hb) ha
    (h.join_le a b a ha hb ha (le_refl' h a ha) hab) (h.le_join_left a b ha hb)

theorem meet_eq_of_le (h : LawfulLat α WF) (a b : α) (ha : WF a) (hb : WF b) (hab : le a b = true) :
    meet a b = a :=
  le_antisymm' h _ _ (h.meet_wf a b ha hb) ha
    (h.meet_le_left a b ha hb) (h.le_meet a b a ha hb ha (le_refl' h a ha) hab)

theorem meet_eq_of_ge (h : LawfulLat α WF) (a b : α) (ha : WF a) (hb : WF b) (hab : le b a = true) :
    meet a b = b :=
  le_antisymm' h _ _ (h.meet_wf a b ha hb) hb
    (h.meet_le_right a b ha hb) (h.le_meet a b b ha hb hb hab (le_refl' h b hb))

/-- `le` in terms of `pcmp` -/
theorem le_iff_pcmp {a b : α} : le a b = true ↔ pcmp a b = some .lt ∨ pcmp a b = some .eq := by
  unfold le; simp

theorem le_of_pcmp_lt {a b : α} (e : pcmp a b = some .lt) : le a b = true := by
  unfold le; simp [e]
theorem le_of_pcmp_eq {a b : α} (e : pcmp a b = some .eq) : le a b = true := by
  unfold le; simp [e]
theorem le_of_pcmp_gt (h : LawfulLat α WF) {a b : α} (ha : WF a) (hb : WF b)
    (e : pcmp a b = some .gt) : le b a = true := by
  have hs := h.pcmp_swap a b ha hb
  rw [e] at hs
  unfold le; simp [hs]

theorem not_le_of_pcmp_gt {a b : α} (e : pcmp a b = some .gt) : le a b = false := by
  unfold le; simp [e]
theorem not_le_of_pcmp_none {a b : α} (e : pcmp a b = none) : le a b = false := by
  unfold le; simp [e]

end derived

/-! ## linear orders -/
section lin
variable {α : Type} [LinOrd α]

theorem LawfulLinOrd.gt_iff (h : LawfulLinOrd α) (a b : α) : LinOrd.cmp a b = .gt ↔ LinOrd.cmp b a = .lt := by
  rw [h.cmp_swap a b]; cases LinOrd.cmp a b <;> simp [Ordering.swap]

theorem LawfulLinOrd.lt_iff (h : LawfulLinOrd α) (a b : α) : LinOrd.cmp a b = .lt ↔ LinOrd.cmp b a = .gt := by
  rw [h.cmp_swap a b]; cases LinOrd.cmp a b <;> simp [Ordering.swap]

theorem LawfulLinOrd.eq_iff (h : LawfulLinOrd α) (a b : α) : LinOrd.cmp a b = .eq ↔ a = b :=
  ⟨h.eq_of_cmp_eq a b, fun e => e ▸ h.cmp_refl a⟩

theorem LawfulLinOrd.le_trans (h : LawfulLinOrd α) (a b c : α)
    (h1 : LinOrd.cmp a b ≠ .gt) (h2 : LinOrd.cmp b c ≠ .gt) : LinOrd.cmp a c ≠ .gt := by
  cases e1 : LinOrd.cmp a b with
  | gt => exact absurd e1 h1
  | eq => have := h.eq_of_cmp_eq a b e1; subst this; exact h2
  | lt =>
    cases e2 : LinOrd.cmp b c with
    | gt => exact absurd e2 h2
    | eq => have := h.eq_of_cmp_eq b c e2; subst this; simp [e1]
    | lt => simp [h.lt_trans a b c e1 e2]

/-- a type ordered through a key into a lawful linear order, whose `join`/`meet` pick the larger/smaller -/
theorem lawful_of_lin {β : Type} [Lat β] (h : LawfulLinOrd α) (key : β → α)
    (kinj : ∀ a b, key a = key b → a = b)
    (hp : ∀ a b : β, pcmp a b = some (LinOrd.cmp (key a) (key b)))
    (hj : ∀ a b : β, join a b = if LinOrd.cmp (key a) (key b) = .lt then b else a)
    (hm : ∀ a b : β, meet a b = if LinOrd.cmp (key a) (key b) = .gt then b else a)
    (hjm : ∀ a b : β, joinMut a b = (join a b, decide (LinOrd.cmp (key a) (key b) = .lt)))
    (hmm : ∀ a b : β, meetMut a b = (meet a b, decide (LinOrd.cmp (key a) (key b) = .gt))) :
    LawfulLat β AnyWF := by
  have hle : ∀ a b : β, le a b = true ↔ LinOrd.cmp (key a) (key b) ≠ .gt := by
    intro a b; unfold le; rw [hp]; cases LinOrd.cmp (key a) (key b) <;> simp
  have hrefl : ∀ a : β, le a a = true := fun a => by rw [hle, h.cmp_refl]; simp
  have htot : ∀ a b : β, LinOrd.cmp (key a) (key b) ≠ .lt → le b a = true := by
    intro a b hn; rw [hle]; intro hg; exact hn ((h.lt_iff _ _).2 hg)
  have htot' : ∀ a b : β, LinOrd.cmp (key a) (key b) ≠ .gt → le a b = true := by
    intro a b hn; rw [hle]; exact hn
  have hlt : ∀ a b : β, LinOrd.cmp (key a) (key b) = .lt → le a b = true := by
    intro a b e; rw [hle, e]; simp
  have hgt : ∀ a b : β, LinOrd.cmp (key a) (key b) = .gt → le b a = true := by
    intro a b e; rw [hle, (h.gt_iff _ _).1 e]; simp
  refine
    { pcmp_refl := ?_, eq_of_pcmp_eq := ?_, pcmp_swap := ?_, le_trans := ?_,
      join_wf := fun _ _ _ _ => trivial, meet_wf := fun _ _ _ _ => trivial,
      le_join_left := ?_, le_join_right := ?_, join_le := ?_,
      meet_le_left := ?_, meet_le_right := ?_, le_meet := ?_,
      joinMut_fst := ?_, joinMut_snd := ?_, meetMut_fst := ?_, meetMut_snd := ?_ }
  · intro a _; rw [hp, h.cmp_refl]
  · intro a b _ _ e; rw [hp] at e
    exact kinj a b (h.eq_of_cmp_eq _ _ (Option.some.inj e))
  · intro a b _ _; rw [hp, hp, h.cmp_swap (key a) (key b)]; rfl
  · intro a b c _ _ _ h1 h2; rw [hle] at *; exact h.le_trans _ _ _ h1 h2
  · intro a b _ _; rw [hj]; split
    · exact hlt a b ‹_›
    · exact hrefl a
  · intro a b _ _; rw [hj]; split
    · exact hrefl b
    · exact htot a b ‹_›
  · intro a b c _ _ _ h1 h2; rw [hj]; split <;> assumption
  · intro a b _ _; rw [hm]; split
    · exact hgt a b ‹_›
    · exact hrefl a
  · intro a b _ _; rw [hm]; split
    · exact hrefl b
    · exact htot' a b ‹_›
  · intro a b c _ _ _ h1 h2; rw [hm]; split <;> assumption
  · intro a b _ _; rw [hjm]
  · intro a b _ _; rw [hjm, hj]; simp only [decide_eq_true_eq]
    by_cases e : LinOrd.cmp (key a) (key b) = .lt
    · simp only [e, if_true, true_iff]
      intro e2; subst e2; rw [h.cmp_refl] at e; cases e
    · simp [e]
  · intro a b _ _; rw [hmm]
  · intro a b _ _; rw [hmm, hm]; simp only [decide_eq_true_eq]
    by_cases e : LinOrd.cmp (key a) (key b) = .gt
    · simp only [e, if_true, true_iff]
      intro e2; subst e2; rw [h.cmp_refl] at e; cases e
    · simp [e]

end lin

/-! ## concrete `Ord` types -/
theorem int_cmp (a b : Int) :
    (compare a b = .lt ↔ a < b) ∧ (compare a b = .eq ↔ a = b) ∧ (compare a b = .gt ↔ b < a) := by
  simp only [compare, compareOfLessAndEq]
  split
  · simp; omega
  · split
    · simp; omega
    · simp; omega

theorem nat_cmp (a b : Nat) :
    (compare a b = .lt ↔ a < b) ∧ (compare a b = .eq ↔ a = b) ∧ (compare a b = .gt ↔ b < a) := by
  simp only [compare, compareOfLessAndEq]
  split
  · simp; omega
  · split
    · simp; omega
    · simp; omega

/-- an order pulled back along an injective key is lawful -/
theorem lawfulLinOrd_of_key {α β : Type} [LinOrd α] [LinOrd β] (h : LawfulLinOrd β) (key : α → β)
    (kinj : ∀ a b, key a = key b → a = b)
    (hc : ∀ a b : α, LinOrd.cmp a b = LinOrd.cmp (key a) (key b)) : LawfulLinOrd α where
  cmp_refl a := by rw [hc]; exact h.cmp_refl _
  eq_of_cmp_eq a b e := by rw [hc] at e; exact kinj _ _ (h.eq_of_cmp_eq _ _ e)
  cmp_swap a b := by rw [hc, hc]; exact h.cmp_swap _ _
  lt_trans a b c := by rw [hc, hc, hc]; exact h.lt_trans _ _ _

/-! ## transfer of lawfulness along an injective key (same or opposite order) -/
section transfer
variable {α β : Type} [Lat α] [Lat β] {WF : α → Prop}

theorem lawful_transfer (h : LawfulLat α WF) (key : β → α)
    (kinj : ∀ a b, key a = key b → a = b)
    (hp : ∀ a b : β, pcmp a b = pcmp (key a) (key b))
    (hj : ∀ a b : β, WF (key a) → WF (key b) → key (join a b) = join (key a) (key b))
    (hm : ∀ a b : β, WF (key a) → WF (key b) → key (meet a b) = meet (key a) (key b))
    (hjm1 : ∀ a b : β, WF (key a) → WF (key b) → (joinMut a b).1 = join a b)
    (hjm2 : ∀ a b : β, WF (key a) → WF (key b) → ((joinMut a b).2 = true ↔ join a b ≠ a))
    (hmm1 : ∀ a b : β, WF (key a) → WF (key b) → (meetMut a b).1 = meet a b)
    (hmm2 : ∀ a b : β, WF (key a) → WF (key b) → ((meetMut a b).2 = true ↔ meet a b ≠ a)) :
    LawfulLat β (fun b => WF (key b)) := by
  have hle : ∀ a b : β, le a b = le (key a) (key b) := by
    intro a b; unfold le; rw [hp]
  refine
    { pcmp_refl := ?_, eq_of_pcmp_eq := ?_, pcmp_swap := ?_, le_trans := ?_,
      join_wf := ?_, meet_wf := ?_,
      le_join_left := ?_, le_join_right := ?_, join_le := ?_,
      meet_le_left := ?_, meet_le_right := ?_, le_meet := ?_,
      joinMut_fst := hjm1, joinMut_snd := hjm2, meetMut_fst := hmm1, meetMut_snd := hmm2 }
  · intro a ha; rw [hp]; exact h.pcmp_refl _ ha
  · intro a b ha hb e; rw [hp] at e; exact kinj _ _ (h.eq_of_pcmp_eq _ _ ha hb e)
  · intro a b ha hb; rw [hp, hp]; exact h.pcmp_swap _ _ ha hb
  · intro a b c ha hb hc; rw [hle, hle, hle]; exact h.le_trans _ _ _ ha hb hc
  · intro a b ha hb; show WF (key (join a b)); rw [hj a b ha hb]; exact h.join_wf _ _ ha hb
  · intro a b ha hb; show WF (key (meet a b)); rw [hm a b ha hb]; exact h.meet_wf _ _ ha hb
  · intro a b ha hb; rw [hle, hj a b ha hb]; exact h.le_join_left _ _ ha hb
  · intro a b ha hb; rw [hle, hj a b ha hb]; exact h.le_join_right _ _ ha hb
  · intro a b c ha hb hc; rw [hle, hle, hle, hj a b ha hb]; exact h.join_le _ _ _ ha hb hc
  · intro a b ha hb; rw [hle, hm a b ha hb]; exact h.meet_le_left _ _ ha hb
  · intro a b ha hb; rw [hle, hm a b ha hb]; exact h.meet_le_right _ _ ha hb
  · intro a b c ha hb hc; rw [hle, hle, hle, hm a b ha hb]; exact h.le_meet _ _ _ ha hb hc

theorem lawful_opposite (h : LawfulLat α WF) (key : β → α)
    (kinj : ∀ a b, key a = key b → a = b)
    (hp : ∀ a b : β, pcmp a b = pcmp (key b) (key a))
    (hj : ∀ a b : β, WF (key a) → WF (key b) → key (join a b) = meet (key a) (key b))
    (hm : ∀ a b : β, WF (key a) → WF (key b) → key (meet a b) = join (key a) (key b))
    (hjm1 : ∀ a b : β, WF (key a) → WF (key b) → (joinMut a b).1 = join a b)
    (hjm2 : ∀ a b : β, WF (key a) → WF (key b) → ((joinMut a b).2 = true ↔ join a b ≠ a))
    (hmm1 : ∀ a b : β, WF (key a) → WF (key b) → (meetMut a b).1 = meet a b)
    (hmm2 : ∀ a b : β, WF (key a) → WF (key b) → ((meetMut a b).2 = true ↔ meet a b ≠ a)) :
    LawfulLat β (fun b => WF (key b)) := by
  have hle : ∀ a b : β, le a b = le (key b) (key a) := by
    intro a b; unfold le; rw [hp]
  refine
    { pcmp_refl := ?_, eq_of_pcmp_eq := ?_, pcmp_swap := ?_, le_trans := ?_,
      join_wf := ?_, meet_wf := ?_,
      le_join_left := ?_, le_join_right := ?_, join_le := ?_,
      meet_le_left := ?_, meet_le_right := ?_, le_meet := ?_,
      joinMut_fst := hjm1, joinMut_snd := hjm2, meetMut_fst := hmm1, meetMut_snd := hmm2 }
  · intro a ha; rw [hp]; exact h.pcmp_refl _ ha
  · intro a b ha hb e; rw [hp] at e; exact (kinj _ _ (h.eq_of_pcmp_eq _ _ hb ha e)).symm
  · intro a b ha hb; rw [hp, hp]; exact h.pcmp_swap _ _ hb ha
  · intro a b c ha hb hc; rw [hle, hle, hle]; intro h1 h2; exact h.le_trans _ _ _ hc hb ha h2 h1
  · intro a b ha hb; show WF (key (join a b)); rw [hj a b ha hb]; exact h.meet_wf _ _ ha hb
  · intro a b ha hb; show WF (key (meet a b)); rw [hm a b ha hb]; exact h.join_wf _ _ ha hb
  · intro a b ha hb; rw [hle, hj a b ha hb]; exact h.meet_le_left _ _ ha hb
  · intro a b ha hb; rw [hle, hj a b ha hb]; exact h.meet_le_right _ _ ha hb
  · intro a b c ha hb hc; rw [hle, hle, hle, hj a b ha hb]; exact h.le_meet _ _ _ ha hb hc
  · intro a b ha hb; rw [hle, hm a b ha hb]; exact h.le_join_left _ _ ha hb
  · intro a b ha hb; rw [hle, hm a b ha hb]; exact h.le_join_right _ _ ha hb
  · intro a b c ha hb hc; rw [hle, hle, hle, hm a b ha hb]; exact h.join_le _ _ _ ha hb hc

/-- restrict the invariant to a smaller one closed under the operations -/
theorem lawful_restrict {α : Type} [Lat α] {WF WF' : α → Prop} (h : LawfulLat α WF)
    (sub : ∀ a, WF' a → WF a)
    (hj : ∀ a b, WF' a → WF' b → WF' (join a b))
    (hm : ∀ a b, WF' a → WF' b → WF' (meet a b)) : LawfulLat α WF' where
  pcmp_refl a ha := h.pcmp_refl a (sub a ha)
  eq_of_pcmp_eq a b ha hb := h.eq_of_pcmp_eq a b (sub a ha) (sub b hb)
  pcmp_swap a b ha hb := h.pcmp_swap a b (sub a ha) (sub b hb)
  le_trans a b c ha hb hc := h.le_trans a b c (sub a ha) (sub b hb) (sub c hc)
  join_wf := hj
  meet_wf := hm
  le_join_left a b ha hb := h.le_join_left a b (sub a ha) (sub b hb)
  le_join_right a b ha hb := h.le_join_right a b (sub a ha) (sub b hb)
  join_le a b c ha hb hc := h.join_le a b c (sub a ha) (sub b hb) (sub c hc)
  meet_le_left a b ha hb := h.meet_le_left a b (sub a ha) (sub b hb)
  meet_le_right a b ha hb := h.meet_le_right a b (sub a ha) (sub b hb)
  le_meet a b c ha hb hc := h.le_meet a b c (sub a ha) (sub b hb) (sub c hc)
  joinMut_fst a b ha hb := h.joinMut_fst a b (sub a ha) (sub b hb)
  joinMut_snd a b ha hb := h.joinMut_snd a b (sub a ha) (sub b hb)
  meetMut_fst a b ha hb := h.meetMut_fst a b (sub a ha) (sub b hb)
  meetMut_snd a b ha hb := h.meetMut_snd a b (sub a ha) (sub b hb)

end transfer

end AscentVerif.Lat
