import AscentVerif.Proofs.LatHead
import AscentVerif.Proofs.Pass
/-!
# The invariants of the lattice proof (C03) and one head update

* `LInv`: what holds of every SCC state — well-formed index bags (`WF` of the C01 proof), one row
  per key in lattice relations, relation rows = inputs ++ duplicate-free derived rows, and the
  facts are below every closed key-unique database (when the program is monotone).
* `LExt s s'`: how a later state `s'` of the same pass relates to `s` — `total`/`delta` fixed,
  `new` grows, rows are only appended or moved up, and *a row whose value changed is in `new`*.
-/
namespace AscentVerif.Engine
open AscentVerif

variable {E B G P A : Type}

/-! ## replacing rows and dynamic part of one relation -/

section Upd
variable {n : Nat} {dynR : List RelId} {s : SccSt} {r : RelId} {d d' : Dyn} {rows' : List Tuple}

theorem upd_rows_self (hr : r < s.rels.length) : rowsOf (upd s r d' rows') r = rows' := by
  simp [upd, rowsOf, relSt_setNth_self _ _ _ hr]

theorem upd_relSt_ne {r' : RelId} (hne : r' ≠ r) : relSt (upd s r d' rows').rels r' = relSt s.rels r' := by
  simp [upd, relSt_setNth_ne _ _ _ _ hne]

theorem upd_rows_ne {r' : RelId} (hne : r' ≠ r) : rowsOf (upd s r d' rows') r' = rowsOf s r' := by
  simp [rowsOf, upd_relSt_ne hne]

theorem upd_dyn_self (hd : findDyn s.dyn r = some d) (hrel : d'.rel = r) :
    findDyn (upd s r d' rows').dyn r = some d' := by
  subst hrel
  exact findDyn_setDyn_self s.dyn d' d hd

theorem upd_dyn_ne (hrel : d'.rel = r) {r' : RelId} (hne : r' ≠ r) :
    findDyn (upd s r d' rows').dyn r' = findDyn s.dyn r' := by
  subst hrel
  exact findDyn_setDyn_ne s.dyn _ r' hne

theorem WF_upd (hwf : WF n dynR s) (hd : findDyn s.dyn r = some d) (hr : r < n) (hrel : d'.rel = r)
    (hcov : ∀ i, i < rows'.length ↔ (i ∈ d'.total ∨ i ∈ d'.delta ∨ i ∈ d'.new)) :
    WF n dynR (upd s r d' rows') := by
  have hr' : r < s.rels.length := by rw [hwf.len]; exact hr
  refine ⟨by simp [upd, hwf.len], ?_, ?_, ?_, ?_⟩
  · intro r'
    by_cases hne : r' = r
    · subst hne
      rw [upd_dyn_self hd hrel, ← hwf.dyn_iff, hd]; rfl
    · rw [upd_dyn_ne hrel hne]; exact hwf.dyn_iff r'
  · intro y hy
    simp only [upd, setDyn_eq_map, List.mem_map] at hy
    obtain ⟨x, hx, rfl⟩ := hy
    by_cases hxr : x.rel = r
    · have : (x.rel == d'.rel) = true := by simp [hxr, hrel]
      simp only [this, if_true]
      rw [hrel]
      exact upd_dyn_self hd hrel
    · have : (x.rel == d'.rel) = false := by simp [hxr, hrel]
      simp only [this, Bool.false_eq_true, if_false]
      rw [upd_dyn_ne hrel hxr]
      exact hwf.uniq x hx
  · intro r' d'' hd'' i
    by_cases hne : r' = r
    · subst hne
      rw [upd_dyn_self hd hrel] at hd''
      cases hd''
      rw [upd_rows_self hr']; exact hcov i
    · rw [upd_dyn_ne hrel hne] at hd''
      rw [upd_rows_ne hne]
      exact hwf.cover r' d'' hd'' i
  · intro r' hd'' i
    have hne : r' ≠ r := by
      intro h; subst h
      rw [upd_dyn_self hd hrel] at hd''; cases hd''
    rw [upd_dyn_ne hrel hne] at hd''
    rw [upd_rows_ne hne, upd_relSt_ne hne]
    exact hwf.cover_nd r' hd'' i

/-- overwriting the dynamic part with itself changes nothing -/
theorem setDyn_self (hwf : WF n dynR s) (hd : findDyn s.dyn r = some d) : setDyn s.dyn d = s.dyn := by
  rw [setDyn_eq_map]
  conv => rhs; rw [← List.map_id s.dyn]
  apply List.map_congr_left
  intro x hx
  by_cases hxr : x.rel = d.rel
  · have h1 := hwf.uniq x hx
    rw [hxr, findDyn_rel hd, hd] at h1
    cases h1
    simp
  · simp [hxr]

end Upd

/-! ## re-queueing a row -/

def requeue (d : Dyn) (i : Nat) : Dyn := if d.new.contains i then d else { d with new := d.new ++ [i] }

theorem requeue_rel (d : Dyn) (i : Nat) : (requeue d i).rel = d.rel := by unfold requeue; split <;> rfl
theorem requeue_total (d : Dyn) (i : Nat) : (requeue d i).total = d.total := by unfold requeue; split <;> rfl
theorem requeue_delta (d : Dyn) (i : Nat) : (requeue d i).delta = d.delta := by unfold requeue; split <;> rfl
theorem mem_requeue_new (d : Dyn) (i j : Nat) : j ∈ (requeue d i).new ↔ j ∈ d.new ∨ j = i := by
  unfold requeue
  split
  · rename_i h
    have hi : i ∈ d.new := List.contains_iff_mem.mp h
    constructor
    · exact .inl
    · rintro (h | rfl)
      · exact h
      · exact hi
  · simp

theorem joinSt_eq_upd {n : Nat} {dynR : List RelId} {s : SccSt} {r : RelId} {d : Dyn} (hwf : WF n dynR s)
    (hd : findDyn s.dyn r = some d) (i : Nat) (x : Val) :
    joinSt s r d i x = upd s r (requeue d i) (joinRows (rowsOf s r) i x) := by
  unfold joinSt upd joinRows requeue
  by_cases hc : d.new.contains i = true
  · simp only [hc, Bool.not_true, Bool.false_eq_true, if_false, if_true]
    rw [setDyn_self hwf hd]
  · have hc' : d.new.contains i = false := by simpa using hc
    simp only [hc', Bool.not_false, if_true, Bool.false_eq_true, if_false]

/-! ## the invariants -/

/-- relation rows: the input rows, then pairwise distinct derived rows, none of them an input row -/
def SetRows (inp : RelId → List Tuple) (r : RelId) (rows : List Tuple) : Prop :=
  ∃ derived, rows = inp r ++ derived ∧ derived.Nodup ∧ ∀ t ∈ derived, t ∉ inp r

theorem SetRows.append {inp : RelId → List Tuple} {r : RelId} {rows : List Tuple} {t : Tuple}
    (h : SetRows inp r rows) (hn : t ∉ rows) : SetRows inp r (rows ++ [t]) := by
  obtain ⟨derived, rfl, hnd, hdis⟩ := h
  refine ⟨derived ++ [t], by simp, ?_, ?_⟩
  · rw [List.nodup_append]
    refine ⟨hnd, by simp, ?_⟩
    intro a ha b hb
    simp at hb; subst hb
    intro hab; subst hab
    exact hn (List.mem_append_right _ ha)
  · intro x hx
    rcases List.mem_append.mp hx with hx | hx
    · exact hdis x hx
    · simp at hx; subst hx
      intro hin; exact hn (List.mem_append_left _ hin)

section Inv
variable (I : Interp E B G P A) (L : LatOrder I) (p : Program E B G P A) (inp : RelId → List Tuple)
  (dynR : List RelId)

/-- the databases the result must stay below (nothing, unless the program is monotone) -/
def Tgt (M : DB) : Prop := MonotoneProg I L p ∧ KeyUnique p M ∧ LClosed I L p (inDB p inp) M

def Below (s : SccSt) : Prop := ∀ M, Tgt I L p inp M → DBLe I L p (FactsS s) M

def BelowF (f : Fact) : Prop := ∀ M, Tgt I L p inp M → Dominated I L p M f

structure LInv (s : SccSt) : Prop where
  wf : WF p.rels.length dynR s
  dlt : ∀ r, dynR.contains r = true → r < p.rels.length
  keys : ∀ r, (declOf p r).lat = true → ((rowsOf s r).map keyOf).Nodup
  relset : ∀ r, r < p.rels.length → (declOf p r).lat = false → SetRows inp r (rowsOf s r)
  below : Below I L p inp s

structure LExt (s s' : SccSt) : Prop where
  nondyn : ∀ r, findDyn s.dyn r = none → findDyn s'.dyn r = none ∧ relSt s'.rels r = relSt s.rels r
  td : ∀ r d, findDyn s.dyn r = some d → ∃ d', findDyn s'.dyn r = some d' ∧ d'.total = d.total ∧ d'.delta = d.delta ∧
    (∀ i ∈ d.new, i ∈ d'.new) ∧
    (∀ i, rowAt (rowsOf s' r) i ≠ rowAt (rowsOf s r) i → i ∈ d'.new)
  len : ∀ r, (rowsOf s r).length ≤ (rowsOf s' r).length
  dble : DBLe I L p (FactsS s) (FactsS s')
  unchanged : s'.changed = false → s' = s

theorem LExt.refl (s : SccSt) : LExt I L p s s :=
  ⟨fun _ h => ⟨h, rfl⟩, fun _ d h => ⟨d, h, rfl, rfl, fun _ hi => hi, fun _ hne => absurd rfl hne⟩,
   fun _ => Nat.le_refl _, DBLe.refl _, fun _ => rfl⟩

variable {I L p}

theorem LExt.trans {a b c : SccSt} (h₁ : LExt I L p a b) (h₂ : LExt I L p b c) : LExt I L p a c := by
  refine ⟨?_, ?_, fun r => Nat.le_trans (h₁.len r) (h₂.len r), DBLe.trans h₁.dble h₂.dble, ?_⟩
  · intro r h
    obtain ⟨h1, h2⟩ := h₁.nondyn r h
    obtain ⟨h3, h4⟩ := h₂.nondyn r h1
    exact ⟨h3, h4.trans h2⟩
  · intro r d h
    obtain ⟨d1, hd1, ht1, hdl1, hn1, hc1⟩ := h₁.td r d h
    obtain ⟨d2, hd2, ht2, hdl2, hn2, hc2⟩ := h₂.td r d1 hd1
    refine ⟨d2, hd2, ht2.trans ht1, hdl2.trans hdl1, fun i hi => hn2 i (hn1 i hi), ?_⟩
    intro i hne
    by_cases hab : rowAt (rowsOf b r) i = rowAt (rowsOf a r) i
    · rw [← hab] at hne
      exact hc2 i hne
    · exact hn2 i (hc1 i hab)
  · intro h
    have h1 := h₂.unchanged h
    rw [h1] at h
    rw [h1]
    exact h₁.unchanged h

variable {inp dynR}

theorem LInv.keyUnique {s : SccSt} (h : LInv I L p inp dynR s) : KeyUnique p (FactsS s) := by
  intro r t t' hl ht ht' hk
  exact row_of_key (h.keys r hl) ht ht' hk

theorem LInv.rel_lt {s : SccSt} (h : LInv I L p inp dynR s) {r : RelId} {t : Tuple} (ht : t ∈ rowsOf s r) :
    r < p.rels.length := by
  have := lt_of_mem_rows s.rels r t ht
  rw [h.wf.len] at this; exact this

section UpdInv
variable {s : SccSt} {r : RelId} {d d' : Dyn} {rows' : List Tuple}

theorem LExt_upd (hwf : WF p.rels.length dynR s) (hd : findDyn s.dyn r = some d) (hr : r < p.rels.length)
    (hrel : d'.rel = r) (ht : d'.total = d.total) (hdl : d'.delta = d.delta) (hnew : ∀ i ∈ d.new, i ∈ d'.new)
    (hlen : (rowsOf s r).length ≤ rows'.length)
    (hchg : ∀ i, rowAt rows' i ≠ rowAt (rowsOf s r) i → i ∈ d'.new)
    (hdom : ∀ t ∈ rowsOf s r, Dominated I L p (fun f => f.args ∈ rows') ⟨r, t⟩) :
    LExt I L p s (upd s r d' rows') := by
  have hr' : r < s.rels.length := by rw [hwf.len]; exact hr
  refine ⟨?_, ?_, ?_, ?_, ?_⟩
  · intro r' h0
    have hne : r' ≠ r := by
      intro h; subst h; rw [hd] at h0; cases h0
    exact ⟨by rw [upd_dyn_ne hrel hne]; exact h0, upd_relSt_ne hne⟩
  · intro r' d₀ h0
    by_cases hne : r' = r
    · subst hne
      rw [hd] at h0; cases h0
      refine ⟨d', upd_dyn_self hd hrel, ht, hdl, hnew, ?_⟩
      rw [upd_rows_self hr']; exact hchg
    · refine ⟨d₀, by rw [upd_dyn_ne hrel hne]; exact h0, rfl, rfl, fun _ hi => hi, ?_⟩
      rw [upd_rows_ne hne]
      intro i h; exact absurd rfl h
  · intro r'
    by_cases hne : r' = r
    · subst hne; rw [upd_rows_self hr']; exact hlen
    · rw [upd_rows_ne hne]; exact Nat.le_refl _
  · intro f hf
    by_cases hne : f.rel = r
    · have h1 : Dominated I L p (fun g => g.args ∈ rows') ⟨f.rel, f.args⟩ := by
        have := hdom f.args (by rw [← hne]; exact hf)
        rw [← hne] at this; exact this
      refine Dominated.congr (f := ⟨f.rel, f.args⟩) h1 ?_
      intro t ht
      show t ∈ rowsOf (upd s r d' rows') f.rel
      rw [hne, upd_rows_self hr']; exact ht
    · apply Dominated.of_mem
      show f.args ∈ rowsOf (upd s r d' rows') f.rel
      rw [upd_rows_ne hne]; exact hf
  · intro h; simp [upd] at h

theorem LInv_upd (hinv : LInv I L p inp dynR s) (hd : findDyn s.dyn r = some d) (hr : r < p.rels.length)
    (hrel : d'.rel = r)
    (hcov : ∀ i, i < rows'.length ↔ (i ∈ d'.total ∨ i ∈ d'.delta ∨ i ∈ d'.new))
    (hkeys : (declOf p r).lat = true → (rows'.map keyOf).Nodup)
    (hset : (declOf p r).lat = false → SetRows inp r rows')
    (hbelow : ∀ M, Tgt I L p inp M → ∀ t ∈ rows', Dominated I L p M ⟨r, t⟩) :
    LInv I L p inp dynR (upd s r d' rows') := by
  have hr' : r < s.rels.length := by rw [hinv.wf.len]; exact hr
  refine ⟨WF_upd hinv.wf hd hr hrel hcov, hinv.dlt, ?_, ?_, ?_⟩
  · intro r' hl
    by_cases hne : r' = r
    · subst hne; rw [upd_rows_self hr']; exact hkeys hl
    · rw [upd_rows_ne hne]; exact hinv.keys r' hl
  · intro r' hr'n hl
    by_cases hne : r' = r
    · subst hne; rw [upd_rows_self hr']; exact hset hl
    · rw [upd_rows_ne hne]; exact hinv.relset r' hr'n hl
  · intro M hM f hf
    by_cases hne : f.rel = r
    · have hf' : f.args ∈ rowsOf (upd s r d' rows') f.rel := hf
      rw [hne, upd_rows_self hr'] at hf'
      have := hbelow M hM f.args hf'
      rw [← hne] at this; exact this
    · have hf' : f.args ∈ rowsOf (upd s r d' rows') f.rel := hf
      rw [upd_rows_ne hne] at hf'
      exact hinv.below M hM f hf'

end UpdInv

end Inv

end AscentVerif.Engine
