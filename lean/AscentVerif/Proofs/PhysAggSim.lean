import AscentVerif.Proofs.PhysAggIdx
/-!
# The multiplicity side of the simulation relation

`Sim` / `SimSt` (`Proofs/PhysSim.lean`) relate every physical index version to its abstract bag by membership.  `SimM` /
`SimStM` add the multiplicities (`IxM`) of the hash indices; they are preserved by the head update, the merge, SCC entry
and exit and `update_indices`, alongside `Sim`.
-/
namespace AscentVerif.Phys
open AscentVerif AscentVerif.Engine AscentVerif.Index

variable {E B G P A : Type}

theorem Rel2.and {α β : Type} {R S : α → β → Prop} {l : List α} {l' : List β} (h₁ : Rel2 R l l') (h₂ : Rel2 S l l') :
    Rel2 (fun a b => R a b ∧ S a b) l l' := by
  induction h₁ with
  | nil => cases h₂; exact .nil
  | cons hab _ ih =>
    cases h₂ with
    | cons hab' h₂' => exact .cons ⟨hab, hab'⟩ (ih h₂')

theorem Rel2.imp {α β : Type} {R S : α → β → Prop} (h : ∀ a b, R a b → S a b) {l : List α} {l' : List β}
    (hr : Rel2 R l l') : Rel2 S l l' := by
  induction hr with
  | nil => exact .nil
  | cons hab _ ih => exact .cons (h _ _ hab) ih

theorem Rel2.findR {R : Dyn → PDyn → Prop} (hrel : ∀ d pd, R d pd → pd.rel = d.rel) {l : List Dyn} {l' : List PDyn}
    (h : Rel2 R l l') (r : RelId) :
    (findDyn l r = none ∧ findPDyn l' r = none) ∨
      ∃ d pd, findDyn l r = some d ∧ findPDyn l' r = some pd ∧ R d pd := by
  induction h with
  | nil => exact .inl ⟨rfl, rfl⟩
  | @cons d pd l l' hab _ ih =>
    rw [findDyn_cons, findPDyn_cons, hrel d pd hab]
    cases hr : d.rel == r with
    | true => exact .inr ⟨d, pd, rfl, rfl, hab⟩
    | false => exact ih

/-! ## the relation -/

structure TriM (rows : List Tuple) (d : Dyn) (idxs : List (List Nat × Tri PIx)) : Prop where
  it : ∀ ci ∈ idxs, IxM rows d.total ci.1 ci.2.total
  id : ∀ ci ∈ idxs, IxM rows d.delta ci.1 ci.2.delta
  inw : ∀ ci ∈ idxs, IxM rows d.new ci.1 ci.2.new

def DynM (rows : RelId → List Tuple) (d : Dyn) (pd : PDyn) : Prop := TriM (rows d.rel) d pd.idxs

structure SimM (a : SccSt) (ph : PScc) : Prop where
  dyn : Rel2 (DynM fun r => (relSt a.rels r).rows) a.dyn ph.dyn
  nd : ∀ r, findDyn a.dyn r = none →
    ∀ ci ∈ (prel ph.rels r).idxs, IxM (relSt a.rels r).rows (relSt a.rels r).idx ci.1 ci.2

def SimStM (st : St) (pst : PSt) : Prop :=
  ∀ r, ∀ ci ∈ (prel pst r).idxs, IxM (relSt st r).rows (relSt st r).idx ci.1 ci.2

/-- both relations on the dynamic parts, pairwise -/
theorem sim_both {p : Program E B G P A} {ix : IxSets} {a : SccSt} {ph : PScc} (hsim : Sim p ix a ph) (hm : SimM a ph) :
    Rel2 (fun d pd => DynOk ix (fun r => (relSt a.rels r).rows) d pd ∧ DynM (fun r => (relSt a.rels r).rows) d pd)
      a.dyn ph.dyn :=
  Rel2.and hsim.dyn hm.dyn

theorem sim_find {p : Program E B G P A} {ix : IxSets} {a : SccSt} {ph : PScc} (hsim : Sim p ix a ph) (hm : SimM a ph)
    (r : RelId) :
    (findDyn a.dyn r = none ∧ findPDyn ph.dyn r = none) ∨
      ∃ d pd, findDyn a.dyn r = some d ∧ findPDyn ph.dyn r = some pd ∧
        DynOk ix (fun r => (relSt a.rels r).rows) d pd ∧ DynM (fun r => (relSt a.rels r).rows) d pd :=
  Rel2.findR (fun _ _ h => h.1.rel) (sim_both hsim hm) r

/-! ## the head update -/

theorem push_simM {p : Program E B G P A} {ix : IxSets} {dynR : List RelId} {n : Nat} {a : SccSt} {ph : PScc}
    (hsim : Sim p ix a ph) (hm : SimM a ph) (hwf : WF n dynR a) {r : RelId} {d : Dyn} {pd : PDyn}
    (hd : findDyn a.dyn r = some d) (hok : DynOk ix (fun r => (relSt a.rels r).rows) d pd)
    (hdm : DynM (fun r => (relSt a.rels r).rows) d pd) (hr : r < a.rels.length) (row : Tuple) (newFull : FIx) :
    SimM (pushRow a r d row) (pushP ph r pd row newFull) := by
  have hrel : d.rel = r := findDyn_rel hd
  have hprel : pd.rel = r := by rw [hok.rel, hrel]
  have tri : TriM (relSt a.rels r).rows d pd.idxs := by
    have := hdm; unfold DynM at this; rw [hrel] at this; exact this
  have hbT : ∀ i ∈ d.total, i < (relSt a.rels r).rows.length := fun i hi => (hwf.cover r d hd i).mpr (.inl hi)
  have hbD : ∀ i ∈ d.delta, i < (relSt a.rels r).rows.length := fun i hi => (hwf.cover r d hd i).mpr (.inr (.inl hi))
  have hbN : ∀ i ∈ d.new, i < (relSt a.rels r).rows.length := fun i hi => (hwf.cover r d hd i).mpr (.inr (.inr hi))
  have hrows_self : (relSt (pushRow a r d row).rels r).rows = (relSt a.rels r).rows ++ [row] := by
    simp [pushRow, relSt_setNth_self _ _ _ hr]
  have hrows_ne : ∀ r', r' ≠ r → relSt (pushRow a r d row).rels r' = relSt a.rels r' := by
    intro r' hne; simp [pushRow, relSt_setNth_ne _ _ _ _ hne]
  have hprows_ne : ∀ r', r' ≠ r → prel (pushP ph r pd row newFull).rels r' = prel ph.rels r' := by
    intro r' hne; simp [pushP, prel_setNth_ne _ _ _ _ hne]
  refine ⟨?_, ?_⟩
  · show Rel2 _ (setDyn a.dyn _) (setPDyn ph.dyn _)
    rw [setDyn_eq_map]
    unfold setPDyn
    refine Rel2.map _ _ ?_ (sim_both hsim hm)
    rintro x px ⟨hx, hxm⟩
    have hxr : px.rel = x.rel := hx.rel
    by_cases hc : x.rel = r
    · have h1 : (x.rel == ({ d with new := d.new ++ [(relSt a.rels r).rows.length] } : Dyn).rel) = true := by
        simp [hc, hrel]
      have h2 : (px.rel == pd.rel) = true := by simp [hxr, hc, hprel]
      simp only [h1, h2, if_true]
      show TriM (relSt (pushRow a r d row).rels d.rel).rows _ _
      rw [hrel, hrows_self]
      refine ⟨?_, ?_, ?_⟩
      · intro ci hci
        obtain ⟨c, hc', rfl⟩ := List.mem_map.mp hci
        exact IxM_rows_append row (tri.it c hc') hbT
      · intro ci hci
        obtain ⟨c, hc', rfl⟩ := List.mem_map.mp hci
        exact IxM_rows_append row (tri.id c hc') hbD
      · intro ci hci
        obtain ⟨c, hc', rfl⟩ := List.mem_map.mp hci
        exact IxM_insert row (tri.inw c hc') hbN
    · have h1 : (x.rel == ({ d with new := d.new ++ [(relSt a.rels r).rows.length] } : Dyn).rel) = false := by
        simp [hc, hrel]
      have h2 : (px.rel == pd.rel) = false := by simp [hxr, hc, hprel]
      simp only [h1, h2, Bool.false_eq_true, if_false]
      show TriM (relSt (pushRow a r d row).rels x.rel).rows _ _
      rw [hrows_ne _ hc]
      exact hxm
  · intro r' hnd
    have hnd0 : findDyn a.dyn r' = none := by
      have : findDyn (pushRow a r d row).dyn r' = none := hnd
      simp only [pushRow, findDyn_setDyn, Option.map_eq_none_iff] at this
      exact this
    have hne : r' ≠ r := by intro h; rw [h, hd] at hnd0; cases hnd0
    rw [hrows_ne r' hne, hprows_ne r' hne]
    exact hm.nd r' hnd0

/-- the two engines take the same branch of the head update -/
theorem headRel_cases {p : Program E B G P A} {ix : IxSets} {dynR : List RelId} {n : Nat} {a : SccSt} {ph : PScc}
    (hsim : Sim p ix a ph) (hm : SimM a ph) (hwf : WF n dynR a) (hlt : ∀ r, dynR.contains r = true → r < n)
    (r : RelId) (row : Tuple) :
    (Engine.headRel a r row = a ∧ Phys.headRel ph r row = ph) ∨
      ∃ d pd newFull, findDyn a.dyn r = some d ∧ DynOk ix (fun r => (relSt a.rels r).rows) d pd ∧
        DynM (fun r => (relSt a.rels r).rows) d pd ∧ r < a.rels.length ∧
        Engine.headRel a r row = pushRow a r d row ∧ Phys.headRel ph r row = pushP ph r pd row newFull := by
  rcases sim_find hsim hm r with ⟨h1, h2⟩ | ⟨d, pd, h1, h2, hok, hdm⟩
  · rw [headRel_eq, physHeadRel_eq, h1, h2]; exact .inl ⟨rfl, rfl⟩
  · have hrel : d.rel = r := findDyn_rel h1
    have hr : r < a.rels.length := by
      rw [hwf.len]; apply hlt
      rw [← hwf.dyn_iff, h1]; rfl
    have tri : TriOk (ix r) (relSt a.rels r).rows d pd.full pd.idxs := by
      have := hok.tri; rw [hrel] at this; exact this
    have hbN : ∀ i ∈ d.new, i < (relSt a.rels r).rows.length := fun i hi => (hwf.cover r d h1 i).mpr (.inr (.inr hi))
    have eT := contains_eq_of_fullOk tri.ft row
    have eD := contains_eq_of_fullOk tri.fd row
    have eN := contains_eq_of_fullOk tri.fn row
    have eA : Engine.headRel a r row =
        if ((bagTuples (relSt a.rels r).rows d.total).contains row || (bagTuples (relSt a.rels r).rows d.delta).contains row
          || (bagTuples (relSt a.rels r).rows d.new).contains row) = true then a else pushRow a r d row := by
      rw [headRel_eq, h1]; rfl
    have eP : Phys.headRel ph r row =
        if (FullIdx.containsKey pd.full.total row || FullIdx.containsKey pd.full.delta row) = true then ph
        else if (!(FullIdx.insertIfNotPresent pd.full.new row ()).2) = true then ph
        else pushP ph r pd row (FullIdx.insertIfNotPresent pd.full.new row ()).1 := by
      rw [physHeadRel_eq, h2]
    rw [eA, eP, ← eT, ← eD, ← eN]
    by_cases h12 : (FullIdx.containsKey pd.full.total row || FullIdx.containsKey pd.full.delta row) = true
    · rw [if_pos h12, if_pos (by rw [h12]; rfl)]; exact .inl ⟨rfl, rfl⟩
    · rw [if_neg h12]
      have h12' : (FullIdx.containsKey pd.full.total row || FullIdx.containsKey pd.full.delta row) = false := by
        simpa using h12
      by_cases hN : FullIdx.containsKey pd.full.new row = true
      · rw [if_pos (by rw [hN]; simp), insertIfNotPresent_present hN]
        exact .inl ⟨rfl, rfl⟩
      · have hN' : FullIdx.containsKey pd.full.new row = false := by simpa using hN
        obtain ⟨hi2, _⟩ := FullOk_insertIfNotPresent row tri.fn hbN hN'
        rw [if_neg (by rw [h12', hN']; simp), hi2]
        exact .inr ⟨d, pd, (FullIdx.insertIfNotPresent pd.full.new row ()).1, h1, hok, hdm, hr, rfl, rfl⟩

theorem headRel_simM {p : Program E B G P A} {ix : IxSets} {dynR : List RelId} {n : Nat} {a : SccSt} {ph : PScc}
    (hsim : Sim p ix a ph) (hm : SimM a ph) (hwf : WF n dynR a) (hlt : ∀ r, dynR.contains r = true → r < n) (r : RelId)
    (row : Tuple) : SimM (Engine.headRel a r row) (Phys.headRel ph r row) := by
  rcases headRel_cases hsim hm hwf hlt r row with ⟨e1, e2⟩ | ⟨d, pd, nf, hd, hok, hdm, hr, e1, e2⟩
  · rw [e1, e2]; exact hm
  · rw [e1, e2]; exact push_simM hsim hm hwf hd hok hdm hr row nf

/-! ## the merge, the reset -/

theorem shift_simM {p : Program E B G P A} {ix : IxSets} {a : SccSt} {ph : PScc} (hsim : Sim p ix a ph) (hm : SimM a ph) :
    SimM (Engine.shift a) (Phys.shift ph) := by
  refine ⟨?_, ?_⟩
  · show Rel2 _ (a.dyn.map _) (ph.dyn.map _)
    refine Rel2.map _ _ ?_ (sim_both hsim hm)
    rintro d pd ⟨hd, hdm⟩
    have tri := hd.tri
    have trm : TriM _ d pd.idxs := hdm
    show TriM _ _ (pd.idxs.map fun ci => (ci.1, shiftIx ci.2))
    refine ⟨?_, ?_, ?_⟩
    · intro ci hci
      obtain ⟨c, hc, rfl⟩ := List.mem_map.mp hci
      exact (IxM_shift (trm.it c hc) (trm.id c hc) (trm.inw c hc) (tri.id c hc).1 (tri.it c hc).1).1
    · intro ci hci
      obtain ⟨c, hc, rfl⟩ := List.mem_map.mp hci
      exact (IxM_shift (trm.it c hc) (trm.id c hc) (trm.inw c hc) (tri.id c hc).1 (tri.it c hc).1).2
    · intro ci hci
      obtain ⟨c, hc, rfl⟩ := List.mem_map.mp hci
      show IxM _ [] _ (shiftIx c.2).new
      rw [(IxOk_shift (tri.it c hc) (tri.id c hc) (tri.inw c hc)).2.2]
      exact IxM_nil _ _
  · intro r hnd
    have hnd0 : findDyn a.dyn r = none := by
      rw [findDyn_shift, Option.map_eq_none_iff] at hnd; exact hnd
    exact hm.nd r hnd0

theorem reset_simM {a : SccSt} {ph : PScc} (hm : SimM a ph) :
    SimM { a with changed := false } { ph with changed := false } :=
  ⟨hm.dyn, hm.nd⟩

/-! ## SCC entry -/

theorem enter_simM {st : St} {pst : PSt} (hs : SimStM st pst) (dyn : List RelId) :
    SimM (Engine.enterScc st dyn) (Phys.enterScc pst dyn) := by
  have hrels : (Engine.enterScc st dyn).rels = st := enterScc_rels st dyn
  refine ⟨?_, ?_⟩
  · rw [hrels]
    show Rel2 _ (dyn.map _) (dyn.map _)
    apply Rel2.of_map
    intro r _
    show TriM (relSt st r).rows _ ((prel pst r).idxs.map _)
    refine ⟨?_, ?_, ?_⟩
    · intro ci hci
      obtain ⟨c, _, rfl⟩ := List.mem_map.mp hci
      exact IxM_nil _ _
    · intro ci hci
      obtain ⟨c, hc', rfl⟩ := List.mem_map.mp hci
      exact hs r c hc'
    · intro ci hci
      obtain ⟨c, _, rfl⟩ := List.mem_map.mp hci
      exact IxM_nil _ _
  · intro r hnd ci hci
    rw [hrels]
    rw [findDyn_enter] at hnd
    have hc : dyn.contains r = false := by
      cases h : dyn.contains r with
      | false => rfl
      | true => rw [h] at hnd; simp at hnd
    by_cases hrp : r < pst.length
    · have : prel (Phys.enterScc pst dyn).rels r = prel pst r := by
        simp only [Phys.enterScc, prel_rangeMap _ _ _ hrp, hc, Bool.false_eq_true, if_false]
      rw [this] at hci
      exact hs r ci hci
    · have hr' : pst.length ≤ r := Nat.le_of_not_lt hrp
      have : prel (Phys.enterScc pst dyn).rels r = ⟨[], [], []⟩ := by
        simp only [Phys.enterScc, prel_rangeMap_ge _ _ _ hr']
      rw [this] at hci
      cases hci

/-! ## SCC exit -/

theorem leave_foldM {rowsf : RelId → List Tuple} {L : List Dyn} {L' : List PDyn}
    (hL : Rel2 (fun d pd => pd.rel = d.rel ∧ DynM rowsf d pd) L L') :
    ∀ (st : St) (pst : PSt), st.length = pst.length → (∀ d ∈ L, d.rel < st.length) →
      (∀ r, r ∈ L.map (·.rel) ∨ ∀ ci ∈ (prel pst r).idxs, IxM (rowsf r) (relSt st r).idx ci.1 ci.2) →
      ∀ r, ∀ ci ∈ (prel (L'.foldl leaveStepP pst) r).idxs,
        IxM (rowsf r) (relSt (L.foldl leaveStep st) r).idx ci.1 ci.2 := by
  induction hL with
  | nil =>
    intro st pst _ _ hinv r ci hci
    rcases hinv r with h | h
    · simp at h
    · exact h ci hci
  | @cons d pd L L' hd _ ih =>
    intro st pst hlen hlt hinv
    have hdl : d.rel < st.length := hlt d (by simp)
    have hdlp : pd.rel < pst.length := by rw [hd.1, ← hlen]; exact hdl
    simp only [List.foldl_cons]
    have hlen1 : (leaveStep st d).length = st.length := by simp [leaveStep]
    apply ih (leaveStep st d) (leaveStepP pst pd) (by simp [leaveStep, leaveStepP, hlen])
      (fun d' hd' => by rw [hlen1]; exact hlt d' (List.mem_cons_of_mem _ hd'))
    intro r
    by_cases h : r = d.rel
    · right
      subst h
      have h1 : relSt (leaveStep st d) d.rel = { relSt st d.rel with idx := d.total } := by
        simp only [leaveStep, relSt_setNth_self _ _ _ hdl]
      have h2 : prel (leaveStepP pst pd) d.rel =
          { prel pst pd.rel with full := pd.full.total, idxs := pd.idxs.map fun ci => (ci.1, ci.2.total) } := by
        rw [← hd.1]; simp only [leaveStepP, prel_setNth_self _ _ _ hdlp]
      rw [h1, h2]
      intro ci hci
      obtain ⟨c, hc, rfl⟩ := List.mem_map.mp hci
      exact hd.2.it c hc
    · rcases hinv r with h' | h'
      · left
        simp only [List.map_cons, List.mem_cons] at h'
        rcases h' with h' | h'
        · exact absurd h' h
        · exact h'
      · right
        have h1 : relSt (leaveStep st d) r = relSt st r := by simp only [leaveStep, relSt_setNth_ne _ _ _ _ h]
        have hp : r ≠ pd.rel := by rw [hd.1]; exact h
        have h2 : prel (leaveStepP pst pd) r = prel pst r := by
          simp only [leaveStepP, prel_setNth_ne _ _ _ _ hp]
        rw [h1, h2]; exact h'

theorem leave_simM {p : Program E B G P A} {ix : IxSets} {a : SccSt} {ph : PScc} (hsim : Sim p ix a ph) (hm : SimM a ph)
    (hdlt : ∀ d ∈ a.dyn, d.rel < a.rels.length) : SimStM (Engine.leaveScc a) (Phys.leaveScc ph) := by
  intro r ci hci
  rw [leaveScc_eq] at ⊢
  rw [physLeaveScc_eq] at hci
  rw [leave_rows r a.dyn a.rels hdlt]
  refine leave_foldM (rowsf := fun r => (relSt a.rels r).rows)
    (Rel2.imp (fun d pd h => ⟨h.1.rel, h.2⟩) (sim_both hsim hm)) a.rels ph.rels hsim.len hdlt ?_ r ci hci
  intro r
  cases hd : findDyn a.dyn r with
  | none => exact .inr (hm.nd r hd)
  | some d => exact .inl (List.mem_map.mpr ⟨d, findDyn_mem hd, findDyn_rel hd⟩)

/-! ## `update_indices` -/

theorem updateIndices_simM (ix : IxSets) (s : PSt) :
    SimStM (Engine.updateIndices (absSt s)) (Phys.updateIndices ix s) := by
  intro r ci hci
  by_cases hr : r < s.length
  · have hprel : prel (Phys.updateIndices ix s) r =
        { rows := (prel s r).rows, full := buildFull (prel s r).rows,
          idxs := (ix r).map fun c => (c, buildIx c (prel s r).rows) } := by
      simp only [Phys.updateIndices, prel_rangeMap _ _ _ hr]
    rw [hprel] at hci
    obtain ⟨c, _, rfl⟩ := List.mem_map.mp hci
    rw [relSt_updateIndices, relSt_absSt]
    exact IxM_build _ _
  · have hr' : s.length ≤ r := Nat.le_of_not_lt hr
    have : prel (Phys.updateIndices ix s) r = ⟨[], [], []⟩ := by
      simp only [Phys.updateIndices, prel_rangeMap_ge _ _ _ hr']
    rw [this] at hci
    cases hci

end AscentVerif.Phys
